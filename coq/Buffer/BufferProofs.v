(* Proofs for property C08 about the model in BufferModel.v.

   inv b        the representation invariant of one Buffer variable (own b = Some a: the window
                is inside the allocation of capf+1 <= max_bytes cells and the cell at [stop] holds
                0; own b = None: capf = 0 and the window is inside the attached range, itself
                shorter than max_bytes, or is the empty window on a _capacity field)
   ref b q      the bytes the model exposes agree with the reference queue wherever the queue
                is specified
   okun need r P  "the [need] data bytes fit into one object -> r = Ok b' with P b'; they do not ->
                r = Err AllocFail"
   Every method is shown, from [inv], either to succeed (no access outside the own allocation /
   the attached range, no write into foreign memory), to re-establish [inv] and to expose exactly
   the expected bytes - or, exactly when the bytes it needs do not fit, to fail in new[].  The
   world-level statements follow by case analysis on the op. *)
From Coq Require Import ZArith NArith List Bool Arith Lia.
From Common Require Import ListAux.
From Buffer Require Import BufferSpec BufferModel BufferLists.
Import ListNotations.

(* ---- sizes: what fits, what new[] answers, sums that do not wrap --------------------------- *)

(* n data bytes and their terminator fit into one object *)
Notation small n := (N.of_nat n < max_bytes)%N (only parsing).

Lemma fitsN_true n : fitsN n = true <-> (n < max_bytes)%N.
Proof. unfold fitsN. apply N.ltb_lt. Qed.

Lemma fitsN_false n : fitsN n = false <-> (max_bytes <= n)%N.
Proof. unfold fitsN. apply N.ltb_ge. Qed.

Lemma fits_small n : fits n = true <-> small n.
Proof. unfold fits. apply fitsN_true. Qed.

Lemma allocate_ok c : (c < max_bytes)%N -> allocate c = Ok (new_array (N.to_nat c + 1)).
Proof.
  intro H. unfold allocate, succ_usize, new_bytes, alloc_limit.
  assert (E1 : (c =? usize_max)%N = false) by (apply N.eqb_neq; unfold max_bytes, usize_max in *; lia).
  rewrite E1.
  assert (E2 : (c + 1 =? 0)%N = false) by (apply N.eqb_neq; lia).
  rewrite E2.
  assert (E3 : (c + 1 <=? max_bytes)%N = true) by (apply N.leb_le; lia).
  rewrite E3. do 2 f_equal. lia.
Qed.

(* every request that does not fit fails, (usize)-1 included *)
Lemma allocate_fail c : (max_bytes <= c)%N -> allocate c = Err AllocFail.
Proof.
  intro H. unfold allocate, succ_usize, new_bytes, alloc_limit.
  destruct (c =? usize_max)%N eqn:E1.
  - cbn [N.eqb]. replace (c <=? max_bytes)%N with false; [reflexivity|].
    symmetry. apply N.leb_gt. apply N.eqb_eq in E1. unfold max_bytes, usize_max in *. lia.
  - assert (E2 : (c + 1 =? 0)%N = false) by (apply N.eqb_neq; lia).
    rewrite E2. replace (c + 1 <=? max_bytes)%N with false; [reflexivity|].
    symmetry. apply N.leb_gt. lia.
Qed.

Lemma add_usize_small a b : small a -> small b -> add_usize (N.of_nat a) (N.of_nat b) = N.of_nat (a + b).
Proof.
  unfold add_usize. intros Ha Hb. rewrite N.mod_small; [lia|].
  unfold max_bytes, usize_max in *. lia.
Qed.

(* before fixes/C08/10 the request was new char[capacity + 1]: for capacity = 2^64-1 a block of 0 cells *)
Lemma allocate_wrapping_refuted_lemma :
  exists c, (max_bytes <= c)%N /\ allocate_wrapping c = Ok [] /\ wr [] 0 [Some 0%Z] = Err OutOfBounds.
Proof.
  exists usize_max. split; [unfold max_bytes, usize_max; lia|]. split; reflexivity.
Qed.

(* "the request fits -> the call succeeds with P; it does not fit -> the call fails as an allocation" *)
Definition okun (need : N) (r : res buf) (P : buf -> Prop) : Prop :=
  if fitsN need then exists b', r = Ok b' /\ P b' else r = Err AllocFail.

Ltac okun_cases F :=
  unfold okun;
  match goal with |- context [fitsN ?n] => destruct (fitsN n) eqn:F; [apply fitsN_true in F | apply fitsN_false in F] end.

(* ---- invariant and abstraction ---------------------------------------------------------- *)

Definition inv (b : buf) : Prop :=
  match own b with
  | Some a => wb b = BOwn /\ length a = capf b + 1 /\ start b <= stop b /\ stop b <= capf b
              /\ nth_error a (stop b) = Some (Some 0%Z) /\ small (capf b)
  | None => capf b = 0 /\
            match wb b with
            | BOwn => False
            | BReg r => start b <= stop b /\ stop b <= length r /\ small (length r)
            | BCap _ => start b = 0 /\ stop b = 0
            end
  end.

Definition ref (b : buf) (q : queue) : Prop := Forall2 cell_ref (exposed b) q.
Definition winv (w : world) : Prop := Forall inv w.
Definition wref (w : world) (qs : list queue) : Prop := Forall2 ref w qs.

(* the exposed bytes in closed form *)
Definition view (b : buf) : list cell :=
  match own b with
  | Some a => slice a (start b) (stop b - start b)
  | None => match wb b with
            | BReg r => known (slice r (start b) (stop b - start b))
            | _ => []
            end
  end.

Lemma rd_win_prefix b k : inv b -> k <= stop b - start b -> rd_win b (start b) k = Ok (firstn k (view b)).
Proof.
  intros I Hk. unfold inv in I. unfold rd_win, view.
  destruct (own b) as [a|] eqn:Eo.
  - destruct I as (Hw & Hl & Hse & Hec & Ht & Hsm). rewrite Hw.
    rewrite rd_ok by lia. f_equal. list_eq.
  - destruct I as (Hc & I). destruct (wb b) as [|r|v] eqn:Ew; [contradiction| |].
    + destruct I as (Hse & Her & Hsr).
      replace (start b + k <=? length r) with true by (symmetry; apply Nat.leb_le; lia).
      f_equal. unfold known. list_eq.
    + destruct I as [Hs He]. rewrite Hs.
      replace k with 0 by lia. reflexivity.
Qed.

Lemma view_length b : inv b -> length (view b) = stop b - start b.
Proof.
  intros I. unfold inv in I. unfold view.
  destruct (own b) as [a|] eqn:Eo.
  - destruct I as (Hw & Hl & Hse & Hec & Ht & Hsm). len. reflexivity.
  - destruct I as (Hc & I). destruct (wb b) as [|r|v] eqn:Ew; [contradiction| |].
    + destruct I as (Hse & Her & Hsr). len. reflexivity.
    + destruct I as [Hs He]. cbn [length]. lia.
Qed.

Lemma inv_le b : inv b -> start b <= stop b.
Proof.
  unfold inv. destruct (own b); [lia|]. destruct (wb b); lia.
Qed.

Lemma win_inv b : inv b -> win b = Ok (view b).
Proof.
  intro I. unfold win, size. rewrite rd_win_prefix by (auto; lia).
  f_equal. rewrite <- (view_length b I). apply firstn_all.
Qed.

Lemma exposed_inv b : inv b -> exposed b = view b.
Proof. intro I. unfold exposed. rewrite win_inv by exact I. reflexivity. Qed.

Lemma exposed_length b : inv b -> length (exposed b) = size b.
Proof. intro I. rewrite exposed_inv by exact I. apply view_length; exact I. Qed.

(* ---- the common tail of every owning branch: write the terminator ------------------------ *)

Lemma finish_own a s e c :
  length a = c + 1 -> s <= e -> e <= c -> small c ->
  exists b', set_terminator (mkbuf (Some a) BOwn s e c) = Ok b' /\ inv b' /\
             exposed b' = slice a s (e - s) /\ owns b' = true /\ capf b' = c /\ start b' = s /\ stop b' = e.
Proof.
  intros Hl Hse Hec Hsm.
  exists (mkbuf (Some (splice a e [Some 0%Z])) BOwn s e c).
  assert (I : inv (mkbuf (Some (splice a e [Some 0%Z])) BOwn s e c)).
  { unfold inv; cbn [own wb start stop capf]. repeat split; try lia; try exact Hsm.
    - len. exact Hl.
    - nth_at. }
  split; [|split; [exact I|split; [|repeat split]]].
  - unfold set_terminator, wr_win; cbn [own wb start stop capf].
    rewrite wr_ok by (cbn [length]; lia). reflexivity.
  - rewrite exposed_inv by exact I. unfold view; cbn [own wb start stop capf]. list_eq.
Qed.

Lemma splice_same {A} (a : list A) e x : nth_error a e = Some x -> splice a e [x] = a.
Proof.
  intro H. assert (He : e < length a) by (apply nth_error_Some; congruence).
  apply nth_error_ext'; intro i. rewrite nth_error_splice by lia. cbn [length].
  destruct (i <? e) eqn:E1; [reflexivity|]. apply Nat.ltb_ge in E1.
  destruct (i <? e + 1) eqn:E2; [|reflexivity]. apply Nat.ltb_lt in E2.
  replace i with e by lia. rewrite Nat.sub_diag. cbn [nth_error]. symmetry; exact H.
Qed.

Lemma terminate_ok b : inv b -> terminate_if_owned b = Ok b.
Proof.
  intro I. unfold inv in I. unfold terminate_if_owned, set_terminator, wr_win.
  destruct b as [o w s e c]; cbn [own wb start stop capf] in *.
  destruct o as [a|]; [|reflexivity].
  destruct I as (Hw & Hl & Hse & Hec & Ht & Hsm). subst w.
  rewrite wr_ok by (cbn [length]; lia). cbn [bind]. rewrite splice_same by exact Ht. reflexivity.
Qed.

(* ---- assign / operator= ------------------------------------------------------------------ *)

Lemma copy_in_ok a d w s e c :
  length a = c + 1 -> length d <= c -> small c ->
  exists b', copy_in (mkbuf (Some a) w s e c) d = Ok b' /\ inv b' /\ exposed b' = d.
Proof.
  intros Hl Hd Hsm. unfold copy_in; cbn [own wb start stop capf].
  rewrite wr_ok by lia. cbn [bind].
  destruct (finish_own (splice a 0 d) 0 (length d) c) as (b' & H1 & H2 & H3 & _);
    [len; lia | lia | lia | exact Hsm |].
  exists b'. split; [exact H1|split; [exact H2|]]. rewrite H3. list_eq.
Qed.

(* the window of a Buffer that satisfies the invariant fits *)
Lemma inv_small b : inv b -> small (size b).
Proof.
  unfold inv, size. destruct (own b).
  - intros (_ & _ & _ & Hec & _ & Hsm). lia.
  - intros (_ & I). destruct (wb b); [contradiction| |].
    + destruct I as (_ & Her & Hsr). lia.
    + destruct I as [_ He]. rewrite He. unfold max_bytes. lia.
Qed.

Lemma inv_cap_small b : inv b -> small (capf b).
Proof.
  unfold inv. destruct (own b).
  - intros (_ & _ & _ & _ & _ & Hsm). exact Hsm.
  - intros (Hc & _). rewrite Hc. unfold max_bytes. lia.
Qed.

Lemma assign_ok b d : inv b -> okun (N.of_nat (length d)) (assign_ b d) (fun b' => inv b' /\ exposed b' = d).
Proof.
  intro I. unfold assign_.
  destruct (capf b <? length d) eqn:E.
  - okun_cases F.
    + rewrite allocate_ok by exact F. cbn [bind]. rewrite Nat2N.id.
      apply copy_in_ok; [len; lia | lia | exact F].
    + rewrite allocate_fail by exact F. reflexivity.
  - apply Nat.ltb_ge in E.
    assert (F : fitsN (N.of_nat (length d)) = true).
    { apply fitsN_true. pose proof (inv_cap_small b I) as Hc. lia. }
    unfold okun. rewrite F.
    pose proof I as I0. unfold inv in I.
    destruct (own b) as [a|] eqn:Eo.
    + destruct I as (Hw & Hl & Hse & Hec & Ht & Hsm).
      destruct b as [o w s e c]; cbn [own wb start stop capf] in *. subst o.
      apply copy_in_ok; assumption.
    + destruct I as (Hc & I).
      assert (Hd : d = []) by (destruct d; [reflexivity|cbn [length] in E; lia]).
      eexists. split; [reflexivity|].
      assert (I' : inv (mkbuf None (wb b) (start b) (start b) (capf b))).
      { unfold inv; cbn [own wb start stop capf]. split; [exact Hc|].
        destruct (wb b); [contradiction|lia|lia]. }
      split; [exact I'|]. rewrite exposed_inv by exact I'. unfold view; cbn [own wb start stop capf].
      subst d. rewrite Nat.sub_diag. destruct (wb b); reflexivity.
Qed.

(* ---- prepend: head-room / in-place shift / reallocate -------------------------------------- *)

Lemma prepend_realloc_ok b d : inv b ->
  okun (N.of_nat (length d + size b)) (prepend_realloc b d (N.of_nat (length d + size b)))
       (fun b' => inv b' /\ exposed b' = d ++ exposed b).
Proof.
  intro I. unfold prepend_realloc. okun_cases F.
  - rewrite allocate_ok by exact F. cbn [bind]. rewrite Nat2N.id.
    rewrite wr_ok by (len; lia). cbn [bind].
    rewrite rd_win_prefix by (auto; unfold size; lia). cbn [bind].
    pose proof (view_length b I) as Hv. unfold size in *.
    rewrite firstn_all2 by lia.
    rewrite wr_ok by (len; lia). cbn [bind].
    set (req := length d + (stop b - start b)) in *.
    destruct (finish_own (splice (splice (new_array (req + 1)) 0 d) (length d) (view b)) 0 req req) as (b' & H1 & H2 & H3 & _);
      [len; lia | lia | lia | exact F |].
    exists b'. split; [exact H1|split; [exact H2|]]. rewrite H3, exposed_inv by exact I.
    subst req. list_eq.
  - rewrite allocate_fail by exact F. reflexivity.
Qed.

Lemma prepend_ok b d : inv b -> small (length d) ->
  okun (N.of_nat (length d + size b)) (prepend_ b d) (fun b' => inv b' /\ exposed b' = d ++ exposed b).
Proof.
  intros I Hd. pose proof (exposed_inv b I) as Ex. pose proof I as I0. pose proof (inv_small b I) as Hs.
  unfold inv in I. unfold view in Ex. unfold prepend_, headroom.
  destruct (own b) as [a|] eqn:Eo.
  - destruct I as (Hw & Hl & Hse & Hec & Ht & Hsm). rewrite Hw. cbn [bind].
    destruct (length d <=? start b) eqn:Eh.
    + (* head-room *)
      apply Nat.leb_le in Eh.
      assert (F : fitsN (N.of_nat (length d + size b)) = true) by (apply fitsN_true; unfold size; lia).
      unfold okun. rewrite F.
      unfold wr_win; cbn [own wb start stop capf].
      rewrite wr_ok by lia. cbn [bind].
      eexists. split; [reflexivity|].
      assert (I' : inv (mkbuf (Some (splice a (start b - length d) d)) BOwn (start b - length d) (stop b) (capf b))).
      { unfold inv; cbn [own wb start stop capf]. repeat split; try lia.
        - len. exact Hl.
        - nth_at. }
      split; [exact I'|]. rewrite exposed_inv by exact I'. unfold view; cbn [own wb start stop capf].
      rewrite Ex. list_eq.
    + apply Nat.leb_gt in Eh. rewrite add_usize_small by assumption.
      destruct (N.of_nat (length d + size b) <=? N.of_nat (capf b))%N eqn:Ec.
      * (* in-place shift *)
        apply N.leb_le in Ec.
        assert (F : fitsN (N.of_nat (length d + size b)) = true) by (apply fitsN_true; lia).
        unfold okun. rewrite F. rewrite Nat2N.id. unfold size in *.
        rewrite rd_ok by lia. cbn [bind].
        rewrite wr_ok by (len; lia). cbn [bind].
        rewrite wr_ok by (len; lia). cbn [bind].
        destruct (finish_own (splice (splice a (length d) (slice a (start b) (stop b - start b))) 0 d) 0
                             (length d + (stop b - start b)) (capf b)) as (b' & H1 & H2 & H3 & _);
          [len; lia | lia | lia | lia |].
        exists b'. split; [exact H1|split; [exact H2|]]. rewrite H3, Ex. list_eq.
      * apply prepend_realloc_ok; exact I0.
  - cbn [bind]. rewrite add_usize_small by assumption. apply prepend_realloc_ok; exact I0.
Qed.

(* ---- resize: reallocate / in place / compact to front / non-owning ------------------------- *)

Lemma resize_ok b sz : inv b ->
  okun sz (resize_ b sz)
       (fun b' => exists t, inv b' /\ exposed b' = firstn (N.to_nat sz) (exposed b) ++ t /\
                            length t = N.to_nat sz - size b /\ (owns b' = true \/ sz = 0%N)).
Proof.
  intro I. pose proof (exposed_inv b I) as Ex. pose proof (view_length b I) as Hv. pose proof I as I0.
  pose proof (inv_cap_small b I) as Hcs.
  unfold inv in I. unfold resize_.
  destruct (N.of_nat (capf b) <? sz)%N eqn:E.
  - (* reallocate *)
    apply N.ltb_lt in E. okun_cases F.
    + rewrite allocate_ok by exact F. cbn [bind].
      remember (N.to_nat sz) as n eqn:En. unfold size.
      rewrite rd_win_prefix by (auto; lia). cbn [bind].
      rewrite wr_ok by (len; lia). cbn [bind].
      destruct (finish_own (splice (new_array (n + 1)) 0 (firstn (Nat.min (stop b - start b) n) (view b))) 0 n n)
        as (b' & H1 & H2 & H3 & H4 & _); [len; lia | lia | lia | lia |].
      exists b'. split; [exact H1|]. exists (repeat None (n - (stop b - start b))).
      split; [exact H2|split; [|split; [len; reflexivity|left; exact H4]]].
      rewrite H3, Ex. list_eq.
    + rewrite allocate_fail by exact F. reflexivity.
  - apply N.ltb_ge in E.
    assert (F : fitsN sz = true) by (apply fitsN_true; lia).
    unfold okun. rewrite F.
    remember (N.to_nat sz) as n eqn:En.
    assert (E' : n <= capf b) by lia.
    unfold view in Ex.
    destruct (own b) as [a|] eqn:Eo.
    + destruct I as (Hw & Hl & Hse & Hec & Ht & Hsm). rewrite Hw.
      destruct (start b + n <=? capf b) eqn:Ei.
      * (* in place *)
        apply Nat.leb_le in Ei.
        destruct (finish_own a (start b) (start b + n) (capf b)) as (b' & H1 & H2 & H3 & H4 & _); [lia | lia | lia | lia |].
        exists b'. split; [exact H1|]. exists (slice a (stop b) (n - (stop b - start b))).
        split; [exact H2|split; [|split; [unfold size; len; reflexivity|left; exact H4]]].
        rewrite H3, Ex. list_eq.
      * (* compact to front *)
        apply Nat.leb_gt in Ei. unfold size.
        rewrite rd_ok by lia. cbn [bind].
        rewrite wr_ok by (len; lia). cbn [bind].
        destruct (finish_own (splice a 0 (slice a (start b) (stop b - start b))) 0 n (capf b))
          as (b' & H1 & H2 & H3 & H4 & _); [len; lia | lia | lia | lia |].
        exists b'. split; [exact H1|]. exists (slice a (stop b - start b) (n - (stop b - start b))).
        split; [exact H2|split; [|split; [len; reflexivity|left; exact H4]]].
        rewrite H3, Ex. list_eq.
    + destruct I as (Hc & I).
      exists (mkbuf None (wb b) (start b) (start b) (capf b)).
      split; [reflexivity|]. exists [].
      assert (I' : inv (mkbuf None (wb b) (start b) (start b) (capf b))).
      { unfold inv; cbn [own wb start stop capf]. split; [exact Hc|].
        destruct (wb b); [contradiction|lia|lia]. }
      split; [exact I'|]. split; [|split; [cbn [length]; lia|right; lia]].
      rewrite exposed_inv by exact I'. unfold view; cbn [own wb start stop capf].
      replace n with 0 by lia. rewrite Nat.sub_diag. destruct (wb b); reflexivity.
Qed.

(* ---- append = resize, then overwrite the tail, then terminate ------------------------------ *)

Lemma overwrite_tail b d :
  inv b -> length d <= size b -> (owns b = true \/ length d = 0) ->
  exists b', wr_win b (stop b - length d) d = Ok b' /\ inv b' /\
             exposed b' = firstn (size b - length d) (exposed b) ++ d.
Proof.
  intros I Hn Ho. pose proof (exposed_inv b I) as Ex. pose proof I as I0.
  unfold inv in I. unfold view in Ex. unfold size in *. unfold wr_win.
  destruct (own b) as [a|] eqn:Eo.
  - destruct I as (Hw & Hl & Hse & Hec & Ht & Hsm). rewrite Hw.
    rewrite wr_ok by lia. cbn [bind].
    eexists. split; [reflexivity|].
    assert (I' : inv (mkbuf (Some (splice a (stop b - length d) d)) BOwn (start b) (stop b) (capf b))).
    { unfold inv; cbn [own wb start stop capf]. repeat split; try lia.
      - len. exact Hl.
      - nth_at. }
    split; [exact I'|]. rewrite exposed_inv by exact I'. unfold view; cbn [own wb start stop capf].
    rewrite Ex. list_eq.
  - assert (Hd : d = []).
    { destruct Ho as [Ho|Ho]; [unfold owns in Ho; rewrite Eo in Ho; discriminate|].
      destruct d; [reflexivity|discriminate]. }
    subst d. exists b. split; [destruct (wb b); [destruct I as [_ []]|reflexivity|reflexivity]|]. split; [exact I0|].
    cbn [length]. rewrite Nat.sub_0_r, app_nil_r.
    symmetry. apply firstn_all2. rewrite exposed_length by exact I0. unfold size. lia.
Qed.

Lemma append_ok b d : inv b -> small (length d) ->
  okun (N.of_nat (size b + length d)) (append_ b d) (fun b' => inv b' /\ exposed b' = exposed b ++ d).
Proof.
  intros I Hd. unfold append_. pose proof (inv_small b I) as Hs.
  rewrite add_usize_small by assumption.
  pose proof (resize_ok b (N.of_nat (size b + length d)) I) as R. unfold okun in *.
  destruct (fitsN (N.of_nat (size b + length d))) eqn:F; [|rewrite R; reflexivity].
  destruct R as (b1 & H1 & t & I1 & Ex1 & Ht & Ho1). rewrite Nat2N.id in *.
  rewrite H1. cbn [bind].
  pose proof (exposed_length b I) as Hl. pose proof (exposed_length b1 I1) as Hl1.
  rewrite firstn_all2 in Ex1 by lia.
  assert (Hs1 : size b1 = size b + length d).
  { rewrite <- Hl1, Ex1, app_length. lia. }
  destruct (overwrite_tail b1 d I1) as (b2 & H2 & I2 & Ex2); [lia | destruct Ho1; [left; assumption|right; lia] |].
  rewrite H2. cbn [bind]. rewrite terminate_ok by exact I2.
  exists b2. split; [reflexivity|split; [exact I2|]].
  rewrite Ex2, Ex1, Hs1. replace (size b + length d - length d) with (length (exposed b)) by lia.
  rewrite firstn_app, Nat.sub_diag, firstn_all. cbn [firstn]. rewrite app_nil_r. reflexivity.
Qed.

(* after a resize to size + n the old bytes are the first [size] exposed bytes; copying [n] of them,
   found at offset [off] from the new bufferStart, behind them *)
Lemma copy_tail b1 E off n :
  inv b1 -> size b1 = length E + n -> firstn (length E) (exposed b1) = E -> off + n <= length E ->
  (owns b1 = true \/ n = 0) ->
  exists b2, (do d <- rd_win b1 (start b1 + off) n;
              if disjoint (start b1 + off) (stop b1 - n) n then
                do b2 <- wr_win b1 (stop b1 - n) d; terminate_if_owned b2
              else Err Overlap) = Ok b2 /\ inv b2 /\ exposed b2 = E ++ slice E off n.
Proof.
  intros I1 Hs1 HE Hoff Ho1.
  pose proof (exposed_inv b1 I1) as Ex1. pose proof (view_length b1 I1) as Hv1. pose proof (inv_le b1 I1) as Hle.
  change (size b1) with (stop b1 - start b1) in Hs1.
  assert (Hrd : rd_win b1 (start b1 + off) n = Ok (slice (view b1) off n)).
  { pose proof I1 as I. unfold inv in I. unfold rd_win, view.
    destruct (own b1) as [a|] eqn:Eo.
    - destruct I as (Hw & Hl & Hse & Hec & Ht & Hsm). rewrite Hw.
      rewrite rd_ok by lia. f_equal. list_eq.
    - destruct I as (Hc & I). destruct (wb b1) as [|r|v] eqn:Ew; [contradiction| |].
      + destruct I as (Hse & Her & Hsr).
        replace (start b1 + off + n <=? length r) with true by (symmetry; apply Nat.leb_le; lia).
        f_equal. unfold known. list_eq.
      + destruct I as [Hs He]. rewrite Hs, He in *.
        assert (n = 0) by lia. assert (off = 0) by lia. subst n off. reflexivity. }
  rewrite Hrd. cbn [bind].
  replace (disjoint (start b1 + off) (stop b1 - n) n) with true.
  2:{ symmetry. unfold disjoint. apply orb_true_iff. left. apply orb_true_iff. right. apply Nat.leb_le. lia. }
  assert (Hsl : slice (view b1) off n = slice E off n).
  { rewrite <- Ex1. rewrite <- HE. unfold slice. list_eq. }
  rewrite Hsl.
  pose proof (overwrite_tail b1 (slice E off n) I1) as OT.
  assert (Hln : length (slice E off n) = n) by (len; lia).
  rewrite Hln in OT.
  destruct OT as (b2 & H2 & I2 & Ex2); [change (size b1) with (stop b1 - start b1); lia | exact Ho1 |].
  rewrite H2. cbn [bind]. rewrite terminate_ok by exact I2.
  exists b2. split; [reflexivity|split; [exact I2|]].
  rewrite Ex2. change (size b1) with (stop b1 - start b1). rewrite Hs1.
  replace (length E + n - n) with (length E) by lia. rewrite HE. reflexivity.
Qed.

Lemma append_self_ok b : inv b ->
  okun (N.of_nat (size b + size b)) (append_self b) (fun b' => inv b' /\ exposed b' = exposed b ++ exposed b).
Proof.
  intro I. unfold append_self. pose proof (inv_small b I) as Hs.
  rewrite add_usize_small by assumption.
  pose proof (resize_ok b (N.of_nat (size b + size b)) I) as R. unfold okun in *.
  destruct (fitsN (N.of_nat (size b + size b))) eqn:F; [|rewrite R; reflexivity].
  destruct R as (b1 & H1 & t & I1 & Ex1 & Ht & Ho1). rewrite Nat2N.id in *.
  rewrite H1. cbn [bind].
  pose proof (exposed_length b I) as Hl. pose proof (exposed_length b1 I1) as Hl1.
  rewrite firstn_all2 in Ex1 by lia.
  assert (Hs1 : size b1 = length (exposed b) + size b).
  { rewrite <- Hl1, Ex1, app_length. lia. }
  destruct (copy_tail b1 (exposed b) 0 (size b) I1 Hs1) as (b2 & H2 & I2 & Ex2).
  - rewrite Ex1, firstn_app, Nat.sub_diag, firstn_all. cbn [firstn]. apply app_nil_r.
  - lia.
  - destruct Ho1; [left; assumption|right; lia].
  - rewrite Nat.add_0_r in H2. exists b2. split; [exact H2|split; [exact I2|]].
    rewrite Ex2. f_equal. rewrite <- Hl. apply slice_all.
Qed.

(* b.append((const byte* )b + off, n) with [off, off+n) inside the window *)
Lemma append_at_ok b off n : inv b -> off + n <= size b ->
  okun (N.of_nat (size b + n)) (append_at b off n)
       (fun b' => inv b' /\ exposed b' = exposed b ++ slice (exposed b) off n).
Proof.
  intros I Hoff. unfold append_at. pose proof (inv_small b I) as Hs.
  rewrite add_usize_small by (try assumption; lia).
  pose proof (resize_ok b (N.of_nat (size b + n)) I) as R. unfold okun in *.
  destruct (fitsN (N.of_nat (size b + n))) eqn:F; [|rewrite R; reflexivity].
  destruct R as (b1 & H1 & t & I1 & Ex1 & Ht & Ho1). rewrite Nat2N.id in *.
  rewrite H1. cbn [bind].
  pose proof (exposed_length b I) as Hl. pose proof (exposed_length b1 I1) as Hl1.
  rewrite firstn_all2 in Ex1 by lia.
  assert (Hs1 : size b1 = length (exposed b) + n).
  { rewrite <- Hl1, Ex1, app_length. lia. }
  destruct (off <? size b) eqn:Ei.
  - destruct (copy_tail b1 (exposed b) off n I1 Hs1) as (b2 & H2 & I2 & Ex2).
    + rewrite Ex1, firstn_app, Nat.sub_diag, firstn_all. cbn [firstn]. apply app_nil_r.
    + lia.
    + destruct Ho1; [left; assumption|right; lia].
    + exists b2. auto.
  - apply Nat.ltb_ge in Ei. assert (n = 0) by lia. subst n. cbn [Nat.eqb].
    rewrite terminate_ok by exact I1. exists b1. split; [reflexivity|split; [exact I1|]].
    rewrite Ex1. replace t with (@nil cell) by (destruct t; [reflexivity|cbn [length] in Ht; lia]).
    unfold slice. cbn [firstn]. reflexivity.
Qed.

(* ---- removeFront / removeBack -------------------------------------------------------------- *)

(* the state after "bufferStart = bufferEnd = buffer ? buffer : &_capacity", from any window *)
Lemma reset_then_terminate self o w s e c :
  (match o with Some a => length a = c + 1 /\ small c | None => c = 0 end) ->
  exists b', terminate_if_owned (reset_empty self (mkbuf o w s e c)) = Ok b' /\ inv b' /\ exposed b' = [].
Proof.
  intro H. unfold reset_empty; cbn [own wb start stop capf].
  destruct o as [a|].
  - unfold terminate_if_owned; cbn [own]. destruct H as [H Hsm].
    destruct (finish_own a 0 0 c) as (b' & H1 & H2 & H3 & _); [exact H|lia|lia|exact Hsm|].
    exists b'. split; [exact H1|split; [exact H2|]]. rewrite H3. reflexivity.
  - eexists. split; [reflexivity|].
    assert (I' : inv (mkbuf None (BCap self) 0 0 c)).
    { unfold inv; cbn [own wb start stop capf]. lia. }
    split; [exact I'|]. rewrite exposed_inv by exact I'. reflexivity.
Qed.

Lemma inv_shape b : inv b -> match own b with Some a => length a = capf b + 1 /\ small (capf b) | None => capf b = 0 end.
Proof. unfold inv. destruct (own b); tauto. Qed.

Lemma remove_front_ok self b n : inv b ->
  exists b', remove_front self b n = Ok b' /\ inv b' /\
             exposed b' = if (N.of_nat (size b) <=? n)%N then [] else skipn (N.to_nat n) (exposed b).
Proof.
  intro I. pose proof (exposed_inv b I) as Ex. pose proof (exposed_length b I) as Hl. pose proof I as I0.
  pose proof (inv_le b I) as Hle.
  unfold remove_front.
  destruct (N.of_nat (size b) <=? n)%N eqn:E.
  - destruct b as [o w s e c]; cbn [own wb start stop capf] in *.
    destruct (reset_then_terminate self o w s e c (inv_shape _ I)) as (b' & H1 & H2 & H3).
    exists b'. split; [exact H1|split; [exact H2|exact H3]].
  - apply N.leb_gt in E. unfold size in E. remember (N.to_nat n) as k eqn:Ek.
    assert (E' : k < stop b - start b) by lia.
    eexists. split; [reflexivity|].
    unfold inv in I. unfold view in Ex.
    assert (I' : inv (mkbuf (own b) (wb b) (start b + k) (stop b) (capf b))).
    { unfold inv; cbn [own wb start stop capf]. destruct (own b) as [a|].
      - repeat split; try tauto; lia.
      - destruct (wb b); [tauto|lia|lia]. }
    split; [exact I'|]. rewrite exposed_inv by exact I'. rewrite Ex. unfold view; cbn [own wb start stop capf].
    destruct (own b) as [a|].
    + destruct I as (Hw & Hl' & Hse & Hec & Ht & Hsm). list_eq.
    + destruct I as (Hc & I). destruct (wb b) as [|r|v]; [contradiction| |].
      * destruct I as (Hse & Her & Hsr). unfold known. list_eq.
      * symmetry. apply skipn_nil.
Qed.

Lemma remove_back_ok self b n : inv b ->
  exists b', remove_back self b n = Ok b' /\ inv b' /\
             exposed b' = if (N.of_nat (size b) <=? n)%N then [] else firstn (size b - N.to_nat n) (exposed b).
Proof.
  intro I. pose proof (exposed_inv b I) as Ex. pose proof I as I0. pose proof (inv_le b I) as Hle.
  unfold remove_back.
  destruct (N.of_nat (size b) <=? n)%N eqn:E.
  - destruct b as [o w s e c]; cbn [own wb start stop capf] in *.
    destruct (reset_then_terminate self o w s e c (inv_shape _ I)) as (b' & H1 & H2 & H3).
    exists b'. split; [exact H1|split; [exact H2|exact H3]].
  - apply N.leb_gt in E. unfold inv in I. unfold view in Ex. unfold size in *.
    remember (N.to_nat n) as k eqn:Ek.
    assert (E' : k < stop b - start b) by lia.
    destruct (own b) as [a|] eqn:Eo.
    + destruct I as (Hw & Hl' & Hse & Hec & Ht & Hsm).
      unfold terminate_if_owned; cbn [own]. rewrite Hw.
      destruct (finish_own a (start b) (stop b - k) (capf b)) as (b' & H1 & H2 & H3 & _); [lia|lia|lia|lia|].
      exists b'. split; [exact H1|split; [exact H2|]]. rewrite H3, Ex. list_eq.
    + destruct I as (Hc & I). unfold terminate_if_owned; cbn [own].
      eexists. split; [reflexivity|].
      assert (I' : inv (mkbuf None (wb b) (start b) (stop b - k) (capf b))).
      { unfold inv; cbn [own wb start stop capf]. split; [exact Hc|]. destruct (wb b); [tauto|lia|lia]. }
      split; [exact I'|]. rewrite exposed_inv by exact I'. rewrite Ex. unfold view; cbn [own wb start stop capf].
      destruct (wb b) as [|r|v]; [contradiction| |].
      * destruct I as (Hse & Her & Hsr). unfold known. list_eq.
      * symmetry. apply firstn_nil.
Qed.

(* an argument at or beyond the current size acts like any other such argument, 2^64-1 included *)
Lemma remove_clamp_lemma self b n m : (N.of_nat (size b) <= n)%N -> (N.of_nat (size b) <= m)%N ->
  remove_front self b n = remove_front self b m /\ remove_back self b n = remove_back self b m.
Proof.
  intros Hn Hm. unfold remove_front, remove_back.
  apply N.leb_le in Hn. apply N.leb_le in Hm. rewrite Hn, Hm. split; reflexivity.
Qed.

(* ---- reserve / clear / free / attach / constructors ---------------------------------------- *)

Lemma reserve_ok b c : inv b -> okun c (reserve_ b c) (fun b' => inv b' /\ exposed b' = exposed b).
Proof.
  intro I. unfold reserve_. pose proof (inv_cap_small b I) as Hcs. pose proof (inv_small b I) as Hss.
  destruct (c <=? N.of_nat (capf b))%N eqn:E.
  - apply N.leb_le in E. assert (F : fitsN c = true) by (apply fitsN_true; lia).
    unfold okun. rewrite F. exists b; auto.
  - apply N.leb_gt in E.
    pose proof (view_length b I) as Hv.
    remember (if (c <? N.of_nat (size b))%N then N.of_nat (size b) else c) as c' eqn:Ec'.
    assert (Hc' : (N.of_nat (size b) <= c')%N /\ (c <= c')%N /\ ((c < max_bytes)%N -> (c' < max_bytes)%N)).
    { subst c'. destruct (c <? N.of_nat (size b))%N eqn:E2; [apply N.ltb_lt in E2|apply N.ltb_ge in E2]; lia. }
    destruct Hc' as (Hc1 & Hc2 & Hc3).
    okun_cases F.
    + rewrite allocate_ok by auto. cbn [bind].
      remember (N.to_nat c') as k eqn:Ek.
      rewrite rd_win_prefix by (auto; unfold size; lia). cbn [bind]. unfold size in *.
      rewrite firstn_all2 by lia.
      rewrite wr_ok by (len; lia). cbn [bind].
      destruct (finish_own (splice (new_array (k + 1)) 0 (view b)) 0 (stop b - start b) k) as (b' & H1 & H2 & H3 & _);
        [len; lia|lia|lia|specialize (Hc3 F); lia|].
      exists b'. split; [exact H1|split; [exact H2|]]. rewrite H3, exposed_inv by exact I. list_eq.
    + rewrite allocate_fail by lia. reflexivity.
Qed.

Lemma clear_ok b : inv b -> exists b', clear_ b = Ok b' /\ inv b' /\ exposed b' = [].
Proof.
  intro I. unfold clear_. unfold inv in I.
  destruct (own b) as [a|] eqn:Eo.
  - destruct I as (Hw & Hl & Hse & Hec & Ht & Hsm).
    destruct (finish_own a 0 0 (capf b)) as (b' & H1 & H2 & H3 & _); [lia|lia|lia|lia|].
    exists b'. split; [exact H1|split; [exact H2|]]. rewrite H3. reflexivity.
  - destruct I as (Hc & I). eexists. split; [reflexivity|].
    assert (I' : inv (mkbuf None (wb b) (start b) (start b) (capf b))).
    { unfold inv; cbn [own wb start stop capf]. split; [exact Hc|]. destruct (wb b); [tauto|lia|lia]. }
    split; [exact I'|]. rewrite exposed_inv by exact I'. unfold view; cbn [own wb start stop capf].
    rewrite Nat.sub_diag. destruct (wb b); reflexivity.
Qed.

Lemma default_ok self : inv (default_ self) /\ exposed (default_ self) = [].
Proof.
  assert (I : inv (default_ self)) by (unfold inv, default_; cbn [own wb start stop capf]; lia).
  split; [exact I|]. rewrite exposed_inv by exact I. reflexivity.
Qed.

Lemma free_ok self b : inv (free_ self b) /\ exposed (free_ self b) = [].
Proof. exact (default_ok self). Qed.

Lemma attach_ok b r : small (length r) -> inv (attach_ b r) /\ exposed (attach_ b r) = known r.
Proof.
  intro Hr.
  assert (I : inv (attach_ b r)) by (unfold inv, attach_; cbn [own wb start stop capf]; lia).
  split; [exact I|]. rewrite exposed_inv by exact I. unfold view, attach_; cbn [own wb start stop capf].
  rewrite Nat.sub_0_r. f_equal. apply slice_all.
Qed.

Lemma ctor_cap_ok n : okun n (ctor_cap n) (fun b' => inv b' /\ exposed b' = []).
Proof.
  unfold ctor_cap. okun_cases F.
  - rewrite allocate_ok by exact F. cbn [bind]. remember (N.to_nat n) as k eqn:Ek.
    destruct (finish_own (new_array (k + 1)) 0 0 k) as (b' & H1 & H2 & H3 & _); [len; lia|lia|lia|lia|].
    exists b'. split; [exact H1|split; [exact H2|]]. rewrite H3. reflexivity.
  - rewrite allocate_fail by exact F. reflexivity.
Qed.

Lemma ctor_data_ok d : okun (N.of_nat (length d)) (ctor_data d) (fun b' => inv b' /\ exposed b' = d).
Proof.
  unfold ctor_data. okun_cases F.
  - rewrite allocate_ok by exact F. cbn [bind]. rewrite Nat2N.id.
    rewrite wr_ok by (len; lia). cbn [bind].
    destruct (finish_own (splice (new_array (length d + 1)) 0 d) 0 (length d) (length d)) as (b' & H1 & H2 & H3 & _);
      [len; lia|lia|lia|exact F|].
    exists b'. split; [exact H1|split; [exact H2|]]. rewrite H3. list_eq.
  - rewrite allocate_fail by exact F. reflexivity.
Qed.

(* ---- a source inside the window: assign / prepend -------------------------------------------- *)

Lemma rd_win_inside b off n : inv b -> off + n <= size b ->
  rd_win b (start b + off) n = Ok (slice (exposed b) off n).
Proof.
  intros I Hoff. rewrite exposed_inv by exact I. unfold size in Hoff.
  pose proof I as I0. unfold inv in I. unfold rd_win, view.
  destruct (own b) as [a|] eqn:Eo.
  - destruct I as (Hw & Hl & Hse & Hec & Ht & Hsm). rewrite Hw.
    rewrite rd_ok by lia. f_equal. list_eq.
  - destruct I as (Hc & I). destruct (wb b) as [|r|v] eqn:Ew; [contradiction| |].
    + destruct I as (Hse & Her & Hsr).
      replace (start b + off + n <=? length r) with true by (symmetry; apply Nat.leb_le; lia).
      f_equal. unfold known. list_eq.
    + destruct I as [Hs He]. rewrite Hs, He in *.
      assert (n = 0) by lia. assert (off = 0) by lia. subst n off. reflexivity.
Qed.

Lemma assign_at_ok b off n : inv b -> off + n <= size b ->
  okun (N.of_nat n) (assign_at b off n) (fun b' => inv b' /\ exposed b' = slice (exposed b) off n).
Proof.
  intros I Hoff. pose proof (exposed_length b I) as Hl.
  assert (Hsl : length (slice (exposed b) off n) = n) by (len; lia).
  pose proof (assign_ok b (slice (exposed b) off n) I) as A. rewrite Hsl in A.
  unfold assign_ in A. rewrite Hsl in A. unfold assign_at.
  rewrite rd_win_inside by assumption.
  destruct (capf b <? n) eqn:E.
  - destruct (own b) as [a|] eqn:Eo.
    + exfalso. apply Nat.ltb_lt in E. unfold inv in I. rewrite Eo in I. unfold size in Hoff. lia.
    + unfold okun in *. destruct (fitsN (N.of_nat n)).
      * destruct (allocate (N.of_nat n)); cbn [bind] in *; exact A.
      * destruct (allocate (N.of_nat n)); cbn [bind] in *; exact A.
  - destruct (own b) as [a|] eqn:Eo; cbn [bind]; exact A.
Qed.

Lemma prepend_at_eq b off n : inv b -> off + n <= size b ->
  prepend_at b off n = prepend_ b (slice (exposed b) off n).
Proof.
  intros I Hoff. pose proof (exposed_length b I) as Hl. pose proof (inv_small b I) as Hss.
  pose proof (exposed_inv b I) as Ex.
  assert (Hsl : length (slice (exposed b) off n) = n) by (len; lia).
  unfold prepend_at, prepend_. rewrite Hsl.
  destruct (headroom b n) as [hr|e] eqn:Eh; cbn [bind]; [|reflexivity].
  destruct hr.
  - rewrite rd_win_inside by assumption. cbn [bind].
    replace (disjoint (start b + off) (start b - n) n) with true; [reflexivity|].
    symmetry. unfold disjoint. apply orb_true_iff. right. apply Nat.leb_le.
    unfold headroom in Eh. destruct (own b); [|discriminate]. destruct (wb b); try discriminate.
    injection Eh as Eh. apply Nat.leb_le in Eh. lia.
  - rewrite add_usize_small by lia.
    destruct (own b) as [a|] eqn:Eo.
    + destruct (N.of_nat (n + size b) <=? N.of_nat (capf b))%N eqn:Ec.
      * apply N.leb_le in Ec. unfold inv in I. rewrite Eo in I.
        destruct I as (Hw & Hla & Hse & Hec & Ht & Hsm). unfold size in *.
        rewrite rd_ok by lia. cbn [bind].
        rewrite wr_ok by (len; lia). cbn [bind].
        set (a1 := splice a n (slice a (start b) (stop b - start b))).
        set (src := if off <? stop b - start b then n + off else start b + off).
        assert (Hsrc : src + n <= length a /\ (n = 0 \/ n <= src)).
        { subst src. destruct (off <? stop b - start b) eqn:Eo2; [apply Nat.ltb_lt in Eo2|apply Nat.ltb_ge in Eo2]; lia. }
        rewrite rd_ok by (subst a1; len; lia). cbn [bind].
        replace (disjoint src 0 n) with true.
        2:{ symmetry. unfold disjoint. destruct Hsrc as [_ [H0|H0]].
            - subst n. reflexivity.
            - apply orb_true_iff. right. apply Nat.leb_le. lia. }
        replace (slice a1 src n) with (slice (exposed b) off n); [reflexivity|].
        rewrite Ex. unfold view. rewrite Eo. subst a1 src.
        destruct (off <? stop b - start b) eqn:Eo2; [apply Nat.ltb_lt in Eo2|apply Nat.ltb_ge in Eo2].
        -- list_eq.
        -- assert (n = 0) by lia. subst n. reflexivity.
      * rewrite rd_win_inside by assumption. reflexivity.
    + rewrite rd_win_inside by assumption. reflexivity.
Qed.

Lemma prepend_at_ok b off n : inv b -> off + n <= size b ->
  okun (N.of_nat (n + size b)) (prepend_at b off n)
       (fun b' => inv b' /\ exposed b' = slice (exposed b) off n ++ exposed b).
Proof.
  intros I Hoff. pose proof (exposed_length b I) as Hl. pose proof (inv_small b I) as Hss.
  assert (Hsl : length (slice (exposed b) off n) = n) by (len; lia).
  rewrite prepend_at_eq by assumption.
  pose proof (prepend_ok b (slice (exposed b) off n) I) as A. rewrite Hsl in A. apply A. lia.
Qed.

(* ---- the reference relation on byte lists --------------------------------------------------- *)

Lemma cr_refl l : Forall2 cell_ref l l.
Proof. induction l; constructor; [right; reflexivity|assumption]. Qed.

Lemma F2_firstn {A B} (R : A -> B -> Prop) n l l' : Forall2 R l l' -> Forall2 R (firstn n l) (firstn n l').
Proof.
  intro H. revert n. induction H as [|x y l l' Hxy H IH]; intros [|n]; cbn [firstn]; constructor; auto.
Qed.

Lemma F2_skipn {A B} (R : A -> B -> Prop) n l l' : Forall2 R l l' -> Forall2 R (skipn n l) (skipn n l').
Proof.
  intro H. revert n. induction H as [|x y l l' Hxy H IH]; intros [|n]; cbn [skipn]; try constructor; auto.
Qed.

Lemma F2_length {A B} (R : A -> B -> Prop) l l' : Forall2 R l l' -> length l = length l'.
Proof. induction 1; cbn [length]; congruence. Qed.

Lemma cr_none t k : length t = k -> Forall2 cell_ref t (repeat None k).
Proof.
  revert k. induction t as [|x t IH]; intros [|k] H; cbn [repeat length] in *; try discriminate; constructor.
  - left; reflexivity.
  - apply IH. congruence.
Qed.

Lemma cr_resize x q n t :
  Forall2 cell_ref x q -> length t = n - length x -> Forall2 cell_ref (firstn n x ++ t) (q_resize q n).
Proof.
  intros H Ht. pose proof (F2_length _ _ _ H) as Hl. unfold q_resize.
  destruct (n <=? length q) eqn:E.
  - apply Nat.leb_le in E. replace t with (@nil cell) by (destruct t; [reflexivity|cbn [length] in Ht; lia]).
    rewrite app_nil_r. apply F2_firstn; exact H.
  - apply Nat.leb_gt in E. rewrite firstn_all2 by lia.
    apply Forall2_app; [exact H|]. apply cr_none. lia.
Qed.

Lemma cmp_cells_ref x y x' y' :
  Forall2 cell_ref x x' -> Forall2 cell_ref y y' -> ans_ref (cmp_cells x y) (cmp_cells x' y').
Proof.
  intro Hx. revert y y'. induction Hx as [|a a' x x' Ha Hx IH]; intros y y' Hy.
  - destruct Hy as [|b b' y y' Hb Hy]; right; reflexivity.
  - destruct Hy as [|b b' y y' Hb Hy].
    + destruct a, a'; right; reflexivity.
    + destruct Ha as [Ha|Ha]; [subst a'; left; destruct b'; reflexivity|]. subst a'.
      destruct Hb as [Hb|Hb]; [subst b'; left; destruct a; reflexivity|]. subst b'.
      destruct a as [a|]; [|right; reflexivity].
      destruct b as [b|]; [|right; reflexivity].
      cbn [cmp_cells]. destruct (Z.eqb a b); [apply IH; exact Hy|right; reflexivity].
Qed.

Lemma q_eq_ref x y x' y' :
  Forall2 cell_ref x x' -> Forall2 cell_ref y y' -> ans_ref (q_eq x y) (q_eq x' y').
Proof.
  intros Hx Hy. unfold q_eq. rewrite (F2_length _ _ _ Hx), (F2_length _ _ _ Hy).
  destruct (length x' =? length y'); [apply cmp_cells_ref; assumption|right; reflexivity].
Qed.

(* ---- worlds ------------------------------------------------------------------------------- *)

Lemma Forall_upd {A} (P : A -> Prop) n x l : Forall P l -> P x -> Forall P (upd n x l).
Proof.
  intros H Hx. revert n. induction H as [|y l Hy H IH]; intros [|n]; cbn [upd]; constructor; auto.
Qed.

Lemma F2_upd {A B} (R : A -> B -> Prop) n x y l l' : Forall2 R l l' -> R x y -> Forall2 R (upd n x l) (upd n y l').
Proof.
  intros H Hxy. revert n. induction H as [|a b l l' Hab H IH]; intros [|n]; cbn [upd]; constructor; auto.
Qed.

Lemma F2_nth {A B} (R : A -> B -> Prop) l l' n :
  Forall2 R l l' ->
  match nth_error l' n with
  | Some y => exists x, nth_error l n = Some x /\ R x y
  | None => nth_error l n = None
  end.
Proof.
  intro H. revert n. induction H as [|a b l l' Hab H IH]; intros [|n]; cbn [nth_error]; auto.
  - exists a. auto.
  - apply IH.
Qed.

Lemma Forall_nth {A} (P : A -> Prop) l n x : Forall P l -> nth_error l n = Some x -> P x.
Proof. intros H Hn. rewrite Forall_forall in H. apply H. eapply nth_error_In; exact Hn. Qed.

Lemma get_sim w qs v : winv w -> wref w qs ->
  match nth_error qs v with
  | Some q => exists b, get w v = Ok b /\ inv b /\ ref b q
  | None => get w v = Err BadArg
  end.
Proof.
  intros Iw Rw. pose proof (F2_nth _ _ _ v Rw) as H. unfold get.
  destruct (nth_error qs v) as [q|].
  - destruct H as (b & Hb & Hr). exists b. rewrite Hb. split; [reflexivity|split; [|exact Hr]].
    eapply Forall_nth; eassumption.
  - rewrite H. reflexivity.
Qed.

Definition sim_goal (r : res (world * option bool)) (s : sstep) : Prop :=
  match s with
  | SOk (qs', a') => exists w' a, r = Ok (w', a) /\ winv w' /\ wref w' qs' /\ ans_ref a a'
  | SReject => r = Err BadArg
  | SUnsat => r = Err AllocFail
  end.

Lemma ret1_sim w qs v rb q' :
  winv w -> wref w qs ->
  (exists b', rb = Ok b' /\ inv b' /\ ref b' q') ->
  sim_goal (ret1 w v rb) (SOk (upd v q' qs, None)).
Proof.
  intros Iw Rw (b' & Hb & Ib & Rb). subst rb. unfold sim_goal, ret1. cbn [bind].
  exists (upd v b' w), None. split; [reflexivity|].
  split; [apply Forall_upd; assumption|split; [apply F2_upd; assumption|right; reflexivity]].
Qed.

Lemma okun_need n m r P : n = m -> okun n r P -> okun m r P.
Proof. intros; subst; assumption. Qed.

Lemma okun_imp n r (P Q : buf -> Prop) : (forall b', P b' -> Q b') -> okun n r P -> okun n r Q.
Proof.
  intros H. unfold okun. destruct (fitsN n); [|auto]. intros (b' & H1 & H2). exists b'. auto.
Qed.

Lemma okun_zero r P : (exists b', r = Ok b' /\ P b') -> okun 0%N r P.
Proof. intro H. exact H. Qed.

Lemma okun_fits n r P : fitsN n = true -> (exists b', r = Ok b' /\ P b') -> okun n r P.
Proof. intros F H. unfold okun. rewrite F. exact H. Qed.

Lemma ref_eq b q E : exposed b = E -> Forall2 cell_ref E q -> ref b q.
Proof. intros H H2. unfold ref. rewrite H. exact H2. Qed.

(* from "exposes exactly E" to "refines q'" *)
Lemma okun_ref n r E q' : Forall2 cell_ref E q' ->
  okun n r (fun b' => inv b' /\ exposed b' = E) -> okun n r (fun b' => inv b' /\ ref b' q').
Proof.
  intro H. apply okun_imp. intros b' [I1 E1]. split; [exact I1|]. eapply ref_eq; eassumption.
Qed.

Lemma ref_len b q : inv b -> ref b q -> length q = size b.
Proof. intros I R. rewrite <- (F2_length _ _ _ R). apply exposed_length; exact I. Qed.

Lemma sim_of_okun w qs v n rb q' :
  winv w -> wref w qs ->
  okun n rb (fun b' => inv b' /\ ref b' q') ->
  sim_goal (ret1 w v rb) (if fitsN n then SOk (upd v q' qs, None) else SUnsat).
Proof.
  intros Iw Rw H. unfold okun in H. destruct (fitsN n).
  - apply ret1_sim; assumption.
  - rewrite H. reflexivity.
Qed.

Lemma on1_sim w qs v (F : buf -> res buf) (need : queue -> N) (f : queue -> queue) :
  winv w -> wref w qs ->
  (forall b q, inv b -> ref b q -> okun (need q) (F b) (fun b' => inv b' /\ ref b' (f q))) ->
  sim_goal (do b <- get w v; ret1 w v (F b)) (on1 qs v need f).
Proof.
  intros Iw Rw HF. pose proof (get_sim w qs v Iw Rw) as G. unfold on1.
  destruct (nth_error qs v) as [q|].
  - destruct G as (b & Hg & Ib & Rb). rewrite Hg. cbn [bind].
    apply sim_of_okun; auto.
  - rewrite G. reflexivity.
Qed.

Lemma on1at_sim w qs v off n (F : buf -> res buf) (need : queue -> N) (f : queue -> queue) :
  winv w -> wref w qs ->
  (forall b q, inv b -> ref b q -> off + n <= size b -> okun (need q) (F b) (fun b' => inv b' /\ ref b' (f q))) ->
  sim_goal (do b <- get w v; if at_ok b off n then ret1 w v (F b) else Err BadArg) (on1at qs v off n need f).
Proof.
  intros Iw Rw HF. pose proof (get_sim w qs v Iw Rw) as G. unfold on1at, on1.
  destruct (nth_error qs v) as [q|].
  - destruct G as (b & Hg & Ib & Rb). rewrite Hg. cbn [bind].
    unfold at_ok. rewrite (ref_len b q Ib Rb).
    destruct (off + n <=? size b) eqn:E; [|reflexivity].
    apply Nat.leb_le in E. apply sim_of_okun; auto.
  - rewrite G. reflexivity.
Qed.

Lemma get2_sim w qs v x : winv w -> wref w qs ->
  match nth_error qs v, nth_error qs x with
  | Some q, Some p => exists b s, get w v = Ok b /\ get w x = Ok s /\ inv b /\ inv s /\ ref b q /\ ref s p
  | _, _ => forall K : buf -> buf -> res (world * option bool), (do b <- get w v; do s <- get w x; K b s) = Err BadArg
  end.
Proof.
  intros Iw Rw. pose proof (get_sim w qs v Iw Rw) as G1. pose proof (get_sim w qs x Iw Rw) as G2.
  destruct (nth_error qs v) as [q|].
  - destruct G1 as (b & Hb & Ib & Rb). destruct (nth_error qs x) as [p|].
    + destruct G2 as (s & Hs & Is & Rs). exists b, s. auto 10.
    + intro K. rewrite Hb, G2. reflexivity.
  - intro K. rewrite G1. reflexivity.
Qed.

Lemma F2_slice x q off n : Forall2 cell_ref x q -> Forall2 cell_ref (slice x off n) (q_part q off n).
Proof. intro H. unfold slice, q_part. apply F2_firstn. apply F2_skipn. exact H. Qed.

Lemma upd_same {A} (qs : list A) v q : nth_error qs v = Some q -> upd v q qs = qs.
Proof.
  revert v. induction qs as [|h t IH]; intros [|v] Eq; cbn [upd nth_error] in *; try discriminate.
  - congruence.
  - f_equal. apply IH. exact Eq.
Qed.

Lemma push_sim w qs (rb : res buf) n q' :
  winv w -> wref w qs -> okun n rb (fun b' => inv b' /\ ref b' q') ->
  sim_goal (do b <- rb; Ok (w ++ [b], None)) (if fitsN n then SOk (qs ++ [q'], None) else SUnsat).
Proof.
  intros Iw Rw H. unfold okun in H. destruct (fitsN n).
  - destruct H as (b' & H1 & I & R). rewrite H1. cbn [bind].
    exists (w ++ [b']), None. split; [reflexivity|].
    split; [apply Forall_app; split; [exact Iw|constructor; [exact I|constructor]]|].
    split; [|right; reflexivity].
    apply Forall2_app; [exact Rw|constructor; [exact R|constructor]].
  - rewrite H. reflexivity.
Qed.

(* every operation but a hint that cannot be followed *)
Lemma step_sim_plain w qs o : winv w -> wref w qs -> hint_unsat o = false -> sim_goal (step w o) (spec_step qs o).
Proof.
  intros Iw Rw Hh. pose proof (F2_length _ _ _ Rw) as Hlen.
  unfold step, spec_step. destruct (data_ok o) eqn:D; cbn [negb]; [|reflexivity].
  destruct o as [ |n|d|x|v d|v x|v d|v d|v x|v d|v x|v n|v n|v n|v n|v|v|v x|v x|v off n|v off n|v off n];
    cbn [data_ok] in D; try (apply fits_small in D).
  - (* ONew *)
    exists (w ++ [default_ (length w)]), None. split; [reflexivity|].
    destruct (default_ok (length w)) as [I E].
    split; [apply Forall_app; split; [exact Iw|constructor; [exact I|constructor]]|].
    split; [|right; reflexivity].
    apply Forall2_app; [exact Rw|constructor; [|constructor]]. eapply ref_eq; [exact E|constructor].
  - (* ONewCap *)
    apply push_sim; auto. eapply okun_ref; [|apply ctor_cap_ok]. constructor.
  - (* ONewData *)
    pose proof (push_sim w qs (ctor_data (known d)) (N.of_nat (length d)) (known d) Iw Rw) as P.
    replace (fitsN (N.of_nat (length d))) with true in P by (symmetry; apply fitsN_true; exact D).
    apply P. eapply okun_ref; [apply cr_refl|].
    eapply okun_need; [|apply ctor_data_ok]. rewrite known_length. reflexivity.
  - (* ONewCopy *)
    pose proof (get_sim w qs x Iw Rw) as G.
    destruct (nth_error qs x) as [p|]; [|rewrite G; reflexivity].
    destruct G as (s & Hs & Is & Rs). rewrite Hs. cbn [bind].
    rewrite win_inv by exact Is. cbn [bind].
    apply push_sim; auto. eapply okun_ref; [|eapply okun_need; [|apply ctor_data_ok]].
    + rewrite <- exposed_inv by exact Is. exact Rs.
    + unfold len. rewrite (ref_len s p Is Rs). f_equal. apply view_length; exact Is.
  - (* OAttach *)
    apply (on1_sim w qs v (fun b => Ok (attach_ b d)) (fun _ => 0%N) (fun _ => known d) Iw Rw).
    intros b q Ib Rb. destruct (attach_ok b d D) as [I E]. apply okun_zero.
    exists (attach_ b d). split; [reflexivity|split; [exact I|]]. eapply ref_eq; [exact E|apply cr_refl].
  - (* OAsg *)
    pose proof (get2_sim w qs v x Iw Rw) as G. unfold on2.
    destruct (nth_error qs v) as [q|] eqn:Eq; [destruct (nth_error qs x) as [p|] eqn:Ep|];
      [|exact (G _)|exact (G _)].
    destruct G as (b & s & Hb & Hs & Ib & Is & Rb & Rs). rewrite Hb, Hs. cbn [bind].
    destruct (v =? x) eqn:Evx.
    + apply Nat.eqb_eq in Evx. subst x. assert (p = q) by congruence. subst p.
      replace (fitsN (len q)) with true.
      2:{ symmetry. apply fitsN_true. unfold len. rewrite (ref_len b q Ib Rb). apply inv_small; exact Ib. }
      exists w, None. split; [reflexivity|split; [exact Iw|split; [|right; reflexivity]]].
      rewrite upd_same by exact Eq. exact Rw.
    + rewrite win_inv by exact Is. cbn [bind]. apply sim_of_okun; auto.
      eapply okun_ref; [|eapply okun_need; [|apply (assign_ok b (view s) Ib)]].
      * rewrite <- exposed_inv by exact Is. exact Rs.
      * unfold len. rewrite (ref_len s p Is Rs). f_equal. apply view_length; exact Is.
  - (* OAssign *)
    apply (on1_sim w qs v (fun b => assign_ b (known d)) (fun _ => N.of_nat (length d)) (fun _ => known d) Iw Rw).
    intros b q Ib Rb. eapply okun_ref; [apply cr_refl|].
    eapply okun_need; [|apply (assign_ok b (known d) Ib)]. rewrite known_length. reflexivity.
  - (* OPrepend *)
    apply (on1_sim w qs v (fun b => prepend_ b (known d)) (fun q => (N.of_nat (length d) + len q)%N) (fun q => known d ++ q) Iw Rw).
    intros b q Ib Rb. eapply okun_ref; [|eapply okun_need; [|apply (prepend_ok b (known d) Ib)]].
    + apply Forall2_app; [apply cr_refl|exact Rb].
    + unfold len. rewrite known_length, (ref_len b q Ib Rb). lia.
    + rewrite known_length. exact D.
  - (* OPrependB *)
    pose proof (get2_sim w qs v x Iw Rw) as G. unfold on2.
    destruct (nth_error qs v) as [q|] eqn:Eq; [destruct (nth_error qs x) as [p|] eqn:Ep|];
      [|exact (G _)|exact (G _)].
    destruct G as (b & s & Hb & Hs & Ib & Is & Rb & Rs). rewrite Hb, Hs. cbn [bind].
    rewrite win_inv by exact Is. cbn [bind].
    pose proof (view_length s Is) as Hvs. pose proof (inv_small s Is) as Hss. unfold size in Hss.
    destruct (v =? x) eqn:Evx.
    + pose proof (ctor_data_ok (view s)) as C. unfold okun in C.
      replace (fitsN (N.of_nat (length (view s)))) with true in C by (symmetry; apply fitsN_true; lia).
      destruct C as (t & Ht & It & Et). rewrite Ht. cbn [bind].
      rewrite win_inv by exact It. cbn [bind]. apply sim_of_okun; auto.
      assert (Evt : view t = view s) by (rewrite <- exposed_inv by exact It; exact Et).
      rewrite Evt.
      eapply okun_ref; [|eapply okun_need; [|apply (prepend_ok b (view s) Ib)]].
      * apply Forall2_app; [|exact Rb]. rewrite <- exposed_inv by exact Is. exact Rs.
      * unfold len. rewrite (ref_len b q Ib Rb), (ref_len s p Is Rs). unfold size in *. lia.
      * lia.
    + apply sim_of_okun; auto.
      eapply okun_ref; [|eapply okun_need; [|apply (prepend_ok b (view s) Ib)]].
      * apply Forall2_app; [|exact Rb]. rewrite <- exposed_inv by exact Is. exact Rs.
      * unfold len. rewrite (ref_len b q Ib Rb), (ref_len s p Is Rs). unfold size in *. lia.
      * lia.
  - (* OAppend *)
    apply (on1_sim w qs v (fun b => append_ b (known d)) (fun q => (len q + N.of_nat (length d))%N) (fun q => q ++ known d) Iw Rw).
    intros b q Ib Rb. eapply okun_ref; [|eapply okun_need; [|apply (append_ok b (known d) Ib)]].
    + apply Forall2_app; [exact Rb|apply cr_refl].
    + unfold len. rewrite known_length, (ref_len b q Ib Rb). lia.
    + rewrite known_length. exact D.
  - (* OAppendB *)
    pose proof (get2_sim w qs v x Iw Rw) as G. unfold on2.
    destruct (nth_error qs v) as [q|] eqn:Eq; [destruct (nth_error qs x) as [p|] eqn:Ep|];
      [|exact (G _)|exact (G _)].
    destruct G as (b & s & Hb & Hs & Ib & Is & Rb & Rs). rewrite Hb, Hs. cbn [bind].
    destruct (v =? x) eqn:Evx.
    + apply Nat.eqb_eq in Evx. subst x. assert (p = q) by congruence. subst p.
      apply sim_of_okun; auto.
      eapply okun_ref; [|eapply okun_need; [|apply (append_self_ok b Ib)]].
      * apply Forall2_app; exact Rb.
      * unfold len. rewrite (ref_len b q Ib Rb). lia.
    + rewrite win_inv by exact Is. cbn [bind]. apply sim_of_okun; auto.
      pose proof (view_length s Is) as Hvs. pose proof (inv_small s Is) as Hss. unfold size in Hss.
      eapply okun_ref; [|eapply okun_need; [|apply (append_ok b (view s) Ib)]].
      * apply Forall2_app; [exact Rb|]. rewrite <- exposed_inv by exact Is. exact Rs.
      * unfold len. rewrite (ref_len b q Ib Rb), (ref_len s p Is Rs). unfold size in *. lia.
      * lia.
  - (* OResize *)
    apply (on1_sim w qs v (fun b => resize_ b n) (fun _ => n) (fun q => q_resize q (N.to_nat n)) Iw Rw).
    intros b q Ib Rb. eapply okun_imp; [|apply (resize_ok b n Ib)].
    intros b' (t & H2 & H3 & H4 & _). split; [exact H2|]. eapply ref_eq; [exact H3|].
    apply cr_resize; [exact Rb|]. rewrite exposed_length by exact Ib. exact H4.
  - (* OReserve *)
    cbn [hint_unsat] in Hh. apply negb_false_iff in Hh.
    apply (on1_sim w qs v (fun b => reserve_ b n) (fun _ => 0%N) (fun q => q) Iw Rw).
    intros b q Ib Rb. apply okun_zero.
    pose proof (reserve_ok b n Ib) as R. unfold okun in R. rewrite Hh in R. destruct R as (b' & H1 & H2 & H3).
    exists b'. split; [exact H1|split; [exact H2|]]. eapply ref_eq; [exact H3|exact Rb].
  - (* ORemoveFront *)
    apply (on1_sim w qs v (fun b => remove_front v b n) (fun _ => 0%N)
             (fun q => if (len q <=? n)%N then [] else skipn (N.to_nat n) q) Iw Rw).
    intros b q Ib Rb. apply okun_zero.
    destruct (remove_front_ok v b n Ib) as (b' & H1 & H2 & H3).
    exists b'. split; [exact H1|split; [exact H2|]]. eapply ref_eq; [exact H3|].
    unfold len. rewrite (ref_len b q Ib Rb).
    destruct (N.of_nat (size b) <=? n)%N; [constructor|apply F2_skipn; exact Rb].
  - (* ORemoveBack *)
    apply (on1_sim w qs v (fun b => remove_back v b n) (fun _ => 0%N)
             (fun q => if (len q <=? n)%N then [] else firstn (length q - N.to_nat n) q) Iw Rw).
    intros b q Ib Rb. apply okun_zero.
    destruct (remove_back_ok v b n Ib) as (b' & H1 & H2 & H3).
    exists b'. split; [exact H1|split; [exact H2|]]. eapply ref_eq; [exact H3|].
    unfold len. rewrite (ref_len b q Ib Rb).
    destruct (N.of_nat (size b) <=? n)%N; [constructor|apply F2_firstn; exact Rb].
  - (* OClear *)
    apply (on1_sim w qs v (fun b => clear_ b) (fun _ => 0%N) (fun _ => []) Iw Rw).
    intros b q Ib Rb. apply okun_zero. destruct (clear_ok b Ib) as (b' & H1 & H2 & H3).
    exists b'. split; [exact H1|split; [exact H2|]]. eapply ref_eq; [exact H3|constructor].
  - (* OFree *)
    apply (on1_sim w qs v (fun b => Ok (free_ v b)) (fun _ => 0%N) (fun _ => []) Iw Rw).
    intros b q Ib Rb. destruct (free_ok v b) as [I E]. apply okun_zero.
    exists (free_ v b). split; [reflexivity|split; [exact I|]]. eapply ref_eq; [exact E|constructor].
  - (* OSwap *)
    pose proof (get2_sim w qs v x Iw Rw) as G.
    destruct (nth_error qs v) as [q|] eqn:Eq; [destruct (nth_error qs x) as [p|] eqn:Ep|];
      [|exact (G _)|exact (G _)].
    destruct G as (b & s & Hb & Hs & Ib & Is & Rb & Rs). rewrite Hb, Hs. cbn [bind].
    exists (upd x b (upd v s w)), None. split; [reflexivity|].
    split; [apply Forall_upd; [apply Forall_upd|]; assumption|].
    split; [apply F2_upd; [apply F2_upd|]; assumption|right; reflexivity].
  - (* OEq *)
    pose proof (get2_sim w qs v x Iw Rw) as G.
    destruct (nth_error qs v) as [q|] eqn:Eq; [destruct (nth_error qs x) as [p|] eqn:Ep|];
      [|exact (G _)|exact (G _)].
    destruct G as (b & s & Hb & Hs & Ib & Is & Rb & Rs). rewrite Hb, Hs. cbn [bind].
    rewrite !win_inv by assumption. cbn [bind].
    exists w, (q_eq (view b) (view s)). split; [reflexivity|split; [exact Iw|split; [exact Rw|]]].
    rewrite <- !exposed_inv by assumption. apply q_eq_ref; assumption.
  - (* OAppendAt *)
    apply (on1at_sim w qs v off n (fun b => append_at b off n) (fun q => (len q + N.of_nat n)%N)
             (fun q => q ++ q_part q off n) Iw Rw).
    intros b q Ib Rb Hoff. eapply okun_ref; [|eapply okun_need; [|apply (append_at_ok b off n Ib Hoff)]].
    + apply Forall2_app; [exact Rb|apply F2_slice; exact Rb].
    + unfold len. rewrite (ref_len b q Ib Rb). lia.
  - (* OAssignAt *)
    apply (on1at_sim w qs v off n (fun b => assign_at b off n) (fun _ => N.of_nat n)
             (fun q => q_part q off n) Iw Rw).
    intros b q Ib Rb Hoff. eapply okun_ref; [|apply (assign_at_ok b off n Ib Hoff)].
    apply F2_slice; exact Rb.
  - (* OPrependAt *)
    apply (on1at_sim w qs v off n (fun b => prepend_at b off n) (fun q => (N.of_nat n + len q)%N)
             (fun q => q_part q off n ++ q) Iw Rw).
    intros b q Ib Rb Hoff. eapply okun_ref; [|eapply okun_need; [|apply (prepend_at_ok b off n Ib Hoff)]].
    + apply Forall2_app; [apply F2_slice; exact Rb|exact Rb].
    + unfold len. rewrite (ref_len b q Ib Rb). lia.
Qed.

(* a hint that cannot be followed: the reference keeps every queue, the model (like the code) ends in a
   failed allocation *)
Lemma step_hint w qs o : winv w -> wref w qs -> hint_unsat o = true ->
  match spec_step qs o with
  | SOk (qs', a') => qs' = qs /\ a' = None /\ step w o = Err AllocFail
  | SReject => step w o = Err BadArg
  | SUnsat => False
  end.
Proof.
  intros Iw Rw Hh. destruct o; try discriminate Hh. cbn [hint_unsat] in Hh. apply negb_true_iff in Hh.
  unfold step, spec_step. cbn [data_ok negb]. pose proof (get_sim w qs v Iw Rw) as G. unfold on1.
  destruct (nth_error qs v) as [q|] eqn:Eq.
  - destruct G as (b & Hg & Ib & Rb). change (fitsN 0) with true. cbn iota.
    split; [apply upd_same; exact Eq|]. split; [reflexivity|].
    rewrite Hg. cbn [bind]. pose proof (reserve_ok b n Ib) as R. unfold okun in R. rewrite Hh in R.
    unfold ret1. rewrite R. reflexivity.
  - rewrite G. reflexivity.
Qed.

Definition step_goal (o : op) (r : res (world * option bool)) (s : sstep) : Prop :=
  match s with
  | SOk (qs', a') => if hint_unsat o then r = Err AllocFail
                     else exists w' a, r = Ok (w', a) /\ winv w' /\ wref w' qs' /\ ans_ref a a'
  | SReject => r = Err BadArg
  | SUnsat => r = Err AllocFail
  end.

Theorem step_sim_lemma w qs o : winv w -> wref w qs -> step_goal o (step w o) (spec_step qs o).
Proof.
  intros Iw Rw. unfold step_goal. destruct (hint_unsat o) eqn:Hh.
  - pose proof (step_hint w qs o Iw Rw Hh) as S.
    destruct (spec_step qs o) as [[qs1 a1']| |]; [destruct S as (_ & _ & S); exact S|exact S|contradiction].
  - pose proof (step_sim_plain w qs o Iw Rw Hh) as S. unfold sim_goal in S.
    destruct (spec_step qs o) as [[qs1 a1']| |]; exact S.
Qed.

(* ---- histories ------------------------------------------------------------------------------ *)

(* the reference goes on after a hint that cannot be followed, the model stops there *)
Definition run_goal (ops : list op) (r : res (world * list (option bool))) (s : sres (list queue * list (option bool))) : Prop :=
  (r = Err AllocFail /\ existsb hint_unsat ops = true) \/
  match s with
  | SOk (qs', rs') => exists w' rs, r = Ok (w', rs) /\ winv w' /\ wref w' qs' /\ Forall2 ans_ref rs rs'
  | SReject => r = Err BadArg
  | SUnsat => r = Err AllocFail
  end.

Lemma run_sim_lemma ops : forall w qs, winv w -> wref w qs -> run_goal ops (run w ops) (spec_run qs ops).
Proof.
  induction ops as [|o rest IH]; intros w qs Iw Rw; cbn [run spec_run].
  - right. exists w, []. auto.
  - pose proof (step_sim_lemma w qs o Iw Rw) as S. unfold step_goal in S.
    destruct (spec_step qs o) as [[qs1 a1']| |].
    + destruct (hint_unsat o) eqn:Hh.
      * left. rewrite S. split; [reflexivity|]. cbn [existsb]. rewrite Hh. reflexivity.
      * destruct S as (w1 & a1 & H1 & Iw1 & Rw1 & Ha1). rewrite H1. cbn [bind fst snd].
        pose proof (IH w1 qs1 Iw1 Rw1) as R. unfold run_goal in R.
        destruct R as [[R1 R2]|R].
        { left. rewrite R1. split; [reflexivity|]. cbn [existsb]. rewrite R2. apply orb_true_r. }
        right. destruct (spec_run qs1 rest) as [[qs2 rs2']| |].
        -- destruct R as (w2 & rs2 & H2 & Iw2 & Rw2 & Hrs). rewrite H2. cbn [bind fst snd].
           exists w2, (a1 :: rs2). split; [reflexivity|split; [exact Iw2|split; [exact Rw2|]]].
           constructor; assumption.
        -- rewrite R. reflexivity.
        -- rewrite R. reflexivity.
    + right. rewrite S. reflexivity.
    + right. rewrite S. reflexivity.
Qed.

(* histories without such a hint: the reference decides the outcome *)
Lemma run_sim_nohint_lemma ops w qs : winv w -> wref w qs -> existsb hint_unsat ops = false ->
  match spec_run qs ops with
  | SOk (qs', rs') => exists w' rs, run w ops = Ok (w', rs) /\ winv w' /\ wref w' qs' /\ Forall2 ans_ref rs rs'
  | SReject => run w ops = Err BadArg
  | SUnsat => run w ops = Err AllocFail
  end.
Proof.
  intros Iw Rw Hn. destruct (run_sim_lemma ops w qs Iw Rw) as [[_ H]|H]; [congruence|exact H].
Qed.

Lemma wref_self w : wref w (map exposed w).
Proof. induction w; constructor; [apply cr_refl|assumption]. Qed.

Inductive reachable : world -> Prop :=
| reach_init : reachable []
| reach_step w o w' a : reachable w -> step w o = Ok (w', a) -> reachable w'.

Lemma step_inv_lemma w o w' a : winv w -> step w o = Ok (w', a) -> winv w'.
Proof.
  intros Iw H. pose proof (step_sim_lemma w (map exposed w) o Iw (wref_self w)) as S. unfold step_goal in S.
  destruct (spec_step (map exposed w) o) as [[qs1 a1']| |].
  - destruct (hint_unsat o); [congruence|]. destruct S as (w1 & a1 & H1 & Iw1 & _). congruence.
  - congruence.
  - congruence.
Qed.

Lemma reachable_inv_lemma w : reachable w -> winv w.
Proof.
  induction 1 as [|w o w' a Hr IH Hs]; [constructor|]. eapply step_inv_lemma; eassumption.
Qed.

(* the only errors: a history without meaning, and a request that cannot be satisfied (which the reference
   either names SUnsat or, for a hint, leaves open) *)
Lemma step_safe_lemma w o e : winv w -> step w o = Err e ->
  (e = BadArg /\ spec_step (map exposed w) o = SReject) \/
  (e = AllocFail /\ (spec_step (map exposed w) o = SUnsat \/ hint_unsat o = true)).
Proof.
  intros Iw H. pose proof (step_sim_lemma w (map exposed w) o Iw (wref_self w)) as S. unfold step_goal in S.
  destruct (spec_step (map exposed w) o) as [[qs1 a1']| |].
  - destruct (hint_unsat o).
    + right. split; [congruence|right; reflexivity].
    + destruct S as (w1 & a1 & H1 & _). congruence.
  - left. split; [congruence|reflexivity].
  - right. split; [congruence|left; reflexivity].
Qed.

Lemma run_reachable_lemma ops : forall w w' rs, reachable w -> run w ops = Ok (w', rs) -> reachable w'.
Proof.
  induction ops as [|o rest IH]; intros w w' rs Hr H; cbn [run] in H.
  - congruence.
  - destruct (step w o) as [[w1 a1]|e] eqn:E1; cbn [bind fst snd] in H; [|discriminate].
    destruct (run w1 rest) as [[w2 rs2]|e] eqn:E2; cbn [bind fst snd] in H; [|discriminate].
    assert (w2 = w') by congruence. subst w2.
    eapply IH; [|exact E2]. eapply reach_step; eassumption.
Qed.

Lemma run_safe_lemma ops e : run [] ops = Err e ->
  (e = BadArg /\ spec_run [] ops = SReject) \/
  (e = AllocFail /\ (spec_run [] ops = SUnsat \/ existsb hint_unsat ops = true)).
Proof.
  intro H. pose proof (run_sim_lemma ops [] [] (Forall_nil _) (Forall2_nil _)) as R. unfold run_goal in R.
  destruct R as [[R1 R2]|R].
  { right. split; [congruence|right; exact R2]. }
  destruct (spec_run [] ops) as [[qs rs]| |].
  - destruct R as (w' & rs' & H1 & _). congruence.
  - left. split; [congruence|reflexivity].
  - right. split; [congruence|left; reflexivity].
Qed.

Lemma terminator_lemma w b : reachable w -> In b w -> owns b = true ->
  exists a, own b = Some a /\ length a = capf b + 1 /\ stop b < length a /\
            nth_error a (stop b) = Some (Some 0%Z) /\ after_end b = Some (Some 0%Z).
Proof.
  intros Hr Hin Ho. pose proof (reachable_inv_lemma w Hr) as Iw.
  unfold winv in Iw. rewrite Forall_forall in Iw. pose proof (Iw b Hin) as I.
  unfold inv in I. unfold owns in Ho. unfold after_end.
  destruct (own b) as [a|]; [|discriminate].
  destruct I as (Hw & Hl & Hse & Hec & Ht & Hsm). exists a. rewrite Hw.
  repeat split; try assumption; lia.
Qed.

(* the representation invariant, spelled out *)
Lemma rep_lemma w b : reachable w -> In b w ->
  match own b with
  | Some a => wb b = BOwn /\ length a = capf b + 1 /\ start b <= stop b /\ stop b <= capf b /\
              (N.of_nat (capf b) < max_bytes)%N
  | None => capf b = 0 /\
            match wb b with
            | BOwn => False
            | BReg r => start b <= stop b /\ stop b <= length r /\ (N.of_nat (length r) < max_bytes)%N
            | BCap _ => start b = 0 /\ stop b = 0
            end
  end.
Proof.
  intros Hr Hin. pose proof (reachable_inv_lemma w Hr) as Iw.
  unfold winv in Iw. rewrite Forall_forall in Iw. pose proof (Iw b Hin) as I.
  unfold inv in I. destruct (own b); tauto.
Qed.

(* a successful write through a pointer that is not into the own allocation wrote nothing *)
Lemma wr_win_foreign_lemma b off d b' : wr_win b off d = Ok b' -> wb b <> BOwn -> d = [] /\ b' = b.
Proof.
  unfold wr_win. intros H Hn.
  destruct (wb b) as [|r|v]; [congruence| |]; (destruct d; [split; [reflexivity|congruence]|discriminate]).
Qed.
