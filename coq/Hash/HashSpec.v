(* The reference object of property C02: an insertion-ordered association list with unique
   keys ("ordered map"), one per container variable.  It knows nothing about buckets, hash
   functions, capacities or node pools.
   - inserting a key that is present keeps its position; HashMap replaces the value, HashSet
     and PoolMap leave the entry untouched;
   - inserting a new key places the entry before the given position;
   - equality is equality of the entry sequences (order-sensitive; keys only for the set);
   - a returned iterator is observed as rank:key:value of the entry it designates;
   - iterating forwards visits the entries in sequence order, iterating backwards in the reverse order. *)
From Coq Require Import ZArith List Bool Arith.
From Common Require Import ListAux.
From Hash Require Import HashBase.
Import ListNotations.
Local Open Scope Z_scope.

Section Spec.
Variable K : Type.
Variable keqb : K -> K -> bool.

Definition entry : Type := (K * Z)%type.
Definition omap : Type := list entry.

Fixpoint s_index (k : K) (l : omap) : option nat :=
  match l with
  | [] => None
  | e :: t => if keqb k (fst e) then Some O else option_map S (s_index k t)
  end.

Definition s_iter (l : omap) (r : nat) : iter K :=
  match nth_error l r with Some e => Some (r, fst e, snd e) | None => None end.

Definition s_find (l : omap) (k : K) : iter K :=
  match s_index k l with Some r => s_iter l r | None => None end.

Definition s_has (l : omap) (k : K) : bool := existsb (fun e => keqb k (fst e)) l.

Definition s_set (l : omap) (k : K) (v : Z) : omap :=
  map (fun e => if keqb k (fst e) then (fst e, v) else e) l.

(* insert(position, key, value) *)
Definition s_put (kd : kind) (l : omap) (pos : nat) (k : K) (v : Z) : omap :=
  if s_has l k then match kd with KMap => s_set l k v | _ => l end
  else insert_at pos (k, ins_value kd v) l.

Definition s_remove_key (l : omap) (k : K) : omap := filter (fun e => negb (keqb k (fst e))) l.

Fixpoint list_eqb {A} (eqb : A -> A -> bool) (a b : list A) : bool :=
  match a, b with
  | [], [] => true
  | x :: a', y :: b' => eqb x y && list_eqb eqb a' b'
  | _, _ => false
  end.

Definition s_eq (kd : kind) (a b : omap) : bool :=
  match kd with
  | KSet => list_eqb keqb (map fst a) (map fst b)
  | _ => list_eqb (fun e f => keqb (fst e) (fst f) && (snd e =? snd f)) a b
  end.

Definition s_value_res (kd : kind) (l : omap) (k : K) : res K :=
  match kd with
  | KSet => RNone
  | _ => match s_find l k with Some (_, _, v) => RVal v | None => RNone end
  end.

Definition s_entry_res (kd : kind) (e : entry) : res K :=
  match kd with KSet => RKey (fst e) | _ => RVal (snd e) end.

Definition s_with (st : list omap) (x : nat) (f : omap -> omap * res K) : list omap * res K :=
  match nth_error st x with
  | None => (st, RPre)
  | Some l => let (l', r) := f l in (upd x l' st, r)
  end.

Definition s_with2 (st : list omap) (x y : nat) (f : omap -> omap -> list omap * res K) : list omap * res K :=
  match nth_error st x, nth_error st y with
  | Some a, Some b => f a b
  | _, _ => (st, RPre)
  end.

Definition spec_step (kd : kind) (st : list omap) (o : op K) : list omap * res K :=
  if negb (op_allowed kd o) then (st, RPre) else
  match o with
  | ONew x c => if c <? 0 then (st, RPre) else s_with st x (fun _ => ([], RNone))
  | ONewDefault x => s_with st x (fun _ => ([], RNone))
  | OFind x k => s_with st x (fun l => (l, RIter (s_find l k)))
  | OContains x k => s_with st x (fun l => (l, RBool (s_has l k)))
  | OInsert x pos k v =>
      s_with st x (fun l => if (pos <=? length l)%nat
                            then let l' := s_put kd l pos k v in (l', RIter (s_find l' k))
                            else (l, RPre))
  | OAppend x k v => s_with st x (fun l => let l' := s_put kd l (length l) k v in (l', s_value_res kd l' k))
  | OPrepend x k v => s_with st x (fun l => let l' := s_put kd l O k v in (l', s_value_res kd l' k))
  | ORemoveKey x k => s_with st x (fun l => (s_remove_key l k, RNone))
  | ORemoveAt x r =>
      s_with st x (fun l => if (r <? length l)%nat
                            then let l' := remove_nth r l in (l', RIter (s_iter l' r))
                            else (l, RPre))
  | ORemoveVal x r =>
      s_with st x (fun l => if (r <? length l)%nat then (remove_nth r l, RNone) else (l, RPre))
  | ORemoveFront x =>
      s_with st x (fun l => match l with [] => (l, RPre) | _ :: t => (t, RIter (s_iter t O)) end)
  | ORemoveBack x =>
      s_with st x (fun l => match l with [] => (l, RPre) | _ => (removelast l, RIter None) end)
  | OClear x => s_with st x (fun _ => ([], RNone))
  | OSwap x y => s_with2 st x y (fun a b => (upd y a (upd x b st), RNone))
  | OFront x => s_with st x (fun l => match l with [] => (l, RPre) | e :: _ => (l, s_entry_res kd e) end)
  | OBack x => s_with st x (fun l => match rev l with [] => (l, RPre) | e :: _ => (l, s_entry_res kd e) end)
  | OCopy x y => s_with2 st x y (fun _ b => (upd x b st, RNone))
  | OAssign x y => s_with2 st x y (fun _ b => (upd x b st, RNone))
  | OEq x y => s_with2 st x y (fun a b => (st, RBool (s_eq kd a b)))
  | OAppendAll x y =>
      s_with2 st x y (fun a b => (upd x (fold_left (fun l e => s_put kd l (length l) (fst e) (snd e)) b a) st, RNone))
  | ORemoveAll x y =>
      s_with2 st x y (fun a b => (upd x (fold_left (fun l e => s_remove_key l (fst e)) b a) st, RNone))
  | OSetVal x k v =>
      s_with st x (fun l => if s_has l k then let l' := s_set l k v in (l', RIter (s_find l' k))
                            else (l, RIter None))
  (* iteration order, forwards; and backwards = the same sequence reversed *)
  | OIterFwd x => s_with st x (fun l => (l, RWalk (Some l)))
  | OIterBack x => s_with st x (fun l => (l, RWalk (Some (rev l))))
  end.

Definition s_obs (l : omap) : tobs K := (Z.of_nat (length l), is_nil l, l).

Fixpoint spec_run (kd : kind) (st : list omap) (ops : list (op K)) : list (res K * list (tobs K)) :=
  match ops with
  | [] => []
  | o :: rest => let (st', r) := spec_step kd st o in (r, map s_obs st') :: spec_run kd st' rest
  end.

End Spec.

Arguments s_index {K}. Arguments s_iter {K}. Arguments s_find {K}. Arguments s_has {K}. Arguments s_set {K}.
Arguments s_put {K}. Arguments s_remove_key {K}. Arguments s_eq {K}. Arguments s_value_res {K}.
Arguments s_entry_res {K}. Arguments s_with {K}. Arguments s_with2 {K}. Arguments spec_step {K}.
Arguments s_obs {K}. Arguments spec_run {K}.
