(* Node recycling (HashMap.hpp insert/remove/clear: freeItem list, blocks of 4 items):
   for every history, the slots of the live items together with the free list are pairwise
   distinct, lie inside the allocated blocks, and there are exactly 4 per block - i.e. they
   partition the allocated items, so no item is ever handed out twice or lost.
   The proof goes through a generic "every step preserves a per-table predicate" lemma. *)
From Coq Require Import ZArith List Bool Arith Lia Permutation.
From Common Require Import ListAux.
From Hash Require Import HashBase HashSpec HashModel HashProofs HashRefine.
Import ListNotations.
Local Open Scope Z_scope.

Section Pool.
Variable K : Type.
Variable keqb : K -> K -> bool.
Variable hash : K -> Z.

Notation table := (table K).
Notation node := (node K).
Local Notation step := (HashModel.step keqb hash).
Local Notation insert := (HashModel.insert keqb hash).
Local Notation find_node := (HashModel.find_node keqb hash).
Local Notation remove_at := (HashModel.remove_at keqb hash).
Local Notation remove_key := (HashModel.remove_key keqb hash).

(* the prev link of the end sentinel designates the last item of the list (the part of the table invariant
   swap() relies on; it needs no assumption about the key equality) *)
Definition links_ok (t : table) : Prop := end_prev t = last_slot K (order t).

(* ---- a predicate on single tables preserved by the primitive operations is preserved by step -- *)
Section Preserve.
Variable P : table -> Prop.
Hypothesis P_new : forall x c, P (new_table x c).
Hypothesis P_insert : forall kd t pos k v, P t -> P (fst (insert kd t pos k v)).
Hypothesis P_remove : forall t r, P t -> P (remove_at t r).
Hypothesis P_clear : forall x t, P t -> P (clear x t).
Hypothesis P_take : forall x t, links_ok t -> P t -> P (take x t).
Hypothesis P_setval : forall t r n v, P t -> nth_error (order t) r = Some n ->
  P (set_order t (upd r (mknode (nkey n) v (nslot n)) (order t))).

Lemma with_var_pres st x f :
  Forall P st -> (forall t, P t -> P (fst (f t))) -> Forall P (fst (with_var st x f)).
Proof.
  intros Hst Hf. unfold with_var. destruct (nth_error st x) as [t|] eqn:E; cbn [fst]; auto.
  assert (Ht : P t) by (apply nth_error_In in E; revert t E; apply Forall_forall; exact Hst).
  specialize (Hf t Ht). destruct (f t) as [t' r]. cbn [fst] in *. apply Forall_upd; auto.
Qed.

Lemma with_2_pres st x y f :
  Forall P st -> (forall a b, In a st -> In b st -> P a -> P b -> Forall P (fst (f a b))) -> Forall P (fst (with_2 st x y f)).
Proof.
  intros Hst Hf. unfold with_2.
  destruct (nth_error st x) as [a|] eqn:Ea; cbn [fst]; auto.
  destruct (nth_error st y) as [b|] eqn:Eb; cbn [fst]; auto.
  apply nth_error_In in Ea. apply nth_error_In in Eb. rewrite Forall_forall in Hst. apply Hf; auto.
Qed.

Lemma remove_key_pres t k : P t -> P (remove_key t k).
Proof. intros H. unfold HashModel.remove_key. destruct (find_node t k) as [[r n]|]; auto. Qed.

Lemma append_all_pres kd l : forall t, P t -> P (append_all keqb hash kd t l).
Proof.
  induction l as [|n l IH]; intros t H; cbn [append_all fold_left]; auto.
  apply IH. apply P_insert. exact H.
Qed.

Lemma remove_all_pres l : forall t, P t -> P (remove_all keqb hash t l).
Proof.
  induction l as [|n l IH]; intros t H; cbn [remove_all fold_left]; auto.
  apply IH. apply remove_key_pres. exact H.
Qed.

Lemma find_node_nth t k r n : find_node t k = Some (r, n) -> nth_error (order t) r = Some n.
Proof.
  unfold HashModel.find_node. destruct (chain_has keqb hash t k); [|discriminate].
  generalize (order t). intros l. revert r. induction l as [|n0 l IH]; intros r H; cbn [locate] in H; try discriminate.
  destruct (keqb k (nkey n0)).
  - inversion H; subst. reflexivity.
  - destruct (locate keqb k l) as [[r' m]|]; try discriminate. inversion H; subst. cbn [nth_error]. apply IH. reflexivity.
Qed.

Ltac ins_case :=
  match goal with
  | |- context [insert ?kd ?t ?pos ?k ?v] =>
      let E := fresh "E" in
      pose proof (P_insert kd t pos k v) as E; destruct (insert kd t pos k v); cbn [fst] in *; auto
  end.

Lemma step_preserves kd st o : Forall links_ok st -> Forall P st -> Forall P (fst (step kd st o)).
Proof.
  intros Hlk Hst. unfold HashModel.step. destruct (op_allowed kd o); cbn [negb]; [|cbn [fst]; auto].
  destruct o as [x c|x|x k|x k|x pos k v|x k v|x k v|x k|x r|x r|x|x|x|x y|x|x|x y|x y|x y|x y|x y|x k v|x|x].
  - destruct (c <? 0); [cbn [fst]; auto|]. apply with_var_pres; auto; intros t Ht; cbn [fst]; auto.
  - apply with_var_pres; auto; intros t Ht; cbn [fst]; auto.
  - apply with_var_pres; auto; intros t Ht; cbn [fst]; auto.
  - apply with_var_pres; auto; intros t Ht; cbn [fst]; auto.
  - apply with_var_pres; auto. intros t Ht. destruct (Z.of_nat pos <=? size t); [ins_case|auto].
  - apply with_var_pres; auto. intros t Ht. ins_case.
  - apply with_var_pres; auto. intros t Ht. ins_case.
  - apply with_var_pres; auto. intros t Ht. cbn [fst]. apply remove_key_pres; auto.
  - apply with_var_pres; auto. intros t Ht. destruct (Z.of_nat r <? size t); cbn [fst]; auto.
  - apply with_var_pres; auto. intros t Ht. destruct (Z.of_nat r <? size t); cbn [fst]; auto.
  - apply with_var_pres; auto. intros t Ht. destruct (is_nil (order t)); cbn [fst]; auto.
  - apply with_var_pres; auto. intros t Ht. destruct (is_nil (order t)); cbn [fst]; auto.
  - apply with_var_pres; auto; intros t Ht; cbn [fst]; auto.
  - (* OSwap *) apply with_2_pres; auto. intros a b Ia Ib Ha Hb. cbn [fst]. rewrite Forall_forall in Hlk.
    apply Forall_upd; [apply Forall_upd; auto|]; apply P_take; auto.
  - apply with_var_pres; auto. intros t Ht. destruct (order t); auto.
  - apply with_var_pres; auto. intros t Ht. destruct (rev (order t)); auto.
  - apply with_2_pres; auto. intros a b Ia Ib Ha Hb. cbn [fst]. apply Forall_upd; auto. apply append_all_pres; auto.
  - apply with_2_pres; auto. intros a b Ia Ib Ha Hb. destruct (x =? y)%nat; cbn [fst]; auto.
    apply Forall_upd; auto. apply append_all_pres; auto.
  - apply with_2_pres; auto.
  - apply with_2_pres; auto. intros a b Ia Ib Ha Hb. cbn [fst]. apply Forall_upd; auto. apply append_all_pres; auto.
  - apply with_2_pres; auto. intros a b Ia Ib Ha Hb. cbn [fst]. apply Forall_upd; auto. apply remove_all_pres; auto.
  - apply with_var_pres; auto. intros t Ht. destruct (find_node t k) as [[r n]|] eqn:Ef; cbn [fst]; auto.
    apply P_setval; auto. eapply find_node_nth; eauto.
  - apply with_var_pres; auto; intros t Ht; cbn [fst]; auto.
  - apply with_var_pres; auto; intros t Ht; cbn [fst]; auto.
Qed.

End Preserve.

(* ---- the sentinel's prev link: preserved by every step, for every key equality -------------------- *)
Lemma links_new x c : links_ok (new_table x c).
Proof. reflexivity. Qed.

Lemma links_setval t r n v : links_ok t -> nth_error (order t) r = Some n ->
  links_ok (set_order t (upd r (mknode (nkey n) v (nslot n)) (order t))).
Proof.
  intros H Hn. unfold links_ok, set_order in *. cbn [end_prev order]. rewrite H. symmetry.
  apply (last_slot_upd K r n _ (order t) Hn). reflexivity.
Qed.

Lemma links_insert kd t pos k v : links_ok t -> links_ok (fst (insert kd t pos k v)).
Proof.
  intros H. unfold HashModel.insert. destruct (find_node t k) as [[r n]|] eqn:Ef.
  - destruct kd; cbn [fst]; auto. apply links_setval; auto. eapply find_node_nth; eauto.
  - destruct (alloc kd (free t) (nblocks t)) as [[s fr] nb]. cbn [fst]. unfold links_ok in *. cbn [end_prev order].
    rewrite last_slot_insert_at. cbn [nslot]. rewrite H. reflexivity.
Qed.

Lemma links_remove t r : links_ok t -> links_ok (remove_at t r).
Proof.
  intros H. unfold HashModel.remove_at. destruct (nth_error (order t) r) as [n|] eqn:En; auto.
  unfold links_ok in *. cbn [end_prev order]. rewrite (last_slot_remove_nth K r n (order t) En). rewrite H. reflexivity.
Qed.

Lemma links_clear x t : links_ok t -> links_ok (clear x t).
Proof. intros _. reflexivity. Qed.

Lemma links_take x t : links_ok t -> links_ok (take x t).
Proof.
  intros H. unfold take, links_ok in *. destruct (end_prev t) as [l|] eqn:E; cbn [end_prev order]; auto.
Qed.

Theorem links_step kd st o : Forall links_ok st -> Forall links_ok (fst (step kd st o)).
Proof.
  intros H. apply step_preserves; auto.
  - exact links_new.
  - exact links_insert.
  - exact links_remove.
  - exact links_clear.
  - intros x t _ Ht. apply links_take; auto.
  - intros t r n v Ht Hn. apply links_setval; auto.
Qed.

Lemma links_start caps : Forall links_ok (start K caps).
Proof.
  unfold start, init. generalize (map ctor_cap caps) O. intros cs. induction cs as [|c rest IH]; intros i; cbn [init_from]; constructor; auto.
  apply links_new.
Qed.

Lemma states_preserve (P : table -> Prop) :
  (forall kd st o, Forall links_ok st -> Forall P st -> Forall P (fst (step kd st o))) ->
  forall kd ops st, Forall links_ok st -> Forall P st -> Forall P (states K keqb hash kd st ops).
Proof.
  intros Hstep kd ops. induction ops as [|o rest IH]; intros st Hlk Hst; cbn [states]; auto.
  apply IH; [apply links_step; exact Hlk | apply Hstep; assumption].
Qed.

(* ---- the slot partition ------------------------------------------------------------------------ *)
Definition slots (t : table) : list slot := map nslot (order t) ++ free t.
Definition slot_in (nb : Z) (s : slot) : Prop := 0 <= fst s < nb /\ 0 <= snd s < 4.
Definition good (nb : Z) (l : list slot) : Prop :=
  NoDup l /\ Forall (slot_in nb) l /\ Z.of_nat (length l) = 4 * nb.
Definition pool_ok (t : table) : Prop := good (nblocks t) (slots t).

Lemma good_perm nb l l' : Permutation l l' -> good nb l -> good nb l'.
Proof.
  intros Hp [H1 [H2 H3]]. split; [|split].
  - eapply Permutation_NoDup; eauto.
  - eapply Permutation_Forall; eauto.
  - rewrite <- (Permutation_length Hp). exact H3.
Qed.

Lemma pool_new x c : pool_ok (new_table x c).
Proof. unfold pool_ok, good, slots. cbn. split; [constructor|split; [constructor|reflexivity]]. Qed.

Lemma good_nonneg nb l : good nb l -> 0 <= nb.
Proof. intros [_ [_ H]]. lia. Qed.

Lemma good_new_block nb l a b c d :
  good nb l -> Permutation [a; b; c; d] [(nb, 0); (nb, 1); (nb, 2); (nb, 3)] ->
  good (nb + 1) ([a; b; c; d] ++ l).
Proof.
  intros Hg Hp. pose proof (good_nonneg nb l Hg) as Hnb. destruct Hg as [H1 [H2 H3]].
  apply (good_perm (nb + 1) ([(nb, 0); (nb, 1); (nb, 2); (nb, 3)] ++ l)).
  { apply Permutation_app_tail. symmetry. exact Hp. }
  assert (Hout : forall i, ~ In (nb, i) l).
  { intros i Hi. rewrite Forall_forall in H2. apply H2 in Hi. unfold slot_in in Hi. cbn [fst] in Hi. lia. }
  split; [|split].
  - cbn [app]. repeat constructor; cbn [In]; try apply Hout; auto;
      intros H; repeat (destruct H as [H|H]; [inversion H|]); try (apply (Hout _ H)); try contradiction.
  - cbn [app]. repeat constructor; cbn [fst snd]; try lia.
    eapply Forall_impl; [|exact H2]. intros s [Ha Hb]. split; lia.
  - rewrite app_length. cbn [length]. unfold slot in *. lia.
Qed.

Lemma map_nslot_upd (l : list node) r n v :
  nth_error l r = Some n -> map nslot (upd r (mknode (nkey n) v (nslot n)) l) = map nslot l.
Proof.
  intros H. rewrite map_upd. cbn [nslot]. apply upd_same. rewrite nth_error_map', H. reflexivity.
Qed.

Lemma pool_setval t r n v : pool_ok t -> nth_error (order t) r = Some n ->
  pool_ok (set_order t (upd r (mknode (nkey n) v (nslot n)) (order t))).
Proof.
  intros H Hn. unfold pool_ok, slots, set_order in *. cbn [order free nblocks]. rewrite map_nslot_upd; auto.
Qed.

Lemma perm_insert_at {A} pos (a : A) l : Permutation (insert_at pos a l) (a :: l).
Proof.
  unfold insert_at. rewrite <- (firstn_skipn pos l) at 3. symmetry. apply Permutation_middle.
Qed.

Lemma alloc_good kd fr nb l :
  good nb (l ++ fr) ->
  good (snd (alloc kd fr nb)) (fst (fst (alloc kd fr nb)) :: l ++ snd (fst (alloc kd fr nb))).
Proof.
  intros H. unfold alloc. destruct fr as [|s f].
  - rewrite app_nil_r in H.
    assert (Hblk : forall a b c d, Permutation [a; b; c; d] [(nb, 0); (nb, 1); (nb, 2); (nb, 3)] ->
                   good (nb + 1) (a :: l ++ [b; c; d])).
    { intros a b c d Hp. apply (good_perm (nb + 1) ([a; b; c; d] ++ l)).
      - cbn [app]. apply perm_skip. apply (Permutation_app_comm [b; c; d] l).
      - apply good_new_block; auto. }
    destruct kd; cbn [fst snd]; apply Hblk.
    + apply perm_skip. change [(nb, 3); (nb, 2); (nb, 1)] with (rev [(nb, 1); (nb, 2); (nb, 3)]).
      symmetry. apply Permutation_rev.
    + apply perm_skip. change [(nb, 3); (nb, 2); (nb, 1)] with (rev [(nb, 1); (nb, 2); (nb, 3)]).
      symmetry. apply Permutation_rev.
    + change [(nb, 3); (nb, 2); (nb, 1); (nb, 0)] with (rev [(nb, 0); (nb, 1); (nb, 2); (nb, 3)]).
      symmetry. apply Permutation_rev.
  - cbn [fst snd]. eapply good_perm; [|exact H]. symmetry. apply Permutation_middle.
Qed.

Lemma pool_insert kd t pos k v : pool_ok t -> pool_ok (fst (insert kd t pos k v)).
Proof.
  intros H. unfold HashModel.insert. destruct (find_node t k) as [[r n]|] eqn:Ef.
  - destruct kd; cbn [fst]; auto. apply pool_setval; auto. eapply find_node_nth; eauto.
  - unfold pool_ok, slots in *. pose proof (alloc_good kd (free t) (nblocks t) _ H) as Hg.
    destruct (alloc kd (free t) (nblocks t)) as [[s fr] nb]. cbn [fst snd] in *.
    cbn [order free nblocks]. rewrite insert_at_map. cbn [nslot].
    eapply good_perm; [|exact Hg].
    symmetry. apply (Permutation_app_tail fr (perm_insert_at pos s (map nslot (order t)))).
Qed.

Lemma pool_remove t r : pool_ok t -> pool_ok (remove_at t r).
Proof.
  intros H. unfold HashModel.remove_at. destruct (nth_error (order t) r) as [n|] eqn:En; auto.
  unfold pool_ok, slots in *. cbn [order free nblocks]. eapply good_perm; [|exact H].
  rewrite (remove_nth_split r (order t) n En) at 1. unfold remove_nth.
  rewrite !map_app. cbn [map]. rewrite <- !app_assoc. apply Permutation_app_head.
  cbn [app]. apply Permutation_middle.
Qed.

Lemma pool_clear x t : pool_ok t -> pool_ok (clear x t).
Proof.
  intros H. unfold pool_ok, slots, clear in *. cbn [order free nblocks map app].
  eapply good_perm; [|exact H]. apply Permutation_app_tail. apply Permutation_rev.
Qed.

(* swap: the receiving object keeps every item of the list it takes over - in the branch "endItem.prev is null"
   because the list is then empty (links_ok) *)
Lemma pool_take x t : links_ok t -> pool_ok t -> pool_ok (take x t).
Proof.
  intros Hl H. unfold take, links_ok, pool_ok, slots in *. destruct (end_prev t) as [l|] eqn:E; cbn [order free nblocks]; auto.
  symmetry in Hl. apply (last_slot_none K) in Hl. rewrite Hl in H. exact H.
Qed.

Theorem pool_step kd st o :
  Forall links_ok st -> Forall pool_ok st -> Forall links_ok (fst (step kd st o)) /\ Forall pool_ok (fst (step kd st o)).
Proof.
  intros Hl Hp. split; [apply links_step; exact Hl|].
  apply step_preserves; auto.
  - exact pool_new.
  - exact pool_insert.
  - exact pool_remove.
  - exact pool_clear.
  - exact pool_take.
  - intros t r n v H Hn. apply pool_setval; auto.
Qed.

(* in particular no two live items share a slot: what the backward traversal relies on *)
Lemma pool_slots_nodup t : pool_ok t -> slots_nodup K t.
Proof.
  intros [H _]. unfold slots in H. unfold slots_nodup. revert H. generalize (map nslot (order t)) (free t).
  intros a b. induction a as [|h a IH]; cbn [app]; intros H; [constructor|].
  inversion H as [|? ? Hni Hn]; subst. constructor; [|apply IH; exact Hn].
  intros Hi. apply Hni. apply in_or_app. left. exact Hi.
Qed.

Lemma pool_slots_nodup_all st : Forall pool_ok st -> Forall (slots_nodup K) st.
Proof. intros H. eapply Forall_impl; [|exact H]. exact pool_slots_nodup. Qed.

Lemma pool_start caps : Forall pool_ok (start K caps).
Proof.
  unfold start, init. generalize (map ctor_cap caps) O. intros cs. induction cs as [|c rest IH]; intros i; cbn [init_from]; constructor; auto.
  apply pool_new.
Qed.

Theorem pool_reachable kd caps ops :
  Forall links_ok (states K keqb hash kd (start K caps) ops) /\ Forall pool_ok (states K keqb hash kd (start K caps) ops).
Proof.
  split.
  - apply (states_preserve links_ok); [intros; apply links_step; assumption | apply links_start | apply links_start].
  - apply (states_preserve pool_ok); [intros; apply pool_step; assumption | apply links_start | apply pool_start].
Qed.
End Pool.
