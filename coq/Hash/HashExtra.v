(* Further lemmas for component Hash:
   - "inserting a key that is present keeps its position" as explicit statements about the model;
   - the reference states reached by a history have unique keys;
   - node recycling: live items and the free list partition the slots of the allocated blocks
     (no slot is handed out twice), for every history. *)
From Coq Require Import ZArith List Bool Arith Lia.
From Common Require Import ListAux.
From Hash Require Import HashBase HashSpec HashModel HashProofs HashRefine HashPool.
Import ListNotations.
Local Open Scope Z_scope.

Section Extra.
Variable K : Type.
Variable keqb : K -> K -> bool.
Variable hash : K -> Z.
Hypothesis keqb_spec : forall a b, keqb a b = true <-> a = b.

Notation table := (table K).
Notation node := (node K).
Notation omap := (list (K * Z)).
Notation chains_ok := (chains_ok K hash).
Notation state_ok := (state_ok K hash).
Notation abs := (abs K).
Notation abs_st := (abs_st K).
Notation keys := (keys K).
Notation ent := (ent K).
Local Notation step := (HashModel.step keqb hash).
Local Notation insert := (HashModel.insert keqb hash).
Local Notation find_node := (HashModel.find_node keqb hash).
Local Notation remove_at := (HashModel.remove_at keqb hash).
Local Notation remove_key := (HashModel.remove_key keqb hash).
Local Notation locate := (HashModel.locate keqb).

(* ---- existing key keeps its position -------------------------------------------------------- *)
Lemma locate_nodup (l : list node) r n :
  NoDup (map nkey l) -> nth_error l r = Some n -> locate (nkey n) l = Some (r, n).
Proof.
  revert r; induction l as [|n0 t IH]; intros [|r] Hn Hr; cbn [nth_error map HashModel.locate] in *; try discriminate.
  - inversion Hr; subst. rewrite (keqb_refl K keqb keqb_spec). reflexivity.
  - inversion Hn as [|? ? Hni Hn']; subst.
    assert (Hin : In (nkey n) (map nkey t)) by (apply in_map; eapply nth_error_In; eauto).
    destruct (keqb (nkey n) (nkey n0)) eqn:E.
    + apply keqb_spec in E. rewrite E in Hin. contradiction.
    + rewrite (IH r Hn' Hr). reflexivity.
Qed.

Lemma abs_nth t r k v :
  nth_error (abs t) r = Some (k, v) -> exists n, nth_error (order t) r = Some n /\ nkey n = k /\ nval n = v.
Proof.
  unfold HashProofs.abs. rewrite nth_error_map'. destruct (nth_error (order t) r) as [n|]; cbn [option_map]; intros H; try discriminate.
  exists n. unfold HashProofs.ent in H. inversion H. auto.
Qed.

Lemma find_node_present t r k v0 :
  chains_ok t -> nth_error (abs t) r = Some (k, v0) ->
  exists n, find_node t k = Some (r, n) /\ nth_error (order t) r = Some n /\ nkey n = k /\ nval n = v0.
Proof.
  intros Hok Hr. destruct (abs_nth t r k v0 Hr) as [n [Hn [Hk Hv]]]. exists n.
  rewrite (find_node_locate K keqb hash keqb_spec) by auto. rewrite <- Hk.
  rewrite (locate_nodup (order t) r n); auto. apply (ok_nodup K hash t Hok).
Qed.

(* HashMap: position kept (same rank, every other entry identical), value replaced, the returned
   iterator designates that rank; no item is allocated, the chains are not touched *)
Lemma insert_present_map t pos k v r v0 :
  chains_ok t -> nth_error (abs t) r = Some (k, v0) ->
  abs (fst (insert KMap t pos k v)) = upd r (k, v) (abs t) /\
  snd (insert KMap t pos k v) = Some (r, k, v) /\
  size (fst (insert KMap t pos k v)) = size t /\
  buckets (fst (insert KMap t pos k v)) = buckets t /\
  free (fst (insert KMap t pos k v)) = free t /\
  chains_ok (fst (insert KMap t pos k v)).
Proof.
  intros Hok Hr. destruct (find_node_present t r k v0 Hok Hr) as [n [Hf [Hn [Hk Hv]]]].
  unfold HashModel.insert. rewrite Hf. cbn [fst snd]. unfold set_order.
  cbn [size buckets free]. rewrite Hk.
  split; [|split; [reflexivity|split; [reflexivity|split; [reflexivity|split; [reflexivity|]]]]].
  - unfold HashProofs.abs. cbn [order]. rewrite map_upd. unfold HashProofs.ent at 1. cbn [nkey nval]. reflexivity.
  - apply (chains_ok_set_order K hash t); auto.
    + rewrite map_upd. cbn [nkey].
      apply upd_same. unfold HashProofs.keys. rewrite nth_error_map', Hn. cbn [option_map]. rewrite Hk. reflexivity.
    + apply (last_slot_upd K r n _ (order t) Hn). reflexivity.
Qed.

(* HashSet, PoolMap: the table is left exactly as it was (entry, chains, free list), for every
   position argument; the returned iterator designates the existing entry *)
Lemma insert_present_untouched kd t pos k v r v0 :
  kd <> KMap -> chains_ok t -> nth_error (abs t) r = Some (k, v0) ->
  insert kd t pos k v = (t, Some (r, k, v0)).
Proof.
  intros Hkd Hok Hr. destruct (find_node_present t r k v0 Hok Hr) as [n [Hf [Hn [Hk Hv]]]].
  unfold HashModel.insert. rewrite Hf. rewrite Hk, Hv. destruct kd; try reflexivity. congruence.
Qed.

(* a new key is placed before the given position *)
Lemma insert_new kd t pos k v :
  chains_ok t -> ~ In k (map fst (abs t)) -> (pos <= length (abs t))%nat ->
  abs (fst (insert kd t pos k v)) = insert_at pos (k, ins_value kd v) (abs t) /\
  snd (insert kd t pos k v) = Some (pos, k, ins_value kd v) /\
  size (fst (insert kd t pos k v)) = size t + 1.
Proof.
  intros Hok Hni Hp. rewrite (abs_length K) in Hp.
  destruct (insert_refines K keqb hash keqb_spec kd t pos k v Hok Hp) as [H1 [H2 H3]].
  assert (Hhas : s_has keqb (abs t) k = false) by (apply (s_has_false K keqb keqb_spec); exact Hni).
  unfold s_put in H2. rewrite Hhas in H2. split; [exact H2|]. split.
  - rewrite H3, H2. apply (s_find_insert_at K keqb keqb_spec); auto. rewrite (abs_length K). exact Hp.
  - rewrite (ok_size K hash _ H1), (ok_size K hash t Hok), <- !(abs_length K), H2, insert_at_length. lia.
Qed.

(* The iterator insert() returns - and with it the references append() / prepend() return, which the code takes from
   that iterator (insert(..).item->value) - designates the entry that find(key) reaches in the table AFTER the call:
   same rank, the key itself, the value stored at that rank.  Such an entry always exists. *)
Lemma insert_returns_found kd t pos k v :
  chains_ok t -> (pos <= length (order t))%nat ->
  snd (insert kd t pos k v) = it_of (find_node (fst (insert kd t pos k v)) k) /\
  exists r v', snd (insert kd t pos k v) = Some (r, k, v') /\
               nth_error (abs (fst (insert kd t pos k v))) r = Some (k, v').
Proof.
  intros Hok Hp.
  destruct (insert_refines K keqb hash keqb_spec kd t pos k v Hok Hp) as [H1 [H2 H3]].
  split.
  - rewrite H3. symmetry. apply (find_refines K keqb hash keqb_spec). exact H1.
  - destruct (in_dec (keqb_dec K keqb keqb_spec) k (map fst (abs t))) as [Hin|Hni].
    + apply in_map_iff in Hin. destruct Hin as [[k0 v0] [Ek Hin]]. cbn [fst] in Ek. subst k0.
      apply In_nth_error in Hin. destruct Hin as [r Hr].
      assert (Hlt : (r < length (abs t))%nat) by (apply nth_error_Some; rewrite Hr; discriminate).
      destruct kd.
      * destruct (insert_present_map t pos k v r v0 Hok Hr) as [Ha [Hs _]].
        exists r, v. split; [exact Hs|]. rewrite Ha. apply nth_error_upd_same. exact Hlt.
      * rewrite (insert_present_untouched KSet t pos k v r v0 ltac:(discriminate) Hok Hr). cbn [fst snd].
        exists r, v0. split; [reflexivity|exact Hr].
      * rewrite (insert_present_untouched KPool t pos k v r v0 ltac:(discriminate) Hok Hr). cbn [fst snd].
        exists r, v0. split; [reflexivity|exact Hr].
    + assert (Hp' : (pos <= length (abs t))%nat) by (rewrite (abs_length K); exact Hp).
      destruct (insert_new kd t pos k v Hok Hni Hp') as [Ha [Hs _]].
      exists pos, (ins_value kd v). split; [exact Hs|]. rewrite Ha. apply nth_error_insert_at. exact Hp'.
Qed.

(* the same for the three operations of a history: the result of append / prepend is the value of the entry find(k)
   designates afterwards (RVal; nothing for the set), the result of insert is that iterator *)
Lemma insert_ops_return_found kd st x t pos k v :
  state_ok st -> nth_error st x = Some t -> (pos <= length (order t))%nat ->
  let t' := fst (insert kd t pos k v) in
  it_of (find_node t' k) = snd (insert kd t pos k v) /\
  (op_allowed kd (OInsert x pos k v) = true ->
   step kd st (OInsert x pos k v) = (upd x t' st, RIter (it_of (find_node t' k)))) /\
  (op_allowed kd (OAppend x k v) = true -> pos = length (order t) ->
   step kd st (OAppend x k v) = (upd x t' st, value_res kd (it_of (find_node t' k)))) /\
  (op_allowed kd (OPrepend x k v) = true -> pos = O ->
   step kd st (OPrepend x k v) = (upd x t' st, value_res kd (it_of (find_node t' k)))).
Proof.
  intros Hst E Hp t'.
  assert (Hok : chains_ok t) by (exact (state_ok_nth K hash st x t Hst E)).
  destruct (insert_returns_found kd t pos k v Hok Hp) as [Hf _]. fold t' in Hf.
  split; [symmetry; exact Hf|].
  rewrite <- Hf. unfold t'.
  split; [|split].
  - intros Ha. unfold HashModel.step. rewrite Ha. cbn [negb]. unfold with_var. rewrite E.
    assert (Hle : (Z.of_nat pos <=? size t) = true).
    { apply Z.leb_le. rewrite (ok_size K hash t Hok). lia. }
    rewrite Hle. destruct (insert kd t pos k v). reflexivity.
  - intros Ha ->. unfold HashModel.step. rewrite Ha. cbn [negb]. unfold with_var. rewrite E.
    destruct (insert kd t (length (order t)) k v). reflexivity.
  - intros Ha ->. unfold HashModel.step. rewrite Ha. cbn [negb]. unfold with_var. rewrite E.
    destruct (insert kd t O k v). reflexivity.
Qed.

Lemma invariant_step kd st o : state_ok st -> state_ok (fst (step kd st o)).
Proof. intros H. apply (step_ok K keqb hash keqb_spec kd st o H). Qed.

(* ---- the reference states of a history -------------------------------------------------------- *)
Fixpoint spec_states (kd : kind) (st : list omap) (ops : list (op K)) : list omap :=
  match ops with [] => st | o :: rest => spec_states kd (fst (spec_step keqb kd st o)) rest end.

(* the full invariant of a state: chains + order list (needs the key equality), sentinel link and node recycling *)
Notation links_all := (Forall (links_ok K)).
Notation pool_all := (Forall (pool_ok K)).

Lemma full_step kd st o :
  state_ok st -> links_all st -> pool_all st ->
  (state_ok (fst (step kd st o)) /\ links_all (fst (step kd st o)) /\ pool_all (fst (step kd st o))) /\
  spec_step keqb kd (abs_st st) o = (abs_st (fst (step kd st o)), snd (step kd st o)).
Proof.
  intros Hst Hl Hp.
  destruct (step_refines K keqb hash keqb_spec kd st o Hst (pool_slots_nodup_all K st Hp)) as [H1 H2].
  destruct (pool_step K keqb hash kd st o Hl Hp) as [H3 H4]. auto.
Qed.

Lemma states_refine kd ops : forall st, state_ok st -> links_all st -> pool_all st ->
  abs_st (states K keqb hash kd st ops) = spec_states kd (abs_st st) ops.
Proof.
  induction ops as [|o rest IH]; intros st Hst Hl Hp; cbn [states spec_states]; auto.
  destruct (full_step kd st o Hst Hl Hp) as [[H1 [H3 H4]] H2]. rewrite H2. cbn [fst]. apply IH; assumption.
Qed.

Lemma run_refines kd ops : forall st, state_ok st -> links_all st -> pool_all st ->
  HashModel.run keqb hash kd st ops = spec_run keqb kd (abs_st st) ops.
Proof.
  induction ops as [|o rest IH]; intros st Hst Hl Hp; cbn [HashModel.run spec_run]; auto.
  destruct (full_step kd st o Hst Hl Hp) as [[H1 [H3 H4]] H2]. rewrite H2.
  destruct (step kd st o) as [st' r]. cbn [fst snd] in *.
  rewrite (obs_st_refines K hash st' H1). f_equal. apply IH; assumption.
Qed.

Theorem refines_ordered_map kd caps ops :
  Forall (fun c => 0 <= c) caps ->
  HashModel.run keqb hash kd (start K caps) ops = spec_run keqb kd (map (fun _ => []) caps) ops.
Proof.
  intros H. rewrite <- (abs_start K). apply run_refines; [apply start_ok; exact H | apply links_start | apply pool_start].
Qed.

(* ---- traversal through iterators, in every reachable state ---------------------------------------- *)
Lemma iter_back_ok t : chains_ok t -> pool_ok K t -> iter_back t = option_map (@rev (K * Z)) (iter_fwd t).
Proof. intros Hok Hp. apply iter_back_rev_fwd; [apply (ok_endprev K hash t Hok) | apply pool_slots_nodup; exact Hp]. Qed.

Theorem iter_back_reachable kd caps ops :
  Forall (fun c => 0 <= c) caps ->
  Forall (fun t => iter_fwd t = Some (abs t) /\ iter_back t = Some (rev (abs t)))
         (states K keqb hash kd (start K caps) ops).
Proof.
  intros Hc. pose proof (invariant_reachable K keqb hash keqb_spec kd caps ops Hc) as Hok.
  destruct (pool_reachable K keqb hash kd caps ops) as [_ Hp]. unfold HashRefine.state_ok in Hok.
  rewrite Forall_forall in *. intros t Ht. split; [reflexivity|].
  rewrite (iter_back_ok t (Hok t Ht) (Hp t Ht)). reflexivity.
Qed.

(* the step itself: the result of the backward traversal is the reverse of the sequence the reference holds *)
Lemma iter_step_results kd st x t :
  state_ok st -> pool_all st -> nth_error st x = Some t ->
  step kd st (OIterFwd x) = (st, RWalk (Some (abs t))) /\ step kd st (OIterBack x) = (st, RWalk (Some (rev (abs t)))).
Proof.
  intros Hst Hp E. unfold HashModel.step. cbn [op_allowed negb]. unfold with_var. rewrite E.
  assert (Hu : upd x t st = st) by (apply upd_same; exact E). rewrite Hu. split; [reflexivity|].
  rewrite (iter_back_ok t (state_ok_nth K hash st x t Hst E)); [reflexivity|].
  rewrite Forall_forall in Hp. apply Hp. eapply nth_error_In; exact E.
Qed.

Lemma spec_reachable_unique_keys kd caps ops :
  Forall (fun c => 0 <= c) caps ->
  Forall (fun l => NoDup (map fst l)) (spec_states kd (map (fun _ => []) caps) ops).
Proof.
  intros Hc. rewrite <- (abs_start K).
  rewrite <- states_refine by (first [apply start_ok; exact Hc | apply links_start | apply pool_start]).
  pose proof (invariant_reachable K keqb hash keqb_spec kd caps ops Hc) as Hok.
  unfold HashRefine.abs_st. apply Forall_forall. intros l Hl. apply in_map_iff in Hl. destruct Hl as [t [<- Ht]].
  rewrite (abs_keys K). apply (ok_nodup K hash). revert t Ht. apply Forall_forall. exact Hok.
Qed.
End Extra.

(* the statement about the reference object alone does not mention a hash function *)
Lemma spec_unique_keys (K : Type) (keqb : K -> K -> bool) :
  (forall a b : K, keqb a b = true <-> a = b) ->
  forall (kd : kind) (caps : list Z) (ops : list (op K)),
  Forall (fun c : Z => 0 <= c) caps ->
  Forall (fun l : list (K * Z) => NoDup (map fst l)) (spec_states K keqb kd (map (fun _ : Z => nil) caps) ops).
Proof. intros Hs. exact (spec_reachable_unique_keys K keqb (fun _ => 0) Hs). Qed.
