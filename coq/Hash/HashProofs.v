(* Lemmas for component Hash: list helpers, the invariant chains_ok, and the refinement of
   every single-table operation of the model to the ordered-map reference. *)
From Coq Require Import ZArith List Bool Arith Lia Permutation.
From Common Require Import ListAux.
From Hash Require Import HashBase HashSpec HashModel.
Import ListNotations.
Local Open Scope Z_scope.

(* ---------------------------------------------------------------------------------------- *)
(* generic list facts *)

Lemma nth_error_upd_same {A} n (x : A) l : (n < length l)%nat -> nth_error (upd n x l) n = Some x.
Proof. revert n; induction l as [|h t IH]; intros [|n] H; simpl in *; try lia; auto. apply IH. lia. Qed.

Lemma nth_error_upd_other {A} n m (x : A) l : n <> m -> nth_error (upd n x l) m = nth_error l m.
Proof. revert n m; induction l as [|h t IH]; intros [|n] [|m] H; simpl; auto; try lia. Qed.

Lemma map_upd {A B} (f : A -> B) n x l : map f (upd n x l) = upd n (f x) (map f l).
Proof. revert n; induction l as [|h t IH]; intros [|n]; simpl; auto. f_equal. apply IH. Qed.

Lemma upd_same {A} n (x : A) l : nth_error l n = Some x -> upd n x l = l.
Proof. revert n; induction l as [|h t IH]; intros [|n] H; simpl in *; try discriminate; auto.
  - inversion H; auto.
  - f_equal. apply IH. exact H. Qed.

Lemma upd_oob {A} n (x : A) l : (length l <= n)%nat -> upd n x l = l.
Proof. revert n; induction l as [|h t IH]; intros [|n] H; simpl in *; auto; try lia. f_equal. apply IH. lia. Qed.

Lemma Forall_upd {A} (P : A -> Prop) n x l : Forall P l -> P x -> Forall P (upd n x l).
Proof. intros Hl Hx. revert n; induction Hl as [|h t Hh Ht IH]; intros [|n]; simpl; auto. Qed.

Lemma nth_error_map' {A B} (f : A -> B) l n : nth_error (map f l) n = option_map f (nth_error l n).
Proof. revert n; induction l as [|h t IH]; intros [|n]; simpl; auto. Qed.

Lemma nth_error_nth' {A} (l : list A) n d x : nth_error l n = Some x -> nth n l d = x.
Proof. revert n; induction l as [|h t IH]; intros [|n] H; simpl in *; try discriminate; auto. inversion H; auto. Qed.

Lemma nth_repeat_nil {A} i n : nth i (repeat (@nil A) n) [] = [].
Proof. revert i; induction n as [|n IH]; intros [|i]; simpl; auto. Qed.

Lemma nth_map_nil {A B} i (l : list A) : nth i (map (fun _ => @nil B) l) [] = [].
Proof. revert i; induction l as [|h t IH]; intros [|i]; simpl; auto. Qed.

Lemma nth_upd_eq {A} n (x d : A) l : (n < length l)%nat -> nth n (upd n x l) d = x.
Proof. apply nth_upd_same. Qed.

Lemma nth_upd_cases {A} n m (x d : A) l :
  nth m (upd n x l) d = if (Nat.eqb n m && Nat.ltb n (length l))%bool then x else nth m l d.
Proof.
  destruct (Nat.eqb_spec n m) as [->|Hne]; simpl.
  - destruct (Nat.ltb_spec m (length l)) as [Hlt|Hge].
    + apply nth_upd_same; auto.
    + rewrite upd_oob by lia. reflexivity.
  - apply nth_upd_other; auto.
Qed.

Lemma insert_at_map {A B} (f : A -> B) pos a l : map f (insert_at pos a l) = insert_at pos (f a) (map f l).
Proof. unfold insert_at. rewrite map_app. simpl. rewrite firstn_map, skipn_map. reflexivity. Qed.

Lemma remove_nth_map {A B} (f : A -> B) r l : map f (remove_nth r l) = remove_nth r (map f l).
Proof. unfold remove_nth. rewrite map_app, firstn_map, skipn_map. reflexivity. Qed.

Lemma insert_at_length {A} pos (a : A) l : length (insert_at pos a l) = S (length l).
Proof.
  unfold insert_at. rewrite app_length. simpl. rewrite firstn_length, skipn_length. lia.
Qed.

Lemma in_insert_at {A} pos (a x : A) l : In x (insert_at pos a l) <-> x = a \/ In x l.
Proof.
  unfold insert_at. rewrite in_app_iff. simpl.
  assert (H : In x l <-> In x (firstn pos l) \/ In x (skipn pos l))
    by (split; [intro Hi; rewrite <- (firstn_skipn pos l) in Hi; apply in_app_or in Hi; exact Hi
               | intro Hi; rewrite <- (firstn_skipn pos l); apply in_or_app; exact Hi]).
  rewrite H. intuition auto.
Qed.

Lemma NoDup_insert_at {A} pos (a : A) l : NoDup l -> ~ In a l -> NoDup (insert_at pos a l).
Proof.
  intros Hn Hi. unfold insert_at.
  apply (proj2 (NoDup_Add (Add_app a (firstn pos l) (skipn pos l)))).
  rewrite firstn_skipn. auto.
Qed.

Lemma insert_at_end {A} (a : A) l : insert_at (length l) a l = l ++ [a].
Proof. unfold insert_at. rewrite firstn_all, skipn_all. reflexivity. Qed.

Lemma remove_nth_split {A} r (l : list A) x :
  nth_error l r = Some x -> l = firstn r l ++ x :: skipn (S r) l.
Proof.
  revert r; induction l as [|h t IH]; intros [|r] H; simpl in *; try discriminate.
  - inversion H; auto.
  - f_equal. apply IH. exact H.
Qed.

Lemma remove_nth_length {A} r (l : list A) : (r < length l)%nat -> length (remove_nth r l) = pred (length l).
Proof.
  intros H. unfold remove_nth. rewrite app_length, firstn_length, skipn_length. lia.
Qed.

Lemma in_remove_nth {A} r (l : list A) x y :
  NoDup l -> nth_error l r = Some x -> (In y (remove_nth r l) <-> In y l /\ y <> x).
Proof.
  intros Hn Hx. pose proof (remove_nth_split r l x Hx) as Hs.
  unfold remove_nth.
  set (a := firstn r l) in *. set (b := skipn (S r) l) in *.
  rewrite Hs in Hn. pose proof (NoDup_remove_2 _ _ _ Hn) as Hni.
  rewrite Hs. rewrite !in_app_iff in *. simpl.
  split.
  - intros H. split; [tauto|]. intros ->. tauto.
  - intros [[H|[H|H]] Hne]; auto. congruence.
Qed.

Lemma NoDup_remove_nth {A} r (l : list A) : NoDup l -> NoDup (remove_nth r l).
Proof.
  intros Hn. destruct (nth_error l r) as [x|] eqn:Hx.
  - pose proof (remove_nth_split r l x Hx) as Hs. rewrite Hs in Hn.
    apply NoDup_remove_1 in Hn. exact Hn.
  - unfold remove_nth. apply nth_error_None in Hx.
    rewrite firstn_all2 by lia. rewrite skipn_all2 by lia. rewrite app_nil_r. exact Hn.
Qed.

Lemma remove_nth_app_last {A} (l : list A) a : remove_nth (length l) (l ++ [a]) = l.
Proof. induction l as [|h t IH]; [reflexivity|]. unfold remove_nth in *. simpl in *. f_equal. exact IH. Qed.

Lemma remove_nth_last {A} (l : list A) : l <> [] -> remove_nth (pred (length l)) l = removelast l.
Proof.
  intros H. destruct (exists_last H) as [l' [a ->]].
  rewrite removelast_last, app_length. simpl. replace (pred (length l' + 1)) with (length l') by lia.
  apply remove_nth_app_last.
Qed.

Lemma skipn_nth_cons {A} (l : list A) r x : nth_error l r = Some x -> skipn r l = x :: skipn (S r) l.
Proof.
  revert r; induction l as [|h t IH]; intros [|r] H; cbn [nth_error skipn] in *; try discriminate.
  - inversion H; reflexivity.
  - apply IH. exact H.
Qed.

Lemma firstn_S_nth {A} (l : list A) r x : nth_error l r = Some x -> firstn (S r) l = firstn r l ++ [x].
Proof.
  revert r; induction l as [|h t IH]; intros [|r] H; cbn [nth_error] in *; try discriminate.
  - inversion H; reflexivity.
  - change (firstn (S (S r)) (h :: t)) with (h :: firstn (S r) t). rewrite (IH r H). reflexivity.
Qed.

(* ---------------------------------------------------------------------------------------- *)
Section Proofs.
Variable K : Type.
Variable keqb : K -> K -> bool.
Variable hash : K -> Z.
Hypothesis keqb_spec : forall a b, keqb a b = true <-> a = b.

Lemma keqb_refl k : keqb k k = true.
Proof. apply keqb_spec. reflexivity. Qed.

Lemma keqb_false a b : keqb a b = false <-> a <> b.
Proof.
  split.
  - intros H E. apply keqb_spec in E. congruence.
  - intros H. destruct (keqb a b) eqn:E; auto. apply keqb_spec in E. contradiction.
Qed.

Lemma keqb_dec (a b : K) : {a = b} + {a <> b}.
Proof. destruct (keqb a b) eqn:E; [left; apply keqb_spec; auto | right; apply keqb_false; auto]. Qed.

(* ---- the reference object ------------------------------------------------------------- *)
Notation omap := (list (K * Z)).

Lemma s_has_in (l : omap) k : s_has keqb l k = true <-> In k (map fst l).
Proof.
  unfold s_has. rewrite existsb_exists, in_map_iff. split.
  - intros [e [Hi He]]. apply keqb_spec in He. exists e. auto.
  - intros [e [He Hi]]. exists e. split; auto. apply keqb_spec. auto.
Qed.

Lemma s_has_false (l : omap) k : s_has keqb l k = false <-> ~ In k (map fst l).
Proof. rewrite <- s_has_in. destruct (s_has keqb l k); split; congruence. Qed.

Lemma s_index_spec (l : omap) k :
  match s_index keqb k l with
  | Some r => exists v, nth_error l r = Some (k, v)
  | None => ~ In k (map fst l)
  end.
Proof.
  induction l as [|[k0 v0] t IH]; simpl.
  - tauto.
  - destruct (keqb k k0) eqn:E.
    + apply keqb_spec in E. subst. exists v0. reflexivity.
    + apply keqb_false in E. destruct (s_index keqb k t) as [r|]; simpl.
      * exact IH.
      * intros [H|H]; [congruence | contradiction].
Qed.

Lemma s_index_nodup (l : omap) r k v :
  NoDup (map fst l) -> nth_error l r = Some (k, v) -> s_index keqb k l = Some r.
Proof.
  revert r; induction l as [|[k0 v0] t IH]; intros [|r] Hn Hr; simpl in *; try discriminate.
  - inversion Hr; subst. rewrite keqb_refl. reflexivity.
  - inversion Hn as [|? ? Hni Hn']; subst.
    assert (Hin : In k (map fst t)).
    { apply nth_error_In in Hr. apply (in_map fst) in Hr. exact Hr. }
    destruct (keqb k k0) eqn:E.
    + apply keqb_spec in E. subst. contradiction.
    + rewrite (IH r Hn' Hr). reflexivity.
Qed.

Lemma s_set_notin (l : omap) k v : ~ In k (map fst l) -> s_set keqb l k v = l.
Proof.
  induction l as [|[k0 v0] t IH]; simpl; intros H; auto.
  destruct (keqb k k0) eqn:E.
  - apply keqb_spec in E. subst. exfalso. auto.
  - f_equal. apply IH. auto.
Qed.

Lemma s_set_upd (l : omap) r k v :
  NoDup (map fst l) -> s_index keqb k l = Some r -> s_set keqb l k v = upd r (k, v) l.
Proof.
  revert r; induction l as [|[k0 v0] t IH]; intros r Hn Hr; simpl in *; try discriminate.
  inversion Hn as [|? ? Hni Hn']; subst.
  destruct (keqb k k0) eqn:E.
  - apply keqb_spec in E. subst. inversion Hr; subst. simpl.
    f_equal. apply s_set_notin. exact Hni.
  - destruct (s_index keqb k t) as [r'|] eqn:E2; simpl in Hr; try discriminate.
    inversion Hr; subst. simpl. f_equal. apply IH; auto.
Qed.

Lemma s_set_keys (l : omap) k v : map fst (s_set keqb l k v) = map fst l.
Proof.
  induction l as [|[k0 v0] t IH]; simpl; auto.
  destruct (keqb k k0); simpl; f_equal; exact IH.
Qed.

Lemma s_remove_key_notin (l : omap) k : ~ In k (map fst l) -> s_remove_key keqb l k = l.
Proof.
  induction l as [|[k0 v0] t IH]; simpl; intros H; auto.
  destruct (keqb k k0) eqn:E; simpl.
  - apply keqb_spec in E. subst. exfalso. auto.
  - f_equal. apply IH. auto.
Qed.

Lemma s_remove_key_nth (l : omap) r k :
  NoDup (map fst l) -> s_index keqb k l = Some r -> s_remove_key keqb l k = remove_nth r l.
Proof.
  revert r; induction l as [|[k0 v0] t IH]; intros r Hn Hr; simpl in *; try discriminate.
  inversion Hn as [|? ? Hni Hn']; subst.
  destruct (keqb k k0) eqn:E; simpl.
  - apply keqb_spec in E. subst. inversion Hr; subst. unfold remove_nth. simpl.
    apply s_remove_key_notin. exact Hni.
  - destruct (s_index keqb k t) as [r'|] eqn:E2; simpl in Hr; try discriminate.
    inversion Hr; subst. unfold remove_nth in *. simpl. f_equal. apply IH; auto.
Qed.

Lemma s_index_insert_at (l : omap) pos k v :
  ~ In k (map fst l) -> (pos <= length l)%nat -> s_index keqb k (insert_at pos (k, v) l) = Some pos.
Proof.
  revert pos; induction l as [|[k0 v0] t IH]; intros [|pos] Hni Hp; simpl in *; try lia;
    unfold insert_at; simpl; try (rewrite keqb_refl; reflexivity).
  destruct (keqb k k0) eqn:E.
  - apply keqb_spec in E. subst. exfalso. auto.
  - unfold insert_at in IH. rewrite IH; auto. lia.
Qed.

Lemma nth_error_insert_at {A} pos (a : A) l : (pos <= length l)%nat -> nth_error (insert_at pos a l) pos = Some a.
Proof.
  intros H. unfold insert_at. rewrite nth_error_app2; rewrite firstn_length, Nat.min_l by lia; try lia.
  rewrite Nat.sub_diag. reflexivity.
Qed.

Lemma s_find_insert_at (l : omap) pos k v :
  ~ In k (map fst l) -> (pos <= length l)%nat -> s_find keqb (insert_at pos (k, v) l) k = Some (pos, k, v).
Proof.
  intros Hni Hp. unfold s_find. rewrite s_index_insert_at by auto.
  unfold s_iter. rewrite nth_error_insert_at by auto. reflexivity.
Qed.

(* ---- the model: locate on nodes vs s_index on entries -------------------------------------- *)
Notation node := (node K).
Notation table := (table K).
Definition ent (n : node) : K * Z := (nkey n, nval n).
Definition keys (t : table) : list K := map nkey (order t).
Definition abs (t : table) : omap := map ent (order t).

(* the slot of the last item of a list: what endItem.prev designates *)
Fixpoint last_slot (l : list node) : option slot :=
  match l with
  | [] => None
  | n :: r => match r with [] => Some (nslot n) | _ :: _ => last_slot r end
  end.

Lemma last_slot_cons (h : node) l : l <> [] -> last_slot (h :: l) = last_slot l.
Proof. destruct l; [congruence | reflexivity]. Qed.

Lemma last_slot_app_cons (a : list node) n r : last_slot (a ++ n :: r) = last_slot (n :: r).
Proof.
  induction a as [|h a IH]; [reflexivity|].
  change ((h :: a) ++ n :: r) with (h :: (a ++ n :: r)).
  rewrite last_slot_cons by (destruct a; discriminate). exact IH.
Qed.

Lemma last_slot_none (l : list node) : last_slot l = None <-> l = [].
Proof.
  split; [|intros ->; reflexivity].
  induction l as [|h t IH]; [reflexivity|]. intros H. destruct t as [|m t']; [discriminate|].
  rewrite last_slot_cons in H by discriminate. apply IH in H. discriminate.
Qed.

Lemma last_slot_from r m (l : list node) : nth_error l r = Some m -> last_slot l = last_slot (m :: skipn (S r) l).
Proof. intros E. rewrite (remove_nth_split r l m E) at 1. apply last_slot_app_cons. Qed.

Lemma last_slot_insert_at pos nd (l : list node) :
  last_slot (insert_at pos nd l) = match nth_error l pos with None => Some (nslot nd) | Some _ => last_slot l end.
Proof.
  unfold insert_at. destruct (nth_error l pos) as [m|] eqn:E.
  - rewrite (skipn_nth_cons l pos m E). rewrite last_slot_app_cons.
    rewrite (last_slot_from pos m l E). reflexivity.
  - apply nth_error_None in E. rewrite firstn_all2 by lia. rewrite skipn_all2 by lia.
    rewrite last_slot_app_cons. reflexivity.
Qed.

Lemma last_slot_remove_nth r n (l : list node) :
  nth_error l r = Some n ->
  last_slot (remove_nth r l) =
  match nth_error l (S r) with
  | Some _ => last_slot l
  | None => match r with O => None | S r' => option_map nslot (nth_error l r') end
  end.
Proof.
  intros E. unfold remove_nth. destruct (nth_error l (S r)) as [m|] eqn:E2.
  - rewrite (skipn_nth_cons l (S r) m E2). rewrite last_slot_app_cons.
    rewrite (last_slot_from (S r) m l E2). reflexivity.
  - apply nth_error_None in E2. rewrite skipn_all2 by lia. rewrite app_nil_r.
    destruct r as [|r']; [reflexivity|].
    destruct (nth_error l r') as [p|] eqn:E3.
    + rewrite (firstn_S_nth l r' p E3). rewrite last_slot_app_cons. reflexivity.
    + apply nth_error_None in E3. assert (Hlt : (S r' < length l)%nat) by (apply nth_error_Some; congruence). lia.
Qed.

Lemma last_slot_upd r n n' (l : list node) :
  nth_error l r = Some n -> nslot n' = nslot n -> last_slot (upd r n' l) = last_slot l.
Proof.
  revert r; induction l as [|h t IH]; intros [|r] E Hs; cbn [nth_error] in E; try discriminate.
  - inversion E; subst h. cbn [upd]. destruct t; cbn [last_slot]; congruence.
  - cbn [upd]. assert (Ht : t <> []) by (intros ->; destruct r; discriminate).
    assert (Hu : upd r n' t <> []).
    { intros Hn. apply (f_equal (@length node)) in Hn. rewrite upd_length in Hn. destruct t; [congruence|discriminate]. }
    rewrite !last_slot_cons by assumption. apply IH; assumption.
Qed.

Lemma abs_entries t : entries t = abs t.
Proof. reflexivity. Qed.

Lemma abs_keys t : map fst (abs t) = keys t.
Proof. unfold abs, keys. rewrite map_map. reflexivity. Qed.

Lemma locate_spec (l : list node) k :
  match locate keqb k l with
  | Some (r, n) => nth_error l r = Some n /\ nkey n = k
  | None => ~ In k (map nkey l)
  end.
Proof.
  induction l as [|n0 t IH]; simpl.
  - tauto.
  - destruct (keqb k (nkey n0)) eqn:E.
    + apply keqb_spec in E. auto.
    + apply keqb_false in E. destruct (locate keqb k t) as [[r n]|]; simpl.
      * exact IH.
      * intros [H|H]; [congruence | contradiction].
Qed.

Lemma locate_index (l : list node) k :
  s_index keqb k (map ent l) = option_map fst (locate keqb k l).
Proof.
  induction l as [|n0 t IH]; simpl; auto.
  destruct (keqb k (nkey n0)); simpl; auto.
  rewrite IH. destruct (locate keqb k t) as [[r n]|]; reflexivity.
Qed.

Lemma locate_find (l : list node) k : s_find keqb (map ent l) k = it_of (locate keqb k l).
Proof.
  unfold s_find. rewrite locate_index. pose proof (locate_spec l k) as H.
  destruct (locate keqb k l) as [[r n]|]; simpl; auto.
  destruct H as [H1 H2]. unfold s_iter. rewrite nth_error_map', H1. reflexivity.
Qed.

(* ---- the invariant ------------------------------------------------------------------------- *)
Local Notation bidx := (HashModel.bidx hash).
Local Notation chain := (HashModel.chain hash).
Local Notation chain_has := (HashModel.chain_has keqb hash).
Local Notation find_node := (HashModel.find_node keqb hash).
Local Notation insert := (HashModel.insert keqb hash).
Local Notation remove_at := (HashModel.remove_at keqb hash).
Local Notation remove_key := (HashModel.remove_key keqb hash).
Local Notation remove_first := (HashModel.remove_first keqb).
Local Notation locate := (HashModel.locate keqb).

(* every listed key is in bucket (hash k mod cap) exactly once, chains hold only listed keys,
   sizes agree, the bucket array has exactly cap cells once it exists *)
Record chains_ok (t : table) : Prop := mk_ok {
  ok_cap : 1 <= cap t;
  ok_size : size t = Z.of_nat (length (order t));
  ok_nodup : NoDup (keys t);
  ok_data : if has_data t then length (buckets t) = Z.to_nat (cap t) else buckets t = [] /\ order t = [];
  ok_sound : forall i k, In k (nth i (buckets t) []) -> i = bidx t k /\ In k (keys t);
  ok_complete : forall k, In k (keys t) -> In k (chain t k);
  ok_chain_nodup : forall i, NoDup (nth i (buckets t) []);
  (* the prev link of the end sentinel designates the last item (null iff there is none) *)
  ok_endprev : end_prev t = last_slot (order t)
}.

Lemma bidx_lt t k : 1 <= cap t -> (bidx t k < Z.to_nat (cap t))%nat.
Proof. intros H. unfold HashModel.bidx. pose proof (Z.mod_pos_bound (hash k) (cap t)). lia. Qed.

Lemma new_table_ok x c : 1 <= c -> chains_ok (new_table x c).
Proof.
  intros H. constructor; simpl.
  - exact H.
  - reflexivity.
  - constructor.
  - auto.
  - intros i k Hi. destruct i; simpl in Hi; contradiction.
  - intros k Hi. contradiction.
  - intros i. destruct i; constructor.
  - reflexivity.
Qed.

Lemma chain_has_in t k : chains_ok t -> (chain_has t k = true <-> In k (keys t)).
Proof.
  intros Hok. unfold HashModel.chain_has. split.
  - intros H. apply andb_true_iff in H. destruct H as [_ H]. apply existsb_exists in H.
    destruct H as [k' [Hi He]]. apply keqb_spec in He. subst k'. apply (ok_sound t Hok _ _ Hi).
  - intros H. pose proof (ok_data t Hok) as Hd. destruct (has_data t).
    + simpl. apply existsb_exists. exists k. split; [apply ok_complete; auto | apply keqb_refl].
    + destruct Hd as [_ Ho]. unfold keys in H. rewrite Ho in H. contradiction.
Qed.

Lemma find_node_locate t k : chains_ok t -> find_node t k = locate k (order t).
Proof.
  intros Hok. unfold HashModel.find_node. destruct (chain_has t k) eqn:E; auto.
  pose proof (locate_spec (order t) k) as H. destruct (locate k (order t)) as [[r n]|]; auto.
  destruct H as [H1 H2]. exfalso.
  assert (Hin : In k (keys t)). { unfold keys. rewrite <- H2. apply in_map. eapply nth_error_In; eauto. }
  apply (chain_has_in t k Hok) in Hin. congruence.
Qed.

(* find: the chain walk answers exactly like the reference lookup *)
Lemma find_refines t k : chains_ok t -> it_of (find_node t k) = s_find keqb (abs t) k.
Proof. intros Hok. rewrite find_node_locate by auto. unfold abs. symmetry. apply locate_find. Qed.

Lemma contains_refines t k : chains_ok t ->
  (match find_node t k with Some _ => true | None => false end) = s_has keqb (abs t) k.
Proof.
  intros Hok. rewrite find_node_locate by auto. pose proof (locate_spec (order t) k) as H.
  destruct (locate k (order t)) as [[r n]|].
  - destruct H as [H1 H2]. symmetry. apply s_has_in. rewrite abs_keys. unfold keys. rewrite <- H2.
    apply in_map. eapply nth_error_In; eauto.
  - symmetry. apply s_has_false. rewrite abs_keys. exact H.
Qed.

Lemma chains_ok_set_order t o :
  chains_ok t -> map nkey o = keys t -> last_slot o = last_slot (order t) -> chains_ok (set_order t o).
Proof.
  intros Hok Hk Hls. assert (Hl : length o = length (order t)).
  { rewrite <- (map_length nkey o), Hk. unfold keys. apply map_length. }
  destruct Hok as [H1 H2 H3 H4 H5 H6 H7 H8].
  constructor; unfold set_order, keys in *; simpl; auto.
  - rewrite Hl. exact H2.
  - rewrite Hk. exact H3.
  - destruct (has_data t); auto. destruct H4 as [Ha Hb]. split; auto.
    rewrite Hb in Hl. destruct o; simpl in *; auto; discriminate.
  - intros i k Hi. rewrite Hk. apply H5 in Hi. exact Hi.
  - intros k Hi. rewrite Hk in Hi. apply H6 in Hi. exact Hi.
  - rewrite Hls. exact H8.
Qed.

Lemma remove_first_in (c : list K) k x : NoDup c -> (In x (remove_first k c) <-> In x c /\ x <> k).
Proof.
  induction c as [|h rest IH]; simpl; intros Hn.
  - tauto.
  - inversion Hn as [|? ? Hni Hn']; subst. destruct (keqb k h) eqn:E.
    + apply keqb_spec in E. subst h. split.
      * intros H. split; auto. intros ->. contradiction.
      * intros [[H|H] Hne]; auto. congruence.
    + apply keqb_false in E. simpl. rewrite (IH Hn'). split.
      * intros [H|H]; [subst; split; auto | tauto].
      * tauto.
Qed.

Lemma remove_first_nodup (c : list K) k : NoDup c -> NoDup (remove_first k c).
Proof.
  induction c as [|h rest IH]; simpl; intros Hn; auto.
  inversion Hn as [|? ? Hni Hn']; subst. destruct (keqb k h); auto.
  constructor; auto. intros H. apply remove_first_in in H; auto. tauto.
Qed.

Ltac proj := cbn [cap has_data buckets order size free nblocks end_prev end_owner nkey nval nslot].

Lemma bidx_cap (t t' : table) k : cap t' = cap t -> bidx t' k = bidx t k.
Proof. intros H. unfold HashModel.bidx. rewrite H. reflexivity. Qed.

Lemma locate_upd (l : list node) k r n n' :
  locate k l = Some (r, n) -> nkey n' = nkey n -> locate k (upd r n' l) = Some (r, n').
Proof.
  revert r; induction l as [|n0 t IH]; intros r Hl Hk; simpl in *; try discriminate.
  destruct (keqb k (nkey n0)) eqn:E.
  - inversion Hl; subst. simpl. rewrite Hk, E. reflexivity.
  - destruct (locate k t) as [[r' m]|] eqn:E2; try discriminate.
    inversion Hl; subst. simpl. rewrite E. rewrite (IH r' eq_refl Hk). reflexivity.
Qed.

(* linking a new item at the head of its chain and before position pos *)
Lemma link_ok t pos k nd fr nb :
  chains_ok t -> ~ In k (keys t) -> nkey nd = k ->
  let bs := if has_data t then buckets t else repeat [] (Z.to_nat (cap t)) in
  let b := bidx t k in
  chains_ok (mktable (cap t) true (upd b (k :: nth b bs []) bs) (insert_at pos nd (order t)) (size t + 1) fr nb
                     (match nth_error (order t) pos with None => Some (nslot nd) | Some _ => end_prev t end) (end_owner t)).
Proof.
  intros Hok Hni Hnd bs b.
  assert (Ha : length bs = Z.to_nat (cap t)).
  { subst bs. pose proof (ok_data t Hok) as Hd. destruct (has_data t); auto. apply repeat_length. }
  assert (Hb : forall i k0, In k0 (nth i bs []) -> i = bidx t k0 /\ In k0 (keys t)).
  { subst bs. intros i k0 Hi. destruct (has_data t). apply (ok_sound t Hok); auto.
    rewrite nth_repeat_nil in Hi. contradiction. }
  assert (Hc : forall k0, In k0 (keys t) -> In k0 (nth (bidx t k0) bs [])).
  { subst bs. intros k0 Hi. pose proof (ok_data t Hok) as Hd. destruct (has_data t).
    apply (ok_complete t Hok); auto. destruct Hd as [_ Ho]. unfold keys in Hi. rewrite Ho in Hi. contradiction. }
  assert (Hd : forall i, NoDup (nth i bs [])).
  { subst bs. intros i. destruct (has_data t). apply (ok_chain_nodup t Hok). rewrite nth_repeat_nil. constructor. }
  assert (Hblt : (b < length bs)%nat). { rewrite Ha. apply bidx_lt. apply (ok_cap t Hok). }
  clearbody bs.
  set (T' := mktable (cap t) true (upd b (k :: nth b bs []) bs) (insert_at pos nd (order t)) (size t + 1) fr nb
                     (match nth_error (order t) pos with None => Some (nslot nd) | Some _ => end_prev t end) (end_owner t)).
  assert (Hkeys : forall k0, In k0 (keys T') <-> k0 = k \/ In k0 (keys t)).
  { intros k0. unfold keys, T'. proj. rewrite insert_at_map, Hnd. apply in_insert_at. }
  assert (Hbi : forall k0, bidx T' k0 = bidx t k0) by (intros; apply bidx_cap; reflexivity).
  assert (Hnth : forall i, nth i (buckets T') [] = if (Nat.eqb b i) then k :: nth b bs [] else nth i bs []).
  { intros i. unfold T'. proj. rewrite nth_upd_cases.
    destruct (Nat.eqb_spec b i); simpl; auto. destruct (Nat.ltb_spec b (length bs)); auto. lia. }
  constructor.
  - apply (ok_cap t Hok).
  - unfold T'. proj. rewrite insert_at_length, (ok_size t Hok). lia.
  - unfold keys, T'. proj. rewrite insert_at_map, Hnd. apply NoDup_insert_at; [apply (ok_nodup t Hok) | exact Hni].
  - unfold T'. proj. rewrite upd_length. exact Ha.
  - intros i k0 Hi. rewrite Hnth in Hi. rewrite Hbi, Hkeys. destruct (Nat.eqb_spec b i) as [Hbi'|Hbi'].
    + destruct Hi as [Hi|Hi].
      * subst k0. split; auto.
      * apply Hb in Hi. destruct Hi as [Hi1 Hi2]. split; auto. congruence.
    + apply Hb in Hi. tauto.
  - intros k0 Hi. apply Hkeys in Hi. unfold HashModel.chain. rewrite Hnth, Hbi.
    destruct (Nat.eqb_spec b (bidx t k0)) as [Hbi'|Hbi'].
    + destruct Hi as [Hi|Hi]; [left; auto|]. right. rewrite Hbi'. apply Hc. exact Hi.
    + destruct Hi as [Hi|Hi]; [subst k0; exfalso; apply Hbi'; reflexivity|]. apply Hc. exact Hi.
  - intros i. rewrite Hnth. destruct (Nat.eqb_spec b i) as [Hbi'|Hbi']; auto.
    constructor; auto. intros Hi. apply Hb in Hi. tauto.
  - unfold T'. proj. rewrite last_slot_insert_at. rewrite (ok_endprev t Hok). reflexivity.
Qed.

Lemma insert_refines kd t pos k v :
  chains_ok t -> (pos <= length (order t))%nat ->
  chains_ok (fst (insert kd t pos k v)) /\
  abs (fst (insert kd t pos k v)) = s_put keqb kd (abs t) pos k v /\
  snd (insert kd t pos k v) = s_find keqb (abs (fst (insert kd t pos k v))) k.
Proof.
  intros Hok Hpos. unfold HashModel.insert. rewrite find_node_locate by auto.
  pose proof (locate_spec (order t) k) as Hl.
  destruct (locate k (order t)) as [[r n]|] eqn:El.
  - destruct Hl as [Hnth Hkey].
    assert (Hin : In k (keys t)).
    { unfold keys. rewrite <- Hkey. apply in_map. eapply nth_error_In; eauto. }
    assert (Hhas : s_has keqb (abs t) k = true) by (apply s_has_in; rewrite abs_keys; auto).
    unfold s_put. rewrite Hhas.
    assert (Hsame : Some (r, nkey n, nval n) = s_find keqb (abs t) k).
    { unfold abs. rewrite locate_find, El. reflexivity. }
    destruct kd; simpl; auto.
    set (n' := mknode (nkey n) v (nslot n)).
    assert (Hk' : map nkey (upd r n' (order t)) = keys t).
    { rewrite map_upd. simpl. apply upd_same. unfold keys. rewrite nth_error_map', Hnth. reflexivity. }
    split; [apply chains_ok_set_order; auto; apply (last_slot_upd r n n' (order t) Hnth eq_refl)|].
    split.
    + unfold abs at 1. unfold set_order. proj. rewrite map_upd.
      rewrite (s_set_upd (abs t) r k v).
      * unfold ent at 1. simpl. rewrite Hkey. reflexivity.
      * rewrite abs_keys. apply (ok_nodup t Hok).
      * unfold abs. rewrite locate_index, El. reflexivity.
    + unfold abs, set_order. proj. rewrite locate_find.
      rewrite (locate_upd (order t) k r n n' El eq_refl). reflexivity.
  - assert (Hhas : s_has keqb (abs t) k = false) by (apply s_has_false; rewrite abs_keys; auto).
    unfold s_put. rewrite Hhas.
    destruct (alloc kd (free t) (nblocks t)) as [[s fr] nb] eqn:Ea. simpl.
    split; [apply (link_ok t pos k (mknode k (ins_value kd v) s) fr nb); auto|].
    assert (Habs : forall T b ep ow, abs (mktable (cap t) true b (insert_at pos (mknode k (ins_value kd v) s) (order t)) T fr nb ep ow)
                   = insert_at pos (k, ins_value kd v) (abs t)).
    { intros. unfold abs. proj. rewrite insert_at_map. reflexivity. }
    rewrite Habs. split; auto.
    symmetry. apply s_find_insert_at.
    + rewrite abs_keys. exact Hl.
    + unfold abs. rewrite map_length. exact Hpos.
Qed.

(* remove(iterator): unlink from the chain and from the order list *)
Lemma remove_at_refines t r :
  chains_ok t -> (r < length (order t))%nat ->
  chains_ok (remove_at t r) /\ abs (remove_at t r) = remove_nth r (abs t).
Proof.
  intros Hok Hr. unfold HashModel.remove_at.
  destruct (nth_error (order t) r) as [n|] eqn:En; [|apply nth_error_None in En; lia].
  set (k := nkey n). set (b := bidx t k). set (bs := buckets t).
  split; [|unfold abs; proj; apply remove_nth_map].
  pose proof (ok_data t Hok) as Hd.
  destruct (has_data t) eqn:Ehd; [|destruct Hd as [_ Ho]; rewrite Ho in En; destruct r; discriminate].
  assert (Hblt : (b < length bs)%nat). { unfold bs. rewrite Hd. apply bidx_lt. apply (ok_cap t Hok). }
  assert (Hkn : nth_error (keys t) r = Some k). { unfold keys. rewrite nth_error_map', En. reflexivity. }
  set (T' := mktable (cap t) true (upd b (remove_first k (nth b bs [])) bs) (remove_nth r (order t)) (size t - 1)
                     (nslot n :: free t) (nblocks t)
                     (match nth_error (order t) (S r) with
                      | Some _ => end_prev t
                      | None => match r with O => None | S r' => option_map nslot (nth_error (order t) r') end
                      end) (end_owner t)).
  assert (Hkeys : forall k0, In k0 (keys T') <-> In k0 (keys t) /\ k0 <> k).
  { intros k0. unfold keys, T'. proj. rewrite remove_nth_map. apply in_remove_nth; auto. apply (ok_nodup t Hok). }
  assert (Hbi : forall k0, bidx T' k0 = bidx t k0) by (intros; apply bidx_cap; reflexivity).
  assert (Hnth : forall i, nth i (buckets T') [] = if (Nat.eqb b i) then remove_first k (nth b bs []) else nth i bs []).
  { intros i. unfold T'. proj. rewrite nth_upd_cases.
    destruct (Nat.eqb_spec b i); simpl; auto. destruct (Nat.ltb_spec b (length bs)); auto. lia. }
  constructor.
  - apply (ok_cap t Hok).
  - unfold T'. proj. rewrite remove_nth_length by auto. rewrite (ok_size t Hok). lia.
  - unfold keys, T'. proj. rewrite remove_nth_map. apply NoDup_remove_nth. apply (ok_nodup t Hok).
  - unfold T'. proj. rewrite upd_length. exact Hd.
  - intros i k0 Hi. rewrite Hnth in Hi. rewrite Hbi, Hkeys. destruct (Nat.eqb_spec b i) as [Hbi'|Hbi'].
    + apply remove_first_in in Hi; [|apply (ok_chain_nodup t Hok)]. destruct Hi as [Hi Hne].
      apply (ok_sound t Hok) in Hi. destruct Hi as [Hi1 Hi2]. split; auto. congruence.
    + pose proof (ok_sound t Hok _ _ Hi) as [Hi1 Hi2]. split; auto. split; auto.
      intros ->. apply Hbi'. symmetry. exact Hi1.
  - intros k0 Hi. apply Hkeys in Hi. destruct Hi as [Hi Hne]. unfold HashModel.chain. rewrite Hnth, Hbi.
    pose proof (ok_complete t Hok k0 Hi) as Hc. unfold HashModel.chain in Hc.
    destruct (Nat.eqb_spec b (bidx t k0)) as [Hbi'|Hbi']; auto.
    apply remove_first_in; [apply (ok_chain_nodup t Hok)|]. rewrite Hbi'. split; auto.
  - intros i. rewrite Hnth. destruct (Nat.eqb_spec b i) as [Hbi'|Hbi'].
    + apply remove_first_nodup. apply (ok_chain_nodup t Hok).
    + apply (ok_chain_nodup t Hok).
  - unfold T'. proj. rewrite (last_slot_remove_nth r n (order t) En). rewrite (ok_endprev t Hok). reflexivity.
Qed.

Lemma iter_at_refines t r : iter_at t r = s_iter (abs t) r.
Proof.
  unfold iter_at, s_iter, abs. rewrite nth_error_map'. destruct (nth_error (order t) r); reflexivity.
Qed.

Lemma remove_key_refines t k :
  chains_ok t -> chains_ok (remove_key t k) /\ abs (remove_key t k) = s_remove_key keqb (abs t) k.
Proof.
  intros Hok. unfold HashModel.remove_key. rewrite find_node_locate by auto.
  pose proof (locate_spec (order t) k) as Hl. pose proof (locate_index (order t) k) as Hi.
  destruct (locate k (order t)) as [[r n]|] eqn:El.
  - destruct Hl as [Hnth Hkey].
    assert (Hr : (r < length (order t))%nat) by (apply nth_error_Some; congruence).
    destruct (remove_at_refines t r Hok Hr) as [H1 H2]. split; auto.
    rewrite H2. symmetry. apply s_remove_key_nth.
    + rewrite abs_keys. apply (ok_nodup t Hok).
    + exact Hi.
  - split; auto. symmetry. apply s_remove_key_notin. rewrite abs_keys. exact Hl.
Qed.

Lemma clear_refines x t : chains_ok t -> chains_ok (clear x t) /\ abs (clear x t) = [].
Proof.
  intros Hok. split; [|reflexivity]. unfold clear. constructor; proj; unfold keys; proj; simpl.
  - apply (ok_cap t Hok).
  - reflexivity.
  - constructor.
  - pose proof (ok_data t Hok) as Hd. destruct (has_data t).
    + rewrite map_length. exact Hd.
    + destruct Hd as [Hb _]. rewrite Hb. auto.
  - intros i k Hi. rewrite nth_map_nil in Hi. contradiction.
  - intros k Hi. contradiction.
  - intros i. rewrite nth_map_nil. constructor.
  - reflexivity.
Qed.

Lemma obs_refines t : chains_ok t -> m_obs t = s_obs (abs t).
Proof.
  intros Hok. unfold m_obs, s_obs. rewrite abs_entries. unfold abs at 2 3. rewrite map_length.
  rewrite (ok_size t Hok). f_equal. f_equal. rewrite (ok_endprev t Hok). unfold abs.
  destruct (last_slot (order t)) eqn:El.
  - destruct (order t); [discriminate|reflexivity].
  - apply last_slot_none in El. rewrite El. reflexivity.
Qed.

(* one half of swap: taking over a consistent table and re-anchoring it on the sentinel of x yields the
   same table content - the branch on endItem.prev agrees with the list because of ok_endprev *)
Lemma take_refines x t : chains_ok t -> chains_ok (take x t) /\ abs (take x t) = abs t /\ end_owner (take x t) = x.
Proof.
  intros Hok. unfold take. pose proof (ok_endprev t Hok) as He.
  destruct (end_prev t) as [l|] eqn:Ep.
  - split; [|split; reflexivity].
    destruct Hok as [H1 H2 H3 H4 H5 H6 H7 H8]. constructor; proj; auto.
  - symmetry in He. apply last_slot_none in He.
    split; [|split; [unfold abs; proj; rewrite He; reflexivity | reflexivity]].
    destruct Hok as [H1 H2 H3 H4 H5 H6 H7 H8]. unfold keys, HashModel.chain, HashModel.bidx in *. rewrite He in *.
    constructor; unfold keys, HashModel.chain, HashModel.bidx; proj; auto.
Qed.

(* operator== *)
Lemma list_eqb_length {A} (f : A -> A -> bool) a b : list_eqb f a b = true -> length a = length b.
Proof.
  revert b; induction a as [|x a IH]; intros [|y b] H; simpl in *; try discriminate; auto.
  apply andb_true_iff in H. destruct H as [_ H]. f_equal. apply IH. exact H.
Qed.

Lemma pairwise_eqb kd (la lb : list node) : length la = length lb ->
  pairwise keqb kd la lb = s_eq keqb kd (map ent la) (map ent lb).
Proof.
  revert lb; induction la as [|a la IH]; intros [|b lb] H; simpl in *; try discriminate.
  - destruct kd; reflexivity.
  - injection H as H. specialize (IH lb H).
    destruct kd; simpl in *; destruct (keqb (nkey a) (nkey b)); simpl; auto;
      destruct (nval a =? nval b); simpl; auto.
Qed.

Lemma eq_refines kd a b : chains_ok a -> chains_ok b ->
  eq_tables keqb kd a b = s_eq keqb kd (abs a) (abs b).
Proof.
  intros Ha Hb. unfold eq_tables. rewrite (ok_size a Ha), (ok_size b Hb).
  destruct (Z.eqb_spec (Z.of_nat (length (order a))) (Z.of_nat (length (order b)))) as [E|E].
  - apply pairwise_eqb. lia.
  - destruct (s_eq keqb kd (abs a) (abs b)) eqn:Es; auto. exfalso. apply E. f_equal.
    unfold s_eq in Es. destruct kd; apply list_eqb_length in Es; unfold abs in Es;
      rewrite ?map_length in Es; exact Es.
Qed.

(* bulk operations *)
Lemma append_all_refines kd l : forall t, chains_ok t ->
  chains_ok (append_all keqb hash kd t l) /\
  abs (append_all keqb hash kd t l)
  = fold_left (fun m e => s_put keqb kd m (length m) (fst e) (snd e)) (map ent l) (abs t).
Proof.
  induction l as [|n l IH]; intros t Hok; simpl; auto.
  destruct (insert_refines kd t (length (order t)) (nkey n) (nval n) Hok (le_n _)) as [H1 [H2 _]].
  destruct (IH _ H1) as [H3 H4]. split; auto.
  unfold append_all in *. simpl. rewrite H4, H2. unfold abs at 3. rewrite map_length. reflexivity.
Qed.

Lemma remove_all_refines l : forall t, chains_ok t ->
  chains_ok (remove_all keqb hash t l) /\
  abs (remove_all keqb hash t l) = fold_left (fun m e => s_remove_key keqb m (fst e)) (map ent l) (abs t).
Proof.
  induction l as [|n l IH]; intros t Hok; simpl; auto.
  destruct (remove_key_refines t (nkey n) Hok) as [H1 H2].
  destruct (IH _ H1) as [H3 H4]. split; auto.
  unfold remove_all in *. simpl. rewrite H4, H2. reflexivity.
Qed.

(* appending the entries of a table to an (ordered) map that has none of its keys copies them *)
Lemma fold_put_fresh kd (l : omap) : kd <> KPool -> forall acc,
  NoDup (map fst l) -> (forall k, In k (map fst l) -> ~ In k (map fst acc)) ->
  fold_left (fun m e => s_put keqb kd m (length m) (fst e) (snd e)) l acc = acc ++ l.
Proof.
  intros Hkd. induction l as [|[k v] l IH]; intros acc Hn Hd; cbn [fold_left fst snd].
  - symmetry. apply app_nil_r.
  - inversion Hn as [|? ? Hni Hn']; subst.
    match goal with |- fold_left _ l ?x = _ => assert (Hput : x = acc ++ [(k, v)]) end.
    { unfold s_put. rewrite (proj2 (s_has_false acc k)) by (apply Hd; simpl; auto).
      rewrite insert_at_end. destruct kd; simpl; auto. congruence. }
    rewrite Hput, IH; auto.
    + rewrite <- app_assoc. reflexivity.
    + intros k0 Hk0. rewrite map_app, in_app_iff. simpl. intros [H|[H|[]]].
      * apply (Hd k0); simpl; auto.
      * subst k0. contradiction.
Qed.

Lemma copy_refines kd t b : kd <> KPool -> chains_ok t -> abs t = [] -> chains_ok b ->
  chains_ok (append_all keqb hash kd t (order b)) /\ abs (append_all keqb hash kd t (order b)) = abs b.
Proof.
  intros Hkd Ht He Hb. destruct (append_all_refines kd (order b) t Ht) as [H1 H2]. split; auto.
  rewrite H2, He. change (map ent (order b)) with (abs b). rewrite fold_put_fresh; auto.
  rewrite abs_keys. apply (ok_nodup b Hb).
Qed.
(* ---- traversal through iterators ------------------------------------------------------------------
   Walking the prev pointers from the end sentinel until _begin.item is met visits the items in the reverse
   of the iteration order.  Needs: endItem.prev designates the last item, and no two live items share an
   address (slot) - the walk identifies an item by the pointer it holds. *)
Definition slots_nodup (t : table) : Prop := NoDup (map nslot (order t)).

Lemma slot_eqb_eq (a b : slot) : slot_eqb a b = true <-> a = b.
Proof.
  unfold slot_eqb. destruct a as [a1 a2], b as [b1 b2]. cbn [fst snd]. rewrite andb_true_iff, !Z.eqb_eq.
  split; [intros [-> ->]; reflexivity | intros H; inversion H; auto].
Qed.

Lemma slot_eqb_refl (a : slot) : slot_eqb a a = true.
Proof. apply slot_eqb_eq. reflexivity. Qed.

Lemma slot_eqb_neq (a b : slot) : a <> b -> slot_eqb a b = false.
Proof. intros H. destruct (slot_eqb a b) eqn:E; auto. apply slot_eqb_eq in E. contradiction. Qed.

Lemma ipos_eqb_refl (p : ipos) : ipos_eqb p p = true.
Proof. destruct p; cbn [ipos_eqb]; auto. apply slot_eqb_refl. Qed.

Lemma node_at_nth (l : list node) i n :
  NoDup (map nslot l) -> nth_error l i = Some n -> node_at (nslot n) l = Some n.
Proof.
  revert i; induction l as [|h t IH]; intros [|i] Hn Hi; cbn [nth_error] in Hi; try discriminate.
  - inversion Hi; subst. cbn [node_at]. rewrite slot_eqb_refl. reflexivity.
  - cbn [map] in Hn. inversion Hn as [|? ? Hni Hn']; subst. cbn [node_at].
    rewrite slot_eqb_neq; [apply (IH i Hn' Hi)|].
    intros E. apply Hni. rewrite <- E. apply in_map. eapply nth_error_In; eauto.
Qed.

Lemma prev_in_nth (l : list node) i n m pv :
  NoDup (map nslot l) -> nth_error l (S i) = Some n -> nth_error l i = Some m ->
  prev_in (nslot n) pv l = Some (PItem (nslot m)).
Proof.
  revert i pv; induction l as [|h t IH]; intros i pv Hn Hs Hi; [destruct i; discriminate|].
  cbn [map] in Hn. inversion Hn as [|? ? Hni Hn']; subst. cbn [prev_in]. cbn [nth_error] in Hs.
  assert (Hne : nslot n <> nslot h).
  { intros E. apply Hni. rewrite <- E. apply in_map. eapply nth_error_In; eauto. }
  rewrite (slot_eqb_neq _ _ Hne).
  destruct i as [|i]; cbn [nth_error] in Hi.
  - inversion Hi; subst m. destruct t as [|h2 t2]; [discriminate|]. cbn [nth_error] in Hs. inversion Hs; subst h2.
    cbn [prev_in]. rewrite slot_eqb_refl. reflexivity.
  - apply (IH i _ Hn' Hs Hi).
Qed.

Lemma last_slot_nth (l : list node) i m : nth_error l i = Some m -> length l = S i -> last_slot l = Some (nslot m).
Proof.
  revert i; induction l as [|h t IH]; intros [|i] Hi Hl; cbn [nth_error length] in *; try discriminate.
  - inversion Hi; subst. destruct t; [reflexivity|discriminate].
  - destruct t as [|h2 t2]; [destruct i; discriminate|]. rewrite last_slot_cons by discriminate. apply (IH i Hi). lia.
Qed.

(* the pointer an iterator at rank i holds (rank = length: end()) *)
Definition pos_at (l : list node) (i : nat) : ipos :=
  match nth_error l i with Some n => PItem (nslot n) | None => PEnd end.

Lemma pos_at_0 (l : list node) : pos_at l 0 = begin_pos l.
Proof. destruct l; reflexivity. Qed.

Lemma pos_at_S_not_begin (l : list node) i :
  NoDup (map nslot l) -> (S i <= length l)%nat -> ipos_eqb (pos_at l (S i)) (begin_pos l) = false.
Proof.
  intros Hn Hi. unfold pos_at. destruct l as [|h t]; [cbn [length] in Hi; lia|]. cbn [begin_pos nth_error].
  destruct (nth_error t i) as [n|] eqn:E; [|reflexivity]. cbn [ipos_eqb]. apply slot_eqb_neq.
  cbn [map] in Hn. inversion Hn as [|? ? Hni Hn']; subst. intros Eq. apply Hni. rewrite <- Eq. apply in_map. eapply nth_error_In; eauto.
Qed.

Lemma walk_back_at ep (l : list node) :
  NoDup (map nslot l) -> ep = last_slot l ->
  forall i fuel, (i <= length l)%nat -> (i < fuel)%nat ->
  walk_back fuel ep l (pos_at l i) = Some (rev (map ent (firstn i l))).
Proof.
  intros Hn Hep. induction i as [|i IH]; intros fuel Hi Hf; (destruct fuel as [|f]; [lia|]); cbn [walk_back].
  - rewrite pos_at_0, ipos_eqb_refl. reflexivity.
  - rewrite pos_at_S_not_begin by assumption.
    destruct (nth_error l i) as [m|] eqn:Em; [|apply nth_error_None in Em; lia].
    assert (Hprev : prev_pos ep l (pos_at l (S i)) = Some (PItem (nslot m))).
    { unfold pos_at. destruct (nth_error l (S i)) as [n|] eqn:En; cbn [prev_pos].
      - apply (prev_in_nth l i n m PNull Hn En Em).
      - apply nth_error_None in En. rewrite Hep, (last_slot_nth l i m Em) by lia. reflexivity. }
    rewrite Hprev, (node_at_nth l i m Hn Em).
    assert (Hp : PItem (nslot m) = pos_at l i) by (unfold pos_at; rewrite Em; reflexivity).
    rewrite Hp, (IH f) by lia. rewrite (firstn_S_nth l i m Em), map_app, rev_app_distr. reflexivity.
Qed.

(* backwards iteration = reverse of forwards iteration *)
Lemma iter_back_rev (t : table) :
  end_prev t = last_slot (order t) -> slots_nodup t -> iter_back t = Some (rev (entries t)).
Proof.
  intros Hep Hn. unfold iter_back.
  assert (E : PEnd = pos_at (order t) (length (order t))).
  { unfold pos_at. rewrite (proj2 (nth_error_None (order t) (length (order t)))) by lia. reflexivity. }
  rewrite E, (walk_back_at (end_prev t) (order t) Hn Hep) by lia. rewrite firstn_all. reflexivity.
Qed.

Lemma iter_fwd_entries (t : table) : iter_fwd t = Some (entries t).
Proof. reflexivity. Qed.

Lemma iter_back_rev_fwd (t : table) :
  end_prev t = last_slot (order t) -> slots_nodup t -> iter_back t = option_map (@rev (K * Z)) (iter_fwd t).
Proof. intros Hep Hn. rewrite (iter_back_rev t Hep Hn). reflexivity. Qed.
End Proofs.
