(* Executable model of HashMap / HashSet / PoolMap (include/nstd/HashMap.hpp, HashSet.hpp,
   PoolMap.hpp), decision by decision, over an ARBITRARY hash function and key type.
   One record models the three classes; [kind] selects the three places where they differ
   (existing key: value replaced or not; value stored for a new key; order in which the four
   items of a fresh block are handed out).

   data[]            -> [buckets] : one chain per cell, newest item first (insert links at the head),
                        a chain lists the keys of its items in nextCell order;
                        [has_data] = (data != 0), the array is allocated by the first insertion
   _begin … endItem  -> [order] : the items in iteration order (key, value, slot), i.e. the chain reached from
                        _begin.item through the next links, up to (not including) an end sentinel;
                        every container object owns one sentinel (its member endItem), named here by the
                        index of the container variable.  Two links around the sentinel are explicit because
                        swap() re-anchors exactly these:
                        [end_prev]  = endItem.prev of this object's sentinel (None = null pointer);
                        [end_owner] = the sentinel the chain runs into: the target of the last item's next
                                      pointer, or of _begin.item itself when there is no item
   _size, capacity   -> [size], [cap]
   freeItem, blocks  -> [free] (LIFO, head = freeItem), [nblocks]; a slot is (block serial, index)
   NO proofs in this file. *)
From Coq Require Import ZArith List Bool Arith.
From Common Require Import ListAux.
From Hash Require Import Gen_Hash Gen_HashKeys HashBase.
Import ListNotations.
Local Open Scope Z_scope.

Definition slot : Type := (Z * Z)%type.

Section Model.
Variable K : Type.
Variable keqb : K -> K -> bool.
Variable hash : K -> Z.

Record node := mknode { nkey : K; nval : Z; nslot : slot }.

Record table := mktable {
  cap : Z;
  has_data : bool;
  buckets : list (list K);
  order : list node;
  size : Z;
  free : list slot;
  nblocks : Z;
  end_prev : option slot;
  end_owner : nat
}.

(* constructors: HashMap() / HashMap(usize capacity) { this->capacity |= (usize)!capacity; } *)
Definition ctor_cap (c : Z) : Z := if c =? 0 then 1 else c.
(* x = the variable the object is constructed in: _begin(&endItem), endItem.prev = 0 *)
Definition new_table (x : nat) (c : Z) : table := mktable c false [] [] 0 [] 0 None x.

(* hashCode % capacity *)
Definition bidx (t : table) (k : K) : nat := Z.to_nat (hash k mod cap t).
Definition chain (t : table) (k : K) : list K := nth (bidx t k) (buckets t) [].

(* the chain walk of find(): if(!data) return _end; for(item = data[h % capacity]; item; item = item->nextCell) if(item->key == key) … *)
Definition chain_has (t : table) (k : K) : bool := has_data t && existsb (keqb k) (chain t k).

(* the item found, named by its rank in the iteration order *)
Fixpoint locate (k : K) (l : list node) : option (nat * node) :=
  match l with
  | [] => None
  | n :: rest => if keqb k (nkey n) then Some (O, n)
                 else match locate k rest with Some (r, m) => Some (S r, m) | None => None end
  end.

Definition find_node (t : table) (k : K) : option (nat * node) :=
  if chain_has t k then locate k (order t) else None.

Definition it_of (o : option (nat * node)) : iter K :=
  match o with Some (r, n) => Some (r, nkey n, nval n) | None => None end.

Definition iter_at (t : table) (r : nat) : iter K :=
  match nth_error (order t) r with Some n => Some (r, nkey n, nval n) | None => None end.

(* item allocation: free list first, otherwise a new block of 4 items.
   HashMap/HashSet: item 0 is used, 1,2,3 are pushed (free list = 3,2,1);
   PoolMap: 0,1,2,3 are pushed, then the head (3) is taken. *)
Definition alloc (kd : kind) (fr : list slot) (nb : Z) : slot * list slot * Z :=
  match fr with
  | s :: f => (s, f, nb)
  | [] => match kd with
          | KPool => ((nb, 3), [(nb, 2); (nb, 1); (nb, 0)], nb + 1)
          | _ => ((nb, 0), [(nb, 3); (nb, 2); (nb, 1)], nb + 1)
          end
  end.

Definition set_order (t : table) (o : list node) : table :=
  mktable (cap t) (has_data t) (buckets t) o (size t) (free t) (nblocks t) (end_prev t) (end_owner t).

(* insert(position, key[, value]) *)
Definition insert (kd : kind) (t : table) (pos : nat) (k : K) (v : Z) : table * iter K :=
  match find_node t k with
  | Some (r, n) =>
      match kd with
      | KMap => (set_order t (upd r (mknode (nkey n) v (nslot n)) (order t)), Some (r, nkey n, v))
      | _ => (t, Some (r, nkey n, nval n))
      end
  | None =>
      let bs := if has_data t then buckets t else repeat [] (Z.to_nat (cap t)) in
      let '(s, fr, nb) := alloc kd (free t) (nblocks t) in
      let v' := ins_value kd v in
      let b := bidx t k in
      (* insertPos = position.item; item->prev = insertPos->prev, item->next = insertPos; insertPos->prev = item:
         when no item stands at rank pos, insertPos is the end sentinel and its prev becomes the new item *)
      (mktable (cap t) true (upd b (k :: nth b bs []) bs)
               (insert_at pos (mknode k v' s) (order t)) (size t + 1) fr nb
               (match nth_error (order t) pos with None => Some s | Some _ => end_prev t end) (end_owner t),
       Some (pos, k, v'))
  end.

Fixpoint remove_first (k : K) (l : list K) : list K :=
  match l with
  | [] => []
  | h :: rest => if keqb k h then rest else h :: remove_first k rest
  end.

(* remove(iterator): unlink from the chain (through the cell back-pointer), unlink from the
   order list, --_size, destroy, push on the free list.
   (item->prev ? item->prev->next : _begin.item) = item->next;  item->next->prev = item->prev:
   when the item is the last one, item->next is the end sentinel and its prev becomes the
   predecessor (null when the item was also the first) *)
Definition remove_at (t : table) (r : nat) : table :=
  match nth_error (order t) r with
  | None => t
  | Some n =>
      let b := bidx t (nkey n) in
      mktable (cap t) (has_data t)
              (upd b (remove_first (nkey n) (nth b (buckets t) [])) (buckets t))
              (remove_nth r (order t)) (size t - 1) (nslot n :: free t) (nblocks t)
              (match nth_error (order t) (S r) with
               | Some _ => end_prev t
               | None => match r with O => None | S r' => option_map nslot (nth_error (order t) r') end
               end)
              (end_owner t)
  end.

Definition remove_key (t : table) (k : K) : table :=
  match find_node t k with Some (r, _) => remove_at t r | None => t end.

(* clear(): every item is destroyed, *item->cell = 0, pushed on the free list in iteration order;
   _begin.item = &endItem; endItem.prev = 0  (x = the variable holding the object) *)
Definition clear (x : nat) (t : table) : table :=
  mktable (cap t) (has_data t) (map (fun _ => []) (buckets t)) [] 0
          (rev (map nslot (order t)) ++ free t) (nblocks t) None x.

(* One half of swap(): the object in variable x takes over the fields of [src] (the other object, or
   the temporaries that saved this object's fields) and re-anchors the list on ITS OWN sentinel:
     if((endItem.prev = src.endItem.prev)) { endItem.prev->next = &endItem; _begin.item = src._begin.item; }
     else _begin.item = &endItem;
     _size = src._size; capacity = src.capacity; data = src.data; freeItem = src.freeItem; blocks = src.blocks;
   With a last item: the chain is the one src._begin leads to, and the next pointer of the item
   endItem.prev (in the list representation: the last one) now targets the sentinel of x.
   Without: _begin.item is the sentinel of x itself - the chain of x is empty whatever src._begin was. *)
Definition take (x : nat) (src : table) : table :=
  match end_prev src with
  | Some l => mktable (cap src) (has_data src) (buckets src) (order src) (size src) (free src) (nblocks src) (Some l) x
  | None => mktable (cap src) (has_data src) (buckets src) [] (size src) (free src) (nblocks src) None x
  end.

Definition append_all (kd : kind) (t : table) (l : list node) : table :=
  fold_left (fun a n => fst (insert kd a (length (order a)) (nkey n) (nval n))) l t.

Definition remove_all (t : table) (l : list node) : table :=
  fold_left (fun a n => remove_key a (nkey n)) l t.

(* operator==: sizes, then pairwise along this' list *)
Fixpoint pairwise (kd : kind) (la lb : list node) : bool :=
  match la with
  | [] => true
  | a :: ta =>
      match lb with
      | [] => false
      | b :: tb =>
          if negb (keqb (nkey a) (nkey b)) || (match kd with KSet => false | _ => negb (nval a =? nval b) end)
          then false else pairwise kd ta tb
      end
  end.
Definition eq_tables (kd : kind) (a b : table) : bool :=
  if size a =? size b then pairwise kd (order a) (order b) else false.

(* ---- traversal through iterators -------------------------------------------------------------------
   An iterator holds an item pointer: an item (named by its slot = its address), the end sentinel of the
   object, or null.  In the list representation the prev pointer of the item standing at rank r+1 designates
   the item at rank r, the prev pointer of the first item is null (HashMap.hpp insert: item->prev =
   insertPos->prev; remove: item->next->prev = item->prev), and the prev pointer of the sentinel is the
   explicit field [end_prev].  _begin.item is the first item, or the sentinel when there is none. *)
Inductive ipos := PEnd | PItem (s : slot) | PNull.

Definition slot_eqb (a b : slot) : bool := (fst a =? fst b) && (snd a =? snd b).
Definition ipos_eqb (p q : ipos) : bool :=
  match p, q with
  | PEnd, PEnd => true
  | PItem a, PItem b => slot_eqb a b
  | PNull, PNull => true
  | _, _ => false
  end.

Definition begin_pos (l : list node) : ipos := match l with [] => PEnd | n :: _ => PItem (nslot n) end.

(* item->prev of the item whose address is s; pv = what the prev pointer of the head of l holds; None: no such item *)
Fixpoint prev_in (s : slot) (pv : ipos) (l : list node) : option ipos :=
  match l with
  | [] => None
  | n :: r => if slot_eqb s (nslot n) then Some pv else prev_in s (PItem (nslot n)) r
  end.

(* the item object at address s *)
Fixpoint node_at (s : slot) (l : list node) : option node :=
  match l with
  | [] => None
  | n :: r => if slot_eqb s (nslot n) then Some n else node_at s r
  end.

(* operator--: item = item->prev *)
Definition prev_pos (ep : option slot) (l : list node) (p : ipos) : option ipos :=
  match p with
  | PEnd => Some (match ep with Some s => PItem s | None => PNull end)
  | PItem s => prev_in s PNull l
  | PNull => None
  end.

(* for(it = end(); it != begin(); ) { --it; visit(it.key(), *it); } *)
Fixpoint walk_back (fuel : nat) (ep : option slot) (l : list node) (p : ipos) : option (list (K * Z)) :=
  match fuel with
  | O => None
  | S f =>
      if ipos_eqb p (begin_pos l) then Some []
      else match prev_pos ep l p with
           | Some (PItem s) =>
               match node_at s l with
               | Some n => match walk_back f ep l (PItem s) with
                           | Some w => Some ((nkey n, nval n) :: w)
                           | None => None
                           end
               | None => None
               end
           | _ => None
           end
  end.

Definition iter_back (t : table) : option (list (K * Z)) :=
  walk_back (S (length (order t))) (end_prev t) (order t) PEnd.

(* for(it = begin(); it != end(); ++it) visit(it.key(), *it): the chain reached from _begin.item through the
   next pointers IS the list [order] *)
Definition iter_fwd (t : table) : option (list (K * Z)) :=
  Some (map (fun n => (nkey n, nval n)) (order t)).

Definition value_res (kd : kind) (it : iter K) : res K :=
  match kd with
  | KSet => RNone
  | _ => match it with Some (_, _, v) => RVal v | None => RNone end
  end.

Definition node_res (kd : kind) (n : node) : res K :=
  match kd with KSet => RKey (nkey n) | _ => RVal (nval n) end.

Definition with_var (st : list table) (x : nat) (f : table -> table * res K) : list table * res K :=
  match nth_error st x with
  | None => (st, RPre)
  | Some t => let (t', r) := f t in (upd x t' st, r)
  end.

Definition with_2 (st : list table) (x y : nat) (f : table -> table -> list table * res K) : list table * res K :=
  match nth_error st x, nth_error st y with
  | Some a, Some b => f a b
  | _, _ => (st, RPre)
  end.

Definition step (kd : kind) (st : list table) (o : op K) : list table * res K :=
  if negb (op_allowed kd o) then (st, RPre) else
  match o with
  | ONew x c => if c <? 0 then (st, RPre) else with_var st x (fun _ => (new_table x (ctor_cap c), RNone))
  | ONewDefault x => with_var st x (fun _ => (new_table x default_capacity, RNone))
  | OFind x k => with_var st x (fun t => (t, RIter (it_of (find_node t k))))
  | OContains x k => with_var st x (fun t => (t, RBool (match find_node t k with Some _ => true | None => false end)))
  | OInsert x pos k v =>
      with_var st x (fun t => if Z.of_nat pos <=? size t
                              then let (t', it) := insert kd t pos k v in (t', RIter it)
                              else (t, RPre))
  | OAppend x k v =>
      with_var st x (fun t => let (t', it) := insert kd t (length (order t)) k v in (t', value_res kd it))
  | OPrepend x k v =>
      with_var st x (fun t => let (t', it) := insert kd t O k v in (t', value_res kd it))
  | ORemoveKey x k => with_var st x (fun t => (remove_key t k, RNone))
  | ORemoveAt x r =>
      with_var st x (fun t => if Z.of_nat r <? size t
                              then let t' := remove_at t r in (t', RIter (iter_at t' r))
                              else (t, RPre))
  | ORemoveVal x r =>
      with_var st x (fun t => if Z.of_nat r <? size t then (remove_at t r, RNone) else (t, RPre))
  | ORemoveFront x =>
      with_var st x (fun t => if is_nil (order t) then (t, RPre)
                              else let t' := remove_at t O in (t', RIter (iter_at t' O)))
  | ORemoveBack x =>
      with_var st x (fun t => if is_nil (order t) then (t, RPre)
                              else let r := pred (length (order t)) in
                                   let t' := remove_at t r in (t', RIter (iter_at t' r)))
  | OClear x => with_var st x (fun t => (clear x t, RNone))
  | OSwap x y =>
      (* a.swap(b): the fields of a are saved, a takes b's, b takes the saved ones; each side re-anchors
         the list it receives on its own end sentinel (the objects stay where they are, only their
         contents move) *)
      with_2 st x y (fun a b => (upd y (take y a) (upd x (take x b) st), RNone))
  | OFront x =>
      with_var st x (fun t => match order t with [] => (t, RPre) | n :: _ => (t, node_res kd n) end)
  | OBack x =>
      with_var st x (fun t => match rev (order t) with [] => (t, RPre) | n :: _ => (t, node_res kd n) end)
  | OCopy x y =>
      with_2 st x y (fun _ b => (upd x (append_all kd (new_table x default_capacity) (order b)) st, RNone))
  | OAssign x y =>
      (* modelled with the self-assignment guard (if(this != &other)) that the repair of the
         C04 finding adds; for x <> y this is the code as it stands: clear(), then append each *)
      with_2 st x y (fun a b => if (x =? y)%nat then (st, RNone)
                                else (upd x (append_all kd (clear x a) (order b)) st, RNone))
  | OEq x y => with_2 st x y (fun a b => (st, RBool (eq_tables kd a b)))
  | OAppendAll x y => with_2 st x y (fun a b => (upd x (append_all kd a (order b)) st, RNone))
  | ORemoveAll x y => with_2 st x y (fun a b => (upd x (remove_all a (order b)) st, RNone))
  | OSetVal x k v =>
      with_var st x (fun t => match find_node t k with
                              | Some (r, n) => (set_order t (upd r (mknode (nkey n) v (nslot n)) (order t)),
                                                RIter (Some (r, nkey n, v)))
                              | None => (t, RIter None)
                              end)
  | OIterFwd x => with_var st x (fun t => (t, RWalk (iter_fwd t)))
  | OIterBack x => with_var st x (fun t => (t, RWalk (iter_back t)))
  end.

Definition entries (t : table) : list (K * Z) := map (fun n => (nkey n, nval n)) (order t).
(* size() = _size;  isEmpty() = (endItem.prev == 0);  iteration from _begin along the next links *)
Definition m_obs (t : table) : tobs K :=
  (size t, match end_prev t with None => true | Some _ => false end, entries t).

Fixpoint run (kd : kind) (st : list table) (ops : list (op K)) : list (res K * list (tobs K)) :=
  match ops with
  | [] => []
  | o :: rest => let (st', r) := step kd st o in (r, map m_obs st') :: run kd st' rest
  end.

(* one container variable per capacity: variable i holds an object constructed with caps[i] *)
Fixpoint init_from (i : nat) (caps : list Z) : list table :=
  match caps with [] => [] | c :: rest => new_table i c :: init_from (S i) rest end.
Definition init (caps : list Z) : list table := init_from O caps.

End Model.

Arguments mknode {K}. Arguments nkey {K}. Arguments nval {K}. Arguments nslot {K}.
Arguments mktable {K}. Arguments cap {K}. Arguments has_data {K}. Arguments buckets {K}. Arguments order {K}.
Arguments size {K}. Arguments free {K}. Arguments nblocks {K}. Arguments end_prev {K}. Arguments end_owner {K}.
Arguments take {K}. Arguments init_from {K}.
Arguments new_table {K}. Arguments bidx {K}. Arguments chain {K}. Arguments chain_has {K}. Arguments locate {K}.
Arguments find_node {K}. Arguments it_of {K}. Arguments iter_at {K}. Arguments set_order {K}. Arguments insert {K}.
Arguments remove_first {K}. Arguments remove_at {K}. Arguments remove_key {K}. Arguments clear {K}.
Arguments append_all {K}. Arguments remove_all {K}. Arguments pairwise {K}. Arguments eq_tables {K}.
Arguments value_res {K}. Arguments node_res {K}. Arguments with_var {K}. Arguments with_2 {K}. Arguments step {K}.
Arguments entries {K}. Arguments m_obs {K}. Arguments run {K}. Arguments init {K}.
Arguments begin_pos {K}. Arguments prev_in {K}. Arguments node_at {K}. Arguments prev_pos {K}. Arguments walk_back {K}.
Arguments iter_back {K}. Arguments iter_fwd {K}.

(* The concrete hash functions of the library (used only by the correspondence check to compare
   bucket indices; every theorem is about an arbitrary hash).
   Base.hpp: hash(intN v) = (usize)v: sign extension to 64 bits, i.e. v mod 2^64 for every
   integer type, signed or unsigned;  for a pointer key the address is shifted right by sizeof(pointer) / 4 + 1 = 3 bits.
   The multiplier 16807 and the shift 3 are regenerated from the headers (Gen_Hash.v).
   String.hpp: h = len; h *= 16807; h ^= s[0]; h *= 16807; h ^= s[len/2]; h *= 16807;
   h ^= s[len - (len != 0)], arithmetic mod 2^64, char is signed (sign-extended before the xor),
   s[len] is the terminating 0. *)
Definition two64 : Z := 18446744073709551616.
Definition hash_int (v : Z) : Z := v mod two64.
Definition hash_ptr (v : Z) : Z := Z.shiftr (v mod two64) gen_ptr_hash_shift.
(* The integer key types, one overload of hash() each (Base.hpp: inline usize hash(T v) {return (usize)v;}).
   A key is held as the mathematical value of the C++ object.  [wrap_key] = the value an integer takes when it is
   converted to a type of [bits] bits (two's complement when signed): what the harness' (T)strtoll(..) yields.
   (usize)v converts that value to the 64-bit unsigned type: the value modulo 2^64, i.e. sign extension for a
   negative key of a signed type (hash(int8 -1) = 2^64 - 1), zero extension for the unsigned types, identity for
   uint64.  Width and signedness of every type are regenerated from the typedefs of Base.hpp (Gen_HashKeys.v),
   together with a check that each body is `return (usize)v;`. *)
Definition wrap_key (bits : Z) (signed : bool) (v : Z) : Z :=
  let m := v mod 2 ^ bits in
  if signed && (2 ^ (bits - 1) <=? m) then m - 2 ^ bits else m.
Definition hash_cast (bits : Z) (signed : bool) (v : Z) : Z := wrap_key bits signed v mod two64.
Definition hash_int8 : Z -> Z := hash_cast gen_int8_bits gen_int8_signed.
Definition hash_uint8 : Z -> Z := hash_cast gen_uint8_bits gen_uint8_signed.
Definition hash_int16 : Z -> Z := hash_cast gen_int16_bits gen_int16_signed.
Definition hash_uint16 : Z -> Z := hash_cast gen_uint16_bits gen_uint16_signed.
Definition hash_int32 : Z -> Z := hash_cast gen_int32_bits gen_int32_signed.
Definition hash_uint32 : Z -> Z := hash_cast gen_uint32_bits gen_uint32_signed.
Definition hash_int64 : Z -> Z := hash_cast gen_int64_bits gen_int64_signed.
Definition hash_uint64 : Z -> Z := hash_cast gen_uint64_bits gen_uint64_signed.
Definition wrap_int8 : Z -> Z := wrap_key gen_int8_bits gen_int8_signed.
Definition wrap_uint8 : Z -> Z := wrap_key gen_uint8_bits gen_uint8_signed.
Definition wrap_int16 : Z -> Z := wrap_key gen_int16_bits gen_int16_signed.
Definition wrap_uint16 : Z -> Z := wrap_key gen_uint16_bits gen_uint16_signed.
Definition wrap_int32 : Z -> Z := wrap_key gen_int32_bits gen_int32_signed.
Definition wrap_uint32 : Z -> Z := wrap_key gen_uint32_bits gen_uint32_signed.
Definition wrap_int64 : Z -> Z := wrap_key gen_int64_bits gen_int64_signed.
Definition wrap_uint64 : Z -> Z := wrap_key gen_uint64_bits gen_uint64_signed.
Definition sx_char (b : Z) : Z := (if b <? 128 then b else b - 256) mod two64.
Definition str_at (s : list Z) (i : Z) : Z := nth (Z.to_nat i) s 0.
Definition hash_str (s : list Z) : Z :=
  let len := Z.of_nat (length s) in
  let h := len in
  let h := (h * gen_str_hash_mult) mod two64 in
  let h := Z.lxor h (sx_char (str_at s 0)) in
  let h := (h * gen_str_hash_mult) mod two64 in
  let h := Z.lxor h (sx_char (str_at s (len / 2))) in
  let h := (h * gen_str_hash_mult) mod two64 in
  Z.lxor h (sx_char (str_at s (len - (if len =? 0 then 0 else 1)))) .

Fixpoint bytes_eqb (a b : list Z) : bool :=
  match a, b with
  | [], [] => true
  | x :: a', y :: b' => (x =? y) && bytes_eqb a' b'
  | _, _ => false
  end.
