From Coq Require Extraction ExtrOcamlBasic.
From Common Require Import Words.
From Coq Require Import ZArith.
From Hash Require Import HashBase HashSpec HashModel.
Extraction Language OCaml.
Extraction "model.ml" anchor step spec_step init new_table m_obs s_obs hash_int hash_ptr hash_str bytes_eqb Z.eqb bidx.
