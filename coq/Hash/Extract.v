From Coq Require Extraction ExtrOcamlBasic.
From Common Require Import Words.
From Coq Require Import ZArith.
From Hash Require Import HashBase HashSpec HashModel.
Extraction Language OCaml.
Extraction "model.ml" anchor step spec_step init new_table m_obs s_obs hash_int hash_ptr hash_str bytes_eqb Z.eqb bidx
  hash_int8 hash_uint8 hash_int16 hash_uint16 hash_int32 hash_uint32 hash_int64 hash_uint64
  wrap_int8 wrap_uint8 wrap_int16 wrap_uint16 wrap_int32 wrap_uint32 wrap_int64 wrap_uint64 Z.add Z.mul.
