(* Vocabulary shared by the reference object (HashSpec.v) and the model of the code
   (HashModel.v): container kinds, the operation alphabet of a history over several
   container variables, results/observations, and a few list helpers.  No proofs here. *)
From Coq Require Import ZArith List Bool.
From Hash Require Import Gen_Hash.
Import ListNotations.
Local Open Scope Z_scope.

(* HashMap<T,V>, HashSet<T>, PoolMap<T,V> *)
Inductive kind := KMap | KSet | KPool.

(* a returned iterator is observed as rank:key:value; None = end() *)
Definition iter (K : Type) : Type := option (nat * K * Z).

Inductive res (K : Type) : Type :=
| RNone                       (* void *)
| RPre                        (* the call would violate a precondition of the API (or the op does not exist
                                 for this container kind): it is not made, the state is unchanged *)
| RBool (b : bool)
| RIter (i : iter K)
| RVal (v : Z)
| RKey (k : K)
| RWalk (w : option (list (K * Z))).  (* a whole traversal through iterators: the key:value pairs in the order visited;
                                         None = the traversal does not come to its end (null pointer / no such item / more
                                         steps than there are items) *)
Arguments RNone {K}. Arguments RPre {K}. Arguments RBool {K}. Arguments RIter {K}. Arguments RVal {K}. Arguments RKey {K}.
Arguments RWalk {K}.

(* x, y : container variables of the history; pos/rank : iterators named by their rank
   (rank = size is end()); k : key; v : value *)
Inductive op (K : Type) : Type :=
| ONew (x : nat) (c : Z)                 (* x is destroyed and constructed with explicit capacity c *)
| ONewDefault (x : nat)                  (* … default constructed *)
| OFind (x : nat) (k : K)
| OContains (x : nat) (k : K)
| OInsert (x : nat) (pos : nat) (k : K) (v : Z)
| OAppend (x : nat) (k : K) (v : Z)
| OPrepend (x : nat) (k : K) (v : Z)
| ORemoveKey (x : nat) (k : K)
| ORemoveAt (x : nat) (rank : nat)       (* remove(Iterator) *)
| ORemoveVal (x : nat) (rank : nat)      (* PoolMap::remove(const V&) on the value at that rank *)
| ORemoveFront (x : nat)
| ORemoveBack (x : nat)
| OClear (x : nat)
| OSwap (x y : nat)
| OFront (x : nat)
| OBack (x : nat)
| OCopy (x y : nat)                      (* x is destroyed and copy-constructed from y *)
| OAssign (x y : nat)                    (* x = y *)
| OEq (x y : nat)                        (* x == y *)
| OAppendAll (x y : nat)                 (* HashSet::append(const HashSet&) *)
| ORemoveAll (x y : nat)                 (* HashSet::remove(const HashSet&) *)
| OSetVal (x : nat) (k : K) (v : Z)      (* *find(k) = v  (mutable access through the iterator) *)
| OIterFwd (x : nat)                     (* for(it = begin(); it != end(); ++it) visit(it)   - through operator++ *)
| OIterBack (x : nat).                   (* for(it = end(); it != begin(); ) { --it; visit(it); }   - through operator-- *)
Arguments ONew {K}. Arguments ONewDefault {K}. Arguments OFind {K}. Arguments OContains {K}.
Arguments OInsert {K}. Arguments OAppend {K}. Arguments OPrepend {K}. Arguments ORemoveKey {K}.
Arguments ORemoveAt {K}. Arguments ORemoveVal {K}. Arguments ORemoveFront {K}. Arguments ORemoveBack {K}.
Arguments OClear {K}. Arguments OSwap {K}. Arguments OFront {K}. Arguments OBack {K}. Arguments OCopy {K}.
Arguments OAssign {K}. Arguments OEq {K}. Arguments OAppendAll {K}. Arguments ORemoveAll {K}. Arguments OSetVal {K}.
Arguments OIterFwd {K}. Arguments OIterBack {K}.

(* which member functions exist for which container *)
Definition op_allowed {K} (kd : kind) (o : op K) : bool :=
  match o with
  | OPrepend _ _ _ => match kd with KPool => false | _ => true end
  | ORemoveVal _ _ => match kd with KPool => true | _ => false end
  | OCopy _ _ | OAssign _ _ | OEq _ _ => match kd with KPool => false | _ => true end
  | OAppendAll _ _ | ORemoveAll _ _ => match kd with KSet => true | _ => false end
  | OSetVal _ _ _ => match kd with KSet => false | _ => true end
  | _ => true
  end.

(* value stored by an insertion of a new key: HashMap stores the argument; HashSet has no value
   (the histories carry 0 there; the payload is never inspected for a set); PoolMap
   default-constructs the value (the harness' value type default-constructs to this number) *)
Definition pool_default : Z := 77.
Definition ins_value (kd : kind) (v : Z) : Z :=
  match kd with KPool => pool_default | _ => v end.

(* capacity(500) in the default and copy constructors: regenerated from the headers on every run (Gen_Hash.v) *)
Definition default_capacity : Z := gen_default_capacity.

(* observation of one container variable: size(), isEmpty(), the iteration key:value *)
Definition tobs (K : Type) : Type := (Z * bool * list (K * Z))%type.

Definition is_nil {A} (l : list A) : bool := match l with [] => true | _ => false end.

Definition insert_at {A} (pos : nat) (a : A) (l : list A) : list A := firstn pos l ++ a :: skipn pos l.
Definition remove_nth {A} (r : nat) (l : list A) : list A := firstn r l ++ skipn (S r) l.
