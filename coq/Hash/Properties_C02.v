(* Property C02 - only statements closed by `exact`, each followed by Print Assumptions. *)
From Coq Require Import ZArith List.
From Hash Require Import HashBase HashSpec HashModel HashProofs HashRefine.
