(* Property C02 - "Hash containers behave as insertion-ordered unique-key tables".
   Only statements closed by `exact`, each followed by Print Assumptions, plus non-vacuity Examples.

   Every theorem is about the Model (HashModel.v: HashMap / HashSet / PoolMap selected by [kind])
   over an ARBITRARY key type K with a decidable equality [keqb], an ARBITRARY hash function
   [hash : K -> Z] and arbitrary capacities - "all keys collide in one bucket" (hash := fun _ => 0)
   and "capacity 1" are instances (see the Examples at the end).

   Clause of the property                                   -> theorem
   -------------------------------------------------------------------------------------------------
   for every operation sequence, every table size, agree with
   a reference insertion-ordered map on lookups, size,
   emptiness, iteration order, equality comparison and
   returned iterators (all 24 operations, several variables) -> C02_refines_ordered_map (whole histories,
                                                                results and observations of every variable
                                                                after every operation), C02_step_refines,
                                                                C02_full_invariant_step (one step under the full
                                                                invariant: chains + sentinel link + node recycling)
   iteration order through iterators: a traversal from begin()
   with operator++ visits the sequence, a traversal from end()
   with operator-- (walking the prev pointers from the end
   sentinel until _begin.item is met) visits its reverse      -> C02_iter_back_is_rev_forward (every table satisfying the
                                                                invariant), C02_iter_back_reachable (every reachable
                                                                state), C02_iter_step_results (the two operations),
                                                                C02_walk_back_from_rank (started at any rank: the
                                                                prefix before it, reversed); inside
                                                                C02_refines_ordered_map / C02_step_refines as well
   bucket-chain + order-list invariant: established by the
   constructors, preserved by every operation, holds in
   every reachable state                                     -> C02_invariant_init, C02_invariant_step,
                                                                C02_invariant_reachable
   lookups (find / contains) walk one chain only and still
   answer like the reference                                 -> C02_chain_lookup_iff_listed, C02_find_refines,
                                                                C02_contains_refines
   size / emptiness / iteration order                        -> C02_obs_refines
   equality comparison (order- and value-sensitive)          -> C02_eq_refines
   append / prepend / positional insert, returned iterator   -> C02_insert_refines, C02_insert_new_key
   the iterator returned by insert and the references returned
   by append / prepend (taken from it: insert(..).item->value)
   designate the entry find(key) reaches after the call      -> C02_insert_returns_found_entry (the function),
                                                                C02_insert_ops_return_found_entry (the three operations);
                                                                that the C++ reference is the ADDRESS of the stored
                                                                element is checked by the harness (token REF!)
   remove by iterator (returned iterator), removeFront/Back  -> C02_remove_at_refines, C02_iter_at_refines
   remove by key                                             -> C02_remove_key_refines
   clear                                                     -> C02_clear_refines
   copy construction / assignment (re-append into an empty
   table of another capacity yields the same sequence)       -> C02_copy_refines
   bulk append / remove                                      -> C02_append_all_refines, C02_remove_all_refines
   swap (mechanism: each object takes over the other's fields
   and re-anchors the list on ITS OWN end sentinel:
   endItem.prev->next = &endItem / _begin.item = &endItem)    -> C02_swap_half_reanchors (one half), C02_swap_refines (the
                                                                step exchanges the two sequences, capacities, bucket
                                                                arrays and free lists; both lists end up anchored)
   end sentinel: endItem.prev designates the last item (null
   iff empty - this is what isEmpty() reads), and the list of
   variable x runs into the sentinel of x, in every reachable
   state                                                     -> C02_sentinel_links_step, C02_sentinel_anchored_step,
                                                                C02_sentinel_reachable
   ==, front/back, setValue through the iterator             -> inside C02_step_refines
   inserting a present key keeps its position and updates
   the value (HashMap)                                       -> C02_insert_present_hashmap
   ... or leaves the entry untouched (HashSet, PoolMap)      -> C02_insert_present_set_pool_untouched
   the reference object is a unique-key table                -> C02_spec_unique_keys
   node recycling (free-item list, blocks of 4): live items
   and free list partition the allocated items, always       -> C02_pool_step, C02_pool_reachable (together with the
                                                                sentinel link: swap's "endItem.prev is null" branch
                                                                drops the list it is handed, which loses no item only
                                                                because the list is then empty)

   Validated by correspondence only (checks/C02.py): that the Model mirrors the C++ code (results,
   public state, bucket index and chain order of every key, slot of every item, free list, number of
   blocks, compared after every operation); the concrete hash functions hash_int8 .. hash_uint64 (= hash_cast
   with the width/signedness Gen_HashKeys.v regenerates from Base.hpp), hash_ptr, hash_str; that the prev pointer of the item
   at rank r+1 designates the item at rank r (the list representation the backward walk is defined on; the harness
   checks every prev link on every dump and drives operator-- itself).
   Preconditions of the API (position <= size, rank < size, non-empty for front/back/removeFront/
   removeBack, existing variable, operation defined for the container kind) are modelled as RPre: the
   call is not made.  x = x is modelled with the self-assignment guard (see level_note of the check). *)
From Coq Require Import ZArith List Bool Lia.
From Common Require Import ListAux.
From Hash Require Import HashBase HashSpec HashModel HashProofs HashRefine HashExtra HashPool HashAnchor.
Import ListNotations.
Local Open Scope Z_scope.

Theorem C02_invariant_init :
  forall (K : Type) (hash : K -> Z) (caps : list Z),
  Forall (fun c : Z => 0 <= c) caps -> state_ok K hash (start K caps).
Proof. exact start_ok. Qed.
Print Assumptions C02_invariant_init.

Theorem C02_invariant_step :
  forall (K : Type) (keqb : K -> K -> bool) (hash : K -> Z),
  (forall a b : K, keqb a b = true <-> a = b) ->
  forall (kd : kind) (st : list (table K)) (o : op K),
  state_ok K hash st -> state_ok K hash (fst (step keqb hash kd st o)).
Proof. exact invariant_step. Qed.
Print Assumptions C02_invariant_step.

Theorem C02_invariant_reachable :
  forall (K : Type) (keqb : K -> K -> bool) (hash : K -> Z),
  (forall a b : K, keqb a b = true <-> a = b) ->
  forall (kd : kind) (caps : list Z) (ops : list (op K)),
  Forall (fun c : Z => 0 <= c) caps ->
  state_ok K hash (states K keqb hash kd (start K caps) ops).
Proof. exact invariant_reachable. Qed.
Print Assumptions C02_invariant_reachable.

(* (the premise slots_nodup - no two live items of a table share a slot - is used by the backward traversal only; it is
   part of the node-recycling invariant pool_ok, see C02_full_invariant_step / C02_pool_reachable) *)
Theorem C02_step_refines :
  forall (K : Type) (keqb : K -> K -> bool) (hash : K -> Z),
  (forall a b : K, keqb a b = true <-> a = b) ->
  forall (kd : kind) (st : list (table K)) (o : op K),
  state_ok K hash st -> Forall (slots_nodup K) st ->
  state_ok K hash (fst (step keqb hash kd st o)) /\
  spec_step keqb kd (abs_st K st) o = (abs_st K (fst (step keqb hash kd st o)), snd (step keqb hash kd st o)).
Proof. exact step_refines. Qed.
Print Assumptions C02_step_refines.

(* the main theorem: for every key type, hash function, container kind, list of capacities and
   history, the model produces exactly the results and observations of the reference ordered maps *)
Theorem C02_refines_ordered_map :
  forall (K : Type) (keqb : K -> K -> bool) (hash : K -> Z),
  (forall a b : K, keqb a b = true <-> a = b) ->
  forall (kd : kind) (caps : list Z) (ops : list (op K)),
  Forall (fun c : Z => 0 <= c) caps ->
  run keqb hash kd (start K caps) ops = spec_run keqb kd (map (fun _ : Z => nil) caps) ops.
Proof. exact refines_ordered_map. Qed.
Print Assumptions C02_refines_ordered_map.

Theorem C02_chain_lookup_iff_listed :
  forall (K : Type) (keqb : K -> K -> bool) (hash : K -> Z),
  (forall a b : K, keqb a b = true <-> a = b) ->
  forall (t : table K) (k : K),
  chains_ok K hash t -> chain_has keqb hash t k = true <-> In k (keys K t).
Proof. exact chain_has_in. Qed.
Print Assumptions C02_chain_lookup_iff_listed.

Theorem C02_find_refines :
  forall (K : Type) (keqb : K -> K -> bool) (hash : K -> Z),
  (forall a b : K, keqb a b = true <-> a = b) ->
  forall (t : table K) (k : K),
  chains_ok K hash t -> it_of (find_node keqb hash t k) = s_find keqb (abs K t) k.
Proof. exact find_refines. Qed.
Print Assumptions C02_find_refines.

Theorem C02_contains_refines :
  forall (K : Type) (keqb : K -> K -> bool) (hash : K -> Z),
  (forall a b : K, keqb a b = true <-> a = b) ->
  forall (t : table K) (k : K),
  chains_ok K hash t ->
  match find_node keqb hash t k with Some _ => true | None => false end = s_has keqb (abs K t) k.
Proof. exact contains_refines. Qed.
Print Assumptions C02_contains_refines.

Theorem C02_obs_refines :
  forall (K : Type) (hash : K -> Z) (t : table K), chains_ok K hash t -> m_obs t = s_obs (abs K t).
Proof. exact obs_refines. Qed.
Print Assumptions C02_obs_refines.

Theorem C02_eq_refines :
  forall (K : Type) (keqb : K -> K -> bool) (hash : K -> Z) (kd : kind) (a b : table K),
  chains_ok K hash a -> chains_ok K hash b ->
  eq_tables keqb kd a b = s_eq keqb kd (abs K a) (abs K b).
Proof. exact eq_refines. Qed.
Print Assumptions C02_eq_refines.

Theorem C02_insert_refines :
  forall (K : Type) (keqb : K -> K -> bool) (hash : K -> Z),
  (forall a b : K, keqb a b = true <-> a = b) ->
  forall (kd : kind) (t : table K) (pos : nat) (k : K) (v : Z),
  chains_ok K hash t -> (pos <= length (order t))%nat ->
  chains_ok K hash (fst (insert keqb hash kd t pos k v)) /\
  abs K (fst (insert keqb hash kd t pos k v)) = s_put keqb kd (abs K t) pos k v /\
  snd (insert keqb hash kd t pos k v) = s_find keqb (abs K (fst (insert keqb hash kd t pos k v))) k.
Proof. exact insert_refines. Qed.
Print Assumptions C02_insert_refines.

Theorem C02_insert_new_key :
  forall (K : Type) (keqb : K -> K -> bool) (hash : K -> Z),
  (forall a b : K, keqb a b = true <-> a = b) ->
  forall (kd : kind) (t : table K) (pos : nat) (k : K) (v : Z),
  chains_ok K hash t -> ~ In k (map fst (abs K t)) -> (pos <= length (abs K t))%nat ->
  abs K (fst (insert keqb hash kd t pos k v)) = insert_at pos (k, ins_value kd v) (abs K t) /\
  snd (insert keqb hash kd t pos k v) = Some (pos, k, ins_value kd v) /\
  size (fst (insert keqb hash kd t pos k v)) = size t + 1.
Proof. exact insert_new. Qed.
Print Assumptions C02_insert_new_key.

(* HashMap: same rank, every other entry identical ([upd r]), value replaced, iterator to that rank,
   size / chains / free list unchanged - for every position argument *)
Theorem C02_insert_present_hashmap :
  forall (K : Type) (keqb : K -> K -> bool) (hash : K -> Z),
  (forall a b : K, keqb a b = true <-> a = b) ->
  forall (t : table K) (pos : nat) (k : K) (v : Z) (r : nat) (v0 : Z),
  chains_ok K hash t -> nth_error (abs K t) r = Some (k, v0) ->
  abs K (fst (insert keqb hash KMap t pos k v)) = upd r (k, v) (abs K t) /\
  snd (insert keqb hash KMap t pos k v) = Some (r, k, v) /\
  size (fst (insert keqb hash KMap t pos k v)) = size t /\
  buckets (fst (insert keqb hash KMap t pos k v)) = buckets t /\
  free (fst (insert keqb hash KMap t pos k v)) = free t /\
  chains_ok K hash (fst (insert keqb hash KMap t pos k v)).
Proof. exact insert_present_map. Qed.
Print Assumptions C02_insert_present_hashmap.

(* HashSet, PoolMap: the table is returned exactly as it was, iterator to the existing entry *)
Theorem C02_insert_present_set_pool_untouched :
  forall (K : Type) (keqb : K -> K -> bool) (hash : K -> Z),
  (forall a b : K, keqb a b = true <-> a = b) ->
  forall (kd : kind) (t : table K) (pos : nat) (k : K) (v : Z) (r : nat) (v0 : Z),
  kd <> KMap -> chains_ok K hash t -> nth_error (abs K t) r = Some (k, v0) ->
  insert keqb hash kd t pos k v = (t, Some (r, k, v0)).
Proof. exact insert_present_untouched. Qed.
Print Assumptions C02_insert_present_set_pool_untouched.

(* The iterator insert() returns designates the entry that find(key) reaches in the table after the call (same rank,
   the key, the value stored at that rank in the sequence), and there is one.  append() / prepend() return a reference
   taken from that iterator (insert(..).item->value). *)
Theorem C02_insert_returns_found_entry :
  forall (K : Type) (keqb : K -> K -> bool) (hash : K -> Z),
  (forall a b : K, keqb a b = true <-> a = b) ->
  forall (kd : kind) (t : table K) (pos : nat) (k : K) (v : Z),
  chains_ok K hash t -> (pos <= length (order t))%nat ->
  snd (insert keqb hash kd t pos k v) = it_of (find_node keqb hash (fst (insert keqb hash kd t pos k v)) k) /\
  exists (r : nat) (v' : Z),
    snd (insert keqb hash kd t pos k v) = Some (r, k, v') /\
    nth_error (abs K (fst (insert keqb hash kd t pos k v))) r = Some (k, v').
Proof. exact insert_returns_found. Qed.
Print Assumptions C02_insert_returns_found_entry.

(* ... as results of the three operations of a history, in every state that satisfies the invariant: insert answers
   with the iterator find(k) yields on the new table, append / prepend with the value of that entry (nothing for the set) *)
Theorem C02_insert_ops_return_found_entry :
  forall (K : Type) (keqb : K -> K -> bool) (hash : K -> Z),
  (forall a b : K, keqb a b = true <-> a = b) ->
  forall (kd : kind) (st : list (table K)) (x : nat) (t : table K) (pos : nat) (k : K) (v : Z),
  state_ok K hash st -> nth_error st x = Some t -> (pos <= length (order t))%nat ->
  let t' := fst (insert keqb hash kd t pos k v) in
  it_of (find_node keqb hash t' k) = snd (insert keqb hash kd t pos k v) /\
  (op_allowed kd (OInsert x pos k v) = true ->
   step keqb hash kd st (OInsert x pos k v) = (upd x t' st, RIter (it_of (find_node keqb hash t' k)))) /\
  (op_allowed kd (OAppend x k v) = true -> pos = length (order t) ->
   step keqb hash kd st (OAppend x k v) = (upd x t' st, value_res kd (it_of (find_node keqb hash t' k)))) /\
  (op_allowed kd (OPrepend x k v) = true -> pos = O ->
   step keqb hash kd st (OPrepend x k v) = (upd x t' st, value_res kd (it_of (find_node keqb hash t' k)))).
Proof. exact insert_ops_return_found. Qed.
Print Assumptions C02_insert_ops_return_found_entry.

Theorem C02_remove_at_refines :
  forall (K : Type) (keqb : K -> K -> bool) (hash : K -> Z),
  (forall a b : K, keqb a b = true <-> a = b) ->
  forall (t : table K) (r : nat),
  chains_ok K hash t -> (r < length (order t))%nat ->
  chains_ok K hash (remove_at keqb hash t r) /\ abs K (remove_at keqb hash t r) = remove_nth r (abs K t).
Proof. exact remove_at_refines. Qed.
Print Assumptions C02_remove_at_refines.

Theorem C02_iter_at_refines :
  forall (K : Type) (t : table K) (r : nat), iter_at t r = s_iter (abs K t) r.
Proof. exact iter_at_refines. Qed.
Print Assumptions C02_iter_at_refines.

Theorem C02_remove_key_refines :
  forall (K : Type) (keqb : K -> K -> bool) (hash : K -> Z),
  (forall a b : K, keqb a b = true <-> a = b) ->
  forall (t : table K) (k : K),
  chains_ok K hash t ->
  chains_ok K hash (remove_key keqb hash t k) /\ abs K (remove_key keqb hash t k) = s_remove_key keqb (abs K t) k.
Proof. exact remove_key_refines. Qed.
Print Assumptions C02_remove_key_refines.

Theorem C02_clear_refines :
  forall (K : Type) (hash : K -> Z) (x : nat) (t : table K),
  chains_ok K hash t -> chains_ok K hash (clear x t) /\ abs K (clear x t) = [].
Proof. exact clear_refines. Qed.
Print Assumptions C02_clear_refines.

Theorem C02_copy_refines :
  forall (K : Type) (keqb : K -> K -> bool) (hash : K -> Z),
  (forall a b : K, keqb a b = true <-> a = b) ->
  forall (kd : kind) (t b : table K),
  kd <> KPool -> chains_ok K hash t -> abs K t = [] -> chains_ok K hash b ->
  chains_ok K hash (append_all keqb hash kd t (order b)) /\ abs K (append_all keqb hash kd t (order b)) = abs K b.
Proof. exact copy_refines. Qed.
Print Assumptions C02_copy_refines.

Theorem C02_append_all_refines :
  forall (K : Type) (keqb : K -> K -> bool) (hash : K -> Z),
  (forall a b : K, keqb a b = true <-> a = b) ->
  forall (kd : kind) (l : list (node K)) (t : table K),
  chains_ok K hash t ->
  chains_ok K hash (append_all keqb hash kd t l) /\
  abs K (append_all keqb hash kd t l) =
  fold_left (fun (m : omap K) (e : K * Z) => s_put keqb kd m (length m) (fst e) (snd e)) (map (ent K) l) (abs K t).
Proof. exact append_all_refines. Qed.
Print Assumptions C02_append_all_refines.

Theorem C02_remove_all_refines :
  forall (K : Type) (keqb : K -> K -> bool) (hash : K -> Z),
  (forall a b : K, keqb a b = true <-> a = b) ->
  forall (l : list (node K)) (t : table K),
  chains_ok K hash t ->
  chains_ok K hash (remove_all keqb hash t l) /\
  abs K (remove_all keqb hash t l) =
  fold_left (fun (m : omap K) (e : K * Z) => s_remove_key keqb m (fst e)) (map (ent K) l) (abs K t).
Proof. exact remove_all_refines. Qed.
Print Assumptions C02_remove_all_refines.

Theorem C02_spec_unique_keys :
  forall (K : Type) (keqb : K -> K -> bool),
  (forall a b : K, keqb a b = true <-> a = b) ->
  forall (kd : kind) (caps : list Z) (ops : list (op K)),
  Forall (fun c : Z => 0 <= c) caps ->
  Forall (fun l : list (K * Z) => NoDup (map fst l)) (spec_states K keqb kd (map (fun _ : Z => nil) caps) ops).
Proof. exact spec_unique_keys. Qed.
Print Assumptions C02_spec_unique_keys.

(* node recycling, for every key equality (no keqb_spec): preserved together with the sentinel's prev link *)
Theorem C02_pool_step :
  forall (K : Type) (keqb : K -> K -> bool) (hash : K -> Z) (kd : kind) (st : list (table K)) (o : op K),
  Forall (links_ok K) st -> Forall (pool_ok K) st ->
  Forall (links_ok K) (fst (step keqb hash kd st o)) /\ Forall (pool_ok K) (fst (step keqb hash kd st o)).
Proof. exact pool_step. Qed.
Print Assumptions C02_pool_step.

Theorem C02_pool_reachable :
  forall (K : Type) (keqb : K -> K -> bool) (hash : K -> Z) (kd : kind) (caps : list Z) (ops : list (op K)),
  Forall (links_ok K) (states K keqb hash kd (start K caps) ops) /\
  Forall (pool_ok K) (states K keqb hash kd (start K caps) ops).
Proof. exact pool_reachable. Qed.
Print Assumptions C02_pool_reachable.

(* ---- swap and the end sentinel ------------------------------------------------------------------------ *)
(* one half of swap(): the object in variable x takes over the fields of a table t that satisfies the invariant
   and re-anchors the list; the result satisfies the invariant, holds the same sequence and is anchored on the
   sentinel of x.  (The code branches on endItem.prev; that the null branch - which makes the receiving list
   empty - loses nothing is where the invariant is used.) *)
Theorem C02_swap_half_reanchors :
  forall (K : Type) (hash : K -> Z) (x : nat) (t : table K),
  chains_ok K hash t ->
  chains_ok K hash (take x t) /\ abs K (take x t) = abs K t /\ end_owner (take x t) = x.
Proof. exact take_refines. Qed.
Print Assumptions C02_swap_half_reanchors.

Theorem C02_swap_refines :
  forall (K : Type) (keqb : K -> K -> bool) (hash : K -> Z)
         (kd : kind) (st : list (table K)) (x y : nat) (a b : table K),
  state_ok K hash st -> nth_error st x = Some a -> nth_error st y = Some b ->
  let st' := fst (step keqb hash kd st (OSwap x y)) in
  state_ok K hash st' /\
  abs_st K st' = upd y (abs K a) (upd x (abs K b) (abs_st K st)) /\
  (forall t : table K, nth_error st' y = Some t ->
     end_owner t = y /\ cap t = cap a /\ buckets t = buckets a /\ free t = free a /\ nblocks t = nblocks a) /\
  (x <> y -> forall t : table K, nth_error st' x = Some t ->
     end_owner t = x /\ cap t = cap b /\ buckets t = buckets b /\ free t = free b /\ nblocks t = nblocks b).
Proof. exact swap_refines. Qed.
Print Assumptions C02_swap_refines.

Theorem C02_sentinel_links_step :
  forall (K : Type) (keqb : K -> K -> bool) (hash : K -> Z) (kd : kind) (st : list (table K)) (o : op K),
  Forall (links_ok K) st -> Forall (links_ok K) (fst (step keqb hash kd st o)).
Proof. exact links_step. Qed.
Print Assumptions C02_sentinel_links_step.

Theorem C02_sentinel_anchored_step :
  forall (K : Type) (keqb : K -> K -> bool) (hash : K -> Z) (kd : kind) (st : list (table K)) (o : op K),
  anchored K st -> anchored K (fst (step keqb hash kd st o)).
Proof. exact anchored_step. Qed.
Print Assumptions C02_sentinel_anchored_step.

(* in every reachable state the list of variable x runs into the sentinel of x *)
Theorem C02_sentinel_reachable :
  forall (K : Type) (keqb : K -> K -> bool) (hash : K -> Z) (kd : kind) (caps : list Z) (ops : list (op K)),
  anchored K (states K keqb hash kd (start K caps) ops).
Proof. exact anchored_reachable. Qed.
Print Assumptions C02_sentinel_reachable.

(* ---- traversal through iterators ---------------------------------------------------------------------- *)
(* one step under the full invariant (chains + order list, endItem.prev, node recycling): the invariant holds
   again and the step commutes with the reference - for all 24 operations *)
Theorem C02_full_invariant_step :
  forall (K : Type) (keqb : K -> K -> bool) (hash : K -> Z),
  (forall a b : K, keqb a b = true <-> a = b) ->
  forall (kd : kind) (st : list (table K)) (o : op K),
  state_ok K hash st -> Forall (links_ok K) st -> Forall (pool_ok K) st ->
  (state_ok K hash (fst (step keqb hash kd st o)) /\
   Forall (links_ok K) (fst (step keqb hash kd st o)) /\
   Forall (pool_ok K) (fst (step keqb hash kd st o))) /\
  spec_step keqb kd (abs_st K st) o = (abs_st K (fst (step keqb hash kd st o)), snd (step keqb hash kd st o)).
Proof. exact full_step. Qed.
Print Assumptions C02_full_invariant_step.

(* iterate_backwards = rev iterate_forwards, from the invariant *)
Theorem C02_iter_back_is_rev_forward :
  forall (K : Type) (hash : K -> Z) (t : table K),
  chains_ok K hash t -> pool_ok K t -> iter_back t = option_map (@rev (K * Z)) (iter_fwd t).
Proof. exact iter_back_ok. Qed.
Print Assumptions C02_iter_back_is_rev_forward.

(* ... hence in every reachable state, for every key type, hash function, kind, capacities and history *)
Theorem C02_iter_back_reachable :
  forall (K : Type) (keqb : K -> K -> bool) (hash : K -> Z),
  (forall a b : K, keqb a b = true <-> a = b) ->
  forall (kd : kind) (caps : list Z) (ops : list (op K)),
  Forall (fun c : Z => 0 <= c) caps ->
  Forall (fun t : table K => iter_fwd t = Some (abs K t) /\ iter_back t = Some (rev (abs K t)))
         (states K keqb hash kd (start K caps) ops).
Proof. exact iter_back_reachable. Qed.
Print Assumptions C02_iter_back_reachable.

Theorem C02_iter_step_results :
  forall (K : Type) (keqb : K -> K -> bool) (hash : K -> Z) (kd : kind) (st : list (table K)) (x : nat) (t : table K),
  state_ok K hash st -> Forall (pool_ok K) st -> nth_error st x = Some t ->
  step keqb hash kd st (OIterFwd x) = (st, RWalk (Some (abs K t))) /\
  step keqb hash kd st (OIterBack x) = (st, RWalk (Some (rev (abs K t)))).
Proof. exact iter_step_results. Qed.
Print Assumptions C02_iter_step_results.

(* the walk itself, started at the iterator of any rank i (i = size: end()): it visits the i entries before
   that rank in reverse order and stops at _begin.item, within i + 1 steps *)
Theorem C02_walk_back_from_rank :
  forall (K : Type) (ep : option slot) (l : list (node K)),
  NoDup (map nslot l) -> ep = last_slot K l ->
  forall (i fuel : nat), (i <= length l)%nat -> (i < fuel)%nat ->
  walk_back fuel ep l (pos_at K l i) = Some (rev (map (ent K) (firstn i l))).
Proof. exact walk_back_at. Qed.
Print Assumptions C02_walk_back_from_rank.

(* ---- non-vacuity: integer keys, ALL keys in one bucket (hash = 0), capacities 7 / 0 (-> 1) / 2 ----- *)
Definition ex_hash (k : Z) : Z := 0.
Definition ex_caps : list Z := [7; 0; 2].
Definition ex_ops : list (op Z) :=
  [OAppend 0 10 1; OAppend 0 20 2; OPrepend 0 30 3; OInsert 0 1 40 4; OAppend 0 50 5;   (* 30 40 10 20 50 *)
   ORemoveKey 0 10;                       (* middle of the chain, middle of the list *)
   OInsert 0 0 20 9;                      (* present key, other position: keeps rank 2 *)
   OAppend 1 20 9; OAppend 1 30 3; OSwap 0 1; OEq 0 1; OCopy 2 1; OEq 2 1; ORemoveAt 1 1; ORemoveBack 1;
   OAssign 0 1; OClear 2; OAppend 2 7 7; OFind 1 30; OFind 1 10;
   OIterFwd 1; OIterBack 1; OIterBack 2].
Definition ex_states (kd : kind) : list (table Z) := states Z Z.eqb ex_hash kd (start Z ex_caps) ex_ops.
Definition ex_t : table Z := nth 0 (states Z Z.eqb ex_hash KMap (start Z ex_caps) (firstn 6 ex_ops)) (new_table 0 1).

Example ex_caps_ok : Forall (fun c : Z => 0 <= c) ex_caps.
Proof. repeat constructor; discriminate. Qed.

Example ex_keqb_spec : forall a b : Z, Z.eqb a b = true <-> a = b.
Proof. exact Z.eqb_eq. Qed.

(* the hypotheses of the theorems are met by a state with a chain of four colliding keys *)
Example ex_chain : buckets ex_t = [[50; 40; 30; 20]; []; []; []; []; []; []] /\ entries ex_t = [(30, 3); (40, 4); (20, 2); (50, 5)].
Proof. vm_compute. split; reflexivity. Qed.

Example ex_t_ok : chains_ok Z ex_hash ex_t.
Proof.
  pose proof (C02_invariant_reachable Z Z.eqb ex_hash ex_keqb_spec KMap ex_caps (firstn 6 ex_ops) ex_caps_ok) as H.
  unfold state_ok in H. rewrite Forall_forall in H. apply H. vm_compute. left. reflexivity.
Qed.

Example ex_run_map : run Z.eqb ex_hash KMap (start Z ex_caps) ex_ops = spec_run Z.eqb KMap [[]; []; []] ex_ops.
Proof. vm_compute. reflexivity. Qed.

Example ex_run_set : run Z.eqb ex_hash KSet (start Z ex_caps) ex_ops = spec_run Z.eqb KSet [[]; []; []] ex_ops.
Proof. vm_compute. reflexivity. Qed.

Example ex_run_nontrivial :
  map fst (spec_run Z.eqb KMap [[]; []; []] ex_ops) =
  [RVal 1; RVal 2; RVal 3; RIter (Some (1%nat, 40, 4)); RVal 5; RNone; RIter (Some (2%nat, 20, 9));
   RVal 9; RVal 3; RNone; RBool false; RNone; RBool true; RIter (Some (1%nat, 20, 9)); RIter None;
   RNone; RNone; RVal 7; RIter (Some (0%nat, 30, 3)); RIter None;
   RWalk (Some [(30, 3); (20, 9)]); RWalk (Some [(20, 9); (30, 3)]); RWalk (Some [(7, 7)])].
Proof. vm_compute. reflexivity. Qed.

(* present key: HashMap keeps rank 2 and replaces the value; HashSet / PoolMap return the table itself *)
Example ex_present_map :
  nth_error (abs Z ex_t) 2 = Some (20, 2) /\
  abs Z (fst (insert Z.eqb ex_hash KMap ex_t 0 20 9)) = [(30, 3); (40, 4); (20, 9); (50, 5)] /\
  snd (insert Z.eqb ex_hash KMap ex_t 0 20 9) = Some (2%nat, 20, 9).
Proof. vm_compute. repeat split; reflexivity. Qed.

Example ex_present_pool : insert Z.eqb ex_hash KPool ex_t 0 20 9 = (ex_t, Some (2%nat, 20, 2)).
Proof. vm_compute. reflexivity. Qed.

(* the returned iterator / reference: prepend of the new key 60 and of the present key 20 (rank 2) to ex_t *)
Example ex_returned_entry :
  snd (insert Z.eqb ex_hash KMap ex_t 0 60 9) = Some (0%nat, 60, 9) /\
  it_of (find_node Z.eqb ex_hash (fst (insert Z.eqb ex_hash KMap ex_t 0 60 9)) 60) = Some (0%nat, 60, 9) /\
  snd (insert Z.eqb ex_hash KMap ex_t 0 20 9) = Some (2%nat, 20, 9) /\
  it_of (find_node Z.eqb ex_hash (fst (insert Z.eqb ex_hash KMap ex_t 0 20 9)) 20) = Some (2%nat, 20, 9) /\
  snd (step Z.eqb ex_hash KMap [ex_t] (OPrepend 0 20 9)) = RVal 9.
Proof. vm_compute. repeat split. Qed.

Example ex_new_key : abs Z (fst (insert Z.eqb ex_hash KPool ex_t 1 60 9)) = [(30, 3); (60, 77); (40, 4); (20, 2); (50, 5)].
Proof. vm_compute. reflexivity. Qed.

(* removal from the middle of a four-element chain *)
Example ex_remove_mid : buckets (remove_key Z.eqb ex_hash ex_t 40) = [[50; 30; 20]; []; []; []; []; []; []]
                        /\ entries (remove_key Z.eqb ex_hash ex_t 40) = [(30, 3); (20, 2); (50, 5)].
Proof. vm_compute. split; reflexivity. Qed.

(* order-sensitive equality; copy into capacity 500 is equal *)
Example ex_eq_order :
  s_eq Z.eqb KMap [(1, 1); (2, 2)] [(2, 2); (1, 1)] = false /\ s_eq Z.eqb KMap [(1, 1); (2, 2)] [(1, 1); (2, 2)] = true /\
  s_eq Z.eqb KMap [(1, 1); (2, 2)] [(1, 1); (2, 3)] = false /\ s_eq Z.eqb KSet [(1, 1); (2, 2)] [(1, 1); (2, 3)] = true.
Proof. vm_compute. repeat split; reflexivity. Qed.

(* node recycling: after the history, live slots and free list partition the 4 * nblocks items of each table *)
Example ex_pool :
  map (fun t => (nblocks t, map nslot (order t), free t)) (ex_states KMap) =
  [(1, [(0, 3); (0, 0)], [(0, 2); (0, 1)]);
   (2, [(0, 2); (0, 3)], [(1, 0); (0, 1); (0, 0); (1, 3); (1, 2); (1, 1)]);
   (1, [(0, 1)], [(0, 2); (0, 3); (0, 0)])].
Proof. vm_compute. reflexivity. Qed.

(* swap: variable 0 (capacity 7, four items) and variable 1 (capacity 1, EMPTY: the null branch of the
   re-anchoring) - afterwards 0 is empty with capacity 1, 1 holds the four items with capacity 7, both lists
   run into their own sentinel and endItem.prev designates the slot of the last item *)
Definition ex_sw : list (table Z) := fst (step Z.eqb ex_hash KMap [ex_t; new_table 1 1] (OSwap 0 1)).
Example ex_swap :
  map (fun t => (cap t, entries t, end_prev t, end_owner t)) ex_sw =
  [(1, [], None, 0%nat); (7, [(30, 3); (40, 4); (20, 2); (50, 5)], Some (1, 0), 1%nat)].
Proof. vm_compute. reflexivity. Qed.

(* the re-anchoring is what keeps the sentinel invariant: merely exchanging the two records leaves each list
   running into the sentinel of the other variable *)
Example ex_exchange_not_anchored :
  anchored Z [ex_t; new_table 1 1] /\ ~ anchored Z (upd 1 ex_t (upd 0 (new_table 1 1) [ex_t; new_table 1 1])) /\ anchored Z ex_sw.
Proof.
  assert (two : forall st : list (table Z), length st = 2%nat ->
            (forall t, nth_error st 0 = Some t -> end_owner t = 0%nat) ->
            (forall t, nth_error st 1 = Some t -> end_owner t = 1%nat) -> anchored Z st).
  { intros st Hl H0 H1 x t H. assert (Hx : (x < length st)%nat) by (apply nth_error_Some; congruence).
    destruct x as [|[|x]]; [apply H0; exact H | apply H1; exact H | lia]. }
  split; [|split].
  - apply two; [reflexivity | |]; intros t H; vm_compute in H; injection H as <-; reflexivity.
  - intros H. specialize (H 0%nat (new_table 1 1) eq_refl). vm_compute in H. discriminate.
  - apply two; [vm_compute; reflexivity | |]; intros t H; vm_compute in H; injection H as <-; reflexivity.
Qed.

(* the link invariant in a reachable state: endItem.prev of every variable after the whole history *)
Example ex_links : map (fun t => (end_prev t, map nslot (order t), end_owner t)) (ex_states KMap) =
  [(Some (0, 0), [(0, 3); (0, 0)], 0%nat); (Some (0, 3), [(0, 2); (0, 3)], 1%nat); (Some (0, 1), [(0, 1)], 2%nat)].
Proof. vm_compute. reflexivity. Qed.

(* backward traversal of the table with a four-element chain: the reverse of the forward traversal; the hypotheses
   of C02_iter_back_is_rev_forward are met by it *)
Example ex_t_pool : pool_ok Z ex_t.
Proof.
  destruct (C02_pool_reachable Z Z.eqb ex_hash KMap ex_caps (firstn 6 ex_ops)) as [_ H].
  rewrite Forall_forall in H. apply H. vm_compute. left. reflexivity.
Qed.

Example ex_iter :
  iter_fwd ex_t = Some [(30, 3); (40, 4); (20, 2); (50, 5)] /\ iter_back ex_t = Some [(50, 5); (20, 2); (40, 4); (30, 3)] /\
  walk_back 3 (end_prev ex_t) (order ex_t) (pos_at Z (order ex_t) 2) = Some [(40, 4); (30, 3)] /\
  iter_back (new_table (K:=Z) 0 7) = Some [] /\ iter_back (clear 0 ex_t) = Some [].
Proof. vm_compute. split; [|split; [|split; [|split]]]; reflexivity. Qed.

(* the invariant is what makes it true: with endItem.prev not designating the last item the walk skips the tail,
   with a null endItem.prev on a non-empty list it dereferences a null pointer, with two live items sharing a slot
   it takes the wrong turn *)
Definition ex_bad_endprev : table Z :=
  mktable (cap ex_t) (has_data ex_t) (buckets ex_t) (order ex_t) (size ex_t) (free ex_t) (nblocks ex_t) (Some (0, 1)) 0%nat.
Definition ex_null_endprev : table Z :=
  mktable (cap ex_t) (has_data ex_t) (buckets ex_t) (order ex_t) (size ex_t) (free ex_t) (nblocks ex_t) None 0%nat.
Definition ex_shared_slot : table Z :=
  mktable 7 true (buckets ex_t) [mknode 30 3 (0, 0); mknode 40 4 (0, 1); mknode 20 2 (0, 0); mknode 50 5 (0, 2)] 4 [] 1 (Some (0, 2)) 0%nat.
Example ex_iter_needs_invariant :
  map nslot (order ex_t) = [(0, 2); (0, 1); (0, 3); (1, 0)] /\
  iter_back ex_bad_endprev = Some [(40, 4); (30, 3)] /\ iter_back ex_null_endprev = None /\
  iter_back ex_shared_slot = Some [(50, 5); (30, 3)].
Proof. vm_compute. split; [|split; [|split]]; reflexivity. Qed.

(* the per-type hash functions: (usize)v is the value modulo 2^64 - sign extension for the signed types *)
Example ex_hash_cast :
  hash_int8 (-1) = 18446744073709551615 /\ hash_uint8 255 = 255 /\ hash_int16 (-32768) = 18446744073709518848 /\
  hash_uint16 65535 = 65535 /\ hash_uint64 18446744073709551615 = 18446744073709551615 /\ hash_int64 (-2) = 18446744073709551614 /\
  wrap_int8 255 = -1 /\ wrap_int16 32768 = -32768 /\ wrap_uint64 (-1) = 18446744073709551615 /\
  bidx hash_int8 (new_table 0 7) (-1) = 1%nat /\ bidx hash_uint8 (new_table 0 7) 255 = 3%nat.
Proof. vm_compute. repeat split; reflexivity. Qed.
