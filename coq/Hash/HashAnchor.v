(* The end sentinel of the insertion-order list (HashMap.hpp: member endItem, _end = &endItem).
   Every container object owns one sentinel; the list of variable x must run into the sentinel of x
   (otherwise iteration from begin() never meets end()).  The model records the sentinel a list runs
   into as [end_owner]; it is set by the constructors, by clear() and by each half of swap() (which
   re-anchors the list it takes over: endItem.prev->next = &endItem / _begin.item = &endItem), and is
   left alone by everything else.  Here: in every reachable state variable x is anchored on sentinel x,
   and the swap step exchanges the two sequences (stated explicitly, not through step_refines). *)
From Coq Require Import ZArith List Bool Arith Lia.
From Common Require Import ListAux.
From Hash Require Import HashBase HashSpec HashModel HashProofs HashRefine.
Import ListNotations.
Local Open Scope Z_scope.

Section Anchor.
Variable K : Type.
Variable keqb : K -> K -> bool.
Variable hash : K -> Z.

Notation table := (table K).
Local Notation step := (HashModel.step keqb hash).
Local Notation insert := (HashModel.insert keqb hash).
Local Notation find_node := (HashModel.find_node keqb hash).
Local Notation remove_at := (HashModel.remove_at keqb hash).
Local Notation remove_key := (HashModel.remove_key keqb hash).

Definition anchored (st : list table) : Prop := forall x t, nth_error st x = Some t -> end_owner t = x.

Lemma owner_insert kd t pos k v : end_owner (fst (insert kd t pos k v)) = end_owner t.
Proof.
  unfold HashModel.insert. destruct (find_node t k) as [[r n]|].
  - destruct kd; reflexivity.
  - destruct (alloc kd (free t) (nblocks t)) as [[s fr] nb]. reflexivity.
Qed.

Lemma owner_remove_at t r : end_owner (remove_at t r) = end_owner t.
Proof. unfold HashModel.remove_at. destruct (nth_error (order t) r); reflexivity. Qed.

Lemma owner_remove_key t k : end_owner (remove_key t k) = end_owner t.
Proof. unfold HashModel.remove_key. destruct (find_node t k) as [[r n]|]; [apply owner_remove_at | reflexivity]. Qed.

Lemma owner_append_all kd l : forall t, end_owner (append_all keqb hash kd t l) = end_owner t.
Proof.
  induction l as [|n l IH]; intros t; cbn [append_all fold_left]; [reflexivity|].
  unfold append_all in IH. rewrite IH. apply owner_insert.
Qed.

Lemma owner_remove_all l : forall t, end_owner (remove_all keqb hash t l) = end_owner t.
Proof.
  induction l as [|n l IH]; intros t; cbn [remove_all fold_left]; [reflexivity|].
  unfold remove_all in IH. rewrite IH. apply owner_remove_key.
Qed.

Lemma anchored_upd st x t : anchored st -> end_owner t = x -> anchored (upd x t st).
Proof.
  intros Ha Ht y t' Hy. destruct (Nat.eq_dec x y) as [->|Hne].
  - destruct (Nat.lt_ge_cases y (length st)) as [Hlt|Hge].
    + rewrite nth_error_upd_same in Hy by exact Hlt. injection Hy as Heq. rewrite <- Heq. exact Ht.
    + rewrite upd_oob in Hy by exact Hge. apply Ha. exact Hy.
  - rewrite nth_error_upd_other in Hy by exact Hne. apply Ha. exact Hy.
Qed.

Lemma with_var_anchored st x f :
  anchored st -> (forall t, end_owner t = x -> end_owner (fst (f t)) = x) -> anchored (fst (with_var st x f)).
Proof.
  intros Ha Hf. unfold with_var. destruct (nth_error st x) as [t|] eqn:E; cbn [fst]; auto.
  specialize (Hf t (Ha x t E)). destruct (f t) as [t' r]. cbn [fst] in *. apply anchored_upd; auto.
Qed.

Lemma with_2_anchored st x y f :
  anchored st ->
  (forall a b, nth_error st x = Some a -> nth_error st y = Some b -> anchored (fst (f a b))) ->
  anchored (fst (with_2 st x y f)).
Proof.
  intros Ha Hf. unfold with_2.
  destruct (nth_error st x) as [a|] eqn:Ea; cbn [fst]; auto.
  destruct (nth_error st y) as [b|] eqn:Eb; cbn [fst]; auto.
Qed.

Theorem anchored_step kd st o : anchored st -> anchored (fst (step kd st o)).
Proof.
  intros Ha. unfold HashModel.step. destruct (op_allowed kd o); cbn [negb]; [|cbn [fst]; auto].
  destruct o as [x c|x|x k|x k|x pos k v|x k v|x k v|x k|x r|x r|x|x|x|x y|x|x|x y|x y|x y|x y|x y|x k v|x|x].
  - destruct (c <? 0); [cbn [fst]; auto|]. apply with_var_anchored; auto.
  - apply with_var_anchored; auto.
  - apply with_var_anchored; auto.
  - apply with_var_anchored; auto.
  - apply with_var_anchored; auto. intros t Ht. destruct (Z.of_nat pos <=? size t); auto.
    pose proof (owner_insert kd t pos k v) as E. destruct (insert kd t pos k v). cbn [fst] in *. congruence.
  - apply with_var_anchored; auto. intros t Ht.
    pose proof (owner_insert kd t (length (order t)) k v) as E. destruct (insert kd t (length (order t)) k v). cbn [fst] in *. congruence.
  - apply with_var_anchored; auto. intros t Ht.
    pose proof (owner_insert kd t O k v) as E. destruct (insert kd t O k v). cbn [fst] in *. congruence.
  - apply with_var_anchored; auto. intros t Ht. cbn [fst]. rewrite owner_remove_key. exact Ht.
  - apply with_var_anchored; auto. intros t Ht. destruct (Z.of_nat r <? size t); cbn [fst]; auto. rewrite owner_remove_at. exact Ht.
  - apply with_var_anchored; auto. intros t Ht. destruct (Z.of_nat r <? size t); cbn [fst]; auto. rewrite owner_remove_at. exact Ht.
  - apply with_var_anchored; auto. intros t Ht. destruct (is_nil (order t)); cbn [fst]; auto. rewrite owner_remove_at. exact Ht.
  - apply with_var_anchored; auto. intros t Ht. destruct (is_nil (order t)); cbn [fst]; auto. rewrite owner_remove_at. exact Ht.
  - apply with_var_anchored; auto.
  - (* OSwap: both halves re-anchor on their own sentinel *)
    apply with_2_anchored; auto. intros a b Ea Eb. cbn [fst].
    apply anchored_upd; [apply anchored_upd; auto|]; unfold take; destruct (end_prev _); reflexivity.
  - apply with_var_anchored; auto. intros t Ht. destruct (order t); auto.
  - apply with_var_anchored; auto. intros t Ht. destruct (rev (order t)); auto.
  - apply with_2_anchored; auto. intros a b Ea Eb. cbn [fst]. apply anchored_upd; auto. apply owner_append_all.
  - apply with_2_anchored; auto. intros a b Ea Eb. destruct (x =? y)%nat; cbn [fst]; auto.
    apply anchored_upd; auto. apply owner_append_all.
  - apply with_2_anchored; auto.
  - apply with_2_anchored; auto. intros a b Ea Eb. cbn [fst]. apply anchored_upd; auto.
    rewrite owner_append_all. apply Ha. exact Ea.
  - apply with_2_anchored; auto. intros a b Ea Eb. cbn [fst]. apply anchored_upd; auto.
    rewrite owner_remove_all. apply Ha. exact Ea.
  - apply with_var_anchored; auto. intros t Ht. destruct (find_node t k) as [[r n]|]; cbn [fst]; auto.
  - apply with_var_anchored; auto.
  - apply with_var_anchored; auto.
Qed.

Lemma init_from_owner (cs : list Z) : forall i x (t : table), nth_error (init_from i cs) x = Some t -> end_owner t = (i + x)%nat.
Proof.
  induction cs as [|c rest IH]; intros i [|x] t H; cbn [init_from nth_error] in H; try discriminate.
  - inversion H; subst. cbn [new_table end_owner]. lia.
  - apply IH in H. lia.
Qed.

Lemma anchored_start caps : anchored (start K caps).
Proof. intros x t H. unfold start, init in H. apply init_from_owner in H. exact H. Qed.

Theorem anchored_reachable kd caps ops : anchored (states K keqb hash kd (start K caps) ops).
Proof.
  generalize (anchored_start caps). generalize (start K caps).
  induction ops as [|o rest IH]; intros st Hst; cbn [states]; auto. apply IH. apply anchored_step. exact Hst.
Qed.

(* ---- swap, stated on its own ------------------------------------------------------------------------ *)
(* a.swap(b) on two variables that satisfy the invariant: afterwards x holds b's sequence and y holds a's,
   every other variable is untouched, the invariant holds again, both lists are anchored on the sentinel
   of the variable they now live in, and the capacities / bucket arrays / free lists went along *)
Theorem swap_refines kd st x y a b :
  state_ok K hash st -> nth_error st x = Some a -> nth_error st y = Some b ->
  let st' := fst (step kd st (OSwap x y)) in
  state_ok K hash st' /\
  abs_st K st' = upd y (abs K a) (upd x (abs K b) (abs_st K st)) /\
  (forall t, nth_error st' y = Some t -> end_owner t = y /\ cap t = cap a /\ buckets t = buckets a /\ free t = free a /\ nblocks t = nblocks a) /\
  (x <> y -> forall t, nth_error st' x = Some t -> end_owner t = x /\ cap t = cap b /\ buckets t = buckets b /\ free t = free b /\ nblocks t = nblocks b).
Proof.
  intros Hst Ea Eb st'. subst st'. unfold HashModel.step. cbn [op_allowed negb]. unfold with_2. rewrite Ea, Eb. cbn [fst].
  assert (Ha : chains_ok K hash a) by (eapply state_ok_nth; eauto).
  assert (Hb : chains_ok K hash b) by (eapply state_ok_nth; eauto).
  destruct (take_refines K hash x b Hb) as [Hb1 [Hb2 Hb3]]. destruct (take_refines K hash y a Ha) as [Ha1 [Ha2 Ha3]].
  assert (Hx : (x < length st)%nat) by (apply nth_error_Some; congruence).
  assert (Hy : (y < length st)%nat) by (apply nth_error_Some; congruence).
  assert (Hfields : forall z (t : table), cap (take z t) = cap t /\ buckets (take z t) = buckets t /\ free (take z t) = free t /\ nblocks (take z t) = nblocks t).
  { intros z t. unfold take. destruct (end_prev t); cbn [cap buckets free nblocks]; auto. }
  split; [apply state_ok_upd; auto; apply state_ok_upd; auto|].
  split; [rewrite !abs_st_upd, Ha2, Hb2; reflexivity|].
  split.
  - intros t Ht. rewrite nth_error_upd_same in Ht by (rewrite upd_length; exact Hy). inversion Ht; subst.
    split; [exact Ha3 | apply Hfields].
  - intros Hne t Ht. rewrite nth_error_upd_other in Ht by (intros E; apply Hne; symmetry; exact E).
    rewrite nth_error_upd_same in Ht by exact Hx. inversion Ht; subst. split; [exact Hb3 | apply Hfields].
Qed.
End Anchor.
