(* Refinement of the multi-variable machine: every step of the model commutes with the step of
   the reference ordered maps under the abstraction [abs] (iteration order as key:value list),
   the invariant chains_ok is preserved, hence all observations of every history agree. *)
From Coq Require Import ZArith List Bool Arith Lia.
From Common Require Import ListAux.
From Hash Require Import HashBase HashSpec HashModel HashProofs.
Import ListNotations.
Local Open Scope Z_scope.

Section Refine.
Variable K : Type.
Variable keqb : K -> K -> bool.
Variable hash : K -> Z.
Hypothesis keqb_spec : forall a b, keqb a b = true <-> a = b.

Notation table := (table K).
Notation omap := (list (K * Z)).
Notation chains_ok := (chains_ok K hash).
Notation abs := (abs K).
Local Notation step := (HashModel.step keqb hash).
Local Notation run := (HashModel.run keqb hash).
Local Notation insert := (HashModel.insert keqb hash).
Local Notation find_node := (HashModel.find_node keqb hash).
Local Notation remove_at := (HashModel.remove_at keqb hash).

Definition state_ok (st : list table) : Prop := Forall chains_ok st.
Definition abs_st (st : list table) : list omap := map abs st.

Definition commutes (f : table -> table * res K) (g : omap -> omap * res K) : Prop :=
  forall t, chains_ok t -> chains_ok (fst (f t)) /\ g (abs t) = (abs (fst (f t)), snd (f t)).

Lemma state_ok_nth st x t : state_ok st -> nth_error st x = Some t -> chains_ok t.
Proof. intros H E. apply nth_error_In in E. revert E. apply Forall_forall. exact H. Qed.

Lemma with_var_refines st x f g :
  state_ok st -> commutes f g ->
  state_ok (fst (with_var st x f)) /\
  s_with (abs_st st) x g = (abs_st (fst (with_var st x f)), snd (with_var st x f)).
Proof.
  intros Hst Hc. unfold with_var, s_with, abs_st. rewrite nth_error_map'.
  destruct (nth_error st x) as [t|] eqn:E; simpl; auto.
  destruct (Hc t (state_ok_nth st x t Hst E)) as [H1 H2].
  rewrite H2. destruct (f t) as [t' r]; simpl in *.
  split; [apply Forall_upd; auto | rewrite map_upd; reflexivity].
Qed.

Lemma with_2_refines st x y f g :
  state_ok st ->
  (forall a b, nth_error st x = Some a -> nth_error st y = Some b -> chains_ok a -> chains_ok b ->
     state_ok (fst (f a b)) /\ g (abs a) (abs b) = (abs_st (fst (f a b)), snd (f a b))) ->
  state_ok (fst (with_2 st x y f)) /\
  s_with2 (abs_st st) x y g = (abs_st (fst (with_2 st x y f)), snd (with_2 st x y f)).
Proof.
  intros Hst Hc. unfold with_2, s_with2, abs_st. rewrite !nth_error_map'.
  destruct (nth_error st x) as [a|] eqn:Ea; simpl; auto.
  destruct (nth_error st y) as [b|] eqn:Eb; simpl; auto.
  apply Hc; auto; eapply state_ok_nth; eauto.
Qed.

(* ---- single-variable operations ---------------------------------------------------------- *)
Lemma c_new c : 0 <= c -> commutes (fun _ => (new_table (ctor_cap c), RNone)) (fun _ => ([], RNone)).
Proof.
  intros Hc t _. simpl. split; auto. apply new_table_ok. unfold ctor_cap. destruct (Z.eqb_spec c 0); lia.
Qed.

Lemma c_newd : commutes (fun _ => (new_table default_capacity, RNone)) (fun _ => ([], RNone)).
Proof. intros t _. simpl. split; auto. apply new_table_ok. unfold default_capacity. lia. Qed.

Lemma c_find k : commutes (fun t => (t, RIter (it_of (find_node t k)))) (fun l => (l, RIter (s_find keqb l k))).
Proof. intros t Hok. simpl. split; auto. rewrite (find_refines K keqb hash keqb_spec) by auto. reflexivity. Qed.

Lemma c_contains k :
  commutes (fun t => (t, RBool (match find_node t k with Some _ => true | None => false end)))
           (fun l => (l, RBool (s_has keqb l k))).
Proof. intros t Hok. simpl. split; auto. rewrite (contains_refines K keqb hash keqb_spec) by auto. reflexivity. Qed.

Lemma abs_length t : length (abs t) = length (order t).
Proof. unfold HashProofs.abs. apply map_length. Qed.

Lemma c_insert kd pos k v :
  commutes (fun t => if Z.of_nat pos <=? size t
                     then let (t', it) := insert kd t pos k v in (t', RIter it) else (t, RPre))
           (fun l => if (pos <=? length l)%nat
                     then let l' := s_put keqb kd l pos k v in (l', RIter (s_find keqb l' k)) else (l, RPre)).
Proof.
  intros t Hok. rewrite abs_length. rewrite (ok_size K hash t Hok).
  destruct (Nat.leb_spec pos (length (order t))) as [Hp|Hp];
    destruct (Z.leb_spec (Z.of_nat pos) (Z.of_nat (length (order t)))) as [Hz|Hz]; try lia; simpl; auto.
  destruct (insert_refines K keqb hash keqb_spec kd t pos k v Hok Hp) as [H1 [H2 H3]].
  destruct (insert kd t pos k v) as [t' it]; simpl in *. split; auto. rewrite <- H2, <- H3. reflexivity.
Qed.

Lemma value_res_eq kd (it : iter K) (l : omap) k : it = s_find keqb l k -> value_res kd it = s_value_res keqb kd l k.
Proof. intros ->. reflexivity. Qed.

Lemma c_append kd k v :
  commutes (fun t => let (t', it) := insert kd t (length (order t)) k v in (t', value_res kd it))
           (fun l => let l' := s_put keqb kd l (length l) k v in (l', s_value_res keqb kd l' k)).
Proof.
  intros t Hok. rewrite abs_length.
  destruct (insert_refines K keqb hash keqb_spec kd t (length (order t)) k v Hok (le_n _)) as [H1 [H2 H3]].
  destruct (insert kd t (length (order t)) k v) as [t' it]; simpl in *. split; auto.
  rewrite <- H2. rewrite (value_res_eq kd it (abs t') k H3). reflexivity.
Qed.

Lemma c_prepend kd k v :
  commutes (fun t => let (t', it) := insert kd t O k v in (t', value_res kd it))
           (fun l => let l' := s_put keqb kd l O k v in (l', s_value_res keqb kd l' k)).
Proof.
  intros t Hok.
  destruct (insert_refines K keqb hash keqb_spec kd t O k v Hok (Nat.le_0_l _)) as [H1 [H2 H3]].
  destruct (insert kd t O k v) as [t' it]; simpl in *. split; auto.
  rewrite <- H2. rewrite (value_res_eq kd it (abs t') k H3). reflexivity.
Qed.

Lemma c_remove_key k :
  commutes (fun t => (remove_key keqb hash t k, RNone)) (fun l => (s_remove_key keqb l k, RNone)).
Proof.
  intros t Hok. simpl. destruct (remove_key_refines K keqb hash keqb_spec t k Hok) as [H1 H2].
  split; auto. rewrite H2. reflexivity.
Qed.

Lemma c_remove_at r :
  commutes (fun t => if Z.of_nat r <? size t
                     then let t' := remove_at t r in (t', RIter (iter_at t' r)) else (t, RPre))
           (fun l => if (r <? length l)%nat
                     then let l' := remove_nth r l in (l', RIter (s_iter l' r)) else (l, RPre)).
Proof.
  intros t Hok. rewrite abs_length. rewrite (ok_size K hash t Hok).
  destruct (Nat.ltb_spec r (length (order t))) as [Hp|Hp];
    destruct (Z.ltb_spec (Z.of_nat r) (Z.of_nat (length (order t)))) as [Hz|Hz]; try lia; simpl; auto.
  destruct (remove_at_refines K keqb hash keqb_spec t r Hok Hp) as [H1 H2]. split; auto.
  rewrite iter_at_refines, H2. reflexivity.
Qed.

Lemma c_remove_val r :
  commutes (fun t => if Z.of_nat r <? size t then (remove_at t r, RNone) else (t, RPre))
           (fun l => if (r <? length l)%nat then (remove_nth r l, RNone) else (l, RPre)).
Proof.
  intros t Hok. rewrite abs_length. rewrite (ok_size K hash t Hok).
  destruct (Nat.ltb_spec r (length (order t))) as [Hp|Hp];
    destruct (Z.ltb_spec (Z.of_nat r) (Z.of_nat (length (order t)))) as [Hz|Hz]; try lia; simpl; auto.
  destruct (remove_at_refines K keqb hash keqb_spec t r Hok Hp) as [H1 H2]. split; auto.
  rewrite H2. reflexivity.
Qed.

Lemma c_remove_front :
  commutes (fun t => if is_nil (order t) then (t, RPre)
                     else let t' := remove_at t O in (t', RIter (iter_at t' O)))
           (fun l => match l with [] => (l, RPre) | _ :: tl => (tl, RIter (s_iter tl O)) end).
Proof.
  intros t Hok. destruct (order t) as [|n rest] eqn:Eo.
  - simpl. unfold HashProofs.abs. rewrite Eo. simpl. auto.
  - assert (Hp : (0 < length (order t))%nat) by (rewrite Eo; simpl; lia).
    destruct (remove_at_refines K keqb hash keqb_spec t O Hok Hp) as [H1 H2].
    cbn [is_nil fst snd]. split; auto. rewrite iter_at_refines, H2.
    unfold HashProofs.abs. rewrite Eo. reflexivity.
Qed.

Lemma remove_back_core t : chains_ok t -> order t <> [] ->
  let r := pred (length (order t)) in
  chains_ok (remove_at t r) /\ abs (remove_at t r) = removelast (abs t) /\ iter_at (remove_at t r) r = None.
Proof.
  intros Hok Hne r.
  assert (Hp : (r < length (order t))%nat) by (unfold r; destruct (order t); [congruence | simpl; lia]).
  destruct (remove_at_refines K keqb hash keqb_spec t r Hok Hp) as [H1 H2].
  assert (Hne' : abs t <> []) by (unfold HashProofs.abs; destruct (order t); [congruence | discriminate]).
  assert (Hr : r = pred (length (abs t))) by (rewrite abs_length; reflexivity).
  split; auto. rewrite iter_at_refines, H2, Hr. rewrite (remove_nth_last (abs t) Hne'). split; auto.
  unfold s_iter.
  assert (Hnone : nth_error (removelast (abs t)) (pred (length (abs t))) = None).
  { apply nth_error_None. destruct (exists_last Hne') as [l' [a El]]. rewrite El.
    rewrite removelast_last, app_length. simpl. lia. }
  rewrite Hnone. reflexivity.
Qed.

Lemma c_remove_back :
  commutes (fun t => if is_nil (order t) then (t, RPre)
                     else let r := pred (length (order t)) in
                          let t' := remove_at t r in (t', RIter (iter_at t' r)))
           (fun l => match l with [] => (l, RPre) | _ => (removelast l, RIter None) end).
Proof.
  intros t Hok.
  assert (Hnil : is_nil (order t) = is_nil (abs t)) by (unfold HashProofs.abs; destruct (order t); reflexivity).
  destruct (is_nil (order t)) eqn:En.
  - destruct (abs t) eqn:Ea; simpl in Hnil; try discriminate. simpl. rewrite Ea. auto.
  - assert (Hne : order t <> []) by (intros E; rewrite E in En; discriminate).
    destruct (remove_back_core t Hok Hne) as [H1 [H2 H3]]. cbn [fst snd]. split; auto.
    rewrite H2, H3. destruct (abs t); [discriminate|reflexivity].
Qed.

Lemma c_clear : commutes (fun t => (clear t, RNone)) (fun _ => ([], RNone)).
Proof. intros t Hok. simpl. destruct (clear_refines K hash t Hok) as [H1 H2]. split; auto. rewrite H2. reflexivity. Qed.

Lemma node_res_eq kd (n : node K) : node_res kd n = s_entry_res kd (ent K n).
Proof. destruct kd; reflexivity. Qed.

Lemma c_front kd :
  commutes (fun t => match order t with [] => (t, RPre) | n :: _ => (t, node_res kd n) end)
           (fun l => match l with [] => (l, RPre) | e :: _ => (l, s_entry_res kd e) end).
Proof.
  intros t Hok. unfold HashProofs.abs. destruct (order t) as [|n rest]; simpl; auto.
  split; auto. rewrite node_res_eq. reflexivity.
Qed.

Lemma c_back kd :
  commutes (fun t => match rev (order t) with [] => (t, RPre) | n :: _ => (t, node_res kd n) end)
           (fun l => match rev l with [] => (l, RPre) | e :: _ => (l, s_entry_res kd e) end).
Proof.
  intros t Hok. unfold HashProofs.abs. rewrite <- map_rev. destruct (rev (order t)) as [|n rest]; simpl; auto.
  split; auto. rewrite node_res_eq. reflexivity.
Qed.

Lemma c_setval k v :
  commutes (fun t => match find_node t k with
                     | Some (r, n) => (set_order t (upd r (mknode (nkey n) v (nslot n)) (order t)),
                                       RIter (Some (r, nkey n, v)))
                     | None => (t, RIter None)
                     end)
           (fun l => if s_has keqb l k then let l' := s_set keqb l k v in (l', RIter (s_find keqb l' k))
                     else (l, RIter None)).
Proof.
  intros t Hok.
  pose proof (insert_refines K keqb hash keqb_spec KMap t O k v Hok (Nat.le_0_l _)) as [H1 [H2 H3]].
  pose proof (contains_refines K keqb hash keqb_spec t k Hok) as Hc.
  unfold HashModel.insert in *. unfold s_put in H2. rewrite <- Hc in *.
  destruct (find_node t k) as [[r n]|]; simpl in *; auto.
  split; auto. rewrite <- H2, <- H3. reflexivity.
Qed.
End Refine.
