(* Refinement of the multi-variable machine: every step of the model commutes with the step of
   the reference ordered maps under the abstraction [abs] (iteration order as key:value list),
   the invariant chains_ok is preserved, hence all observations of every history agree. *)
From Coq Require Import ZArith List Bool Arith Lia.
From Common Require Import ListAux.
From Hash Require Import HashBase HashSpec HashModel HashProofs.
Import ListNotations.
Local Open Scope Z_scope.

Section Refine.
Variable K : Type.
Variable keqb : K -> K -> bool.
Variable hash : K -> Z.
Hypothesis keqb_spec : forall a b, keqb a b = true <-> a = b.

Notation table := (table K).
Notation omap := (list (K * Z)).
Notation chains_ok := (chains_ok K hash).
Notation abs := (abs K).
Notation slots_nodup := (slots_nodup K).
Local Notation step := (HashModel.step keqb hash).
Local Notation run := (HashModel.run keqb hash).
Local Notation insert := (HashModel.insert keqb hash).
Local Notation find_node := (HashModel.find_node keqb hash).
Local Notation remove_at := (HashModel.remove_at keqb hash).

Definition state_ok (st : list table) : Prop := Forall chains_ok st.
Definition abs_st (st : list table) : list omap := map abs st.

Definition commutes (f : table -> table * res K) (g : omap -> omap * res K) : Prop :=
  forall t, chains_ok t -> chains_ok (fst (f t)) /\ g (abs t) = (abs (fst (f t)), snd (f t)).

Lemma state_ok_nth st x t : state_ok st -> nth_error st x = Some t -> chains_ok t.
Proof. intros H E. apply nth_error_In in E. revert E. apply Forall_forall. exact H. Qed.

Lemma with_var_refines st x f g :
  state_ok st -> commutes f g ->
  state_ok (fst (with_var st x f)) /\
  s_with (abs_st st) x g = (abs_st (fst (with_var st x f)), snd (with_var st x f)).
Proof.
  intros Hst Hc. unfold with_var, s_with, abs_st. rewrite nth_error_map'.
  destruct (nth_error st x) as [t|] eqn:E; simpl; auto.
  destruct (Hc t (state_ok_nth st x t Hst E)) as [H1 H2].
  rewrite H2. destruct (f t) as [t' r]; simpl in *.
  split; [apply Forall_upd; auto | rewrite map_upd; reflexivity].
Qed.

Lemma with_2_refines st x y f g :
  state_ok st ->
  (forall a b, nth_error st x = Some a -> nth_error st y = Some b -> chains_ok a -> chains_ok b ->
     state_ok (fst (f a b)) /\ g (abs a) (abs b) = (abs_st (fst (f a b)), snd (f a b))) ->
  state_ok (fst (with_2 st x y f)) /\
  s_with2 (abs_st st) x y g = (abs_st (fst (with_2 st x y f)), snd (with_2 st x y f)).
Proof.
  intros Hst Hc. unfold with_2, s_with2, abs_st. rewrite !nth_error_map'.
  destruct (nth_error st x) as [a|] eqn:Ea; simpl; auto.
  destruct (nth_error st y) as [b|] eqn:Eb; simpl; auto.
  apply Hc; auto; eapply state_ok_nth; eauto.
Qed.

(* ---- single-variable operations ---------------------------------------------------------- *)
Lemma c_new x c : 0 <= c -> commutes (fun _ => (new_table x (ctor_cap c), RNone)) (fun _ => ([], RNone)).
Proof.
  intros Hc t _. simpl. split; auto. apply new_table_ok. unfold ctor_cap. destruct (Z.eqb_spec c 0); lia.
Qed.

Lemma c_newd x : commutes (fun _ => (new_table x default_capacity, RNone)) (fun _ => ([], RNone)).
Proof. intros t _. simpl. split; auto. apply new_table_ok. unfold default_capacity, Gen_Hash.gen_default_capacity. lia. Qed.

Lemma c_find k : commutes (fun t => (t, RIter (it_of (find_node t k)))) (fun l => (l, RIter (s_find keqb l k))).
Proof. intros t Hok. simpl. split; auto. rewrite (find_refines K keqb hash keqb_spec) by auto. reflexivity. Qed.

Lemma c_contains k :
  commutes (fun t => (t, RBool (match find_node t k with Some _ => true | None => false end)))
           (fun l => (l, RBool (s_has keqb l k))).
Proof. intros t Hok. simpl. split; auto. rewrite (contains_refines K keqb hash keqb_spec) by auto. reflexivity. Qed.

Lemma abs_length t : length (abs t) = length (order t).
Proof. unfold HashProofs.abs. apply map_length. Qed.

Lemma c_insert kd pos k v :
  commutes (fun t => if Z.of_nat pos <=? size t
                     then let (t', it) := insert kd t pos k v in (t', RIter it) else (t, RPre))
           (fun l => if (pos <=? length l)%nat
                     then let l' := s_put keqb kd l pos k v in (l', RIter (s_find keqb l' k)) else (l, RPre)).
Proof.
  intros t Hok. rewrite abs_length. rewrite (ok_size K hash t Hok).
  destruct (Nat.leb_spec pos (length (order t))) as [Hp|Hp];
    destruct (Z.leb_spec (Z.of_nat pos) (Z.of_nat (length (order t)))) as [Hz|Hz]; try lia; simpl; auto.
  destruct (insert_refines K keqb hash keqb_spec kd t pos k v Hok Hp) as [H1 [H2 H3]].
  destruct (insert kd t pos k v) as [t' it]; simpl in *. split; auto. rewrite <- H2, <- H3. reflexivity.
Qed.

Lemma value_res_eq kd (it : iter K) (l : omap) k : it = s_find keqb l k -> value_res kd it = s_value_res keqb kd l k.
Proof. intros ->. reflexivity. Qed.

Lemma c_append kd k v :
  commutes (fun t => let (t', it) := insert kd t (length (order t)) k v in (t', value_res kd it))
           (fun l => let l' := s_put keqb kd l (length l) k v in (l', s_value_res keqb kd l' k)).
Proof.
  intros t Hok. rewrite abs_length.
  destruct (insert_refines K keqb hash keqb_spec kd t (length (order t)) k v Hok (le_n _)) as [H1 [H2 H3]].
  destruct (insert kd t (length (order t)) k v) as [t' it]; simpl in *. split; auto.
  rewrite <- H2. rewrite (value_res_eq kd it (abs t') k H3). reflexivity.
Qed.

Lemma c_prepend kd k v :
  commutes (fun t => let (t', it) := insert kd t O k v in (t', value_res kd it))
           (fun l => let l' := s_put keqb kd l O k v in (l', s_value_res keqb kd l' k)).
Proof.
  intros t Hok.
  destruct (insert_refines K keqb hash keqb_spec kd t O k v Hok (Nat.le_0_l _)) as [H1 [H2 H3]].
  destruct (insert kd t O k v) as [t' it]; simpl in *. split; auto.
  rewrite <- H2. rewrite (value_res_eq kd it (abs t') k H3). reflexivity.
Qed.

Lemma c_remove_key k :
  commutes (fun t => (remove_key keqb hash t k, RNone)) (fun l => (s_remove_key keqb l k, RNone)).
Proof.
  intros t Hok. simpl. destruct (remove_key_refines K keqb hash keqb_spec t k Hok) as [H1 H2].
  split; auto. rewrite H2. reflexivity.
Qed.

Lemma c_remove_at r :
  commutes (fun t => if Z.of_nat r <? size t
                     then let t' := remove_at t r in (t', RIter (iter_at t' r)) else (t, RPre))
           (fun l => if (r <? length l)%nat
                     then let l' := remove_nth r l in (l', RIter (s_iter l' r)) else (l, RPre)).
Proof.
  intros t Hok. rewrite abs_length. rewrite (ok_size K hash t Hok).
  destruct (Nat.ltb_spec r (length (order t))) as [Hp|Hp];
    destruct (Z.ltb_spec (Z.of_nat r) (Z.of_nat (length (order t)))) as [Hz|Hz]; try lia; simpl; auto.
  destruct (remove_at_refines K keqb hash keqb_spec t r Hok Hp) as [H1 H2]. split; auto.
  rewrite iter_at_refines, H2. reflexivity.
Qed.

Lemma c_remove_val r :
  commutes (fun t => if Z.of_nat r <? size t then (remove_at t r, RNone) else (t, RPre))
           (fun l => if (r <? length l)%nat then (remove_nth r l, RNone) else (l, RPre)).
Proof.
  intros t Hok. rewrite abs_length. rewrite (ok_size K hash t Hok).
  destruct (Nat.ltb_spec r (length (order t))) as [Hp|Hp];
    destruct (Z.ltb_spec (Z.of_nat r) (Z.of_nat (length (order t)))) as [Hz|Hz]; try lia; simpl; auto.
  destruct (remove_at_refines K keqb hash keqb_spec t r Hok Hp) as [H1 H2]. split; auto.
  rewrite H2. reflexivity.
Qed.

Lemma c_remove_front :
  commutes (fun t => if is_nil (order t) then (t, RPre)
                     else let t' := remove_at t O in (t', RIter (iter_at t' O)))
           (fun l => match l with [] => (l, RPre) | _ :: tl => (tl, RIter (s_iter tl O)) end).
Proof.
  intros t Hok. destruct (order t) as [|n rest] eqn:Eo.
  - simpl. unfold HashProofs.abs. rewrite Eo. simpl. auto.
  - assert (Hp : (0 < length (order t))%nat) by (rewrite Eo; simpl; lia).
    destruct (remove_at_refines K keqb hash keqb_spec t O Hok Hp) as [H1 H2].
    cbn [is_nil fst snd]. split; auto. rewrite iter_at_refines, H2.
    unfold HashProofs.abs. rewrite Eo. reflexivity.
Qed.

Lemma remove_back_core t : chains_ok t -> order t <> [] ->
  let r := pred (length (order t)) in
  chains_ok (remove_at t r) /\ abs (remove_at t r) = removelast (abs t) /\ iter_at (remove_at t r) r = None.
Proof.
  intros Hok Hne r.
  assert (Hp : (r < length (order t))%nat) by (unfold r; destruct (order t); [congruence | simpl; lia]).
  destruct (remove_at_refines K keqb hash keqb_spec t r Hok Hp) as [H1 H2].
  assert (Hne' : abs t <> []) by (unfold HashProofs.abs; destruct (order t); [congruence | discriminate]).
  assert (Hr : r = pred (length (abs t))) by (rewrite abs_length; reflexivity).
  assert (Hrl : remove_nth r (abs t) = removelast (abs t)) by (rewrite Hr; apply remove_nth_last; exact Hne').
  split; [exact H1|]. split; [rewrite H2; exact Hrl|].
  rewrite iter_at_refines, H2, Hrl. unfold s_iter, entry.
  match goal with |- context [nth_error ?l ?i] => assert (Hnone : nth_error l i = None) end.
  { apply nth_error_None. rewrite Hr. destruct (exists_last Hne') as [l' [a El]]. rewrite El.
    rewrite removelast_last, app_length. simpl. lia. }
  rewrite Hnone. reflexivity.
Qed.

Lemma c_remove_back :
  commutes (fun t => if is_nil (order t) then (t, RPre)
                     else let r := pred (length (order t)) in
                          let t' := remove_at t r in (t', RIter (iter_at t' r)))
           (fun l => match l with [] => (l, RPre) | _ => (removelast l, RIter None) end).
Proof.
  intros t Hok.
  assert (Hnil : is_nil (order t) = is_nil (abs t)) by (unfold HashProofs.abs; destruct (order t); reflexivity).
  destruct (is_nil (order t)) eqn:En.
  - destruct (abs t) eqn:Ea; simpl in Hnil; try discriminate. simpl. rewrite Ea. auto.
  - assert (Hne : order t <> []) by (intros E; rewrite E in En; discriminate).
    destruct (remove_back_core t Hok Hne) as [H1 [H2 H3]]. cbn [fst snd]. split; auto.
    rewrite H2, H3. destruct (abs t); [discriminate|reflexivity].
Qed.

Lemma c_clear x : commutes (fun t => (clear x t, RNone)) (fun _ => ([], RNone)).
Proof. intros t Hok. simpl. destruct (clear_refines K hash x t Hok) as [H1 H2]. split; auto. Qed.

Lemma node_res_eq kd (n : node K) : node_res kd n = s_entry_res kd (ent K n).
Proof. destruct kd; reflexivity. Qed.

Lemma c_front kd :
  commutes (fun t => match order t with [] => (t, RPre) | n :: _ => (t, node_res kd n) end)
           (fun l => match l with [] => (l, RPre) | e :: _ => (l, s_entry_res kd e) end).
Proof.
  intros t Hok. unfold HashProofs.abs. cbv beta.
  destruct (order t) as [|n rest] eqn:Eo; cbn [fst snd map]; rewrite ?Eo; cbn [map]; split; auto.
Qed.

Lemma c_back kd :
  commutes (fun t => match rev (order t) with [] => (t, RPre) | n :: _ => (t, node_res kd n) end)
           (fun l => match rev l with [] => (l, RPre) | e :: _ => (l, s_entry_res kd e) end).
Proof.
  intros t Hok. unfold HashProofs.abs. cbv beta. rewrite <- map_rev.
  destruct (rev (order t)) as [|n rest] eqn:Eo; cbn [fst snd map]; split; auto.
Qed.

Lemma c_setval k v :
  commutes (fun t => match find_node t k with
                     | Some (r, n) => (set_order t (upd r (mknode (nkey n) v (nslot n)) (order t)),
                                       RIter (Some (r, nkey n, v)))
                     | None => (t, RIter None)
                     end)
           (fun l => if s_has keqb l k then let l' := s_set keqb l k v in (l', RIter (s_find keqb l' k))
                     else (l, RIter None)).
Proof.
  intros t Hok.
  pose proof (insert_refines K keqb hash keqb_spec KMap t O k v Hok (Nat.le_0_l _)) as [H1 [H2 H3]].
  pose proof (contains_refines K keqb hash keqb_spec t k Hok) as Hc.
  unfold HashModel.insert in *. unfold s_put in H2. rewrite <- Hc in *.
  destruct (find_node t k) as [[r n]|]; simpl in *; auto.
  split; auto. rewrite <- H2, <- H3. reflexivity.
Qed.

(* ---- two-variable operations ---------------------------------------------------------------- *)
Lemma abs_st_upd st x t : abs_st (upd x t st) = upd x (abs t) (abs_st st).
Proof. unfold abs_st. apply map_upd. Qed.

Lemma state_ok_upd st x t : state_ok st -> chains_ok t -> state_ok (upd x t st).
Proof. intros H1 H2. apply Forall_upd; auto. Qed.

Lemma new_default_ok x : chains_ok (new_table x default_capacity).
Proof. apply new_table_ok. unfold default_capacity, Gen_Hash.gen_default_capacity. lia. Qed.

Lemma weaken (A B C : Prop) : A /\ B -> A /\ (C -> B).
Proof. tauto. Qed.

(* The step of the model commutes with the step of the reference.  Every operation but the backward traversal needs
   only the chain/order invariant; the backward traversal identifies items by the pointers it follows and needs,
   in addition, that no two live items of a table share a slot (part of the node-recycling invariant pool_ok). *)
Lemma step_refines_gen kd st o :
  state_ok st ->
  state_ok (fst (step kd st o)) /\
  (Forall slots_nodup st ->
   spec_step keqb kd (abs_st st) o = (abs_st (fst (step kd st o)), snd (step kd st o))).
Proof.
  intros Hst. unfold HashModel.step, spec_step.
  destruct (op_allowed kd o) eqn:Eal; cbn [negb]; [|cbn [fst snd]; auto].
  destruct o as [x c|x|x k|x k|x pos k v|x k v|x k v|x k|x r|x r|x|x|x|x y|x|x|x y|x y|x y|x y|x y|x k v|x|x].
  - apply weaken. (* ONew *) destruct (c <? 0) eqn:Ec; [cbn [fst snd]; auto|].
    apply with_var_refines; auto. apply c_new. apply Z.ltb_ge. exact Ec.
  - apply weaken. apply with_var_refines; auto. apply c_newd.
  - apply weaken. apply with_var_refines; auto. apply c_find.
  - apply weaken. apply with_var_refines; auto. apply c_contains.
  - apply weaken. apply with_var_refines; auto. apply c_insert.
  - apply weaken. apply with_var_refines; auto. apply c_append.
  - apply weaken. apply with_var_refines; auto. apply c_prepend.
  - apply weaken. apply with_var_refines; auto. apply c_remove_key.
  - apply weaken. apply with_var_refines; auto. apply c_remove_at.
  - apply weaken. apply with_var_refines; auto. apply c_remove_val.
  - apply weaken. apply with_var_refines; auto. apply c_remove_front.
  - apply weaken. apply with_var_refines; auto. apply c_remove_back.
  - apply weaken. apply with_var_refines; auto. apply c_clear.
  - apply weaken. (* OSwap: each side takes over the other's fields and re-anchors the list on its own sentinel; that this
       amounts to exchanging the two sequences needs the invariant (ok_endprev): see take_refines *)
    apply with_2_refines; auto. intros a b Ea Eb Ha Hb. cbn [fst snd].
    destruct (take_refines K hash x b Hb) as [Hb1 [Hb2 _]]. destruct (take_refines K hash y a Ha) as [Ha1 [Ha2 _]].
    split.
    + apply state_ok_upd; auto. apply state_ok_upd; auto.
    + rewrite !abs_st_upd, Ha2, Hb2. reflexivity.
  - apply weaken. apply with_var_refines; auto. apply c_front.
  - apply weaken. apply with_var_refines; auto. apply c_back.
  - apply weaken. (* OCopy *) assert (Hkd : kd <> KPool) by (intros ->; discriminate).
    apply with_2_refines; auto. intros a b Ea Eb Ha Hb. cbn [fst snd].
    destruct (copy_refines K keqb hash keqb_spec kd (new_table x default_capacity) b Hkd (new_default_ok x) eq_refl Hb)
      as [H1 H2].
    split; [apply state_ok_upd; auto|]. rewrite abs_st_upd, H2. reflexivity.
  - apply weaken. (* OAssign *) assert (Hkd : kd <> KPool) by (intros ->; discriminate).
    apply with_2_refines; auto. intros a b Ea Eb Ha Hb.
    destruct (Nat.eqb_spec x y) as [Exy|Exy]; cbn [fst snd].
    + split; auto. subst y. f_equal. apply upd_same. unfold abs_st. rewrite nth_error_map', Eb. reflexivity.
    + destruct (clear_refines K hash x a Ha) as [Hc1 Hc2].
      destruct (copy_refines K keqb hash keqb_spec kd (clear x a) b Hkd Hc1 Hc2 Hb) as [H1 H2].
      split; [apply state_ok_upd; auto|]. rewrite abs_st_upd, H2. reflexivity.
  - apply weaken. (* OEq *) apply with_2_refines; auto. intros a b Ea Eb Ha Hb. cbn [fst snd]. split; auto.
    rewrite (eq_refines K keqb hash kd a b Ha Hb). reflexivity.
  - apply weaken. (* OAppendAll *) apply with_2_refines; auto. intros a b Ea Eb Ha Hb. cbn [fst snd].
    destruct (append_all_refines K keqb hash keqb_spec kd (order b) a Ha) as [H1 H2].
    split; [apply state_ok_upd; auto|]. rewrite abs_st_upd, H2. reflexivity.
  - apply weaken. (* ORemoveAll *) apply with_2_refines; auto. intros a b Ea Eb Ha Hb. cbn [fst snd].
    destruct (remove_all_refines K keqb hash keqb_spec (order b) a Ha) as [H1 H2].
    split; [apply state_ok_upd; auto|]. rewrite abs_st_upd, H2. reflexivity.
  - apply weaken. apply with_var_refines; auto. apply c_setval.
  - (* OIterFwd *) apply weaken. apply with_var_refines; auto. intros t Hok. cbn [fst snd]. split; auto.
  - (* OIterBack *) unfold with_var, s_with, abs_st. rewrite nth_error_map'.
    destruct (nth_error st x) as [t|] eqn:E; cbn [option_map fst snd]; [|split; auto].
    assert (Hok : chains_ok t) by (eapply state_ok_nth; eauto).
    split; [apply Forall_upd; auto|]. intros Hnd.
    assert (Hn : slots_nodup t) by (rewrite Forall_forall in Hnd; apply Hnd; eapply nth_error_In; exact E).
    rewrite (iter_back_rev K t (ok_endprev K hash t Hok) Hn). rewrite map_upd. reflexivity.
Qed.

Lemma step_refines kd st o :
  state_ok st -> Forall slots_nodup st ->
  state_ok (fst (step kd st o)) /\
  spec_step keqb kd (abs_st st) o = (abs_st (fst (step kd st o)), snd (step kd st o)).
Proof. intros H1 H2. destruct (step_refines_gen kd st o H1) as [A B]. split; auto. Qed.

Lemma step_ok kd st o : state_ok st -> state_ok (fst (step kd st o)).
Proof. intros H. apply (step_refines_gen kd st o H). Qed.


(* ---- whole histories -------------------------------------------------------------------------- *)
Lemma obs_st_refines st : state_ok st -> map (m_obs (K:=K)) st = map (s_obs (K:=K)) (abs_st st).
Proof.
  intros Hst. unfold abs_st. rewrite map_map. apply map_ext_in. intros t Hi.
  apply (obs_refines K hash). revert t Hi. apply Forall_forall. exact Hst.
Qed.

Fixpoint states (kd : kind) (st : list table) (ops : list (op K)) : list table :=
  match ops with [] => st | o :: rest => states kd (fst (step kd st o)) rest end.

Lemma states_ok kd ops : forall st, state_ok st -> state_ok (states kd st ops).
Proof.
  induction ops as [|o rest IH]; intros st Hst; cbn [states]; auto.
  apply IH. apply step_ok. exact Hst.
Qed.

Definition start (caps : list Z) : list table := init (map ctor_cap caps).

Lemma init_from_ok caps : forall i, Forall (fun c => 0 <= c) caps -> state_ok (init_from i (map ctor_cap caps)).
Proof.
  induction caps as [|c rest IH]; intros i H; cbn [map init_from]; [constructor|].
  inversion H as [|? ? Hc Hr]; subst. constructor; [|apply IH; exact Hr].
  apply new_table_ok. unfold ctor_cap. destruct (Z.eqb_spec c 0); lia.
Qed.

Lemma start_ok caps : Forall (fun c => 0 <= c) caps -> state_ok (start caps).
Proof. intros H. unfold start, init. apply init_from_ok. exact H. Qed.

Lemma abs_init_from (cs : list Z) : forall i, abs_st (init_from i cs) = map (fun _ => []) cs.
Proof. induction cs as [|c rest IH]; intros i; cbn [init_from map abs_st]; [reflexivity|]. f_equal. apply IH. Qed.

Lemma abs_start caps : abs_st (start caps) = map (fun _ => []) caps.
Proof. unfold start, init. rewrite abs_init_from. rewrite map_map. reflexivity. Qed.

Theorem invariant_reachable kd caps ops :
  Forall (fun c => 0 <= c) caps -> state_ok (states kd (start caps) ops).
Proof. intros H. apply states_ok. apply start_ok. exact H. Qed.
End Refine.
