(* C12 - executable model of include/nstd/Callback.hpp + src/Callback.cpp as they are in /repo now
   (fixes/C12/01 is committed there: the two search loops skip entries already marked disconnected).
   No proofs here.

   Representation
   * Emitter* / Listener* are object ids; every object carries a liveness flag and every
     dereference of a destroyed object is None (= heap-use-after-free).
   * Map<MemberFuncPtr, SignalData> is `nat -> option sigdata` over the signal ids 0..nsg-1 (the
     signals of an emitter class are a fixed finite set); Map<Emitter*, List<Signal>> is
     `nat -> option (list (signal, slot))` over the emitter ids 0..ne-1.  Entries are never
     removed from either map (as in the code); "for each entry of the map" is "for each id with
     an entry" (the iterations of the destructor loops touch disjoint data, their order is not
     observable).
   * List<Slot> is a list; List nodes are never unlinked while an activation exists, so the
     iterator `i` of an emission is an index (a_pos); `end` is the sentinel, i.e. the current length.
   * SignalData::activation and SignalActivation::next form a chain of stack objects: sd_acts
     holds that chain, innermost first (activation = head, next = tail).  The stack objects
     outlive the emitter, so the chain is kept when the emitter is destroyed while its slot
     lists are dropped.
   The emission `for` loop is cut at the slot invocations: emit_next advances the iterator over
   entries whose state is not `connected` and stops at the next one to call. *)
From Coq Require Import List Arith Bool Lia.
From Callback Require Import CallbackSpec.
Import ListNotations.

Inductive sstate := Connected | Connecting | Disconnected.
Record slot := mkSlot { s_recv : nat; s_slot : nat; s_state : sstate }.
Record act := mkAct { a_inval : bool; a_pos : nat }.
Record sigdata := mkSD { sd_slots : list slot; sd_dirty : bool; sd_acts : list act }.
Record emitter := mkE { e_alive : bool; e_sigs : nat -> option sigdata }.
Record listener := mkL { l_alive : bool; l_ems : nat -> option (list (nat * nat)) }.
Record state := mkSt { st_E : nat -> emitter; st_L : nat -> listener; st_ne : nat; st_nl : nat; st_nsg : nat }.

Definition init (ne nl nsg : nat) : state :=
  mkSt (fun e => mkE (e <? ne) (fun _ => None)) (fun l => mkL (l <? nl) (fun _ => None)) ne nl nsg.

Definition is_disc (x : slot) : bool := match s_state x with Disconnected => true | _ => false end.
Definition is_conn (x : slot) : bool := match s_state x with Connected => true | _ => false end.
Definition nd (x : slot) : bool := negb (is_disc x).

Definition setE (st : state) (e : nat) (v : emitter) : state :=
  mkSt (upd1 (st_E st) e v) (st_L st) (st_ne st) (st_nl st) (st_nsg st).
Definition setL (st : state) (l : nat) (v : listener) : state :=
  mkSt (st_E st) (upd1 (st_L st) l v) (st_ne st) (st_nl st) (st_nsg st).
Definition set_sig (E : emitter) (sg : nat) (sd : sigdata) : emitter :=
  mkE (e_alive E) (upd1 (e_sigs E) sg (Some sd)).
Definition set_ems (L : listener) (e : nat) (v : list (nat * nat)) : listener :=
  mkL (l_alive L) (upd1 (l_ems L) e (Some v)).

(* ---- Callback::connect ------------------------------------------------------------------- *)
Definition connect (st : state) (e sg l s : nat) : option state :=
  let E := st_E st e in
  if negb (e_alive E) then None else
  let sd := match e_sigs E sg with Some sd => sd | None => mkSD [] false [] end in
  let sd' := match sd_acts sd with
             | [] => mkSD (sd_slots sd ++ [mkSlot l s Connected]) (sd_dirty sd) (sd_acts sd)
             | _ => mkSD (sd_slots sd ++ [mkSlot l s Connecting]) true (sd_acts sd)
             end in
  let st1 := setE st e (set_sig E sg sd') in
  let L := st_L st1 l in
  if negb (l_alive L) then None else
  let old := match l_ems L e with Some x => x | None => [] end in
  Some (setL st1 l (set_ems L e (old ++ [(sg, s)]))).

(* ---- the search loop of disconnect and of ~Listener (repaired: skips disconnected entries) -- *)
Definition hit (l s : nat) (x : slot) : bool := (s_recv x =? l) && (s_slot x =? s) && nd x.

Fixpoint mark_first (p : slot -> bool) (sl : list slot) : list slot :=
  match sl with
  | [] => []
  | x :: t => if p x then mkSlot (s_recv x) (s_slot x) Disconnected :: t else x :: mark_first p t
  end.

Definition unlink_slot (sd : sigdata) (l s : nat) : sigdata :=
  if existsb (hit l s) (sd_slots sd) then
    match sd_acts sd with
    | [] => mkSD (rm_first (hit l s) (sd_slots sd)) (sd_dirty sd) (sd_acts sd)
    | _ => mkSD (mark_first (hit l s) (sd_slots sd)) true (sd_acts sd)
    end
  else sd.

Definition sigeq (sg s : nat) (x : nat * nat) : bool := (fst x =? sg) && (snd x =? s).

(* ---- Callback::disconnect ---------------------------------------------------------------- *)
Definition disconnect (st : state) (e sg l s : nat) : option state :=
  let E := st_E st e in
  if negb (e_alive E) then None else
  match e_sigs E sg with
  | None => Some st
  | Some sd =>
    let st1 := setE st e (set_sig E sg (unlink_slot sd l s)) in
    let L := st_L st1 l in
    if negb (l_alive L) then None else
    match l_ems L e with
    | None => Some st1                           (* *end() of the map is an empty list *)
    | Some x => Some (setL st1 l (set_ems L e (rm_first (sigeq sg s) x)))
    end
  end.

(* ---- Listener::~Listener ----------------------------------------------------------------- *)
Definition unlink_at (st : state) (e l : nat) (x : nat * nat) : option state :=
  let E := st_E st e in
  if negb (e_alive E) then None else
  match e_sigs E (fst x) with
  | None => Some st
  | Some sd => Some (setE st e (set_sig E (fst x) (unlink_slot sd l (snd x))))
  end.

Fixpoint ofold {A S} (f : S -> A -> option S) (st : S) (xs : list A) : option S :=
  match xs with
  | [] => Some st
  | x :: t => match f st x with Some st' => ofold f st' t | None => None end
  end.

Definition destroy_listener (st : state) (l : nat) : option state :=
  let L := st_L st l in
  if negb (l_alive L) then None else
  match ofold (fun st e => match l_ems L e with
                           | None => Some st
                           | Some xs => ofold (fun st x => unlink_at st e l x) st xs
                           end) st (seq 0 (st_ne st)) with
  | None => None
  | Some st' => Some (setL st' l (mkL false (fun _ => None)))
  end.

(* ---- Emitter::~Emitter ------------------------------------------------------------------- *)
Definition forget_at (e sg : nat) (st : state) (x : slot) : option state :=
  if is_disc x then Some st else
  let L := st_L st (s_recv x) in
  if negb (l_alive L) then None else
  match l_ems L e with
  | None => Some st
  | Some xs => Some (setL st (s_recv x) (set_ems L e (rm_first (sigeq sg (s_slot x)) xs)))
  end.

Definition invalidate (a : list act) : list act :=
  match a with [] => [] | x :: t => mkAct true (a_pos x) :: t end.

Definition destroy_emitter (st : state) (e : nat) : option state :=
  let E := st_E st e in
  if negb (e_alive E) then None else
  match ofold (fun st sg => match e_sigs E sg with
                            | None => Some st
                            | Some sd => ofold (forget_at e sg) st (sd_slots sd)
                            end) st (seq 0 (st_nsg st)) with
  | None => None
  | Some st' =>
      Some (setE st' e (mkE false (fun sg => match e_sigs E sg with
                                             | None => None
                                             | Some sd => Some (mkSD [] false (invalidate (sd_acts sd)))
                                             end)))
  end.

(* ---- SignalActivation::SignalActivation -------------------------------------------------- *)
Definition emit_begin (st : state) (e sg : nat) : option state :=
  let E := st_E st e in
  if negb (e_alive E) then None else
  match e_sigs E sg with
  | None => Some st
  | Some sd => Some (setE st e (set_sig E sg (mkSD (sd_slots sd) (sd_dirty sd) (mkAct false 0 :: sd_acts sd))))
  end.

(* ---- the emit loop up to the next call --------------------------------------------------- *)
Fixpoint first_conn (sl : list slot) : option (nat * slot) :=
  match sl with
  | [] => None
  | x :: t => if is_conn x then Some (0, x)
              else match first_conn t with Some (k, y) => Some (S k, y) | None => None end
  end.

Definition emit_next (st : state) (e sg : nat) : option (state * option slot) :=
  let E := st_E st e in
  if negb (e_alive E) then None else
  match e_sigs E sg with
  | None => Some (st, None)
  | Some sd =>
    match sd_acts sd with
    | [] => Some (st, None)
    | a :: rest =>
      match first_conn (skipn (a_pos a) (sd_slots sd)) with
      | None => Some (setE st e (set_sig E sg (mkSD (sd_slots sd) (sd_dirty sd) (mkAct (a_inval a) (length (sd_slots sd)) :: rest))), None)
      | Some (k, x) => Some (setE st e (set_sig E sg (mkSD (sd_slots sd) (sd_dirty sd) (mkAct (a_inval a) (S (a_pos a + k)) :: rest))), Some x)
      end
    end
  end.

(* `if(activation.invalidated) return;` - reads the stack object, never the emitter *)
Definition invalidated (st : state) (e sg : nat) : bool :=
  match e_sigs (st_E st e) sg with
  | Some sd => match sd_acts sd with a :: _ => a_inval a | [] => false end
  | None => false
  end.

(* ---- SignalActivation::~SignalActivation ------------------------------------------------- *)
Fixpoint cleanup (sl : list slot) : list slot :=
  match sl with
  | [] => []
  | x :: t => match s_state x with
              | Disconnected => cleanup t
              | _ => mkSlot (s_recv x) (s_slot x) Connected :: cleanup t
              end
  end.

Definition emit_end (st : state) (e sg : nat) : option state :=
  let E := st_E st e in
  match e_sigs E sg with
  | None => Some st
  | Some sd =>
    match sd_acts sd with
    | [] => Some st
    | a :: rest =>
      if a_inval a then
        Some (setE st e (mkE (e_alive E) (upd1 (e_sigs E) sg (Some (mkSD (sd_slots sd) (sd_dirty sd) (invalidate rest))))))
      else if negb (e_alive E) then None
      else match rest with
           | [] => if sd_dirty sd then Some (setE st e (set_sig E sg (mkSD (cleanup (sd_slots sd)) false [])))
                   else Some (setE st e (set_sig E sg (mkSD (sd_slots sd) false [])))
           | _ => Some (setE st e (set_sig E sg (mkSD (sd_slots sd) (sd_dirty sd) rest)))
           end
    end
  end.

(* ---- scripted slots ---------------------------------------------------------------------- *)
Section Interp.
Variable sc : scripts.
Variable maxd : nat.

Definition okE (st : state) (e : nat) : bool := e_alive (st_E st e).
Definition okL (st : state) (l : nat) : bool := l_alive (st_L st l).

Fixpoint exec (fuel d : nat) (st : state) (lg : list inv) (acts : list action) {struct fuel} : outcome (state * list inv) :=
  match fuel with
  | O => OutOfFuel lg
  | S f =>
    match acts with
    | [] => Done (st, lg)
    | a :: rest =>
      match a with
      | AConnect e sg l s =>
          if okE st e && okL st l && (sg <? st_nsg st) then
            match connect st e sg l s with Some st' => exec f d st' lg rest | None => Fail lg end
          else exec f d st lg rest
      | ADisconnect e sg l s =>
          if okE st e && okL st l && (sg <? st_nsg st) then
            match disconnect st e sg l s with Some st' => exec f d st' lg rest | None => Fail lg end
          else exec f d st lg rest
      | ADestroyL l =>
          if okL st l then
            match destroy_listener st l with Some st' => exec f d st' lg rest | None => Fail lg end
          else exec f d st lg rest
      | ADestroyE e =>
          if okE st e then
            match destroy_emitter st e with Some st' => exec f d st' lg rest | None => Fail lg end
          else exec f d st lg rest
      | AEmit e sg =>
          if okE st e && (sg <? st_nsg st) && (d <? maxd) then
            match emit_begin st e sg with
            | None => Fail lg
            | Some st1 =>
              match loop f d st1 lg e sg with
              | Done (st2, lg2) =>
                  match emit_end st2 e sg with Some st3 => exec f d st3 lg2 rest | None => Fail lg2 end
              | o => o
              end
            end
          else exec f d st lg rest
      end
    end
  end
with loop (fuel d : nat) (st : state) (lg : list inv) (e sg : nat) {struct fuel} : outcome (state * list inv) :=
  match fuel with
  | O => OutOfFuel lg
  | S f =>
    match emit_next st e sg with
    | None => Fail lg
    | Some (st1, None) => Done (st1, lg)
    | Some (st1, Some x) =>
      match exec f (S d) st1 (mkInv e sg (s_recv x) (s_slot x) :: lg) (sc (mkInv e sg (s_recv x) (s_slot x) :: lg) (s_recv x) (s_slot x)) with
      | Done (st2, lg2) => if invalidated st2 e sg then Done (st2, lg2) else loop f d st2 lg2 e sg
      | o => o
      end
    end
  end.
End Interp.

Definition step (sc : scripts) (maxd fuel : nat) (st : state) (a : action) : outcome (state * list inv) :=
  exec sc maxd fuel 0 st [] [a].

(* ---- the same interpreter, also recording the emitting signal's internal data whenever a slot is
        entered (true) and left (false): what the harness reads through the access override at the same
        two moments.  CallbackTrace.v proves that forgetting the trace gives exec / loop. ---- *)
Definition snap := (bool * nat * nat * option sigdata)%type.
Definition snap_of (st : state) (entry : bool) (e sg : nat) : snap :=
  (entry, e, sg, if e_alive (st_E st e) then e_sigs (st_E st e) sg else None).

Section InterpTr.
Variable sc : scripts.
Variable maxd : nat.

Fixpoint exec_tr (fuel d : nat) (st : state) (lg : list inv) (tr : list snap) (acts : list action) {struct fuel}
  : outcome (state * list inv * list snap) :=
  match fuel with
  | O => OutOfFuel lg
  | S f =>
    match acts with
    | [] => Done (st, lg, tr)
    | a :: rest =>
      match a with
      | AConnect e sg l s =>
          if okE st e && okL st l && (sg <? st_nsg st) then
            match connect st e sg l s with Some st' => exec_tr f d st' lg tr rest | None => Fail lg end
          else exec_tr f d st lg tr rest
      | ADisconnect e sg l s =>
          if okE st e && okL st l && (sg <? st_nsg st) then
            match disconnect st e sg l s with Some st' => exec_tr f d st' lg tr rest | None => Fail lg end
          else exec_tr f d st lg tr rest
      | ADestroyL l =>
          if okL st l then
            match destroy_listener st l with Some st' => exec_tr f d st' lg tr rest | None => Fail lg end
          else exec_tr f d st lg tr rest
      | ADestroyE e =>
          if okE st e then
            match destroy_emitter st e with Some st' => exec_tr f d st' lg tr rest | None => Fail lg end
          else exec_tr f d st lg tr rest
      | AEmit e sg =>
          if okE st e && (sg <? st_nsg st) && (d <? maxd) then
            match emit_begin st e sg with
            | None => Fail lg
            | Some st1 =>
              match loop_tr f d st1 lg tr e sg with
              | Done (st2, lg2, tr2) =>
                  match emit_end st2 e sg with Some st3 => exec_tr f d st3 lg2 tr2 rest | None => Fail lg2 end
              | o => o
              end
            end
          else exec_tr f d st lg tr rest
      end
    end
  end
with loop_tr (fuel d : nat) (st : state) (lg : list inv) (tr : list snap) (e sg : nat) {struct fuel}
  : outcome (state * list inv * list snap) :=
  match fuel with
  | O => OutOfFuel lg
  | S f =>
    match emit_next st e sg with
    | None => Fail lg
    | Some (st1, None) => Done (st1, lg, tr)
    | Some (st1, Some x) =>
      match exec_tr f (S d) st1 (mkInv e sg (s_recv x) (s_slot x) :: lg) (snap_of st1 true e sg :: tr) (sc (mkInv e sg (s_recv x) (s_slot x) :: lg) (s_recv x) (s_slot x)) with
      | Done (st2, lg2, tr2) =>
          let tr3 := snap_of st2 false e sg :: tr2 in
          if invalidated st2 e sg then Done (st2, lg2, tr3) else loop_tr f d st2 lg2 tr3 e sg
      | o => o
      end
    end
  end.
End InterpTr.

Definition step_tr (sc : scripts) (maxd fuel : nat) (st : state) (a : action) : outcome (state * list inv * list snap) :=
  exec_tr sc maxd fuel 0 st [] [] [a].
