From Coq Require Import List Arith Bool Lia.
From Callback Require Import CallbackSpec CallbackModel.
Import ListNotations.

Lemma cleanup_all_connected sl : forallb is_conn (cleanup sl) = true.
Proof. induction sl as [|x t IH]; simpl; auto. destruct (s_state x); simpl; auto. Qed.
