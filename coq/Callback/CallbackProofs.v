(* C12 - small facts about cleanup; the refinement proof is in CallbackLists/Inv/Ops/Destroy/Sim/Main/Fuel/Trace.v *)
From Coq Require Import List Arith Bool Lia.
From Callback Require Import CallbackSpec CallbackModel.
Import ListNotations.

Lemma cleanup_all_connected sl : forallb is_conn (cleanup sl) = true.
Proof. induction sl as [|x t IH]; simpl; auto. destruct (s_state x); simpl; auto. Qed.
