(* C12 - every primitive operation of the model preserves the refinement relation. *)
From Coq Require Import List Arith Bool Lia Sorted.
From Callback Require Import CallbackSpec CallbackModel CallbackLists CallbackInv.
Import ListNotations.

Ltac dSL H := destruct H as [sl_fst0 sl_sorted0 sl_bound0 sl_keys0 sl_len0 sl_noinv0 sl_quiet0 sl_clean0 sl_wle0 sl_wm0 sl_cur0].
Ltac dRE H := destruct H as [r_E0 r_L0 r_nsg0 r_wf0 r_ne0 r_sig0 r_dead0].
Ltac dWF H := destruct H as [wf_sorted0 wf_bound0 wf_live0].

(* ---- state access ---- *)
Lemma sdo_setE_same st e sg sd : sdo (setE st e (set_sig (st_E st e) sg sd)) e sg = Some sd.
Proof. unfold sdo, setE, set_sig; cbn. rewrite !upd1_same. cbn. rewrite upd1_same. reflexivity. Qed.

Lemma sdo_setE_other st e sg sd e' sg' : (e', sg') <> (e, sg) ->
  sdo (setE st e (set_sig (st_E st e) sg sd)) e' sg' = sdo st e' sg'.
Proof.
  intros H. unfold sdo, setE, set_sig; cbn. unfold upd1 at 1. destruct (Nat.eqb_spec e' e) as [->|]; [|reflexivity].
  cbn. rewrite upd1_other; [reflexivity|]. intros ->. apply H; reflexivity.
Qed.

Lemma alive_setE_sig st e sg sd e' : e_alive (st_E (setE st e (set_sig (st_E st e) sg sd)) e') = e_alive (st_E st e').
Proof. unfold setE, set_sig; cbn. unfold upd1. destruct (Nat.eqb_spec e' e) as [->|]; reflexivity. Qed.

Lemma alive_setL_ems st l e v l' : l_alive (st_L (setL st l (set_ems (st_L st l) e v)) l') = l_alive (st_L st l').
Proof. unfold setL, set_ems; cbn. unfold upd1. destruct (Nat.eqb_spec l' l) as [->|]; reflexivity. Qed.

Lemma lst_setL_same st l e v : lst (setL st l (set_ems (st_L st l) e v)) l e = v.
Proof. unfold lst, setL, set_ems; cbn. rewrite upd1_same. cbn. rewrite upd1_same. reflexivity. Qed.

Lemma lst_setL_other st l e v l' e' : (l', e') <> (l, e) ->
  lst (setL st l (set_ems (st_L st l) e v)) l' e' = lst st l' e'.
Proof.
  intros H. unfold lst, setL, set_ems; cbn. unfold upd1 at 1. destruct (Nat.eqb_spec l' l) as [->|]; [|reflexivity].
  cbn. rewrite upd1_other; [reflexivity|]. intros ->. apply H; reflexivity.
Qed.

Lemma conns_app p e sg c : filter (on_es e sg) (sp_conns p ++ [c]) = conns p e sg ++ (if on_es e sg c then [c] else []).
Proof. unfold conns. rewrite filter_app. cbn [filter]. reflexivity. Qed.

Lemma on_es_mk e sg e' sg' l s n : on_es e' sg' (mkConn e sg l s n) = (e =? e') && (sg =? sg').
Proof. reflexivity. Qed.

Lemma on_es_pair e sg e' sg' l s n : (e', sg') <> (e, sg) -> on_es e' sg' (mkConn e sg l s n) = false.
Proof.
  intros H. rewrite on_es_mk. destruct (Nat.eqb_spec e e') as [->|]; [|reflexivity].
  destruct (Nat.eqb_spec sg sg') as [->|]; [|reflexivity]. exfalso; apply H; reflexivity.
Qed.

(* ================= connect ================= *)
Definition conn_state (o : option sigdata) : sstate := match actsOf o with [] => Connected | _ => Connecting end.
Definition conn_sd (o : option sigdata) (l s : nat) : sigdata :=
  let sd := match o with Some sd => sd | None => mkSD [] false [] end in
  match sd_acts sd with
  | [] => mkSD (sd_slots sd ++ [mkSlot l s Connected]) (sd_dirty sd) (sd_acts sd)
  | _ => mkSD (sd_slots sd ++ [mkSlot l s Connecting]) true (sd_acts sd)
  end.

Lemma conn_sd_slots o l s : sd_slots (conn_sd o l s) = slotsOf o ++ [mkSlot l s (conn_state o)].
Proof. unfold conn_sd, conn_state. destruct o as [sd|]; cbn; [destruct (sd_acts sd)|]; reflexivity. Qed.
Lemma conn_sd_acts o l s : sd_acts (conn_sd o l s) = actsOf o.
Proof. unfold conn_sd. destruct o as [sd|]; cbn; [destruct (sd_acts sd) eqn:H; cbn; rewrite ?H|]; reflexivity. Qed.
Lemma conn_sd_dirty o l s : sd_dirty (conn_sd o l s) = match actsOf o with [] => dirtyOf o | _ => true end.
Proof. unfold conn_sd. destruct o as [sd|]; cbn; [destruct (sd_acts sd)|]; reflexivity. Qed.

Lemma SigLive_connect o tl cs m next e sg l s :
  SigLive o tl cs m next ->
  SigLive (Some (conn_sd o l s)) (tl ++ [(mkSlot l s (conn_state o), next)]) (cs ++ [mkConn e sg l s next]) m (S next).
Proof.
  intros H. dSL H. constructor; cbn [slotsOf actsOf dirtyOf]; rewrite ?conn_sd_slots, ?conn_sd_acts, ?conn_sd_dirty.
  - rewrite map_app, sl_fst0. reflexivity.
  - rewrite map_app. apply sorted_app_one; assumption.
  - rewrite map_app. apply Forall_app. split.
    + eapply Forall_impl; [|exact sl_bound0]. cbn; intros; lia.
    + repeat constructor.
  - rewrite filter_app, !map_app, sl_keys0. cbn [filter]. replace (tnd _) with true; [reflexivity|].
    unfold tnd, nd, is_disc, conn_state; cbn. destruct (actsOf o); reflexivity.
  - assumption.
  - assumption.
  - intros Ha. rewrite Ha. auto.
  - intros Hd. destruct (actsOf o) eqn:Ha; [|discriminate]. apply Forall_app. split; [auto|].
    unfold conn_state. rewrite Ha. repeat constructor.
  - intros Ha. specialize (sl_wle0 Ha). lia.
  - intros Ha x t Hin. apply in_app_or in Hin as [Hin|[Hin|[]]]; [apply sl_wm0; assumption|].
    injection Hin as <- <-. cbn. unfold conn_state. destruct (actsOf o); [congruence|].
    split; [intros _; apply sl_wle0; congruence|discriminate].
  - intros j x t Hn Hc. apply nth_error_app_one in Hn as [[_ Hn]|[_ Hn]]; [eapply sl_cur0; eassumption|].
    injection Hn as -> ->. unfold conn_state in Hc. destruct (actsOf o) eqn:Ha; [|discriminate].
    cbn in sl_len0. destruct (em_cur m); [constructor|discriminate].
Qed.

Lemma connect_unfold st e sg l s :
  e_alive (st_E st e) = true -> l_alive (st_L st l) = true ->
  connect st e sg l s =
  Some (let st1 := setE st e (set_sig (st_E st e) sg (conn_sd (sdo st e sg) l s)) in
        setL st1 l (set_ems (st_L st1 l) e (lst st l e ++ [(sg, s)]))).
Proof.
  intros He Hl. unfold connect. rewrite He. cbn [negb]. cbn [st_L setE]. rewrite Hl. cbn [negb].
  unfold conn_sd, sdo, lst. reflexivity.
Qed.


(* ---- the relation only looks at the state through its accessors ---- *)
Lemma RE_ext kE st st' p T :
  (forall e, e_alive (st_E st' e) = e_alive (st_E st e)) ->
  (forall l, l_alive (st_L st' l) = l_alive (st_L st l)) ->
  st_nsg st' = st_nsg st -> st_ne st' = st_ne st ->
  (forall e sg, sdo st' e sg = sdo st e sg) ->
  RE kE st p T -> RE kE st' p T.
Proof.
  intros HE HL Hn1 Hn2 Hs H. dRE H. constructor.
  - intros e. rewrite HE. apply r_E0.
  - intros l. rewrite HL. apply r_L0.
  - rewrite Hn1. exact r_nsg0.
  - exact r_wf0.
  - intros e He. rewrite Hn2. apply r_ne0. exact He.
  - intros e sg He Hk. rewrite Hs. apply r_sig0; assumption.
  - intros e sg He. rewrite Hs. apply r_dead0; assumption.
Qed.

Lemma RL_ext kL st st' p : (forall l e, lst st' l e = lst st l e) -> RL kL st p -> RL kL st' p.
Proof. intros H HR l Hl Hk e sg s. rewrite H. apply HR; assumption. Qed.

Lemma RE_setL kE st l v p T : l_alive v = l_alive (st_L st l) -> RE kE st p T -> RE kE (setL st l v) p T.
Proof.
  intros Hv. apply RE_ext; try reflexivity. intros l'. unfold setL; cbn. unfold upd1.
  destruct (Nat.eqb_spec l' l) as [->|]; [exact Hv|reflexivity].
Qed.

Lemma ckey_true e sg l s c : ckey e sg l s c = true -> c_e c = e /\ c_sg c = sg /\ c_l c = l /\ c_s c = s.
Proof.
  unfold ckey, on_es. intros H. apply andb_true_iff in H as [H1 H2]. apply andb_true_iff in H1 as [Ha Hb].
  apply andb_true_iff in H2 as [Hc Hd]. apply Nat.eqb_eq in Ha, Hb, Hc, Hd. auto.
Qed.

Lemma ckey_refl c : ckey (c_e c) (c_sg c) (c_l c) (c_s c) c = true.
Proof. unfold ckey, on_es. rewrite !Nat.eqb_refl. reflexivity. Qed.

Lemma ckey_disj e sg l s e' sg' l' s' c : (e', sg', l', s') <> (e, sg, l, s) -> ckey e sg l s c = true -> ckey e' sg' l' s' c = false.
Proof.
  intros Hne H. apply ckey_true in H as (<- & <- & <- & <-).
  destruct (ckey e' sg' l' s' c) eqn:H'; [|reflexivity]. apply ckey_true in H' as (<- & <- & <- & <-).
  exfalso; apply Hne; reflexivity.
Qed.

Lemma sigeq_true sg s x : sigeq sg s x = true -> x = (sg, s).
Proof.
  unfold sigeq. intros H. apply andb_true_iff in H as [H1 H2]. apply Nat.eqb_eq in H1, H2. destruct x; cbn in *; subst; reflexivity.
Qed.
Lemma sigeq_refl sg s : sigeq sg s (sg, s) = true.
Proof. unfold sigeq; cbn. rewrite !Nat.eqb_refl. reflexivity. Qed.
Lemma sigeq_disj sg s sg' s' x : (sg', s') <> (sg, s) -> sigeq sg s x = true -> sigeq sg' s' x = false.
Proof.
  intros Hne H. apply sigeq_true in H as ->. destruct (sigeq sg' s' (sg, s)) eqn:H'; [|reflexivity].
  apply sigeq_true in H'. exfalso; apply Hne; congruence.
Qed.

(* ---- connect: emitter side ---- *)
Lemma RE_connect kE st p T e sg l s :
  RE kE st p T -> sp_E p e = true -> sp_L p l = true -> sg < sp_nsg p ->
  RE kE (setE st e (set_sig (st_E st e) sg (conn_sd (sdo st e sg) l s))) (sp_connect p e sg l s)
     (upd2 T e sg (T e sg ++ [(mkSlot l s (conn_state (sdo st e sg)), sp_next p)])).
Proof.
  intros HR He Hl Hsg. dRE HR.
  constructor; unfold sp_connect; cbn [sp_E sp_L sp_nsg sp_next sp_conns sp_em].
  - intros e'. rewrite alive_setE_sig. apply r_E0.
  - exact r_L0.
  - exact r_nsg0.
  - dWF r_wf0. constructor; cbn [sp_conns sp_next sp_E sp_L sp_nsg].
    + rewrite map_app. apply sorted_app_one; assumption.
    + rewrite map_app. apply Forall_app. split; [eapply Forall_impl; [|exact wf_bound0]; cbn; intros; lia|repeat constructor].
    + intros c Hin. apply in_app_or in Hin as [Hin|[<-|[]]]; [apply wf_live0; exact Hin|]. cbn. auto.
  - exact r_ne0.
  - intros e' sg' He' Hk. unfold conns. cbn [sp_conns]. rewrite conns_app.
    destruct (pair_dec e' sg' e sg) as [Heq|Hne].
    + injection Heq as -> ->. rewrite upd2_same. rewrite sdo_setE_same.
      rewrite on_es_mk, !Nat.eqb_refl. cbn [andb]. apply SigLive_connect. apply r_sig0; assumption.
    + rewrite upd2_other by exact Hne. rewrite sdo_setE_other by exact Hne.
      rewrite on_es_pair by exact Hne. rewrite app_nil_r. eapply SigLive_next_mono; [|apply r_sig0; assumption]. lia.
  - intros e' sg' He'.
    assert (Hne : (e', sg') <> (e, sg)) by (intros Heq; injection Heq as -> ->; congruence).
    rewrite sdo_setE_other by exact Hne. apply r_dead0. exact He'.
Qed.

Lemma RL_connect kL st st' p e sg l s :
  lst st' l e = lst st l e ++ [(sg, s)] ->
  (forall l' e', (l', e') <> (l, e) -> lst st' l' e' = lst st l' e') ->
  RL kL st p -> RL kL st' (sp_connect p e sg l s).
Proof.
  intros H1 H2 HR l' Hl' Hk e' sg' s'. unfold sp_connect; cbn [sp_conns]. cbn in Hl'.
  rewrite count_app, <- (HR l' Hl' Hk e' sg' s').
  destruct (pair_dec l' e' l e) as [Heq|Hne].
  - injection Heq as -> ->. rewrite H1, count_app. f_equal. unfold count; cbn [filter]. unfold sigeq, ckey, on_es; cbn.
    rewrite !Nat.eqb_refl. cbn [andb]. destruct (sg =? sg'); cbn [andb]; [|reflexivity]. destruct (s =? s'); reflexivity.
  - rewrite H2 by exact Hne.
    replace (count (ckey e' sg' l' s') [_]) with 0; [lia|]. unfold count; cbn [filter]. unfold ckey, on_es; cbn.
    destruct (Nat.eqb_spec e e') as [->|]; [|reflexivity]. destruct (Nat.eqb_spec l l') as [->|]; [|rewrite andb_false_r; reflexivity].
    exfalso; apply Hne; reflexivity.
Qed.

Lemma connect_RT st p T e sg l s :
  RT st p T -> sp_E p e = true -> sp_L p l = true -> sg < sp_nsg p ->
  exists st', connect st e sg l s = Some st' /\
    RT st' (sp_connect p e sg l s) (upd2 T e sg (T e sg ++ [(mkSlot l s (conn_state (sdo st e sg)), sp_next p)])).
Proof.
  intros [HE HL] He Hl Hsg.
  rewrite connect_unfold by (rewrite ?(r_E _ _ _ _ HE), ?(r_L _ _ _ _ HE); assumption).
  eexists; split; [reflexivity|]. cbn zeta.
  set (st1 := setE st e (set_sig (st_E st e) sg (conn_sd (sdo st e sg) l s))).
  split.
  - apply RE_setL; [reflexivity|]. apply RE_connect; assumption.
  - eapply RL_connect; [| |exact HL].
    + change (st_L st1) with (st_L st). rewrite (lst_setL_same st1 l e). reflexivity.
    + intros l' e' Hne. change (st_L st1) with (st_L st). rewrite (lst_setL_other st1 l e) by exact Hne. reflexivity.
Qed.

(* ================= disconnect ================= *)
Definition lk (l s : nat) (c : conn) : bool := (c_l c =? l) && (c_s c =? s).
Definition hk (l s : nat) (k : nat * nat * nat) : bool := (fst (fst k) =? l) && (snd (fst k) =? s).
Definition hitT (l s : nat) (y : tslot) : bool := hit l s (fst y).

Fixpoint tmark (p : slot -> bool) (tl : list tslot) : list tslot :=
  match tl with
  | [] => []
  | y :: r => if p (fst y) then (mkSlot (s_recv (fst y)) (s_slot (fst y)) Disconnected, snd y) :: r else y :: tmark p r
  end.

Definition tunlink (o : option sigdata) (l s : nat) (tl : list tslot) : list tslot :=
  match actsOf o with [] => rm_first (hitT l s) tl | _ => tmark (hit l s) tl end.

Lemma mark_first_none p sl : existsb p sl = false -> mark_first p sl = sl.
Proof.
  induction sl as [|a t IH]; [reflexivity|]. cbn [existsb mark_first]. intros H.
  apply orb_false_iff in H as [Ha Ht]. rewrite Ha, (IH Ht). reflexivity.
Qed.

Lemma unlink_slot_eq sd l s : unlink_slot sd l s =
  match sd_acts sd with
  | [] => mkSD (rm_first (hit l s) (sd_slots sd)) (sd_dirty sd) (sd_acts sd)
  | _ => mkSD (mark_first (hit l s) (sd_slots sd)) (sd_dirty sd || existsb (hit l s) (sd_slots sd)) (sd_acts sd)
  end.
Proof.
  unfold unlink_slot. destruct (existsb (hit l s) (sd_slots sd)) eqn:Hx.
  - rewrite orb_true_r. destruct (sd_acts sd); reflexivity.
  - rewrite orb_false_r, rm_first_none, mark_first_none by exact Hx. destruct sd as [a b c]; cbn. destruct c; reflexivity.
Qed.

Lemma map_fst_tmark p tl : map fst (tmark p tl) = mark_first p (map fst tl).
Proof.
  induction tl as [|y r IH]; [reflexivity|]. cbn [tmark map mark_first]. destruct (p (fst y)); cbn [map fst]; [reflexivity|].
  rewrite IH. reflexivity.
Qed.

Lemma map_snd_tmark p tl : map snd (tmark p tl) = map snd tl.
Proof.
  induction tl as [|y r IH]; [reflexivity|]. cbn [tmark map]. destruct (p (fst y)); cbn [map snd]; [reflexivity|].
  rewrite IH. reflexivity.
Qed.

Lemma hitT_tnd l s y : hitT l s y = true -> tnd y = true.
Proof. unfold hitT, hit, tnd. intros H. apply andb_true_iff in H as [_ H]. exact H. Qed.

Lemma filter_tnd_tmark l s tl : filter tnd (tmark (hit l s) tl) = rm_first (hitT l s) (filter tnd tl).
Proof.
  induction tl as [|y r IH]; [reflexivity|]. cbn [tmark filter]. fold (hitT l s y). destruct (hitT l s y) eqn:Hh.
  - rewrite (hitT_tnd l s y Hh). cbn [filter rm_first]. rewrite Hh. unfold tnd at 1; cbn. reflexivity.
  - cbn [filter]. destruct (tnd y); [cbn [rm_first]; rewrite Hh, IH|rewrite IH]; reflexivity.
Qed.

Lemma nth_tmark_conn p tl j x t : nth_error (tmark p tl) j = Some (x, t) -> is_conn x = true -> nth_error tl j = Some (x, t).
Proof.
  revert j. induction tl as [|y r IH]; intros j; [destruct j; discriminate|]. cbn [tmark]. destruct (p (fst y)).
  - destruct j; cbn; [|auto]. intros H Hc. injection H as <- <-. discriminate.
  - destruct j; cbn; [auto|]. apply IH.
Qed.

Lemma in_tmark p tl x t : In (x, t) (tmark p tl) -> In (x, t) tl \/ s_state x = Disconnected.
Proof.
  induction tl as [|y r IH]; [intros []|]. cbn [tmark]. destruct (p (fst y)).
  - intros [H|H]; [right; injection H as <- _; reflexivity|left; right; exact H].
  - intros [H|H]; [left; left; exact H|]. destruct (IH H); [left; right; assumption|right; assumption].
Qed.

Lemma hitT_hk l s y : tnd y = true -> hitT l s y = hk l s (tkey y).
Proof. unfold hitT, hit, hk, tkey, tnd. cbn. intros ->. rewrite andb_true_r. reflexivity. Qed.

Lemma keys_unlink l s tl cs : map tkey (filter tnd tl) = map key3 cs ->
  map tkey (rm_first (hitT l s) (filter tnd tl)) = map key3 (rm_first (lk l s) cs).
Proof.
  intros H. rewrite (rm_first_ext_in (hitT l s) (fun y => hk l s (tkey y))).
  - rewrite map_rm_first, H. rewrite <- map_rm_first. reflexivity.
  - intros y Hy. apply filter_In in Hy as [_ Hy]. apply hitT_hk. exact Hy.
Qed.

Lemma Forall_map_rm_first {A B} (P : B -> Prop) (f : A -> B) p l : Forall P (map f l) -> Forall P (map f (rm_first p l)).
Proof.
  rewrite !Forall_forall. intros H x Hx. apply H. apply in_map_iff in Hx as (y & <- & Hy). apply in_map.
  eapply rm_first_incl; exact Hy.
Qed.

Lemma Forall_rm_first {A} (P : A -> Prop) p l : Forall P l -> Forall P (rm_first p l).
Proof. rewrite !Forall_forall. intros H x Hx. apply H. eapply rm_first_incl; exact Hx. Qed.

Lemma SigLive_unlink sd tl cs m next l s :
  SigLive (Some sd) tl cs m next ->
  SigLive (Some (unlink_slot sd l s)) (tunlink (Some sd) l s tl) (rm_first (lk l s) cs) m next.
Proof.
  intros H. dSL H. rewrite unlink_slot_eq. unfold tunlink. cbn [slotsOf actsOf dirtyOf] in *.
  destruct (sd_acts sd) as [|a0 ar] eqn:Ha.
  - (* no emission in progress: the node is unlinked *)
    constructor; cbn [slotsOf actsOf dirtyOf sd_slots sd_acts sd_dirty].
    + unfold hitT. rewrite map_rm_first, sl_fst0. reflexivity.
    + apply sorted_map_rm_first. exact sl_sorted0.
    + apply Forall_map_rm_first. exact sl_bound0.
    + rewrite filter_rm_first_sub by apply hitT_tnd. apply keys_unlink. exact sl_keys0.
    + exact sl_len0.
    + constructor.
    + intros _. apply sl_quiet0. reflexivity.
    + intros Hd. apply Forall_rm_first. apply sl_clean0. exact Hd.
    + congruence.
    + congruence.
    + intros j x t _ _. cbn in sl_len0. destruct (em_cur m); [constructor|discriminate].
  - (* inside an emission: the node is marked *)
    constructor; cbn [slotsOf actsOf dirtyOf sd_slots sd_acts sd_dirty].
    + rewrite map_fst_tmark, sl_fst0. reflexivity.
    + rewrite map_snd_tmark. exact sl_sorted0.
    + rewrite map_snd_tmark. exact sl_bound0.
    + rewrite filter_tnd_tmark. apply keys_unlink. exact sl_keys0.
    + exact sl_len0.
    + exact sl_noinv0.
    + discriminate.
    + intros Hd. apply orb_false_iff in Hd as [Hd Hx]. rewrite mark_first_none by exact Hx. apply sl_clean0. exact Hd.
    + exact sl_wle0.
    + intros Hne x t Hin. apply in_tmark in Hin as [Hin|Hst]; [apply sl_wm0; assumption|].
      rewrite Hst. split; discriminate.
    + intros j x t Hn Hc. apply (sl_cur0 j x t); [|exact Hc]. eapply nth_tmark_conn; eassumption.
Qed.

Definition unlinkE (st : state) (e sg l s : nat) : state :=
  match sdo st e sg with
  | None => st
  | Some sd => setE st e (set_sig (st_E st e) sg (unlink_slot sd l s))
  end.

Lemma conns_disc_same p e sg l s : conns (sp_disconnect p e sg l s) e sg = rm_first (lk l s) (conns p e sg).
Proof.
  unfold conns, sp_disconnect; cbn [sp_conns]. rewrite filter_rm_first_sub.
  - apply rm_first_ext_in. intros c Hc. apply filter_In in Hc as [_ Hc]. unfold ckey, lk. rewrite Hc. reflexivity.
  - intros c Hc. unfold ckey in Hc. apply andb_true_iff in Hc as [Hc _]. exact Hc.
Qed.

Lemma conns_disc_other p e sg l s e' sg' : (e', sg') <> (e, sg) -> conns (sp_disconnect p e sg l s) e' sg' = conns p e' sg'.
Proof.
  intros Hne. unfold conns, sp_disconnect; cbn [sp_conns]. apply filter_rm_first_other.
  intros c Hc. apply ckey_true in Hc as (<- & <- & _ & _). unfold on_es.
  destruct (Nat.eqb_spec (c_e c) e') as [<-|]; [|reflexivity]. destruct (Nat.eqb_spec (c_sg c) sg') as [<-|]; [|reflexivity].
  exfalso; apply Hne; reflexivity.
Qed.

Lemma SpWf_disconnect p e sg l s : SpWf p -> SpWf (sp_disconnect p e sg l s).
Proof.
  intros W. dWF W. constructor; unfold sp_disconnect; cbn [sp_conns sp_next sp_E sp_L sp_nsg].
  - apply sorted_map_rm_first. exact wf_sorted0.
  - apply Forall_map_rm_first. exact wf_bound0.
  - intros c Hc. apply wf_live0. eapply rm_first_incl; exact Hc.
Qed.

Lemma SigLive_None_conns tl cs m next : SigLive None tl cs m next -> tl = [] /\ cs = [].
Proof.
  intros H. dSL H. cbn in sl_fst0. assert (tl = []) by (destruct tl; [reflexivity|discriminate]). subst.
  cbn in sl_keys0. split; [reflexivity|]. destruct cs; [reflexivity|discriminate].
Qed.

(* emitter side of disconnect / of one step of ~Listener *)
Lemma RE_unlink kE st p T e sg l s :
  RE kE st p T -> sp_E p e = true ->
  RE kE (unlinkE st e sg l s) (sp_disconnect p e sg l s) (upd2 T e sg (tunlink (sdo st e sg) l s (T e sg))).
Proof.
  intros HR He. dRE HR.
  assert (HsE : forall e', e_alive (st_E (unlinkE st e sg l s) e') = e_alive (st_E st e')).
  { intros e'. unfold unlinkE. destruct (sdo st e sg); [apply alive_setE_sig|reflexivity]. }
  constructor; try (unfold sp_disconnect; cbn [sp_E sp_L sp_nsg sp_next sp_em]).
  - intros e'. rewrite HsE. apply r_E0.
  - unfold unlinkE. destruct (sdo st e sg); exact r_L0.
  - unfold unlinkE. destruct (sdo st e sg); exact r_nsg0.
  - apply SpWf_disconnect. exact r_wf0.
  - unfold unlinkE. destruct (sdo st e sg); exact r_ne0.
  - intros e' sg' He' Hk. fold (sp_disconnect p e sg l s).
    destruct (pair_dec e' sg' e sg) as [Heq|Hne].
    + injection Heq as -> ->. rewrite upd2_same, conns_disc_same. specialize (r_sig0 e sg He' Hk).
      unfold unlinkE. destruct (sdo st e sg) as [sd|] eqn:Hsd.
      * rewrite sdo_setE_same. apply SigLive_unlink. exact r_sig0.
      * rewrite Hsd. destruct (SigLive_None_conns _ _ _ _ r_sig0) as [H1 H2]. rewrite H1, H2 in *. cbn. exact r_sig0.
    + rewrite upd2_other, conns_disc_other by exact Hne.
      replace (sdo (unlinkE st e sg l s) e' sg') with (sdo st e' sg'); [apply r_sig0; assumption|].
      unfold unlinkE. destruct (sdo st e sg); [rewrite sdo_setE_other by exact Hne|]; reflexivity.
  - intros e' sg' He'.
    assert (Hne : (e', sg') <> (e, sg)) by (intros Heq; injection Heq as -> ->; congruence).
    replace (sdo (unlinkE st e sg l s) e' sg') with (sdo st e' sg'); [apply r_dead0; assumption|].
    unfold unlinkE. destruct (sdo st e sg); [rewrite sdo_setE_other by exact Hne|]; reflexivity.
Qed.

(* listener side: one (signal, slot) entry is dropped from listener l's list for emitter e *)
Lemma RL_forget kL st st' p e sg l s :
  lst st' l e = rm_first (sigeq sg s) (lst st l e) ->
  (forall l' e', (l', e') <> (l, e) -> lst st' l' e' = lst st l' e') ->
  RL kL st p -> RL kL st' (sp_disconnect p e sg l s).
Proof.
  intros H1 H2 HR l' Hl' Hk e' sg' s'. unfold sp_disconnect; cbn [sp_conns]. cbn in Hl'.
  specialize (HR l' Hl' Hk e' sg' s').
  destruct (pair_dec l' e' l e) as [Heq|Hne].
  - injection Heq as -> ->. rewrite H1. destruct (pair_dec sg' s' sg s) as [Heq|Hne].
    + injection Heq as -> ->. rewrite !count_rm_first_same, HR. reflexivity.
    + rewrite !count_rm_first_other; [exact HR| |].
      * intros c. apply ckey_disj. intros Heq. apply Hne. congruence.
      * intros x. apply sigeq_disj. exact Hne.
  - rewrite H2 by exact Hne. rewrite count_rm_first_other; [exact HR|].
    intros c. apply ckey_disj. intros Heq. apply Hne. congruence.
Qed.

(* a listener whose list is exempt: the reference object may forget its connections freely *)
Lemma RL_spdisc_skip kL st p e sg l s : kL l = true -> RL kL st p -> RL kL st (sp_disconnect p e sg l s).
Proof.
  intros Hkl HR l' Hl' Hk e' sg' s'. unfold sp_disconnect; cbn [sp_conns]. cbn in Hl'.
  rewrite count_rm_first_other; [apply HR; assumption|].
  intros c. apply ckey_disj. intros Heq. injection Heq as _ _ -> _. congruence.
Qed.

Lemma lst_unlinkE st e sg l s l' e' : lst (unlinkE st e sg l s) l' e' = lst st l' e'.
Proof. unfold unlinkE. destruct (sdo st e sg); reflexivity. Qed.

Lemma sdisc_noop p e sg l s : existsb (ckey e sg l s) (sp_conns p) = false -> sp_disconnect p e sg l s = p.
Proof. intros H. unfold sp_disconnect. rewrite rm_first_none by exact H. destruct p; reflexivity. Qed.

Lemma disconnect_RT st p T e sg l s :
  RT st p T -> sp_E p e = true -> sp_L p l = true ->
  exists st', disconnect st e sg l s = Some st' /\
    RT st' (sp_disconnect p e sg l s) (upd2 T e sg (tunlink (sdo st e sg) l s (T e sg))).
Proof.
  intros [HE HL] He Hl. unfold disconnect.
  rewrite (r_E _ _ _ _ HE), He. cbn [negb].
  pose proof (RE_unlink _ _ _ _ e sg l s HE He) as HE'. unfold unlinkE in HE'. fold (sdo st e sg).
  destruct (sdo st e sg) as [sd|] eqn:Hsd.
  - set (st1 := setE st e (set_sig (st_E st e) sg (unlink_slot sd l s))) in *.
    change (st_L st1 l) with (st_L st l). rewrite (r_L _ _ _ _ HE), Hl. cbn [negb].
    destruct (l_ems (st_L st l) e) as [xs|] eqn:Hxs.
    + eexists; split; [reflexivity|]. split.
      * apply RE_setL; [reflexivity|exact HE'].
      * eapply RL_forget; [| |exact HL].
        -- change (st_L st l) with (st_L st1 l). rewrite lst_setL_same. unfold lst. rewrite Hxs. reflexivity.
        -- intros l' e' Hne. change (st_L st l) with (st_L st1 l). rewrite lst_setL_other by exact Hne. reflexivity.
    + eexists; split; [reflexivity|]. split; [exact HE'|].
      eapply RL_forget; [| |exact HL].
      * change (lst st1 l e) with (lst st l e). unfold lst. rewrite Hxs. reflexivity.
      * reflexivity.
  - eexists; split; [reflexivity|]. split; [exact HE'|].
    rewrite sdisc_noop; [exact HL|]. rewrite count_existsb.
    assert (Hc : count (ckey e sg l s) (sp_conns p) = 0); [|rewrite Hc; reflexivity].
    apply count_zero_iff. intros c Hc. destruct (ckey e sg l s c) eqn:Hk; [|reflexivity].
    pose proof (r_sig _ _ _ _ HE e sg He eq_refl) as HS. rewrite Hsd in HS.
    destruct (SigLive_None_conns _ _ _ _ HS) as [_ Hcs]. unfold conns in Hcs.
    assert (Hin : In c (filter (on_es e sg) (sp_conns p))).
    { apply filter_In. split; [exact Hc|]. unfold ckey in Hk. apply andb_true_iff in Hk as [Hk _]. exact Hk. }
    rewrite Hcs in Hin. destruct Hin.
Qed.

(* ================= emission ================= *)
Definition set_em (p : sp) (e sg : nat) (m : emi) : sp :=
  mkSp (sp_conns p) (sp_next p) (sp_E p) (sp_L p) (upd2 (sp_em p) e sg m) (sp_nsg p).

Lemma RE_pext kE st p p' T :
  sp_conns p' = sp_conns p -> sp_next p' = sp_next p -> (forall e, sp_E p' e = sp_E p e) -> (forall l, sp_L p' l = sp_L p l) ->
  (forall e sg, sp_em p' e sg = sp_em p e sg) -> sp_nsg p' = sp_nsg p -> RE kE st p T -> RE kE st p' T.
Proof.
  intros Hc Hn HE HL Hm Hg H. dRE H. constructor.
  - intros e. rewrite HE. apply r_E0.
  - intros l. rewrite HL. apply r_L0.
  - rewrite Hg. exact r_nsg0.
  - dWF r_wf0. constructor; rewrite ?Hc, ?Hn; try assumption.
    intros c Hin. rewrite HE, HL, Hg. apply wf_live0. exact Hin.
  - intros e He. apply r_ne0. rewrite <- HE. exact He.
  - intros e sg He Hk. unfold conns. rewrite Hc, Hm, Hn. apply r_sig0; [rewrite <- HE|]; assumption.
  - intros e sg He. rewrite Hm. apply r_dead0. rewrite <- HE. exact He.
Qed.

Lemma RL_pext kL st st' p p' :
  sp_conns p' = sp_conns p -> (forall l, sp_L p' l = sp_L p l) -> (forall l e, lst st' l e = lst st l e) ->
  RL kL st p -> RL kL st' p'.
Proof. intros Hc HL Hl H l Hl' Hk e sg s. rewrite Hc, Hl. apply H; [rewrite <- HL|]; assumption. Qed.

Lemma RE_update kE st p T e sg sd' tl' m' :
  RE kE st p T ->
  (sp_E p e = true -> kE e = false ->
   SigLive (sdo st e sg) (T e sg) (conns p e sg) (sp_em p e sg) (sp_next p) -> SigLive (Some sd') tl' (conns p e sg) m' (sp_next p)) ->
  (sp_E p e = false -> SigDead (sdo st e sg) (sp_em p e sg) -> SigDead (Some sd') m') ->
  RE kE (setE st e (set_sig (st_E st e) sg sd')) (set_em p e sg m') (upd2 T e sg tl').
Proof.
  intros H HA HD. dRE H. constructor; unfold set_em; cbn [sp_E sp_L sp_nsg sp_next sp_em sp_conns].
  - intros e'. rewrite alive_setE_sig. apply r_E0.
  - exact r_L0.
  - exact r_nsg0.
  - dWF r_wf0. constructor; assumption.
  - exact r_ne0.
  - intros e' sg' He' Hk. change (conns _ e' sg') with (conns p e' sg').
    destruct (pair_dec e' sg' e sg) as [Heq|Hne].
    + injection Heq as -> ->. rewrite !upd2_same, sdo_setE_same. apply HA; try assumption. apply r_sig0; assumption.
    + rewrite !upd2_other, sdo_setE_other by exact Hne. apply r_sig0; assumption.
  - intros e' sg' He'. destruct (pair_dec e' sg' e sg) as [Heq|Hne].
    + injection Heq as -> ->. rewrite !upd2_same, sdo_setE_same. apply HD; try assumption. apply r_dead0; assumption.
    + rewrite !upd2_other, sdo_setE_other by exact Hne. apply r_dead0; assumption.
Qed.

Lemma in_tl_slot (tl : list tslot) sl x t : map fst tl = sl -> In (x, t) tl -> In x sl.
Proof. intros <- H. change x with (fst (x, t)). apply in_map. exact H. Qed.

Lemma in_tl_tag (tl : list tslot) x t : In (x, t) tl -> In t (map snd tl).
Proof. intros H. change t with (snd (x, t)). apply in_map. exact H. Qed.

(* ---- SignalActivation::SignalActivation ---- *)
Lemma SigLive_begin sd tl cs m next :
  SigLive (Some sd) tl cs m next ->
  SigLive (Some (mkSD (sd_slots sd) (sd_dirty sd) (mkAct false 0 :: sd_acts sd))) tl cs
          (mkEmi (match em_cur m with [] => next | _ => em_w m end) (0 :: em_cur m)) next.
Proof.
  intros H. dSL H. cbn [slotsOf actsOf dirtyOf] in *.
  constructor; cbn [slotsOf actsOf dirtyOf sd_slots sd_acts sd_dirty em_w em_cur]; try assumption.
  - cbn [length]. rewrite sl_len0. reflexivity.
  - constructor; [reflexivity|exact sl_noinv0].
  - discriminate.
  - intros _. destruct (em_cur m) eqn:Hc; [lia|]. apply sl_wle0. intros Ha. rewrite Ha in sl_len0. discriminate.
  - intros _ x t Hin. destruct (em_cur m) eqn:Hc.
    + assert (Ha : sd_acts sd = []) by (destruct (sd_acts sd); [reflexivity|discriminate]).
      pose proof (sl_clean0 (sl_quiet0 Ha)) as Hall. rewrite Forall_forall in Hall.
      rewrite (Hall x (in_tl_slot _ _ _ _ sl_fst0 Hin)). split; [discriminate|]. intros _.
      rewrite Forall_forall in sl_bound0. apply sl_bound0. eapply in_tl_tag; exact Hin.
    + apply sl_wm0; [|exact Hin]. intros Ha. rewrite Ha in sl_len0. discriminate.
  - intros j x t Hn Hc. constructor; [cbn; lia|]. eapply sl_cur0; eassumption.
Qed.

Lemma sp_begin_eq p e sg : sp_begin p e sg =
  set_em p e sg (mkEmi (match em_cur (sp_em p e sg) with [] => sp_next p | _ => em_w (sp_em p e sg) end) (0 :: em_cur (sp_em p e sg))).
Proof. reflexivity. Qed.

Lemma emit_begin_RT st p T e sg sd :
  RT st p T -> sp_E p e = true -> sdo st e sg = Some sd ->
  exists st1, emit_begin st e sg = Some st1 /\ RT st1 (sp_begin p e sg) (upd2 T e sg (T e sg)).
Proof.
  intros [HE HL] He Hsd. unfold emit_begin. rewrite (r_E _ _ _ _ HE), He. cbn [negb]. fold (sdo st e sg). rewrite Hsd.
  eexists; split; [reflexivity|]. rewrite sp_begin_eq. split.
  - apply RE_update; [exact HE| |congruence]. intros _ _ HS. rewrite Hsd in HS. apply SigLive_begin. exact HS.
  - eapply RL_pext; [| | |exact HL]; reflexivity.
Qed.

(* ---- the emit loop up to the next call ---- *)
Lemma first_conn_some sl : forall n x, first_conn sl = Some (n, x) ->
  nth_error sl n = Some x /\ is_conn x = true /\ (forall i y, i < n -> nth_error sl i = Some y -> is_conn y = false).
Proof.
  induction sl as [|a t IH]; intros n x; [discriminate|]. cbn [first_conn]. destruct (is_conn a) eqn:Ha.
  - intros H. injection H as <- <-. repeat split; [exact Ha|]. intros i y Hi. lia.
  - destruct (first_conn t) as [[k y]|]; [|discriminate]. intros H. injection H as <- <-.
    destruct (IH k y eq_refl) as (H1 & H2 & H3). repeat split; [exact H1|exact H2|].
    intros i z Hi Hz. destruct i; [cbn in Hz; injection Hz as <-; exact Ha|]. cbn in Hz. apply (H3 i z); [lia|exact Hz].
Qed.

Lemma first_conn_none sl : first_conn sl = None -> forall i y, nth_error sl i = Some y -> is_conn y = false.
Proof.
  induction sl as [|a t IH]; intros H i y Hy; [destruct i; discriminate|]. cbn [first_conn] in H.
  destruct (is_conn a) eqn:Ha; [discriminate|]. destruct (first_conn t) as [[k z]|] eqn:Hf; [discriminate|].
  destruct i; [cbn in Hy; injection Hy as <-; exact Ha|]. cbn in Hy. eapply IH; [reflexivity|exact Hy].
Qed.

Lemma nth_error_skipn' {A} (l : list A) n i : nth_error (skipn n l) i = nth_error l (n + i).
Proof.
  revert l. induction n as [|n IH]; intros l; [reflexivity|]. destruct l as [|a t]; [destruct i; reflexivity|].
  cbn [skipn plus nth_error]. apply IH.
Qed.

Lemma nth_tl_slot (tl : list tslot) sl j x : map fst tl = sl -> nth_error sl j = Some x -> exists t, nth_error tl j = Some (x, t).
Proof.
  intros <- H. apply nth_error_map_some in H as (y & Hy & <-). exists (snd y). rewrite Hy. destruct y; reflexivity.
Qed.

Lemma nth_tl_slot' (tl : list tslot) sl j x t : map fst tl = sl -> nth_error tl j = Some (x, t) -> nth_error sl j = Some x.
Proof. intros <- H. rewrite nth_error_map, H. reflexivity. Qed.

Definition turnq (k w : nat) (c : conn) : bool := (k <=? c_seq c) && (c_seq c <? w).
Definition turnk (k w : nat) (y : nat * nat * nat) : bool := (k <=? snd y) && (snd y <? w).

Lemma sp_turn_eq p e sg : sp_turn p e sg =
  match em_cur (sp_em p e sg) with
  | [] => None
  | k :: _ => find (turnq k (em_w (sp_em p e sg))) (conns p e sg)
  end.
Proof. unfold sp_turn, conns. destruct (em_cur (sp_em p e sg)); [reflexivity|]. apply find_filter. Qed.

Lemma Forall2_cons_inv {A B} (P : A -> B -> Prop) a l b m : Forall2 P (a :: l) (b :: m) -> P a b /\ Forall2 P l m.
Proof. intros H. inversion H; subst. split; assumption. Qed.

Lemma slot_state_cases x : s_state x = Disconnected \/ s_state x = Connecting \/ s_state x = Connected.
Proof. destruct (s_state x); auto. Qed.

Lemma is_conn_iff x : is_conn x = true <-> s_state x = Connected.
Proof. unfold is_conn. destruct (s_state x); split; congruence. Qed.

Lemma SigLive_next_some sd tl cs m next a rest k ks n x :
  SigLive (Some sd) tl cs m next -> sd_acts sd = a :: rest -> em_cur m = k :: ks ->
  first_conn (skipn (a_pos a) (sd_slots sd)) = Some (n, x) ->
  exists c, find (turnq k (em_w m)) cs = Some c /\ c_l c = s_recv x /\ c_s c = s_slot x /\
    SigLive (Some (mkSD (sd_slots sd) (sd_dirty sd) (mkAct (a_inval a) (S (a_pos a + n)) :: rest))) tl cs
            (mkEmi (em_w m) (S (c_seq c) :: ks)) next.
Proof.
  intros H Ha Hk Hf. dSL H. cbn [slotsOf actsOf dirtyOf] in *.
  apply first_conn_some in Hf as (Hn & Hc & Hmin). rewrite nth_error_skipn' in Hn.
  set (j := a_pos a + n) in *.
  destruct (nth_tl_slot _ _ _ _ sl_fst0 Hn) as [t Ht].
  assert (Hane : sd_acts sd <> []) by congruence.
  assert (Hkt : k <= t /\ t < em_w m).
  { pose proof (sl_cur0 j x t Ht Hc) as HF. rewrite Ha, Hk in HF. inversion HF; subst. cbn in *. split; [lia|].
    apply (sl_wm0 Hane x t); [eapply nth_error_In; exact Ht|]. apply is_conn_iff. exact Hc. }
  assert (Hfind : find (fun y => tnd y && turnk k (em_w m) (tkey y)) tl = Some (x, t)).
  { apply (find_first _ _ j); [exact Ht| |].
    - unfold tnd, nd, is_disc, turnk, tkey; cbn [fst snd]. apply is_conn_iff in Hc. rewrite Hc. cbn [negb andb].
      apply andb_true_iff. split; [apply Nat.leb_le|apply Nat.ltb_lt]; lia.
    - intros i [z tz] Hi Hz. unfold tnd, nd, is_disc, turnk, tkey; cbn [fst snd].
      destruct (slot_state_cases z) as [Hs|[Hs|Hs]]; rewrite Hs; cbn [negb andb]; [reflexivity| |].
      + replace (tz <? em_w m) with false; [apply andb_false_r|]. symmetry. apply Nat.ltb_ge.
        apply (sl_wm0 Hane z tz); [eapply nth_error_In; exact Hz|exact Hs].
      + apply is_conn_iff in Hs. destruct (le_lt_dec (a_pos a) i) as [Hge|Hlt].
        * exfalso. assert (Hz' : nth_error (skipn (a_pos a) (sd_slots sd)) (i - a_pos a) = Some z).
          { rewrite nth_error_skipn'. replace (a_pos a + (i - a_pos a)) with i by lia. eapply nth_tl_slot'; eassumption. }
          rewrite (Hmin (i - a_pos a) z) in Hs; [discriminate| |exact Hz']. unfold j in Hi. lia.
        * pose proof (sl_cur0 i z tz Hz Hs) as HF. rewrite Ha, Hk in HF. inversion HF; subst. cbn in *.
          replace (k <=? tz) with false; [reflexivity|]. symmetry. apply Nat.leb_gt. lia. }
  rewrite find_filter in Hfind.
  pose proof (find_map_corr tkey key3 (turnk k (em_w m)) (filter tnd tl) cs sl_keys0) as Hcorr.
  rewrite Hfind in Hcorr. change (fun y : conn => turnk k (em_w m) (key3 y)) with (turnq k (em_w m)) in Hcorr.
  destruct (find (turnq k (em_w m)) cs) as [c|]; [|destruct Hcorr].
  unfold tkey, key3 in Hcorr; cbn in Hcorr. injection Hcorr as H1 H2 H3.
  exists c. split; [reflexivity|]. split; [congruence|]. split; [congruence|].
  constructor; cbn [slotsOf actsOf dirtyOf sd_slots sd_acts sd_dirty em_w em_cur]; try assumption.
  - rewrite Ha, Hk in sl_len0. exact sl_len0.
  - rewrite Ha in sl_noinv0. inversion sl_noinv0; subst. constructor; assumption.
  - discriminate.
  - intros _. apply sl_wle0. exact Hane.
  - intros _. apply sl_wm0. exact Hane.
  - intros j' x' t' Hn' Hc'. pose proof (sl_cur0 j' x' t' Hn' Hc') as HF. rewrite Ha, Hk in HF.
    apply Forall2_cons_inv in HF as [HF1 HF2].
    constructor; [|assumption]. cbn [a_pos]. fold j. rewrite <- H3.
    assert (Hiff : j < j' <-> t < t').
    { apply (sorted_nth_iff _ sl_sorted0); rewrite nth_error_map; [rewrite Ht|rewrite Hn']; reflexivity. }
    lia.
Qed.

Lemma SigLive_next_none sd tl cs m next a rest k ks :
  SigLive (Some sd) tl cs m next -> sd_acts sd = a :: rest -> em_cur m = k :: ks ->
  first_conn (skipn (a_pos a) (sd_slots sd)) = None ->
  find (turnq k (em_w m)) cs = None /\
  SigLive (Some (mkSD (sd_slots sd) (sd_dirty sd) (mkAct (a_inval a) (length (sd_slots sd)) :: rest))) tl cs m next.
Proof.
  intros H Ha Hk Hf. dSL H. cbn [slotsOf actsOf dirtyOf] in *.
  assert (Hane : sd_acts sd <> []) by congruence.
  pose proof (first_conn_none _ Hf) as Hnone.
  assert (Hlow : forall i z tz, nth_error tl i = Some (z, tz) -> is_conn z = true -> i < a_pos a /\ ~ k <= tz).
  { intros i z tz Hz Hs. destruct (le_lt_dec (a_pos a) i) as [Hge|Hlt].
    - exfalso. assert (Hz' : nth_error (skipn (a_pos a) (sd_slots sd)) (i - a_pos a) = Some z).
      { rewrite nth_error_skipn'. replace (a_pos a + (i - a_pos a)) with i by lia. eapply nth_tl_slot'; eassumption. }
      rewrite (Hnone _ _ Hz') in Hs. discriminate.
    - split; [exact Hlt|]. pose proof (sl_cur0 i z tz Hz Hs) as HF. rewrite Ha, Hk in HF. inversion HF; subst. cbn in *. lia. }
  split.
  - apply find_none_iff. intros c Hc. destruct (turnq k (em_w m) c) eqn:Hq; [|reflexivity]. exfalso.
    destruct (map_eq_in tkey key3 _ _ sl_keys0 c Hc) as ([z tz] & Hin & Hkey).
    apply filter_In in Hin as [Hin Hnd]. unfold tkey, key3 in Hkey; cbn in Hkey. injection Hkey as _ _ Hseq.
    unfold turnq in Hq. apply andb_true_iff in Hq as [Hq1 Hq2]. apply Nat.leb_le in Hq1. apply Nat.ltb_lt in Hq2.
    rewrite <- Hseq in Hq1, Hq2.
    apply In_nth_error in Hin as [i Hi].
    destruct (slot_state_cases z) as [Hs|[Hs|Hs]].
    + unfold tnd, nd, is_disc in Hnd; cbn in Hnd. rewrite Hs in Hnd. discriminate.
    + pose proof (proj1 (sl_wm0 Hane z tz (nth_error_In _ _ Hi)) Hs). lia.
    + apply is_conn_iff in Hs. destruct (Hlow i z tz Hi Hs) as [_ Hn]. lia.
  - constructor; cbn [slotsOf actsOf dirtyOf sd_slots sd_acts sd_dirty]; try assumption.
    + rewrite Ha in sl_len0. exact sl_len0.
    + rewrite Ha in sl_noinv0. inversion sl_noinv0; subst. constructor; assumption.
    + discriminate.
    + intros _. apply sl_wle0. exact Hane.
    + intros _. apply sl_wm0. exact Hane.
    + intros j' x' t' Hn' Hc'. pose proof (sl_cur0 j' x' t' Hn' Hc') as HF. rewrite Ha, Hk in HF. rewrite Hk. inversion HF; subst.
      constructor; [|assumption]. cbn [a_pos]. destruct (Hlow j' x' t' Hn' Hc') as [_ Hn].
      assert (j' < length (sd_slots sd)). { rewrite <- sl_fst0, map_length. apply nth_error_Some. congruence. }
      lia.
Qed.

Lemma sp_advance_eq p e sg c : sp_advance p e sg c =
  set_em p e sg (mkEmi (em_w (sp_em p e sg)) (S (c_seq c) :: tl (em_cur (sp_em p e sg)))).
Proof. reflexivity. Qed.

Lemma set_em_id_RE kE st p T e sg : RE kE st (set_em p e sg (sp_em p e sg)) T -> RE kE st p T.
Proof.
  apply RE_pext; try reflexivity. intros e' sg'. unfold set_em; cbn [sp_em].
  destruct (pair_dec e' sg' e sg) as [Heq|Hne]; [injection Heq as -> ->; rewrite upd2_same|rewrite upd2_other by exact Hne]; reflexivity.
Qed.

Lemma live_has_sd kE st p T e sg : RE kE st p T -> sp_E p e = true -> kE e = false -> em_cur (sp_em p e sg) <> [] ->
  exists sd a rest k ks, sdo st e sg = Some sd /\ sd_acts sd = a :: rest /\ em_cur (sp_em p e sg) = k :: ks.
Proof.
  intros HE He Hk Hcur. pose proof (sl_len _ _ _ _ _ (r_sig _ _ _ _ HE e sg He Hk)) as Hlen.
  destruct (em_cur (sp_em p e sg)) as [|k ks]; [congruence|].
  destruct (sdo st e sg) as [sd|]; [|discriminate]. cbn in Hlen. destruct (sd_acts sd) as [|a rest] eqn:Ha; [discriminate|].
  exists sd, a, rest, k, ks. auto.
Qed.

Lemma emit_next_RT st p T e sg :
  RT st p T -> sp_E p e = true -> em_cur (sp_em p e sg) <> [] ->
  (exists st1 T', emit_next st e sg = Some (st1, None) /\ sp_turn p e sg = None /\ RT st1 p T') \/
  (exists st1 x c T', emit_next st e sg = Some (st1, Some x) /\ sp_turn p e sg = Some c /\
     c_l c = s_recv x /\ c_s c = s_slot x /\ RT st1 (sp_advance p e sg c) T').
Proof.
  intros [HE HL] He Hcur.
  destruct (live_has_sd _ _ _ _ e sg HE He eq_refl Hcur) as (sd & a & rest & k & ks & Hsd & Ha & Hk).
  pose proof (r_sig _ _ _ _ HE e sg He eq_refl) as HS. rewrite Hsd in HS.
  unfold emit_next. rewrite (r_E _ _ _ _ HE), He. cbn [negb]. fold (sdo st e sg). rewrite Hsd, Ha.
  rewrite sp_turn_eq, Hk.
  destruct (first_conn (skipn (a_pos a) (sd_slots sd))) as [[n x]|] eqn:Hf.
  - right. destruct (SigLive_next_some _ _ _ _ _ _ _ _ _ _ _ HS Ha Hk Hf) as (c & Hfind & H1 & H2 & HS').
    do 4 eexists. split; [reflexivity|]. split; [exact Hfind|]. split; [exact H1|]. split; [exact H2|].
    rewrite sp_advance_eq, Hk. cbn [tl]. split.
    + apply RE_update with (tl' := T e sg); [exact HE| |congruence]. intros _ _ _. exact HS'.
    + eapply RL_pext; [| | |exact HL]; reflexivity.
  - left. destruct (SigLive_next_none _ _ _ _ _ _ _ _ _ HS Ha Hk Hf) as (Hfind & HS').
    do 2 eexists. split; [reflexivity|]. split; [exact Hfind|]. split.
    + apply (set_em_id_RE _ _ _ _ e sg). apply RE_update with (tl' := T e sg); [exact HE| |congruence]. intros _ _ _. exact HS'.
    + eapply RL_pext; [| | |exact HL]; reflexivity.
Qed.

(* ---- `if(activation.invalidated) return;` ---- *)
Lemma invalidated_RT st p T e sg : RT st p T -> em_cur (sp_em p e sg) <> [] -> invalidated st e sg = negb (sp_E p e).
Proof.
  intros [HE _] Hcur. unfold invalidated. fold (sdo st e sg). destruct (sp_E p e) eqn:He.
  - destruct (live_has_sd _ _ _ _ e sg HE He eq_refl Hcur) as (sd & a & rest & k & ks & Hsd & Ha & Hk).
    pose proof (sl_noinv _ _ _ _ _ (r_sig _ _ _ _ HE e sg He eq_refl)) as Hn. rewrite Hsd in *. cbn in Hn. rewrite Ha in *.
    inversion Hn; subst. assumption.
  - pose proof (r_dead _ _ _ _ HE e sg He) as HD. destruct HD as [_ Hlen Hinv].
    destruct (sdo st e sg) as [sd|]; cbn in *.
    + destruct (sd_acts sd) as [|a rest]; [|exact Hinv]. cbn in Hlen. destruct (em_cur (sp_em p e sg)); [congruence|discriminate].
    + destruct (em_cur (sp_em p e sg)); [congruence|discriminate].
Qed.

(* ---- SignalActivation::~SignalActivation ---- *)
Definition promote (x : slot) : slot := mkSlot (s_recv x) (s_slot x) Connected.
Definition tcleanup (tl : list tslot) : list tslot := map (fun y => (promote (fst y), snd y)) (filter tnd tl).

Lemma cleanup_eq sl : cleanup sl = map promote (filter nd sl).
Proof.
  induction sl as [|x t IH]; [reflexivity|]. cbn [cleanup filter]. unfold nd at 1, is_disc.
  destruct (s_state x); cbn [negb map]; rewrite IH; reflexivity.
Qed.

Lemma map_fst_tcleanup tl : map fst (tcleanup tl) = cleanup (map fst tl).
Proof.
  rewrite cleanup_eq. unfold tcleanup. rewrite map_map. cbn [fst].
  induction tl as [|y r IH]; [reflexivity|]. cbn [filter map]. unfold tnd at 1. destruct (nd (fst y)); cbn [map]; rewrite IH; reflexivity.
Qed.

Lemma map_snd_tcleanup tl : map snd (tcleanup tl) = map snd (filter tnd tl).
Proof. unfold tcleanup. rewrite map_map. reflexivity. Qed.

Lemma filter_tnd_tcleanup tl : filter tnd (tcleanup tl) = tcleanup tl.
Proof.
  unfold tcleanup. induction (filter tnd tl) as [|y r IH]; [reflexivity|]. cbn [map filter]. unfold tnd at 1; cbn. rewrite IH. reflexivity.
Qed.

Lemma map_tkey_tcleanup tl : map tkey (tcleanup tl) = map tkey (filter tnd tl).
Proof. unfold tcleanup. rewrite map_map. reflexivity. Qed.

Definition end_sd (sd : sigdata) (rest : list act) : sigdata :=
  match rest with
  | [] => if sd_dirty sd then mkSD (cleanup (sd_slots sd)) false [] else mkSD (sd_slots sd) false []
  | _ => mkSD (sd_slots sd) (sd_dirty sd) rest
  end.
Definition end_tl (sd : sigdata) (rest : list act) (tl : list tslot) : list tslot :=
  match rest with [] => if sd_dirty sd then tcleanup tl else tl | _ => tl end.

Lemma Forall_map_filter {A B} (P : B -> Prop) (f : A -> B) p l : Forall P (map f l) -> Forall P (map f (filter p l)).
Proof.
  rewrite !Forall_forall. intros H x Hx. apply H. apply in_map_iff in Hx as (y & <- & Hy). apply in_map.
  apply filter_In in Hy as [Hy _]. exact Hy.
Qed.

Lemma SigLive_end sd tl cs m next a rest k ks :
  SigLive (Some sd) tl cs m next -> sd_acts sd = a :: rest -> em_cur m = k :: ks ->
  SigLive (Some (end_sd sd rest)) (end_tl sd rest tl) cs (mkEmi (em_w m) ks) next.
Proof.
  intros H Ha Hk. dSL H. cbn [slotsOf actsOf dirtyOf] in *.
  assert (Hane : sd_acts sd <> []) by congruence.
  rewrite Ha, Hk in sl_len0. cbn [length] in sl_len0. injection sl_len0 as Hlen.
  rewrite Ha in sl_noinv0. apply Forall_cons_iff in sl_noinv0 as [_ Hnoinv].
  unfold end_sd, end_tl. destruct rest as [|a1 rest].
  - assert (ks = []) by (destruct ks; [reflexivity|discriminate]). subst ks.
    destruct (sd_dirty sd) eqn:Hd.
    + constructor; cbn [slotsOf actsOf dirtyOf sd_slots sd_acts sd_dirty em_w em_cur]; try congruence; try reflexivity.
      * rewrite map_fst_tcleanup, sl_fst0. reflexivity.
      * rewrite map_snd_tcleanup. apply sorted_map_filter. exact sl_sorted0.
      * rewrite map_snd_tcleanup. apply Forall_map_filter. exact sl_bound0.
      * rewrite filter_tnd_tcleanup, map_tkey_tcleanup. exact sl_keys0.
      * intros _. rewrite cleanup_eq. apply Forall_forall. intros x Hx. apply in_map_iff in Hx as (y & <- & _). reflexivity.
      * intros; constructor.
    + constructor; cbn [slotsOf actsOf dirtyOf sd_slots sd_acts sd_dirty em_w em_cur]; try congruence; try reflexivity; try assumption.
      intros; constructor.
  - constructor; cbn [slotsOf actsOf dirtyOf sd_slots sd_acts sd_dirty em_w em_cur]; try assumption.
    + discriminate.
    + intros _. apply sl_wle0. exact Hane.
    + intros _. apply sl_wm0. exact Hane.
    + intros j x t Hn Hc. pose proof (sl_cur0 j x t Hn Hc) as HF. rewrite Ha, Hk in HF.
      apply Forall2_cons_inv in HF as [_ HF]. exact HF.
Qed.

Lemma sp_end_eq p e sg : sp_end p e sg = set_em p e sg (mkEmi (em_w (sp_em p e sg)) (tl (em_cur (sp_em p e sg)))).
Proof. reflexivity. Qed.

Lemma invalidate_length a : length (invalidate a) = length a.
Proof. destruct a; reflexivity. Qed.

Lemma emit_end_RT st p T e sg :
  RT st p T -> em_cur (sp_em p e sg) <> [] ->
  exists st3 T', emit_end st e sg = Some st3 /\ RT st3 (sp_end p e sg) T'.
Proof.
  intros [HE HL] Hcur. unfold emit_end. fold (sdo st e sg). rewrite sp_end_eq.
  destruct (sp_E p e) eqn:He.
  - destruct (live_has_sd _ _ _ _ e sg HE He eq_refl Hcur) as (sd & a & rest & k & ks & Hsd & Ha & Hk).
    pose proof (r_sig _ _ _ _ HE e sg He eq_refl) as HS. rewrite Hsd in HS.
    pose proof (sl_noinv _ _ _ _ _ HS) as Hn. cbn in Hn. rewrite Ha in Hn. apply Forall_cons_iff in Hn as [Hn _].
    rewrite Hsd, Ha, Hn, (r_E _ _ _ _ HE), He. cbn [negb]. rewrite Hk. cbn [tl].
    pose proof (SigLive_end _ _ _ _ _ _ _ _ _ HS Ha Hk) as HS'.
    assert (HR : RT (setE st e (set_sig (st_E st e) sg (end_sd sd rest))) (set_em p e sg (mkEmi (em_w (sp_em p e sg)) ks)) (upd2 T e sg (end_tl sd rest (T e sg)))).
    { split; [apply RE_update; [exact HE| |congruence]; intros _ _ _; exact HS'|eapply RL_pext; [| | |exact HL]; reflexivity]. }
    unfold end_sd in HR. destruct rest as [|a1 rest].
    + destruct (sd_dirty sd); do 2 eexists; (split; [reflexivity|exact HR]).
    + do 2 eexists; (split; [reflexivity|exact HR]).
  - pose proof (r_dead _ _ _ _ HE e sg He) as HD. destruct HD as [Hsl Hlen Hinv].
    destruct (em_cur (sp_em p e sg)) as [|k ks] eqn:Hk; [congruence|].
    destruct (sdo st e sg) as [sd|] eqn:Hsd; [|discriminate]. cbn in Hsl, Hlen, Hinv.
    destruct (sd_acts sd) as [|a rest] eqn:Ha; [discriminate|]. rewrite Hinv. cbn [tl].
    do 2 eexists. split; [reflexivity|]. split.
    + change (mkE (e_alive (st_E st e)) (upd1 (e_sigs (st_E st e)) sg (Some ?x))) with (set_sig (st_E st e) sg x).
      apply RE_update with (tl' := T e sg); [exact HE|congruence|]. intros _ _.
      constructor; cbn [slotsOf actsOf sd_slots sd_acts em_cur].
      * exact Hsl.
      * rewrite invalidate_length. cbn in Hlen. lia.
      * destruct rest; [exact I|reflexivity].
    + eapply RL_pext; [| | |exact HL]; reflexivity.
Qed.
