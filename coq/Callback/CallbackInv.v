(* C12 - the refinement relation between the model (CallbackModel) and the reference object
   (CallbackSpec), and its establishment by init.

   The relation RT st p T is stated with a ghost annotation T : for every (emitter, signal) the
   model's slot list zipped with the connection serial numbers of the reference object.  The
   annotation is existentially quantified in R; the model itself carries no ghost state. *)
From Coq Require Import List Arith Bool Lia Sorted.
From Callback Require Import CallbackSpec CallbackModel CallbackLists.
Import ListNotations.

Notation tslot := (slot * nat)%type.
Definition key3 (c : conn) : nat * nat * nat := (c_l c, c_s c, c_seq c).
Definition tkey (y : tslot) : nat * nat * nat := (s_recv (fst y), s_slot (fst y), snd y).
Definition tnd (y : tslot) : bool := nd (fst y).

Definition sdo (st : state) (e sg : nat) : option sigdata := e_sigs (st_E st e) sg.
Definition slotsOf (o : option sigdata) : list slot := match o with Some sd => sd_slots sd | None => [] end.
Definition actsOf (o : option sigdata) : list act := match o with Some sd => sd_acts sd | None => [] end.
Definition dirtyOf (o : option sigdata) : bool := match o with Some sd => sd_dirty sd | None => false end.
Definition lst (st : state) (l e : nat) : list (nat * nat) := match l_ems (st_L st l) e with Some x => x | None => [] end.
Definition conns (p : sp) (e sg : nat) : list conn := filter (on_es e sg) (sp_conns p).

(* emitter side of one signal of a live emitter *)
Record SigLive (o : option sigdata) (tl : list tslot) (cs : list conn) (m : emi) (next : nat) : Prop := {
  sl_fst : map fst tl = slotsOf o;
  sl_sorted : sorted (map snd tl);
  sl_bound : Forall (fun t => t < next) (map snd tl);
  sl_keys : map tkey (filter tnd tl) = map key3 cs;
  sl_len : length (actsOf o) = length (em_cur m);
  sl_noinv : Forall (fun a => a_inval a = false) (actsOf o);
  sl_quiet : actsOf o = [] -> dirtyOf o = false;
  sl_clean : dirtyOf o = false -> Forall (fun x => s_state x = Connected) (slotsOf o);
  sl_wle : actsOf o <> [] -> em_w m <= next;
  sl_wm : actsOf o <> [] -> forall x t, In (x, t) tl ->
          (s_state x = Connecting -> em_w m <= t) /\ (s_state x = Connected -> t < em_w m);
  sl_cur : forall j x t, nth_error tl j = Some (x, t) -> is_conn x = true ->
           Forall2 (fun a k => a_pos a <= j <-> k <= t) (actsOf o) (em_cur m) }.

(* what is left of a signal of a destroyed emitter: the chain of activations (stack objects) *)
Record SigDead (o : option sigdata) (m : emi) : Prop := {
  sd_slots0 : slotsOf o = [];
  sd_len : length (actsOf o) = length (em_cur m);
  sd_inv : match actsOf o with [] => True | a :: _ => a_inval a = true end }.

Record SpWf (p : sp) : Prop := {
  wf_sorted : sorted (map c_seq (sp_conns p));
  wf_bound : Forall (fun t => t < sp_next p) (map c_seq (sp_conns p));
  wf_live : forall c, In c (sp_conns p) -> sp_E p (c_e c) = true /\ sp_L p (c_l c) = true /\ c_sg c < sp_nsg p }.

(* kE: emitters whose slot lists are exempt (being destroyed); kL: listeners whose lists are exempt *)
Record RE (kE : nat -> bool) (st : state) (p : sp) (T : nat -> nat -> list tslot) : Prop := {
  r_E : forall e, e_alive (st_E st e) = sp_E p e;
  r_L : forall l, l_alive (st_L st l) = sp_L p l;
  r_nsg : st_nsg st = sp_nsg p;
  r_wf : SpWf p;
  r_ne : forall e, sp_E p e = true -> e < st_ne st;
  r_sig : forall e sg, sp_E p e = true -> kE e = false ->
          SigLive (sdo st e sg) (T e sg) (conns p e sg) (sp_em p e sg) (sp_next p);
  r_dead : forall e sg, sp_E p e = false -> SigDead (sdo st e sg) (sp_em p e sg) }.

Definition RL (kL : nat -> bool) (st : state) (p : sp) : Prop :=
  forall l, sp_L p l = true -> kL l = false -> forall e sg s,
    count (sigeq sg s) (lst st l e) = count (ckey e sg l s) (sp_conns p).

Definition none1 (_ : nat) : bool := false.
Definition RT (st : state) (p : sp) (T : nat -> nat -> list tslot) : Prop := RE none1 st p T /\ RL none1 st p.
Definition R (st : state) (p : sp) : Prop := exists T, RT st p T.

(* ---- small facts ---- *)
Lemma upd1_same {A} (f : nat -> A) k v : upd1 f k v k = v.
Proof. unfold upd1. rewrite Nat.eqb_refl. reflexivity. Qed.
Lemma upd1_other {A} (f : nat -> A) k v k' : k' <> k -> upd1 f k v k' = f k'.
Proof. intros H. unfold upd1. apply Nat.eqb_neq in H. rewrite H. reflexivity. Qed.
Lemma upd2_same {A} (f : nat -> nat -> A) e sg v : upd2 f e sg v e sg = v.
Proof. unfold upd2. rewrite !Nat.eqb_refl. reflexivity. Qed.
Lemma upd2_other {A} (f : nat -> nat -> A) e sg v e' sg' : (e', sg') <> (e, sg) -> upd2 f e sg v e' sg' = f e' sg'.
Proof.
  intros H. unfold upd2. destruct (Nat.eqb_spec e' e) as [->|]; [|reflexivity].
  destruct (Nat.eqb_spec sg' sg) as [->|]; [|reflexivity]. exfalso; apply H; reflexivity.
Qed.

Lemma pair_dec (e' sg' e sg : nat) : {(e', sg') = (e, sg)} + {(e', sg') <> (e, sg)}.
Proof. decide equality; apply Nat.eq_dec. Qed.

Lemma conns_nil_live p e sg : SpWf p -> sp_E p e = false -> conns p e sg = [].
Proof.
  intros W He. unfold conns. destruct (filter (on_es e sg) (sp_conns p)) as [|c t] eqn:Hf; [reflexivity|].
  assert (Hin : In c (filter (on_es e sg) (sp_conns p))) by (rewrite Hf; left; reflexivity).
  apply filter_In in Hin as [Hin Hon]. unfold on_es in Hon. apply andb_true_iff in Hon as [H1 _].
  apply Nat.eqb_eq in H1. destruct (wf_live p W c Hin) as [H _]. rewrite H1 in H. congruence.
Qed.

Lemma conns_sorted p e sg : SpWf p -> sorted (map c_seq (conns p e sg)).
Proof. intros W. apply sorted_map_filter. apply (wf_sorted p W). Qed.

Lemma SigLive_next_mono o tl cs m n n' : n <= n' -> SigLive o tl cs m n -> SigLive o tl cs m n'.
Proof.
  intros Hn H. destruct H. constructor; try assumption.
  - eapply Forall_impl; [|exact sl_bound0]. cbn. intros; lia.
  - intros Ha. specialize (sl_wle0 Ha). lia.
Qed.

(* ---- init ---- *)
Lemma SigLive_init n : SigLive None [] [] (mkEmi 0 []) n.
Proof.
  constructor; cbn; try reflexivity; try (intros; constructor); try congruence.
Qed.

Lemma RT_init ne nl nsg : RT (init ne nl nsg) (sp_init ne nl nsg) (fun _ _ => []).
Proof.
  split.
  - constructor; cbn; try reflexivity.
    + constructor; cbn; [constructor|constructor|intros c []].
    + intros e H. apply Nat.ltb_lt in H. exact H.
    + intros e sg _ _. apply SigLive_init.
    + intros e sg _. constructor; cbn; auto.
  - intros l _ _ e sg s. reflexivity.
Qed.

Lemma R_init ne nl nsg : R (init ne nl nsg) (sp_init ne nl nsg).
Proof. eexists. apply RT_init. Qed.
