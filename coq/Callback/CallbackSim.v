(* C12 - the model refines the reference object: same invocation log, never a touched dead object. *)
From Coq Require Import List Arith Bool Lia Sorted.
From Callback Require Import CallbackSpec CallbackModel CallbackLists CallbackInv CallbackOps CallbackDestroy.
Import ListNotations.

Section Sim.
Variable sc : scripts.
Variable maxd : nat.

(* ---- unfolding equations of the two interpreters ---- *)
Lemma exec_0 d st lg acts : exec sc maxd 0 d st lg acts = OutOfFuel lg.
Proof. reflexivity. Qed.
Lemma exec_nil f d st lg : exec sc maxd (S f) d st lg [] = Done (st, lg).
Proof. reflexivity. Qed.
Lemma exec_connect f d st lg e sg l s rest : exec sc maxd (S f) d st lg (AConnect e sg l s :: rest) =
  if okE st e && okL st l && (sg <? st_nsg st) then
    match connect st e sg l s with Some st' => exec sc maxd f d st' lg rest | None => Fail lg end
  else exec sc maxd f d st lg rest.
Proof. reflexivity. Qed.
Lemma exec_disconnect f d st lg e sg l s rest : exec sc maxd (S f) d st lg (ADisconnect e sg l s :: rest) =
  if okE st e && okL st l && (sg <? st_nsg st) then
    match disconnect st e sg l s with Some st' => exec sc maxd f d st' lg rest | None => Fail lg end
  else exec sc maxd f d st lg rest.
Proof. reflexivity. Qed.
Lemma exec_destroyL f d st lg l rest : exec sc maxd (S f) d st lg (ADestroyL l :: rest) =
  if okL st l then
    match destroy_listener st l with Some st' => exec sc maxd f d st' lg rest | None => Fail lg end
  else exec sc maxd f d st lg rest.
Proof. reflexivity. Qed.
Lemma exec_destroyE f d st lg e rest : exec sc maxd (S f) d st lg (ADestroyE e :: rest) =
  if okE st e then
    match destroy_emitter st e with Some st' => exec sc maxd f d st' lg rest | None => Fail lg end
  else exec sc maxd f d st lg rest.
Proof. reflexivity. Qed.
Lemma exec_emit f d st lg e sg rest : exec sc maxd (S f) d st lg (AEmit e sg :: rest) =
  if okE st e && (sg <? st_nsg st) && (d <? maxd) then
    match emit_begin st e sg with
    | None => Fail lg
    | Some st1 =>
      match loop sc maxd f d st1 lg e sg with
      | Done (st2, lg2) => match emit_end st2 e sg with Some st3 => exec sc maxd f d st3 lg2 rest | None => Fail lg2 end
      | o => o
      end
    end
  else exec sc maxd f d st lg rest.
Proof. reflexivity. Qed.
Lemma loop_0 d st lg e sg : loop sc maxd 0 d st lg e sg = OutOfFuel lg.
Proof. reflexivity. Qed.
Lemma loop_S f d st lg e sg : loop sc maxd (S f) d st lg e sg =
  match emit_next st e sg with
  | None => Fail lg
  | Some (st1, None) => Done (st1, lg)
  | Some (st1, Some x) =>
    match exec sc maxd f (S d) st1 (mkInv e sg (s_recv x) (s_slot x) :: lg) (sc (mkInv e sg (s_recv x) (s_slot x) :: lg) (s_recv x) (s_slot x)) with
    | Done (st2, lg2) => if invalidated st2 e sg then Done (st2, lg2) else loop sc maxd f d st2 lg2 e sg
    | o => o
    end
  end.
Proof. reflexivity. Qed.

Lemma sexec_0 pick d p lg acts : sexec pick sc maxd 0 d p lg acts = OutOfFuel lg.
Proof. reflexivity. Qed.
Lemma sexec_nil pick f d p lg : sexec pick sc maxd (S f) d p lg [] = Done (p, lg).
Proof. reflexivity. Qed.
Lemma sexec_connect pick f d p lg e sg l s rest : sexec pick sc maxd (S f) d p lg (AConnect e sg l s :: rest) =
  if sp_E p e && sp_L p l && (sg <? sp_nsg p) then sexec pick sc maxd f d (sp_connect p e sg l s) lg rest else sexec pick sc maxd f d p lg rest.
Proof. reflexivity. Qed.
Lemma sexec_disconnect pick f d p lg e sg l s rest : sexec pick sc maxd (S f) d p lg (ADisconnect e sg l s :: rest) =
  if sp_E p e && sp_L p l && (sg <? sp_nsg p) then sexec pick sc maxd f d (sp_disconnect_at (pick p e sg l s) p e sg l s) lg rest else sexec pick sc maxd f d p lg rest.
Proof. reflexivity. Qed.
Lemma sp_disconnect_at_0 p e sg l s : sp_disconnect_at 0 p e sg l s = sp_disconnect p e sg l s.
Proof. unfold sp_disconnect_at, sp_disconnect. cbn [Nat.min]. rewrite rm_nth_0. reflexivity. Qed.
Lemma sexec_disconnect_oldest f d p lg e sg l s rest : sexec oldest sc maxd (S f) d p lg (ADisconnect e sg l s :: rest) =
  if sp_E p e && sp_L p l && (sg <? sp_nsg p) then sexec oldest sc maxd f d (sp_disconnect p e sg l s) lg rest else sexec oldest sc maxd f d p lg rest.
Proof. rewrite sexec_disconnect. unfold oldest at 2. rewrite sp_disconnect_at_0. reflexivity. Qed.
Lemma sexec_destroyL pick f d p lg l rest : sexec pick sc maxd (S f) d p lg (ADestroyL l :: rest) =
  if sp_L p l then sexec pick sc maxd f d (sp_destroyL p l) lg rest else sexec pick sc maxd f d p lg rest.
Proof. reflexivity. Qed.
Lemma sexec_destroyE pick f d p lg e rest : sexec pick sc maxd (S f) d p lg (ADestroyE e :: rest) =
  if sp_E p e then sexec pick sc maxd f d (sp_destroyE p e) lg rest else sexec pick sc maxd f d p lg rest.
Proof. reflexivity. Qed.
Lemma sexec_emit pick f d p lg e sg rest : sexec pick sc maxd (S f) d p lg (AEmit e sg :: rest) =
  if sp_E p e && (sg <? sp_nsg p) && (d <? maxd) then
    match sloop pick sc maxd f d (sp_begin p e sg) lg e sg with
    | Done (p', lg') => sexec pick sc maxd f d (sp_end p' e sg) lg' rest
    | o => o
    end
  else sexec pick sc maxd f d p lg rest.
Proof. reflexivity. Qed.
Lemma sloop_0 pick d p lg e sg : sloop pick sc maxd 0 d p lg e sg = OutOfFuel lg.
Proof. reflexivity. Qed.
Lemma sloop_S pick f d p lg e sg : sloop pick sc maxd (S f) d p lg e sg =
  match sp_turn p e sg with
  | None => Done (p, lg)
  | Some c =>
    match sexec pick sc maxd f (S d) (sp_advance p e sg c) (mkInv e sg (c_l c) (c_s c) :: lg) (sc (mkInv e sg (c_l c) (c_s c) :: lg) (c_l c) (c_s c)) with
    | Done (p', lg') => if sp_E p' e then sloop pick sc maxd f d p' lg' e sg else Done (p', lg')
    | o => o
    end
  end.
Proof. reflexivity. Qed.

(* ---- the reference object keeps its emission stacks balanced ---- *)
Definition FrameS (p p' : sp) : Prop := forall e sg, em_cur (sp_em p' e sg) = em_cur (sp_em p e sg).
Definition FrameL (e sg : nat) (p p' : sp) : Prop :=
  (forall e' sg', (e', sg') <> (e, sg) -> em_cur (sp_em p' e' sg') = em_cur (sp_em p e' sg')) /\
  tl (em_cur (sp_em p' e sg)) = tl (em_cur (sp_em p e sg)) /\
  (em_cur (sp_em p e sg) <> [] -> em_cur (sp_em p' e sg) <> []).

Lemma FrameS_refl p : FrameS p p.
Proof. intros e sg. reflexivity. Qed.
Lemma FrameS_trans p1 p2 p3 : FrameS p1 p2 -> FrameS p2 p3 -> FrameS p1 p3.
Proof. intros H1 H2 e sg. rewrite H2. apply H1. Qed.
Lemma FrameL_refl e sg p : FrameL e sg p p.
Proof. split; [|split]; auto. Qed.

Lemma FrameL_step e sg p c p2 p3 : em_cur (sp_em p e sg) <> [] ->
  FrameS (sp_advance p e sg c) p2 -> FrameL e sg p2 p3 -> FrameL e sg p p3.
Proof.
  intros Hne HS [H1 [H2 H3]]. unfold FrameS in HS. unfold sp_advance in HS; cbn [sp_em] in HS.
  split; [|split].
  - intros e' sg' Hd. rewrite (H1 e' sg' Hd), HS, upd2_other by exact Hd. reflexivity.
  - rewrite H2, HS, upd2_same. reflexivity.
  - intros _. apply H3. rewrite HS, upd2_same. discriminate.
Qed.

Lemma spec_frame pick : forall fuel,
  (forall d p lg acts p' lg', sexec pick sc maxd fuel d p lg acts = Done (p', lg') -> FrameS p p') /\
  (forall d p lg e sg p' lg', sloop pick sc maxd fuel d p lg e sg = Done (p', lg') -> FrameL e sg p p').
Proof.
  induction fuel as [|f [IHe IHl]]; [split; intros; discriminate|]. split.
  - intros d p lg acts p' lg' H. destruct acts as [|a rest]; [rewrite sexec_nil in H; injection H as <- <-; apply FrameS_refl|].
    destruct a as [e sg l s|e sg l s|e sg|l|e].
    + rewrite sexec_connect in H. destruct (sp_E p e && sp_L p l && (sg <? sp_nsg p)); [|eapply IHe; exact H].
      eapply FrameS_trans; [|eapply IHe; exact H]. intros e' sg'. reflexivity.
    + rewrite sexec_disconnect in H. destruct (sp_E p e && sp_L p l && (sg <? sp_nsg p)); [|eapply IHe; exact H].
      eapply FrameS_trans; [|eapply IHe; exact H]. intros e' sg'. reflexivity.
    + rewrite sexec_emit in H. destruct (sp_E p e && (sg <? sp_nsg p) && (d <? maxd)); [|eapply IHe; exact H].
      destruct (sloop pick sc maxd f d (sp_begin p e sg) lg e sg) as [[p1 lg1]| |] eqn:Hl; try discriminate.
      apply IHl in Hl. apply IHe in H. destruct Hl as [H1 [H2 H3]].
      intros e' sg'. rewrite H. unfold sp_end, sp_begin in *; cbn [sp_em] in *.
      destruct (pair_dec e' sg' e sg) as [Heq|Hne].
      * injection Heq as -> ->. rewrite upd2_same in *. cbn [em_cur]. rewrite H2. reflexivity.
      * rewrite upd2_other by exact Hne. rewrite (H1 e' sg' Hne), upd2_other by exact Hne. reflexivity.
    + rewrite sexec_destroyL in H. destruct (sp_L p l); [|eapply IHe; exact H].
      eapply FrameS_trans; [|eapply IHe; exact H]. intros e' sg'. reflexivity.
    + rewrite sexec_destroyE in H. destruct (sp_E p e); [|eapply IHe; exact H].
      eapply FrameS_trans; [|eapply IHe; exact H]. intros e' sg'. reflexivity.
  - intros d p lg e sg p' lg' H. rewrite sloop_S in H. rewrite sp_turn_eq in H.
    destruct (em_cur (sp_em p e sg)) as [|k ks] eqn:Hk; [injection H as <- <-; apply FrameL_refl|].
    destruct (find (turnq k (em_w (sp_em p e sg))) (conns p e sg)) as [c|]; [|injection H as <- <-; apply FrameL_refl].
    destruct (sexec pick sc maxd f (S d) (sp_advance p e sg c) _ _) as [[p2 lg2]| |] eqn:He; try discriminate.
    apply IHe in He. destruct (sp_E p2 e).
    + apply IHl in H. eapply FrameL_step; [rewrite Hk; discriminate|exact He|exact H].
    + injection H as <- <-. eapply FrameL_step; [rewrite Hk; discriminate|exact He|apply FrameL_refl].
Qed.

(* ---- the simulation ---- *)
Definition rel_out (o1 : outcome (state * list inv)) (o2 : outcome (sp * list inv)) : Prop :=
  match o1, o2 with
  | Done (st', l1), Done (p', l2) => l1 = l2 /\ R st' p'
  | OutOfFuel l1, OutOfFuel l2 => l1 = l2
  | _, _ => False
  end.

Lemma guard_E st p T e : RT st p T -> okE st e = sp_E p e.
Proof. intros [HE _]. apply (r_E _ _ _ _ HE). Qed.
Lemma guard_L st p T l : RT st p T -> okL st l = sp_L p l.
Proof. intros [HE _]. apply (r_L _ _ _ _ HE). Qed.
Lemma guard_nsg st p T : RT st p T -> st_nsg st = sp_nsg p.
Proof. intros [HE _]. apply (r_nsg _ _ _ _ HE). Qed.

Lemma sp_begin_end_none st p T e sg : RT st p T -> sp_E p e = true -> sdo st e sg = None ->
  sp_turn (sp_begin p e sg) e sg = None /\ RT st (sp_end (sp_begin p e sg) e sg) T.
Proof.
  intros [HE HL] He Hsd. pose proof (r_sig _ _ _ _ HE e sg He eq_refl) as HS. rewrite Hsd in HS.
  destruct (SigLive_None_conns _ _ _ _ HS) as [HT Hc]. split.
  - rewrite sp_turn_eq. unfold sp_begin; cbn [sp_em]. rewrite upd2_same. cbn [em_cur em_w].
    change (conns _ e sg) with (conns p e sg). rewrite Hc. reflexivity.
  - pose proof (sl_len _ _ _ _ _ HS) as Hlen. cbn in Hlen.
    assert (Hcur : em_cur (sp_em p e sg) = []) by (destruct (em_cur (sp_em p e sg)); [reflexivity|discriminate]).
    split; [|eapply RL_pext; [| | |exact HL]; reflexivity].
    destruct HE as [r1 r2 r3 r4 r5 r6 r7].
    constructor; unfold sp_end, sp_begin; cbn [sp_E sp_L sp_nsg sp_next sp_em sp_conns]; try assumption.
    + destruct r4 as [w1 w2 w3]. constructor; assumption.
    + intros e' sg' He' Hk'. change (conns _ e' sg') with (conns p e' sg').
      destruct (pair_dec e' sg' e sg) as [Heq|Hne].
      * injection Heq as -> ->. rewrite !upd2_same. cbn [em_w em_cur tl]. rewrite Hsd, Hcur, HT, Hc in *.
        constructor; cbn; try reflexivity; try (intros; constructor); try congruence.
      * rewrite !upd2_other by exact Hne. apply r6; assumption.
    + intros e' sg' He'. assert (Hne : (e', sg') <> (e, sg)) by (intros Heq; injection Heq as -> ->; congruence).
      rewrite !upd2_other by exact Hne. apply r7. exact He'.
Qed.

Lemma sim : forall fuel,
  (forall d st p lg acts, R st p -> rel_out (exec sc maxd fuel d st lg acts) (sexec oldest sc maxd fuel d p lg acts)) /\
  (forall d st p lg e sg, R st p -> sp_E p e = true -> em_cur (sp_em p e sg) <> [] ->
     rel_out (loop sc maxd fuel d st lg e sg) (sloop oldest sc maxd fuel d p lg e sg)).
Proof.
  induction fuel as [|f [IHe IHl]]; [split; intros; reflexivity|]. split.
  - intros d st p lg acts [T HR]. destruct acts as [|a rest].
    { rewrite exec_nil, sexec_nil. split; [reflexivity|exists T; exact HR]. }
    destruct a as [e sg l s|e sg l s|e sg|l|e].
    + rewrite exec_connect, sexec_connect, (guard_E _ _ _ e HR), (guard_L _ _ _ l HR), (guard_nsg _ _ _ HR).
      destruct (sp_E p e) eqn:He; [|apply IHe; exists T; exact HR].
      destruct (sp_L p l) eqn:Hl; [|apply IHe; exists T; exact HR].
      destruct (sg <? sp_nsg p) eqn:Hsg; [|apply IHe; exists T; exact HR]. cbn [andb].
      apply Nat.ltb_lt in Hsg. destruct (connect_RT _ _ _ e sg l s HR He Hl Hsg) as (st' & -> & HR').
      apply IHe. eexists; exact HR'.
    + rewrite exec_disconnect, sexec_disconnect_oldest, (guard_E _ _ _ e HR), (guard_L _ _ _ l HR), (guard_nsg _ _ _ HR).
      destruct (sp_E p e) eqn:He; [|apply IHe; exists T; exact HR].
      destruct (sp_L p l) eqn:Hl; [|apply IHe; exists T; exact HR].
      destruct (sg <? sp_nsg p) eqn:Hsg; [|apply IHe; exists T; exact HR]. cbn [andb].
      destruct (disconnect_RT _ _ _ e sg l s HR He Hl) as (st' & -> & HR').
      apply IHe. eexists; exact HR'.
    + rewrite exec_emit, sexec_emit, (guard_E _ _ _ e HR), (guard_nsg _ _ _ HR).
      destruct (sp_E p e) eqn:He; [|apply IHe; exists T; exact HR].
      destruct (sg <? sp_nsg p) eqn:Hsg; [|apply IHe; exists T; exact HR].
      destruct (d <? maxd) eqn:Hd; [|apply IHe; exists T; exact HR]. cbn [andb].
      destruct (sdo st e sg) as [sd|] eqn:Hsd.
      * destruct (emit_begin_RT _ _ _ e sg sd HR He Hsd) as (st1 & -> & HR1).
        assert (Hcur1 : em_cur (sp_em (sp_begin p e sg) e sg) <> []).
        { unfold sp_begin; cbn [sp_em]. rewrite upd2_same. discriminate. }
        pose proof (IHl d st1 (sp_begin p e sg) lg e sg (ex_intro _ _ HR1) He Hcur1) as Hloop.
        destruct (loop sc maxd f d st1 lg e sg) as [[st2 lg2]|lg2|lg2];
          destruct (sloop oldest sc maxd f d (sp_begin p e sg) lg e sg) as [[p2 lg2']|lg2'|lg2'] eqn:Hsl; cbn [rel_out] in Hloop; try contradiction; [|exact Hloop].
        destruct Hloop as [<- [T2 HR2]].
        assert (Hcur2 : em_cur (sp_em p2 e sg) <> []).
        { destruct (proj2 (spec_frame oldest f) _ _ _ _ _ _ _ Hsl) as (_ & _ & H3). apply H3. exact Hcur1. }
        destruct (emit_end_RT _ _ _ e sg HR2 Hcur2) as (st3 & T3 & -> & HR3).
        apply IHe. eexists; exact HR3.
      * assert (Hb : emit_begin st e sg = Some st).
        { unfold emit_begin. rewrite (r_E _ _ _ _ (proj1 HR)), He. cbn [negb]. fold (sdo st e sg). rewrite Hsd. reflexivity. }
        rewrite Hb. destruct (sp_begin_end_none _ _ _ e sg HR He Hsd) as [Hturn HR'].
        destruct f as [|f']; [rewrite loop_0, sloop_0; reflexivity|].
        rewrite loop_S, sloop_S, Hturn.
        assert (Hn : emit_next st e sg = Some (st, None)).
        { unfold emit_next. rewrite (r_E _ _ _ _ (proj1 HR)), He. cbn [negb]. fold (sdo st e sg). rewrite Hsd. reflexivity. }
        rewrite Hn.
        assert (Hen : emit_end st e sg = Some st) by (unfold emit_end; fold (sdo st e sg); rewrite Hsd; reflexivity).
        rewrite Hen. apply IHe. eexists; exact HR'.
    + rewrite exec_destroyL, sexec_destroyL, (guard_L _ _ _ l HR).
      destruct (sp_L p l) eqn:Hl; [|apply IHe; exists T; exact HR].
      destruct (destroy_listener_RT _ _ _ l HR Hl) as (st' & T' & -> & HR').
      apply IHe. eexists; exact HR'.
    + rewrite exec_destroyE, sexec_destroyE, (guard_E _ _ _ e HR).
      destruct (sp_E p e) eqn:He; [|apply IHe; exists T; exact HR].
      destruct (destroy_emitter_RT _ _ _ e HR He) as (st' & T' & -> & HR').
      apply IHe. eexists; exact HR'.
  - intros d st p lg e sg [T HR] He Hcur. rewrite loop_S, sloop_S.
    destruct (emit_next_RT _ _ _ e sg HR He Hcur) as [(st1 & T1 & -> & -> & HR1)|(st1 & x & c & T1 & -> & -> & Hl & Hs & HR1)].
    + split; [reflexivity|eexists; exact HR1].
    + rewrite Hl, Hs.
      pose proof (IHe (S d) st1 (sp_advance p e sg c) (mkInv e sg (s_recv x) (s_slot x) :: lg) (sc (mkInv e sg (s_recv x) (s_slot x) :: lg) (s_recv x) (s_slot x)) (ex_intro _ _ HR1)) as Hex.
      destruct (exec sc maxd f (S d) st1 _ _) as [[st2 lg2]|lg2|lg2];
        destruct (sexec oldest sc maxd f (S d) (sp_advance p e sg c) _ _) as [[p2 lg2']|lg2'|lg2'] eqn:Hse; cbn [rel_out] in Hex; try contradiction; [|exact Hex].
      destruct Hex as [<- [T2 HR2]].
      assert (Hcur2 : em_cur (sp_em p2 e sg) <> []).
      { rewrite (proj1 (spec_frame oldest f) _ _ _ _ _ _ Hse e sg). unfold sp_advance; cbn [sp_em]. rewrite upd2_same. discriminate. }
      rewrite (invalidated_RT _ _ _ e sg HR2 Hcur2). destruct (sp_E p2 e) eqn:He2; cbn [negb].
      * apply IHl; [eexists; exact HR2|exact He2|exact Hcur2].
      * split; [reflexivity|eexists; exact HR2].
Qed.

End Sim.
