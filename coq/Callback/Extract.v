From Coq Require Extraction ExtrOcamlBasic.
From Common Require Import Words.
From Callback Require Import CallbackSpec CallbackModel.
Extraction Language OCaml.
Extraction "model.ml" anchor init step step_tr sp_init spec_step oldest.
