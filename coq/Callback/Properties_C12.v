(* Property C12 - only statements closed by `exact`, each followed by Print Assumptions. *)
From Coq Require Import List Arith Bool.
From Callback Require Import CallbackSpec CallbackModel CallbackProofs.
Import ListNotations.

Theorem cleanup_leaves_connected : forall sl, forallb is_conn (cleanup sl) = true.
Proof. exact cleanup_all_connected. Qed.
Print Assumptions cleanup_leaves_connected.
