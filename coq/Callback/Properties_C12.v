(* Property C12 - "Signals reach exactly the connected slots, safely under re-entrancy".
   Only statements closed by `exact`, each followed by Print Assumptions, plus non-vacuity Examples.

   Objects.  Model = CallbackModel (slot lists with connected/connecting/disconnected states, dirty flag,
   activation chain with invalidation, both destructor loops, liveness flag on every object: touching a
   destroyed object is `Fail`).  Reference object = CallbackSpec (live connections with serial numbers;
   per signal the watermark of the outermost emission in progress and one cursor per emission).
   Slot behaviours are programs with memory, universally quantified: `sc : list inv -> listener -> slot -> list action`
   gets the invocation log of the top-level operation in progress (newest first, the head being the invocation
   served), and over a history `hsc : list (list inv) -> scripts` also the logs of all earlier top-level operations -
   a slot may act differently at its second invocation, count, react to what other slots did.  A script may
   connect, disconnect, emit again, destroy listeners or emitters (itself included); nesting is bounded by
   `maxd` only (emissions deeper than maxd are skipped by the client on both sides) and every theorem holds
   for every fuel, the model running out of fuel exactly when the reference object does.
   Which of several IDENTICAL connections a disconnect cancels is not fixed by the property text: the reference
   object takes a policy `pick : picker` (CallbackSpec.sp_disconnect_at; every policy removes exactly one matching
   connection and nothing else, C12_disconnect_any_choice_removes_one).  The theorems about the reference object alone hold
   for every policy; the code's policy is `oldest` (C12_code_policy_is_oldest) and the refinement theorems are
   stated for it.
   `R st p` is the refinement relation (CallbackInv.v): liveness flags agree, every live signal's slot list
   minus the entries marked disconnected is the reference object's connection list of that signal in order,
   connecting <-> made after the watermark, every activation's iterator sits where the matching cursor is,
   dirty/activation flags are consistent, destroyed emitters keep only an invalidated activation chain,
   and every live listener's per-emitter list has the multiplicities of the reference object's connections.

   Clause of the property                                              Theorem
   ------------------------------------------------------------------  -------------------------------------
   bookkeeping describes exactly the live connections, initially        C12_refinement_init
   ... and after every top-level operation (any script, any nesting)    C12_step_refines, C12_bookkeeping_after_every_history,
                                                                        C12_emitter_side_exact, C12_listener_side_exact,
                                                                        C12_related_states_are_consistent
   ... and whenever a slot returns inside an emission                   C12_nested_refines
   an emission invokes, in connection order, exactly the slots          C12_logs_equal_reference (model log = reference log,
   connected before the outermost emission began and still connected    all histories), with the reference object's turn rule
   at their turn                                                        characterised by C12_turn_sound / C12_turn_oldest /
                                                                        C12_turn_none_complete
   never a slot after disconnect / after its listener or the emitter    C12_invoked_slot_is_live, C12_never_touches_dead_object
   was destroyed; connecting, disconnecting, emitting recursively and
   destroying from inside a slot are safe (no access to a dead object)
   after the outermost emission no disconnected/connecting residue      C12_bookkeeping_after_every_history (NoResidue),
                                                                        C12_cleanup_leaves_connected
   the reference object keeps its emission stacks balanced              C12_reference_stacks_balanced
   fuel: every history completes (no OutOfFuel) from some fuel on,      C12_enough_fuel_exists, C12_reference_step_terminates,
   and a finished run is the same for every larger fuel (reference       C12_reference_history_terminates,
   object: under every policy, also one that changes with the history)   C12_fuel_irrelevant_model, C12_fuel_irrelevant_reference
   (representation) no node is unlinked from a signal's slot list       C12_no_unlink_while_emitting (each of the seven library
   while an emission of that signal is in progress - what makes the     primitives; only ~Emitter of that emitter and the end of the
   model's "iterator = index" faithful to the C++ list iterators:        outermost emission remove nodes), C12_slot_keeps_nodes,
   entries are only appended or re-marked                                C12_emission_keeps_nodes (whatever the slots do, any nesting)
   disconnect cancels exactly one of the identical connections, under      C12_disconnect_any_choice_removes_one,
   every policy; the code cancels the oldest                               C12_code_policy_is_oldest
   (tie) the interpreter the correspondence driver runs, which also     C12_trace_erasure
   records the emitting signal's internal data at every slot entry
   and exit, is the proved interpreter plus that trace *)
From Coq Require Import List Arith Bool.
From Callback Require Import CallbackSpec CallbackModel CallbackLists CallbackInv CallbackOps CallbackDestroy CallbackSim CallbackNodes CallbackMain CallbackFuel CallbackTrace CallbackProofs.
Import ListNotations.

Theorem C12_refinement_init : forall ne nl nsg, R (init ne nl nsg) (sp_init ne nl nsg) /\ Quiet (sp_init ne nl nsg).
Proof. exact (fun ne nl nsg => conj (R_init ne nl nsg) (Quiet_init ne nl nsg)). Qed.
Print Assumptions C12_refinement_init.

Theorem C12_step_refines : forall sc maxd st p fuel a, R st p ->
  match step sc maxd fuel st a, spec_step oldest sc maxd fuel p a with
  | Done (st', lg), Done (p', lg') => lg = lg' /\ R st' p'
  | OutOfFuel lg, OutOfFuel lg' => lg = lg'
  | _, _ => False
  end.
Proof. exact step_refines. Qed.
Print Assumptions C12_step_refines.

Theorem C12_nested_refines : forall sc maxd fuel d st p lg acts, R st p ->
  match exec sc maxd fuel d st lg acts, sexec oldest sc maxd fuel d p lg acts with
  | Done (st', lg1), Done (p', lg2) => lg1 = lg2 /\ R st' p'
  | OutOfFuel l1, OutOfFuel l2 => l1 = l2
  | _, _ => False
  end.
Proof. exact nested_refines. Qed.
Print Assumptions C12_nested_refines.

Theorem C12_logs_equal_reference : forall (hsc : hscripts) maxd fuel ne nl nsg ops,
  match hrun (fun h => step (hsc h) maxd fuel) [] (init ne nl nsg) ops,
        hrun (fun h => spec_step oldest (hsc h) maxd fuel) [] (sp_init ne nl nsg) ops with
  | HDone st' lgs, HDone p' lgs' => lgs = lgs' /\ R st' p' /\ Quiet p'
  | HFuel, HFuel => True
  | _, _ => False
  end.
Proof. exact histories_match. Qed.
Print Assumptions C12_logs_equal_reference.

Theorem C12_never_touches_dead_object : forall (hsc : hscripts) maxd fuel ne nl nsg ops,
  hrun (fun h => step (hsc h) maxd fuel) [] (init ne nl nsg) ops <> HFail.
Proof. exact histories_safe. Qed.
Print Assumptions C12_never_touches_dead_object.

Theorem C12_bookkeeping_after_every_history : forall (hsc : hscripts) maxd fuel ne nl nsg ops st lgs,
  hrun (fun h => step (hsc h) maxd fuel) [] (init ne nl nsg) ops = HDone st lgs -> Book st /\ NoResidue st.
Proof. exact histories_bookkeeping. Qed.
Print Assumptions C12_bookkeeping_after_every_history.

Theorem C12_related_states_are_consistent : forall st p, R st p -> Book st /\ (Quiet p -> NoResidue st).
Proof. exact (fun st p H => conj (R_Book st p H) (R_NoResidue st p H)). Qed.
Print Assumptions C12_related_states_are_consistent.

Theorem C12_emitter_side_exact : forall st p e sg, R st p -> sp_E p e = true ->
  map (fun x => (s_recv x, s_slot x)) (filter nd (slotsOf (sdo st e sg))) = map (fun c => (c_l c, c_s c)) (conns p e sg).
Proof. exact R_emitter_side. Qed.
Print Assumptions C12_emitter_side_exact.

Theorem C12_listener_side_exact : forall st p l e sg s, R st p -> sp_L p l = true ->
  count (sigeq sg s) (lst st l e) = count (ckey e sg l s) (sp_conns p).
Proof. exact R_listener_side. Qed.
Print Assumptions C12_listener_side_exact.

Theorem C12_invoked_slot_is_live : forall st p e sg st1 x, R st p -> sp_E p e = true -> em_cur (sp_em p e sg) <> [] ->
  emit_next st e sg = Some (st1, Some x) ->
  exists c, In c (sp_conns p) /\ c_e c = e /\ c_sg c = sg /\ c_l c = s_recv x /\ c_s c = s_slot x /\
            c_seq c < em_w (sp_em p e sg) /\ sp_L p (s_recv x) = true /\ l_alive (st_L st (s_recv x)) = true.
Proof. exact invoked_slot_is_live. Qed.
Print Assumptions C12_invoked_slot_is_live.

Theorem C12_turn_sound : forall p e sg c, sp_turn p e sg = Some c ->
  In c (sp_conns p) /\ c_e c = e /\ c_sg c = sg /\ c_seq c < em_w (sp_em p e sg) /\
  exists k ks, em_cur (sp_em p e sg) = k :: ks /\ k <= c_seq c.
Proof. exact sp_turn_sound. Qed.
Print Assumptions C12_turn_sound.

Theorem C12_turn_oldest : forall p e sg c, sp_turn p e sg = Some c ->
  exists l1 l2, sp_conns p = l1 ++ c :: l2 /\
    forall c', In c' l1 -> on_es e sg c' = true -> c_seq c' < em_w (sp_em p e sg) ->
               exists k ks, em_cur (sp_em p e sg) = k :: ks /\ c_seq c' < k.
Proof. exact sp_turn_first. Qed.
Print Assumptions C12_turn_oldest.

Theorem C12_turn_none_complete : forall p e sg k ks, em_cur (sp_em p e sg) = k :: ks -> sp_turn p e sg = None ->
  forall c, In c (sp_conns p) -> on_es e sg c = true -> k <= c_seq c -> em_w (sp_em p e sg) <= c_seq c.
Proof. exact sp_turn_none. Qed.
Print Assumptions C12_turn_none_complete.

Theorem C12_reference_stacks_balanced : forall pick sc maxd fuel p a p' lg,
  spec_step pick sc maxd fuel p a = Done (p', lg) -> forall e sg, em_cur (sp_em p' e sg) = em_cur (sp_em p e sg).
Proof. exact (fun pick sc maxd fuel p a p' lg H => proj1 (spec_frame sc maxd pick fuel) 0 p [] [a] p' lg H). Qed.
Print Assumptions C12_reference_stacks_balanced.

Theorem C12_enough_fuel_exists : forall (hsc : hscripts) maxd ne nl nsg ops,
  exists f0 st lgs, forall f, f0 <= f -> hrun (fun h => step (hsc h) maxd f) [] (init ne nl nsg) ops = HDone st lgs.
Proof. exact model_history_terminates. Qed.
Print Assumptions C12_enough_fuel_exists.

Theorem C12_reference_step_terminates : forall pick sc maxd p a, WOK p ->
  exists f0 p' lg, forall f, f0 <= f -> spec_step pick sc maxd f p a = Done (p', lg) /\ WOK p'.
Proof. exact spec_step_terminates. Qed.
Print Assumptions C12_reference_step_terminates.

Theorem C12_fuel_irrelevant_model : forall sc maxd f d st lg acts r,
  exec sc maxd f d st lg acts = Done r -> forall f', f <= f' -> exec sc maxd f' d st lg acts = Done r.
Proof. exact (fun sc maxd f => proj1 (model_fuel_mono sc maxd f)). Qed.
Print Assumptions C12_fuel_irrelevant_model.

Theorem C12_fuel_irrelevant_reference : forall pick sc maxd f d p lg acts r,
  sexec pick sc maxd f d p lg acts = Done r -> forall f', f <= f' -> sexec pick sc maxd f' d p lg acts = Done r.
Proof. exact (fun pick sc maxd f => proj1 (spec_fuel_mono pick sc maxd f)). Qed.
Print Assumptions C12_fuel_irrelevant_reference.

Theorem C12_trace_erasure : forall sc maxd fuel st a, strip (step_tr sc maxd fuel st a) = step sc maxd fuel st a.
Proof. exact step_tr_erasure. Qed.
Print Assumptions C12_trace_erasure.

Theorem C12_reference_history_terminates : forall (hpick : list (list inv) -> picker) (hsc : hscripts) maxd ops h p, WOK p ->
  exists f0 p' lgs, forall f, f0 <= f -> hrun (fun h => spec_step (hpick h) (hsc h) maxd f) h p ops = HDone p' lgs.
Proof. exact spec_history_terminates. Qed.
Print Assumptions C12_reference_history_terminates.

(* whatever the policy answers, a disconnect cancels exactly one connection with that key (none if there is none) and
   leaves every other connection where it is *)
Theorem C12_disconnect_any_choice_removes_one : forall k p e sg l s,
  count (ckey e sg l s) (sp_conns (sp_disconnect_at k p e sg l s)) = pred (count (ckey e sg l s) (sp_conns p)) /\
  filter (fun c => negb (ckey e sg l s c)) (sp_conns (sp_disconnect_at k p e sg l s)) = filter (fun c => negb (ckey e sg l s c)) (sp_conns p) /\
  (forall c, In c (sp_conns (sp_disconnect_at k p e sg l s)) -> In c (sp_conns p)) /\
  sp_next (sp_disconnect_at k p e sg l s) = sp_next p /\ sp_em (sp_disconnect_at k p e sg l s) = sp_em p.
Proof. exact disconnect_at_removes_one. Qed.
Print Assumptions C12_disconnect_any_choice_removes_one.

Theorem C12_code_policy_is_oldest : forall p e sg l s, sp_disconnect_at (oldest p e sg l s) p e sg l s = sp_disconnect p e sg l s.
Proof. exact sp_disconnect_at_0. Qed.
Print Assumptions C12_code_policy_is_oldest.

Theorem C12_cleanup_leaves_connected : forall sl, forallb is_conn (cleanup sl) = true.
Proof. exact cleanup_all_connected. Qed.
Print Assumptions C12_cleanup_leaves_connected.

Theorem C12_no_unlink_while_emitting : forall st p st' e sg,
  run_prim st p = Some st' ->
  e_alive (st_E st e) = true -> actsOf (sdo st e sg) <> [] ->
  (p = PDestroyE e /\ e_alive (st_E st' e) = false) \/
  (p = PEnd e sg /\ length (actsOf (sdo st e sg)) = 1) \/
  (e_alive (st_E st' e) = true /\ actsOf (sdo st' e sg) <> [] /\
   exists appended, map node (slotsOf (sdo st' e sg)) = map node (slotsOf (sdo st e sg)) ++ appended).
Proof. exact prim_no_removal. Qed.
Print Assumptions C12_no_unlink_while_emitting.

Theorem C12_slot_keeps_nodes : forall sc maxd fuel d st lg acts st' lg' e sg,
  exec sc maxd fuel d st lg acts = Done (st', lg') ->
  e_alive (st_E st e) = true -> actsOf (sdo st e sg) <> [] ->
  e_alive (st_E st' e) = false \/
  (e_alive (st_E st' e) = true /\ length (actsOf (sdo st' e sg)) = length (actsOf (sdo st e sg)) /\
   exists appended, map node (slotsOf (sdo st' e sg)) = map node (slotsOf (sdo st e sg)) ++ appended).
Proof. exact exec_keeps_nodes. Qed.
Print Assumptions C12_slot_keeps_nodes.

Theorem C12_emission_keeps_nodes : forall sc maxd fuel d st lg e0 sg0 st' lg' e sg,
  loop sc maxd fuel d st lg e0 sg0 = Done (st', lg') ->
  e_alive (st_E st e) = true -> actsOf (sdo st e sg) <> [] ->
  e_alive (st_E st' e) = false \/
  (e_alive (st_E st' e) = true /\ length (actsOf (sdo st' e sg)) = length (actsOf (sdo st e sg)) /\
   exists appended, map node (slotsOf (sdo st' e sg)) = map node (slotsOf (sdo st e sg)) ++ appended).
Proof. exact loop_keeps_nodes. Qed.
Print Assumptions C12_emission_keeps_nodes.

(* ---- non-vacuity: concrete histories on which the hypotheses hold and something happens ---- *)
(* slot 0.0 disconnects, re-connects and disconnects itself inside one emission, then its listener dies
   (the history that used to leave a dangling slot): the log is one invocation, then nothing *)
Definition ex_sc1 : scripts := fun _ l s =>
  match l, s with 0, 0 => [ADisconnect 0 0 0 0; AConnect 0 0 0 0; ADisconnect 0 0 0 0] | _, _ => [] end.
Definition ex_ops1 := [AConnect 0 0 0 0; AEmit 0 0; ADestroyL 0; AEmit 0 0].
Example ex1_model : exists st, hrun (fun _ => step ex_sc1 3 100) [] (init 2 2 1) ex_ops1 = HDone st [[]; [mkInv 0 0 0 0]; []; []].
Proof. eexists. vm_compute. reflexivity. Qed.
Example ex1_spec : exists p, hrun (fun _ => spec_step oldest ex_sc1 3 100) [] (sp_init 2 2 1) ex_ops1 = HDone p [[]; [mkInv 0 0 0 0]; []; []].
Proof. eexists. vm_compute. reflexivity. Qed.

(* nested: slot 0.0 re-emits; slot 1.1 (pending in both emissions) is disconnected by slot 0.2 of the inner one,
   listener 1 is destroyed by slot 0.3, the emitter by slot 1.0 of another emitter's signal *)
Definition ex_sc2 : scripts := fun _ l s =>
  match l, s with
  | 0, 0 => [AEmit 0 0; AConnect 0 0 1 2]
  | 0, 2 => [ADisconnect 0 0 1 1]
  | 0, 3 => [ADestroyL 1; AEmit 1 0]
  | 1, 0 => [ADestroyE 0]
  | _, _ => []
  end.
Definition ex_ops2 := [AConnect 0 0 0 0; AConnect 0 0 0 2; AConnect 0 0 1 1; AConnect 0 0 0 3; AConnect 1 0 1 0;
                       AEmit 0 0; AEmit 0 0; AConnect 1 0 0 3; AEmit 1 0].
Example ex2_agree :
  match hrun (fun _ => step ex_sc2 2 200) [] (init 2 2 1) ex_ops2, hrun (fun _ => spec_step oldest ex_sc2 2 200) [] (sp_init 2 2 1) ex_ops2 with
  | HDone _ l1, HDone _ l2 => l1 = l2 /\ length (concat l1) = 14
  | _, _ => False
  end.
Proof. vm_compute. split; reflexivity. Qed.

(* the turn rule fires on a concrete state: cursor 0, watermark 2, two connections *)
Example ex_turn : sp_turn (sp_begin (sp_connect (sp_connect (sp_init 1 1 1) 0 0 0 0) 0 0 0 1) 0 0) 0 0 = Some (mkConn 0 0 0 0 0).
Proof. reflexivity. Qed.
Example ex_emit_next : exists st1, 
  match connect (init 1 1 1) 0 0 0 0 with
  | Some st => match emit_begin st 0 0 with Some st' => emit_next st' 0 0 | None => None end
  | None => None
  end = Some (st1, Some (mkSlot 0 0 Connected)).
Proof. eexists. vm_compute. reflexivity. Qed.
Example ex1_trace : match step_tr ex_sc1 3 100 (init 2 2 1) (AConnect 0 0 0 0) with
  | Done (st, _, _) => match step_tr ex_sc1 3 100 st (AEmit 0 0) with Done (_, lg, tr) => length lg = 1 /\ length tr = 2 | _ => False end
  | _ => False end.
Proof. vm_compute. split; reflexivity. Qed.
Example ex_wok : WOK (sp_begin (sp_connect (sp_init 1 1 1) 0 0 0 0) 0 0).
Proof. exact (WOK_begin _ 0 0 (WOK_connect _ 0 0 0 0 (WOK_init 1 1 1))). Qed.
Example ex_cleanup : cleanup [mkSlot 0 0 Disconnected; mkSlot 0 1 Connecting; mkSlot 1 1 Connected] = [mkSlot 0 1 Connected; mkSlot 1 1 Connected].
Proof. reflexivity. Qed.

(* node-level safety on a concrete state: (E0, signal 0) is emitting with two slots; a disconnect from inside marks
   the entry and leaves both nodes in place, and a whole slot script (disconnect, connect, disconnect, nested
   re-emission) returns with the same activation chain length and the two old nodes followed by the appended one *)
Definition ex_emitting : state :=
  match connect (init 2 2 1) 0 0 0 0 with
  | Some s1 => match connect s1 0 0 1 1 with
               | Some s2 => match emit_begin s2 0 0 with Some s3 => s3 | None => s2 end
               | None => s1 end
  | None => init 2 2 1 end.
Example ex_emitting_active : e_alive (st_E ex_emitting 0) = true /\ length (actsOf (sdo ex_emitting 0 0)) = 1.
Proof. split; reflexivity. Qed.
Example ex_disconnect_marks : exists st', run_prim ex_emitting (PDisconnect 0 0 0 0) = Some st' /\
  slotsOf (sdo st' 0 0) = [mkSlot 0 0 Disconnected; mkSlot 1 1 Connected] /\ length (actsOf (sdo st' 0 0)) = 1.
Proof. eexists. split; [vm_compute; reflexivity|]. split; reflexivity. Qed.
Example ex_script_keeps_nodes : exists st' lg',
  exec ex_sc1 3 100 1 ex_emitting [] [ADisconnect 0 0 0 0; AConnect 0 0 0 0; ADisconnect 0 0 0 0; AEmit 0 0] = Done (st', lg') /\
  map node (slotsOf (sdo st' 0 0)) = map node (slotsOf (sdo ex_emitting 0 0)) ++ [(0, 0)] /\ length (actsOf (sdo st' 0 0)) = 1.
Proof. eexists. eexists. split; [vm_compute; reflexivity|]. split; reflexivity. Qed.

(* a slot with memory: slot 0.0 disconnects itself at its first invocation of a history, at the second (it was
   connected again at top level) it emits the signal again - a nested emission in which it is invoked a third time and,
   like at every later invocation, connects slot 1.1; slot 1.1 destroys the emitter the second time it runs *)
Definition times (l s : nat) (lg : list inv) : nat := length (filter (fun v => (i_l v =? l) && (i_s v =? s)) lg).
Definition ex_hsc3 : hscripts := fun h lg l s =>
  let n := times l s (lg ++ concat h) in
  match l, s with
  | 0, 0 => match n with 1 => [ADisconnect 0 0 0 0] | 2 => [AEmit 0 0] | _ => [AConnect 0 0 1 1] end
  | 1, 1 => match n with 2 => [ADestroyE 0] | _ => [] end
  | _, _ => []
  end.
Definition ex_ops3 := [AConnect 0 0 0 0; AEmit 0 0; AConnect 0 0 0 0; AEmit 0 0; AEmit 0 0; AEmit 0 0; AEmit 0 0].
Example ex3_memory :
  match hrun (fun h => step (ex_hsc3 h) 3 200) [] (init 2 2 1) ex_ops3, hrun (fun h => spec_step oldest (ex_hsc3 h) 3 200) [] (sp_init 2 2 1) ex_ops3 with
  | HDone _ l1, HDone _ l2 => l1 = l2 /\ l1 = [[]; [mkInv 0 0 0 0]; []; [mkInv 0 0 0 0; mkInv 0 0 0 0]; [mkInv 0 0 1 1; mkInv 0 0 0 0]; [mkInv 0 0 1 1; mkInv 0 0 0 0]; []]
  | _, _ => False
  end.
Proof. vm_compute. split; reflexivity. Qed.

(* the choice among identical connections: a, b, a connected; cancelling "an a" leaves b, a under the policy `oldest`
   and a, b under the policy "newest" - both have exactly one a left *)
Definition ex_dup := sp_connect (sp_connect (sp_connect (sp_init 1 2 1) 0 0 0 0) 0 0 1 1) 0 0 0 0.
Example ex_pick_oldest : map (fun c => (c_l c, c_s c)) (sp_conns (sp_disconnect_at 0 ex_dup 0 0 0 0)) = [(1, 1); (0, 0)].
Proof. reflexivity. Qed.
Example ex_pick_newest : map (fun c => (c_l c, c_s c)) (sp_conns (sp_disconnect_at 7 ex_dup 0 0 0 0)) = [(0, 0); (1, 1)].
Proof. reflexivity. Qed.
Example ex_pick_in_run : exists p, spec_step (fun _ _ _ _ _ => 1) (fun _ _ _ => []) 3 10 ex_dup (ADisconnect 0 0 0 0) = Done (p, []) /\
  map (fun c => (c_l c, c_s c)) (sp_conns p) = [(0, 0); (1, 1)].
Proof. eexists. split; [vm_compute; reflexivity|reflexivity]. Qed.
