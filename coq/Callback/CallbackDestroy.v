(* C12 - the two destructors preserve the refinement relation. *)
From Coq Require Import List Arith Bool Lia Sorted.
From Callback Require Import CallbackSpec CallbackModel CallbackLists CallbackInv CallbackOps.
Import ListNotations.

Ltac conj := repeat match goal with |- _ /\ _ => split end.

(* same reference object up to connections of listener l / emitter e being forgotten *)
Record Sub (keep : conn -> bool) (p p' : sp) : Prop := {
  sub_next : sp_next p' = sp_next p;
  sub_E : sp_E p' = sp_E p;
  sub_L : sp_L p' = sp_L p;
  sub_em : sp_em p' = sp_em p;
  sub_nsg : sp_nsg p' = sp_nsg p;
  sub_keep : filter keep (sp_conns p') = filter keep (sp_conns p) }.

Lemma Sub_refl keep p : Sub keep p p.
Proof. constructor; reflexivity. Qed.

Lemma Sub_trans keep p1 p2 p3 : Sub keep p1 p2 -> Sub keep p2 p3 -> Sub keep p1 p3.
Proof. intros [] []. constructor; congruence. Qed.

Lemma Sub_disc keep p e sg l s : (forall c, ckey e sg l s c = true -> keep c = false) -> Sub keep p (sp_disconnect p e sg l s).
Proof. intros H. constructor; try reflexivity. unfold sp_disconnect; cbn [sp_conns]. apply filter_rm_first_other. exact H. Qed.

Lemma filter_all {A} (p : A -> bool) l : (forall x, In x l -> p x = true) -> filter p l = l.
Proof.
  induction l as [|a t IH]; [reflexivity|]. intros H. cbn [filter]. rewrite (H a (or_introl eq_refl)).
  f_equal. apply IH. intros x Hx. apply H. right; exact Hx.
Qed.

Lemma counts_zero_nil (xs : list (nat * nat)) : (forall sg s, count (sigeq sg s) xs = 0) -> xs = [].
Proof.
  destruct xs as [|[sg s] t]; [reflexivity|]. intros H. specialize (H sg s). rewrite count_cons, sigeq_refl in H. discriminate.
Qed.

Lemma RL_weaken (kL kL' : nat -> bool) st p : (forall l, kL' l = false -> kL l = false) -> RL kL st p -> RL kL' st p.
Proof. intros H HR l Hl Hk. apply HR; [exact Hl|apply H; exact Hk]. Qed.

(* ================= Listener::~Listener ================= *)
Definition LRem (l : nat) (f : nat -> list (nat * nat)) (p : sp) : Prop :=
  forall e sg s, count (sigeq sg s) (f e) = count (ckey e sg l s) (sp_conns p).

Definition notl (l : nat) (c : conn) : bool := negb (c_l c =? l).

Lemma unlink_at_eq st e l x : e_alive (st_E st e) = true -> unlink_at st e l x = Some (unlinkE st e (fst x) l (snd x)).
Proof. intros H. unfold unlink_at, unlinkE, sdo. rewrite H. cbn [negb]. destruct (e_sigs (st_E st e) (fst x)); reflexivity. Qed.

Lemma ckey_notl e sg l s c : ckey e sg l s c = true -> notl l c = false.
Proof. intros H. apply ckey_true in H as (_ & _ & <- & _). unfold notl. rewrite Nat.eqb_refl. reflexivity. Qed.

Lemma sigeq_self x : sigeq (fst x) (snd x) x = true.
Proof. unfold sigeq. rewrite !Nat.eqb_refl. reflexivity. Qed.

Lemma unlinkE_ne st e sg l s : st_ne (unlinkE st e sg l s) = st_ne st.
Proof. unfold unlinkE. destruct (sdo st e sg); reflexivity. Qed.

Lemma dl_inner kE kL l e : kL l = true -> forall xs st p T f,
  RE kE st p T -> RL kL st p -> sp_E p e = true -> LRem l f p -> f e = xs ->
  exists st' p' T', ofold (fun st x => unlink_at st e l x) st xs = Some st' /\
    RE kE st' p' T' /\ RL kL st' p' /\ LRem l (upd1 f e []) p' /\ Sub (notl l) p p' /\ st_ne st' = st_ne st /\
    (forall l' e', lst st' l' e' = lst st l' e').
Proof.
  intros HkL. induction xs as [|x xs IH]; intros st p T f HE HL He HF Hfe.
  - exists st, p, T. cbn [ofold]. conj; try assumption; try reflexivity; try (intros; reflexivity); try apply Sub_refl.
    intros e' sg s. rewrite <- HF. unfold upd1. destruct (Nat.eqb_spec e' e) as [->|]; [rewrite Hfe|]; reflexivity.
  - cbn [ofold]. rewrite unlink_at_eq by (rewrite (r_E _ _ _ _ HE); exact He).
    set (st1 := unlinkE st e (fst x) l (snd x)). set (p1 := sp_disconnect p e (fst x) l (snd x)).
    assert (HE1 : RE kE st1 p1 _) by (apply RE_unlink; [exact HE|exact He]).
    assert (HL1 : RL kL st1 p1).
    { apply RL_spdisc_skip; [exact HkL|]. eapply RL_ext; [|exact HL]. intros; apply lst_unlinkE. }
    assert (HF1 : LRem l (upd1 f e xs) p1).
    { intros e' sg s. unfold p1, sp_disconnect; cbn [sp_conns]. specialize (HF e' sg s). unfold upd1.
      destruct (Nat.eqb_spec e' e) as [->|Hne].
      - rewrite Hfe, count_cons in HF. destruct (pair_dec sg s (fst x) (snd x)) as [Heq|Hne].
        + injection Heq as -> ->. rewrite count_rm_first_same, <- HF. rewrite sigeq_self. reflexivity.
        + rewrite count_rm_first_other; [|intros c; apply ckey_disj; intros Heq; apply Hne; congruence].
          rewrite <- HF. replace (sigeq sg s x) with false; [reflexivity|]. symmetry.
          apply (sigeq_disj (fst x) (snd x)); [exact Hne|]. apply sigeq_self.
      - rewrite count_rm_first_other; [exact HF|]. intros c; apply ckey_disj. intros Heq. apply Hne. congruence. }
    destruct (IH st1 p1 _ (upd1 f e xs) HE1 HL1 He HF1 (upd1_same _ _ _)) as (st' & p' & T' & Hfold & HE' & HL' & HF' & HS' & Hne' & Hlst').
    exists st', p', T'. split; [exact Hfold|]. split; [exact HE'|]. split; [exact HL'|]. split; [|split; [|split]].
    + intros e' sg s. rewrite <- HF'. unfold upd1. destruct (e' =? e); reflexivity.
    + eapply Sub_trans; [|exact HS']. apply Sub_disc. intros c. apply ckey_notl.
    + rewrite Hne'. apply unlinkE_ne.
    + intros l' e'. rewrite Hlst'. apply lst_unlinkE.
Qed.

Lemma dl_outer kE kL l (L : listener) : kL l = true -> forall es st p T f,
  NoDup es -> RE kE st p T -> RL kL st p -> LRem l f p ->
  (forall e, In e es -> f e = match l_ems L e with Some xs => xs | None => [] end) ->
  (forall e, sp_E p e = false -> f e = []) ->
  exists st' p' T' f', ofold (fun st e => match l_ems L e with
                                          | None => Some st
                                          | Some xs => ofold (fun st x => unlink_at st e l x) st xs
                                          end) st es = Some st' /\
    RE kE st' p' T' /\ RL kL st' p' /\ LRem l f' p' /\ Sub (notl l) p p' /\ st_ne st' = st_ne st /\
    (forall l' e', lst st' l' e' = lst st l' e') /\
    (forall e, In e es -> f' e = []) /\ (forall e, ~ In e es -> f' e = f e).
Proof.
  intros HkL. induction es as [|e es IH]; intros st p T f Hnd HE HL HF Hf Hdead.
  - exists st, p, T, f. cbn [ofold]. conj; try assumption; try reflexivity; try (intros; reflexivity); try apply Sub_refl. intros e [].
  - cbn [ofold]. apply NoDup_cons_iff in Hnd as [Hnin Hnd].
    assert (Hstep : exists st1 p1 T1, match l_ems L e with
                                   | None => Some st
                                   | Some xs => ofold (fun st x => unlink_at st e l x) st xs
                                   end = Some st1 /\ RE kE st1 p1 T1 /\ RL kL st1 p1 /\ LRem l (upd1 f e []) p1 /\
                                   Sub (notl l) p p1 /\ st_ne st1 = st_ne st /\ (forall l' e', lst st1 l' e' = lst st l' e')).
    { destruct (sp_E p e) eqn:He.
      - destruct (dl_inner kE kL l e HkL (f e) st p T f HE HL He HF eq_refl) as (st1 & p1 & T1 & H1 & H2).
        exists st1, p1, T1. split; [|exact H2]. rewrite (Hf e (or_introl eq_refl)) in H1.
        destruct (l_ems L e); [exact H1|]. cbn in H1. exact H1.
      - exists st, p, T. pose proof (Hdead e He) as Hnil. rewrite (Hf e (or_introl eq_refl)) in Hnil.
        split; [destruct (l_ems L e); [subst; reflexivity|reflexivity]|].
        conj; try assumption; try reflexivity; try (intros; reflexivity); try apply Sub_refl.
        intros e' sg s. rewrite <- HF. unfold upd1. destruct (Nat.eqb_spec e' e) as [->|]; [rewrite (Hdead e He)|]; reflexivity. }
    destruct Hstep as (st1 & p1 & T1 & Hs1 & HE1 & HL1 & HF1 & HS1 & Hne1 & Hlst1). rewrite Hs1.
    destruct (IH st1 p1 T1 (upd1 f e []) Hnd HE1 HL1 HF1) as (st' & p' & T' & f' & Hfold & HE' & HL' & HF' & HS' & Hne' & Hlst' & Hin' & Hout').
    + intros e' He'. rewrite upd1_other; [apply Hf; right; exact He'|]. intros ->. contradiction.
    + intros e' He'. rewrite (sub_E _ _ _ HS1) in He'. unfold upd1. destruct (e' =? e); [reflexivity|apply Hdead; exact He'].
    + exists st', p', T', f'. split; [exact Hfold|]. split; [exact HE'|]. split; [exact HL'|]. split; [exact HF'|].
      split; [eapply Sub_trans; eassumption|]. split; [congruence|]. split; [intros; rewrite Hlst'; apply Hlst1|]. split.
      * intros e' [<-|He']; [|apply Hin'; exact He']. rewrite Hout' by exact Hnin. apply upd1_same.
      * intros e' Hn. rewrite Hout'; [|intros H; apply Hn; right; exact H]. apply upd1_other. intros ->. apply Hn. left; reflexivity.
Qed.

Lemma RE_killL kE st p T l :
  RE kE st p T -> (forall c, In c (sp_conns p) -> c_l c <> l) ->
  RE kE (setL st l (mkL false (fun _ => None))) (mkSp (sp_conns p) (sp_next p) (sp_E p) (upd1 (sp_L p) l false) (sp_em p) (sp_nsg p)) T.
Proof.
  intros H Hno. dRE H. constructor; cbn [sp_E sp_L sp_nsg sp_next sp_em sp_conns]; try assumption.
  - intros l'. unfold setL; cbn. unfold upd1. destruct (l' =? l); [reflexivity|apply r_L0].
  - dWF r_wf0. constructor; cbn [sp_E sp_L sp_nsg sp_next sp_em sp_conns]; try assumption.
    intros c Hc. destruct (wf_live0 c Hc) as (H1 & H2 & H3). split; [exact H1|]. split; [|exact H3].
    rewrite upd1_other; [exact H2|]. apply Hno. exact Hc.
Qed.

Lemma lst_setL_dead st l l' e : l' <> l -> lst (setL st l (mkL false (fun _ => None))) l' e = lst st l' e.
Proof. intros H. unfold lst, setL; cbn. rewrite upd1_other by exact H. reflexivity. Qed.

Lemma destroy_listener_RT st p T l :
  RT st p T -> sp_L p l = true -> exists st' T', destroy_listener st l = Some st' /\ RT st' (sp_destroyL p l) T'.
Proof.
  intros [HE HL] Hl. unfold destroy_listener. rewrite (r_L _ _ _ _ HE), Hl. cbn [negb].
  set (kL := fun l' => l' =? l).
  assert (HkL : kL l = true) by apply Nat.eqb_refl.
  assert (HLk : RL kL st p) by (eapply RL_weaken; [|exact HL]; reflexivity).
  assert (HF : LRem l (lst st l) p) by (intros e sg s; apply HL; [exact Hl|reflexivity]).
  assert (Hdead : forall e, sp_E p e = false -> lst st l e = []).
  { intros e He. apply counts_zero_nil. intros sg s. rewrite (HF e sg s). apply count_zero_iff. intros c Hc.
    destruct (ckey e sg l s c) eqn:Hk; [|reflexivity]. apply ckey_true in Hk as (<- & _).
    destruct (wf_live _ (r_wf _ _ _ _ HE) c Hc) as [H _]. congruence. }
  destruct (dl_outer none1 kL l (st_L st l) HkL (seq 0 (st_ne st)) st p T (lst st l) (seq_NoDup _ _) HE HLk HF)
    as (st' & p' & T' & f' & Hfold & HE' & HL' & HF' & HS' & Hne' & Hlst' & Hin' & Hout'); [reflexivity|exact Hdead|].
  rewrite Hfold. do 2 eexists. split; [reflexivity|].
  assert (Hno : forall c, In c (sp_conns p') -> c_l c <> l).
  { intros c Hc Heq. destruct (wf_live _ (r_wf _ _ _ _ HE') c Hc) as (HEc & _ & _).
    assert (Hlt : c_e c < st_ne st) by (rewrite <- Hne'; apply (r_ne _ _ _ _ HE'); exact HEc).
    pose proof (HF' (c_e c) (c_sg c) (c_s c)) as Hcnt. rewrite Hin' in Hcnt by (apply in_seq; lia).
    symmetry in Hcnt. cbn in Hcnt. rewrite count_zero_iff in Hcnt. specialize (Hcnt c Hc). rewrite <- Heq, ckey_refl in Hcnt. discriminate. }
  assert (Hp : sp_destroyL p l = mkSp (sp_conns p') (sp_next p') (sp_E p') (upd1 (sp_L p') l false) (sp_em p') (sp_nsg p')).
  { destruct HS' as [H1 H2 H3 H4 H5 H6]. unfold sp_destroyL. rewrite H1, H2, H3, H4, H5. f_equal.
    fold (notl l) in H6 |- *. rewrite <- H6. apply filter_all. intros c Hc. unfold notl. apply negb_true_iff. apply Nat.eqb_neq. apply Hno. exact Hc. }
  rewrite Hp. split.
  - apply RE_killL; [exact HE'|exact Hno].
  - intros l' Hl' _ e sg s. cbn [sp_L sp_conns] in *. unfold upd1 in Hl'. destruct (Nat.eqb_spec l' l) as [Heq|Hne]; [discriminate|].
    rewrite lst_setL_dead by exact Hne. apply HL'; [exact Hl'|]. unfold kL. apply Nat.eqb_neq. exact Hne.
Qed.

(* ================= Emitter::~Emitter ================= *)
Definition ERem (e : nat) (g : nat -> list slot) (p : sp) : Prop :=
  forall sg l s, count (hit l s) (g sg) = count (ckey e sg l s) (sp_conns p).

Definition note (e : nat) (c : conn) : bool := negb (c_e c =? e).

Lemma ckey_note e sg l s c : ckey e sg l s c = true -> note e c = false.
Proof. intros H. apply ckey_true in H as (<- & _). unfold note. rewrite Nat.eqb_refl. reflexivity. Qed.

Lemma RE_spdisc_skip kE st p T e sg l s : kE e = true -> RE kE st p T -> RE kE st (sp_disconnect p e sg l s) T.
Proof.
  intros Hk H. dRE H. constructor; try (unfold sp_disconnect; cbn [sp_E sp_L sp_nsg sp_next sp_em]); try assumption.
  - apply SpWf_disconnect. exact r_wf0.
  - intros e' sg' He' Hk'. fold (sp_disconnect p e sg l s). rewrite conns_disc_other; [apply r_sig0; assumption|].
    intros Heq. injection Heq as -> ->. congruence.
Qed.

Lemma hit_true l s x : hit l s x = true -> s_recv x = l /\ s_slot x = s /\ nd x = true.
Proof.
  unfold hit. intros H. apply andb_true_iff in H as [H H3]. apply andb_true_iff in H as [H1 H2].
  apply Nat.eqb_eq in H1, H2. auto.
Qed.

Lemma hit_self x : nd x = true -> hit (s_recv x) (s_slot x) x = true.
Proof. intros H. unfold hit. rewrite !Nat.eqb_refl, H. reflexivity. Qed.

Lemma forget_at_spec e sg st x :
  nd x = true -> l_alive (st_L st (s_recv x)) = true ->
  exists st', forget_at e sg st x = Some st' /\ st_E st' = st_E st /\ st_nsg st' = st_nsg st /\ st_ne st' = st_ne st /\
    (forall l, l_alive (st_L st' l) = l_alive (st_L st l)) /\
    lst st' (s_recv x) e = rm_first (sigeq sg (s_slot x)) (lst st (s_recv x) e) /\
    (forall l' e', (l', e') <> (s_recv x, e) -> lst st' l' e' = lst st l' e').
Proof.
  intros Hnd Hl. unfold forget_at. unfold nd in Hnd. apply negb_true_iff in Hnd. rewrite Hnd, Hl. cbn [negb].
  destruct (l_ems (st_L st (s_recv x)) e) as [xs|] eqn:Hxs.
  - eexists. split; [reflexivity|]. split; [reflexivity|]. split; [reflexivity|]. split; [reflexivity|]. split; [|split].
    + intros l. apply alive_setL_ems.
    + rewrite lst_setL_same. unfold lst. rewrite Hxs. reflexivity.
    + intros l' e' Hne. apply lst_setL_other. exact Hne.
  - exists st. split; [reflexivity|]. split; [reflexivity|]. split; [reflexivity|]. split; [reflexivity|]. split; [reflexivity|]. split; [|reflexivity].
    unfold lst. rewrite Hxs. reflexivity.
Qed.

Lemma de_inner kE kL e sg T : kE e = true -> forall xs st p g,
  RE kE st p T -> RL kL st p -> ERem e g p -> g sg = xs ->
  (forall x, In x xs -> nd x = true -> sp_L p (s_recv x) = true) ->
  exists st' p', ofold (forget_at e sg) st xs = Some st' /\
    RE kE st' p' T /\ RL kL st' p' /\ ERem e (upd1 g sg []) p' /\ Sub (note e) p p' /\
    st_E st' = st_E st /\ st_nsg st' = st_nsg st.
Proof.
  intros HkE. induction xs as [|x xs IH]; intros st p g HE HL HG Hg Hlive.
  - exists st, p. cbn [ofold]. conj; try assumption; try reflexivity; try apply Sub_refl.
    intros sg' l s. rewrite <- HG. unfold upd1. destruct (Nat.eqb_spec sg' sg) as [->|]; [rewrite Hg|]; reflexivity.
  - cbn [ofold]. destruct (nd x) eqn:Hnd.
    + assert (Hl : l_alive (st_L st (s_recv x)) = true).
      { rewrite (r_L _ _ _ _ HE). apply Hlive; [left; reflexivity|exact Hnd]. }
      destruct (forget_at_spec e sg st x Hnd Hl) as (st1 & Hf & HE1 & Hn1 & Hne1 & HL1 & Hl1 & Hl2). rewrite Hf.
      set (p1 := sp_disconnect p e sg (s_recv x) (s_slot x)).
      assert (HRE1 : RE kE st1 p1 T).
      { apply RE_spdisc_skip; [exact HkE|]. eapply RE_ext; [| | | | |exact HE]; try assumption.
        - intros e'. rewrite HE1. reflexivity.
        - intros e' sg'. unfold sdo. rewrite HE1. reflexivity. }
      assert (HRL1 : RL kL st1 p1) by (eapply RL_forget; eassumption).
      assert (HG1 : ERem e (upd1 g sg xs) p1).
      { intros sg' l s. unfold p1, sp_disconnect; cbn [sp_conns]. specialize (HG sg' l s). unfold upd1.
        destruct (Nat.eqb_spec sg' sg) as [->|Hne].
        - rewrite Hg, count_cons in HG. destruct (pair_dec l s (s_recv x) (s_slot x)) as [Heq|Hne].
          + injection Heq as -> ->. rewrite count_rm_first_same, <- HG, hit_self by exact Hnd. reflexivity.
          + rewrite count_rm_first_other; [|intros c; apply ckey_disj; intros Heq; apply Hne; congruence].
            rewrite <- HG. destruct (hit l s x) eqn:Hh; [|reflexivity]. apply hit_true in Hh as (<- & <- & _). exfalso; apply Hne; reflexivity.
        - rewrite count_rm_first_other; [exact HG|]. intros c; apply ckey_disj. intros Heq. apply Hne. congruence. }
      destruct (IH st1 p1 (upd1 g sg xs) HRE1 HRL1 HG1 (upd1_same _ _ _)) as (st' & p' & Hfold & HE' & HL' & HG' & HS' & HEq' & Hn').
      { intros y Hy Hndy. apply Hlive; [right; exact Hy|exact Hndy]. }
      exists st', p'. split; [exact Hfold|]. split; [exact HE'|]. split; [exact HL'|]. split; [|split; [|split]].
      * intros sg' l s. rewrite <- HG'. unfold upd1. destruct (sg' =? sg); reflexivity.
      * eapply Sub_trans; [|exact HS']. apply Sub_disc. intros c. apply ckey_note.
      * congruence.
      * congruence.
    + assert (Hf : forget_at e sg st x = Some st).
      { unfold forget_at. unfold nd in Hnd. apply negb_false_iff in Hnd. rewrite Hnd. reflexivity. }
      rewrite Hf.
      assert (HG1 : ERem e (upd1 g sg xs) p).
      { intros sg' l s. specialize (HG sg' l s). unfold upd1. destruct (Nat.eqb_spec sg' sg) as [->|Hne]; [|exact HG].
        rewrite Hg, count_cons in HG. rewrite <- HG. destruct (hit l s x) eqn:Hh; [|reflexivity]. apply hit_true in Hh as (_ & _ & Hh). congruence. }
      destruct (IH st p (upd1 g sg xs) HE HL HG1 (upd1_same _ _ _)) as (st' & p' & Hfold & HE' & HL' & HG' & HS' & HEq' & Hn').
      { intros y Hy Hndy. apply Hlive; [right; exact Hy|exact Hndy]. }
      exists st', p'. split; [exact Hfold|]. split; [exact HE'|]. split; [exact HL'|]. split; [|split; [|split]]; try assumption.
      intros sg' l s. rewrite <- HG'. unfold upd1. destruct (sg' =? sg); reflexivity.
Qed.

Lemma de_outer kE kL e T (E : emitter) : kE e = true -> forall sgs st p g,
  NoDup sgs -> RE kE st p T -> RL kL st p -> ERem e g p ->
  (forall sg, In sg sgs -> g sg = slotsOf (e_sigs E sg)) ->
  (forall sg x, In x (g sg) -> nd x = true -> sp_L p (s_recv x) = true) ->
  exists st' p' g', ofold (fun st sg => match e_sigs E sg with
                                        | None => Some st
                                        | Some sd => ofold (forget_at e sg) st (sd_slots sd)
                                        end) st sgs = Some st' /\
    RE kE st' p' T /\ RL kL st' p' /\ ERem e g' p' /\ Sub (note e) p p' /\
    st_E st' = st_E st /\ st_nsg st' = st_nsg st /\
    (forall sg, In sg sgs -> g' sg = []) /\ (forall sg, ~ In sg sgs -> g' sg = g sg).
Proof.
  intros HkE. induction sgs as [|sg sgs IH]; intros st p g Hnd HE HL HG Hg Hlive.
  - exists st, p, g. cbn [ofold]. conj; try assumption; try reflexivity; try apply Sub_refl. intros sg [].
  - cbn [ofold]. apply NoDup_cons_iff in Hnd as [Hnin Hnd].
    destruct (de_inner kE kL e sg T HkE (g sg) st p g HE HL HG eq_refl (Hlive sg)) as (st1 & p1 & H1 & HE1 & HL1 & HG1 & HS1 & HEq1 & Hn1).
    assert (Hs1 : match e_sigs E sg with None => Some st | Some sd => ofold (forget_at e sg) st (sd_slots sd) end = Some st1
                  \/ (e_sigs E sg = None /\ g sg = [])).
    { rewrite (Hg sg (or_introl eq_refl)) in H1 |- *. destruct (e_sigs E sg); [left; exact H1|right; split; reflexivity]. }
    assert (Hstep : exists st1 p1, match e_sigs E sg with None => Some st | Some sd => ofold (forget_at e sg) st (sd_slots sd) end = Some st1 /\
       RE kE st1 p1 T /\ RL kL st1 p1 /\ ERem e (upd1 g sg []) p1 /\ Sub (note e) p p1 /\ st_E st1 = st_E st /\ st_nsg st1 = st_nsg st).
    { destruct Hs1 as [Hs1|[Hs1 Hnil]].
      - exists st1, p1. conj; assumption.
      - exists st, p. rewrite Hs1. conj; try assumption; try reflexivity; try apply Sub_refl.
        intros sg' l s. rewrite <- HG. unfold upd1. destruct (Nat.eqb_spec sg' sg) as [->|]; [rewrite Hnil|]; reflexivity. }
    clear st1 p1 H1 HE1 HL1 HG1 HS1 HEq1 Hn1 Hs1.
    destruct Hstep as (st1 & p1 & Hs1 & HE1 & HL1 & HG1 & HS1 & HEq1 & Hn1). rewrite Hs1.
    destruct (IH st1 p1 (upd1 g sg []) Hnd HE1 HL1 HG1) as (st' & p' & g' & Hfold & HE' & HL' & HG' & HS' & HEq' & Hn' & Hin' & Hout').
    + intros sg' Hsg'. rewrite upd1_other; [apply Hg; right; exact Hsg'|]. intros ->. contradiction.
    + intros sg' x Hx Hndx. rewrite (sub_L _ _ _ HS1). unfold upd1 in Hx. destruct (sg' =? sg); [destruct Hx|]. apply (Hlive sg'); assumption.
    + exists st', p', g'. split; [exact Hfold|]. split; [exact HE'|]. split; [exact HL'|]. split; [exact HG'|].
      split; [eapply Sub_trans; eassumption|]. split; [congruence|]. split; [congruence|]. split.
      * intros sg' [<-|Hsg']; [|apply Hin'; exact Hsg']. rewrite Hout' by exact Hnin. apply upd1_same.
      * intros sg' Hn. rewrite Hout'; [|intros H; apply Hn; right; exact H]. apply upd1_other. intros ->. apply Hn. left; reflexivity.
Qed.

Lemma count_map_fst (q : slot -> bool) (tl : list tslot) : count q (map fst tl) = count (fun y => q (fst y)) tl.
Proof. induction tl as [|y r IH]; [reflexivity|]. cbn [map]. rewrite !count_cons, IH. reflexivity. Qed.

(* emitter-side slot list of a live signal against the reference object, by (listener, slot) *)
Lemma SigLive_count o tl cs m next l s : SigLive o tl cs m next -> count (hit l s) (slotsOf o) = count (lk l s) cs.
Proof.
  intros H. dSL H. rewrite <- sl_fst0, count_map_fst.
  rewrite (count_ext _ (fun y => tnd y && hk l s (tkey y))).
  - rewrite <- count_filter. rewrite (count_map_corr tkey key3 (hk l s) _ _ sl_keys0). reflexivity.
  - intros y. unfold hit, tnd, hk, tkey; cbn. rewrite andb_comm. reflexivity.
Qed.

Lemma SigLive_recv_live p o tl e sg m next x : SpWf p -> SigLive o tl (conns p e sg) m next ->
  In x (slotsOf o) -> nd x = true -> sp_L p (s_recv x) = true.
Proof.
  intros W H Hx Hnd. pose proof (SigLive_count _ _ _ _ _ (s_recv x) (s_slot x) H) as Hc.
  assert (Hpos : count (lk (s_recv x) (s_slot x)) (conns p e sg) <> 0).
  { rewrite <- Hc. intros Hz. rewrite count_zero_iff in Hz. specialize (Hz x Hx). rewrite hit_self in Hz by exact Hnd. discriminate. }
  destruct (filter (lk (s_recv x) (s_slot x)) (conns p e sg)) as [|c t] eqn:Hf; [unfold count in Hpos; rewrite Hf in Hpos; cbn in Hpos; congruence|].
  assert (Hin : In c (filter (lk (s_recv x) (s_slot x)) (conns p e sg))) by (rewrite Hf; left; reflexivity).
  apply filter_In in Hin as [Hin Hlk]. unfold conns in Hin. apply filter_In in Hin as [Hin _].
  unfold lk in Hlk. apply andb_true_iff in Hlk as [Hlk _]. apply Nat.eqb_eq in Hlk. rewrite <- Hlk.
  apply (wf_live p W c Hin).
Qed.

Definition dead_sigs (E : emitter) : nat -> option sigdata :=
  fun sg => match e_sigs E sg with
            | None => None
            | Some sd => Some (mkSD [] false (invalidate (sd_acts sd)))
            end.

Lemma RE_killE st p T e (E : emitter) :
  RE (fun e' => e' =? e) st p T -> (forall c, In c (sp_conns p) -> c_e c <> e) ->
  (forall sg, length (actsOf (e_sigs E sg)) = length (em_cur (sp_em p e sg))) ->
  RE none1 (setE st e (mkE false (dead_sigs E))) (mkSp (sp_conns p) (sp_next p) (upd1 (sp_E p) e false) (sp_L p) (sp_em p) (sp_nsg p)) T.
Proof.
  intros H Hno Hlen. dRE H. constructor; cbn [sp_E sp_L sp_nsg sp_next sp_em sp_conns]; try assumption.
  - intros e'. unfold setE; cbn. unfold upd1. destruct (e' =? e); [reflexivity|apply r_E0].
  - dWF r_wf0. constructor; cbn [sp_E sp_L sp_nsg sp_next sp_em sp_conns]; try assumption.
    intros c Hc. destruct (wf_live0 c Hc) as (H1 & H2 & H3). split; [|split; assumption].
    rewrite upd1_other; [exact H1|]. apply Hno. exact Hc.
  - intros e' He'. unfold upd1 in He'. destruct (e' =? e); [discriminate|]. apply r_ne0. exact He'.
  - intros e' sg He' _. unfold upd1 in He'. destruct (Nat.eqb_spec e' e) as [Heq|Hne]; [discriminate|].
    replace (sdo (setE st e (mkE false (dead_sigs E))) e' sg) with (sdo st e' sg).
    + apply r_sig0; [exact He'|]. apply Nat.eqb_neq. exact Hne.
    + unfold sdo, setE; cbn. rewrite upd1_other by exact Hne. reflexivity.
  - intros e' sg He'. unfold upd1 in He'. destruct (Nat.eqb_spec e' e) as [Heq|Hne].
    + subst e'. unfold sdo, setE; cbn. rewrite upd1_same. cbn. unfold dead_sigs. specialize (Hlen sg).
      destruct (e_sigs E sg) as [sd|]; cbn in *.
      * constructor; cbn; [reflexivity|rewrite invalidate_length; exact Hlen|]. destruct (sd_acts sd); [exact I|reflexivity].
      * constructor; cbn; [reflexivity|exact Hlen|exact I].
    + replace (sdo (setE st e (mkE false (dead_sigs E))) e' sg) with (sdo st e' sg); [apply r_dead0; exact He'|].
      unfold sdo, setE; cbn. rewrite upd1_other by exact Hne. reflexivity.
Qed.

Lemma destroy_emitter_RT st p T e :
  RT st p T -> sp_E p e = true -> exists st' T', destroy_emitter st e = Some st' /\ RT st' (sp_destroyE p e) T'.
Proof.
  intros [HE HL] He. unfold destroy_emitter. rewrite (r_E _ _ _ _ HE), He. cbn [negb].
  set (kE := fun e' => e' =? e).
  assert (HkE : kE e = true) by apply Nat.eqb_refl.
  assert (HEk : RE kE st p T).
  { destruct HE as [r1 r2 r3 r4 r5 r6 r7]. constructor; try assumption. intros e' sg He' _. apply r6; [exact He'|reflexivity]. }
  set (g := fun sg => slotsOf (sdo st e sg)).
  assert (HG : ERem e g p).
  { intros sg l s. unfold g. rewrite (SigLive_count _ _ _ _ _ l s (r_sig _ _ _ _ HE e sg He eq_refl)).
    unfold conns. rewrite count_filter. reflexivity. }
  assert (Hlive : forall sg x, In x (g sg) -> nd x = true -> sp_L p (s_recv x) = true).
  { intros sg x Hx Hnd. eapply SigLive_recv_live; [exact (r_wf _ _ _ _ HE)|exact (r_sig _ _ _ _ HE e sg He eq_refl)|exact Hx|exact Hnd]. }
  destruct (de_outer kE none1 e T (st_E st e) HkE (seq 0 (st_nsg st)) st p g (seq_NoDup _ _) HEk HL HG)
    as (st' & p' & g' & Hfold & HE' & HL' & HG' & HS' & HEq' & Hn' & Hin' & Hout'); [reflexivity|exact Hlive|].
  rewrite Hfold. do 2 eexists. split; [reflexivity|].
  assert (Hno : forall c, In c (sp_conns p') -> c_e c <> e).
  { intros c Hc Heq. destruct (wf_live _ (r_wf _ _ _ _ HE') c Hc) as (_ & _ & Hsg).
    rewrite <- (r_nsg _ _ _ _ HE'), Hn' in Hsg.
    pose proof (HG' (c_sg c) (c_l c) (c_s c)) as Hcnt. rewrite Hin' in Hcnt by (apply in_seq; lia).
    symmetry in Hcnt. cbn in Hcnt. rewrite count_zero_iff in Hcnt. specialize (Hcnt c Hc). rewrite <- Heq, ckey_refl in Hcnt. discriminate. }
  assert (Hp : sp_destroyE p e = mkSp (sp_conns p') (sp_next p') (upd1 (sp_E p') e false) (sp_L p') (sp_em p') (sp_nsg p')).
  { destruct HS' as [H1 H2 H3 H4 H5 H6]. unfold sp_destroyE. rewrite H1, H2, H3, H4, H5. f_equal.
    fold (note e) in H6 |- *. rewrite <- H6. apply filter_all. intros c Hc. unfold note. apply negb_true_iff. apply Nat.eqb_neq. apply Hno. exact Hc. }
  rewrite Hp. change (fun sg => match e_sigs (st_E st e) sg with None => None | Some sd => Some (mkSD [] false (invalidate (sd_acts sd))) end) with (dead_sigs (st_E st e)).
  split.
  - apply RE_killE; [exact HE'|exact Hno|].
    intros sg. rewrite (sub_em _ _ _ HS'). apply (sl_len _ _ _ _ _ (r_sig _ _ _ _ HE e sg He eq_refl)).
  - eapply RL_pext; [| | |exact HL']; reflexivity.
Qed.
