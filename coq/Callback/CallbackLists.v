(* C12 - list lemmas used by the refinement proof (nothing about Callback itself). *)
From Coq Require Import List Arith Bool Lia Sorted.
From Callback Require Import CallbackSpec.
Import ListNotations.

Definition count {A} (p : A -> bool) (l : list A) : nat := length (filter p l).

Lemma count_cons {A} (p : A -> bool) x l : count p (x :: l) = (if p x then 1 else 0) + count p l.
Proof. unfold count; cbn [filter]. destruct (p x); reflexivity. Qed.

Lemma count_app {A} (p : A -> bool) l1 l2 : count p (l1 ++ l2) = count p l1 + count p l2.
Proof. unfold count. rewrite filter_app, app_length. reflexivity. Qed.

Lemma count_ext {A} (p q : A -> bool) l : (forall x, p x = q x) -> count p l = count q l.
Proof. intros H. unfold count. rewrite (filter_ext _ _ H). reflexivity. Qed.

Lemma count_zero_iff {A} (p : A -> bool) l : count p l = 0 <-> (forall x, In x l -> p x = false).
Proof.
  induction l as [|a t IH]; cbn [In].
  - split; [intros _ x []| reflexivity].
  - rewrite count_cons. split.
    + intros H x [<-|Hx].
      * destruct (p a); [discriminate|reflexivity].
      * apply IH; [|exact Hx]. destruct (p a); [discriminate|exact H].
    + intros H. rewrite (H a (or_introl eq_refl)). apply IH. intros x Hx. apply H. right; exact Hx.
Qed.

Lemma count_existsb {A} (p : A -> bool) l : existsb p l = negb (count p l =? 0).
Proof.
  induction l as [|a t IH]; [reflexivity|]. cbn [existsb]. rewrite count_cons, IH.
  destruct (p a); reflexivity.
Qed.

(* ---- rm_first ---- *)
Lemma rm_first_none {A} (p : A -> bool) l : existsb p l = false -> rm_first p l = l.
Proof.
  induction l as [|a t IH]; [reflexivity|]. cbn [existsb rm_first]. intros H.
  apply orb_false_iff in H as [Ha Ht]. rewrite Ha, (IH Ht). reflexivity.
Qed.

Lemma rm_first_ext_in {A} (p q : A -> bool) l : (forall x, In x l -> p x = q x) -> rm_first p l = rm_first q l.
Proof.
  induction l as [|a t IH]; [reflexivity|]. intros H. cbn [rm_first].
  rewrite <- (H a (or_introl eq_refl)). destruct (p a); [reflexivity|].
  f_equal. apply IH. intros x Hx. apply H. right; exact Hx.
Qed.

Lemma map_rm_first {A B} (f : A -> B) (g : B -> bool) l :
  map f (rm_first (fun x => g (f x)) l) = rm_first g (map f l).
Proof.
  induction l as [|a t IH]; [reflexivity|]. cbn [rm_first map]. destruct (g (f a)); [reflexivity|].
  cbn [map]. rewrite IH. reflexivity.
Qed.

Lemma filter_rm_first_sub {A} (p r : A -> bool) l :
  (forall x, r x = true -> p x = true) -> filter p (rm_first r l) = rm_first r (filter p l).
Proof.
  intros H. induction l as [|a t IH]; [reflexivity|]. cbn [rm_first filter].
  destruct (r a) eqn:Hr.
  - rewrite (H a Hr). cbn [rm_first]. rewrite Hr. reflexivity.
  - cbn [filter]. destruct (p a); [cbn [rm_first]; rewrite Hr, IH|rewrite IH]; reflexivity.
Qed.

Lemma filter_rm_first_other {A} (p r : A -> bool) l :
  (forall x, r x = true -> p x = false) -> filter p (rm_first r l) = filter p l.
Proof.
  intros H. induction l as [|a t IH]; [reflexivity|]. cbn [rm_first filter].
  destruct (r a) eqn:Hr.
  - rewrite (H a Hr). reflexivity.
  - cbn [filter]. rewrite IH. reflexivity.
Qed.

Lemma count_rm_first_same {A} (p : A -> bool) l : count p (rm_first p l) = pred (count p l).
Proof.
  induction l as [|a t IH]; [reflexivity|]. cbn [rm_first]. rewrite count_cons.
  destruct (p a) eqn:Hp; [reflexivity|]. rewrite count_cons, Hp, IH. reflexivity.
Qed.

Lemma count_rm_first_other {A} (p q : A -> bool) l :
  (forall x, p x = true -> q x = false) -> count q (rm_first p l) = count q l.
Proof. intros H. unfold count. rewrite filter_rm_first_other by exact H. reflexivity. Qed.

Lemma rm_first_incl {A} (p : A -> bool) l x : In x (rm_first p l) -> In x l.
Proof.
  induction l as [|a t IH]; [intros []|]. cbn [rm_first]. destruct (p a).
  - intros H; right; exact H.
  - intros [<-|H]; [left; reflexivity|right; apply IH; exact H].
Qed.

(* what rm_first removes *)
Lemma rm_first_split {A} (p : A -> bool) l :
  existsb p l = true -> exists l1 x l2, l = l1 ++ x :: l2 /\ p x = true /\ (forall y, In y l1 -> p y = false) /\ rm_first p l = l1 ++ l2.
Proof.
  induction l as [|a t IH]; [discriminate|]. cbn [existsb rm_first]. destruct (p a) eqn:Hp.
  - intros _. exists [], a, t. repeat split; try assumption. intros y [].
  - cbn [orb]. intros H. destruct (IH H) as (l1 & x & l2 & -> & Hx & Hl1 & Hr).
    exists (a :: l1), x, l2. repeat split; try assumption.
    + intros y [<-|Hy]; [exact Hp|apply Hl1; exact Hy].
    + rewrite Hr. reflexivity.
Qed.

(* ---- sortedness ---- *)
Definition sorted (l : list nat) : Prop := StronglySorted lt l.

Lemma sorted_nil : sorted [].
Proof. constructor. Qed.

Lemma sorted_cons_inv a l : sorted (a :: l) -> sorted l /\ Forall (lt a) l.
Proof. intros H. inversion H; subst. split; assumption. Qed.

Lemma sorted_app_one l n : sorted l -> Forall (fun t => t < n) l -> sorted (l ++ [n]).
Proof.
  induction l as [|a t IH]; intros Hs Hb.
  - repeat constructor.
  - apply sorted_cons_inv in Hs as [Hs Ha]. inversion Hb; subst. cbn [app]. constructor.
    + apply IH; assumption.
    + apply Forall_app. split; [exact Ha|]. constructor; [assumption|constructor].
Qed.

Lemma sorted_map_filter {A} (f : A -> nat) (p : A -> bool) l : sorted (map f l) -> sorted (map f (filter p l)).
Proof.
  induction l as [|a t IH]; intros H; [exact H|]. cbn [map] in H. apply sorted_cons_inv in H as [Hs Ha].
  cbn [filter]. destruct (p a); [|apply IH; exact Hs]. cbn [map]. constructor; [apply IH; exact Hs|].
  rewrite Forall_forall in *. intros x Hx. apply Ha. apply in_map_iff in Hx as (y & <- & Hy).
  apply in_map. apply filter_In in Hy as [Hy _]. exact Hy.
Qed.

Lemma sorted_map_rm_first {A} (f : A -> nat) (p : A -> bool) l : sorted (map f l) -> sorted (map f (rm_first p l)).
Proof.
  induction l as [|a t IH]; intros H; [exact H|]. cbn [map] in H. apply sorted_cons_inv in H as [Hs Ha].
  cbn [rm_first]. destruct (p a); [exact Hs|]. cbn [map]. constructor; [apply IH; exact Hs|].
  rewrite Forall_forall in *. intros x Hx. apply Ha. apply in_map_iff in Hx as (y & <- & Hy).
  apply in_map. apply rm_first_incl in Hy. exact Hy.
Qed.

Lemma sorted_nth l : sorted l -> forall i j a b, nth_error l i = Some a -> nth_error l j = Some b -> i < j -> a < b.
Proof.
  induction l as [|x t IH]; intros Hs i j a b Hi Hj Hlt.
  - destruct i; discriminate.
  - apply sorted_cons_inv in Hs as [Hs Hx]. destruct j; [lia|]. destruct i.
    + cbn in Hi. injection Hi as <-. cbn in Hj. rewrite Forall_forall in Hx. apply Hx. eapply nth_error_In; exact Hj.
    + cbn in Hi, Hj. eapply IH; eauto. lia.
Qed.

Lemma sorted_nth_iff l : sorted l -> forall i j a b, nth_error l i = Some a -> nth_error l j = Some b -> (i < j <-> a < b).
Proof.
  intros Hs i j a b Hi Hj. split; [apply (sorted_nth l Hs i j a b Hi Hj)|].
  intros Hab. destruct (lt_eq_lt_dec i j) as [[H|H]|H]; [exact H| |].
  - subst. rewrite Hi in Hj. injection Hj as <-. lia.
  - pose proof (sorted_nth l Hs j i b a Hj Hi H). lia.
Qed.

(* ---- find ---- *)
Lemma find_filter {A} (p q : A -> bool) l : find (fun x => p x && q x) l = find q (filter p l).
Proof.
  induction l as [|a t IH]; [reflexivity|]. cbn [find filter]. destruct (p a); cbn [andb find]; [|exact IH].
  destruct (q a); [reflexivity|exact IH].
Qed.

Lemma find_first {A} (p : A -> bool) l : forall j y, nth_error l j = Some y -> p y = true ->
  (forall i z, i < j -> nth_error l i = Some z -> p z = false) -> find p l = Some y.
Proof.
  induction l as [|a t IH]; intros j y Hj Hp Hb; [destruct j; discriminate|]. cbn [find]. destruct j.
  - cbn in Hj. injection Hj as ->. rewrite Hp. reflexivity.
  - rewrite (Hb 0 a (Nat.lt_0_succ _) eq_refl). apply (IH j); [exact Hj|exact Hp|].
    intros i z Hi Hz. apply (Hb (S i) z); [lia|exact Hz].
Qed.

Lemma find_none_iff {A} (p : A -> bool) l : find p l = None <-> (forall x, In x l -> p x = false).
Proof.
  split; [apply find_none|]. induction l as [|a t IH]; [reflexivity|]. intros H. cbn [find].
  rewrite (H a (or_introl eq_refl)). apply IH. intros x Hx. apply H. right; exact Hx.
Qed.

(* two lists with the same keys: find through the key *)
Lemma find_map_corr {A B K} (f : A -> K) (g : B -> K) (h : K -> bool) l1 l2 :
  map f l1 = map g l2 ->
  match find (fun x => h (f x)) l1, find (fun y => h (g y)) l2 with
  | Some x, Some y => f x = g y
  | None, None => True
  | _, _ => False
  end.
Proof.
  revert l2. induction l1 as [|a t IH]; intros [|b u] H; try discriminate; [exact I|].
  cbn [map] in H. injection H as Hab Htu. cbn [find]. rewrite <- Hab. destruct (h (f a)); [exact Hab|].
  apply IH. exact Htu.
Qed.

Lemma map_eq_in {A B K} (f : A -> K) (g : B -> K) l1 l2 : map f l1 = map g l2 ->
  forall y, In y l2 -> exists x, In x l1 /\ f x = g y.
Proof.
  intros H y Hy. assert (Hin : In (g y) (map f l1)) by (rewrite H; apply in_map; exact Hy).
  apply in_map_iff in Hin as (x & Hx & Hi). exists x. split; assumption.
Qed.

Lemma count_map_corr {A B K} (f : A -> K) (g : B -> K) (h : K -> bool) l1 l2 :
  map f l1 = map g l2 -> count (fun x => h (f x)) l1 = count (fun y => h (g y)) l2.
Proof.
  revert l2. induction l1 as [|a t IH]; intros [|b u] H; try discriminate; [reflexivity|].
  cbn [map] in H. injection H as Hab Htu. rewrite !count_cons, Hab, (IH u Htu). reflexivity.
Qed.

Lemma count_filter {A} (p q : A -> bool) l : count q (filter p l) = count (fun x => p x && q x) l.
Proof.
  induction l as [|a t IH]; [reflexivity|]. cbn [filter]. rewrite count_cons. destruct (p a); cbn [andb].
  - rewrite count_cons, IH. reflexivity.
  - exact IH.
Qed.

(* ---- nth_error helpers ---- *)
Lemma nth_error_map_some {A B} (f : A -> B) l j y : nth_error (map f l) j = Some y -> exists x, nth_error l j = Some x /\ f x = y.
Proof.
  rewrite nth_error_map. destruct (nth_error l j) as [x|]; [|discriminate]. cbn. intros H. injection H as <-.
  exists x. split; reflexivity.
Qed.

Lemma nth_error_app_one {A} (l : list A) a j x : nth_error (l ++ [a]) j = Some x ->
  (j < length l /\ nth_error l j = Some x) \/ (j = length l /\ x = a).
Proof.
  intros H. destruct (lt_dec j (length l)) as [Hlt|Hge].
  - left. split; [exact Hlt|]. rewrite nth_error_app1 in H by exact Hlt. exact H.
  - right. rewrite nth_error_app2 in H by lia. destruct (j - length l) as [|k] eqn:Hk.
    + cbn in H. injection H as <-. split; [lia|reflexivity].
    + cbn in H. destruct k; discriminate.
Qed.

Lemma Forall2_tl {A B} (P : A -> B -> Prop) a l b m : Forall2 P (a :: l) (b :: m) -> Forall2 P l m.
Proof. intros H. inversion H; subst. assumption. Qed.

(* ---- rm_nth: the reference object's disconnect under an arbitrary choice among identical connections ---- *)
Lemma rm_nth_0 {A} (p : A -> bool) l : rm_nth p 0 l = rm_first p l.
Proof. induction l as [|a t IH]; [reflexivity|]. cbn [rm_nth rm_first]. destruct (p a); [reflexivity|]. rewrite IH. reflexivity. Qed.

Lemma count_rm_nth_le {A} (q r : A -> bool) k l : count q (rm_nth r k l) <= count q l.
Proof.
  revert k. induction l as [|a t IH]; intros k; [apply le_n|]. cbn [rm_nth]. destruct (r a).
  - destruct k as [|k']; rewrite ?count_cons; [lia|]. specialize (IH k'). lia.
  - rewrite !count_cons. specialize (IH k). lia.
Qed.

Lemma rm_nth_incl {A} (p : A -> bool) k l x : In x (rm_nth p k l) -> In x l.
Proof.
  revert k. induction l as [|a t IH]; intros k; [intros []|]. cbn [rm_nth]. destruct (p a).
  - destruct k as [|k']; [intros H; right; exact H|]. intros [<-|H]; [left; reflexivity|right; eapply IH; exact H].
  - intros [<-|H]; [left; reflexivity|right; eapply IH; exact H].
Qed.

(* exactly one matching element goes when the index is in range, the others keep their order *)
Lemma count_rm_nth_same {A} (p : A -> bool) k l : k < count p l -> count p (rm_nth p k l) = pred (count p l).
Proof.
  revert k. induction l as [|a t IH]; intros k Hk; [cbn in Hk; lia|]. cbn [rm_nth]. rewrite count_cons in *. destruct (p a) eqn:Hp.
  - destruct k as [|k']; [cbn; lia|]. rewrite count_cons, Hp. rewrite IH by lia. lia.
  - rewrite count_cons, Hp. apply IH. lia.
Qed.

Lemma filter_rm_nth_other {A} (p r : A -> bool) k l :
  (forall x, r x = true -> p x = false) -> filter p (rm_nth r k l) = filter p l.
Proof.
  intros H. revert k. induction l as [|a t IH]; intros k; [reflexivity|]. cbn [rm_nth filter]. destruct (r a) eqn:Hr.
  - rewrite (H a Hr). destruct k as [|k']; [reflexivity|]. cbn [filter]. rewrite (H a Hr). apply IH.
  - cbn [filter]. destruct (p a); rewrite IH; reflexivity.
Qed.
