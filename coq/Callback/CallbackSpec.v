(* C12 - reference object.  Does not look at the code: a list of live connections in connection
   order, each with a sequence number; per (emitter, signal) the watermark taken when the
   outermost emission in progress began and one cursor per emission in progress.

   "An emission invokes, in connection order, exactly those slots that were connected before the
   outermost emission of that signal still in progress began (seq < watermark) and that are
   still connected when their turn comes (still in the list when the cursor reaches them)."

   The script language (what a slot does when it runs) is shared with the model: slots connect,
   disconnect, emit again, destroy listeners or emitters - possibly themselves. *)
From Coq Require Import List Arith Bool Lia.
Import ListNotations.

Inductive action :=
| AConnect (e sg l s : nat)
| ADisconnect (e sg l s : nat)
| AEmit (e sg : nat)
| ADestroyL (l : nat)
| ADestroyE (e : nat).

(* one invocation: slot i_s of listener i_l called by signal i_sg of emitter i_e *)
Record inv := mkInv { i_e : nat; i_sg : nat; i_l : nat; i_s : nat }.

(* What slot s of listener l does when invoked.  A slot is a program with memory: its behaviour may depend on
   everything that has been invoked so far.  The first argument is the invocation log of the top-level
   operation in progress, newest first; its head is the invocation being served.  (Histories: the theorems
   quantify over a family of scripts indexed by the logs of the earlier top-level operations, CallbackMain.hrun.)
   So "disconnect myself at the first call, emit again at the second", counters, flags set by other slots are
   all members of the quantified class. *)
Definition scripts := list inv -> nat -> nat -> list action.

Inductive outcome (A : Type) :=
| Done (a : A)
| OutOfFuel (lg : list inv)
| Fail (lg : list inv).          (* the library touched a destroyed object *)
Arguments Done {A} a.
Arguments OutOfFuel {A} lg.
Arguments Fail {A} lg.

Record conn := mkConn { c_e : nat; c_sg : nat; c_l : nat; c_s : nat; c_seq : nat }.
Record emi := mkEmi { em_w : nat; em_cur : list nat }.
Record sp := mkSp {
  sp_conns : list conn;          (* live connections, oldest first *)
  sp_next : nat;                 (* next sequence number *)
  sp_E : nat -> bool;            (* emitter alive *)
  sp_L : nat -> bool;            (* listener alive *)
  sp_em : nat -> nat -> emi;     (* per (emitter, signal): watermark, cursors of the emissions in progress *)
  sp_nsg : nat }.                (* signals an emitter has *)

Fixpoint rm_first {A} (p : A -> bool) (l : list A) : list A :=
  match l with
  | [] => []
  | x :: t => if p x then t else x :: rm_first p t
  end.

Definition on_es (e sg : nat) (c : conn) : bool := (c_e c =? e) && (c_sg c =? sg).
Definition ckey (e sg l s : nat) (c : conn) : bool := on_es e sg c && ((c_l c =? l) && (c_s c =? s)).

Definition upd2 {A} (f : nat -> nat -> A) (e sg : nat) (v : A) : nat -> nat -> A :=
  fun e' sg' => if (e' =? e) && (sg' =? sg) then v else f e' sg'.
Definition upd1 {A} (f : nat -> A) (k : nat) (v : A) : nat -> A :=
  fun k' => if k' =? k then v else f k'.

Definition sp_init (ne nl nsg : nat) : sp :=
  mkSp [] 0 (fun e => e <? ne) (fun l => l <? nl) (fun _ _ => mkEmi 0 []) nsg.

Definition sp_connect (st : sp) (e sg l s : nat) : sp :=
  mkSp (sp_conns st ++ [mkConn e sg l s (sp_next st)]) (S (sp_next st)) (sp_E st) (sp_L st) (sp_em st) (sp_nsg st).

(* disconnect removes ONE live connection of that (emitter, signal, listener, slot).  The property text does
   not say which one when several identical connections exist: the reference object takes the choice as a
   parameter (a policy `picker`: index among the identical live connections, oldest = 0, clamped to the
   newest).  `sp_disconnect` is the instance "the oldest" - the policy of the code as it is. *)
Fixpoint rm_nth {A} (p : A -> bool) (k : nat) (l : list A) : list A :=
  match l with
  | [] => []
  | x :: t => if p x then match k with O => t | S k' => x :: rm_nth p k' t end else x :: rm_nth p k t
  end.

Definition sp_disconnect_at (k : nat) (st : sp) (e sg l s : nat) : sp :=
  let q := ckey e sg l s in
  mkSp (rm_nth q (Nat.min k (pred (length (filter q (sp_conns st))))) (sp_conns st))
       (sp_next st) (sp_E st) (sp_L st) (sp_em st) (sp_nsg st).

Definition sp_disconnect (st : sp) (e sg l s : nat) : sp :=
  mkSp (rm_first (ckey e sg l s) (sp_conns st)) (sp_next st) (sp_E st) (sp_L st) (sp_em st) (sp_nsg st).

(* which of several identical connections a disconnect cancels: a function of the reference state and the key *)
Definition picker := sp -> nat -> nat -> nat -> nat -> nat.
Definition oldest : picker := fun _ _ _ _ _ => 0.

Definition sp_destroyL (st : sp) (l : nat) : sp :=
  mkSp (filter (fun c => negb (c_l c =? l)) (sp_conns st)) (sp_next st) (sp_E st) (upd1 (sp_L st) l false) (sp_em st) (sp_nsg st).

Definition sp_destroyE (st : sp) (e : nat) : sp :=
  mkSp (filter (fun c => negb (c_e c =? e)) (sp_conns st)) (sp_next st) (upd1 (sp_E st) e false) (sp_L st) (sp_em st) (sp_nsg st).

Definition sp_begin (st : sp) (e sg : nat) : sp :=
  let m := sp_em st e sg in
  let w := match em_cur m with [] => sp_next st | _ => em_w m end in
  mkSp (sp_conns st) (sp_next st) (sp_E st) (sp_L st) (upd2 (sp_em st) e sg (mkEmi w (0 :: em_cur m))) (sp_nsg st).

(* whose turn is it: the oldest live connection of (e, sg) at or after the cursor that was made
   before the outermost emission began *)
Definition sp_turn (st : sp) (e sg : nat) : option conn :=
  let m := sp_em st e sg in
  match em_cur m with
  | [] => None
  | k :: _ => find (fun c => on_es e sg c && ((k <=? c_seq c) && (c_seq c <? em_w m))) (sp_conns st)
  end.

Definition sp_advance (st : sp) (e sg : nat) (c : conn) : sp :=
  let m := sp_em st e sg in
  mkSp (sp_conns st) (sp_next st) (sp_E st) (sp_L st)
       (upd2 (sp_em st) e sg (mkEmi (em_w m) (S (c_seq c) :: tl (em_cur m)))) (sp_nsg st).

Definition sp_end (st : sp) (e sg : nat) : sp :=
  let m := sp_em st e sg in
  mkSp (sp_conns st) (sp_next st) (sp_E st) (sp_L st) (upd2 (sp_em st) e sg (mkEmi (em_w m) (tl (em_cur m)))) (sp_nsg st).

(* The client never hands a destroyed object to the library: such actions are skipped.
   Emissions nested deeper than maxd are skipped (keeps scripted runs finite). *)
Section Interp.
Variable pick : picker.
Variable sc : scripts.
Variable maxd : nat.

Fixpoint sexec (fuel d : nat) (st : sp) (lg : list inv) (acts : list action) {struct fuel} : outcome (sp * list inv) :=
  match fuel with
  | O => OutOfFuel lg
  | S f =>
    match acts with
    | [] => Done (st, lg)
    | a :: rest =>
      match a with
      | AConnect e sg l s =>
          if sp_E st e && sp_L st l && (sg <? sp_nsg st) then sexec f d (sp_connect st e sg l s) lg rest else sexec f d st lg rest
      | ADisconnect e sg l s =>
          if sp_E st e && sp_L st l && (sg <? sp_nsg st) then sexec f d (sp_disconnect_at (pick st e sg l s) st e sg l s) lg rest else sexec f d st lg rest
      | ADestroyL l =>
          if sp_L st l then sexec f d (sp_destroyL st l) lg rest else sexec f d st lg rest
      | ADestroyE e =>
          if sp_E st e then sexec f d (sp_destroyE st e) lg rest else sexec f d st lg rest
      | AEmit e sg =>
          if sp_E st e && (sg <? sp_nsg st) && (d <? maxd) then
            match sloop f d (sp_begin st e sg) lg e sg with
            | Done (st', lg') => sexec f d (sp_end st' e sg) lg' rest
            | o => o
            end
          else sexec f d st lg rest
      end
    end
  end
with sloop (fuel d : nat) (st : sp) (lg : list inv) (e sg : nat) {struct fuel} : outcome (sp * list inv) :=
  match fuel with
  | O => OutOfFuel lg
  | S f =>
    match sp_turn st e sg with
    | None => Done (st, lg)
    | Some c =>
      match sexec f (S d) (sp_advance st e sg c) (mkInv e sg (c_l c) (c_s c) :: lg) (sc (mkInv e sg (c_l c) (c_s c) :: lg) (c_l c) (c_s c)) with
      | Done (st', lg') => if sp_E st' e then sloop f d st' lg' e sg else Done (st', lg')
      | o => o
      end
    end
  end.
End Interp.

(* top level: one action of the test program, run to completion; returns the invocations in order *)
Definition spec_step (pick : picker) (sc : scripts) (maxd fuel : nat) (st : sp) (a : action) : outcome (sp * list inv) :=
  sexec pick sc maxd fuel 0 st [] [a].
