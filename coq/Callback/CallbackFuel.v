(* C12 - fuel: results do not depend on it, and enough of it always exists (the depth limit maxd bounds the
   nesting; the number of slots an emission can still call strictly decreases with every call). *)
From Coq Require Import List Arith Bool Lia Sorted.
From Callback Require Import CallbackSpec CallbackModel CallbackLists CallbackInv CallbackOps CallbackDestroy CallbackSim CallbackMain.
Import ListNotations.

Section Fuel.
Variable pick : picker.
Variable sc : scripts.
Variable maxd : nat.

(* ---- more fuel never changes a finished run ---- *)
Lemma spec_fuel_mono : forall f,
  (forall d p lg acts r, sexec pick sc maxd f d p lg acts = Done r -> forall f', f <= f' -> sexec pick sc maxd f' d p lg acts = Done r) /\
  (forall d p lg e sg r, sloop pick sc maxd f d p lg e sg = Done r -> forall f', f <= f' -> sloop pick sc maxd f' d p lg e sg = Done r).
Proof.
  induction f as [|f [IHe IHl]]; [split; intros; discriminate|]. split.
  - intros d p lg acts r H f' Hf. destruct f' as [|f']; [lia|]. assert (Hf' : f <= f') by lia.
    destruct acts as [|a rest]; [exact H|]. destruct a as [e sg l s|e sg l s|e sg|l|e].
    + rewrite sexec_connect in *. destruct (sp_E p e && sp_L p l && (sg <? sp_nsg p)); eapply IHe; eassumption.
    + rewrite sexec_disconnect in *. destruct (sp_E p e && sp_L p l && (sg <? sp_nsg p)); eapply IHe; eassumption.
    + rewrite sexec_emit in *. destruct (sp_E p e && (sg <? sp_nsg p) && (d <? maxd)); [|eapply IHe; eassumption].
      destruct (sloop pick sc maxd f d (sp_begin p e sg) lg e sg) as [[p1 lg1]| |] eqn:Hl; try discriminate.
      rewrite (IHl _ _ _ _ _ _ Hl f' Hf'). eapply IHe; eassumption.
    + rewrite sexec_destroyL in *. destruct (sp_L p l); eapply IHe; eassumption.
    + rewrite sexec_destroyE in *. destruct (sp_E p e); eapply IHe; eassumption.
  - intros d p lg e sg r H f' Hf. destruct f' as [|f']; [lia|]. assert (Hf' : f <= f') by lia.
    rewrite sloop_S in *. destruct (sp_turn p e sg) as [c|]; [|exact H].
    destruct (sexec pick sc maxd f (S d) (sp_advance p e sg c) _ _) as [[p2 lg2]| |] eqn:He; try discriminate.
    rewrite (IHe _ _ _ _ _ He f' Hf'). destruct (sp_E p2 e); [eapply IHl; eassumption|exact H].
Qed.

Lemma model_fuel_mono : forall f,
  (forall d st lg acts r, exec sc maxd f d st lg acts = Done r -> forall f', f <= f' -> exec sc maxd f' d st lg acts = Done r) /\
  (forall d st lg e sg r, loop sc maxd f d st lg e sg = Done r -> forall f', f <= f' -> loop sc maxd f' d st lg e sg = Done r).
Proof.
  induction f as [|f [IHe IHl]]; [split; intros; discriminate|]. split.
  - intros d st lg acts r H f' Hf. destruct f' as [|f']; [lia|]. assert (Hf' : f <= f') by lia.
    destruct acts as [|a rest]; [exact H|]. destruct a as [e sg l s|e sg l s|e sg|l|e].
    + rewrite exec_connect in *. destruct (okE st e && okL st l && (sg <? st_nsg st)); [|eapply IHe; eassumption].
      destruct (connect st e sg l s); [eapply IHe; eassumption|discriminate].
    + rewrite exec_disconnect in *. destruct (okE st e && okL st l && (sg <? st_nsg st)); [|eapply IHe; eassumption].
      destruct (disconnect st e sg l s); [eapply IHe; eassumption|discriminate].
    + rewrite exec_emit in *. destruct (okE st e && (sg <? st_nsg st) && (d <? maxd)); [|eapply IHe; eassumption].
      destruct (emit_begin st e sg) as [st1|]; [|discriminate].
      destruct (loop sc maxd f d st1 lg e sg) as [[st2 lg2]| |] eqn:Hl; try discriminate.
      rewrite (IHl _ _ _ _ _ _ Hl f' Hf'). destruct (emit_end st2 e sg); [eapply IHe; eassumption|discriminate].
    + rewrite exec_destroyL in *. destruct (okL st l); [|eapply IHe; eassumption].
      destruct (destroy_listener st l); [eapply IHe; eassumption|discriminate].
    + rewrite exec_destroyE in *. destruct (okE st e); [|eapply IHe; eassumption].
      destruct (destroy_emitter st e); [eapply IHe; eassumption|discriminate].
  - intros d st lg e sg r H f' Hf. destruct f' as [|f']; [lia|]. assert (Hf' : f <= f') by lia.
    rewrite loop_S in *. destruct (emit_next st e sg) as [[st1 [x|]]|]; [|exact H|discriminate].
    destruct (exec sc maxd f (S d) st1 _ _) as [[st2 lg2]| |] eqn:He; try discriminate.
    rewrite (IHe _ _ _ _ _ He f' Hf'). destruct (invalidated st2 e sg); [exact H|eapply IHl; eassumption].
Qed.

(* ---- what a nested run cannot do to an emission in progress ---- *)
(* watermarks never exceed the serial counter *)
Definition WOK (p : sp) : Prop := forall e sg, em_cur (sp_em p e sg) <> [] -> em_w (sp_em p e sg) <= sp_next p.

Definition old (n : nat) (q : conn -> bool) (c : conn) : bool := q c && (c_seq c <? n).

(* p' is later than p: no connection with an old serial number appears, watermarks of running emissions stay *)
Record Later (p p' : sp) : Prop := {
  lt_next : sp_next p <= sp_next p';
  lt_w : forall e sg, em_cur (sp_em p e sg) <> [] -> em_w (sp_em p' e sg) = em_w (sp_em p e sg);
  lt_old : forall n q, n <= sp_next p -> count (old n q) (sp_conns p') <= count (old n q) (sp_conns p) }.

Lemma Later_refl p : Later p p.
Proof. constructor; auto. Qed.

Lemma Later_trans p1 p2 p3 : FrameS p1 p2 -> Later p1 p2 -> Later p2 p3 -> Later p1 p3.
Proof.
  intros HF [a1 a2 a3] [b1 b2 b3]. constructor.
  - lia.
  - intros e sg H. rewrite b2; [apply a2; exact H|]. rewrite (HF e sg). exact H.
  - intros n q Hn. etransitivity; [apply b3; lia|apply a3; exact Hn].
Qed.

Lemma count_rm_first_le {A} (q r : A -> bool) l : count q (rm_first r l) <= count q l.
Proof.
  induction l as [|a t IH]; [apply le_n|]. cbn [rm_first]. destruct (r a); rewrite !count_cons; [lia|]. lia.
Qed.

Lemma count_filter_le {A} (q r : A -> bool) l : count q (filter r l) <= count q l.
Proof.
  induction l as [|a t IH]; [apply le_n|]. cbn [filter]. destruct (r a); rewrite !count_cons; lia.
Qed.

Lemma Later_connect p e sg l s : Later p (sp_connect p e sg l s).
Proof.
  constructor; unfold sp_connect; cbn [sp_next sp_em sp_conns]; auto.
  intros n q Hn. rewrite count_app. unfold count at 2; cbn [filter]. unfold old at 2; cbn [c_seq].
  replace (sp_next p <? n) with false; [rewrite andb_false_r; cbn; lia|]. symmetry. apply Nat.ltb_ge. exact Hn.
Qed.
Lemma Later_disconnect p e sg l s : Later p (sp_disconnect p e sg l s).
Proof. constructor; unfold sp_disconnect; cbn [sp_next sp_em sp_conns]; auto. intros. apply count_rm_first_le. Qed.
Lemma Later_disconnect_at k p e sg l s : Later p (sp_disconnect_at k p e sg l s).
Proof. constructor; unfold sp_disconnect_at; cbn [sp_next sp_em sp_conns]; auto. intros. apply count_rm_nth_le. Qed.
Lemma Later_destroyL p l : Later p (sp_destroyL p l).
Proof. constructor; unfold sp_destroyL; cbn [sp_next sp_em sp_conns]; auto. intros. apply count_filter_le. Qed.
Lemma Later_destroyE p e : Later p (sp_destroyE p e).
Proof. constructor; unfold sp_destroyE; cbn [sp_next sp_em sp_conns]; auto. intros. apply count_filter_le. Qed.

Lemma WOK_next p p' : sp_next p <= sp_next p' -> sp_em p' = sp_em p -> WOK p -> WOK p'.
Proof. intros Hn He H e sg Hc. rewrite He in *. specialize (H e sg Hc). lia. Qed.

Lemma WOK_connect p e sg l s : WOK p -> WOK (sp_connect p e sg l s).
Proof. intros H. apply (WOK_next p); [cbn; lia|reflexivity|exact H]. Qed.
Lemma WOK_disconnect p e sg l s : WOK p -> WOK (sp_disconnect p e sg l s).
Proof. intros H. apply (WOK_next p); [cbn; lia|reflexivity|exact H]. Qed.
Lemma WOK_disconnect_at k p e sg l s : WOK p -> WOK (sp_disconnect_at k p e sg l s).
Proof. intros H. apply (WOK_next p); [cbn; lia|reflexivity|exact H]. Qed.
Lemma WOK_destroyL p l : WOK p -> WOK (sp_destroyL p l).
Proof. intros H. apply (WOK_next p); [cbn; lia|reflexivity|exact H]. Qed.
Lemma WOK_destroyE p e : WOK p -> WOK (sp_destroyE p e).
Proof. intros H. apply (WOK_next p); [cbn; lia|reflexivity|exact H]. Qed.

Lemma WOK_begin p e sg : WOK p -> WOK (sp_begin p e sg).
Proof.
  intros H e' sg' Hc. unfold sp_begin in *; cbn [sp_em sp_next] in *. destruct (pair_dec e' sg' e sg) as [Heq|Hne].
  - injection Heq as -> ->. rewrite upd2_same in *. cbn [em_w]. destruct (em_cur (sp_em p e sg)) eqn:Hk; [lia|]. apply H. congruence.
  - rewrite upd2_other in * by exact Hne. apply H. exact Hc.
Qed.

Lemma WOK_advance p e sg c : WOK p -> em_cur (sp_em p e sg) <> [] -> WOK (sp_advance p e sg c).
Proof.
  intros H Hcur e' sg' Hc. unfold sp_advance in *; cbn [sp_em sp_next] in *. destruct (pair_dec e' sg' e sg) as [Heq|Hne].
  - injection Heq as -> ->. rewrite upd2_same in *. cbn [em_w]. apply H. exact Hcur.
  - rewrite upd2_other in * by exact Hne. apply H. exact Hc.
Qed.

Lemma WOK_end p e sg : WOK p -> WOK (sp_end p e sg).
Proof.
  intros H e' sg' Hc. unfold sp_end in *; cbn [sp_em sp_next] in *. destruct (pair_dec e' sg' e sg) as [Heq|Hne].
  - injection Heq as -> ->. rewrite upd2_same in *. cbn [em_w em_cur] in *. apply H. intros H0. rewrite H0 in Hc. apply Hc. reflexivity.
  - rewrite upd2_other in * by exact Hne. apply H. exact Hc.
Qed.

Lemma spec_later : forall f,
  (forall d p lg acts p' lg', WOK p -> sexec pick sc maxd f d p lg acts = Done (p', lg') -> WOK p' /\ Later p p') /\
  (forall d p lg e sg p' lg', WOK p -> em_cur (sp_em p e sg) <> [] -> sloop pick sc maxd f d p lg e sg = Done (p', lg') -> WOK p' /\ Later p p').
Proof.
  induction f as [|f [IHe IHl]]; [split; intros; discriminate|]. split.
  - intros d p lg acts p' lg' HW H. destruct acts as [|a rest]; [rewrite sexec_nil in H; injection H as <- <-; split; [exact HW|apply Later_refl]|].
    assert (Hstep : forall p1 lg1, WOK p1 -> FrameS p p1 -> Later p p1 -> sexec pick sc maxd f d p1 lg1 rest = Done (p', lg') -> WOK p' /\ Later p p').
    { intros p1 lg1 HW1 HF1 HL1 H1. destruct (IHe _ _ _ _ _ _ HW1 H1) as [HW' HL']. split; [exact HW'|]. eapply Later_trans; eassumption. }
    destruct a as [e sg l s|e sg l s|e sg|l|e].
    + rewrite sexec_connect in H. destruct (sp_E p e && sp_L p l && (sg <? sp_nsg p)); [|eapply IHe; eassumption].
      eapply Hstep; [apply WOK_connect; exact HW|intros ? ?; reflexivity|apply Later_connect|exact H].
    + rewrite sexec_disconnect in H. destruct (sp_E p e && sp_L p l && (sg <? sp_nsg p)); [|eapply IHe; eassumption].
      eapply Hstep; [apply WOK_disconnect_at; exact HW|intros ? ?; reflexivity|apply Later_disconnect_at|exact H].
    + rewrite sexec_emit in H. destruct (sp_E p e && (sg <? sp_nsg p) && (d <? maxd)); [|eapply IHe; eassumption].
      destruct (sloop pick sc maxd f d (sp_begin p e sg) lg e sg) as [[p1 lg1]| |] eqn:Hl; try discriminate.
      assert (Hcur1 : em_cur (sp_em (sp_begin p e sg) e sg) <> []) by (unfold sp_begin; cbn [sp_em]; rewrite upd2_same; discriminate).
      destruct (IHl _ _ _ _ _ _ _ (WOK_begin p e sg HW) Hcur1 Hl) as [HW1 HL1].
      pose proof (proj2 (spec_frame sc maxd pick f) _ _ _ _ _ _ _ Hl) as (HF1 & HF2 & HF3).
      eapply Hstep; [apply WOK_end; exact HW1| | |exact H].
      * intros e' sg'. unfold sp_end, sp_begin in *; cbn [sp_em] in *. destruct (pair_dec e' sg' e sg) as [Heq|Hne].
        -- injection Heq as -> ->. rewrite upd2_same in *. cbn [em_cur] in *. rewrite HF2. reflexivity.
        -- rewrite upd2_other by exact Hne. rewrite (HF1 e' sg' Hne), upd2_other by exact Hne. reflexivity.
      * destruct HL1 as [a1 a2 a3]. constructor.
        -- exact a1.
        -- intros e' sg' Hc. unfold sp_end, sp_begin in *; cbn [sp_em sp_next sp_conns] in *. destruct (pair_dec e' sg' e sg) as [Heq|Hne].
           ++ injection Heq as -> ->. rewrite upd2_same. cbn [em_w]. rewrite a2 by exact Hcur1. rewrite upd2_same. cbn [em_w].
              destruct (em_cur (sp_em p e sg)); [congruence|reflexivity].
           ++ rewrite upd2_other by exact Hne. specialize (a2 e' sg'). rewrite upd2_other in a2 by exact Hne. apply a2. exact Hc.
        -- exact a3.
    + rewrite sexec_destroyL in H. destruct (sp_L p l); [|eapply IHe; eassumption].
      eapply Hstep; [apply WOK_destroyL; exact HW|intros ? ?; reflexivity|apply Later_destroyL|exact H].
    + rewrite sexec_destroyE in H. destruct (sp_E p e); [|eapply IHe; eassumption].
      eapply Hstep; [apply WOK_destroyE; exact HW|intros ? ?; reflexivity|apply Later_destroyE|exact H].
  - intros d p lg e sg p' lg' HW Hcur H. rewrite sloop_S in H.
    destruct (sp_turn p e sg) as [c|]; [|injection H as <- <-; split; [exact HW|apply Later_refl]].
    destruct (sexec pick sc maxd f (S d) (sp_advance p e sg c) _ _) as [[p2 lg2]| |] eqn:He; try discriminate.
    destruct (IHe _ _ _ _ _ _ (WOK_advance p e sg c HW Hcur) He) as [HW2 HL2].
    pose proof (proj1 (spec_frame sc maxd pick f) _ _ _ _ _ _ He) as HF2.
    assert (HLa : Later p p2).
    { destruct HL2 as [a1 a2 a3]. unfold sp_advance in *; cbn [sp_em sp_next sp_conns] in *. constructor; [exact a1| |exact a3].
      intros e' sg' Hc. destruct (pair_dec e' sg' e sg) as [Heq|Hne].
      - injection Heq as -> ->. specialize (a2 e sg). rewrite upd2_same in a2. cbn [em_w em_cur] in a2. apply a2. discriminate.
      - specialize (a2 e' sg'). rewrite upd2_other in a2 by exact Hne. apply a2. exact Hc. }
    destruct (sp_E p2 e); [|injection H as <- <-; split; assumption].
    assert (Hcur2 : em_cur (sp_em p2 e sg) <> []).
    { rewrite (HF2 e sg). unfold sp_advance; cbn [sp_em]. rewrite upd2_same. discriminate. }
    destruct (IHl _ _ _ _ _ _ _ HW2 Hcur2 H) as [HW' HL']. split; [exact HW'|].
    destruct HLa as [a1 a2 a3], HL' as [b1 b2 b3]. constructor.
    + lia.
    + intros e' sg' Hc. destruct (pair_dec e' sg' e sg) as [Heq|Hne].
      * injection Heq as -> ->. rewrite b2 by exact Hcur2. apply a2. exact Hc.
      * rewrite b2; [apply a2; exact Hc|]. rewrite (HF2 e' sg'). unfold sp_advance; cbn [sp_em]. rewrite upd2_other by exact Hne. exact Hc.
    + intros n q Hn. etransitivity; [apply b3; lia|apply a3; exact Hn].
Qed.

(* ---- enough fuel exists ---- *)
(* slots the emission (e, sg) can still call *)
Definition todo (p : sp) (e sg : nat) : nat :=
  match em_cur (sp_em p e sg) with
  | [] => 0
  | k :: _ => count (fun c => on_es e sg c && turnq k (em_w (sp_em p e sg)) c) (sp_conns p)
  end.

Lemma count_lt_of {A} (q q' : A -> bool) l c : In c l -> q c = true -> q' c = false -> (forall x, q' x = true -> q x = true) ->
  count q' l < count q l.
Proof.
  intros Hin Hq Hq' Himp. induction l as [|a t IH]; [destruct Hin|]. rewrite !count_cons. destruct Hin as [->|Hin].
  - rewrite Hq, Hq'. assert (count q' t <= count q t); [|lia].
    clear IH. induction t as [|b u IHu]; [apply le_n|]. rewrite !count_cons. destruct (q' b) eqn:Hb; [rewrite (Himp b Hb); lia|destruct (q b); lia].
  - specialize (IH Hin). destruct (q' a) eqn:Ha; [rewrite (Himp a Ha); lia|destruct (q a); lia].
Qed.

Lemma loop_terminates d :
  (forall p lg acts, WOK p -> exists f r, sexec pick sc maxd f (S d) p lg acts = Done r) ->
  forall n p lg e sg, WOK p -> todo p e sg <= n -> exists f r, sloop pick sc maxd f d p lg e sg = Done r.
Proof.
  intros Pdeep. induction n as [|n IH]; intros p lg e sg HW Hn.
  - exists 1. rewrite sloop_S. destruct (sp_turn p e sg) as [c|] eqn:Ht; [|eexists; reflexivity]. exfalso.
    pose proof Ht as Ht'. unfold sp_turn in Ht'. unfold todo in Hn. destruct (em_cur (sp_em p e sg)) as [|k ks]; [discriminate|].
    apply find_some in Ht' as [Hin Hq]. assert (Hz : count (fun c => on_es e sg c && turnq k (em_w (sp_em p e sg)) c) (sp_conns p) = 0) by lia.
    rewrite count_zero_iff in Hz. specialize (Hz c Hin). unfold turnq in Hz. rewrite Hq in Hz. discriminate.
  - destruct (sp_turn p e sg) as [c|] eqn:Ht; [|exists 1; rewrite sloop_S, Ht; eexists; reflexivity].
    assert (Hcur : em_cur (sp_em p e sg) <> []) by (unfold sp_turn in Ht; destruct (em_cur (sp_em p e sg)); [discriminate|discriminate]).
    set (pa := sp_advance p e sg c).
    destruct (Pdeep pa (mkInv e sg (c_l c) (c_s c) :: lg) (sc (mkInv e sg (c_l c) (c_s c) :: lg) (c_l c) (c_s c)) (WOK_advance p e sg c HW Hcur)) as (f2 & [p2 lg2] & He).
    destruct (sp_E p2 e) eqn:HE2.
    + assert (Htodo : todo p2 e sg <= n).
      { destruct (proj1 (spec_later f2) _ _ _ _ _ _ (WOK_advance p e sg c HW Hcur) He) as [HW2 [a1 a2 a3]].
        pose proof (proj1 (spec_frame sc maxd pick f2) _ _ _ _ _ _ He e sg) as HF.
        unfold todo in *. rewrite HF. fold pa in a1, a2, a3. 
        assert (Hca : em_cur (sp_em pa e sg) = S (c_seq c) :: tl (em_cur (sp_em p e sg))) by (unfold pa, sp_advance; cbn [sp_em]; rewrite upd2_same; reflexivity).
        assert (Hwa : em_w (sp_em pa e sg) = em_w (sp_em p e sg)) by (unfold pa, sp_advance; cbn [sp_em]; rewrite upd2_same; reflexivity).
        rewrite Hca. rewrite (a2 e sg) by (rewrite Hca; discriminate). rewrite Hwa.
        destruct (em_cur (sp_em p e sg)) as [|k ks] eqn:Hk; [congruence|].
        set (w := em_w (sp_em p e sg)) in *.
        assert (Hw : w <= sp_next pa) by (unfold pa, sp_advance; cbn [sp_next]; apply HW; congruence).
        pose proof (a3 w (fun c' => on_es e sg c' && (S (c_seq c) <=? c_seq c')) Hw) as Hle.
        assert (Hlt : count (old w (fun c' => on_es e sg c' && (S (c_seq c) <=? c_seq c'))) (sp_conns pa) <
                      count (fun c' => on_es e sg c' && turnq k w c') (sp_conns p)).
        { unfold sp_turn in Ht. rewrite Hk in Ht. apply find_some in Ht as [Hin Hq]. fold w in Hq.
          apply (count_lt_of _ _ _ c Hin).
          - exact Hq.
          - unfold old. replace (S (c_seq c) <=? c_seq c) with false; [rewrite andb_false_r; reflexivity|]. symmetry. apply Nat.leb_gt. lia.
          - intros x Hx. unfold old in Hx. apply andb_true_iff in Hx as [Hx Hx3]. apply andb_true_iff in Hx as [Hx1 Hx2].
            rewrite Hx1. cbn [andb]. unfold turnq. rewrite Hx3, andb_true_r. apply Nat.leb_le. apply Nat.leb_le in Hx2.
            apply andb_true_iff in Hq as [_ Hq]. apply andb_true_iff in Hq as [Hq _]. apply Nat.leb_le in Hq. lia. }
        assert (Heq : count (fun c0 => on_es e sg c0 && turnq (S (c_seq c)) w c0) (sp_conns p2) =
                      count (old w (fun c' => on_es e sg c' && (S (c_seq c) <=? c_seq c'))) (sp_conns p2)).
        { apply count_ext. intros x. unfold old, turnq. rewrite andb_assoc. reflexivity. }
        rewrite Heq. lia. }
      destruct (proj1 (spec_later f2) _ _ _ _ _ _ (WOK_advance p e sg c HW Hcur) He) as [HW2 _].
      destruct (IH p2 lg2 e sg HW2 Htodo) as (f3 & r & Hl).
      exists (S (Nat.max f2 f3)), r. rewrite sloop_S, Ht. fold pa.
      rewrite (proj1 (spec_fuel_mono f2) _ _ _ _ _ He (Nat.max f2 f3) (Nat.le_max_l _ _)). rewrite HE2.
      apply (proj2 (spec_fuel_mono f3) _ _ _ _ _ _ Hl). apply Nat.le_max_r.
    + exists (S f2). rewrite sloop_S, Ht. fold pa. rewrite He, HE2. eexists; reflexivity.
Qed.

Lemma exec_terminates : forall k d, maxd - d <= k -> forall acts p lg, WOK p -> exists f r, sexec pick sc maxd f d p lg acts = Done r.
Proof.
  induction k as [|k IHk]; intros d Hd.
  - (* at the depth limit every emission is skipped *)
    induction acts as [|a rest IH]; intros p lg HW; [exists 1; eexists; reflexivity|].
    assert (Hskip : forall p1, WOK p1 -> exists f r, sexec pick sc maxd f d p1 lg rest = Done r) by (intros; apply IH; assumption).
    assert (Hd' : (d <? maxd) = false) by (apply Nat.ltb_ge; lia).
    destruct a as [e sg l s|e sg l s|e sg|l|e].
    + destruct (sp_E p e && sp_L p l && (sg <? sp_nsg p)) eqn:Hg.
      * destruct (Hskip (sp_connect p e sg l s)) as (f & r & H); [first [apply WOK_connect|apply WOK_disconnect_at|apply WOK_destroyL|apply WOK_destroyE]; exact HW|].
        exists (S f), r. rewrite sexec_connect, Hg. exact H.
      * destruct (Hskip p HW) as (f & r & H). exists (S f), r. rewrite sexec_connect, Hg. exact H.
    + destruct (sp_E p e && sp_L p l && (sg <? sp_nsg p)) eqn:Hg.
      * destruct (Hskip (sp_disconnect_at (pick p e sg l s) p e sg l s)) as (f & r & H); [first [apply WOK_connect|apply WOK_disconnect_at|apply WOK_destroyL|apply WOK_destroyE]; exact HW|].
        exists (S f), r. rewrite sexec_disconnect, Hg. exact H.
      * destruct (Hskip p HW) as (f & r & H). exists (S f), r. rewrite sexec_disconnect, Hg. exact H.
    + destruct (Hskip p HW) as (f & r & H). exists (S f), r. rewrite sexec_emit, Hd', andb_false_r. exact H.
    + destruct (sp_L p l) eqn:Hg.
      * destruct (Hskip (sp_destroyL p l)) as (f & r & H); [first [apply WOK_connect|apply WOK_disconnect_at|apply WOK_destroyL|apply WOK_destroyE]; exact HW|].
        exists (S f), r. rewrite sexec_destroyL, Hg. exact H.
      * destruct (Hskip p HW) as (f & r & H). exists (S f), r. rewrite sexec_destroyL, Hg. exact H.
    + destruct (sp_E p e) eqn:Hg.
      * destruct (Hskip (sp_destroyE p e)) as (f & r & H); [first [apply WOK_connect|apply WOK_disconnect_at|apply WOK_destroyL|apply WOK_destroyE]; exact HW|].
        exists (S f), r. rewrite sexec_destroyE, Hg. exact H.
      * destruct (Hskip p HW) as (f & r & H). exists (S f), r. rewrite sexec_destroyE, Hg. exact H.
  - assert (Pdeep : forall p lg acts, WOK p -> exists f r, sexec pick sc maxd f (S d) p lg acts = Done r).
    { intros p lg acts HW. apply (IHk (S d)); [lia|exact HW]. }
    induction acts as [|a rest IH]; intros p lg HW; [exists 1; eexists; reflexivity|].
    assert (Hskip : forall p1 lg1, WOK p1 -> exists f r, sexec pick sc maxd f d p1 lg1 rest = Done r) by (intros; apply IH; assumption).
    destruct a as [e sg l s|e sg l s|e sg|l|e].
    + destruct (sp_E p e && sp_L p l && (sg <? sp_nsg p)) eqn:Hg.
      * destruct (Hskip (sp_connect p e sg l s) lg) as (f & r & H); [first [apply WOK_connect|apply WOK_disconnect_at|apply WOK_destroyL|apply WOK_destroyE]; exact HW|].
        exists (S f), r. rewrite sexec_connect, Hg. exact H.
      * destruct (Hskip p lg HW) as (f & r & H). exists (S f), r. rewrite sexec_connect, Hg. exact H.
    + destruct (sp_E p e && sp_L p l && (sg <? sp_nsg p)) eqn:Hg.
      * destruct (Hskip (sp_disconnect_at (pick p e sg l s) p e sg l s) lg) as (f & r & H); [first [apply WOK_connect|apply WOK_disconnect_at|apply WOK_destroyL|apply WOK_destroyE]; exact HW|].
        exists (S f), r. rewrite sexec_disconnect, Hg. exact H.
      * destruct (Hskip p lg HW) as (f & r & H). exists (S f), r. rewrite sexec_disconnect, Hg. exact H.
    + destruct (sp_E p e && (sg <? sp_nsg p) && (d <? maxd)) eqn:Hg.
      * destruct (loop_terminates d Pdeep (todo (sp_begin p e sg) e sg) (sp_begin p e sg) lg e sg (WOK_begin p e sg HW) (le_n _)) as (f1 & [p1 lg1] & Hl).
        assert (Hcur1 : em_cur (sp_em (sp_begin p e sg) e sg) <> []) by (unfold sp_begin; cbn [sp_em]; rewrite upd2_same; discriminate).
        destruct (proj2 (spec_later f1) _ _ _ _ _ _ _ (WOK_begin p e sg HW) Hcur1 Hl) as [HW1 _].
        destruct (Hskip (sp_end p1 e sg) lg1 (WOK_end p1 e sg HW1)) as (f2 & r & H).
        exists (S (Nat.max f1 f2)), r. rewrite sexec_emit, Hg.
        rewrite (proj2 (spec_fuel_mono f1) _ _ _ _ _ _ Hl (Nat.max f1 f2) (Nat.le_max_l _ _)).
        apply (proj1 (spec_fuel_mono f2) _ _ _ _ _ H). apply Nat.le_max_r.
      * destruct (Hskip p lg HW) as (f & r & H). exists (S f), r. rewrite sexec_emit, Hg. exact H.
    + destruct (sp_L p l) eqn:Hg.
      * destruct (Hskip (sp_destroyL p l) lg) as (f & r & H); [first [apply WOK_connect|apply WOK_disconnect_at|apply WOK_destroyL|apply WOK_destroyE]; exact HW|].
        exists (S f), r. rewrite sexec_destroyL, Hg. exact H.
      * destruct (Hskip p lg HW) as (f & r & H). exists (S f), r. rewrite sexec_destroyL, Hg. exact H.
    + destruct (sp_E p e) eqn:Hg.
      * destruct (Hskip (sp_destroyE p e) lg) as (f & r & H); [first [apply WOK_connect|apply WOK_disconnect_at|apply WOK_destroyL|apply WOK_destroyE]; exact HW|].
        exists (S f), r. rewrite sexec_destroyE, Hg. exact H.
      * destruct (Hskip p lg HW) as (f & r & H). exists (S f), r. rewrite sexec_destroyE, Hg. exact H.
Qed.

Lemma spec_step_terminates p a : WOK p -> exists f0 p' lg, forall f, f0 <= f -> spec_step pick sc maxd f p a = Done (p', lg) /\ WOK p'.
Proof.
  intros HW. destruct (exec_terminates maxd 0 (Nat.le_sub_l _ _) [a] p [] HW) as (f0 & [p' lg] & H).
  exists f0, p', lg. intros f Hf. split; [apply (proj1 (spec_fuel_mono f0) _ _ _ _ _ H f Hf)|].
  apply (proj1 (spec_later f0) _ _ _ _ _ _ HW H).
Qed.

Lemma WOK_init ne nl nsg : WOK (sp_init ne nl nsg).
Proof. intros e sg H. cbn in H. congruence. Qed.

End Fuel.

(* ---- whole histories: slot behaviours (and the reference object's choice among identical connections) may depend
        on the logs of the earlier top-level operations ---- *)
Lemma spec_history_terminates (hpick : list (list inv) -> picker) (hsc : hscripts) maxd : forall ops h p, WOK p ->
  exists f0 p' lgs, forall f, f0 <= f -> hrun (fun h => spec_step (hpick h) (hsc h) maxd f) h p ops = HDone p' lgs.
Proof.
  induction ops as [|a r IH]; intros h p HW; [exists 0, p, []; reflexivity|].
  destruct (spec_step_terminates (hpick h) (hsc h) maxd p a HW) as (f1 & p1 & lg1 & H1).
  destruct (H1 f1 (le_n _)) as [_ HW1]. destruct (IH (lg1 :: h) p1 HW1) as (f2 & p2 & lgs & H2).
  exists (Nat.max f1 f2), p2, (lg1 :: lgs). intros f Hf. cbn [hrun].
  rewrite (proj1 (H1 f (Nat.le_trans _ _ _ (Nat.le_max_l _ _) Hf))), (H2 f (Nat.le_trans _ _ _ (Nat.le_max_r _ _) Hf)). reflexivity.
Qed.

(* every history of the model completes with enough fuel, and the result does not depend on how much *)
Lemma model_history_terminates (hsc : hscripts) maxd ne nl nsg ops :
  exists f0 st lgs, forall f, f0 <= f -> hrun (fun h => step (hsc h) maxd f) [] (init ne nl nsg) ops = HDone st lgs.
Proof.
  destruct (spec_history_terminates (fun _ => oldest) hsc maxd ops [] (sp_init ne nl nsg) (WOK_init ne nl nsg)) as (f0 & p' & lgs & Hs).
  pose proof (histories_match hsc maxd f0 ne nl nsg ops) as H0. rewrite (Hs f0 (le_n _)) in H0.
  destruct (hrun (fun h => step (hsc h) maxd f0) [] (init ne nl nsg) ops) as [st0 lgs0| |] eqn:Hm0; try contradiction.
  exists f0, st0, lgs0. intros f Hf.
  (* fuel monotonicity lifted to histories *)
  revert Hm0. generalize (init ne nl nsg) st0 lgs0 (@nil (list inv)). clear H0 Hs. induction ops as [|a r IH]; intros s0 st1 lgs1 h H; cbn [hrun] in *; [exact H|].
  unfold step in *. destruct (exec (hsc h) maxd f0 0 s0 [] [a]) as [[s1 lg1]| |] eqn:He; try discriminate.
  rewrite (proj1 (model_fuel_mono (hsc h) maxd f0) _ _ _ _ _ He f Hf).
  destruct (hrun (fun h0 st a0 => exec (hsc h0) maxd f0 0 st [] [a0]) (lg1 :: h) s1 r) as [s2 lgs2| |] eqn:Hr; try discriminate.
  rewrite (IH s1 s2 lgs2 (lg1 :: h) Hr). exact H.
Qed.
