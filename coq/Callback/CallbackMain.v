(* C12 - the statements about whole histories, assembled from the simulation. *)
From Coq Require Import List Arith Bool Lia Sorted.
From Callback Require Import CallbackSpec CallbackModel CallbackLists CallbackInv CallbackOps CallbackDestroy CallbackSim.
Import ListNotations.

(* a history: top-level actions of the test program, each run to completion *)
Inductive hres (S : Type) :=
| HDone (s : S) (logs : list (list inv))
| HFuel
| HFail.
Arguments HDone {S} s logs.
Arguments HFuel {S}.
Arguments HFail {S}.

(* The step function sees the logs of the earlier top-level operations (newest first): slot behaviours, and in the
   reference object the choice among identical connections, may depend on the whole history so far. *)
Fixpoint hrun {S} (stepf : list (list inv) -> S -> action -> outcome (S * list inv)) (h : list (list inv)) (s : S) (ops : list action) : hres S :=
  match ops with
  | [] => HDone s []
  | a :: r =>
    match stepf h s a with
    | Done (s', lg) => match hrun stepf (lg :: h) s' r with HDone s'' lgs => HDone s'' (lg :: lgs) | o => o end
    | OutOfFuel _ => HFuel
    | Fail _ => HFail
    end
  end.

(* slot behaviours over a history: one script family per history of earlier top-level operations *)
Definition hscripts := list (list inv) -> scripts.

(* no emission in progress anywhere *)
Definition Quiet (p : sp) : Prop := forall e sg, em_cur (sp_em p e sg) = [].

(* both sides' bookkeeping describes the same connections (model only; holds also inside emissions,
   "live" = not marked disconnected) *)
Record Book (st : state) : Prop := {
  bk_recv : forall e sg x, e_alive (st_E st e) = true -> In x (slotsOf (sdo st e sg)) -> nd x = true ->
            l_alive (st_L st (s_recv x)) = true;
  bk_count : forall l e, l_alive (st_L st l) = true -> e_alive (st_E st e) = true -> forall sg s,
             count (sigeq sg s) (lst st l e) = count (hit l s) (slotsOf (sdo st e sg));
  bk_dead : forall l e, l_alive (st_L st l) = true -> e_alive (st_E st e) = false -> lst st l e = [] }.

(* after the outermost emission nothing disconnected / connecting is left, no activation, not dirty *)
Definition NoResidue (st : state) : Prop :=
  forall e sg, actsOf (sdo st e sg) = [] /\
    (e_alive (st_E st e) = true -> dirtyOf (sdo st e sg) = false /\ Forall (fun x => s_state x = Connected) (slotsOf (sdo st e sg))) /\
    (e_alive (st_E st e) = false -> slotsOf (sdo st e sg) = []).

Section Main.
Variable sc : scripts.
Variable maxd : nat.

Lemma R_Book st p : R st p -> Book st.
Proof.
  intros [T [HE HL]]. constructor.
  - intros e sg x He Hx Hnd. rewrite (r_E _ _ _ _ HE) in He. rewrite (r_L _ _ _ _ HE).
    eapply SigLive_recv_live; [exact (r_wf _ _ _ _ HE)|exact (r_sig _ _ _ _ HE e sg He eq_refl)|exact Hx|exact Hnd].
  - intros l e Hl He sg s. rewrite (r_E _ _ _ _ HE) in He. rewrite (r_L _ _ _ _ HE) in Hl.
    rewrite (HL l Hl eq_refl e sg s), (SigLive_count _ _ _ _ _ l s (r_sig _ _ _ _ HE e sg He eq_refl)).
    unfold conns. rewrite count_filter. reflexivity.
  - intros l e Hl He. rewrite (r_E _ _ _ _ HE) in He. rewrite (r_L _ _ _ _ HE) in Hl.
    apply counts_zero_nil. intros sg s. rewrite (HL l Hl eq_refl e sg s). apply count_zero_iff. intros c Hc.
    destruct (ckey e sg l s c) eqn:Hk; [|reflexivity]. apply ckey_true in Hk as (<- & _).
    destruct (wf_live _ (r_wf _ _ _ _ HE) c Hc) as [H _]. congruence.
Qed.

Lemma R_NoResidue st p : R st p -> Quiet p -> NoResidue st.
Proof.
  intros [T [HE HL]] HQ e sg. destruct (sp_E p e) eqn:He.
  - pose proof (r_sig _ _ _ _ HE e sg He eq_refl) as HS. destruct HS as [h1 h2 h3 h4 h5 h6 h7 h8 h9 h10 h11].
    rewrite (HQ e sg) in h5. assert (Ha : actsOf (sdo st e sg) = []) by (destruct (actsOf (sdo st e sg)); [reflexivity|discriminate]).
    split; [exact Ha|]. rewrite (r_E _ _ _ _ HE), He. split; [|discriminate]. intros _. split; [auto|auto].
  - pose proof (r_dead _ _ _ _ HE e sg He) as [h1 h2 h3]. rewrite (HQ e sg) in h2.
    split; [destruct (actsOf (sdo st e sg)); [reflexivity|discriminate]|]. rewrite (r_E _ _ _ _ HE), He. split; [discriminate|]. intros _. exact h1.
Qed.

(* the emitter side lists exactly the live connections of the reference object, in connection order *)
Lemma filter_nd_map_fst (tl : list tslot) : filter nd (map fst tl) = map fst (filter tnd tl).
Proof. induction tl as [|y r IH]; [reflexivity|]. cbn [map filter]. unfold tnd at 1. destruct (nd (fst y)); cbn [map]; rewrite IH; reflexivity. Qed.

Lemma R_emitter_side st p e sg : R st p -> sp_E p e = true ->
  map (fun x => (s_recv x, s_slot x)) (filter nd (slotsOf (sdo st e sg))) = map (fun c => (c_l c, c_s c)) (conns p e sg).
Proof.
  intros [T [HE _]] He. pose proof (r_sig _ _ _ _ HE e sg He eq_refl) as HS. destruct HS as [h1 h2 h3 h4 h5 h6 h7 h8 h9 h10 h11].
  rewrite <- h1, filter_nd_map_fst, map_map.
  change (fun x : tslot => (s_recv (fst x), s_slot (fst x))) with (fun x : tslot => fst (tkey x)).
  rewrite <- (map_map tkey fst), h4, map_map. reflexivity.
Qed.

Lemma R_listener_side st p l e sg s : R st p -> sp_L p l = true ->
  count (sigeq sg s) (lst st l e) = count (ckey e sg l s) (sp_conns p).
Proof. intros [T [_ HL]] Hl. apply HL; [exact Hl|reflexivity]. Qed.

(* one top-level action *)
Lemma step_refines st p fuel a : R st p ->
  match step sc maxd fuel st a, spec_step oldest sc maxd fuel p a with
  | Done (st', lg), Done (p', lg') => lg = lg' /\ R st' p'
  | OutOfFuel lg, OutOfFuel lg' => lg = lg'
  | _, _ => False
  end.
Proof. intros HR. apply (proj1 (sim sc maxd fuel) 0 st p [] [a] HR). Qed.

Lemma spec_step_quiet pick p fuel a p' lg : Quiet p -> spec_step pick sc maxd fuel p a = Done (p', lg) -> Quiet p'.
Proof. intros HQ H e sg. rewrite (proj1 (spec_frame sc maxd pick fuel) _ _ _ _ _ _ H e sg). apply HQ. Qed.

(* a nested run (any script, any depth) started in a related pair ends in a related pair: the relation,
   hence Book, holds at every point where a slot returns *)
Lemma nested_refines fuel d st p lg acts : R st p ->
  match exec sc maxd fuel d st lg acts, sexec oldest sc maxd fuel d p lg acts with
  | Done (st', lg1), Done (p', lg2) => lg1 = lg2 /\ R st' p'
  | OutOfFuel l1, OutOfFuel l2 => l1 = l2
  | _, _ => False
  end.
Proof. intros HR. apply (proj1 (sim sc maxd fuel) d st p lg acts HR). Qed.

End Main.

Section History.
Variable hsc : hscripts.
Variable maxd : nat.

Lemma history_refines fuel : forall ops h st p, R st p -> Quiet p ->
  match hrun (fun h => step (hsc h) maxd fuel) h st ops, hrun (fun h => spec_step oldest (hsc h) maxd fuel) h p ops with
  | HDone st' lgs, HDone p' lgs' => lgs = lgs' /\ R st' p' /\ Quiet p'
  | HFuel, HFuel => True
  | _, _ => False
  end.
Proof.
  induction ops as [|a r IH]; intros h st p HR HQ; cbn [hrun]; [auto|].
  pose proof (step_refines (hsc h) maxd st p fuel a HR) as Hs.
  destruct (step (hsc h) maxd fuel st a) as [[st1 lg1]|lg1|lg1]; destruct (spec_step oldest (hsc h) maxd fuel p a) as [[p1 lg1']|lg1'|lg1'] eqn:Hsp; try contradiction; [|exact I].
  destruct Hs as [<- HR1]. specialize (IH (lg1 :: h) st1 p1 HR1 (spec_step_quiet _ _ _ _ _ _ _ _ HQ Hsp)).
  destruct (hrun (fun h => step (hsc h) maxd fuel) (lg1 :: h) st1 r) as [st2 lgs| |]; destruct (hrun (fun h => spec_step oldest (hsc h) maxd fuel) (lg1 :: h) p1 r) as [p2 lgs'| |]; try contradiction; [|exact I].
  destruct IH as (-> & HR2 & HQ2). auto.
Qed.

Lemma Quiet_init ne nl nsg : Quiet (sp_init ne nl nsg).
Proof. intros e sg. reflexivity. Qed.

(* (2) the invocation logs of all histories equal the reference object's; (safety) never Fail *)
Lemma histories_match fuel ne nl nsg ops :
  match hrun (fun h => step (hsc h) maxd fuel) [] (init ne nl nsg) ops, hrun (fun h => spec_step oldest (hsc h) maxd fuel) [] (sp_init ne nl nsg) ops with
  | HDone st' lgs, HDone p' lgs' => lgs = lgs' /\ R st' p' /\ Quiet p'
  | HFuel, HFuel => True
  | _, _ => False
  end.
Proof. apply history_refines; [apply R_init|apply Quiet_init]. Qed.

Lemma histories_safe fuel ne nl nsg ops : hrun (fun h => step (hsc h) maxd fuel) [] (init ne nl nsg) ops <> HFail.
Proof.
  pose proof (histories_match fuel ne nl nsg ops) as H. intros Hf. rewrite Hf in H.
  destruct (hrun (fun h => spec_step oldest (hsc h) maxd fuel) [] (sp_init ne nl nsg) ops); exact H.
Qed.

(* (1)+(3) bookkeeping after every history *)
Lemma histories_bookkeeping fuel ne nl nsg ops st lgs :
  hrun (fun h => step (hsc h) maxd fuel) [] (init ne nl nsg) ops = HDone st lgs -> Book st /\ NoResidue st.
Proof.
  intros Hm. pose proof (histories_match fuel ne nl nsg ops) as H. rewrite Hm in H.
  destruct (hrun (fun h => spec_step oldest (hsc h) maxd fuel) [] (sp_init ne nl nsg) ops) as [p lgs'| |]; try contradiction.
  destruct H as (_ & HR & HQ). split; [eapply R_Book; exact HR|eapply R_NoResidue; eassumption].
Qed.

End History.

(* ---- what the reference object promises about the slot whose turn it is ---- *)
Lemma sp_turn_sound p e sg c : sp_turn p e sg = Some c ->
  In c (sp_conns p) /\ c_e c = e /\ c_sg c = sg /\ c_seq c < em_w (sp_em p e sg) /\
  exists k ks, em_cur (sp_em p e sg) = k :: ks /\ k <= c_seq c.
Proof.
  unfold sp_turn. destruct (em_cur (sp_em p e sg)) as [|k ks]; [discriminate|]. intros H.
  apply find_some in H as [Hin Hq]. apply andb_true_iff in Hq as [Hon Hq]. apply andb_true_iff in Hq as [Hk Hw].
  unfold on_es in Hon. apply andb_true_iff in Hon as [H1 H2]. apply Nat.eqb_eq in H1, H2. apply Nat.leb_le in Hk. apply Nat.ltb_lt in Hw.
  split; [exact Hin|]. split; [exact H1|]. split; [exact H2|]. split; [exact Hw|]. exists k, ks. auto.
Qed.

(* completeness of the turn: the slot whose turn it is is the OLDEST live connection at or after the
   cursor made before the outermost emission began *)
Lemma sp_turn_first p e sg c : sp_turn p e sg = Some c ->
  exists l1 l2, sp_conns p = l1 ++ c :: l2 /\
    forall c', In c' l1 -> on_es e sg c' = true -> c_seq c' < em_w (sp_em p e sg) ->
               exists k ks, em_cur (sp_em p e sg) = k :: ks /\ c_seq c' < k.
Proof.
  unfold sp_turn. destruct (em_cur (sp_em p e sg)) as [|k ks]; [discriminate|].
  generalize (sp_conns p). intros l. induction l as [|a t IH]; [discriminate|]. cbn [find].
  destruct (on_es e sg a && ((k <=? c_seq a) && (c_seq a <? em_w (sp_em p e sg)))) eqn:Hq.
  - intros H. injection H as <-. exists [], t. split; [reflexivity|]. intros c' [].
  - intros H. destruct (IH H) as (l1 & l2 & -> & Hl1). exists (a :: l1), l2. split; [reflexivity|].
    intros c' [<-|Hc'] Hon Hw; [|apply Hl1; assumption]. exists k, ks. split; [reflexivity|].
    rewrite Hon in Hq. cbn [andb] in Hq. apply Nat.ltb_lt in Hw. rewrite Hw, andb_true_r in Hq. apply Nat.leb_gt in Hq. exact Hq.
Qed.

Lemma sp_turn_none p e sg k ks : em_cur (sp_em p e sg) = k :: ks -> sp_turn p e sg = None ->
  forall c, In c (sp_conns p) -> on_es e sg c = true -> k <= c_seq c -> em_w (sp_em p e sg) <= c_seq c.
Proof.
  unfold sp_turn. intros -> H c Hc Hon Hk. pose proof (find_none _ _ H c Hc) as Hq. cbn in Hq. rewrite Hon in Hq. cbn [andb] in Hq.
  apply Nat.leb_le in Hk. rewrite Hk in Hq. cbn [andb] in Hq. apply Nat.ltb_ge in Hq. exact Hq.
Qed.

(* the slot the MODEL invokes next is a live connection of the reference object, between a live emitter
   and a live listener, made before the outermost emission of that signal began *)
Lemma invoked_slot_is_live st p e sg st1 x : R st p -> sp_E p e = true -> em_cur (sp_em p e sg) <> [] ->
  emit_next st e sg = Some (st1, Some x) ->
  exists c, In c (sp_conns p) /\ c_e c = e /\ c_sg c = sg /\ c_l c = s_recv x /\ c_s c = s_slot x /\
            c_seq c < em_w (sp_em p e sg) /\ sp_L p (s_recv x) = true /\ l_alive (st_L st (s_recv x)) = true.
Proof.
  intros [T HR] He Hcur Hn.
  destruct (emit_next_RT _ _ _ e sg HR He Hcur) as [(st1' & T1 & Hn' & _)|(st1' & x' & c & T1 & Hn' & Hturn & Hl & Hs & _)]; rewrite Hn in Hn'; [discriminate|].
  injection Hn' as <- <-. destruct (sp_turn_sound _ _ _ _ Hturn) as (Hin & H1 & H2 & Hw & _).
  destruct (wf_live _ (r_wf _ _ _ _ (proj1 HR)) c Hin) as (_ & HL & _).
  exists c. rewrite <- Hl. repeat split; try assumption. rewrite (r_L _ _ _ _ (proj1 HR)). exact HL.
Qed.

(* ---- the reference object's disconnect under any choice among identical connections ---- *)
Lemma disconnect_at_removes_one k p e sg l s :
  count (ckey e sg l s) (sp_conns (sp_disconnect_at k p e sg l s)) = pred (count (ckey e sg l s) (sp_conns p)) /\
  filter (fun c => negb (ckey e sg l s c)) (sp_conns (sp_disconnect_at k p e sg l s)) = filter (fun c => negb (ckey e sg l s c)) (sp_conns p) /\
  (forall c, In c (sp_conns (sp_disconnect_at k p e sg l s)) -> In c (sp_conns p)) /\
  sp_next (sp_disconnect_at k p e sg l s) = sp_next p /\ sp_em (sp_disconnect_at k p e sg l s) = sp_em p.
Proof.
  unfold sp_disconnect_at. cbn [sp_conns sp_next sp_em]. fold (count (ckey e sg l s) (sp_conns p)).
  set (q := ckey e sg l s). set (n := count q (sp_conns p)).
  split; [|split; [|split; [|split; reflexivity]]].
  - destruct n as [|n'] eqn:Hn.
    + (* no such connection: nothing is removed *)
      cbn [pred Nat.min]. rewrite Nat.min_0_r.
      assert (H0 : forall x, In x (sp_conns p) -> q x = false) by (apply count_zero_iff; exact Hn).
      assert (Hle : count q (rm_nth q 0 (sp_conns p)) <= 0) by (rewrite <- Hn; apply count_rm_nth_le). lia.
    + unfold n in Hn. rewrite <- Hn. apply count_rm_nth_same. rewrite Hn. cbn [pred]. lia.
  - apply filter_rm_nth_other. intros x Hx. rewrite Hx. reflexivity.
  - intros c Hc. eapply rm_nth_incl. exact Hc.
Qed.
