(* C12 - the tracing interpreter of the model (used by the correspondence driver) is the proved one
   plus a trace. *)
From Coq Require Import List Arith Bool Lia.
From Callback Require Import CallbackSpec CallbackModel.
Import ListNotations.

Definition strip (o : outcome (state * list inv * list snap)) : outcome (state * list inv) :=
  match o with
  | Done (st, lg, _) => Done (st, lg)
  | OutOfFuel lg => OutOfFuel lg
  | Fail lg => Fail lg
  end.

Section Trace.
Variable sc : scripts.
Variable maxd : nat.

Lemma trace_erasure : forall fuel,
  (forall d st lg tr acts, strip (exec_tr sc maxd fuel d st lg tr acts) = exec sc maxd fuel d st lg acts) /\
  (forall d st lg tr e sg, strip (loop_tr sc maxd fuel d st lg tr e sg) = loop sc maxd fuel d st lg e sg).
Proof.
  induction fuel as [|f [IHe IHl]]; [split; reflexivity|]. split.
  - intros d st lg tr acts. destruct acts as [|a rest]; [reflexivity|].
    destruct a as [e sg l s|e sg l s|e sg|l|e].
    + change (strip (if okE st e && okL st l && (sg <? st_nsg st) then
                       match connect st e sg l s with Some st' => exec_tr sc maxd f d st' lg tr rest | None => Fail lg end
                     else exec_tr sc maxd f d st lg tr rest) =
              (if okE st e && okL st l && (sg <? st_nsg st) then
                 match connect st e sg l s with Some st' => exec sc maxd f d st' lg rest | None => Fail lg end
               else exec sc maxd f d st lg rest)).
      destruct (okE st e && okL st l && (sg <? st_nsg st)); [|apply IHe]. destruct (connect st e sg l s); [apply IHe|reflexivity].
    + change (strip (if okE st e && okL st l && (sg <? st_nsg st) then
                       match disconnect st e sg l s with Some st' => exec_tr sc maxd f d st' lg tr rest | None => Fail lg end
                     else exec_tr sc maxd f d st lg tr rest) =
              (if okE st e && okL st l && (sg <? st_nsg st) then
                 match disconnect st e sg l s with Some st' => exec sc maxd f d st' lg rest | None => Fail lg end
               else exec sc maxd f d st lg rest)).
      destruct (okE st e && okL st l && (sg <? st_nsg st)); [|apply IHe]. destruct (disconnect st e sg l s); [apply IHe|reflexivity].
    + change (strip (if okE st e && (sg <? st_nsg st) && (d <? maxd) then
                       match emit_begin st e sg with
                       | None => Fail lg
                       | Some st1 =>
                         match loop_tr sc maxd f d st1 lg tr e sg with
                         | Done (st2, lg2, tr2) =>
                             match emit_end st2 e sg with Some st3 => exec_tr sc maxd f d st3 lg2 tr2 rest | None => Fail lg2 end
                         | o => o
                         end
                       end
                     else exec_tr sc maxd f d st lg tr rest) =
              (if okE st e && (sg <? st_nsg st) && (d <? maxd) then
                 match emit_begin st e sg with
                 | None => Fail lg
                 | Some st1 =>
                   match loop sc maxd f d st1 lg e sg with
                   | Done (st2, lg2) => match emit_end st2 e sg with Some st3 => exec sc maxd f d st3 lg2 rest | None => Fail lg2 end
                   | o => o
                   end
                 end
               else exec sc maxd f d st lg rest)).
      destruct (okE st e && (sg <? st_nsg st) && (d <? maxd)); [|apply IHe].
      destruct (emit_begin st e sg) as [st1|]; [|reflexivity].
      rewrite <- (IHl d st1 lg tr e sg). destruct (loop_tr sc maxd f d st1 lg tr e sg) as [[[st2 lg2] tr2]| |]; cbn [strip]; try reflexivity.
      destruct (emit_end st2 e sg); [apply IHe|reflexivity].
    + change (strip (if okL st l then
                       match destroy_listener st l with Some st' => exec_tr sc maxd f d st' lg tr rest | None => Fail lg end
                     else exec_tr sc maxd f d st lg tr rest) =
              (if okL st l then
                 match destroy_listener st l with Some st' => exec sc maxd f d st' lg rest | None => Fail lg end
               else exec sc maxd f d st lg rest)).
      destruct (okL st l); [|apply IHe]. destruct (destroy_listener st l); [apply IHe|reflexivity].
    + change (strip (if okE st e then
                       match destroy_emitter st e with Some st' => exec_tr sc maxd f d st' lg tr rest | None => Fail lg end
                     else exec_tr sc maxd f d st lg tr rest) =
              (if okE st e then
                 match destroy_emitter st e with Some st' => exec sc maxd f d st' lg rest | None => Fail lg end
               else exec sc maxd f d st lg rest)).
      destruct (okE st e); [|apply IHe]. destruct (destroy_emitter st e); [apply IHe|reflexivity].
  - intros d st lg tr e sg.
    change (strip (match emit_next st e sg with
                   | None => Fail lg
                   | Some (st1, None) => Done (st1, lg, tr)
                   | Some (st1, Some x) =>
                     match exec_tr sc maxd f (S d) st1 (mkInv e sg (s_recv x) (s_slot x) :: lg) (snap_of st1 true e sg :: tr) (sc (mkInv e sg (s_recv x) (s_slot x) :: lg) (s_recv x) (s_slot x)) with
                     | Done (st2, lg2, tr2) =>
                         let tr3 := snap_of st2 false e sg :: tr2 in
                         if invalidated st2 e sg then Done (st2, lg2, tr3) else loop_tr sc maxd f d st2 lg2 tr3 e sg
                     | o => o
                     end
                   end) =
            match emit_next st e sg with
            | None => Fail lg
            | Some (st1, None) => Done (st1, lg)
            | Some (st1, Some x) =>
              match exec sc maxd f (S d) st1 (mkInv e sg (s_recv x) (s_slot x) :: lg) (sc (mkInv e sg (s_recv x) (s_slot x) :: lg) (s_recv x) (s_slot x)) with
              | Done (st2, lg2) => if invalidated st2 e sg then Done (st2, lg2) else loop sc maxd f d st2 lg2 e sg
              | o => o
              end
            end).
    destruct (emit_next st e sg) as [[st1 [x|]]|]; try reflexivity.
    rewrite <- (IHe (S d) st1 _ (snap_of st1 true e sg :: tr) _).
    destruct (exec_tr sc maxd f (S d) st1 _ _ _) as [[[st2 lg2] tr2]| |]; cbn [strip]; try reflexivity.
    cbn zeta. destruct (invalidated st2 e sg); [reflexivity|apply IHl].
Qed.

Lemma step_tr_erasure fuel st a : strip (step_tr sc maxd fuel st a) = step sc maxd fuel st a.
Proof. apply (proj1 (trace_erasure fuel)). Qed.

End Trace.
