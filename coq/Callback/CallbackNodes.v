(* C12 - node-level safety of the slot lists (audit finding F4).

   The model represents List<Slot> as a Coq list and the iterator of an emission as an index (a_pos).
   That is only faithful if no node is ever unlinked from a signal's slot list while an emission of
   that signal is in progress (an unlinked node under a live iterator would be a dangling iterator in
   the C++, which the index representation cannot show).  Here this is proved of the model:

   * `prim_no_removal`: each of the seven library primitives (connect, disconnect, ~Listener,
     ~Emitter, SignalActivation ctor, the emit loop up to the next call, SignalActivation dtor), run in
     a state where signal (e, sg) of a live emitter has an activation, leaves every existing node of
     that list where it is (the node identities of the old list are a prefix of the new one: entries
     are only appended or re-marked) and leaves an activation on it - with exactly two exceptions:
     ~Emitter of e itself (the whole list goes, the chain is invalidated and never used again) and
     the SignalActivation dtor that pops the LAST activation (the cleanup pass, by then no iterator
     is left).
   * `exec_keeps_nodes` / `loop_keeps_nodes`: whatever a slot does (any script, any nesting), when it
     returns the emitter is destroyed or the chain of activations has the length it had and all old
     nodes are still in place. *)
From Coq Require Import List Arith Bool Lia.
From Callback Require Import CallbackSpec CallbackModel CallbackLists CallbackInv CallbackOps CallbackDestroy CallbackSim.
Import ListNotations.

Definition node (x : slot) : nat * nat := (s_recv x, s_slot x).
Definition skel (o : option sigdata) : list (nat * nat) := map node (slotsOf o).
Definition prefix {A} (l l' : list A) : Prop := exists ext, l' = l ++ ext.
Definition aliveE (st : state) (e : nat) : bool := e_alive (st_E st e).
Definition nacts (st : state) (e sg : nat) : nat := length (actsOf (sdo st e sg)).

(* no emitter comes back to life *)
Definition mono (st st' : state) : Prop := forall e, aliveE st' e = true -> aliveE st e = true.

(* signal (e, sg): destroyed together with its emitter, or same number of activations and all old nodes in place *)
Definition kept (st st' : state) (e sg : nat) : Prop :=
  aliveE st' e = false \/
  (aliveE st' e = true /\ nacts st' e sg = nacts st e sg /\ prefix (skel (sdo st e sg)) (skel (sdo st' e sg))).

Definition G (st st' : state) : Prop :=
  mono st st' /\ forall e sg, aliveE st e = true -> nacts st e sg <> 0 -> kept st st' e sg.

Lemma prefix_refl {A} (l : list A) : prefix l l.
Proof. exists []. symmetry. apply app_nil_r. Qed.
Lemma prefix_trans {A} (a b c : list A) : prefix a b -> prefix b c -> prefix a c.
Proof. intros [x Hx] [y Hy]. exists (x ++ y). rewrite Hy, Hx. symmetry. apply app_assoc. Qed.

Lemma G_refl st : G st st.
Proof.
  split; [intros e H; exact H|]. intros e sg Ha _. right. split; [exact Ha|]. split; [reflexivity|apply prefix_refl].
Qed.

Lemma G_trans a b c : G a b -> G b c -> G a c.
Proof.
  intros [M1 K1] [M2 K2]. split; [intros e H; apply M1, M2, H|].
  intros e sg Ha Hn. destruct (K1 e sg Ha Hn) as [Hd|[Hb [Hl Hp]]].
  - left. destruct (aliveE c e) eqn:Hc; [|reflexivity]. apply M2 in Hc. congruence.
  - assert (Hn' : nacts b e sg <> 0) by (rewrite Hl; exact Hn).
    destruct (K2 e sg Hb Hn') as [Hd|[Hc [Hl' Hp']]]; [left; exact Hd|].
    right. split; [exact Hc|]. split; [congruence|]. eapply prefix_trans; eassumption.
Qed.

(* the stronger form met by connect / disconnect / ~Listener: no liveness flag changes at all *)
Definition G1 (st st' : state) : Prop :=
  (forall e, aliveE st' e = aliveE st e) /\
  forall e sg, nacts st e sg <> 0 -> nacts st' e sg = nacts st e sg /\ prefix (skel (sdo st e sg)) (skel (sdo st' e sg)).

Lemma G1_G st st' : G1 st st' -> G st st'.
Proof.
  intros [A K]. split; [intros e H; rewrite A in H; exact H|].
  intros e sg Ha Hn. right. split; [rewrite A; exact Ha|]. apply K. exact Hn.
Qed.

Lemma G1_refl st : G1 st st.
Proof. split; [reflexivity|]. intros e sg _. split; [reflexivity|apply prefix_refl]. Qed.

Lemma G1_trans a b c : G1 a b -> G1 b c -> G1 a c.
Proof.
  intros [A1 K1] [A2 K2]. split; [intros e; rewrite A2; apply A1|].
  intros e sg Hn. destruct (K1 e sg Hn) as [Hl Hp].
  assert (Hn' : nacts b e sg <> 0) by (rewrite Hl; exact Hn).
  destruct (K2 e sg Hn') as [Hl' Hp']. split; [congruence|eapply prefix_trans; eassumption].
Qed.

(* G1 only looks at the emitters *)
Lemma G1_sameE st st1 st2 : st_E st2 = st_E st1 -> G1 st st1 -> G1 st st2.
Proof.
  intros HE [A K]. unfold G1, aliveE, nacts, sdo in *. rewrite HE. split; assumption.
Qed.

(* ---- one signal of one emitter is rewritten ---- *)
Lemma sdo_setE_same st e E sg sd : sdo (setE st e (set_sig E sg sd)) e sg = Some sd.
Proof. unfold sdo, setE, set_sig. cbn. rewrite !upd1_same. cbn. rewrite upd1_same. reflexivity. Qed.

Lemma sdo_setE_other st e sg sd e' sg' :
  (e', sg') <> (e, sg) -> sdo (setE st e (set_sig (st_E st e) sg sd)) e' sg' = sdo st e' sg'.
Proof.
  intros H. unfold sdo, setE, set_sig. cbn. destruct (Nat.eq_dec e' e) as [->|Hne].
  - rewrite upd1_same. cbn. rewrite upd1_other; [reflexivity|]. intros ->. apply H. reflexivity.
  - rewrite upd1_other by exact Hne. reflexivity.
Qed.

Lemma alive_setE_sig st e sg sd e' : aliveE (setE st e (set_sig (st_E st e) sg sd)) e' = aliveE st e'.
Proof.
  unfold aliveE, setE, set_sig. cbn. destruct (Nat.eq_dec e' e) as [->|Hne].
  - rewrite upd1_same. reflexivity.
  - rewrite upd1_other by exact Hne. reflexivity.
Qed.

(* the rewritten signal keeps its activations and, if it has any, its nodes *)
Lemma G1_upd st e sg sd' :
  sd_acts sd' = actsOf (sdo st e sg) ->
  (actsOf (sdo st e sg) <> [] -> prefix (skel (sdo st e sg)) (map node (sd_slots sd'))) ->
  G1 st (setE st e (set_sig (st_E st e) sg sd')).
Proof.
  intros Ha Hp. split; [intros e'; apply alive_setE_sig|].
  intros e' sg' Hn. destruct (pair_dec e' sg' e sg) as [Heq|Hne].
  - injection Heq as -> ->. unfold nacts in *. rewrite sdo_setE_same. cbn [actsOf]. split; [rewrite Ha; reflexivity|].
    unfold skel at 2. cbn [slotsOf]. apply Hp. intros H0. apply Hn. rewrite H0. reflexivity.
  - unfold nacts. rewrite sdo_setE_other by exact Hne. split; [reflexivity|apply prefix_refl].
Qed.

(* ---- the search loops mark, they do not unlink, while an activation exists ---- *)
Lemma mark_first_nodes p sl : map node (mark_first p sl) = map node sl.
Proof.
  induction sl as [|x t IH]; [reflexivity|]. cbn [mark_first]. destruct (p x); cbn [map].
  - reflexivity.
  - rewrite IH. reflexivity.
Qed.

Lemma unlink_slot_acts sd l s : sd_acts (unlink_slot sd l s) = sd_acts sd.
Proof. unfold unlink_slot. destruct (existsb (hit l s) (sd_slots sd)); [|reflexivity]. destruct (sd_acts sd); reflexivity. Qed.

Lemma unlink_slot_nodes sd l s : sd_acts sd <> [] -> map node (sd_slots (unlink_slot sd l s)) = map node (sd_slots sd).
Proof.
  intros H. unfold unlink_slot. destruct (existsb (hit l s) (sd_slots sd)); [|reflexivity].
  destruct (sd_acts sd) as [|a r]; [congruence|]. cbn [sd_slots]. apply mark_first_nodes.
Qed.

Lemma G1_unlink st e sg sd l s : sdo st e sg = Some sd -> G1 st (setE st e (set_sig (st_E st e) sg (unlink_slot sd l s))).
Proof.
  intros Hs. apply G1_upd; rewrite Hs; cbn [actsOf].
  - apply unlink_slot_acts.
  - intros Ha. unfold skel. cbn [slotsOf]. rewrite unlink_slot_nodes by exact Ha. apply prefix_refl.
Qed.

(* ---- Callback::connect appends ---- *)
Lemma connect_G1 st e sg l s st' : connect st e sg l s = Some st' -> G1 st st'.
Proof.
  unfold connect. destruct (negb (e_alive (st_E st e))); [discriminate|].
  match goal with |- context [setE st e (set_sig (st_E st e) sg ?x)] => set (sd' := x) end.
  destruct (negb (l_alive (st_L (setE st e (set_sig (st_E st e) sg sd')) l))); [discriminate|].
  intros H. injection H as <-. apply (G1_sameE st (setE st e (set_sig (st_E st e) sg sd'))); [reflexivity|].
  apply G1_upd.
  - subst sd'. unfold sdo. destruct (e_sigs (st_E st e) sg) as [sd|]; cbn [actsOf].
    + destruct (sd_acts sd); reflexivity.
    + reflexivity.
  - intros _. subst sd'. unfold skel, sdo. destruct (e_sigs (st_E st e) sg) as [sd|]; cbn [slotsOf].
    + destruct (sd_acts sd); cbn [sd_slots]; rewrite map_app; eexists; reflexivity.
    + cbn. eexists. reflexivity.
Qed.

(* ---- Callback::disconnect ---- *)
Lemma disconnect_G1 st e sg l s st' : disconnect st e sg l s = Some st' -> G1 st st'.
Proof.
  unfold disconnect. destruct (negb (e_alive (st_E st e))); [discriminate|].
  destruct (e_sigs (st_E st e) sg) as [sd|] eqn:Hs; [|intros H; injection H as <-; apply G1_refl].
  destruct (negb (l_alive (st_L (setE st e (set_sig (st_E st e) sg (unlink_slot sd l s))) l))); [discriminate|].
  destruct (l_ems (st_L (setE st e (set_sig (st_E st e) sg (unlink_slot sd l s))) l) e); intros H; injection H as <-.
  - apply (G1_sameE st (setE st e (set_sig (st_E st e) sg (unlink_slot sd l s)))); [reflexivity|]. apply G1_unlink. exact Hs.
  - apply G1_unlink. exact Hs.
Qed.

(* ---- folds ---- *)
Lemma ofold_G1 {A} (f : state -> A -> option state) :
  (forall st x st', f st x = Some st' -> G1 st st') -> forall xs st st', ofold f st xs = Some st' -> G1 st st'.
Proof.
  intros Hf xs. induction xs as [|x t IH]; intros st st' H; cbn [ofold] in H.
  - injection H as <-. apply G1_refl.
  - destruct (f st x) as [st1|] eqn:H1; [|discriminate]. eapply G1_trans; [eapply Hf; exact H1|apply IH; exact H].
Qed.

Lemma ofold_sameE {A} (f : state -> A -> option state) :
  (forall st x st', f st x = Some st' -> st_E st' = st_E st) -> forall xs st st', ofold f st xs = Some st' -> st_E st' = st_E st.
Proof.
  intros Hf xs. induction xs as [|x t IH]; intros st st' H; cbn [ofold] in H.
  - injection H as <-. reflexivity.
  - destruct (f st x) as [st1|] eqn:H1; [|discriminate]. rewrite (IH _ _ H). eapply Hf. exact H1.
Qed.

(* ---- Listener::~Listener ---- *)
Lemma unlink_at_G1 st e l x st' : unlink_at st e l x = Some st' -> G1 st st'.
Proof.
  unfold unlink_at. destruct (negb (e_alive (st_E st e))); [discriminate|].
  destruct (e_sigs (st_E st e) (fst x)) as [sd|] eqn:Hs; intros H; injection H as <-; [|apply G1_refl].
  apply G1_unlink. exact Hs.
Qed.

Lemma destroy_listener_G1 st l st' : destroy_listener st l = Some st' -> G1 st st'.
Proof.
  unfold destroy_listener. destruct (negb (l_alive (st_L st l))); [discriminate|].
  match goal with |- context [ofold ?f st ?xs] => destruct (ofold f st xs) as [st1|] eqn:Hf; [|discriminate] end.
  intros H. injection H as <-. apply (G1_sameE st st1); [reflexivity|].
  eapply ofold_G1; [|exact Hf]. intros s0 e s1. cbn beta.
  destruct (l_ems (st_L st l) e) as [xs|]; [|intros H; injection H as <-; apply G1_refl].
  apply ofold_G1. intros s2 x s3. apply unlink_at_G1.
Qed.

(* ---- Emitter::~Emitter: the listeners' side is edited, then the emitter is gone ---- *)
Lemma forget_at_sameE e sg st x st' : forget_at e sg st x = Some st' -> st_E st' = st_E st.
Proof.
  unfold forget_at. destruct (is_disc x); [intros H; injection H as <-; reflexivity|].
  destruct (negb (l_alive (st_L st (s_recv x)))); [discriminate|].
  destruct (l_ems (st_L st (s_recv x)) e); intros H; injection H as <-; reflexivity.
Qed.

Lemma destroy_emitter_spec st e0 st' : destroy_emitter st e0 = Some st' ->
  aliveE st' e0 = false /\ forall e, e <> e0 -> st_E st' e = st_E st e.
Proof.
  unfold destroy_emitter. destruct (negb (e_alive (st_E st e0))); [discriminate|].
  match goal with |- context [ofold ?f st ?xs] => destruct (ofold f st xs) as [st1|] eqn:Hf; [|discriminate] end.
  intros H. injection H as <-.
  assert (HE : st_E st1 = st_E st).
  { eapply ofold_sameE; [|exact Hf]. intros s0 sg s1. cbn beta.
    destruct (e_sigs (st_E st e0) sg) as [sd|]; [|intros H; injection H as <-; reflexivity].
    apply ofold_sameE. intros s2 x s3. apply forget_at_sameE. }
  split.
  - unfold aliveE, setE. cbn [st_E]. rewrite upd1_same. reflexivity.
  - intros e Hne. unfold setE. cbn [st_E]. rewrite upd1_other by exact Hne. rewrite HE. reflexivity.
Qed.

Lemma destroy_emitter_G st e0 st' : destroy_emitter st e0 = Some st' -> G st st'.
Proof.
  intros H. destruct (destroy_emitter_spec _ _ _ H) as [Hd Ho]. split.
  - intros e Ha. destruct (Nat.eq_dec e e0) as [->|Hne]; [congruence|]. unfold aliveE in *. rewrite (Ho e Hne) in Ha. exact Ha.
  - intros e sg Ha Hn. destruct (Nat.eq_dec e e0) as [->|Hne]; [left; exact Hd|].
    right. unfold aliveE, nacts, sdo in *. rewrite (Ho e Hne). split; [exact Ha|]. split; [reflexivity|apply prefix_refl].
Qed.

(* ---- the three pieces of an emission ---- *)
(* same liveness flags, every other signal untouched *)
Definition frame (st st' : state) (e sg : nat) : Prop :=
  (forall e', aliveE st' e' = aliveE st e') /\
  (forall e' sg', (e', sg') <> (e, sg) -> sdo st' e' sg' = sdo st e' sg').

Lemma frame_refl st e sg : frame st st e sg.
Proof. split; reflexivity. Qed.

Lemma frame_setE st e sg sd : frame st (setE st e (set_sig (st_E st e) sg sd)) e sg.
Proof. split; [intros e'; apply alive_setE_sig|intros e' sg' H; apply sdo_setE_other; exact H]. Qed.

Lemma emit_begin_spec st e sg st1 : emit_begin st e sg = Some st1 ->
  frame st st1 e sg /\ slotsOf (sdo st1 e sg) = slotsOf (sdo st e sg) /\
  (nacts st e sg <> 0 -> nacts st1 e sg = S (nacts st e sg)).
Proof.
  unfold emit_begin. destruct (negb (e_alive (st_E st e))); [discriminate|].
  destruct (e_sigs (st_E st e) sg) as [sd|] eqn:Hs; intros H; injection H as <-.
  - split; [apply frame_setE|]. unfold nacts. rewrite sdo_setE_same. unfold sdo. rewrite Hs. cbn. split; reflexivity.
  - split; [apply frame_refl|]. split; [reflexivity|]. unfold nacts, sdo. rewrite Hs. cbn. congruence.
Qed.

Lemma emit_next_spec st e sg st1 o : emit_next st e sg = Some (st1, o) ->
  frame st st1 e sg /\ slotsOf (sdo st1 e sg) = slotsOf (sdo st e sg) /\ nacts st1 e sg = nacts st e sg.
Proof.
  unfold emit_next. destruct (negb (e_alive (st_E st e))); [discriminate|].
  destruct (e_sigs (st_E st e) sg) as [sd|] eqn:Hs.
  2:{ intros H; injection H as <- <-. split; [apply frame_refl|split; reflexivity]. }
  destruct (sd_acts sd) as [|a rest] eqn:Ha.
  { intros H; injection H as <- <-. split; [apply frame_refl|split; reflexivity]. }
  destruct (first_conn (skipn (a_pos a) (sd_slots sd))) as [[k x]|]; intros H; injection H as <- <-;
    (split; [apply frame_setE|]); unfold nacts; rewrite sdo_setE_same; unfold sdo; rewrite Hs; cbn; rewrite Ha; split; reflexivity.
Qed.

Lemma invalidate_length a : length (invalidate a) = length a.
Proof. destruct a; reflexivity. Qed.

Lemma setE_alive_frame st e sg sd :
  frame st (setE st e (mkE (e_alive (st_E st e)) (upd1 (e_sigs (st_E st e)) sg (Some sd)))) e sg.
Proof. exact (frame_setE st e sg sd). Qed.

(* leaving an emission that is not the last one on its signal pops one activation and touches no node *)
Lemma emit_end_spec st e sg st3 : emit_end st e sg = Some st3 ->
  frame st st3 e sg /\
  (2 <= nacts st e sg -> slotsOf (sdo st3 e sg) = slotsOf (sdo st e sg) /\ S (nacts st3 e sg) = nacts st e sg).
Proof.
  unfold emit_end. destruct (e_sigs (st_E st e) sg) as [sd|] eqn:Hs.
  2:{ intros H; injection H as <-. split; [apply frame_refl|]. unfold nacts, sdo. rewrite Hs. cbn. lia. }
  destruct (sd_acts sd) as [|a rest] eqn:Ha.
  { intros H; injection H as <-. split; [apply frame_refl|]. unfold nacts, sdo. rewrite Hs. cbn. rewrite Ha. cbn. lia. }
  assert (Hn : nacts st e sg = S (length rest)) by (unfold nacts, sdo; rewrite Hs; cbn; rewrite Ha; reflexivity).
  destruct (a_inval a).
  { intros H; injection H as <-. split; [apply setE_alive_frame|]. intros _.
    change (setE st e (mkE (e_alive (st_E st e)) (upd1 (e_sigs (st_E st e)) sg (Some (mkSD (sd_slots sd) (sd_dirty sd) (invalidate rest))))))
      with (setE st e (set_sig (st_E st e) sg (mkSD (sd_slots sd) (sd_dirty sd) (invalidate rest)))).
    unfold nacts at 1. rewrite sdo_setE_same. cbn. rewrite invalidate_length, Hn. unfold sdo. rewrite Hs. split; reflexivity. }
  destruct (negb (e_alive (st_E st e))); [discriminate|].
  destruct rest as [|b rest'].
  { destruct (sd_dirty sd); intros H; injection H as <-; (split; [apply frame_setE|]); rewrite Hn; cbn; lia. }
  intros H; injection H as <-. split; [apply frame_setE|]. intros _.
  unfold nacts at 1. rewrite sdo_setE_same. cbn [slotsOf actsOf sd_slots sd_acts]. rewrite Hn. unfold sdo. rewrite Hs. split; reflexivity.
Qed.

Lemma frame_mono st st' e sg : frame st st' e sg -> mono st st'.
Proof. intros [Ha _] e' H. rewrite Ha in H. exact H. Qed.

Lemma emit_next_G st e sg st1 o : emit_next st e sg = Some (st1, o) -> G st st1.
Proof.
  intros H. destruct (emit_next_spec _ _ _ _ _ H) as [[Fa Fo] [Hs Hn]]. split; [eapply frame_mono; split; eassumption|].
  intros e' sg' Hal _. right. split; [rewrite Fa; exact Hal|].
  destruct (pair_dec e' sg' e sg) as [Heq|Hne].
  - injection Heq as -> ->. split; [exact Hn|]. unfold skel. rewrite Hs. apply prefix_refl.
  - unfold nacts. rewrite (Fo _ _ Hne). split; [reflexivity|apply prefix_refl].
Qed.

(* begin ; (anything that keeps nodes) ; end   keeps nodes *)
Lemma emission_G st e sg st1 st2 st3 :
  emit_begin st e sg = Some st1 -> G st1 st2 -> emit_end st2 e sg = Some st3 -> G st st3.
Proof.
  intros Hb [M12 K12] He.
  destruct (emit_begin_spec _ _ _ _ Hb) as [[Ba Bo] [Bs Bn]].
  destruct (emit_end_spec _ _ _ _ He) as [[Ea Eo] Es].
  split.
  - intros e' H. rewrite Ea in H. apply M12 in H. rewrite Ba in H. exact H.
  - intros e' sg' Hal Hn.
    assert (Hal1 : aliveE st1 e' = true) by (rewrite Ba; exact Hal).
    destruct (pair_dec e' sg' e sg) as [Heq|Hne].
    + injection Heq as -> ->. specialize (Bn Hn).
      assert (Hn1 : nacts st1 e sg <> 0) by (rewrite Bn; discriminate).
      destruct (K12 e sg Hal1 Hn1) as [Hd|[Hal2 [Hl Hp]]].
      * left. rewrite Ea. exact Hd.
      * right. split; [rewrite Ea; exact Hal2|].
        assert (H2 : 2 <= nacts st2 e sg) by lia.
        destruct (Es H2) as [Hs3 Hn3]. split; [lia|].
        unfold skel in *. rewrite Hs3. rewrite Bs in Hp. exact Hp.
    + assert (Hn1 : nacts st1 e' sg' <> 0) by (unfold nacts in *; rewrite (Bo _ _ Hne); exact Hn).
      destruct (K12 e' sg' Hal1 Hn1) as [Hd|[Hal2 [Hl Hp]]].
      * left. rewrite Ea. exact Hd.
      * right. split; [rewrite Ea; exact Hal2|]. unfold nacts, skel in *. rewrite (Eo _ _ Hne). rewrite (Bo _ _ Hne) in Hl, Hp.
        split; assumption.
Qed.

(* ---- the interpreter: whatever the slots do ---- *)
Section Run.
Variable sc : scripts.
Variable maxd : nat.

Lemma run_G : forall fuel,
  (forall d st lg acts st' lg', exec sc maxd fuel d st lg acts = Done (st', lg') -> G st st') /\
  (forall d st lg e sg st' lg', loop sc maxd fuel d st lg e sg = Done (st', lg') -> G st st').
Proof.
  induction fuel as [|f [IHe IHl]]; [split; intros; discriminate|]. split.
  - intros d st lg acts st' lg' H. destruct acts as [|a rest].
    { rewrite exec_nil in H. injection H as <- <-. apply G_refl. }
    destruct a as [e sg l s|e sg l s|e sg|l|e].
    + rewrite exec_connect in H. destruct (okE st e && okL st l && (sg <? st_nsg st)); [|eapply IHe; exact H].
      destruct (connect st e sg l s) as [st1|] eqn:Hc; [|discriminate].
      eapply G_trans; [apply G1_G; eapply connect_G1; exact Hc|eapply IHe; exact H].
    + rewrite exec_disconnect in H. destruct (okE st e && okL st l && (sg <? st_nsg st)); [|eapply IHe; exact H].
      destruct (disconnect st e sg l s) as [st1|] eqn:Hc; [|discriminate].
      eapply G_trans; [apply G1_G; eapply disconnect_G1; exact Hc|eapply IHe; exact H].
    + rewrite exec_emit in H. destruct (okE st e && (sg <? st_nsg st) && (d <? maxd)); [|eapply IHe; exact H].
      destruct (emit_begin st e sg) as [st1|] eqn:Hb; [|discriminate].
      destruct (loop sc maxd f d st1 lg e sg) as [[st2 lg2]| |] eqn:Hl; try discriminate.
      destruct (emit_end st2 e sg) as [st3|] eqn:Hen; [|discriminate].
      eapply G_trans; [|eapply IHe; exact H].
      eapply emission_G; [exact Hb|eapply IHl; exact Hl|exact Hen].
    + rewrite exec_destroyL in H. destruct (okL st l); [|eapply IHe; exact H].
      destruct (destroy_listener st l) as [st1|] eqn:Hc; [|discriminate].
      eapply G_trans; [apply G1_G; eapply destroy_listener_G1; exact Hc|eapply IHe; exact H].
    + rewrite exec_destroyE in H. destruct (okE st e); [|eapply IHe; exact H].
      destruct (destroy_emitter st e) as [st1|] eqn:Hc; [|discriminate].
      eapply G_trans; [eapply destroy_emitter_G; exact Hc|eapply IHe; exact H].
  - intros d st lg e sg st' lg' H. rewrite loop_S in H.
    destruct (emit_next st e sg) as [[st1 [x|]]|] eqn:Hn; try discriminate.
    + destruct (exec sc maxd f (S d) st1 (mkInv e sg (s_recv x) (s_slot x) :: lg) (sc (mkInv e sg (s_recv x) (s_slot x) :: lg) (s_recv x) (s_slot x))) as [[st2 lg2]| |] eqn:Hx; try discriminate.
      assert (G12 : G st st2) by (eapply G_trans; [eapply emit_next_G; exact Hn|eapply IHe; exact Hx]).
      destruct (invalidated st2 e sg).
      * injection H as <- <-. exact G12.
      * eapply G_trans; [exact G12|eapply IHl; exact H].
    + injection H as <- <-. eapply emit_next_G. exact Hn.
Qed.

(* a slot's script (or any list of actions) run while (e, sg) is emitting *)
Theorem exec_keeps_nodes : forall fuel d st lg acts st' lg' e sg,
  exec sc maxd fuel d st lg acts = Done (st', lg') ->
  e_alive (st_E st e) = true -> actsOf (sdo st e sg) <> [] ->
  e_alive (st_E st' e) = false \/
  (e_alive (st_E st' e) = true /\ length (actsOf (sdo st' e sg)) = length (actsOf (sdo st e sg)) /\
   exists appended, map node (slotsOf (sdo st' e sg)) = map node (slotsOf (sdo st e sg)) ++ appended).
Proof.
  intros fuel d st lg acts st' lg' e sg H Ha Hn.
  destruct (proj1 (run_G fuel) _ _ _ _ _ _ H) as [_ K].
  apply (K e sg Ha). unfold nacts. destruct (actsOf (sdo st e sg)); [congruence|discriminate].
Qed.

Theorem loop_keeps_nodes : forall fuel d st lg e0 sg0 st' lg' e sg,
  loop sc maxd fuel d st lg e0 sg0 = Done (st', lg') ->
  e_alive (st_E st e) = true -> actsOf (sdo st e sg) <> [] ->
  e_alive (st_E st' e) = false \/
  (e_alive (st_E st' e) = true /\ length (actsOf (sdo st' e sg)) = length (actsOf (sdo st e sg)) /\
   exists appended, map node (slotsOf (sdo st' e sg)) = map node (slotsOf (sdo st e sg)) ++ appended).
Proof.
  intros fuel d st lg e0 sg0 st' lg' e sg H Ha Hn.
  destruct (proj2 (run_G fuel) _ _ _ _ _ _ _ H) as [_ K].
  apply (K e sg Ha). unfold nacts. destruct (actsOf (sdo st e sg)); [congruence|discriminate].
Qed.
End Run.

(* ---- the seven primitives, one statement ---- *)
Inductive prim :=
| PConnect (e sg l s : nat) | PDisconnect (e sg l s : nat) | PDestroyL (l : nat) | PDestroyE (e : nat)
| PBegin (e sg : nat) | PNext (e sg : nat) | PEnd (e sg : nat).

Definition run_prim (st : state) (p : prim) : option state :=
  match p with
  | PConnect e sg l s => connect st e sg l s
  | PDisconnect e sg l s => disconnect st e sg l s
  | PDestroyL l => destroy_listener st l
  | PDestroyE e => destroy_emitter st e
  | PBegin e sg => emit_begin st e sg
  | PNext e sg => match emit_next st e sg with Some (st', _) => Some st' | None => None end
  | PEnd e sg => emit_end st e sg
  end.

Lemma kept_nodes st st' e sg : G st st' -> aliveE st e = true -> actsOf (sdo st e sg) <> [] ->
  aliveE st' e = false \/
  (aliveE st' e = true /\ actsOf (sdo st' e sg) <> [] /\ prefix (skel (sdo st e sg)) (skel (sdo st' e sg))).
Proof.
  intros [_ K] Ha Hn.
  assert (Hn0 : nacts st e sg <> 0) by (unfold nacts; destruct (actsOf (sdo st e sg)); [congruence|discriminate]).
  destruct (K e sg Ha Hn0) as [Hd|[Hal [Hl Hp]]]; [left; exact Hd|].
  right. split; [exact Hal|]. split; [|exact Hp]. intros H0. unfold nacts in Hl. rewrite H0 in Hl. cbn in Hl. apply Hn0. symmetry. exact Hl.
Qed.

Lemma kept1 st st' e sg : G1 st st' -> aliveE st e = true -> actsOf (sdo st e sg) <> [] ->
  aliveE st' e = true /\ actsOf (sdo st' e sg) <> [] /\ prefix (skel (sdo st e sg)) (skel (sdo st' e sg)).
Proof.
  intros H1 Ha Hn. destruct (kept_nodes _ _ e sg (G1_G _ _ H1) Ha Hn) as [Hd|K]; [|exact K].
  destruct H1 as [A _]. rewrite A in Hd. congruence.
Qed.

Theorem prim_no_removal : forall st p st' e sg,
  run_prim st p = Some st' ->
  e_alive (st_E st e) = true -> actsOf (sdo st e sg) <> [] ->
  (p = PDestroyE e /\ e_alive (st_E st' e) = false) \/
  (p = PEnd e sg /\ length (actsOf (sdo st e sg)) = 1) \/
  (e_alive (st_E st' e) = true /\ actsOf (sdo st' e sg) <> [] /\
   exists appended, map node (slotsOf (sdo st' e sg)) = map node (slotsOf (sdo st e sg)) ++ appended).
Proof.
  intros st p st' e sg H Ha Hn.
  assert (Hn0 : nacts st e sg <> 0) by (unfold nacts; destruct (actsOf (sdo st e sg)); [congruence|discriminate]).
  destruct p as [e0 sg0 l s|e0 sg0 l s|l|e0|e0 sg0|e0 sg0|e0 sg0]; cbn [run_prim] in H.
  - right; right. apply (kept1 _ _ e sg (connect_G1 _ _ _ _ _ _ H) Ha Hn).
  - right; right. apply (kept1 _ _ e sg (disconnect_G1 _ _ _ _ _ _ H) Ha Hn).
  - right; right. apply (kept1 _ _ e sg (destroy_listener_G1 _ _ _ H) Ha Hn).
  - destruct (kept_nodes _ _ e sg (destroy_emitter_G _ _ _ H) Ha Hn) as [Hd|K]; [|right; right; exact K].
    left. split; [|exact Hd]. destruct (Nat.eq_dec e e0) as [->|Hne]; [reflexivity|].
    exfalso. destruct (destroy_emitter_spec _ _ _ H) as [_ Ho]. unfold aliveE in Hd. rewrite (Ho e Hne) in Hd. congruence.
  - right; right. destruct (emit_begin_spec _ _ _ _ H) as [[Ba Bo] [Bs Bn]].
    split; [unfold aliveE in Ba; rewrite Ba; exact Ha|].
    destruct (pair_dec e sg e0 sg0) as [Heq|Hne].
    + injection Heq as -> ->. specialize (Bn Hn0). split.
      * intros H0. unfold nacts in Bn. rewrite H0 in Bn. discriminate.
      * rewrite Bs. exists []. symmetry. apply app_nil_r.
    + rewrite (Bo _ _ Hne). split; [exact Hn|]. exists []. symmetry. apply app_nil_r.
  - right; right. destruct (emit_next st e0 sg0) as [[st1 o]|] eqn:Hx; [|discriminate]. injection H as <-.
    destruct (kept_nodes _ _ e sg (emit_next_G _ _ _ _ _ Hx) Ha Hn) as [Hd|K]; [|exact K].
    exfalso. destruct (emit_next_spec _ _ _ _ _ Hx) as [[Fa _] _]. rewrite Fa in Hd. unfold aliveE in Hd. congruence.
  - destruct (emit_end_spec _ _ _ _ H) as [[Ea Eo] Es].
    destruct (pair_dec e sg e0 sg0) as [Heq|Hne].
    + injection Heq as -> ->. destruct (Nat.eq_dec (nacts st e0 sg0) 1) as [H1|H1]; [right; left; split; [reflexivity|exact H1]|].
      right; right. assert (H2 : 2 <= nacts st e0 sg0) by lia. destruct (Es H2) as [Hs3 Hn3].
      split; [unfold aliveE in Ea; rewrite Ea; exact Ha|]. split.
      * intros H0. unfold nacts in Hn3 at 1. rewrite H0 in Hn3. cbn in Hn3. lia.
      * rewrite Hs3. exists []. symmetry. apply app_nil_r.
    + right; right. split; [unfold aliveE in Ea; rewrite Ea; exact Ha|]. rewrite (Eo _ _ Hne).
      split; [exact Hn|]. exists []. symmetry. apply app_nil_r.
Qed.
