(* The streaming structure: update buffers bytes and compresses full blocks, for every chunking.
   Invariant InvS p full rest: the hasher p has absorbed full ++ rest, where full is a whole
   number of 64-byte blocks already compressed into state p and rest (< 64 bytes) sits at the
   front of the buffer. *)
From Coq Require Import ZArith List Lia Arith Bool ZifyBool ZifyNat.
From Common Require Import Words ListAux.
From Sha Require Import Gen_Sha ShaSpec ShaModel ShaProofs ShaRound ShaCompress.
Import ListNotations.
Local Open Scope Z_scope.
Ltac Zify.zify_post_hook ::= Z.div_mod_to_equations.

(* ---- ListAux.chunks ------------------------------------------------------------------------ *)
Lemma chunks_fuel_enough {A} n : (0 < n)%nat -> forall f1 f2 (l : list A),
  (length l <= f1)%nat -> (length l <= f2)%nat -> chunks_fuel f1 n l = chunks_fuel f2 n l.
Proof.
  intros Hn. induction f1 as [|f1 IH]; intros f2 l H1 H2.
  - destruct l as [|x l]; [ | cbn [length] in H1; lia ]. destruct f2; reflexivity.
  - destruct f2 as [|f2]; [ destruct l as [|x l]; [ reflexivity | cbn [length] in H2; lia ] | ].
    destruct l as [|x l]; [ reflexivity | ].
    cbn [chunks_fuel]. f_equal.
    apply IH; rewrite skipn_length; cbn [length] in *; lia.
Qed.

Lemma chunks_nil {A} n : @chunks A n [] = [].
Proof. reflexivity. Qed.

Lemma chunks_cons {A} n (a b : list A) : (0 < n)%nat -> length a = n ->
  chunks n (a ++ b) = a :: chunks n b.
Proof.
  intros Hn Ha. unfold chunks. rewrite app_length.
  replace (length a + length b)%nat with (S (n - 1 + length b)) by lia.
  assert (a ++ b <> []) as Hne by (destruct a; [ cbn [length] in Ha; lia | discriminate ]).
  assert (forall f, chunks_fuel (S f) n (a ++ b) = firstn n (a ++ b) :: chunks_fuel f n (skipn n (a ++ b))) as Hstep.
  { intros f. destruct (a ++ b); [ congruence | reflexivity ]. }
  rewrite Hstep.
  rewrite firstn_app, skipn_app, Ha, Nat.sub_diag, firstn_all2, skipn_all2 by lia.
  cbn [firstn skipn app]. rewrite app_nil_r. f_equal.
  apply chunks_fuel_enough; lia.
Qed.

Lemma chunks_one {A} n (a : list A) : (0 < n)%nat -> length a = n -> chunks n a = [a].
Proof. intros Hn Ha. rewrite <- (app_nil_r a) at 1. rewrite chunks_cons by assumption. reflexivity. Qed.

Lemma chunks_app_full {A} n : (0 < n)%nat -> forall k (full rest : list A), length full = (k * n)%nat ->
  chunks n (full ++ rest) = chunks n full ++ chunks n rest.
Proof.
  intros Hn. induction k as [|k IH]; intros full rest Hl.
  - destruct full; [ reflexivity | cbn [length] in Hl; lia ].
  - rewrite <- (firstn_skipn n full), <- app_assoc.
    assert (length (firstn n full) = n) as Hf by (rewrite firstn_length; lia).
    rewrite (chunks_cons n (firstn n full) (skipn n full ++ rest)) by assumption.
    rewrite (chunks_cons n (firstn n full) (skipn n full)) by assumption.
    rewrite IH by (rewrite skipn_length; lia). reflexivity.
Qed.

(* ---- bytes ----------------------------------------------------------------------------------- *)
Lemma is_byte_range b : is_byte b = true <-> 0 <= b < 256.
Proof. unfold is_byte. lia. Qed.

Lemma wf_bytes_cons b l : wf_bytes (b :: l) = true <-> 0 <= b < 256 /\ wf_bytes l = true.
Proof. unfold wf_bytes. cbn [forallb]. rewrite andb_true_iff, is_byte_range. reflexivity. Qed.

Lemma wf_bytes_app_iff a b : wf_bytes (a ++ b) = true <-> wf_bytes a = true /\ wf_bytes b = true.
Proof. rewrite wf_bytes_app, andb_true_iff. reflexivity. Qed.

Lemma wf_bytes_repeat0 n : wf_bytes (repeat 0 n) = true.
Proof. induction n as [|n IH]; [ reflexivity | ]. cbn [repeat]. apply wf_bytes_cons. split; [ lia | exact IH ]. Qed.

Lemma wf_be_bytes n x : wf_bytes (be_bytes n x) = true.
Proof.
  induction n as [|n IH]; [ reflexivity | ]. cbn [be_bytes]. apply wf_bytes_cons. split; [ | exact IH ].
  apply Z.mod_pos_bound. lia.
Qed.

Lemma be_bytes_length n x : length (be_bytes n x) = n.
Proof. induction n as [|n IH]; [ reflexivity | ]. cbn [be_bytes length]. f_equal. exact IH. Qed.

(* ---- WriteByteBlock's big-endian load = words_of_block ---------------------------------------- *)
Lemma word4 a b c d : 0 <= a < 256 -> 0 <= b < 256 -> 0 <= c < 256 -> 0 <= d < 256 ->
  w32 (w32 (w32 (Z.shiftl a 24 + Z.shiftl b 16) + Z.shiftl c 8) + d) = be_word [a; b; c; d].
Proof.
  intros Ha Hb Hc Hd. unfold be_word. cbn [fold_left].
  rewrite !Z.shiftl_mul_pow2 by lia.
  change (2 ^ 24) with 16777216. change (2 ^ 16) with 65536. change (2 ^ 8) with 256.
  unfold w32. lia.
Qed.

Lemma word_at_shift a b c d buf i : word_at (a :: b :: c :: d :: buf) (S i) = word_at buf i.
Proof.
  unfold word_at, nthz.
  replace (4 * S i)%nat with (S (S (S (S (4 * i))))) by lia.
  cbn [Nat.add nth]. reflexivity.
Qed.

Lemma words_of_block_word_at : forall n buf, length buf = (4 * n)%nat -> wf_bytes buf = true ->
  map (word_at buf) (seq 0 n) = words_of_block buf.
Proof.
  unfold words_of_block.
  induction n as [|n IH]; intros buf Hl Hwf.
  - destruct buf; [ reflexivity | cbn [length] in Hl; lia ].
  - destruct buf as [|a [|b [|c [|d buf]]]]; cbn [length] in Hl; try lia.
    apply wf_bytes_cons in Hwf as [Ha Hwf]. apply wf_bytes_cons in Hwf as [Hb Hwf].
    apply wf_bytes_cons in Hwf as [Hc Hwf]. apply wf_bytes_cons in Hwf as [Hd Hwf].
    change (a :: b :: c :: d :: buf) with ([a; b; c; d] ++ buf) at 2.
    rewrite chunks_cons by (cbn [length]; lia). cbn [seq map].
    f_equal.
    + unfold word_at, nthz. cbn [Nat.mul Nat.add nth]. apply word4; assumption.
    + rewrite <- seq_shift, map_map. rewrite <- IH by (assumption || lia).
      apply map_ext. intros i. apply word_at_shift.
Qed.

(* ---- the state after absorbing whole blocks ---------------------------------------------------- *)
Definition absorb_from (st : list Z) (bs : list Z) : list Z :=
  fold_left compress (map words_of_block (chunks 64 bs)) st.
Definition absorb (full : list Z) : list Z := absorb_from fips_H0 full.

Lemma H0_is8 : is8 fips_H0.
Proof. unfold fips_H0. repeat eexists. Qed.

Lemma absorb_from_is8 bs st : is8 st -> is8 (absorb_from st bs).
Proof.
  unfold absorb_from. generalize (map words_of_block (chunks 64 bs)). intros l. revert st.
  induction l as [|x l IH]; intros st H; cbn [fold_left]; [ exact H | ]. apply IH. apply compress_is8. exact H.
Qed.

Lemma absorb_is8 full : is8 (absorb full).
Proof. apply absorb_from_is8. exact H0_is8. Qed.

Lemma absorb_from_app st k full tail : length full = (k * 64)%nat ->
  absorb_from st (full ++ tail) = absorb_from (absorb_from st full) tail.
Proof.
  intros Hl. unfold absorb_from. rewrite (chunks_app_full 64 ltac:(lia) k) by exact Hl.
  rewrite map_app, fold_left_app. reflexivity.
Qed.

Lemma absorb_from_block st blk : length blk = 64%nat ->
  absorb_from st blk = compress st (words_of_block blk).
Proof. intros Hl. unfold absorb_from. rewrite chunks_one by lia. reflexivity. Qed.

Lemma words_of_block_length blk : length blk = 64%nat -> length (words_of_block blk) = 16%nat.
Proof.
  intros Hl.
  unfold words_of_block. rewrite map_length.
  do 65 (destruct blk as [|? blk]; [ try discriminate Hl | ]); [ reflexivity | discriminate Hl ].
Qed.

(* one WriteByteBlock on a buffer holding a well-formed block *)
Lemma WriteByteBlock_compress st cnt blk : is8 st -> length blk = 64%nat -> wf_bytes blk = true ->
  WriteByteBlock {| state := st; count := cnt; buffer := blk |}
  = {| state := compress st (words_of_block blk); count := cnt; buffer := blk |}.
Proof.
  intros Hst Hl Hwf. unfold WriteByteBlock. cbn [state count buffer]. f_equal.
  rewrite (words_of_block_word_at 16 blk) by (assumption || lia).
  apply Transform_compress; [ exact Hst | apply words_of_block_length; exact Hl ].
Qed.

(* ---- the invariant ----------------------------------------------------------------------------- *)
Definition InvS (p : sha) (full rest : list Z) : Prop :=
  length (buffer p) = 64%nat /\
  count p = w64 (Z.of_nat (length (full ++ rest))) /\
  wf_bytes (full ++ rest) = true /\
  (exists k, length full = (k * 64)%nat) /\
  (length rest < 64)%nat /\
  state p = absorb full /\
  firstn (length rest) (buffer p) = rest.

(* p has absorbed the message m *)
Definition Inv (p : sha) (m : list Z) : Prop := exists full rest, m = full ++ rest /\ InvS p full rest.

Lemma prefix_split {A} (buf rest : list A) : firstn (length rest) buf = rest -> (length rest < length buf)%nat ->
  exists y tl, buf = rest ++ y :: tl.
Proof.
  intros Hf Hl. pose proof (firstn_skipn (length rest) buf) as E. rewrite Hf in E.
  destruct (skipn (length rest) buf) as [|y tl] eqn:Es.
  - apply (f_equal (@length A)) in Es. rewrite skipn_length in Es. cbn [length] in Es. lia.
  - exists y, tl. symmetry. exact E.
Qed.

Lemma firstn_app_exact {A} (a b : list A) : firstn (length a) (a ++ b) = a.
Proof. rewrite firstn_app, Nat.sub_diag, firstn_all. cbn [firstn]. apply app_nil_r. Qed.

Lemma w64_succ n : w64 (w64 (Z.of_nat n) + 1) = w64 (Z.of_nat (S n)).
Proof. unfold w64. rewrite Zplus_mod_idemp_l. f_equal. lia. Qed.

Lemma land63 x : 0 <= x -> Z.land x 63 = x mod 64.
Proof. intros _. change 63 with (Z.ones 6). rewrite Z.land_ones by lia. reflexivity. Qed.

Lemma InvS_pos p full rest : InvS p full rest -> Z.land (w32 (count p)) 63 = Z.of_nat (length rest).
Proof.
  intros (_ & Hc & _ & (k & Hk) & Hr & _ & _). rewrite Hc, app_length, Hk.
  rewrite land63 by (apply w32_range). unfold w32, w64. lia.
Qed.

Lemma update_byte_inv p full rest b : InvS p full rest -> 0 <= b < 256 ->
  exists full' rest', full' ++ rest' = full ++ rest ++ [b] /\
    InvS (fst (update_byte (p, Z.of_nat (length rest)) b)) full' rest' /\
    snd (update_byte (p, Z.of_nat (length rest)) b) = Z.of_nat (length rest').
Proof.
  intros (Hb & Hc & Hwf & (k & Hk) & Hr & Hst & Hf) Hbyte.
  destruct p as [st cnt buf]. cbn [state count buffer] in *.
  destruct (prefix_split buf rest Hf ltac:(lia)) as (y & tl & ->).
  assert (wf_bytes (full ++ rest ++ [b]) = true) as Hwf'.
  { rewrite app_assoc. apply wf_bytes_app_iff. split; [ exact Hwf | ]. apply wf_bytes_cons. split; [ lia | reflexivity ]. }
  assert (w64 (cnt + 1) = w64 (Z.of_nat (length (full ++ rest ++ [b])))) as Hc'.
  { rewrite Hc, w64_succ. f_equal. rewrite !app_length. cbn [length]. lia. }
  unfold update_byte. cbn [state count buffer]. rewrite Nat2Z.id, upd_app_at.
  rewrite app_length in Hb. cbn [length] in Hb.
  destruct (Z.of_nat (length rest) + 1 =? 64) eqn:E64.
  - (* the block is full: compress it *)
    assert (tl = []) as -> by (destruct tl; [ reflexivity | cbn [length] in Hb; lia ]).
    assert (length (rest ++ [b]) = 64%nat) as Hl64 by (rewrite app_length; cbn [length]; lia).
    exists (full ++ rest ++ [b]), []. rewrite app_nil_r. split; [ reflexivity | ].
    rewrite WriteByteBlock_compress;
      [ | rewrite Hst; apply absorb_is8 | exact Hl64 | apply wf_bytes_app_iff in Hwf' as [_ H]; exact H ].
    cbn [fst snd state count buffer length]. split; [ | reflexivity ].
    repeat split.
    + exact Hl64.
    + rewrite app_nil_r. exact Hc'.
    + rewrite app_nil_r. exact Hwf'.
    + exists (S k). rewrite app_length, Hl64. lia.
    + lia.
    + unfold absorb. rewrite (absorb_from_app fips_H0 k full) by exact Hk.
      rewrite absorb_from_block by exact Hl64. rewrite Hst. reflexivity.
  - exists full, (rest ++ [b]). split; [ reflexivity | ].
    unfold InvS. cbn [fst snd state count buffer]. split; [ | rewrite app_length; cbn [length]; lia ].
    repeat split.
    + rewrite app_length. cbn [length]. lia.
    + exact Hc'.
    + exact Hwf'.
    + exists k. exact Hk.
    + rewrite app_length. cbn [length]. lia.
    + exact Hst.
    + change (rest ++ b :: tl) with (rest ++ [b] ++ tl). rewrite app_assoc. apply firstn_app_exact.
Qed.

Lemma update_fold_inv : forall d p full rest, InvS p full rest -> wf_bytes d = true ->
  exists full' rest', full' ++ rest' = full ++ rest ++ d /\
    InvS (fst (fold_left update_byte d (p, Z.of_nat (length rest)))) full' rest'.
Proof.
  induction d as [|b d IH]; intros p full rest HI Hwf.
  - exists full, rest. rewrite app_nil_r. split; [ reflexivity | exact HI ].
  - apply wf_bytes_cons in Hwf as [Hb Hwf]. cbn [fold_left].
    destruct (update_byte_inv p full rest b HI Hb) as (full1 & rest1 & E1 & HI1 & Hpos1).
    destruct (update_byte (p, Z.of_nat (length rest)) b) as [p1 pos1]. cbn [fst snd] in *. subst pos1.
    destruct (IH p1 full1 rest1 HI1 Hwf) as (full2 & rest2 & E2 & HI2).
    exists full2, rest2. split; [ | exact HI2 ].
    rewrite E2, app_assoc, E1, <- !app_assoc. reflexivity.
Qed.

(* update, for any chunk: absorbing d after m is absorbing m ++ d *)
Lemma update_inv p m d : Inv p m -> wf_bytes d = true -> Inv (update p d) (m ++ d).
Proof.
  intros (full & rest & -> & HI) Hwf. unfold update. rewrite (InvS_pos p full rest HI).
  destruct (update_fold_inv d p full rest HI Hwf) as (full' & rest' & E & HI').
  exists full', rest'. split; [ rewrite E, app_assoc; reflexivity | exact HI' ].
Qed.

Lemma InvS_fresh st cnt buf : length buf = 64%nat -> st = gen_H0 -> cnt = 0 ->
  InvS {| state := st; count := cnt; buffer := buf |} [] [].
Proof.
  intros Hl -> ->. unfold InvS. cbn [state count buffer app length firstn]. repeat split.
  - exact Hl.
  - exists O. reflexivity.
  - lia.
Qed.

Lemma init_inv : Inv init [].
Proof. exists [], []. split; [ reflexivity | ]. apply InvS_fresh; reflexivity. Qed.

Lemma reset_inv p m : Inv p m -> Inv (reset p) [].
Proof.
  intros (full & rest & _ & (Hb & _)). exists [], []. split; [ reflexivity | ].
  unfold reset. apply InvS_fresh; [ exact Hb | reflexivity | reflexivity ].
Qed.
