From Coq Require Import ZArith List Lia.
From Common Require Import Words ListAux.
From Sha Require Import Gen_Sha ShaSpec ShaModel.
Import ListNotations.
Local Open Scope Z_scope.

Lemma gen_K_is_fips : gen_K = fips_K.
Proof. vm_compute. reflexivity. Qed.
Lemma gen_H0_is_fips : gen_H0 = fips_H0.
Proof. vm_compute. reflexivity. Qed.
