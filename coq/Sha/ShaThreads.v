(* Independent hashers (one per thread).  Nothing in the model is shared between two Sha256 objects: a hasher is a value
   of type sha (eight state words, counter, block buffer) and step takes and returns one such value; Transform, the
   message schedule and the padding work on locals.  A system of n hashers under an ARBITRARY schedule - a list of
   (hasher index, operation), i.e. any interleaving of the threads' operations - therefore shows, for every hasher,
   exactly the observations of that hasher's own operations run alone, which are those of the spec.  (The schedule
   interleaves whole operations; below that granularity the model has nothing two hashers could both touch.  That the
   C++ has no such thing either - no storage of static duration besides the constant table K - is checked syntactically
   by gen/tables.py and dynamically by the harness op `threads`.) *)
From Coq Require Import ZArith List Arith Lia.
From Common Require Import Words ListAux.
From Sha Require Import Gen_Sha ShaSpec ShaModel ShaStream ShaHmac.
Import ListNotations.

(* one event of the schedule: hasher number (fst e) performs operation (snd e); other hashers keep their state *)
Definition sys_step (s : list sha) (e : nat * op) : list sha * option (list Z) :=
  if (fst e <? length s)%nat
  then (upd (fst e) (fst (step (nth (fst e) s init) (snd e))) s, snd (step (nth (fst e) s init) (snd e)))
  else (s, None).

(* the trace: every observation tagged with the hasher that made it *)
Fixpoint sys_run (s : list sha) (sched : list (nat * op)) : list (nat * option (list Z)) :=
  match sched with
  | [] => []
  | e :: t => (fst e, snd (sys_step s e)) :: sys_run (fst (sys_step s e)) t
  end.

(* what belongs to hasher i: its operations in a schedule, its observations in a trace *)
Definition mine {B} (i : nat) (l : list (nat * B)) : list B := map snd (filter (fun e => (fst e =? i)%nat) l).

Lemma sys_run_project : forall sched s i, (i < length s)%nat ->
  mine i (sys_run s sched) = run (nth i s init) (mine i sched).
Proof.
  induction sched as [|[j o] t IH]; intros s i Hi; [ reflexivity | ].
  unfold mine in *. cbn [sys_run filter fst snd map].
  unfold sys_step; cbn [fst snd].
  destruct (Nat.ltb_spec j (length s)) as [Hj|Hj]; cbn [fst snd].
  - destruct (Nat.eqb_spec j i) as [->|Hne]; cbn [map snd run].
    + rewrite (IH _ i) by (rewrite upd_length; exact Hi).
      rewrite nth_upd_same by exact Hi. reflexivity.
    + rewrite (IH _ i) by (rewrite upd_length; exact Hi).
      rewrite nth_upd_other by exact Hne. reflexivity.
  - destruct (Nat.eqb_spec j i) as [->|Hne]; [ lia | ]. apply IH; exact Hi.
Qed.

Lemma nth_repeat_init : forall n i, nth i (repeat init n) init = init.
Proof. induction n as [|n IH]; intros [|i]; simpl; auto. Qed.

Lemma independent_hashers n sched i : (i < n)%nat -> ops_ok [] (mine i sched) ->
  mine i (sys_run (repeat init n) sched) = spec_run [] (mine i sched).
Proof.
  intros Hi Hok. rewrite sys_run_project by (rewrite repeat_length; exact Hi).
  rewrite nth_repeat_init. apply run_refines; [ exact init_inv | exact Hok ].
Qed.
