(* update and finalize from an ARBITRARY internal state (eight state words, any counter value, any buffer) - what the
   white-box op `setcount` of the correspondence harness exercises.  The invariant of ShaStream.v is re-stated relative to
   a starting state st0 and a starting counter c0 (a multiple of 64): "since then p has absorbed full ++ rest".
   InvS p full rest is InvG fips_H0 0 p full rest. *)
From Coq Require Import ZArith List Lia Arith Bool ZifyBool ZifyNat.
From Common Require Import Words ListAux.
From Sha Require Import Gen_Sha ShaSpec ShaModel ShaProofs ShaRound ShaCompress ShaStream ShaFinal.
Import ListNotations.
Local Open Scope Z_scope.
Ltac Zify.zify_post_hook ::= Z.div_mod_to_equations.

Definition InvG (st0 : list Z) (c0 : Z) (p : sha) (full rest : list Z) : Prop :=
  length (buffer p) = 64%nat /\
  count p = w64 (c0 + Z.of_nat (length (full ++ rest))) /\
  wf_bytes (full ++ rest) = true /\
  (exists k, length full = (k * 64)%nat) /\
  (length rest < 64)%nat /\
  state p = absorb_from st0 full /\
  firstn (length rest) (buffer p) = rest.

Lemma InvS_is_InvG p full rest : InvS p full rest <-> InvG fips_H0 0 p full rest.
Proof. unfold InvS, InvG, absorb. cbn [Z.add]. reflexivity. Qed.

Lemma InvG_pos st0 c0 p full rest : c0 mod 64 = 0 -> InvG st0 c0 p full rest ->
  Z.land (w32 (count p)) 63 = Z.of_nat (length rest).
Proof.
  intros H0 (_ & Hc & _ & (k & Hk) & Hr & _ & _). rewrite Hc, app_length, Hk.
  rewrite land63 by (apply w32_range). unfold w32, w64. lia.
Qed.

Lemma w64_succ_gen x : w64 (w64 x + 1) = w64 (x + 1).
Proof. unfold w64. rewrite Zplus_mod_idemp_l. reflexivity. Qed.

Lemma update_byte_invG st0 c0 p full rest b : is8 st0 -> InvG st0 c0 p full rest -> 0 <= b < 256 ->
  exists full' rest', full' ++ rest' = full ++ rest ++ [b] /\
    InvG st0 c0 (fst (update_byte (p, Z.of_nat (length rest)) b)) full' rest' /\
    snd (update_byte (p, Z.of_nat (length rest)) b) = Z.of_nat (length rest').
Proof.
  intros H8 (Hb & Hc & Hwf & (k & Hk) & Hr & Hst & Hf) Hbyte.
  destruct p as [st cnt buf]. cbn [state count buffer] in *.
  destruct (prefix_split buf rest Hf ltac:(lia)) as (y & tl & ->).
  assert (wf_bytes (full ++ rest ++ [b]) = true) as Hwf'.
  { rewrite app_assoc. apply wf_bytes_app_iff. split; [ exact Hwf | ]. apply wf_bytes_cons. split; [ lia | reflexivity ]. }
  assert (w64 (cnt + 1) = w64 (c0 + Z.of_nat (length (full ++ rest ++ [b])))) as Hc'.
  { rewrite Hc, w64_succ_gen. f_equal. rewrite !app_length. cbn [length]. lia. }
  unfold update_byte. cbn [state count buffer]. rewrite Nat2Z.id, upd_app_at.
  rewrite app_length in Hb. cbn [length] in Hb.
  destruct (Z.of_nat (length rest) + 1 =? 64) eqn:E64.
  - (* the block is full: compress it *)
    assert (tl = []) as -> by (destruct tl; [ reflexivity | cbn [length] in Hb; lia ]).
    assert (length (rest ++ [b]) = 64%nat) as Hl64 by (rewrite app_length; cbn [length]; lia).
    exists (full ++ rest ++ [b]), []. rewrite app_nil_r. split; [ reflexivity | ].
    rewrite WriteByteBlock_compress;
      [ | rewrite Hst; apply absorb_from_is8; exact H8 | exact Hl64 | apply wf_bytes_app_iff in Hwf' as [_ H]; exact H ].
    cbn [fst snd state count buffer length]. split; [ | reflexivity ].
    unfold InvG. cbn [state count buffer length]. repeat split.
    + exact Hl64.
    + rewrite app_nil_r. exact Hc'.
    + rewrite app_nil_r. exact Hwf'.
    + exists (S k). rewrite app_length, Hl64. lia.
    + lia.
    + rewrite (absorb_from_app st0 k full) by exact Hk.
      rewrite absorb_from_block by exact Hl64. rewrite Hst. reflexivity.
  - exists full, (rest ++ [b]). split; [ reflexivity | ].
    unfold InvG. cbn [fst snd state count buffer]. split; [ | rewrite app_length; cbn [length]; lia ].
    repeat split.
    + rewrite app_length. cbn [length]. lia.
    + exact Hc'.
    + exact Hwf'.
    + exists k. exact Hk.
    + rewrite app_length. cbn [length]. lia.
    + exact Hst.
    + change (rest ++ b :: tl) with (rest ++ [b] ++ tl). rewrite app_assoc. apply firstn_app_exact.
Qed.

Lemma update_fold_invG st0 c0 : is8 st0 -> forall d p full rest, InvG st0 c0 p full rest -> wf_bytes d = true ->
  exists full' rest', full' ++ rest' = full ++ rest ++ d /\
    InvG st0 c0 (fst (fold_left update_byte d (p, Z.of_nat (length rest)))) full' rest'.
Proof.
  intros H8. induction d as [|b d IH]; intros p full rest HI Hwf.
  - exists full, rest. rewrite app_nil_r. split; [ reflexivity | exact HI ].
  - apply wf_bytes_cons in Hwf as [Hb Hwf]. cbn [fold_left].
    destruct (update_byte_invG st0 c0 p full rest b H8 HI Hb) as (full1 & rest1 & E1 & HI1 & Hpos1).
    destruct (update_byte (p, Z.of_nat (length rest)) b) as [p1 pos1]. cbn [fst snd] in *. subst pos1.
    destruct (IH p1 full1 rest1 HI1 Hwf) as (full2 & rest2 & E2 & HI2).
    exists full2, rest2. split; [ | exact HI2 ].
    rewrite E2, app_assoc, E1, <- !app_assoc. reflexivity.
Qed.

Lemma update_invG st0 c0 p full rest d : is8 st0 -> c0 mod 64 = 0 -> InvG st0 c0 p full rest -> wf_bytes d = true ->
  exists full' rest', full' ++ rest' = full ++ rest ++ d /\ InvG st0 c0 (update p d) full' rest'.
Proof.
  intros H8 H0 HI Hwf. unfold update. rewrite (InvG_pos st0 c0 p full rest H0 HI).
  exact (update_fold_invG st0 c0 H8 d p full rest HI Hwf).
Qed.

(* finalize of a hasher that has, since (st0, c0), absorbed full ++ rest *)
Lemma finalize_invG st0 c0 p full rest : is8 st0 -> c0 mod 64 = 0 -> InvG st0 c0 p full rest ->
  exists p', finalize p
             = Some (flat_map (be_bytes 4)
                       (absorb_from st0 ((full ++ rest) ++ [128] ++ repeat 0 (pad_zeros (length (full ++ rest) mod 64))
                                           ++ be_bytes 8 ((8 * (c0 + Z.of_nat (length (full ++ rest)))) mod 18446744073709551616))), p')
             /\ Inv p' [].
Proof.
  intros H8 H0 HI. pose proof (InvG_pos st0 c0 p full rest H0 HI) as Hpos.
  destruct HI as (Hb & Hc & Hwf & (k & Hk) & Hr & Hst & Hf).
  apply wf_bytes_app_iff in Hwf as [_ Hwfr].
  destruct (finalize_shape_gen p rest) as (p' & E & HI');
    [ exact Hb | rewrite Hst; apply absorb_from_is8; exact H8 | exact Hpos | exact Hwfr | exact Hf | ].
  exists p'. split; [ | exists [], []; split; [ reflexivity | exact HI' ] ].
  rewrite E, Hst, <- (absorb_from_app st0 k full _ Hk), <- app_assoc.
  assert ((length (full ++ rest) mod 64)%nat = length rest) as ->.
  { rewrite app_length, Hk. rewrite Nat.add_comm, Nat.mod_add by lia. apply Nat.mod_small. exact Hr. }
  replace (w64 (Z.shiftl (count p) 3))
    with ((8 * (c0 + Z.of_nat (length (full ++ rest)))) mod 18446744073709551616); [ reflexivity | ].
  rewrite Hc, Z.shiftl_mul_pow2 by lia. unfold w64. change (2 ^ 3) with 8. lia.
Qed.

(* ---- the statement on the three fields ------------------------------------------------------------------------ *)
(* For every 8-word state st, every counter value c, every 64-byte buffer and every chunk d: update then finalize
   compresses, starting from st, the buffered bytes (the first c mod 64 bytes of the buffer) followed by d, 0x80, the
   FIPS 5.1.1 zero fill and the eight big-endian bytes of 8 (c + |d|) mod 2^64, and leaves a fresh hasher. *)
Lemma update_finalize_any_state st c buf d : is8 st -> length buf = 64%nat -> 0 <= c < 18446744073709551616 ->
  wf_bytes (firstn (Z.to_nat (c mod 64)) buf) = true -> wf_bytes d = true ->
  exists p', finalize (update {| state := st; count := c; buffer := buf |} d)
             = Some (flat_map (be_bytes 4)
                       (absorb_from st ((firstn (Z.to_nat (c mod 64)) buf ++ d) ++ [128]
                                          ++ repeat 0 (pad_zeros (length (firstn (Z.to_nat (c mod 64)) buf ++ d) mod 64))
                                          ++ be_bytes 8 ((8 * (c + Z.of_nat (length d))) mod 18446744073709551616))), p')
             /\ Inv p' [].
Proof.
  intros H8 Hb Hc Hwr Hwd.
  set (r := firstn (Z.to_nat (c mod 64)) buf) in *.
  assert (length r = Z.to_nat (c mod 64)) as Hlr by (unfold r; rewrite firstn_length, Hb; lia).
  set (c0 := c - c mod 64).
  assert (c0 mod 64 = 0) as H0 by (unfold c0; lia).
  assert (InvG st c0 {| state := st; count := c; buffer := buf |} [] r) as HI.
  { unfold InvG. cbn [state count buffer app].
    split; [ exact Hb | ].
    split; [ rewrite Hlr; unfold c0, w64; lia | ].
    split; [ exact Hwr | ].
    split; [ exists 0%nat; reflexivity | ].
    split; [ lia | ].
    split; [ unfold absorb_from; rewrite chunks_nil; reflexivity | ].
    rewrite Hlr. reflexivity. }
  destruct (update_invG st c0 _ [] r d H8 H0 HI Hwd) as (full' & rest' & E & HI').
  destruct (finalize_invG st c0 _ full' rest' H8 H0 HI') as (p' & EF & HF).
  exists p'. split; [ | exact HF ].
  rewrite EF, E. cbn [app].
  replace (c0 + Z.of_nat (length (r ++ d))) with (c + Z.of_nat (length d)); [ reflexivity | ].
  rewrite app_length, Hlr. unfold c0. lia.
Qed.
