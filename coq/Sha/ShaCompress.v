(* Transform (rolling 16-word window, rotating register file) = FIPS 180-4 compress:
   induction over the two nested folds on top of the one-round lemmas of ShaRound.v, then the
   message schedule of the spec is shown to satisfy the window recurrence. *)
From Coq Require Import ZArith List Lia Arith.
From Common Require Import Words ListAux.
From Sha Require Import Gen_Sha ShaSpec ShaModel ShaProofs ShaRound.
Import ListNotations.
Local Open Scope Z_scope.

(* one phase (16 rounds) of Transform, kept folded *)
Definition phaseF (data : list Z) (j : nat) (st : list Z * list Z) : list Z * list Z :=
  fold_left (fun st i => R j i data st) (seq 0 16) st.

Lemma fold_left4 {A B} (f : A -> B -> A) a b c d x :
  fold_left f [a; b; c; d] x = f (f (f (f x a) b) c) d.
Proof. reflexivity. Qed.

Lemma Transform_unfold st data :
  Transform st data
  = add_lists st (fst (phaseF data 48 (phaseF data 32 (phaseF data 16 (phaseF data 0 (st, repeat 0 16)))))).
Proof.
  unfold Transform. rewrite fold_left4. cbv beta. unfold phaseF. reflexivity.
Qed.

Section Block.
  Variable data sched : list Z.
  Hypothesis Hdata : forall i, (i < 16)%nat -> nth i sched 0 = nthz data i.
  Hypothesis Hrec : forall t, (16 <= t < 64)%nat ->
    nth t sched 0 = add32 (add32 (add32 (SSig1 (nth (t - 2) sched 0)) (nth (t - 7) sched 0))
                                 (SSig0 (nth (t - 15) sched 0))) (nth (t - 16) sched 0).

  Definition wnew (j k : nat) : Z := nth (j + k) sched 0.
  Definition wold (j k : nat) : Z := nth (j - 16 + k) sched 0.
  Definition kws (j : nat) : list (Z * Z) := map (fun k => (nthz gen_K (k + j), wnew j k)) (seq 0 16).

  Lemma stepok_sched j k : (j = 0 \/ j = 16 \/ j = 32 \/ j = 48)%nat -> (k < 16)%nat ->
    stepok j k (wnew j) (wold j) data.
  Proof.
    intros Hj Hk. destruct j as [|j'].
    - cbn [stepok]. unfold wnew. apply Hdata. exact Hk.
    - cbn [stepok]. remember (S j') as j eqn:Ej. assert (16 <= j)%nat as Hj16 by lia.
      assert (forall d, (d <= 16)%nat -> sel (wnew j) (wold j) k d = nth (j + k - d) sched 0) as Hsel.
      { intros d Hd. unfold sel, wnew, wold. destruct (Nat.leb_spec d k); f_equal; lia. }
      rewrite !Hsel by lia. unfold wnew at 1, wold.
      rewrite (Hrec (j + k)) by lia. replace (j - 16 + k)%nat with (j + k - 16)%nat by lia. reflexivity.
  Qed.

  Lemma phase_gen j r gn : (j = 0 \/ j = 16 \/ j = 32 \/ j = 48)%nat -> is8 r ->
    (j <> 0%nat -> gn = wold j) ->
    phaseF data j (r, mixf 0 (wnew j) gn) = (fold_left round (kws j) r, map (wnew j) (seq 0 16)).
  Proof.
    intros Hj Hr Hgn. unfold phaseF.
    rewrite <- (place_0 r Hr) at 1.
    rewrite (inner_fold j (wnew j) gn data 16 0 r); [ | reflexivity | exact Hr | ].
    - rewrite place_16 by (apply fold_round_is8; exact Hr). rewrite mixf_16. reflexivity.
    - intros k Hk. destruct j as [|j'].
      + cbn [stepok]. unfold wnew. apply Hdata. lia.
      + rewrite Hgn by discriminate. apply stepok_sched; [ exact Hj | lia ].
  Qed.

  Lemma phase_first r w : is8 r -> length w = 16%nat ->
    phaseF data 0 (r, w) = (fold_left round (kws 0) r, map (wnew 0) (seq 0 16)).
  Proof.
    intros Hr Hl.
    assert (w = mixf 0 (wnew 0) (fun k => nth k w 0)) as ->.
    { rewrite mixf_0. do 17 (destruct w as [|? w]; try discriminate Hl). reflexivity. }
    apply phase_gen; [ lia | exact Hr | intros H; exfalso; apply H; reflexivity ].
  Qed.

  Lemma phase_later j jp r : j = (jp + 16)%nat -> (j = 16 \/ j = 32 \/ j = 48)%nat -> is8 r ->
    phaseF data j (r, map (wnew jp) (seq 0 16))
    = (fold_left round (kws j) r, map (wnew j) (seq 0 16)).
  Proof.
    intros Ej Hj Hr.
    replace (map (wnew jp) (seq 0 16)) with (mixf 0 (wnew j) (wold j)).
    - apply phase_gen; [ lia | exact Hr | reflexivity ].
    - rewrite mixf_0. apply map_ext. intros k. unfold wold, wnew. f_equal. lia.
  Qed.

  Lemma Transform_rounds st : is8 st ->
    Transform st data = add_lists st (fold_left round (kws 0 ++ kws 16 ++ kws 32 ++ kws 48) st).
  Proof.
    intros Hst. rewrite Transform_unfold.
    rewrite (phase_first st (repeat 0 16) Hst eq_refl).
    rewrite (phase_later 16 0 (fold_left round (kws 0) st));
      [ | reflexivity | lia | apply fold_round_is8; exact Hst ].
    rewrite (phase_later 32 16 (fold_left round (kws 16) (fold_left round (kws 0) st)));
      [ | reflexivity | lia | repeat apply fold_round_is8; exact Hst ].
    rewrite (phase_later 48 32 (fold_left round (kws 32) (fold_left round (kws 16) (fold_left round (kws 0) st))));
      [ | reflexivity | lia | repeat apply fold_round_is8; exact Hst ].
    cbn [fst]. rewrite !fold_left_app. reflexivity.
  Qed.
End Block.

(* ---- the spec's message schedule satisfies the window recurrence --------------------------- *)
Lemma schedule_ext_length n W : length (schedule_ext n W) = (length W + n)%nat.
Proof.
  revert W; induction n as [|n IH]; intros W; cbn [schedule_ext]; [ lia | ].
  rewrite IH, app_length. cbn [length]. lia.
Qed.

Lemma schedule_ext_prefix n W i : (i < length W)%nat -> nth i (schedule_ext n W) 0 = nth i W 0.
Proof.
  revert W; induction n as [|n IH]; intros W Hi; cbn [schedule_ext]; [ reflexivity | ].
  rewrite IH by (rewrite app_length; cbn [length]; lia). apply app_nth1. exact Hi.
Qed.

Definition sched_rec (S : list Z) (t : nat) : Prop :=
  nth t S 0 = add32 (add32 (add32 (SSig1 (nth (t - 2) S 0)) (nth (t - 7) S 0))
                           (SSig0 (nth (t - 15) S 0))) (nth (t - 16) S 0).

Lemma schedule_ext_rec n W t : (16 <= length W)%nat -> (length W <= t < length W + n)%nat ->
  sched_rec (schedule_ext n W) t.
Proof.
  revert W; induction n as [|n IH]; intros W HW Ht; [ lia | ]. cbn [schedule_ext].
  destruct (Nat.eq_dec t (length W)) as [->|Hne].
  - unfold sched_rec. rewrite !schedule_ext_prefix by (rewrite app_length; cbn [length]; lia).
    rewrite (app_nth2 W _ 0 (le_n (length W))). rewrite Nat.sub_diag. cbn [nth].
    rewrite !app_nth1 by lia. unfold nthw. reflexivity.
  - apply IH; rewrite app_length; cbn [length]; lia.
Qed.

Lemma schedule_length M : length M = 16%nat -> length (schedule M) = 64%nat.
Proof. intros H. unfold schedule. rewrite schedule_ext_length, firstn_all2 by lia. lia. Qed.

Lemma combine_nth_seq (K S : list Z) : forall n, length K = n -> length S = n ->
  combine K S = map (fun t => (nth t K 0, nth t S 0)) (seq 0 n).
Proof.
  revert S; induction K as [|k K IH]; intros S n HK HS; destruct S as [|s S]; destruct n as [|n];
    try discriminate; cbn [combine seq map nth]; [ reflexivity | ].
  f_equal. rewrite <- seq_shift, map_map. cbn [nth]. apply IH; cbn [length] in *; lia.
Qed.

Lemma kws_seq sched :
  kws sched 0 ++ kws sched 16 ++ kws sched 32 ++ kws sched 48
  = map (fun t => (nth t gen_K 0, nth t sched 0)) (seq 0 64).
Proof. cbv [kws wnew nthz map seq app Nat.add]. reflexivity. Qed.

Lemma add_lists_map2 a b : add_lists a b = map2 add32 a b.
Proof. revert b; induction a as [|x a IH]; intros [|y b]; cbn [add_lists map2]; try reflexivity. f_equal. apply IH. Qed.

Lemma Transform_compress st data : is8 st -> length data = 16%nat ->
  Transform st data = compress st data.
Proof.
  intros Hst Hlen. unfold compress. rewrite <- add_lists_map2.
  rewrite (Transform_rounds data (schedule data)); [ | | | exact Hst ].
  - rewrite kws_seq, gen_K_is_fips.
    rewrite <- (combine_nth_seq fips_K (schedule data) 64 eq_refl (schedule_length data Hlen)). reflexivity.
  - intros i Hi. unfold schedule. rewrite firstn_all2 by lia. apply schedule_ext_prefix. lia.
  - intros t Ht. unfold schedule. rewrite firstn_all2 by lia. apply schedule_ext_rec; lia.
Qed.

Lemma compress_is8 st data : is8 st -> is8 (compress st data).
Proof.
  intros Hst. unfold compress.
  pose proof (fold_round_is8 (combine fips_K (schedule data)) st Hst) as (a & b & c & d & e & f & g & h & ->).
  destruct Hst as (a' & b' & c' & d' & e' & f' & g' & h' & ->). cbn [map2]. repeat eexists.
Qed.
