(* MODEL of src/Crypto/Sha256.cpp and the inline hmac() of include/nstd/Crypto/Sha256.hpp:
   the code's streaming structure, decision by decision - state[8], 64-bit byte counter,
   64-byte buffer indexed by (count & 63), Transform with the 16-word rolling window W
   (blk0/blk2) and the rotating register file T[(k-i)&7], finalize with its padding loop.
   Constants come from Gen_Sha.v, regenerated from the source on every run. *)
From Coq Require Import ZArith List Lia.
From Common Require Import Words ListAux.
From Sha Require Import Gen_Sha.
Import ListNotations.
Local Open Scope Z_scope.

Definition nthz (l : list Z) (n : nat) : Z := nth n l 0.

(* the macros *)
Definition mS0 x := Z.lxor (Z.lxor (rotr32 x 2) (rotr32 x 13)) (rotr32 x 22).
Definition mS1 x := Z.lxor (Z.lxor (rotr32 x 6) (rotr32 x 11)) (rotr32 x 25).
Definition ms0 x := Z.lxor (Z.lxor (rotr32 x 7) (rotr32 x 18)) (shr32 x 3).
Definition ms1 x := Z.lxor (Z.lxor (rotr32 x 17) (rotr32 x 19)) (shr32 x 10).
Definition mCh x y z := Z.lxor z (Z.land x (Z.lxor y z)).          (* z^(x&(y^z)) *)
Definition mMaj x y z := Z.lor (Z.land x y) (Z.land z (Z.lor x y)). (* (x&y)|(z&(x|y)) *)

(* T[(k-i)&7]  and  W[(i-d)&15] *)
Definition tix (k i : nat) : nat := ((k + 8) - (i mod 8)) mod 8.
Definition wix (i d : nat) : nat := ((i + 16) - d) mod 16.

(* one R(i) inside the j-loop; st = (T, W) *)
Definition R (j i : nat) (data : list Z) (st : list Z * list Z) : list Z * list Z :=
  let '(T, W) := st in
  let W1 := if Nat.eqb j 0 then upd i (nthz data i) W                                   (* blk0 *)
            else upd (wix i 0) (add32 (nthz W (wix i 0))
                                  (add32 (add32 (ms1 (nthz W (wix i 2))) (nthz W (wix i 7)))
                                         (ms0 (nthz W (wix i 15))))) W in              (* blk2 *)
  let w := nthz W1 (wix i 0) in
  let a := nthz T (tix 0 i) in let b := nthz T (tix 1 i) in let c := nthz T (tix 2 i) in
  let e := nthz T (tix 4 i) in let f := nthz T (tix 5 i) in let g := nthz T (tix 6 i) in
  let h1 := add32 (nthz T (tix 7 i)) (add32 (add32 (add32 (mS1 e) (mCh e f g)) (nthz gen_K (i + j))) w) in
  let T1 := upd (tix 7 i) h1 T in
  let d1 := add32 (nthz T1 (tix 3 i)) h1 in
  let T2 := upd (tix 3 i) d1 T1 in
  let h2 := add32 h1 (add32 (mS0 a) (mMaj a b c)) in
  (upd (tix 7 i) h2 T2, W1).

Fixpoint add_lists (a b : list Z) : list Z :=
  match a, b with
  | x :: a', y :: b' => add32 x y :: add_lists a' b'
  | _, _ => []
  end.

Definition Transform (state data : list Z) : list Z :=
  let st := fold_left (fun st j => fold_left (fun st i => R j i data st) (seq 0 16) st)
                      [0; 16; 32; 48]%nat (state, repeat 0 16) in
  add_lists state (fst st).

Record sha := { state : list Z; count : Z; buffer : list Z }.

Definition word_at (buf : list Z) (i : nat) : Z :=
  w32 (w32 (w32 (Z.shiftl (nthz buf (4 * i)) 24 + Z.shiftl (nthz buf (4 * i + 1)) 16)
            + Z.shiftl (nthz buf (4 * i + 2)) 8) + nthz buf (4 * i + 3)).

Definition WriteByteBlock (p : sha) : sha :=
  {| state := Transform (state p) (map (word_at (buffer p)) (seq 0 16));
     count := count p; buffer := buffer p |}.

Definition reset (p : sha) : sha := {| state := gen_H0; count := 0; buffer := buffer p |}.
Definition init : sha := {| state := gen_H0; count := 0; buffer := repeat 0 64 |}.

(* not a member function: what the correspondence harness does with its one white-box op `setcount` - the 64-bit
   counter is overwritten, the state words and the block buffer stay (see finalize_from_any_state) *)
Definition set_count (p : sha) (c : Z) : sha := {| state := state p; count := w64 c; buffer := buffer p |}.

(* update: curBufferPos is computed once and carried *)
Definition update_byte (pp : sha * Z) (b : Z) : sha * Z :=
  let '(p, pos) := pp in
  let p1 := {| state := state p; count := w64 (count p + 1); buffer := upd (Z.to_nat pos) b (buffer p) |} in
  if pos + 1 =? 64 then (WriteByteBlock p1, 0) else (p1, pos + 1).

Definition update (p : sha) (data : list Z) : sha :=
  fst (fold_left update_byte data (p, Z.land (w32 (count p)) 63)).

(* the zero-fill loop of finalize *)
Fixpoint pad_loop (fuel : nat) (p : sha) (pos : Z) : option (sha * Z) :=
  if pos =? 56 then Some (p, pos) else
  match fuel with
  | O => None
  | S f =>
      let pos1 := Z.land pos 63 in
      let p1 := if pos1 =? 0 then WriteByteBlock p else p in
      pad_loop f {| state := state p1; count := count p1; buffer := upd (Z.to_nat pos1) 0 (buffer p1) |} (pos1 + 1)
  end.

Fixpoint len_bytes (n : nat) (len : Z) (p : sha) (pos : Z) : sha :=
  match n with
  | O => p
  | S n' => len_bytes n' (w64 (Z.shiftl len 8))
              {| state := state p; count := count p; buffer := upd (Z.to_nat pos) (w8 (Z.shiftr len 56)) (buffer p) |}
              (pos + 1)
  end.

Definition digest_bytes (st : list Z) : list Z :=
  flat_map (fun s => [w8 (Z.shiftr s 24); w8 (Z.shiftr s 16); w8 (Z.shiftr s 8); w8 s]) st.

(* None = the padding loop did not terminate within the fuel (never, see sha_finalize_total) *)
Definition finalize (p : sha) : option (list Z * sha) :=
  let lenInBits := w64 (Z.shiftl (count p) 3) in
  let pos := Z.land (w32 (count p)) 63 in
  let p1 := {| state := state p; count := count p; buffer := upd (Z.to_nat pos) 128 (buffer p) |} in
  match pad_loop 130 p1 (pos + 1) with
  | None => None
  | Some (p2, pos2) =>
      let p3 := WriteByteBlock (len_bytes 8 lenInBits p2 pos2) in
      Some (digest_bytes (state p3), reset p3)
  end.

Definition hash (data : list Z) : option (list Z) :=
  match finalize (update init data) with Some (d, _) => Some d | None => None end.

(* hmac(), on one reused hasher *)
Definition hmac (key msg : list Z) : option (list Z) :=
  let s0 := init in
  let r := if Nat.ltb 64 (length key)
           then match finalize (update s0 key) with
                | Some (d, s1) => Some (d ++ repeat 0 32, s1)
                | None => None
                end
           else Some (key ++ repeat 0 (64 - length key), s0) in
  match r with
  | None => None
  | Some (hashKey, s1) =>
      let oKeyPad := map (fun b => Z.lxor b gen_opad) hashKey in
      let iKeyPad := map (fun b => Z.lxor b gen_ipad) hashKey in
      match finalize (update (update s1 iKeyPad) msg) with
      | None => None
      | Some (h, s2) =>
          match finalize (update (update s2 oKeyPad) h) with
          | None => None
          | Some (res, _) => Some res
          end
      end
  end.

(* ---- the operation interface shared with the harness ----------------------------------- *)
Inductive op := OUpdate (data : list Z) | OFinalize | OReset | OHash (data : list Z) | OHmac (key msg : list Z).
(* observation: result bytes (if any) and, as internal structure, count and state words *)
Definition step (p : sha) (o : op) : sha * option (list Z) :=
  match o with
  | OUpdate d => (update p d, None)
  | OFinalize => match finalize p with Some (d, p') => (p', Some d) | None => (p, None) end
  | OReset => (reset p, None)
  | OHash d => (p, hash d)
  | OHmac k m => (p, hmac k m)
  end.

(* the spec's view of the same operations: the message absorbed so far *)
From Sha Require Import ShaSpec.
Definition spec_step (m : list Z) (o : op) : list Z * option (list Z) :=
  match o with
  | OUpdate d => (m ++ d, None)
  | OFinalize => ([], Some (fips_sha256 m))
  | OReset => ([], None)
  | OHash d => (m, Some (fips_sha256 d))
  | OHmac k d => (m, Some (rfc2104 k d))
  end.
