(* FIPS 180-4 SHA-256 (sections 4.1.2, 4.2.2, 5.1.1, 5.3.3, 6.2) and RFC 2104 HMAC, transcribed
   directly.  Words are Z in [0,2^32); bytes are Z in [0,256).  This file is the SPEC: it is
   what property C17 is stated against and it does not look at the implementation. *)
From Coq Require Import ZArith List Lia.
From Common Require Import Words ListAux.
Import ListNotations.
Local Open Scope Z_scope.

(* 4.2.2 constants *)
Definition fips_K : list Z :=
  [0x428a2f98; 0x71374491; 0xb5c0fbcf; 0xe9b5dba5; 0x3956c25b; 0x59f111f1; 0x923f82a4; 0xab1c5ed5;
   0xd807aa98; 0x12835b01; 0x243185be; 0x550c7dc3; 0x72be5d74; 0x80deb1fe; 0x9bdc06a7; 0xc19bf174;
   0xe49b69c1; 0xefbe4786; 0x0fc19dc6; 0x240ca1cc; 0x2de92c6f; 0x4a7484aa; 0x5cb0a9dc; 0x76f988da;
   0x983e5152; 0xa831c66d; 0xb00327c8; 0xbf597fc7; 0xc6e00bf3; 0xd5a79147; 0x06ca6351; 0x14292967;
   0x27b70a85; 0x2e1b2138; 0x4d2c6dfc; 0x53380d13; 0x650a7354; 0x766a0abb; 0x81c2c92e; 0x92722c85;
   0xa2bfe8a1; 0xa81a664b; 0xc24b8b70; 0xc76c51a3; 0xd192e819; 0xd6990624; 0xf40e3585; 0x106aa070;
   0x19a4c116; 0x1e376c08; 0x2748774c; 0x34b0bcb5; 0x391c0cb3; 0x4ed8aa4a; 0x5b9cca4f; 0x682e6ff3;
   0x748f82ee; 0x78a5636f; 0x84c87814; 0x8cc70208; 0x90befffa; 0xa4506ceb; 0xbef9a3f7; 0xc67178f2].

(* 5.3.3 initial hash value *)
Definition fips_H0 : list Z :=
  [0x6a09e667; 0xbb67ae85; 0x3c6ef372; 0xa54ff53a; 0x510e527f; 0x9b05688c; 0x1f83d9ab; 0x5be0cd19].

(* 4.1.2 functions (on 32-bit words; "not x and z" is written as z and-not x) *)
Definition Ch (x y z : Z) : Z := Z.lxor (Z.land x y) (Z.ldiff z x).
Definition Maj (x y z : Z) : Z := Z.lxor (Z.lxor (Z.land x y) (Z.land x z)) (Z.land y z).
Definition BSig0 (x : Z) : Z := Z.lxor (Z.lxor (rotr32 x 2) (rotr32 x 13)) (rotr32 x 22).
Definition BSig1 (x : Z) : Z := Z.lxor (Z.lxor (rotr32 x 6) (rotr32 x 11)) (rotr32 x 25).
Definition SSig0 (x : Z) : Z := Z.lxor (Z.lxor (rotr32 x 7) (rotr32 x 18)) (shr32 x 3).
Definition SSig1 (x : Z) : Z := Z.lxor (Z.lxor (rotr32 x 17) (rotr32 x 19)) (shr32 x 10).

Definition nthw (l : list Z) (n : nat) : Z := nth n l 0.

(* 6.2.2 step 1: message schedule W_0..W_63 *)
Fixpoint schedule_ext (n : nat) (W : list Z) : list Z :=
  match n with
  | O => W
  | S n' =>
      let t := length W in
      schedule_ext n' (W ++ [add32 (add32 (add32 (SSig1 (nthw W (t - 2))) (nthw W (t - 7)))
                                          (SSig0 (nthw W (t - 15)))) (nthw W (t - 16))])
  end.
Definition schedule (M : list Z) : list Z := schedule_ext 48 (firstn 16 M).

(* 6.2.2 step 3: one round on the working variables [a;b;c;d;e;f;g;h] *)
Definition round (r : list Z) (kw : Z * Z) : list Z :=
  match r with
  | [a; b; c; d; e; f; g; h] =>
      let T1 := add32 (add32 (add32 (add32 h (BSig1 e)) (Ch e f g)) (fst kw)) (snd kw) in
      let T2 := add32 (BSig0 a) (Maj a b c) in
      [add32 T1 T2; a; b; c; add32 d T1; e; f; g]
  | _ => r
  end.

Fixpoint map2 {A B C} (f : A -> B -> C) (l : list A) (m : list B) : list C :=
  match l, m with
  | a :: l', b :: m' => f a b :: map2 f l' m'
  | _, _ => []
  end.

(* 6.2.2 steps 2-4 for one 16-word block *)
Definition compress (H : list Z) (M : list Z) : list Z :=
  map2 add32 H (fold_left round (combine fips_K (schedule M)) H).

(* big-endian bytes *)
Fixpoint be_bytes (n : nat) (x : Z) : list Z :=
  match n with
  | O => []
  | S n' => (x / 256 ^ Z.of_nat n') mod 256 :: be_bytes n' x
  end.
Definition be_word (bs : list Z) : Z := fold_left (fun acc b => acc * 256 + b) bs 0.

(* 5.1.1 padding *)
Definition pad (msg : list Z) : list Z :=
  let l := Z.of_nat (length msg) in
  msg ++ [128] ++ repeat 0 (Z.to_nat ((55 - l) mod 64)) ++ be_bytes 8 (8 * l).

Definition words_of_block (bs : list Z) : list Z := map be_word (chunks 4 bs).

(* 6.2: the digest as 32 bytes *)
Definition fips_sha256 (msg : list Z) : list Z :=
  flat_map (be_bytes 4) (fold_left compress (map words_of_block (chunks 64 (pad msg))) fips_H0).

(* RFC 2104 with B = 64, L = 32, H = SHA-256 *)
Definition rfc_block : nat := 64.
Definition rfc_K0 (key : list Z) : list Z :=
  let k := if Nat.ltb rfc_block (length key) then fips_sha256 key else key in
  k ++ repeat 0 (rfc_block - length k).
Definition rfc2104 (key msg : list Z) : list Z :=
  let k0 := rfc_K0 key in
  fips_sha256 (map (Z.lxor 0x5c) k0 ++ fips_sha256 (map (Z.lxor 0x36) k0 ++ msg)).
