(* finalize: the padding loop terminates within its fuel and produces exactly FIPS 180-4 5.1.1
   padding (one final block when fewer than 56 bytes are buffered, two otherwise); the digest is the
   FIPS digest of the absorbed message and the hasher is left freshly reset. *)
From Coq Require Import ZArith List Lia Arith Bool ZifyBool ZifyNat.
From Common Require Import Words ListAux.
From Sha Require Import Gen_Sha ShaSpec ShaModel ShaProofs ShaRound ShaCompress ShaStream.
Import ListNotations.
Local Open Scope Z_scope.
Ltac Zify.zify_post_hook ::= Z.div_mod_to_equations.

Lemma pad_loop_eq fuel p pos : pad_loop fuel p pos =
  if pos =? 56 then Some (p, pos) else
  match fuel with
  | O => None
  | S f =>
      let pos1 := Z.land pos 63 in
      let p1 := if pos1 =? 0 then WriteByteBlock p else p in
      pad_loop f {| state := state p1; count := count p1; buffer := upd (Z.to_nat pos1) 0 (buffer p1) |} (pos1 + 1)
  end.
Proof. destruct fuel; reflexivity. Qed.

(* zero-fill from position length a (>= 1) up to 56, no block boundary crossed *)
Lemma pad_loop_fill st cnt : forall n a z tl fuel,
  length z = n -> (length a + n = 56)%nat -> (1 <= length a)%nat -> (n <= fuel)%nat ->
  pad_loop fuel {| state := st; count := cnt; buffer := a ++ z ++ tl |} (Z.of_nat (length a))
  = Some ({| state := st; count := cnt; buffer := a ++ repeat 0 n ++ tl |}, 56).
Proof.
  induction n as [|n IH]; intros a z tl fuel Hz Ha H1 Hf; rewrite pad_loop_eq.
  - destruct z; [ | discriminate ]. replace (Z.of_nat (length a) =? 56) with true by lia.
    cbn [repeat app]. f_equal. f_equal. lia.
  - destruct z as [|y z]; [ discriminate | ]. destruct fuel as [|fuel]; [ lia | ].
    replace (Z.of_nat (length a) =? 56) with false by lia.
    cbv zeta. rewrite land63 by lia.
    replace (Z.of_nat (length a) mod 64) with (Z.of_nat (length a)) by lia.
    replace (Z.of_nat (length a) =? 0) with false by lia.
    cbn [state count buffer]. rewrite Nat2Z.id. cbn [app]. rewrite upd_app_at.
    replace (Z.of_nat (length a) + 1) with (Z.of_nat (length (a ++ [0]))) by (rewrite app_length; cbn [length]; lia).
    change (a ++ 0 :: z ++ tl) with (a ++ [0] ++ z ++ tl). rewrite (app_assoc a [0]).
    rewrite IH; [ | cbn [length] in Hz; lia | rewrite app_length; cbn [length]; lia
                  | rewrite app_length; cbn [length]; lia | lia ].
    cbn [repeat]. rewrite <- app_assoc. reflexivity.
Qed.

(* zero-fill from position length a (>= 57) to the end of the block, compress, wrap to position 1 *)
Lemma pad_loop_wrap st cnt : forall n a z f,
  length z = n -> (length a + n = 64)%nat -> (57 <= length a)%nat ->
  pad_loop (n + 1 + f) {| state := st; count := cnt; buffer := a ++ z |} (Z.of_nat (length a))
  = pad_loop f {| state := Transform st (map (word_at (a ++ repeat 0 n)) (seq 0 16)); count := cnt;
                  buffer := upd 0 0 (a ++ repeat 0 n) |} 1.
Proof.
  induction n as [|n IH]; intros a z f Hz Ha H57; rewrite pad_loop_eq.
  - destruct z; [ | discriminate ].
    replace (Z.of_nat (length a)) with 64 by lia. cbn [Nat.add repeat]. reflexivity.
  - destruct z as [|y z]; [ discriminate | ].
    replace (Z.of_nat (length a) =? 56) with false by lia.
    cbn [Nat.add]. cbv zeta. rewrite land63 by lia.
    replace (Z.of_nat (length a) mod 64) with (Z.of_nat (length a)) by lia.
    replace (Z.of_nat (length a) =? 0) with false by lia.
    cbn [state count buffer]. rewrite Nat2Z.id. rewrite upd_app_at.
    replace (Z.of_nat (length a) + 1) with (Z.of_nat (length (a ++ [0]))) by (rewrite app_length; cbn [length]; lia).
    change (a ++ 0 :: z) with (a ++ [0] ++ z). rewrite (app_assoc a [0]).
    rewrite IH; [ | cbn [length] in Hz; lia | rewrite app_length; cbn [length]; lia
                  | rewrite app_length; cbn [length]; lia ].
    cbn [repeat]. rewrite <- app_assoc. reflexivity.
Qed.

(* the eight length bytes *)
Fixpoint mlen (n : nat) (L : Z) : list Z :=
  match n with
  | O => []
  | S n' => w8 (Z.shiftr L 56) :: mlen n' (w64 (Z.shiftl L 8))
  end.

Lemma len_bytes_buf st cnt : forall n L a z, length z = n ->
  len_bytes n L {| state := st; count := cnt; buffer := a ++ z |} (Z.of_nat (length a))
  = {| state := st; count := cnt; buffer := a ++ mlen n L |}.
Proof.
  induction n as [|n IH]; intros L a z Hz.
  - destruct z; [ reflexivity | discriminate ].
  - destruct z as [|y z]; [ discriminate | ]. cbn [len_bytes mlen state count buffer].
    rewrite Nat2Z.id, upd_app_at.
    replace (Z.of_nat (length a) + 1) with (Z.of_nat (length (a ++ [w8 (Z.shiftr L 56)])))
      by (rewrite app_length; cbn [length]; lia).
    change (a ++ w8 (Z.shiftr L 56) :: z) with (a ++ [w8 (Z.shiftr L 56)] ++ z). rewrite app_assoc.
    rewrite IH by (cbn [length] in Hz; lia). rewrite <- app_assoc. reflexivity.
Qed.

Lemma mlen_be L : 0 <= L < 18446744073709551616 -> mlen 8 L = be_bytes 8 L.
Proof.
  intros HL. cbn [mlen be_bytes]. unfold w8, w64.
  rewrite !Z.shiftr_div_pow2, !Z.shiftl_mul_pow2 by lia.
  change (2 ^ 56) with 72057594037927936. change (2 ^ 8) with 256.
  change (256 ^ Z.of_nat 7) with 72057594037927936. change (256 ^ Z.of_nat 6) with 281474976710656.
  change (256 ^ Z.of_nat 5) with 1099511627776. change (256 ^ Z.of_nat 4) with 4294967296.
  change (256 ^ Z.of_nat 3) with 16777216. change (256 ^ Z.of_nat 2) with 65536.
  change (256 ^ Z.of_nat 1) with 256. change (256 ^ Z.of_nat 0) with 1.
  repeat (apply f_equal2; [ lia | ]). reflexivity.
Qed.

Lemma digest_bytes_be st : digest_bytes st = flat_map (be_bytes 4) st.
Proof.
  unfold digest_bytes. apply flat_map_ext. intros s. cbn [be_bytes]. unfold w8.
  rewrite !Z.shiftr_div_pow2 by lia.
  change (256 ^ Z.of_nat 3) with (2 ^ 24). change (256 ^ Z.of_nat 2) with (2 ^ 16).
  change (256 ^ Z.of_nat 1) with (2 ^ 8). change (256 ^ Z.of_nat 0) with 1.
  rewrite Z.div_1_r. reflexivity.
Qed.

Lemma finalize_tail st cnt a56 tl8 L : is8 st -> length a56 = 56%nat -> length tl8 = 8%nat ->
  wf_bytes a56 = true -> 0 <= L < 18446744073709551616 ->
  WriteByteBlock (len_bytes 8 L {| state := st; count := cnt; buffer := a56 ++ tl8 |} (Z.of_nat 56))
  = {| state := compress st (words_of_block (a56 ++ be_bytes 8 L)); count := cnt; buffer := a56 ++ be_bytes 8 L |}.
Proof.
  intros Hst Ha Ht Hwf HL. rewrite <- Ha.
  rewrite (len_bytes_buf st cnt 8 L a56 tl8 Ht), (mlen_be L HL).
  apply WriteByteBlock_compress;
    [ exact Hst | rewrite app_length, be_bytes_length; lia
    | apply wf_bytes_app_iff; split; [ exact Hwf | apply wf_be_bytes ] ].
Qed.

Definition pad_zeros (r : nat) : nat := if (r <=? 55)%nat then (55 - r)%nat else (119 - r)%nat.

Lemma pad_split full rest k : length full = (k * 64)%nat -> (length rest < 64)%nat ->
  pad (full ++ rest)
  = full ++ rest ++ [128] ++ repeat 0 (pad_zeros (length rest))
         ++ be_bytes 8 (8 * Z.of_nat (length (full ++ rest))).
Proof.
  intros Hk Hr. unfold pad. cbv zeta.
  assert (Z.to_nat ((55 - Z.of_nat (length (full ++ rest))) mod 64)
          = pad_zeros (length rest)) as ->.
  { unfold pad_zeros. rewrite app_length, Hk. destruct (Nat.leb_spec (length rest) 55); lia. }
  rewrite <- app_assoc. reflexivity.
Qed.

Lemma Transform_block st blk : is8 st -> length blk = 64%nat -> wf_bytes blk = true ->
  Transform st (map (word_at blk) (seq 0 16)) = compress st (words_of_block blk).
Proof.
  intros Hst Hl Hwf. rewrite (words_of_block_word_at 16 blk) by (assumption || lia).
  apply Transform_compress; [ exact Hst | apply words_of_block_length; exact Hl ].
Qed.

Lemma fips_absorb m : fips_sha256 m = flat_map (be_bytes 4) (absorb_from fips_H0 (pad m)).
Proof. reflexivity. Qed.

(* what finalize computes, without any bound on the length: it always terminates (the padding loop
   needs at most 63 of its 130 units of fuel) and leaves the hasher freshly reset *)

(* ... from ANY internal state: eight state words, any counter value, any 64-byte buffer; `rest` = the first
   (count mod 64) bytes of the buffer.  Nothing here depends on how the state was reached. *)
Lemma finalize_shape_gen p rest : length (buffer p) = 64%nat -> is8 (state p) ->
  Z.land (w32 (count p)) 63 = Z.of_nat (length rest) -> wf_bytes rest = true ->
  firstn (length rest) (buffer p) = rest ->
  exists p', finalize p
             = Some (flat_map (be_bytes 4)
                       (absorb_from (state p)
                          (rest ++ [128] ++ repeat 0 (pad_zeros (length rest))
                                ++ be_bytes 8 (w64 (Z.shiftl (count p) 3)))), p')
             /\ InvS p' [] [].
Proof.
  intros Hb H8 Hpos Hwfr Hf.
  assert (length rest < 64)%nat as Hr.
  { assert (0 <= w32 (count p)) as Hw by (unfold w32; apply Z.mod_pos_bound; lia).
    rewrite (land63 _ Hw) in Hpos. lia. }
  destruct p as [st cnt buf]. cbn [state count buffer] in *.
  destruct (prefix_split buf rest Hf ltac:(lia)) as (y & tb & ->).
  rewrite app_length in Hb. cbn [length] in Hb.
  assert (0 <= w64 (Z.shiftl cnt 3) < 18446744073709551616) as HLr by (unfold w64; apply Z.mod_pos_bound; lia).
  unfold finalize. cbn [state count buffer]. rewrite Hpos, Nat2Z.id, upd_app_at.
  replace (Z.of_nat (length rest) + 1) with (Z.of_nat (length (rest ++ [128]))) by (rewrite app_length; cbn [length]; lia).
  set (L := w64 (Z.shiftl cnt 3)) in *. unfold pad_zeros.
  destruct (Nat.leb_spec (length rest) 55) as [Hle|Hgt].
  - (* fewer than 56 bytes buffered: one final block *)
    set (n := (55 - length rest)%nat).
    assert (length (rest ++ [128%Z]) + n = 56)%nat as Ha by (rewrite app_length; cbn [length]; lia).
    rewrite <- (firstn_skipn n tb).
    change (rest ++ 128 :: firstn n tb ++ skipn n tb) with (rest ++ [128] ++ firstn n tb ++ skipn n tb).
    rewrite (app_assoc rest [128]).
    rewrite (pad_loop_fill st cnt n (rest ++ [128]) (firstn n tb) (skipn n tb) 130);
      [ | rewrite firstn_length; lia | exact Ha | rewrite app_length; cbn [length]; lia | lia ].
    rewrite app_assoc. change 56 with (Z.of_nat 56).
    rewrite finalize_tail;
      [ | exact H8 | rewrite app_length, repeat_length; exact Ha | rewrite skipn_length; lia
        | apply wf_bytes_app_iff; split; [ apply wf_bytes_app_iff; split; [ exact Hwfr | reflexivity ] | apply wf_bytes_repeat0 ]
        | exact HLr ].
    eexists. split.
    + cbn [state]. rewrite digest_bytes_be, <- !app_assoc.
      rewrite <- absorb_from_block; [ reflexivity | ].
      rewrite !app_length, repeat_length, be_bytes_length. cbn [length]. lia.
    + unfold reset. cbn [buffer]. apply InvS_fresh; [ | reflexivity | reflexivity ].
      rewrite !app_length, repeat_length, be_bytes_length. cbn [length]. lia.
  - (* 56..63 bytes buffered: the 0x80 block is compressed, then a block of zeros and the length *)
    set (n := (63 - length rest)%nat).
    assert (length tb = n) as Htb by lia.
    assert (length (rest ++ [128%Z]) + n = 64)%nat as Ha by (rewrite app_length; cbn [length]; lia).
    change (rest ++ 128 :: tb) with (rest ++ [128] ++ tb). rewrite (app_assoc rest [128]).
    replace 130%nat with (n + 1 + (129 - n))%nat by lia.
    rewrite (pad_loop_wrap st cnt n (rest ++ [128]) tb (129 - n) Htb Ha) by (rewrite app_length; cbn [length]; lia).
    remember ((rest ++ [128]) ++ repeat 0 n) as blk1 eqn:Eb1.
    assert (length blk1 = 64%nat) as Hl1 by (rewrite Eb1, app_length, repeat_length; exact Ha).
    assert (wf_bytes blk1 = true) as Hwf1.
    { rewrite Eb1. apply wf_bytes_app_iff; split; [ apply wf_bytes_app_iff; split; [ exact Hwfr | reflexivity ] | apply wf_bytes_repeat0 ]. }
    rewrite (Transform_block st blk1 H8 Hl1 Hwf1).
    assert (upd 0 0 blk1 = [0] ++ firstn 55 (List.tl blk1) ++ skipn 55 (List.tl blk1)) as ->.
    { rewrite firstn_skipn. destruct blk1; [ discriminate Hl1 | reflexivity ]. }
    assert (length (List.tl blk1) = 63%nat) as Hl63 by (destruct blk1; [ discriminate Hl1 | cbn [List.tl length] in *; lia ]).
    change 1 with (Z.of_nat (length [0])).
    rewrite (pad_loop_fill _ cnt 55 [0] (firstn 55 (List.tl blk1)) (skipn 55 (List.tl blk1)) (129 - n));
      [ | rewrite firstn_length; lia | reflexivity | cbn [length]; lia | lia ].
    rewrite app_assoc. change 56 with (Z.of_nat 56).
    rewrite finalize_tail;
      [ | apply compress_is8; exact H8 | reflexivity | rewrite skipn_length; lia | reflexivity | exact HLr ].
    eexists. split.
    + cbn [state]. rewrite digest_bytes_be.
      replace (rest ++ [128] ++ repeat 0 (119 - length rest) ++ be_bytes 8 L)
        with (blk1 ++ ([0] ++ repeat 0 55) ++ be_bytes 8 L).
      * rewrite (absorb_from_app st 1 blk1) by (rewrite Hl1; reflexivity).
        rewrite (absorb_from_block st blk1 Hl1).
        rewrite absorb_from_block; [ reflexivity | ].
        rewrite !app_length, repeat_length, be_bytes_length. reflexivity.
      * rewrite Eb1. replace (119 - length rest)%nat with (n + 56)%nat by lia.
        rewrite repeat_app, <- !app_assoc. reflexivity.
    + unfold reset. cbn [buffer]. apply InvS_fresh; [ | reflexivity | reflexivity ].
      rewrite !app_length, repeat_length, be_bytes_length. reflexivity.
Qed.

Lemma finalize_shape p full rest : InvS p full rest ->
  exists p', finalize p
             = Some (flat_map (be_bytes 4)
                       (absorb_from (state p)
                          (rest ++ [128] ++ repeat 0 (pad_zeros (length rest))
                                ++ be_bytes 8 (w64 (Z.shiftl (count p) 3)))), p')
             /\ InvS p' [] [].
Proof.
  intros HI. pose proof (InvS_pos p full rest HI) as Hpos.
  destruct HI as (Hb & Hc & Hwf & (k & Hk) & Hr & Hst & Hf).
  apply wf_bytes_app_iff in Hwf as [_ Hwfr].
  apply finalize_shape_gen; [ exact Hb | rewrite Hst; apply absorb_is8 | exact Hpos | exact Hwfr | exact Hf ].
Qed.

Lemma finalize_correct p full rest : InvS p full rest -> Z.of_nat (length (full ++ rest)) < 2305843009213693952 ->
  exists p', finalize p = Some (fips_sha256 (full ++ rest), p') /\ InvS p' [] [].
Proof.
  intros HI Hlen. destruct (finalize_shape p full rest HI) as (p' & E & HI').
  exists p'. split; [ | exact HI' ]. rewrite E.
  destruct HI as (Hb & Hc & Hwf & (k & Hk) & Hr & Hst & Hf).
  assert (w64 (Z.shiftl (count p) 3) = 8 * Z.of_nat (length (full ++ rest))) as HL.
  { rewrite Hc, Z.shiftl_mul_pow2 by lia. change (2 ^ 3) with 8. unfold w64. lia. }
  rewrite fips_absorb, (pad_split full rest k Hk Hr), (absorb_from_app fips_H0 k full _ Hk).
  fold (absorb full). rewrite <- Hst, HL. reflexivity.
Qed.

Lemma finalize_total p m : Inv p m -> finalize p <> None.
Proof.
  intros (full & rest & _ & HI). destruct (finalize_shape p full rest HI) as (p' & E & _).
  rewrite E. discriminate.
Qed.

(* ---- on the message-level invariant ---------------------------------------------------------------- *)
Definition max_len : Z := 2305843009213693952. (* 2^61 bytes: beyond, the 64-bit bit counter of the code wraps *)

Lemma finalize_inv p m : Inv p m -> Z.of_nat (length m) < max_len ->
  exists p', finalize p = Some (fips_sha256 m, p') /\ Inv p' [].
Proof.
  intros (full & rest & -> & HI) Hlen.
  destruct (finalize_correct p full rest HI Hlen) as (p' & E & HI').
  exists p'. split; [ exact E | ]. exists [], []. split; [ reflexivity | exact HI' ].
Qed.

Lemma hash_correct d : wf_bytes d = true -> Z.of_nat (length d) < max_len -> hash d = Some (fips_sha256 d).
Proof.
  intros Hwf Hlen. unfold hash.
  destruct (finalize_inv (update init d) d) as (p' & E & _).
  - apply (update_inv init [] d init_inv Hwf).
  - exact Hlen.
  - rewrite E. reflexivity.
Qed.

(* ---- finalize from an arbitrary internal state (what the white-box op `setcount` of the harness exercises) ------- *)
(* For every 8-word state st, every value c of the 64-bit counter and every 64-byte buffer: finalize compresses, starting
   from st, the first (c mod 64) bytes of the buffer followed by 0x80, the FIPS 180-4 5.1.1 zero fill and the eight
   big-endian bytes of (8 c) mod 2^64 - all eight bytes of the length field, for every c - and leaves a fresh hasher. *)
Lemma finalize_any_state st c buf : is8 st -> length buf = 64%nat -> 0 <= c < 18446744073709551616 ->
  wf_bytes (firstn (Z.to_nat (c mod 64)) buf) = true ->
  exists p', finalize {| state := st; count := c; buffer := buf |}
             = Some (flat_map (be_bytes 4)
                       (absorb_from st (firstn (Z.to_nat (c mod 64)) buf ++ [128]
                                          ++ repeat 0 (pad_zeros (Z.to_nat (c mod 64)))
                                          ++ be_bytes 8 ((8 * c) mod 18446744073709551616))), p')
             /\ Inv p' [].
Proof.
  intros H8 Hb Hc Hwf.
  set (r := firstn (Z.to_nat (c mod 64)) buf) in *.
  assert (length r = Z.to_nat (c mod 64)) as Hlr by (unfold r; rewrite firstn_length, Hb; lia).
  destruct (finalize_shape_gen {| state := st; count := c; buffer := buf |} r) as (p' & E & HI).
  - exact Hb.
  - exact H8.
  - cbn [count]. rewrite land63 by (unfold w32; lia). rewrite Hlr. unfold w32. lia.
  - exact Hwf.
  - cbn [buffer]. rewrite Hlr. reflexivity.
  - exists p'. split; [ | exists [], []; split; [ reflexivity | exact HI ] ].
    rewrite E. cbn [state count]. rewrite Hlr.
    replace (w64 (Z.shiftl c 3)) with ((8 * c) mod 18446744073709551616); [ reflexivity | ].
    rewrite Z.shiftl_mul_pow2 by lia. unfold w64. f_equal. lia.
Qed.

(* a hasher that has absorbed full ++ rest (full = whole blocks, rest = the buffered bytes) and whose counter is then
   overwritten with any c that keeps the buffer position: finalize pads `rest` with the bit length 8 c *)
Lemma finalize_after_set_count p full rest c : InvS p full rest -> 0 <= c < 18446744073709551616 ->
  c mod 64 = Z.of_nat (length rest) ->
  exists p', finalize (set_count p c)
             = Some (flat_map (be_bytes 4)
                       (absorb_from (absorb full) (rest ++ [128] ++ repeat 0 (pad_zeros (length rest))
                                                    ++ be_bytes 8 ((8 * c) mod 18446744073709551616))), p')
             /\ Inv p' [].
Proof.
  intros HI Hc Hm. destruct HI as (Hb & _ & Hwf & _ & Hr & Hst & Hf).
  apply wf_bytes_app_iff in Hwf as [_ Hwfr].
  assert (w64 c = c) as Hw by (unfold w64; lia).
  destruct (finalize_shape_gen (set_count p c) rest) as (p' & E & HI).
  - exact Hb.
  - cbn [set_count state]. rewrite Hst. apply absorb_is8.
  - cbn [set_count count]. rewrite Hw, land63 by (unfold w32; lia). unfold w32. lia.
  - exact Hwfr.
  - exact Hf.
  - exists p'. split; [ | exists [], []; split; [ reflexivity | exact HI ] ].
    rewrite E. cbn [set_count state count]. rewrite Hst, Hw.
    replace (w64 (Z.shiftl c 3)) with ((8 * c) mod 18446744073709551616); [ reflexivity | ].
    rewrite Z.shiftl_mul_pow2 by lia. unfold w64. f_equal. lia.
Qed.
