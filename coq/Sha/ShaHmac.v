(* hmac() on one reused hasher = RFC 2104 for every key length, and the refinement theorem:
   every history of operations on the model is observationally equal to the spec. *)
From Coq Require Import ZArith List Lia Arith Bool ZifyBool ZifyNat.
From Common Require Import Words ListAux.
From Sha Require Import Gen_Sha ShaSpec ShaModel ShaProofs ShaRound ShaCompress ShaStream ShaFinal.
Import ListNotations.
Local Open Scope Z_scope.
Ltac Zify.zify_post_hook ::= Z.div_mod_to_equations.

(* ---- shape of a digest --------------------------------------------------------------------------- *)
Lemma fips_sha256_length m : length (fips_sha256 m) = 32%nat.
Proof.
  rewrite fips_absorb.
  destruct (absorb_from_is8 (pad m) fips_H0 H0_is8) as (a & b & c & d & e & f & g & h & ->). reflexivity.
Qed.

Lemma wf_flat_map_be n l : wf_bytes (flat_map (be_bytes n) l) = true.
Proof.
  induction l as [|x l IH]; [ reflexivity | ]. cbn [flat_map].
  apply wf_bytes_app_iff. split; [ apply wf_be_bytes | exact IH ].
Qed.

Lemma wf_fips_sha256 m : wf_bytes (fips_sha256 m) = true.
Proof. unfold fips_sha256. apply wf_flat_map_be. Qed.

(* ---- xor with a pad byte stays a byte ------------------------------------------------------------ *)
Lemma log2_byte b : 0 <= b < 256 -> Z.log2 b < 8.
Proof.
  intros Hb. destruct (Z.eq_dec b 0) as [->|Hne]; [ reflexivity | ].
  apply Z.log2_lt_pow2; lia.
Qed.

Lemma lxor_byte b c : 0 <= b < 256 -> 0 <= c < 256 -> 0 <= Z.lxor b c < 256.
Proof.
  intros Hb Hc. assert (0 <= Z.lxor b c) as H0 by (apply Z.lxor_nonneg; lia).
  split; [ exact H0 | ].
  destruct (Z.eq_dec (Z.lxor b c) 0) as [->|Hne]; [ lia | ].
  change 256 with (2 ^ 8). apply Z.log2_lt_pow2; [ lia | ].
  pose proof (Z.log2_lxor b c ltac:(lia) ltac:(lia)) as Hl.
  pose proof (log2_byte b Hb). pose proof (log2_byte c Hc). lia.
Qed.

Lemma wf_map_lxor c l : 0 <= c < 256 -> wf_bytes l = true -> wf_bytes (map (Z.lxor c) l) = true.
Proof.
  intros Hc. induction l as [|b l IH]; intros Hwf; [ reflexivity | ].
  apply wf_bytes_cons in Hwf as [Hb Hwf]. cbn [map]. apply wf_bytes_cons.
  split; [ apply lxor_byte; assumption | apply IH; exact Hwf ].
Qed.

Lemma ipad_map l : map (fun b => Z.lxor b gen_ipad) l = map (Z.lxor 0x36) l.
Proof. apply map_ext. intros b. rewrite Z.lxor_comm. reflexivity. Qed.
Lemma opad_map l : map (fun b => Z.lxor b gen_opad) l = map (Z.lxor 0x5c) l.
Proof. apply map_ext. intros b. rewrite Z.lxor_comm. reflexivity. Qed.

(* ---- inner and outer pass on a hasher that is in the freshly-reset state ------------------------- *)
Lemma hmac_core s1 k0 msg : Inv s1 [] -> wf_bytes k0 = true -> length k0 = 64%nat ->
  wf_bytes msg = true -> 64 + Z.of_nat (length msg) < max_len ->
  match finalize (update (update s1 (map (fun b => Z.lxor b gen_ipad) k0)) msg) with
  | None => None
  | Some (h, s2) =>
      match finalize (update (update s2 (map (fun b => Z.lxor b gen_opad) k0)) h) with
      | None => None
      | Some (res, _) => Some res
      end
  end
  = Some (fips_sha256 (map (Z.lxor 0x5c) k0 ++ fips_sha256 (map (Z.lxor 0x36) k0 ++ msg))).
Proof.
  intros HI Hwk Hlk Hwm Hlen. rewrite ipad_map, opad_map.
  set (ik := map (Z.lxor 54) k0). set (ok := map (Z.lxor 92) k0).
  assert (wf_bytes ik = true) as Hwi by (apply wf_map_lxor; [ lia | exact Hwk ]).
  assert (wf_bytes ok = true) as Hwo by (apply wf_map_lxor; [ lia | exact Hwk ]).
  assert (length ik = 64%nat) as Hli by (unfold ik; rewrite map_length; exact Hlk).
  assert (length ok = 64%nat) as Hlo by (unfold ok; rewrite map_length; exact Hlk).
  pose proof (update_inv _ _ msg (update_inv s1 [] ik HI Hwi) Hwm) as HI1. cbn [app] in HI1.
  destruct (finalize_inv _ _ HI1) as (s2 & E2 & HI2).
  { rewrite app_length, Hli. lia. }
  rewrite E2.
  pose proof (update_inv _ _ (fips_sha256 (ik ++ msg)) (update_inv s2 [] ok HI2 Hwo) (wf_fips_sha256 _)) as HI3.
  cbn [app] in HI3.
  destruct (finalize_inv _ _ HI3) as (s3 & E3 & _).
  { rewrite app_length, Hlo, fips_sha256_length. unfold max_len. lia. }
  rewrite E3. reflexivity.
Qed.

Lemma hmac_correct key msg : wf_bytes key = true -> wf_bytes msg = true ->
  Z.of_nat (length key) < max_len -> 64 + Z.of_nat (length msg) < max_len ->
  hmac key msg = Some (rfc2104 key msg).
Proof.
  intros Hwk Hwm Hlk Hlm. unfold hmac, rfc2104, rfc_K0, rfc_block. cbv zeta.
  destruct (Nat.ltb_spec 64 (length key)) as [Hlong|Hshort].
  - (* key longer than a block: hashed first, on the same hasher *)
    destruct (finalize_inv (update init key) key) as (s1 & E1 & HI1).
    { apply (update_inv init [] key init_inv Hwk). }
    { exact Hlk. }
    rewrite E1. rewrite fips_sha256_length. change (64 - 32)%nat with 32%nat.
    apply hmac_core; [ exact HI1 | | | exact Hwm | exact Hlm ].
    + apply wf_bytes_app_iff. split; [ apply wf_fips_sha256 | apply wf_bytes_repeat0 ].
    + rewrite app_length, fips_sha256_length, repeat_length. reflexivity.
  - apply hmac_core; [ exact init_inv | | | exact Hwm | exact Hlm ].
    + apply wf_bytes_app_iff. split; [ exact Hwk | apply wf_bytes_repeat0 ].
    + rewrite app_length, repeat_length. lia.
Qed.

(* ---- histories ------------------------------------------------------------------------------------ *)
(* side conditions of an operation when the hasher has absorbed m: bytes are bytes, and whatever gets
   finalized is shorter than 2^61 bytes *)
Definition op_ok (m : list Z) (o : op) : Prop :=
  match o with
  | OUpdate d => wf_bytes d = true
  | OFinalize => Z.of_nat (length m) < max_len
  | OReset => True
  | OHash d => wf_bytes d = true /\ Z.of_nat (length d) < max_len
  | OHmac k d => wf_bytes k = true /\ wf_bytes d = true /\
                 Z.of_nat (length k) < max_len /\ 64 + Z.of_nat (length d) < max_len
  end.

Fixpoint ops_ok (m : list Z) (ops : list op) : Prop :=
  match ops with
  | [] => True
  | o :: t => op_ok m o /\ ops_ok (fst (spec_step m o)) t
  end.

Fixpoint run (p : sha) (ops : list op) : list (option (list Z)) :=
  match ops with
  | [] => []
  | o :: t => snd (step p o) :: run (fst (step p o)) t
  end.

Fixpoint spec_run (m : list Z) (ops : list op) : list (option (list Z)) :=
  match ops with
  | [] => []
  | o :: t => snd (spec_step m o) :: spec_run (fst (spec_step m o)) t
  end.

Lemma step_refines p m o : Inv p m -> op_ok m o ->
  Inv (fst (step p o)) (fst (spec_step m o)) /\ snd (step p o) = snd (spec_step m o).
Proof.
  intros HI Hok. destruct o as [d| | |d|k d]; cbn [step spec_step op_ok] in *.
  - cbn [fst snd]. split; [ apply update_inv; assumption | reflexivity ].
  - destruct (finalize_inv p m HI Hok) as (p' & E & HI'). rewrite E. cbn [fst snd].
    split; [ exact HI' | reflexivity ].
  - cbn [fst snd]. split; [ apply (reset_inv p m HI) | reflexivity ].
  - destruct Hok as [Hwf Hlen]. cbn [fst snd]. split; [ exact HI | apply hash_correct; assumption ].
  - destruct Hok as (Hwk & Hwd & Hlk & Hld). cbn [fst snd].
    split; [ exact HI | apply hmac_correct; assumption ].
Qed.

Lemma run_refines : forall ops p m, Inv p m -> ops_ok m ops -> run p ops = spec_run m ops.
Proof.
  induction ops as [|o ops IH]; intros p m HI Hok; [ reflexivity | ].
  destruct Hok as [Ho Hok]. cbn [run spec_run].
  destruct (step_refines p m o HI Ho) as [HI' Er]. rewrite Er. f_equal.
  apply IH; assumption.
Qed.

(* reachable states satisfy the invariant *)
Lemma run_inv : forall ops p m, Inv p m -> ops_ok m ops ->
  Inv (fold_left (fun p o => fst (step p o)) ops p) (fold_left (fun m o => fst (spec_step m o)) ops m).
Proof.
  induction ops as [|o ops IH]; intros p m HI Hok; [ exact HI | ].
  destruct Hok as [Ho Hok]. cbn [fold_left]. apply IH; [ apply step_refines; assumption | exact Hok ].
Qed.

(* ---- chunking ------------------------------------------------------------------------------------- *)
Lemma updates_inv : forall cs p m, Inv p m -> Forall (fun c => wf_bytes c = true) cs ->
  Inv (fold_left update cs p) (m ++ concat cs).
Proof.
  induction cs as [|c cs IH]; intros p m HI Hwf.
  - cbn [fold_left concat]. rewrite app_nil_r. exact HI.
  - inversion Hwf as [|? ? Hc Hcs]; subst. cbn [fold_left concat]. rewrite app_assoc.
    apply IH; [ apply update_inv; assumption | exact Hcs ].
Qed.

Lemma chunking_irrelevant cs : Forall (fun c => wf_bytes c = true) cs ->
  Z.of_nat (length (concat cs)) < max_len ->
  exists p', finalize (fold_left update cs init) = Some (fips_sha256 (concat cs), p') /\ Inv p' [].
Proof.
  intros Hwf Hlen. apply finalize_inv; [ | exact Hlen ].
  apply (updates_inv cs init [] init_inv Hwf).
Qed.
