From Coq Require Extraction ExtrOcamlBasic.
From Common Require Import Words.
From Sha Require Import ShaSpec ShaModel.
Extraction Language OCaml.
Extraction "model.ml" anchor init step spec_step set_count.
