(* Transform (rolling 16-word window, rotating register file) = FIPS 180-4 compress.
   One symbolic round per (phase j, index i), then induction over the two nested folds. *)
From Coq Require Import ZArith List Lia Arith Setoid Morphisms.
From Common Require Import Words ListAux.
From Sha Require Import Gen_Sha ShaSpec ShaModel.
Import ListNotations.
Local Open Scope Z_scope.

(* ---- bitwise identities between the macros and FIPS 4.1.2 -------------------------------- *)
Lemma mCh_Ch x y z : mCh x y z = Ch x y z.
Proof.
  unfold mCh, Ch. apply Z.bits_inj'. intros n Hn.
  rewrite !Z.lxor_spec, !Z.land_spec, Z.ldiff_spec, Z.lxor_spec.
  destruct (Z.testbit x n), (Z.testbit y n), (Z.testbit z n); reflexivity.
Qed.

Lemma mMaj_Maj x y z : mMaj x y z = Maj x y z.
Proof.
  unfold mMaj, Maj. apply Z.bits_inj'. intros n Hn.
  rewrite !Z.lxor_spec, !Z.lor_spec, !Z.land_spec, Z.lor_spec.
  destruct (Z.testbit x n), (Z.testbit y n), (Z.testbit z n); reflexivity.
Qed.

(* ---- normalising nested add32: congruence modulo 2^32 ------------------------------------ *)
Definition eqm (a b : Z) : Prop := w32 a = w32 b.
#[global] Instance eqm_equiv : Equivalence eqm.
Proof. split; unfold eqm; [intros x | intros x y H | intros x y z H1 H2]; congruence. Qed.
#[global] Instance add_eqm : Proper (eqm ==> eqm ==> eqm) Z.add.
Proof.
  intros a a' Ha b b' Hb. unfold eqm, w32 in *.
  rewrite Zplus_mod, Ha, Hb, <- Zplus_mod. reflexivity.
Qed.
#[global] Instance w32_eqm_proper : Proper (eqm ==> eq) w32.
Proof. intros a b H. exact H. Qed.
Lemma w32_eqm x : eqm (w32 x) x.
Proof. unfold eqm. apply w32_idem. Qed.

Ltac add32_norm :=
  unfold add32;
  match goal with |- w32 ?A = w32 ?B => change (eqm A B) end;
  rewrite ?w32_eqm; unfold eqm; f_equal; ring.

(* ---- the register file and the window as functions of the round index ----------------------- *)
(* register k of the FIPS working variables lives in T[(k - i) & 7] *)
Definition place (i : nat) (r : list Z) : list Z :=
  map (fun p => nth ((p + i) mod 8) r 0) (seq 0 8).

(* window: slots below i already hold this phase's words (fn), the others last phase's (gn) *)
Definition mixf (i : nat) (fn gn : nat -> Z) : list Z :=
  map (fun k => if Nat.ltb k i then fn k else gn k) (seq 0 16).

Definition sel (fn gn : nat -> Z) (i d : nat) : Z :=
  if Nat.leb d i then fn (i - d)%nat else gn (i + 16 - d)%nat.

Ltac list_eq :=
  repeat match goal with
         | |- (_, _) = (_, _) => apply f_equal2
         | |- _ :: _ = _ :: _ => apply f_equal2
         | |- @nil _ = @nil _ => reflexivity
         end.

Ltac crunch :=
  cbv beta iota zeta delta
    [R place mixf sel tix wix upd nthz nth map seq fst snd round
     Nat.eqb Nat.ltb Nat.leb Nat.add Nat.sub Nat.modulo Nat.divmod Nat.mul].
Ltac crunch_in H :=
  cbv beta iota zeta delta
    [R place mixf sel tix wix upd nthz nth map seq fst snd round
     Nat.eqb Nat.ltb Nat.leb Nat.add Nat.sub Nat.modulo Nat.divmod Nat.mul] in H.

Lemma R_step_first : forall i, (i < 16)%nat ->
  forall a b c d e f g h (fn gn : nat -> Z) (data : list Z),
  fn i = nthz data i ->
  R 0 i data (place i [a; b; c; d; e; f; g; h], mixf i fn gn)
  = (place (S i) (round [a; b; c; d; e; f; g; h] (nthz gen_K (i + 0), fn i)), mixf (S i) fn gn).
Proof.
  intros i Hi a b c d e f g h fn gn data Hd.
  do 16 (destruct i as [|i]; [ crunch; crunch_in Hd; rewrite <- Hd;
                               rewrite ?mCh_Ch, ?mMaj_Maj; unfold mS0, mS1, BSig0, BSig1;
                               list_eq; try reflexivity; add32_norm | ]).
  exfalso; lia.
Qed.

Lemma R_step_later : forall j i, j <> O -> (i < 16)%nat ->
  forall a b c d e f g h (fn gn : nat -> Z) (data : list Z),
  fn i = add32 (add32 (add32 (SSig1 (sel fn gn i 2)) (sel fn gn i 7)) (SSig0 (sel fn gn i 15))) (gn i) ->
  R j i data (place i [a; b; c; d; e; f; g; h], mixf i fn gn)
  = (place (S i) (round [a; b; c; d; e; f; g; h] (nthz gen_K (i + j), fn i)), mixf (S i) fn gn).
Proof.
  intros j i Hj Hi a b c d e f g h fn gn data Hd.
  unfold R. replace (Nat.eqb j 0) with false by (symmetry; apply Nat.eqb_neq; exact Hj).
  do 16 (destruct i as [|i]; [ crunch; crunch_in Hd; rewrite Hd;
                               rewrite ?mCh_Ch, ?mMaj_Maj; unfold mS0, mS1, ms0, ms1, BSig0, BSig1, SSig0, SSig1;
                               list_eq; try reflexivity; add32_norm | ]).
  exfalso; lia.
Qed.

(* ---- eight-element register lists ------------------------------------------------------------ *)
Definition is8 (r : list Z) : Prop := exists a b c d e f g h, r = [a; b; c; d; e; f; g; h].

Lemma round_is8 r kw : is8 r -> is8 (round r kw).
Proof. intros (a & b & c & d & e & f & g & h & ->). cbn [round]. repeat eexists. Qed.

Lemma fold_round_is8 l r : is8 r -> is8 (fold_left round l r).
Proof. revert r; induction l as [|x l IH]; intros r H; cbn [fold_left]; auto using round_is8. Qed.

Lemma place_0 r : is8 r -> place 0 r = r.
Proof. intros (a & b & c & d & e & f & g & h & ->). reflexivity. Qed.
Lemma place_16 r : is8 r -> place 16 r = r.
Proof. intros (a & b & c & d & e & f & g & h & ->). reflexivity. Qed.
Lemma mixf_0 f g : mixf 0 f g = map g (seq 0 16).
Proof. reflexivity. Qed.
Lemma mixf_16 f g : mixf 16 f g = map f (seq 0 16).
Proof. reflexivity. Qed.

(* what the window must satisfy at step i of phase j *)
Definition stepok (j i : nat) (fn gn : nat -> Z) (data : list Z) : Prop :=
  match j with
  | O => fn i = nthz data i
  | S _ => fn i = add32 (add32 (add32 (SSig1 (sel fn gn i 2)) (sel fn gn i 7)) (SSig0 (sel fn gn i 15))) (gn i)
  end.

Lemma R_step j i r fn gn data : (i < 16)%nat -> is8 r -> stepok j i fn gn data ->
  R j i data (place i r, mixf i fn gn)
  = (place (S i) (round r (nthz gen_K (i + j), fn i)), mixf (S i) fn gn).
Proof.
  intros Hi (a & b & c & d & e & f & g & h & ->) Hok. destruct j as [|j].
  - apply R_step_first; assumption.
  - apply R_step_later; try assumption. discriminate.
Qed.

Lemma inner_fold j fn gn data : forall n i r, (i + n = 16)%nat -> is8 r ->
  (forall k, (i <= k < 16)%nat -> stepok j k fn gn data) ->
  fold_left (fun st i => R j i data st) (seq i n) (place i r, mixf i fn gn)
  = (place 16 (fold_left round (map (fun k => (nthz gen_K (k + j), fn k)) (seq i n)) r), mixf 16 fn gn).
Proof.
  induction n as [|n IH]; intros i r Hin Hr Hok.
  - replace i with 16%nat by lia. reflexivity.
  - cbn [seq fold_left map]. rewrite R_step; [ | lia | exact Hr | apply Hok; lia ].
    apply IH; [ lia | apply round_is8; exact Hr | intros k Hk; apply Hok; lia ].
Qed.

