(* Property C17 - only statements closed by `exact`, each followed by Print Assumptions, plus
   non-vacuity Examples.

   Clauses of the property  ->  theorems
   "for every message, Sha256 produces the FIPS 180-4 digest no matter how the message is split
    across update() calls"
        digest_any_chunking (any list of chunks), update_any_chunk (the invariant step),
        hash_equals_fips (the static helper), finalize_equals_fips, finalize_terminates (the padding
        loop never exhausts its fuel), transform_equals_fips_compress (one block), tables_match_fips
   "a hasher can be reused after finalize() or reset()"
        finalize_equals_fips / digest_any_chunking (the hasher left behind has absorbed []),
        reset_gives_fresh, history_refines_spec (arbitrary interleavings on one hasher)
   "hmac() produces the RFC 2104 value for every key length and every message"
        hmac_equals_rfc2104
   everything together, for every history of update/finalize/reset/hash/hmac:
        step_refines_spec, history_refines_spec, reachable_states_invariant
   the tie of finalize()'s length field to the code (white-box op `setcount` of the harness; not a clause of the
   property, but what that correspondence means for EVERY counter value and every internal state):
        finalize_from_any_state, finalize_after_set_count, update_finalize_from_any_state
   independent hashers (one per thread, nothing shared; harness op `threads`): under ANY interleaving of the operations
   of n hashers every hasher shows the spec's observations for its own operations
        independent_hashers_refine_spec
   The only side conditions are: bytes are in 0..255 (wf_bytes) and whatever is finalized is shorter
   than max_len = 2^61 bytes (op_ok / ops_ok); Inv p m reads "hasher p has absorbed message m". *)
From Coq Require Import ZArith List.
From Common Require Import Words ListAux.
From Sha Require Import Gen_Sha ShaSpec ShaModel ShaProofs ShaRound ShaCompress ShaStream ShaFinal ShaAnyState ShaHmac ShaThreads.
Import ListNotations.
Local Open Scope Z_scope.

Theorem tables_match_fips : gen_K = fips_K /\ gen_H0 = fips_H0 /\ gen_ipad = 0x36 /\ gen_opad = 0x5c.
Proof. exact (conj gen_K_is_fips (conj gen_H0_is_fips (conj eq_refl eq_refl))). Qed.
Print Assumptions tables_match_fips.

Theorem transform_equals_fips_compress : forall st data, is8 st -> length data = 16%nat ->
  Transform st data = compress st data.
Proof. exact Transform_compress. Qed.
Print Assumptions transform_equals_fips_compress.

Theorem init_is_fresh : Inv init [].
Proof. exact init_inv. Qed.
Print Assumptions init_is_fresh.

Theorem update_any_chunk : forall p m d, Inv p m -> wf_bytes d = true -> Inv (update p d) (m ++ d).
Proof. exact update_inv. Qed.
Print Assumptions update_any_chunk.

Theorem finalize_terminates : forall p m, Inv p m -> finalize p <> None.
Proof. exact finalize_total. Qed.
Print Assumptions finalize_terminates.

Theorem finalize_equals_fips : forall p m, Inv p m -> Z.of_nat (length m) < max_len ->
  exists p', finalize p = Some (fips_sha256 m, p') /\ Inv p' [].
Proof. exact finalize_inv. Qed.
Print Assumptions finalize_equals_fips.

Theorem digest_any_chunking : forall cs, Forall (fun c => wf_bytes c = true) cs ->
  Z.of_nat (length (concat cs)) < max_len ->
  exists p', finalize (fold_left update cs init) = Some (fips_sha256 (concat cs), p') /\ Inv p' [].
Proof. exact chunking_irrelevant. Qed.
Print Assumptions digest_any_chunking.

Theorem reset_gives_fresh : forall p m, Inv p m -> Inv (reset p) [].
Proof. exact reset_inv. Qed.
Print Assumptions reset_gives_fresh.

Theorem hash_equals_fips : forall d, wf_bytes d = true -> Z.of_nat (length d) < max_len ->
  hash d = Some (fips_sha256 d).
Proof. exact hash_correct. Qed.
Print Assumptions hash_equals_fips.

Theorem hmac_equals_rfc2104 : forall key msg, wf_bytes key = true -> wf_bytes msg = true ->
  Z.of_nat (length key) < max_len -> 64 + Z.of_nat (length msg) < max_len ->
  hmac key msg = Some (rfc2104 key msg).
Proof. exact hmac_correct. Qed.
Print Assumptions hmac_equals_rfc2104.

Theorem step_refines_spec : forall p m o, Inv p m -> op_ok m o ->
  Inv (fst (step p o)) (fst (spec_step m o)) /\ snd (step p o) = snd (spec_step m o).
Proof. exact step_refines. Qed.
Print Assumptions step_refines_spec.

Theorem history_refines_spec : forall ops, ops_ok [] ops -> run init ops = spec_run [] ops.
Proof. exact (fun ops => run_refines ops init [] init_inv). Qed.
Print Assumptions history_refines_spec.

Theorem reachable_states_invariant : forall ops, ops_ok [] ops ->
  Inv (fold_left (fun p o => fst (step p o)) ops init) (fold_left (fun m o => fst (spec_step m o)) ops []).
Proof. exact (fun ops => run_inv ops init [] init_inv). Qed.
Print Assumptions reachable_states_invariant.

(* n hashers, each started fresh, driven by an arbitrary schedule (list of (hasher index, operation) - any interleaving
   of what the n owners do): the observations of hasher i are those of the spec for hasher i's own operations, whatever
   the others do in between.  `mine i` selects hasher i's entries of a schedule / of a trace. *)
Theorem independent_hashers_refine_spec : forall n sched i, (i < n)%nat -> ops_ok [] (mine i sched) ->
  mine i (sys_run (repeat init n) sched) = spec_run [] (mine i sched).
Proof. exact independent_hashers. Qed.
Print Assumptions independent_hashers_refine_spec.

(* finalize from ANY internal state (8 state words, any 64-bit counter value c, any 64-byte buffer): the digest is the
   compression chain, from the given state, over the first c mod 64 buffer bytes + 0x80 + the FIPS 5.1.1 zero fill + the
   eight big-endian bytes of 8c mod 2^64.  The correspondence harness sets the private counter of the real class to
   chosen values (2^29 ... 2^64) and compares finalize() with this function: all eight bytes of the length field. *)
Theorem finalize_from_any_state : forall st c buf, is8 st -> length buf = 64%nat -> 0 <= c < 18446744073709551616 ->
  wf_bytes (firstn (Z.to_nat (c mod 64)) buf) = true ->
  exists p', finalize {| state := st; count := c; buffer := buf |}
             = Some (flat_map (be_bytes 4)
                       (absorb_from st (firstn (Z.to_nat (c mod 64)) buf ++ [128]
                                          ++ repeat 0 (pad_zeros (Z.to_nat (c mod 64)))
                                          ++ be_bytes 8 ((8 * c) mod 18446744073709551616))), p')
             /\ Inv p' [].
Proof. exact finalize_any_state. Qed.
Print Assumptions finalize_from_any_state.

(* ... and with one more update() in between (the counter is carried across 2^29, 2^32, ... by the code's own increment):
   from any internal state, update d then finalize = the chain over buffered bytes ++ d ++ padding with 8 (c + |d|) mod 2^64 *)
Theorem update_finalize_from_any_state : forall st c buf d, is8 st -> length buf = 64%nat -> 0 <= c < 18446744073709551616 ->
  wf_bytes (firstn (Z.to_nat (c mod 64)) buf) = true -> wf_bytes d = true ->
  exists p', finalize (update {| state := st; count := c; buffer := buf |} d)
             = Some (flat_map (be_bytes 4)
                       (absorb_from st ((firstn (Z.to_nat (c mod 64)) buf ++ d) ++ [128]
                                          ++ repeat 0 (pad_zeros (length (firstn (Z.to_nat (c mod 64)) buf ++ d) mod 64))
                                          ++ be_bytes 8 ((8 * (c + Z.of_nat (length d))) mod 18446744073709551616))), p')
             /\ Inv p' [].
Proof. exact update_finalize_any_state. Qed.
Print Assumptions update_finalize_from_any_state.

(* the white-box op itself: a hasher that absorbed full ++ rest (whole blocks ++ buffered bytes), counter overwritten by c *)
Theorem finalize_after_set_count : forall p full rest c, InvS p full rest -> 0 <= c < 18446744073709551616 ->
  c mod 64 = Z.of_nat (length rest) ->
  exists p', finalize (set_count p c)
             = Some (flat_map (be_bytes 4)
                       (absorb_from (absorb full) (rest ++ [128] ++ repeat 0 (pad_zeros (length rest))
                                                    ++ be_bytes 8 ((8 * c) mod 18446744073709551616))), p')
             /\ Inv p' [].
Proof. exact ShaFinal.finalize_after_set_count. Qed.
Print Assumptions finalize_after_set_count.

(* ---- non-vacuity and known answers -------------------------------------------------------------- *)
(* the transcription of the standard gives the published values: FIPS 180-2 B.1 "abc" ... *)
Example kat_spec_abc : fips_sha256 [97; 98; 99] =
  [186; 120; 22; 191; 143; 1; 207; 234; 65; 65; 64; 222; 93; 174; 34; 35;
   176; 3; 97; 163; 150; 23; 122; 156; 180; 16; 255; 97; 242; 0; 21; 173].
Proof. vm_compute. reflexivity. Qed.
(* ... RFC 4231 test case 2 (key "Jefe", shorter than a block) ... *)
Example kat_spec_hmac_short_key :
  rfc2104 [74; 101; 102; 101]
    [119; 104; 97; 116; 32; 100; 111; 32; 121; 97; 32; 119; 97; 110; 116; 32; 102; 111; 114; 32; 110; 111; 116; 104; 105; 110; 103; 63] =
  [91; 220; 193; 70; 191; 96; 117; 78; 106; 4; 36; 38; 8; 149; 117; 199;
   90; 0; 63; 8; 157; 39; 57; 131; 157; 236; 88; 185; 100; 236; 56; 67].
Proof. vm_compute. reflexivity. Qed.
(* ... and RFC 4231 test case 6 (131-byte key, longer than a block) *)
Example kat_spec_hmac_long_key :
  rfc2104 (repeat 170 131)
    [84; 101; 115; 116; 32; 85; 115; 105; 110; 103; 32; 76; 97; 114; 103; 101; 114; 32; 84; 104; 97; 110; 32; 66; 108; 111; 99; 107; 45;
     83; 105; 122; 101; 32; 75; 101; 121; 32; 45; 32; 72; 97; 115; 104; 32; 75; 101; 121; 32; 70; 105; 114; 115; 116] =
  [96; 228; 49; 89; 30; 224; 182; 127; 13; 138; 38; 170; 203; 245; 183; 127;
   142; 11; 198; 33; 55; 40; 197; 20; 5; 70; 4; 15; 14; 227; 127; 84].
Proof. vm_compute. reflexivity. Qed.

(* the model computes (not only "is proved equal to") the same values *)
Example kat_model_abc : hash [97; 98; 99] =
  Some [186; 120; 22; 191; 143; 1; 207; 234; 65; 65; 64; 222; 93; 174; 34; 35;
        176; 3; 97; 163; 150; 23; 122; 156; 180; 16; 255; 97; 242; 0; 21; 173].
Proof. vm_compute. reflexivity. Qed.
Example kat_model_hmac_long_key :
  hmac (repeat 170 131)
    [84; 101; 115; 116; 32; 85; 115; 105; 110; 103; 32; 76; 97; 114; 103; 101; 114; 32; 84; 104; 97; 110; 32; 66; 108; 111; 99; 107; 45;
     83; 105; 122; 101; 32; 75; 101; 121; 32; 45; 32; 72; 97; 115; 104; 32; 75; 101; 121; 32; 70; 105; 114; 115; 116] =
  Some [96; 228; 49; 89; 30; 224; 182; 127; 13; 138; 38; 170; 203; 245; 183; 127;
        142; 11; 198; 33; 55; 40; 197; 20; 5; 70; 4; 15; 14; 227; 127; 84].
Proof. vm_compute. reflexivity. Qed.

(* the two key lengths at which hmac() changes branch: exactly one block (used as it is; NIST CSRC
   HMAC-SHA256 example "keylen = blocklen", key 00..3F) and one byte more (hashed first; the expected value
   was computed with python hmac/hashlib), for the transcription and for the model *)
Definition kat_msg_blocklen : list Z :=
  [83; 97; 109; 112; 108; 101; 32; 109; 101; 115; 115; 97; 103; 101; 32; 102; 111; 114; 32; 107; 101; 121; 108; 101; 110; 61; 98; 108; 111; 99; 107; 108; 101; 110].
Example kat_spec_hmac_key64 : rfc2104 (map Z.of_nat (seq 0 64)) kat_msg_blocklen =
  [139; 185; 161; 219; 152; 6; 242; 13; 247; 247; 123; 130; 19; 140; 121; 20;
   209; 116; 213; 158; 19; 220; 77; 1; 105; 201; 5; 123; 19; 62; 29; 98].
Proof. vm_compute. reflexivity. Qed.
Example kat_spec_hmac_key65 : rfc2104 (map Z.of_nat (seq 0 65)) kat_msg_blocklen =
  [88; 144; 221; 124; 50; 90; 89; 198; 242; 91; 247; 45; 242; 85; 74; 114;
   236; 165; 212; 29; 119; 22; 106; 211; 177; 92; 245; 139; 126; 230; 236; 100].
Proof. vm_compute. reflexivity. Qed.
Example kat_model_hmac_key64 : hmac (map Z.of_nat (seq 0 64)) kat_msg_blocklen = Some
  [139; 185; 161; 219; 152; 6; 242; 13; 247; 247; 123; 130; 19; 140; 121; 20;
   209; 116; 213; 158; 19; 220; 77; 1; 105; 201; 5; 123; 19; 62; 29; 98].
Proof. vm_compute. reflexivity. Qed.
Example kat_model_hmac_key65 : hmac (map Z.of_nat (seq 0 65)) kat_msg_blocklen = Some
  [88; 144; 221; 124; 50; 90; 89; 198; 242; 91; 247; 45; 242; 85; 74; 114;
   236; 165; 212; 29; 119; 22; 106; 211; 177; 92; 245; 139; 126; 230; 236; 100].
Proof. vm_compute. reflexivity. Qed.
(* the translator emits the element width of K[] and state[] and refuses entries that do not fit; seen from Coq: *)
Example tables_fit_their_types : gen_K_bits = 32 /\ gen_H0_bits = 32
  /\ forallb (fun v => andb (0 <=? v) (v <? 2 ^ gen_K_bits)) gen_K = true
  /\ forallb (fun v => andb (0 <=? v) (v <? 2 ^ gen_H0_bits)) gen_H0 = true /\ 0 <= gen_ipad < 256 /\ 0 <= gen_opad < 256.
Proof. split; [reflexivity|]. split; [reflexivity|]. split; [vm_compute; reflexivity|]. split; [vm_compute; reflexivity|]. split; split; vm_compute; congruence. Qed.
(* the length field: a hasher whose counter has all of its upper bytes set (reachable only by absorbing 2^56 bytes,
   so not by any test) writes the big-endian bit length into buffer[56..63] *)
Example ex_length_field :
  let p := {| state := gen_H0; count := 0x0123456789abcd; buffer := repeat 0 64 |} in
  skipn 56 (buffer (len_bytes 8 (w64 (Z.shiftl (count p) 3)) p 56)) = [0x00; 0x09; 0x1a; 0x2b; 0x3c; 0x4d; 0x5e; 0x68].
Proof. vm_compute. reflexivity. Qed.

(* finalize from a counter value whose bit length has all eight bytes non-zero (8c = 0x091a2b3c4d5e6e18; "abc" buffered),
   and from one beyond 2^61 with 56 bytes buffered (two padding blocks; 8c mod 2^64 = 0xf6e5d4c3b2a1dfc0): the expected
   digests were computed with an independent pure-python FIPS 180-4 compression function *)
Example kat_model_any_state_abc :
  is8 gen_H0 /\ 0x0123456789abcdc3 mod 64 = 3 /\
  option_map fst (finalize {| state := gen_H0; count := 0x0123456789abcdc3; buffer := [97; 98; 99] ++ repeat 0 61 |}) = Some
  [35; 129; 34; 126; 239; 170; 73; 147; 47; 67; 128; 169; 238; 129; 239; 7;
   131; 204; 148; 191; 86; 26; 99; 168; 173; 200; 159; 170; 108; 91; 196; 115].
Proof. split; [ rewrite gen_H0_is_fips; exact H0_is8 | split; vm_compute; reflexivity ]. Qed.
Example kat_model_any_state_two_blocks :
  option_map fst (finalize (set_count (update init (map Z.of_nat (seq 1 56))) 0xfedcba9876543bf8)) = Some
  [4; 101; 43; 86; 183; 194; 106; 239; 46; 111; 191; 157; 133; 190; 53; 206;
   39; 127; 138; 185; 172; 78; 5; 46; 0; 108; 89; 176; 195; 59; 200; 50]
  /\ InvS (update init (map Z.of_nat (seq 1 56))) [] (map Z.of_nat (seq 1 56)) /\ 0xfedcba9876543bf8 mod 64 = 56.
Proof.
  split; [ vm_compute; reflexivity | split; [ | vm_compute; reflexivity ] ].
  unfold InvS.
  split; [ vm_compute; reflexivity | ]. split; [ vm_compute; reflexivity | ].
  split; [ vm_compute; reflexivity | ]. split; [ exists 0%nat; vm_compute; reflexivity | ].
  split; [ vm_compute; repeat apply le_n_S; apply Nat.le_0_l | ].
  split; vm_compute; reflexivity.
Qed.

(* counter 2^32 - 16 with 48 bytes buffered, then update() with 100 bytes (the counter crosses 2^32, two blocks are
   compressed on the way), then finalize: bit length 0x8000002a0; expected digest from the same python reference *)
Example kat_model_update_across_2_32 :
  option_map fst (finalize (update {| state := gen_H0; count := 4294967280; buffer := map Z.of_nat (seq 1 48) ++ repeat 0 16 |}
                                   (map (fun i => (Z.of_nat i * 3 + 1) mod 256) (seq 0 100)))) = Some
  [174; 243; 118; 73; 99; 186; 164; 11; 56; 250; 179; 171; 92; 13; 158; 9;
   135; 83; 114; 62; 225; 75; 92; 81; 241; 23; 238; 244; 236; 225; 39; 211]
  /\ wf_bytes (map (fun i => (Z.of_nat i * 3 + 1) mod 256) (seq 0 100)) = true /\ 4294967280 mod 64 = 48.
Proof. split; [ | split ]; vm_compute; reflexivity. Qed.

(* the hypotheses are satisfiable on non-trivial objects: eight words; a hasher in the middle of its
   second block (70 bytes absorbed: one block compressed, six bytes buffered) *)
Example ex_is8 : is8 fips_H0 /\ length (words_of_block (repeat 7 64)) = 16%nat.
Proof. split; [ exact H0_is8 | vm_compute; reflexivity ]. Qed.
Example ex_inv_mid_block :
  let m := map (fun i => (Z.of_nat i * 7 + 1) mod 256) (seq 0 70) in
  InvS (update (update init (firstn 33 m)) (skipn 33 m)) (firstn 64 m) (skipn 64 m)
  /\ state (update init m) <> gen_H0 /\ count (update init m) = 70.
Proof.
  cbv zeta. split; [ | split; [ vm_compute; discriminate | vm_compute; reflexivity ] ].
  unfold InvS.
  split; [ vm_compute; reflexivity | ]. split; [ vm_compute; reflexivity | ].
  split; [ vm_compute; reflexivity | ]. split; [ exists 1%nat; vm_compute; reflexivity | ].
  split; [ vm_compute; repeat apply le_n_S; apply Nat.le_0_l | ].
  split; vm_compute; reflexivity.
Qed.
Example ex_chunks : Forall (fun c => wf_bytes c = true) [[97]; []; [98; 99]]
  /\ concat [[97]; []; [98; 99]] = [97; 98; 99]
  /\ Z.of_nat (length (concat [[97]; []; [98; 99]])) < max_len.
Proof. repeat constructor. Qed.
(* a history that reuses one hasher after finalize and after reset, with both kinds of hmac key *)
Example ex_history :
  let ops := [OUpdate [97]; OUpdate [98; 99]; OFinalize; OUpdate [1; 2; 3]; OReset;
              OUpdate (repeat 0 56); OUpdate (repeat 255 9); OFinalize; OFinalize;
              OHash [97; 98; 99]; OHmac [74; 101; 102; 101] [1]; OHmac (repeat 170 65) []] in
  ops_ok [] ops
  /\ map (fun r => match r with Some d => firstn 3 d | None => [] end) (run init ops)
     = [[]; []; [186; 120; 22]; []; []; []; []; [79; 232; 72]; [227; 176; 196]; [186; 120; 22];
        [20; 187; 31]; [52; 152; 142]].
Proof.
  cbv zeta. split; [ | vm_compute; reflexivity ].
  cbn [ops_ok op_ok spec_step fst]. repeat split; vm_compute; reflexivity.
Qed.

(* three hashers interleaved: 0 hashes "abc" in two pieces, 1 hashes 70 bytes across a block boundary, 2 calls hmac; every
   one sees its own result (first three bytes shown), in the order of the schedule *)
Example ex_interleaved :
  let sched := [(0%nat, OUpdate [97]); (1%nat, OUpdate (repeat 0 56)); (2%nat, OHmac [74; 101; 102; 101] [1]); (0%nat, OUpdate [98; 99]);
                (1%nat, OUpdate (repeat 255 9)); (0%nat, OFinalize); (7%nat, OFinalize); (1%nat, OFinalize); (0%nat, OFinalize)] in
  ops_ok [] (mine 0%nat sched) /\ ops_ok [] (mine 1%nat sched) /\ ops_ok [] (mine 2%nat sched)
  /\ map (fun e => (fst e, match snd e with Some d => firstn 3 d | None => [] end)) (sys_run (repeat init 3%nat) sched)
     = [(0%nat, []); (1%nat, []); (2%nat, [20; 187; 31]); (0%nat, []); (1%nat, []); (0%nat, [186; 120; 22]); (7%nat, []); (1%nat, [79; 232; 72]);
        (0%nat, [227; 176; 196])].
Proof.
  cbv zeta. split; [ | split; [ | split ] ]; [ | | | vm_compute; reflexivity ];
    cbn [mine filter map fst snd Nat.eqb ops_ok op_ok spec_step]; repeat split; vm_compute; reflexivity.
Qed.
