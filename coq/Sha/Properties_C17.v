(* Property C17 - only statements closed by `exact`, each followed by Print Assumptions. *)
From Coq Require Import ZArith List.
From Common Require Import Words ListAux.
From Sha Require Import Gen_Sha ShaSpec ShaModel ShaProofs.
Import ListNotations.
Local Open Scope Z_scope.

Theorem tables_match_fips : gen_K = fips_K /\ gen_H0 = fips_H0.
Proof. exact (conj gen_K_is_fips gen_H0_is_fips). Qed.
Print Assumptions tables_match_fips.
