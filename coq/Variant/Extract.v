From Coq Require Extraction ExtrOcamlBasic.
From Common Require Import Words.
From Variant Require Import VariantSpec VariantModel.
Extraction Language OCaml.
Extraction "model.ml" anchor init mstep release_top abs_vars live_blocks spec_init spec_step self_containing
  vtype to_bool to_int to_uint to_i64 to_u64 to_dbl to_str veq depth.
