From Coq Require Extraction ExtrOcamlBasic.
From Common Require Import Words.
From Variant Require Import VariantSpec VariantModel.
Extraction Language OCaml.
Extraction "model.ml" anchor init mstep mrun release_top destroy_all abs_vars abs_top live_blocks spec_init spec_step self_containing
  vtype is_null to_bool to_int to_uint to_i64 to_u64 to_dbl to_str veq depth int_pinned uint_pinned i64_pinned u64_pinned veq_pinned
  m_type m_is_null m_to_bool m_to_int m_to_uint m_to_i64 m_to_u64 m_to_dbl m_to_str meq_top.
