(* C07 - the const observers on the representation (getType, isNull, to*, ==).  VariantModel
   transcribes them from the code (switch on the tag, union member, explicit C conversion, which
   operand of == is converted); here they are PROVED equal to the reference coercions of
   VariantSpec applied to the value the handle denotes.  Nothing is shared by definition: the
   Model does not mention vtype / to_* / eq_scalar_lhs / veq. *)
From Coq Require Import ZArith List Bool Lia Arith.
From Common Require Import Words ListAux.
From Variant Require Import VariantSpec VariantModel VariantProofs VariantHeap VariantRefine VariantStep VariantAbs.
Import ListNotations.
Local Open Scope nat_scope.

Ltac splits := repeat match goal with |- _ /\ _ => split end.

(* what the accessors can see of a value: the type tag, the inline scalar or the String payload;
   the inside of a container is not looked at (abstraction function of the proof, not of the model) *)
Definition shallow (H : heap) (h : handle) : value :=
  match h with
  | HS s => VS s
  | HB b => match lookup H b with
            | Some (PStr s) => VStr s
            | Some (PNode k _ _) => VNode k [] []
            | None => VNull
            end
  end.

Definition strip (v : value) : value := match v with VNode k _ _ => VNode k [] [] | _ => v end.

(* the handle can be read: it is inline, or its block has not been released *)
Definition readable (H : heap) (h : handle) : Prop :=
  match h with HS _ => True | HB b => lookup H b <> None end.

Lemma held_readable H R h : Inv H R -> hheld H R h -> readable H h.
Proof.
  intros I Hd. destruct h as [s|b]; cbn [readable]; auto.
  destruct (held_lookup H R b I Hd) as (blk & _ & _ & LK). congruence.
Qed.

Lemma shallow_strip H R h v : Inv H R -> hheld H R h -> den H v h -> shallow H h = strip v.
Proof.
  intros I Hd D. destruct h as [s|b]; cbn [shallow].
  - apply den_scalar_inv in D. subst v. reflexivity.
  - destruct (held_lookup H R b I Hd) as (blk & E & L & LK). rewrite LK.
    destruct (pl blk) as [s|k ks hs] eqn:P.
    + rewrite (den_str_inv H v b blk s D E P). reflexivity.
    + destruct (den_node_inv H v b blk k ks hs D E P) as (vs & -> & _). reflexivity.
Qed.

Lemma strip_obs v :
  vtype (strip v) = vtype v /\ to_bool (strip v) = to_bool v /\ to_int (strip v) = to_int v /\
  to_uint (strip v) = to_uint v /\ to_i64 (strip v) = to_i64 v /\ to_u64 (strip v) = to_u64 v /\
  to_dbl (strip v) = to_dbl v /\ to_str (strip v) = to_str v /\ is_null (strip v) = is_null v.
Proof. destruct v; cbn; splits; reflexivity. Qed.

(* ---- the C conversions of the Model are the Spec's wrap / range functions ---- *)
Lemma c_int_views z :
  c_int I32 z = sx32 z /\ c_int U32 z = w32 z /\ c_int I64 z = sx64 z /\ c_int U64 z = w64 z.
Proof. splits; reflexivity. Qed.

Lemma c_dbl_int_in_rng t m e : c_dbl_int t (m, e) = in_rng (ity_lo t) (ity_hi t) (dbl_trunc m e).
Proof. reflexivity. Qed.

(* ---- every switch of the accessors computes the Spec's coercion of what it reads ---- *)
Lemma switch_is_coercion H h : readable H h ->
  m_type H h = vtype (shallow H h) /\ m_to_bool H h = to_bool (shallow H h) /\
  m_to_int H h = to_int (shallow H h) /\ m_to_uint H h = to_uint (shallow H h) /\
  m_to_i64 H h = to_i64 (shallow H h) /\ m_to_u64 H h = to_u64 (shallow H h) /\
  m_to_dbl H h = to_dbl (shallow H h) /\ m_to_str H h = to_str (shallow H h) /\
  m_is_null H h = is_null (shallow H h).
Proof.
  intro Rd. destruct h as [s|b].
  - destruct s; splits; reflexivity.
  - cbn [readable] in Rd.
    unfold m_type, m_is_null, m_to_bool, m_to_int, m_to_uint, m_to_i64, m_to_u64, m_to_dbl, m_to_str, m_tag, u_str, shallow.
    destruct (lookup H b) as [[s|k ks hs]|]; [|destruct k|contradiction]; splits; reflexivity.
Qed.

(* getType and every to* accessor: the Spec's function of the denoted value *)
Theorem observers_refine H R h v :
  Inv H R -> hheld H R h -> den H v h ->
  m_type H h = vtype v /\ m_to_bool H h = to_bool v /\ m_to_int H h = to_int v /\
  m_to_uint H h = to_uint v /\ m_to_i64 H h = to_i64 v /\ m_to_u64 H h = to_u64 v /\
  m_to_dbl H h = to_dbl v /\ m_to_str H h = to_str v.
Proof.
  intros I Hd D.
  destruct (switch_is_coercion H h (held_readable H R h I Hd)) as (A & B & C & D1 & E & F & G & S & _).
  rewrite (shallow_strip H R h v I Hd D) in *.
  destruct (strip_obs v) as (A' & B' & C' & D1' & E' & F' & G' & S' & _). splits; congruence.
Qed.

Lemma is_null_refine H R h v : Inv H R -> hheld H R h -> den H v h -> m_is_null H h = is_null v.
Proof.
  intros I Hd D.
  destruct (switch_is_coercion H h (held_readable H R h I Hd)) as (_ & _ & _ & _ & _ & _ & _ & _ & N).
  rewrite (shallow_strip H R h v I Hd D) in N. destruct (strip_obs v) as (_ & _ & _ & _ & _ & _ & _ & _ & N'). congruence.
Qed.

(* ------------------------------------------------------------------------------------------ *)
(* operator== : the transcription refines the Spec's coercing equality                         *)
(* ------------------------------------------------------------------------------------------ *)

(* a scalar on the left: the case of the left operand's tag compares its own member with the RIGHT
   operand converted by the accessor of the left operand's type *)
Lemma meq_scalar_lhs H R f s b vb :
  Inv H R -> hheld H R b -> den H vb b -> meq (S f) H (HS s) b = eq_scalar_lhs s vb.
Proof.
  intros I Hb Db.
  destruct (observers_refine H R b vb I Hb Db) as (_ & B & I32 & U32 & I64 & U64 & Dd & _).
  pose proof (is_null_refine H R b vb I Hb Db) as N.
  destruct s; cbn [meq]; cbn [m_tag u_bool u_dbl u_int u_uint u_i64 u_u64 eq_scalar_lhs];
    rewrite ?N, ?B, ?I32, ?U32, ?I64, ?U64, ?Dd; reflexivity.
Qed.

(* the tag of a handle denoting a value *)
Lemma tag_den H R h v : Inv H R -> hheld H R h -> den H v h -> m_tag H h = vtype v.
Proof. intros I Hd D. exact (proj1 (observers_refine H R h v I Hd D)). Qed.

(* a container on the left, anything but the same kind of container on the right *)
Lemma meq_node_other H f a b k ks hs :
  u_node H a = (ks, hs) -> m_tag H a = kind_code k -> m_tag H b <> kind_code k -> meq (S f) H a b = Some false.
Proof.
  intros U Ta Tb. cbn [meq]. rewrite Ta.
  assert (E : (m_tag H b =? kind_code k)%Z = false) by (apply Z.eqb_neq; exact Tb).
  destruct k; cbn [kind_code] in *; rewrite E; reflexivity.
Qed.


Lemma meq_string_lhs H f a b : m_tag H a = T_string ->
  meq (S f) H a b = if (m_tag H b =? T_string)%Z then Some (bytes_eqb (u_str H a) (u_str H b)) else meq f H b a.
Proof. intro Ta. cbn [meq]. rewrite Ta. reflexivity. Qed.

Lemma u_str_den H b blk s : nth_error H b = Some blk -> rc blk <> 0 -> pl blk = PStr s -> u_str H (HB b) = s.
Proof. intros E L P. cbn [u_str]. rewrite (lookup_live H b blk E L), P. reflexivity. Qed.


Lemma meq_node_same H f a b k ks hs ks' hs' :
  m_tag H a = kind_code k -> m_tag H b = kind_code k -> u_node H a = (ks, hs) -> u_node H b = (ks', hs') ->
  meq (S f) H a b =
  if length hs =? length hs' then
    (fix go (ks ks' : list bytes) (l l' : list handle) {struct l} : option bool :=
       match l, l' with
       | x :: xs, y :: ys =>
           let kd := match ks, ks' with k1 :: _, k2 :: _ => negb (bytes_eqb k1 k2) | _, _ => false end in
           if kd then Some false else
           match meq f H x y with
           | Some true => go (tl ks) (tl ks') xs ys
           | r => r
           end
       | _, _ => Some true
       end) ks ks' hs hs'
  else Some false.
Proof. intros Ta Tb Ua Ub. cbn [meq]. rewrite Ta, Tb, Ua, Ub. destruct k; reflexivity. Qed.

Lemma kind_code_inj k k' : kind_code k = kind_code k' -> k = k'.
Proof. destruct k, k'; cbn; intro E; try reflexivity; discriminate. Qed.

Lemma kind_eqb_eq k k' : kind_eqb k k' = true <-> k = k'.
Proof. destruct k, k'; cbn; split; intro E; try reflexivity; discriminate. Qed.
Theorem meq_refines H R : Inv H R ->
  forall va a b vb f, hheld H R a -> hheld H R b -> den H va a -> den H vb b -> 2 * hdepth H a + 2 <= f ->
    meq f H a b = veq va vb.
Proof.
  intro I. induction va as [s|s|k ks vs IH] using value_ind2; intros a b vb f Ha Hb Da Db L.
  - cbn [den] in Da. subst a. destruct f as [|f]; [lia|]. apply (meq_scalar_lhs H R); auto.
  - pose proof (tag_den H R a (VStr s) I Ha Da) as Ta. pose proof (tag_den H R b vb I Hb Db) as Tb.
    cbn [vtype] in Ta.
    destruct f as [|[|f]]; [lia|lia|]. rewrite (meq_string_lhs H (S f) a b Ta), Tb. cbn [veq].
    destruct vb as [sb|s'|k' ks' vs'].
    + replace (vtype (VS sb) =? T_string)%Z with false by (destruct sb; reflexivity).
      cbn [den] in Db. subst b. apply (meq_scalar_lhs H R); auto.
    + cbn [vtype]. change (10 =? T_string)%Z with true. cbv iota.
      destruct Da as (ba & blk & -> & E & P). destruct Db as (bb & blkb & -> & Eb & Pb).
      destruct (held_lookup H R ba I Ha) as (blk' & E' & L' & _). assert (blk' = blk) by congruence. subst blk'.
      destruct (held_lookup H R bb I Hb) as (blk' & E'' & L'' & _). assert (blk' = blkb) by congruence. subst blk'.
      rewrite (u_str_den H ba blk s E L' P), (u_str_den H bb blkb s' Eb L'' Pb). reflexivity.
    + replace (vtype (VNode k' ks' vs') =? T_string)%Z with false by (destruct k'; reflexivity).
      apply den_node in Db. destruct Db as (bb & blkb & hs' & -> & Eb & Pb & F').
      destruct (held_lookup H R bb I Hb) as (blk' & E'' & L'' & LK). assert (blk' = blkb) by congruence. subst blk'.
      apply (meq_node_other H f (HB bb) a k' ks' hs').
      * cbn [u_node]. rewrite LK, Pb. reflexivity.
      * exact Tb.
      * rewrite Ta. destruct k'; discriminate.
  - pose proof (tag_den H R a (VNode k ks vs) I Ha Da) as Ta. pose proof (tag_den H R b vb I Hb Db) as Tb.
    cbn [vtype] in Ta.
    apply den_node in Da. destruct Da as (ba & blk & hs & -> & E & P & F).
    destruct f as [|f]; [lia|].
    destruct (held_lookup H R ba I Ha) as (blk' & E' & L' & LK). assert (blk' = blk) by congruence. subst blk'.
    assert (Ua : u_node H (HB ba) = (ks, hs)) by (cbn [u_node]; rewrite LK, P; reflexivity).
    cbn [veq].
    destruct vb as [sb|s'|k' ks' vs'].
    + apply (meq_node_other H f (HB ba) b k ks hs Ua Ta). rewrite Tb. destruct sb, k; discriminate.
    + apply (meq_node_other H f (HB ba) b k ks hs Ua Ta). rewrite Tb. destruct k; discriminate.
    + cbn [vtype] in Tb. destruct (kind_eqb k k') eqn:K.
      2:{ apply (meq_node_other H f (HB ba) b k ks hs Ua Ta). rewrite Tb. intro C. apply kind_code_inj in C.
          subst k'. rewrite kind_eqb_refl in K. discriminate. }
      apply kind_eqb_eq in K. subst k'.
      apply den_node in Db. destruct Db as (bb & blkb & hs' & -> & Eb & Pb & F').
      destruct (held_lookup H R bb I Hb) as (blk' & E'' & L'' & LKb). assert (blk' = blkb) by congruence. subst blk'.
      assert (Ub : u_node H (HB bb) = (ks', hs')) by (cbn [u_node]; rewrite LKb, Pb; reflexivity).
      rewrite (meq_node_same H f (HB ba) (HB bb) k ks hs ks' hs' Ta Tb Ua Ub).
      rewrite (Forall2_len _ _ _ F), (Forall2_len _ _ _ F').
      destruct (length hs =? length hs'); auto.
      assert (CH : forall c, In c hs -> hheld H R c /\ 2 * hdepth H c + 2 <= f).
      { intros c J. split.
        - destruct c as [s|c]; cbn [hheld]; auto. right. exists ba, blk. splits; auto. rewrite P. auto.
        - cbn [hdepth] in L. rewrite E in L. destruct I as [W _]. destruct (W ba blk c E) as [_ Q]; [rewrite P; auto|]. lia. }
      assert (CH' : forall c, In c hs' -> hheld H R c).
      { intros c J. destruct c as [s|c]; cbn [hheld]; auto. right. exists bb, blkb. splits; auto. rewrite Pb. auto. }
      clear P Pb E Eb LK LKb L Ua Ub Ta Tb. revert ks ks' vs' hs' F' CH'.
      induction F as [|v c vs hs Dv F IHF]; intros ks ks' vs' hs' F' CH'.
      -- destruct F'; reflexivity.
      -- destruct F' as [|v' c' vs' hs' Dv' F']; [reflexivity|].
         inversion IH as [|? ? IHv IHvs]; subst.
         destruct (match ks, ks' with k1 :: _, k2 :: _ => negb (bytes_eqb k1 k2) | _, _ => false end); auto.
         destruct (CH c (or_introl eq_refl)) as [Hc Lc].
         rewrite (IHv c c' v' f Hc (CH' c' (or_introl eq_refl)) Dv Dv' Lc).
         destruct (veq v v') as [[|]|]; auto.
         apply IHF; auto.
         ++ intros x J. apply CH. right; auto.
         ++ intros x J. apply CH'. right; auto.
Qed.

Theorem meq_top_refines H R a b va vb :
  Inv H R -> In a R -> In b R -> den H va a -> den H vb b -> meq_top H a b = veq va vb.
Proof.
  intros I Ja Jb Da Db. unfold meq_top. eapply meq_refines; eauto; apply hheld_root; auto.
Qed.

