(* C07 - the const observers on the representation (getType, to*, ==) are functions of the value a
   handle denotes, equal to the reference functions of VariantSpec. *)
From Coq Require Import ZArith List Bool Lia Arith.
From Common Require Import Words ListAux.
From Variant Require Import VariantSpec VariantModel VariantProofs VariantHeap VariantRefine VariantStep VariantAbs.
Import ListNotations.
Local Open Scope nat_scope.

Ltac splits := repeat match goal with |- _ /\ _ => split end.

(* what is left of a value when the inside of containers is not looked at *)
Definition strip (v : value) : value := match v with VNode k _ _ => VNode k [] [] | _ => v end.

Lemma shallow_strip H R h v : Inv H R -> hheld H R h -> den H v h -> shallow H h = strip v.
Proof.
  intros I Hd D. destruct h as [s|b]; cbn [shallow].
  - apply den_scalar_inv in D. subst v. reflexivity.
  - destruct (held_lookup H R b I Hd) as (blk & E & L & LK). rewrite LK.
    destruct (pl blk) as [s|k ks hs] eqn:P.
    + rewrite (den_str_inv H v b blk s D E P). reflexivity.
    + destruct (den_node_inv H v b blk k ks hs D E P) as (vs & -> & _). reflexivity.
Qed.

Lemma strip_obs v :
  vtype (strip v) = vtype v /\ to_bool (strip v) = to_bool v /\ to_int (strip v) = to_int v /\
  to_uint (strip v) = to_uint v /\ to_i64 (strip v) = to_i64 v /\ to_u64 (strip v) = to_u64 v /\
  to_dbl (strip v) = to_dbl v /\ to_str (strip v) = to_str v /\ is_null (strip v) = is_null v.
Proof. destruct v; cbn; splits; reflexivity. Qed.

Lemma eq_scalar_strip s v : eq_scalar_lhs s (strip v) = eq_scalar_lhs s v.
Proof.
  destruct (strip_obs v) as (_ & B & I & U & I6 & U6 & Dd & _ & N).
  destruct s; cbn [eq_scalar_lhs]; congruence.
Qed.

(* getType and every to* accessor: a pure function of the denoted value, the Spec's function *)
Theorem observers_refine H R h v :
  Inv H R -> hheld H R h -> den H v h ->
  m_type H h = vtype v /\ m_to_bool H h = to_bool v /\ m_to_int H h = to_int v /\
  m_to_uint H h = to_uint v /\ m_to_i64 H h = to_i64 v /\ m_to_u64 H h = to_u64 v /\
  m_to_dbl H h = to_dbl v /\ m_to_str H h = to_str v.
Proof.
  intros I Hd D. unfold m_type, m_to_bool, m_to_int, m_to_uint, m_to_i64, m_to_u64, m_to_dbl, m_to_str.
  rewrite (shallow_strip H R h v I Hd D).
  destruct (strip_obs v) as (A & B & C & D1 & E & F & G & S & _). splits; auto.
Qed.

(* == on the representation is the Spec's coercing equality of the two denoted values *)
Theorem meq_refines H R : Inv H R ->
  forall va a b vb f, hheld H R a -> hheld H R b -> den H va a -> den H vb b -> hdepth H a < f ->
    meq f H a b = veq va vb.
Proof.
  intro I. induction va as [s|s|k ks vs IH] using value_ind2; intros a b vb f Ha Hb Da Db L.
  - cbn [den] in Da. subst a. destruct f as [|f]; [lia|]. cbn [meq veq].
    rewrite (shallow_strip H R b vb I Hb Db). apply eq_scalar_strip.
  - destruct Da as (ba & blk & -> & E & P). destruct f as [|f]; [lia|]. cbn [meq veq].
    destruct (held_lookup H R ba I Ha) as (blk' & E' & L' & LK). rewrite LK.
    assert (blk' = blk) by congruence. subst blk'. rewrite P.
    rewrite (shallow_strip H R b vb I Hb Db). destruct vb; reflexivity.
  - apply den_node in Da. destruct Da as (ba & blk & hs & -> & E & P & F).
    destruct f as [|f]; [lia|]. cbn [meq veq].
    destruct (held_lookup H R ba I Ha) as (blk' & E' & L' & LK). rewrite LK.
    assert (blk' = blk) by congruence. subst blk'. rewrite P.
    destruct b as [sb|bb].
    + apply den_scalar_inv in Db. subst vb. reflexivity.
    + destruct (held_lookup H R bb I Hb) as (blkb & Eb & Lb & LKb). rewrite LKb.
      destruct (pl blkb) as [s'|k' ks' hs'] eqn:Pb.
      * rewrite (den_str_inv H vb bb blkb s' Db Eb Pb). reflexivity.
      * destruct (den_node_inv H vb bb blkb k' ks' hs' Db Eb Pb) as (vs' & -> & F').
        destruct (kind_eqb k k'); auto.
        rewrite (Forall2_len _ _ _ F), (Forall2_len _ _ _ F').
        destruct (length hs =? length hs'); auto.
        assert (CH : forall c, In c hs -> hheld H R c /\ hdepth H c < f).
        { intros c J. split.
          - destruct c as [s|c]; cbn [hheld]; auto. right. exists ba, blk. splits; auto. rewrite P. auto.
          - cbn [hdepth] in L. rewrite E in L. destruct I as [W _]. destruct (W ba blk c E) as [_ Q]; [rewrite P; auto|]. lia. }
        assert (CH' : forall c, In c hs' -> hheld H R c).
        { intros c J. destruct c as [s|c]; cbn [hheld]; auto. right. exists bb, blkb. splits; auto. rewrite Pb. auto. }
        clear P Pb E Eb LK LKb L Db. revert ks ks' vs' hs' F' CH'.
        induction F as [|v c vs hs Dv F IHF]; intros ks ks' vs' hs' F' CH'.
        -- destruct F'; reflexivity.
        -- destruct F' as [|v' c' vs' hs' Dv' F']; [reflexivity|].
           inversion IH as [|? ? IHv IHvs]; subst.
           destruct (match ks, ks' with k1 :: _, k2 :: _ => negb (bytes_eqb k1 k2) | _, _ => false end); auto.
           destruct (CH c (or_introl eq_refl)) as [Hc Lc].
           rewrite (IHv c c' v' f Hc (CH' c' (or_introl eq_refl)) Dv Dv' Lc).
           destruct (veq v v') as [[|]|]; auto.
           apply IHF; auto.
           ++ intros x J. apply CH. right; auto.
           ++ intros x J. apply CH'. right; auto.
Qed.

Theorem meq_top_refines H R a b va vb :
  Inv H R -> In a R -> In b R -> den H va a -> den H vb b -> meq_top H a b = veq va vb.
Proof.
  intros I Ja Jb Da Db. unfold meq_top. eapply meq_refines; eauto; apply hheld_root; auto.
Qed.
