(* C07 - theorems about the reference object alone (VariantSpec): frame property of every
   operation, "what was assigned is read back", reflexivity of the coercing equality, and laws of
   the coercions (in-range conversions preserve the value, C wrap-around otherwise, decimal
   strings parse back to the integer they print). *)
From Coq Require Import ZArith List Bool Lia Arith ZifyBool ZifyNat.
From Common Require Import Words ListAux.
From Variant Require Import VariantSpec VariantProofs.
Import ListNotations.
Local Open Scope Z_scope.
Ltac Zify.zify_post_hook ::= Z.div_mod_to_equations.

Lemma let_pair {A B C} (x : A * B) (f : A -> B -> C) : (let '(a, b) := x in f a b) = f (fst x) (snd x).
Proof. destruct x; reflexivity. Qed.

Lemma find_child_lt ks n s i : find_child ks n s = Some i -> (i < n)%nat.
Proof.
  destruct s as [j|key]; cbn [find_child].
  - destruct (j <? n)%nat eqn:L; [|discriminate]. intro E. injection E as <-. apply Nat.ltb_lt. auto.
  - destruct (key_index ks key) as [j|]; [|discriminate].
    destruct (j <? n)%nat eqn:L; [|discriminate]. intro E. injection E as <-. apply Nat.ltb_lt. auto.
Qed.

(* ------------------------------------------------------------------------------------------ *)
(* frame: an operation changes only the variable(s) it names                                    *)
(* ------------------------------------------------------------------------------------------ *)

Definition touched (o : op) : list nat :=
  match o with
  | OSwap i j => [i; j]
  | OSetScalar i _ _ | OSetStr i _ _ | OSetNode i _ _ _ | OAssign i _ _ _ | OClear i _
  | OCopyNew i _ | OStrTouch i _ | OStrAppend i _ _ | OCont i _ _ _ _ _
  | OAssignStrFrom i _ _ _ | OAssignNodeFrom i _ _ _ _ => [i]
  end.

Lemma getv_vupd_var_other vs i p f j : j <> i -> getv (fst (vupd_var vs i p f)) j = getv vs j.
Proof.
  intro N. unfold vupd_var, getv. destruct (vupd p f (nth i vs VNull)) as [v ok]. cbn [fst].
  apply nth_upd_other. auto.
Qed.

Lemma vupd_var_length vs i p f : length (fst (vupd_var vs i p f)) = length vs.
Proof. unfold vupd_var. destruct (vupd p f (getv vs i)). cbn [fst]. apply upd_length. Qed.

Theorem spec_frame vs o j : ~ In j (touched o) -> getv (fst (spec_step vs o)) j = getv vs j.
Proof.
  destruct o as [i p sc|i p b|i p k items|i p j0 sp|i p|i j0|i j0|i p|i p b|i p k c j0 sp|i p j0 sp|i p j0 sp k];
    cbn [touched In]; intro N; unfold spec_step.
  - destruct (i <? length vs)%nat; auto. rewrite let_pair. cbn [fst]. apply getv_vupd_var_other. lia.
  - destruct (i <? length vs)%nat; auto. rewrite let_pair. cbn [fst]. apply getv_vupd_var_other. lia.
  - destruct ((i <? length vs)%nat && forallb (fun it => (snd it <? length vs)%nat) items); auto.
    rewrite let_pair, let_pair. cbn [fst]. apply getv_vupd_var_other. lia.
  - destruct ((i <? length vs)%nat && (j0 <? length vs)%nat); auto.
    rewrite let_pair. destruct (snd (vupd_var vs i p (fun v => v))).
    + destruct (vread sp _); cbn [fst]; rewrite ?getv_vupd_var_other by lia; auto.
    + cbn [fst]. apply getv_vupd_var_other. lia.
  - destruct (i <? length vs)%nat; auto. rewrite let_pair. cbn [fst]. apply getv_vupd_var_other. lia.
  - destruct ((i <? length vs)%nat && (j0 <? length vs)%nat); auto. cbn [fst]. unfold getv.
    rewrite !nth_upd_other by lia. reflexivity.
  - destruct ((i <? length vs)%nat && (j0 <? length vs)%nat && negb (i =? j0)%nat); auto. cbn [fst]. unfold getv.
    rewrite nth_upd_other by lia. reflexivity.
  - destruct (i <? length vs)%nat; auto. rewrite let_pair. cbn [fst]. apply getv_vupd_var_other. lia.
  - destruct (i <? length vs)%nat; auto. rewrite let_pair. cbn [fst]. apply getv_vupd_var_other. lia.
  - destruct ((i <? length vs)%nat && (j0 <? length vs)%nat); auto.
    rewrite let_pair. destruct (snd (vupd_var vs i p (vcont k CTouch VNull))).
    + destruct c; try destruct (vread sp _); cbn [fst]; rewrite ?getv_vupd_var_other by lia; auto.
    + cbn [fst]. apply getv_vupd_var_other. lia.
  - destruct ((i <? length vs)%nat && (j0 <? length vs)%nat); auto.
    destruct (vread sp (getv vs j0)) as [[| b |]|]; auto.
    rewrite let_pair. destruct (snd (vupd_var vs i p (fun v => v))); cbn [fst]; rewrite ?getv_vupd_var_other by lia; auto.
  - destruct ((i <? length vs)%nat && (j0 <? length vs)%nat); auto.
    rewrite let_pair. destruct (snd (vupd_var vs i p (fun v => v))).
    + destruct (vread sp _); [rewrite let_pair|]; cbn [fst]; rewrite ?getv_vupd_var_other by lia; auto.
    + cbn [fst]. apply getv_vupd_var_other. lia.
Qed.

Theorem spec_step_length vs o : length (fst (spec_step vs o)) = length vs.
Proof.
  destruct o as [i p sc|i p b|i p k items|i p j0 sp|i p|i j0|i j0|i p|i p b|i p k c j0 sp|i p j0 sp|i p j0 sp k]; unfold spec_step.
  - destruct (i <? length vs)%nat; auto. rewrite let_pair. cbn [fst]. apply vupd_var_length.
  - destruct (i <? length vs)%nat; auto. rewrite let_pair. cbn [fst]. apply vupd_var_length.
  - destruct ((i <? length vs)%nat && forallb (fun it => (snd it <? length vs)%nat) items); auto.
    rewrite let_pair, let_pair. cbn [fst]. apply vupd_var_length.
  - destruct ((i <? length vs)%nat && (j0 <? length vs)%nat); auto.
    rewrite let_pair. destruct (snd (vupd_var vs i p (fun v => v))).
    + destruct (vread sp _); cbn [fst]; rewrite ?vupd_var_length; auto.
    + cbn [fst]. apply vupd_var_length.
  - destruct (i <? length vs)%nat; auto. rewrite let_pair. cbn [fst]. apply vupd_var_length.
  - destruct ((i <? length vs)%nat && (j0 <? length vs)%nat); auto. cbn [fst]. rewrite !upd_length. auto.
  - destruct ((i <? length vs)%nat && (j0 <? length vs)%nat && negb (i =? j0)%nat); auto. cbn [fst]. apply upd_length.
  - destruct (i <? length vs)%nat; auto. rewrite let_pair. cbn [fst]. apply vupd_var_length.
  - destruct (i <? length vs)%nat; auto. rewrite let_pair. cbn [fst]. apply vupd_var_length.
  - destruct ((i <? length vs)%nat && (j0 <? length vs)%nat); auto.
    rewrite let_pair. destruct (snd (vupd_var vs i p (vcont k CTouch VNull))).
    + destruct c; try destruct (vread sp _); cbn [fst]; rewrite ?vupd_var_length; auto.
    + cbn [fst]. apply vupd_var_length.
  - destruct ((i <? length vs)%nat && (j0 <? length vs)%nat); auto.
    destruct (vread sp (getv vs j0)) as [[| b |]|]; auto.
    rewrite let_pair. destruct (snd (vupd_var vs i p (fun v => v))); cbn [fst]; rewrite ?vupd_var_length; auto.
  - destruct ((i <? length vs)%nat && (j0 <? length vs)%nat); auto.
    rewrite let_pair. destruct (snd (vupd_var vs i p (fun v => v))).
    + destruct (vread sp _); [rewrite let_pair|]; cbn [fst]; rewrite ?vupd_var_length; auto.
    + cbn [fst]. apply vupd_var_length.
Qed.

(* ------------------------------------------------------------------------------------------ *)
(* what was written at a path is read back there                                                *)
(* ------------------------------------------------------------------------------------------ *)

Lemma vread_vupd f : forall p v, snd (vupd p f v) = true ->
  exists v0, vread p v = Some v0 /\ vread p (fst (vupd p f v)) = Some (f v0).
Proof.
  induction p as [|[k s] p' IH]; intros v OK; cbn [vupd vread] in *.
  - exists v. auto.
  - destruct (vopen k v) as [ks vs] eqn:V.
    destruct (find_child ks (length vs) s) as [i|] eqn:FC; [|discriminate].
    pose proof (find_child_lt _ _ _ _ FC) as Li.
    specialize (IH (nth i vs VNull)).
    destruct (vupd p' f (nth i vs VNull)) as [c ok] eqn:U. cbn [fst snd] in *.
    destruct (IH OK) as (v0 & R0 & R1). exists v0. split; auto.
    cbn [vopen]. rewrite kind_eqb_refl, upd_length, FC. rewrite nth_upd_same by auto. exact R1.
Qed.

Lemma vupd_var_readback vs i p f :
  (i < length vs)%nat -> snd (vupd_var vs i p f) = true ->
  exists v0, vread p (getv vs i) = Some v0 /\ vread p (getv (fst (vupd_var vs i p f)) i) = Some (f v0).
Proof.
  unfold vupd_var, getv. intros Li OK.
  pose proof (vread_vupd f p (nth i vs VNull)) as A.
  destruct (vupd p f (nth i vs VNull)) as [v1 ok1]. cbn [fst snd] in *.
  rewrite nth_upd_same by auto. auto.
Qed.

(* a mutable navigation whose leaf leaves the node it reaches as it is changes no value *)
Lemma upd_nth_same {A} (l : list A) d : forall i, upd i (nth i l d) l = l.
Proof. induction l as [|h t IH]; intros [|i]; cbn; auto. f_equal. apply IH. Qed.

Lemma vopen_node k v ks vs i : vopen k v = (ks, vs) -> (i < length vs)%nat -> v = VNode k ks vs.
Proof.
  destruct v as [s|s|k' ks' vs']; cbn [vopen]; intros V L; try (injection V as <- <-; cbn in L; lia).
  destruct (kind_eqb k k') eqn:K; [|injection V as <- <-; cbn in L; lia].
  injection V as <- <-. destruct k, k'; try discriminate; reflexivity.
Qed.

Lemma vupd_fix f : forall p v x, vread p v = Some x -> f x = x -> vupd p f v = (v, true).
Proof.
  induction p as [|[k s] p' IH]; intros v x R FX; cbn [vread vupd] in *.
  - injection R as ->. rewrite FX. reflexivity.
  - destruct (vopen k v) as [ks vs] eqn:V.
    destruct (find_child ks (length vs) s) as [i|] eqn:FC; [|discriminate].
    pose proof (find_child_lt _ _ _ _ FC) as Li.
    rewrite (IH _ _ R FX). rewrite upd_nth_same. rewrite (vopen_node k v ks vs i V Li). reflexivity.
Qed.

Lemma vupd_var_fix f vs j p x : vread p (getv vs j) = Some x -> f x = x -> vupd_var vs j p f = (vs, true).
Proof.
  intros R FX. unfold vupd_var. rewrite (vupd_fix f p _ x R FX). unfold getv. rewrite upd_nth_same. reflexivity.
Qed.


(* whether a path resolves does not depend on what is done at its end *)
Lemma vupd_snd f g : forall p v, snd (vupd p f v) = snd (vupd p g v).
Proof.
  induction p as [|[k s] p' IH]; intros v; cbn [vupd]; auto.
  destruct (vopen k v) as [ks vs]. destruct (find_child ks (length vs) s) as [i|]; auto.
  specialize (IH (nth i vs VNull)).
  destruct (vupd p' f (nth i vs VNull)) as [c1 o1]. destruct (vupd p' g (nth i vs VNull)) as [c2 o2]. exact IH.
Qed.

Lemma vupd_var_snd f g vs i p : snd (vupd_var vs i p f) = snd (vupd_var vs i p g).
Proof.
  unfold vupd_var. pose proof (vupd_snd f g p (getv vs i)) as Q.
  destruct (vupd p f (getv vs i)) as [a1 o1]. destruct (vupd p g (getv vs i)) as [a2 o2]. exact Q.
Qed.

(* the navigation of the destination alone (identity at the end) changes no value when it resolves *)
Lemma vupd_var_id_ok vs i p : snd (vupd_var vs i p (fun v => v)) = true -> fst (vupd_var vs i p (fun v => v)) = vs.
Proof.
  intro OK. unfold vupd_var in *.
  pose proof (vread_vupd (fun v => v) p (getv vs i)) as RV.
  destruct (vupd p (fun v => v) (getv vs i)) as [v1 ok1] eqn:U. cbn [fst snd] in *.
  destruct (RV OK) as (v0 & R0 & _).
  pose proof (vupd_fix (fun v => v) p (getv vs i) v0 R0 eq_refl) as Q. rewrite U in Q. injection Q as -> _.
  unfold getv. apply upd_nth_same.
Qed.

(* the value an assignment-like operation stores at (variable, path), read in the state before it *)
Definition assigned_value (vs : list value) (o : op) : option (nat * path * value) :=
  match o with
  | OSetScalar i p sc => Some (i, p, VS sc)
  | OSetStr i p b => Some (i, p, VStr b)
  | OClear i p => Some (i, p, VNull)
  | OSetNode i p k items =>
      let '(ks, xs) := vbuild k (map (fun it => (fst it, getv vs (snd it))) items) [] [] in Some (i, p, VNode k ks xs)
  | OAssign i p j sp => option_map (fun x => (i, p, x)) (vread sp (getv vs j))
  | OAssignStrFrom i p j sp => match vread sp (getv vs j) with Some (VStr b) => Some (i, p, VStr b) | _ => None end
  | OAssignNodeFrom i p j sp k =>
      option_map (fun x => let '(ks, xs) := vopen k x in (i, p, VNode k ks xs)) (vread sp (getv vs j))
  | _ => None
  end.

Theorem reports_last_assigned vs o i p x :
  assigned_value vs o = Some (i, p, x) -> snd (spec_step vs o) = Done ->
  vread p (getv (fst (spec_step vs o)) i) = Some x.
Proof.
  assert (RB : forall vs0 f, (i < length vs0)%nat -> snd (vupd_var vs0 i p f) = true ->
                 forall v0, (forall v, f v = v0) -> vread p (getv (fst (vupd_var vs0 i p f)) i) = Some v0).
  { intros vs0 f Li S v0 FV. destruct (vupd_var_readback vs0 i p f Li S) as (v1 & _ & R). rewrite R, FV. reflexivity. }
  destruct o as [i' p' sc|i' p' b|i' p' k items|i' p' j sp|i' p'| | | | | |i' p' j sp|i' p' j sp k]; cbn [assigned_value]; intro E; try discriminate.
  - injection E as -> -> <-. unfold spec_step.
    destruct (i <? length vs)%nat eqn:Li; [|cbn [snd]; discriminate]. apply Nat.ltb_lt in Li.
    rewrite let_pair. cbn [fst snd]. intro OK.
    destruct (snd (vupd_var vs i p (fun _ => VS sc))) eqn:S; [|discriminate]. apply RB; auto.
  - injection E as -> -> <-. unfold spec_step.
    destruct (i <? length vs)%nat eqn:Li; [|cbn [snd]; discriminate]. apply Nat.ltb_lt in Li.
    rewrite let_pair. cbn [fst snd]. intro OK.
    destruct (snd (vupd_var vs i p (fun _ => VStr b))) eqn:S; [|discriminate]. apply RB; auto.
  - rewrite let_pair in E. injection E as -> -> <-. unfold spec_step.
    destruct ((i <? length vs)%nat && forallb (fun it => (snd it <? length vs)%nat) items) eqn:C; [|cbn [snd]; discriminate].
    apply andb_true_iff in C. destruct C as [Li _]. apply Nat.ltb_lt in Li.
    rewrite let_pair, let_pair. cbn [fst snd]. intro OK.
    match goal with |- vread _ (getv (fst (vupd_var _ _ _ ?f)) _) = _ => destruct (snd (vupd_var vs i p f)) eqn:S; [|discriminate] end.
    apply RB; auto.
  - destruct (vread sp (getv vs j)) as [x0|] eqn:R; [|discriminate]. cbn [option_map] in E. injection E as -> -> <-.
    unfold spec_step.
    destruct ((i <? length vs)%nat && (j <? length vs)%nat) eqn:C; [|cbn [snd]; discriminate].
    apply andb_true_iff in C. destruct C as [Li _]. apply Nat.ltb_lt in Li.
    rewrite let_pair. destruct (snd (vupd_var vs i p (fun v => v))) eqn:S; [|cbn [snd]; discriminate].
    rewrite (vupd_var_id_ok vs i p S), R. cbn [fst snd]. intros _.
    apply RB; auto. rewrite (vupd_var_snd _ (fun v => v)). exact S.
  - injection E as -> -> <-. unfold spec_step.
    destruct (i <? length vs)%nat eqn:Li; [|cbn [snd]; discriminate]. apply Nat.ltb_lt in Li.
    rewrite let_pair. cbn [fst snd]. intro OK.
    destruct (snd (vupd_var vs i p (fun _ => VNull))) eqn:S; [|discriminate]. apply RB; auto.
  - destruct (vread sp (getv vs j)) as [[|b|]|] eqn:R; try discriminate. injection E as -> -> <-.
    unfold spec_step.
    destruct ((i <? length vs)%nat && (j <? length vs)%nat) eqn:C; [|cbn [snd]; discriminate].
    apply andb_true_iff in C. destruct C as [Li _]. apply Nat.ltb_lt in Li.
    rewrite R, let_pair. destruct (snd (vupd_var vs i p (fun v => v))) eqn:S; [|cbn [snd]; discriminate].
    rewrite (vupd_var_id_ok vs i p S). cbn [fst snd]. intros _.
    apply RB; auto. rewrite (vupd_var_snd _ (fun v => v)). exact S.
  - destruct (vread sp (getv vs j)) as [x0|] eqn:R; [|discriminate]. cbn [option_map] in E.
    rewrite let_pair in E. injection E as -> -> <-.
    unfold spec_step.
    destruct ((i <? length vs)%nat && (j <? length vs)%nat) eqn:C; [|cbn [snd]; discriminate].
    apply andb_true_iff in C. destruct C as [Li _]. apply Nat.ltb_lt in Li.
    rewrite let_pair. destruct (snd (vupd_var vs i p (fun v => v))) eqn:S; [|cbn [snd]; discriminate].
    rewrite (vupd_var_id_ok vs i p S), R, let_pair. cbn [fst snd]. intros _.
    apply RB; auto. rewrite (vupd_var_snd _ (fun v => v)). exact S.
Qed.

Theorem copy_reports_source vs i j :
  snd (spec_step vs (OCopyNew i j)) = Done ->
  getv (fst (spec_step vs (OCopyNew i j))) i = getv vs j /\ getv (fst (spec_step vs (OCopyNew i j))) j = getv vs j.
Proof.
  unfold spec_step.
  destruct ((i <? length vs)%nat && (j <? length vs)%nat && negb (i =? j)%nat) eqn:C; [|cbn [snd]; discriminate].
  apply andb_true_iff in C. destruct C as [C NE]. apply andb_true_iff in C. destruct C as [Li Lj].
  apply Nat.ltb_lt in Li. apply negb_true_iff in NE. apply Nat.eqb_neq in NE.
  intros _. cbn [fst]. unfold getv. split; [apply nth_upd_same; auto|apply nth_upd_other; auto].
Qed.

Theorem assign_reports_source vs i j :
  snd (spec_step vs (OAssign i [] j [])) = Done ->
  getv (fst (spec_step vs (OAssign i [] j []))) i = getv vs j /\
  getv (fst (spec_step vs (OAssign i [] j []))) j = getv vs j.
Proof.
  unfold spec_step.
  destruct ((i <? length vs)%nat && (j <? length vs)%nat) eqn:C; [|cbn [snd]; discriminate].
  apply andb_true_iff in C. destruct C as [Li Lj]. apply Nat.ltb_lt in Li. apply Nat.ltb_lt in Lj.
  intros _. unfold vupd_var. cbn [vupd vread fst snd]. unfold getv.
  assert (Q : upd i (nth i vs VNull) vs = vs).
  { clear. revert i. induction vs as [|h t IH]; intros [|i]; cbn; auto. f_equal. apply IH. }
  rewrite Q. cbn [fst]. split.
  - apply nth_upd_same; auto.
  - destruct (Nat.eq_dec i j) as [->|N]; [apply nth_upd_same; auto|apply nth_upd_other; auto].
Qed.

(* ------------------------------------------------------------------------------------------ *)
(* a Variant compares equal to every copy of itself                                             *)
(* ------------------------------------------------------------------------------------------ *)

Theorem veq_refl : forall v, veq v v = Some true.
Proof.
  induction v as [s|s|k ks vs IH] using value_ind2.
  - destruct s; cbn; rewrite ?Z.eqb_refl, ?Bool.eqb_reflx; auto.
    unfold dbl_eqb. cbn. rewrite !Z.eqb_refl. reflexivity.
  - cbn. rewrite bytes_eqb_refl. reflexivity.
  - cbn [veq]. rewrite kind_eqb_refl, Nat.eqb_refl.
    revert ks. induction IH as [|v vs Hv _ IHvs]; intro ks; auto.
    assert (K : match ks with k1 :: _ => negb (bytes_eqb k1 k1) | [] => false end = false).
    { destruct ks; auto. rewrite bytes_eqb_refl. reflexivity. }
    destruct ks as [|k1 kt]; [|cbn [negb] in K; rewrite K]; rewrite Hv; apply IHvs.
Qed.

(* ------------------------------------------------------------------------------------------ *)
(* coercion laws                                                                                *)
(* ------------------------------------------------------------------------------------------ *)

(* null converts to false / 0 / 0.0 / "" *)
Theorem null_coercions :
  to_bool VNull = false /\ to_int VNull = Some 0 /\ to_uint VNull = Some 0 /\ to_i64 VNull = Some 0 /\
  to_u64 VNull = Some 0 /\ to_dbl VNull = (0, 0) /\ to_str VNull = [] /\ vtype VNull = 0.
Proof. repeat split. Qed.

(* the mathematical integer an integral / bool / null alternative holds *)
Definition int_value (s : scalar) : option Z :=
  match s with
  | SNull => Some 0 | SBool b => Some (b2z b)
  | SInt z | SUInt z | SI64 z | SU64 z => Some z
  | SDbl _ _ => None
  end.

(* a stored value is in the range of its own alternative *)
Definition scalar_wf (s : scalar) : Prop :=
  match s with
  | SInt z => -2147483648 <= z < 2147483648
  | SUInt z => 0 <= z < 4294967296
  | SI64 z => -9223372036854775808 <= z < 9223372036854775808
  | SU64 z => 0 <= z < 18446744073709551616
  | _ => True
  end.

(* conversions between the integral alternatives: value preserved whenever it fits the target *)
Theorem integral_conversion_preserves_value s z :
  int_value s = Some z ->
  (-2147483648 <= z < 2147483648 -> to_int (VS s) = Some z) /\
  (0 <= z < 4294967296 -> to_uint (VS s) = Some z) /\
  (-9223372036854775808 <= z < 9223372036854775808 -> to_i64 (VS s) = Some z) /\
  (0 <= z < 18446744073709551616 -> to_u64 (VS s) = Some z) /\
  to_bool (VS s) = negb (z =? 0).
Proof.
  destruct s as [|b|m e|x|x|x|x]; cbn [int_value]; intro E; try discriminate; injection E as <-;
    cbn [to_int to_uint to_i64 to_u64 to_bool]; unfold sx32, sx64, w32, w64;
    repeat split; intros; try (destruct b; reflexivity); try reflexivity;
    repeat match goal with |- context [if ?c then _ else _] => destruct c eqn:? end; f_equal; lia.
Qed.

(* ... and C's modular wrap-around otherwise *)
Theorem integral_conversion_wraps s z :
  int_value s = Some z -> scalar_wf s ->
  (exists r, to_int (VS s) = Some r /\ -2147483648 <= r < 2147483648 /\ (r - z) mod 4294967296 = 0) /\
  (exists r, to_uint (VS s) = Some r /\ 0 <= r < 4294967296 /\ (r - z) mod 4294967296 = 0) /\
  (exists r, to_i64 (VS s) = Some r /\ -9223372036854775808 <= r < 9223372036854775808 /\ (r - z) mod 18446744073709551616 = 0) /\
  (exists r, to_u64 (VS s) = Some r /\ 0 <= r < 18446744073709551616 /\ (r - z) mod 18446744073709551616 = 0).
Proof.
  destruct s as [|b|m e|x|x|x|x]; cbn [int_value scalar_wf]; intros E W; try discriminate; injection E as <-;
    cbn [to_int to_uint to_i64 to_u64]; unfold sx32, sx64, w32, w64;
    repeat split; eexists; (split; [reflexivity|]); try (destruct b; cbn; lia);
    repeat match goal with |- context [if ?c then _ else _] => destruct c eqn:? end; lia.
Qed.

(* integers convert to doubles exactly (|z| < 2^53) *)
Lemma pos_ctz_spec p : let '(r, k) := pos_ctz p in Zpos p = Zpos r * 2 ^ k /\ 0 <= k.
Proof.
  induction p as [p IH|p IH|]; cbn [pos_ctz]; try (split; lia).
  destruct (pos_ctz p) as [r k]. destruct IH as [E K]. split; [|lia].
  rewrite Z.pow_add_r by lia. rewrite Pos2Z.inj_xO, E. change (2 ^ 1) with 2. ring.
Qed.

Lemma dnorm_value m e : 0 <= e -> let '(m', e') := dnorm m e in m' * 2 ^ e' = m * 2 ^ e /\ 0 <= e'.
Proof.
  intro N. destruct m as [|p|p]; cbn [dnorm].
  - split; [reflexivity|lia].
  - pose proof (pos_ctz_spec p) as S. destruct (pos_ctz p) as [r k]. destruct S as [E K]. split; [|lia].
    rewrite Z.pow_add_r by lia. rewrite E. ring.
  - pose proof (pos_ctz_spec p) as S. destruct (pos_ctz p) as [r k]. destruct S as [E K]. split; [|lia].
    rewrite Z.pow_add_r by lia. rewrite <- !Pos2Z.opp_pos, E. ring.
Qed.

Theorem int_to_double_exact s z :
  (s = SInt z \/ s = SUInt z) -> let '(m, e) := to_dbl (VS s) in m * 2 ^ e = z /\ 0 <= e.
Proof.
  intros [-> | ->]; cbn [to_dbl]; pose proof (dnorm_value z 0 ltac:(lia)) as D; destruct (dnorm z 0) as [m e];
    rewrite Z.pow_0_r, Z.mul_1_r in D; exact D.
Qed.

Theorem int_double_int z :
  -2147483648 <= z < 2147483648 -> let '(m, e) := to_dbl (VS (SInt z)) in to_int (VS (SDbl m e)) = Some z.
Proof.
  intro R. pose proof (int_to_double_exact (SInt z) z (or_introl eq_refl)) as D.
  destruct (to_dbl (VS (SInt z))) as [m e]. destruct D as [V E]. cbn [to_int]. unfold dbl_trunc.
  destruct (e >=? 0) eqn:G; [|lia]. rewrite V. unfold in_rng.
  destruct ((-2147483648 <=? z) && (z <? 2147483648)) eqn:Q; auto. lia.
Qed.

(* ---- decimal strings: printing an integer and parsing it back ---- *)

Fixpoint dval (a : Z) (l : bytes) : Z := match l with [] => a | c :: t => dval (a * 10 + (c - 48)) t end.

Lemma digits_fuel_val f : forall n acc, 0 <= n < 10 ^ Z.of_nat f -> dval 0 (digits_fuel f n acc) = dval n acc.
Proof.
  induction f as [|f IH]; intros n acc R.
  - cbn in R. assert (n = 0) by lia. subst n. reflexivity.
  - cbn [digits_fuel]. destruct (n <? 10) eqn:L.
    + cbn [dval]. f_equal. lia.
    + rewrite Nat2Z.inj_succ, Z.pow_succ_r in R by lia.
      rewrite IH by lia. cbn [dval]. f_equal. lia.
Qed.

Definition digitb (c : Z) : Prop := is_digit c = true.

Lemma digitb_range c : digitb c <-> 48 <= c <= 57.
Proof. unfold digitb, is_digit. lia. Qed.

Lemma digits_fuel_digits f : forall n acc, 0 <= n -> Forall digitb acc -> Forall digitb (digits_fuel f n acc).
Proof.
  induction f as [|f IH]; intros n acc N A; cbn [digits_fuel]; auto.
  destruct (n <? 10) eqn:L.
  - constructor; auto. apply digitb_range. lia.
  - apply IH; [lia|]. constructor; auto. apply digitb_range. lia.
Qed.

Lemma digits_fuel_nonempty f : forall n acc, (acc <> [] \/ f <> O) -> digits_fuel f n acc <> [].
Proof.
  induction f as [|f IH]; intros n acc [A|A]; cbn [digits_fuel]; auto; try congruence.
  - destruct (n <? 10); [discriminate|]. apply IH. left. discriminate.
  - destruct (n <? 10); [discriminate|]. apply IH. left. discriminate.
Qed.

Lemma take_digits_all l : Forall digitb l -> forall acc c, take_digits l acc c = (dval acc l, (c + length l)%nat, []).
Proof.
  induction 1 as [|x t Dx _ IH]; intros acc c; cbn [take_digits dval length].
  - rewrite Nat.add_0_r. reflexivity.
  - unfold digitb in Dx. rewrite Dx, IH. rewrite Nat.add_succ_r. reflexivity.
Qed.

Lemma cstr_digits l : Forall digitb l -> cstr l = l.
Proof.
  induction 1 as [|x t Dx _ IH]; cbn [cstr]; auto. apply digitb_range in Dx.
  destruct (x =? 0) eqn:Z; [lia|]. rewrite IH. reflexivity.
Qed.

Lemma pow10_log2 n : 0 <= n -> n < 10 ^ Z.of_nat (S (Z.to_nat (Z.log2 n))).
Proof.
  intro N. rewrite Nat2Z.inj_succ, Z2Nat.id by apply Z.log2_nonneg.
  destruct (Z.eq_dec n 0) as [->|NZ]; [cbn; lia|].
  pose proof (Z.log2_spec n ltac:(lia)) as [_ U].
  pose proof (Z.log2_nonneg n) as P.
  eapply Z.lt_le_trans; [exact U|]. apply Z.pow_le_mono_l. lia.
Qed.

Lemma dec_nonneg_props n : 0 <= n ->
  Forall digitb (dec_nonneg n) /\ dec_nonneg n <> [] /\ dval 0 (dec_nonneg n) = n.
Proof.
  intro N. unfold dec_nonneg. split; [|split].
  - apply digits_fuel_digits; auto.
  - apply digits_fuel_nonempty. right. discriminate.
  - rewrite digits_fuel_val; [reflexivity|]. split; auto. apply pow10_log2; auto.
Qed.

Lemma parse_int_digits l : Forall digitb l -> l <> [] -> parse_int l = (false, dval 0 l) /\ parse_int (45 :: l) = (true, dval 0 l).
Proof.
  intros D NE. unfold parse_int. cbn [cstr]. rewrite (cstr_digits l D).
  destruct l as [|c t]; [congruence|]. inversion D as [|? ? Dc Dt]; subst. apply digitb_range in Dc.
  change (45 =? 0) with false. cbn [skip_ws]. change (is_space 45) with false. cbn [take_sign]. change (45 =? 45) with true.
  assert (SP : is_space c = false) by (unfold is_space; lia). rewrite SP. cbn [take_sign].
  assert (S1 : (c =? 45) = false) by lia. assert (S2 : (c =? 43) = false) by lia. rewrite S1, S2.
  rewrite (take_digits_all (c :: t) D). split; reflexivity.
Qed.

Theorem strtol_dec_Z z : -9223372036854775808 <= z <= 9223372036854775807 -> strtol (dec_Z z) = z.
Proof.
  intro R. unfold strtol, dec_Z. destruct (z <? 0) eqn:N.
  - destruct (dec_nonneg_props (- z) ltac:(lia)) as (D & NE & V).
    destruct (parse_int_digits _ D NE) as [_ P]. rewrite P, V. lia.
  - destruct (dec_nonneg_props z ltac:(lia)) as (D & NE & V).
    destruct (parse_int_digits _ D NE) as [P _]. rewrite P, V. lia.
Qed.

Theorem strtoul_dec_Z z : 0 <= z <= 18446744073709551615 -> strtoul (dec_Z z) = z.
Proof.
  intro R. unfold strtoul, dec_Z. destruct (z <? 0) eqn:N; [lia|].
  destruct (dec_nonneg_props z ltac:(lia)) as (D & NE & V).
  destruct (parse_int_digits _ D NE) as [P _]. rewrite P, V.
  destruct (z >? 18446744073709551615) eqn:G; [lia|reflexivity].
Qed.

(* every integral alternative survives the trip through its decimal string *)
Theorem decimal_string_roundtrip s z :
  int_value s = Some z -> scalar_wf s -> s <> SNull -> (forall b, s <> SBool b) ->
  let str := VStr (to_str (VS s)) in
  (-2147483648 <= z < 2147483648 -> to_int str = Some z) /\
  (0 <= z < 4294967296 -> to_uint str = Some z) /\
  (-9223372036854775808 <= z < 9223372036854775808 -> to_i64 str = Some z) /\
  (0 <= z < 18446744073709551616 -> to_u64 str = Some z).
Proof.
  destruct s as [|b|m e|x|x|x|x]; cbn [int_value scalar_wf]; intros E W N1 N2; try discriminate; try congruence;
    try (exfalso; eapply N2; reflexivity); injection E as <-; cbn [to_str to_int to_uint to_i64 to_u64];
    repeat split; intro R; f_equal;
    rewrite ?strtol_dec_Z, ?strtoul_dec_Z by lia; unfold sx32, w32;
    repeat match goal with |- context [if ?c then _ else _] => destruct c eqn:? end; lia.
Qed.

(* an integer Variant compares equal to the Variant holding its decimal string, both ways round *)
Theorem int_equals_its_decimal_string z :
  -2147483648 <= z < 2147483648 ->
  veq (VS (SInt z)) (VStr (dec_Z z)) = Some true /\ veq (VStr (dec_Z z)) (VS (SInt z)) = Some true.
Proof.
  intro R. cbn [veq eq_scalar_lhs to_int option_map]. rewrite strtol_dec_Z by lia.
  assert (Q : sx32 z = z).
  { unfold sx32, w32. repeat match goal with |- context [if ?c then _ else _] => destruct c eqn:? end; lia. }
  rewrite Q, Z.eqb_refl. auto.
Qed.

(* ---- 64-bit integers below 2^53 convert to doubles exactly ---- *)
Lemma pos_ctz_odd p : Z.odd (Zpos (fst (pos_ctz p))) = true.
Proof.
  induction p as [p IH|p IH|]; cbn [pos_ctz]; try reflexivity.
  destruct (pos_ctz p) as [r k]. exact IH.
Qed.

Lemma odd_times_pow r c n j : Z.odd r = true -> 0 <= c -> 0 <= j -> r * 2 ^ c = n * 2 ^ j -> j <= c /\ n = r * 2 ^ (c - j).
Proof.
  intros O C J E.
  destruct (Z_lt_le_dec c j) as [L|L].
  - exfalso. replace j with (c + (j - c)) in E by lia. rewrite Z.pow_add_r in E by lia.
    assert (P : 0 < 2 ^ c) by (apply Z.pow_pos_nonneg; lia).
    assert (E2 : r = n * 2 ^ (j - c)) by nia.
    replace (j - c) with (1 + (j - c - 1)) in E2 by lia. rewrite Z.pow_add_r in E2 by lia. change (2 ^ 1) with 2 in E2.
    rewrite E2 in O. rewrite Z.odd_mul, Z.odd_mul in O. cbn in O. rewrite andb_false_r in O. discriminate.
  - split; auto. replace c with (j + (c - j)) in E by lia. rewrite Z.pow_add_r in E by lia.
    assert (P : 0 < 2 ^ j) by (apply Z.pow_pos_nonneg; lia). nia.
Qed.

(* dnorm of a dyadic m * 2^k with k <= 0 that is an integer n: the result is an exact integer representation *)
Lemma dnorm_integer m k n : k <= 0 -> m = n * 2 ^ (- k) -> let '(m', e') := dnorm m k in 0 <= e' /\ m' * 2 ^ e' = n.
Proof.
  intros K E. destruct m as [|p|p]; cbn [dnorm].
  - split; [lia|]. assert (P : 0 < 2 ^ (- k)) by (apply Z.pow_pos_nonneg; lia).
    symmetry in E. apply Z.mul_eq_0 in E. destruct E as [E|E]; lia.
  - pose proof (pos_ctz_spec p) as S. pose proof (pos_ctz_odd p) as O. destruct (pos_ctz p) as [r c]. destruct S as [V C]. cbn [fst] in O.
    rewrite V in E. destruct (odd_times_pow (Zpos r) c n (- k) O C ltac:(lia) E) as [J N].
    split; [lia|]. rewrite N. f_equal. f_equal. lia.
  - pose proof (pos_ctz_spec p) as S. pose proof (pos_ctz_odd p) as O. destruct (pos_ctz p) as [r c]. destruct S as [V C]. cbn [fst] in O.
    assert (E' : Zpos r * 2 ^ c = (- n) * 2 ^ (- k)) by (rewrite <- V; lia).
    destruct (odd_times_pow (Zpos r) c (- n) (- k) O C ltac:(lia) E') as [J N].
    split; [lia|]. replace (k + c) with (c - - k) by lia. lia.
Qed.

Lemma ratio_to_dbl_small n : 0 < n < 2 ^ 53 ->
  let '(m, k) := ratio_to_dbl n 1 in k <= 0 /\ m = n * 2 ^ (- k).
Proof.
  intro R. unfold ratio_to_dbl. destruct (n =? 0) eqn:Z; [lia|].
  change (Z.log2 1) with 0.
  pose proof (Z.log2_spec n ltac:(lia)) as [LO HI].
  assert (L52 : Z.log2 n <= 52).
  { destruct (Z_le_gt_dec (Z.log2 n) 52); auto. exfalso.
    assert (2 ^ 53 <= 2 ^ Z.log2 n) by (apply Z.pow_le_mono_r; lia). lia. }
  pose proof (Z.log2_nonneg n) as L0.
  set (k0 := Z.log2 n - 0 - 53). assert (K0 : k0 < 0) by (unfold k0; lia).
  destruct (k0 >=? 0) eqn:G; [lia|].
  rewrite Z.div_1_r.
  assert (Q : 2 ^ 53 <= n * 2 ^ (- k0)).
  { replace (2 ^ 53) with (2 ^ Z.log2 n * 2 ^ (- k0)).
    - apply Z.mul_le_mono_nonneg_r; auto. apply Z.pow_nonneg; lia.
    - rewrite <- Z.pow_add_r by lia. f_equal. unfold k0. lia. }
  destruct (n * 2 ^ (- k0) <? 2 ^ 53) eqn:Q2; [lia|].
  destruct (k0 + 1 >=? 0) eqn:G2.
  - assert (k0 + 1 = 0) by lia. split; [lia|]. replace (k0 + 1) with 0 by lia. cbn [Z.opp]. rewrite Z.pow_0_r, Z.mul_1_r.
    unfold div_rne. rewrite Z.div_1_r, Z.mod_1_r. cbn. lia.
  - split; [lia|]. unfold div_rne. rewrite Z.div_1_r, Z.mod_1_r. cbn. lia.
Qed.

Theorem int64_to_double_exact s z :
  (s = SI64 z \/ s = SU64 z) -> - 2 ^ 53 < z < 2 ^ 53 -> let '(m, e) := to_dbl (VS s) in m * 2 ^ e = z /\ 0 <= e.
Proof.
  intros S R. assert (T : to_dbl (VS s) = dbl_of_Z z) by (destruct S as [-> | ->]; reflexivity). rewrite T. clear T S.
  unfold dbl_of_Z. destruct (Z.eq_dec z 0) as [->|NZ]; [cbn; lia|].
  pose proof (ratio_to_dbl_small (Z.abs z) ltac:(lia)) as P.
  destruct (ratio_to_dbl (Z.abs z) 1) as [m k]. destruct P as [K M].
  destruct (z <? 0) eqn:N.
  - pose proof (dnorm_integer (- m) k z K ltac:(lia)) as D. destruct (dnorm (- m) k) as [m' e']. lia.
  - pose proof (dnorm_integer m k z K ltac:(lia)) as D. destruct (dnorm m k) as [m' e']. lia.
Qed.

(* ------------------------------------------------------------------------------------------ *)
(* what the text pins (round 5): VariantSpec.str_fits / veq_pinned                              *)
(* ------------------------------------------------------------------------------------------ *)

Lemma keys_eqb_refl ks : keys_eqb ks ks = true.
Proof. induction ks as [|k t IH]; cbn; auto. rewrite bytes_eqb_refl. exact IH. Qed.

Lemma keys_permuted_refl ks : keys_permuted ks ks = false.
Proof. unfold keys_permuted. rewrite keys_eqb_refl. reflexivity. Qed.

(* the comparison of a value with (a copy of) itself is inside what the text decides, and the answer is "equal" *)
Theorem veq_pinned_refl : forall v, veq_pinned v v = true.
Proof.
  induction v as [s|s|k ks vs IH] using value_ind2.
  - destruct s; reflexivity.
  - reflexivity.
  - cbn [veq_pinned]. rewrite kind_eqb_refl, Nat.eqb_refl, keys_permuted_refl, keys_eqb_refl. cbn [andb negb].
    induction IH as [|v vs Hv _ IHvs]; auto.
    rewrite Hv, veq_refl. exact IHvs.
Qed.

(* a conversion is left open only for a string whose decimal value the target type cannot hold *)
Theorem str_fits_false lo hi v :
  str_fits lo hi v = false -> exists s, v = VStr s /\ (str_value s < lo \/ hi <= str_value s).
Proof.
  destruct v as [sc|s|k ks vs]; cbn [str_fits]; try discriminate.
  intro E. exists s. split; [reflexivity|]. lia.
Qed.

Lemma str_value_dec_Z z : str_value (dec_Z z) = z.
Proof.
  unfold str_value, dec_Z. destruct (z <? 0) eqn:N.
  - destruct (dec_nonneg_props (- z) ltac:(lia)) as (D & NE & V).
    destruct (parse_int_digits _ D NE) as [_ P]. rewrite P, V. lia.
  - destruct (dec_nonneg_props z ltac:(lia)) as (D & NE & V).
    destruct (parse_int_digits _ D NE) as [P _]. rewrite P, V. reflexivity.
Qed.

(* the decimal text of an integer the target type can hold is inside what the text decides *)
Theorem str_fits_dec_Z lo hi z : lo <= z < hi -> str_fits lo hi (VStr (dec_Z z)) = true.
Proof. intro R. cbn [str_fits]. rewrite str_value_dec_Z. lia. Qed.

(* scalar against scalar, string against string, and an integer against its own decimal text are decided *)
Theorem veq_pinned_scalars s1 s2 : veq_pinned (VS s1) (VS s2) = true.
Proof. destruct s1; reflexivity. Qed.

Theorem veq_pinned_strings a b : veq_pinned (VStr a) (VStr b) = true.
Proof. reflexivity. Qed.

Theorem veq_pinned_int_decimal z :
  -2147483648 <= z < 2147483648 ->
  veq_pinned (VS (SInt z)) (VStr (dec_Z z)) = true /\ veq_pinned (VStr (dec_Z z)) (VS (SInt z)) = true.
Proof.
  intro R. cbn [veq_pinned eq_scalar_pinned]. unfold int_pinned. rewrite (str_fits_dec_Z _ _ z R). split; reflexivity.
Qed.

(* two maps with the same key set in another insertion order: the text is silent (the reference veq, like the code,
   answers "different" at the first position whose keys differ) *)
Theorem veq_pinned_permuted_maps k ks vs ks' vs' :
  length vs = length vs' -> keys_permuted ks ks' = true ->
  veq_pinned (VNode k ks vs) (VNode k ks' vs') = false.
Proof.
  intros L P. cbn [veq_pinned]. rewrite kind_eqb_refl, L, Nat.eqb_refl, P. reflexivity.
Qed.

Theorem text_decides_equality_with_a_copy v : veq_pinned v v = true /\ veq v v = Some true.
Proof. split; [apply veq_pinned_refl | apply veq_refl]. Qed.

Theorem text_decides_plain_comparisons :
  (forall s1 s2, veq_pinned (VS s1) (VS s2) = true) /\
  (forall a b, veq_pinned (VStr a) (VStr b) = true) /\
  (forall z, -2147483648 <= z < 2147483648 ->
     veq_pinned (VS (SInt z)) (VStr (dec_Z z)) = true /\ veq_pinned (VStr (dec_Z z)) (VS (SInt z)) = true).
Proof. split; [exact veq_pinned_scalars | split; [exact veq_pinned_strings | exact veq_pinned_int_decimal]]. Qed.
