(* C07 - from "denotes" to the model's own observation function [abs] (which follows only live
   blocks and uses the ghost depth as fuel), and the theorems about whole histories. *)
From Coq Require Import ZArith List Bool Lia Arith.
From Common Require Import Words ListAux.
From Variant Require Import VariantSpec VariantModel VariantProofs VariantHeap VariantRefine VariantStep.
Import ListNotations.
Local Open Scope nat_scope.

Ltac splits := repeat match goal with |- _ /\ _ => split end.

Fixpoint mapM {A B} (g : A -> option B) (l : list A) : option (list B) :=
  match l with
  | [] => Some []
  | x :: t => match g x, mapM g t with Some v, Some vs => Some (v :: vs) | _, _ => None end
  end.

Lemma abs_unfold f H b :
  abs (S f) H (HB b) =
  match lookup H b with
  | None => None
  | Some (PStr s) => Some (VStr s)
  | Some (PNode k ks hs) => match mapM (abs f H) hs with Some vs => Some (VNode k ks vs) | None => None end
  end.
Proof.
  cbn [abs]. destruct (lookup H b) as [[s|k ks hs]|]; auto.
  assert (G : forall l, (fix go (l : list handle) : option (list value) :=
                           match l with
                           | [] => Some []
                           | x :: t => match abs f H x, go t with
                                       | Some v, Some vs => Some (v :: vs)
                                       | _, _ => None
                                       end
                           end) l = mapM (abs f H) l).
  { induction l as [|x t IH]; cbn [mapM]; auto. rewrite IH. reflexivity. }
  rewrite G. reflexivity.
Qed.

Lemma lookup_Some H b p : lookup H b = Some p -> exists blk, nth_error H b = Some blk /\ rc blk <> 0 /\ pl blk = p.
Proof.
  unfold lookup. destruct (nth_error H b) as [blk|]; [|discriminate].
  destruct (rc blk =? 0) eqn:Z; [discriminate|]. intro E. injection E as <-. apply Nat.eqb_neq in Z. eauto.
Qed.

Lemma mapM_Forall2 {A B} (g : A -> option B) (P : B -> A -> Prop) l vs :
  (forall x v, In x l -> g x = Some v -> P v x) -> mapM g l = Some vs -> Forall2 P vs l.
Proof.
  revert vs; induction l as [|x t IH]; intros vs Q E; cbn [mapM] in E.
  - injection E as <-. constructor.
  - destruct (g x) as [v|] eqn:G; [|discriminate]. destruct (mapM g t) as [vs'|] eqn:M; [|discriminate].
    injection E as <-. constructor.
    + apply Q; auto. left; auto.
    + apply IH; auto. intros y w J. apply Q. right; auto.
Qed.

(* soundness: what abs computes is the denotation *)
Lemma abs_sound : forall f H h v, abs f H h = Some v -> den H v h.
Proof.
  induction f as [|f IH]; intros H h v E.
  - destruct h as [s|b]; cbn [abs] in E; [|discriminate]. injection E as <-. reflexivity.
  - destruct h as [s|b].
    + cbn [abs] in E. injection E as <-. reflexivity.
    + rewrite abs_unfold in E. destruct (lookup H b) as [p|] eqn:LK; [|discriminate].
      destruct (lookup_Some H b p LK) as (blk & N & L & P). subst p.
      destruct (pl blk) as [s|k ks hs] eqn:P.
      * injection E as <-. exists b, blk. auto.
      * destruct (mapM (abs f H) hs) as [vs|] eqn:M; [|discriminate]. injection E as <-.
        apply den_node. exists b, blk, hs. splits; auto.
        eapply mapM_Forall2; [|exact M]. intros x w _ A. apply IH. exact A.
Qed.

(* completeness under the invariant: every held handle is observed, with the ghost depth as fuel *)
Lemma abs_complete H R : Inv H R ->
  forall v h f, hheld H R h -> den H v h -> hdepth H h < f -> abs f H h = Some v.
Proof.
  intro I. induction v as [s|s|k ks vs IH] using value_ind2; intros h f Hd D L.
  - cbn [den] in D. subst h. destruct f; reflexivity.
  - destruct D as (b & blk & -> & E & P). destruct f as [|f]; [lia|]. rewrite abs_unfold.
    destruct (held_lookup H R b I Hd) as (blk' & E' & L' & LK). rewrite LK.
    assert (blk' = blk) by congruence. subst blk'. rewrite P. reflexivity.
  - apply den_node in D. destruct D as (b & blk & hs & -> & E & P & F).
    destruct f as [|f]; [lia|]. rewrite abs_unfold.
    destruct (held_lookup H R b I Hd) as (blk' & E' & L' & LK). rewrite LK.
    assert (blk' = blk) by congruence. subst blk'. rewrite P.
    assert (M : mapM (abs f H) hs = Some vs).
    { cbn [hdepth] in L. rewrite E in L.
      assert (CH : forall c, In c hs -> hheld H R c /\ hdepth H c < f).
      { intros c J. split.
        - destruct c as [s|c]; cbn [hheld]; auto. right. exists b, blk. splits; auto. rewrite P. auto.
        - destruct I as [W _]. destruct (W b blk c E) as [_ Q]; [rewrite P; auto|]. lia. }
      clear P E LK. induction F as [|v c vs hs Dv F IHF]; cbn [mapM]; auto.
      inversion IH as [|? ? IHv IHvs]; subst.
      destruct (CH c (or_introl eq_refl)) as [Hc Lc].
      rewrite (IHv c f Hc Dv Lc). rewrite IHF; auto. intros c' J. apply CH. right; auto. }
    rewrite M. reflexivity.
Qed.

Lemma abs_top_den H R h v : Inv H R -> In h R -> (abs_top H h = Some v <-> den H v h).
Proof.
  intros I J. split.
  - apply abs_sound.
  - intro D. unfold abs_top. eapply abs_complete; eauto. apply hheld_root; auto.
Qed.

Lemma abs_vars_den s vs : Inv (hp s) (vars s) -> (abs_vars s = map Some vs <-> Forall2 (den (hp s)) vs (vars s)).
Proof.
  intro I. unfold abs_vars.
  assert (G : forall l, (forall h, In h l -> In h (vars s)) ->
            forall vs, map (abs_top (hp s)) l = map Some vs <-> Forall2 (den (hp s)) vs l).
  { induction l as [|h t IH]; intros SUB [|v vs']; cbn [map]; split; intro A; try discriminate; try constructor; try inversion A; auto.
    - subst. eapply abs_top_den; eauto. apply SUB. left; auto.
    - apply IH; auto. intros x J. apply SUB. right; auto.
    - subst. f_equal.
      + eapply abs_top_den; eauto. apply SUB. left; auto.
      + apply IH; auto. intros x J. apply SUB. right; auto. }
  apply G. auto.
Qed.

(* ------------------------------------------------------------------------------------------ *)
(* one operation, on the model's own observations                                               *)
(* ------------------------------------------------------------------------------------------ *)

Theorem step_refines s vs o :
  Inv (hp s) (vars s) -> abs_vars s = map Some vs ->
  exists s', mstep s o = Some (s', snd (spec_step vs o)) /\
             Inv (hp s') (vars s') /\ abs_vars s' = map Some (fst (spec_step vs o)).
Proof.
  intros I A. apply abs_vars_den in A; auto.
  destruct (mstep_ok s vs o I A) as (s' & E & I' & F' & _).
  exists s'. splits; auto. apply abs_vars_den; auto.
Qed.

Lemma abs_vars_init k : abs_vars (init k) = map Some (spec_init k).
Proof. unfold abs_vars, init, spec_init. cbn [hp vars]. induction k; cbn; auto. f_equal. exact IHk. Qed.

Theorem run_refines k : forall l,
  exists s, mrun (init k) l = Some s /\ Inv (hp s) (vars s) /\ abs_vars s = map Some (spec_run (spec_init k) l).
Proof.
  assert (G : forall l s vs, Inv (hp s) (vars s) -> abs_vars s = map Some vs ->
            exists s', mrun s l = Some s' /\ Inv (hp s') (vars s') /\ abs_vars s' = map Some (spec_run vs l)).
  { induction l as [|o t IH]; intros s vs I A; cbn [mrun spec_run].
    - exists s. auto.
    - destruct (step_refines s vs o I A) as (s1 & E & I1 & A1). rewrite E. apply IH; auto. }
  intro l. apply G; [apply Inv_init|apply abs_vars_init].
Qed.

(* ------------------------------------------------------------------------------------------ *)
(* consequences of the invariant                                                                *)
(* ------------------------------------------------------------------------------------------ *)

(* a payload that is written in place (count 1) has exactly one referrer: the handle being used *)
Lemma exclusive_unique H R b : Inv H (HB b :: R) -> rcof H b = 1 -> cnt b R = 0 /\ inner b H = 0.
Proof. intros [_ C] E. specialize (C b). cbn [cnt] in C. rewrite hcnt_same in C. lia. Qed.

(* with no roots left, nothing is live *)
Lemma no_roots_no_live H : Inv H [] -> forall b, rcof H b = 0.
Proof.
  intros [W C].
  assert (G : forall n b, length H - n <= b -> rcof H b = 0).
  { induction n as [|n IH]; intros b L.
    - unfold rcof. assert (Z : nth_error H b = None) by (apply nth_error_None; lia). rewrite Z. auto.
    - destruct (Nat.eq_dec (rcof H b) 0) as [Z|NZ]; auto. exfalso.
      pose proof (C b) as Cb. cbn [cnt] in Cb.
      destruct (inner_pos_witness b H ltac:(lia)) as (c & blk & E & Lc & J).
      destruct (W c blk (HB b) E J) as [A _]. specialize (A b eq_refl).
      assert (Q : rcof H c = 0) by (apply IH; lia). unfold rcof in Q. rewrite E in Q. lia. }
  intro b. apply (G (length H)). lia.
Qed.

Lemma live_blocks_zero H : (forall b, rcof H b = 0) -> live_blocks H = 0.
Proof.
  intro Z. unfold live_blocks.
  assert (G : forall blk, In blk H -> rc blk = 0).
  { intros blk J. destruct (In_nth_error _ _ J) as (n & E). specialize (Z n). unfold rcof in Z. rewrite E in Z. auto. }
  clear Z. induction H as [|blk t IH]; cbn [filter length]; auto.
  rewrite (G blk (or_introl eq_refl)). cbn. apply IH. intros x J. apply G. right; auto.
Qed.

Theorem destroy_all_frees_everything s :
  Inv (hp s) (vars s) -> exists H', destroy_all s = Some H' /\ live_blocks H' = 0.
Proof.
  intro I. unfold destroy_all.
  destruct (release_all_ok (vars s) (hp s) [] ltac:(rewrite app_nil_r; exact I)) as (H' & E & I' & _).
  exists H'. split; auto. apply live_blocks_zero. apply no_roots_no_live. auto.
Qed.
