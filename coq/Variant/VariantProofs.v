From Coq Require Import ZArith List Bool Lia Arith.
From Common Require Import Words ListAux.
From Variant Require Import VariantSpec VariantModel.
Import ListNotations.
Local Open Scope bool_scope.

(* ---- induction principle for the nested value type ---- *)
Section value_ind2.
  Variable P : value -> Prop.
  Hypothesis HS_ : forall s, P (VS s).
  Hypothesis HStr_ : forall s, P (VStr s).
  Hypothesis HNode_ : forall k ks vs, Forall P vs -> P (VNode k ks vs).
  Fixpoint value_ind2 (v : value) : P v :=
    match v with
    | VS s => HS_ s
    | VStr s => HStr_ s
    | VNode k ks vs =>
        HNode_ k ks vs ((fix go (l : list value) : Forall P l :=
                           match l with [] => Forall_nil P | x :: t => Forall_cons x (value_ind2 x) (go t) end) vs)
    end.
End value_ind2.

Lemma bytes_eqb_refl s : bytes_eqb s s = true.
Proof. induction s as [|c t IH]; simpl; auto. rewrite Z.eqb_refl. exact IH. Qed.

Lemma kind_eqb_refl k : kind_eqb k k = true.
Proof. destruct k; reflexivity. Qed.
