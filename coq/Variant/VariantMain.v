(* C07 - the statements Properties_C07.v exports, about every reachable state of the model. *)
From Coq Require Import ZArith List Bool Lia Arith.
From Common Require Import Words ListAux.
From Variant Require Import VariantSpec VariantModel VariantProofs VariantSpecProofs VariantHeap VariantRefine
     VariantStep VariantAbs VariantObs.
Import ListNotations.
Local Open Scope nat_scope.

Ltac splits := repeat match goal with |- _ /\ _ => split end.

(* SCOPE.  The model is tied to the code only on histories none of whose operations is self-containing
   at the point where it is executed (VariantSpec.self_containing / admissible): on a self-containing
   operation the code stores into a payload a handle to that payload (a reference cycle - the open finding),
   while mstep stays value-semantic there (it re-navigates, sees the extra reference and clones).  The
   lemmas run_refines / step_refines (VariantAbs) hold for every history of the MODEL; the exported
   statements carry the hypothesis so that nothing is claimed where the model is not the code. *)

(* the states an admissible history over k variables leads to *)
Definition reachable (s : state) : Prop :=
  exists k l, admissible (spec_init k) l = true /\ mrun (init k) l = Some s.

(* the value model's state at the same point *)
Definition values_of (s : state) (vs : list value) : Prop := abs_vars s = map Some vs.

Lemma reachable_inv s : reachable s -> Inv (hp s) (vars s) /\ exists vs, values_of s vs.
Proof.
  intros (k & l & _ & E). destruct (run_refines k l) as (s0 & E0 & I & A).
  assert (s0 = s) by congruence. subst s0. split; auto. eexists. exact A.
Qed.

Lemma map_Some_inj {A} (a b : list A) : map Some a = map Some b -> a = b.
Proof.
  revert b. induction a as [|x a IH]; intros [|y b] E; cbn [map] in E; try discriminate; auto.
  injection E as -> E. f_equal. auto.
Qed.

Lemma reachable_values s vs : reachable s -> values_of s vs ->
  exists k l, admissible (spec_init k) l = true /\ mrun (init k) l = Some s /\ vs = spec_run (spec_init k) l.
Proof.
  intros (k & l & AD & E) V. exists k, l. splits; auto.
  destruct (run_refines k l) as (s0 & E0 & _ & A). assert (s0 = s) by congruence. subst s0.
  unfold values_of in V. rewrite V in A. apply map_Some_inj. exact A.
Qed.

Lemma admissible_app : forall l vs o,
  admissible vs (l ++ [o]) = admissible vs l && negb (self_containing (spec_run vs l) o).
Proof.
  induction l as [|o' t IH]; intros vs o; cbn [admissible spec_run app].
  - rewrite andb_true_r. reflexivity.
  - rewrite IH. rewrite andb_assoc. reflexivity.
Qed.

Lemma mrun_app : forall l s0 s o s' out, mrun s0 l = Some s -> mstep s o = Some (s', out) -> mrun s0 (l ++ [o]) = Some s'.
Proof.
  induction l as [|o' t IH]; intros s0 s o s' out M E; cbn [mrun app] in *.
  - injection M as ->. rewrite E. reflexivity.
  - destruct (mstep s0 o') as [[s1 out1]|]; [|discriminate]. eapply IH; eauto.
Qed.

(* (1) the heap invariant *)
Theorem histories_never_fail_and_keep_invariant k l :
  admissible (spec_init k) l = true ->
  exists s, mrun (init k) l = Some s /\ Inv (hp s) (vars s).
Proof. intros _. destruct (run_refines k l) as (s & E & I & _). eauto. Qed.

Theorem refcount_counts_every_handle s :
  reachable s -> forall b, rcof (hp s) b = cnt b (vars s) + inner b (hp s).
Proof. intro R. destruct (reachable_inv s R) as [[_ C] _]. exact C. Qed.

Theorem no_handle_to_released_block s :
  reachable s -> forall b, held (hp s) (vars s) (HB b) -> rcof (hp s) b <> 0.
Proof. intros R b Hd. destruct (reachable_inv s R) as [I _]. eapply held_live; eauto. Qed.

Theorem all_payloads_freed_at_end k l :
  admissible (spec_init k) l = true ->
  exists s H', mrun (init k) l = Some s /\ destroy_all s = Some H' /\ live_blocks H' = 0.
Proof.
  intros _. destruct (run_refines k l) as (s & E & I & _).
  destruct (destroy_all_frees_everything s I) as (H' & D & Z). eauto.
Qed.

(* (2) refinement *)
Theorem variant_refines_values k l :
  admissible (spec_init k) l = true ->
  exists s, mrun (init k) l = Some s /\ values_of s (spec_run (spec_init k) l).
Proof. intros _. destruct (run_refines k l) as (s & E & _ & A). eauto. Qed.

Theorem step_refines_values s vs o :
  reachable s -> values_of s vs -> self_containing vs o = false ->
  exists s', mstep s o = Some (s', snd (spec_step vs o)) /\ reachable s' /\ values_of s' (fst (spec_step vs o)).
Proof.
  intros R A NS. destruct (reachable_inv s R) as [I _].
  destruct (step_refines s vs o I A) as (s' & E & I' & A'). exists s'. splits; auto.
  destruct (reachable_values s vs R A) as (k & l & AD & M & ->). exists k, (l ++ [o]). split.
  - rewrite admissible_app, AD, NS. reflexivity.
  - eapply mrun_app; eauto.
Qed.

Lemma values_geth s vs j : values_of s vs -> abs_top (hp s) (geth (vars s) j) = Some (getv vs j).
Proof.
  unfold values_of, abs_vars, geth, getv. intro A.
  pose proof (map_nth (abs_top (hp s)) (vars s) HNull j) as P1.
  pose proof (map_nth (@Some value) vs VNull j) as P2.
  rewrite <- P1, <- P2, A. reflexivity.
Qed.

Theorem copies_independent s vs o j :
  reachable s -> values_of s vs -> self_containing vs o = false -> ~ In j (touched o) ->
  exists s' out, mstep s o = Some (s', out) /\
    abs_top (hp s') (geth (vars s') j) = abs_top (hp s) (geth (vars s) j).
Proof.
  intros R A NS N. destruct (step_refines_values s vs o R A NS) as (s' & E & _ & A').
  exists s', (snd (spec_step vs o)). split; auto.
  rewrite (values_geth s' _ j A'), (values_geth s vs j A). f_equal. apply spec_frame. auto.
Qed.

Theorem reports_last_assigned_value s vs o i p x :
  reachable s -> values_of s vs -> self_containing vs o = false -> assigned_value vs o = Some (i, p, x) ->
  exists s' out, mstep s o = Some (s', out) /\
    (out = Done -> exists v, abs_top (hp s') (geth (vars s') i) = Some v /\ vread p v = Some x).
Proof.
  intros R A NS AV.
  destruct (step_refines_values s vs o R A NS) as (s' & E & _ & A').
  exists s', (snd (spec_step vs o)). split; auto. intro D.
  exists (getv (fst (spec_step vs o)) i). split; [apply values_geth; auto|].
  eapply reports_last_assigned; eauto.
Qed.

(* `x.at(p) = y.at(sp)` (operator=(const Variant&), any two nodes, one not inside the other's written path):
   afterwards the destination node holds the value the source node had, which compares equal to itself, and
   when x and y are different variables the source is unchanged *)
Theorem assigned_copy_equals_source s vs i p j sp :
  reachable s -> values_of s vs -> self_containing vs (OAssign i p j sp) = false ->
  exists s' out, mstep s (OAssign i p j sp) = Some (s', out) /\
    (out = Done -> exists x v,
       vread sp (getv vs j) = Some x /\ abs_top (hp s') (geth (vars s') i) = Some v /\ vread p v = Some x /\
       veq x x = Some true /\
       (i <> j -> abs_top (hp s') (geth (vars s') j) = abs_top (hp s) (geth (vars s) j))).
Proof.
  intros R A NS.
  destruct (step_refines_values s vs _ R A NS) as (s' & E & _ & A').
  exists s', (snd (spec_step vs (OAssign i p j sp))). split; auto. intro D.
  destruct (vread sp (getv vs j)) as [x|] eqn:RS.
  - exists x, (getv (fst (spec_step vs (OAssign i p j sp))) i). splits; auto.
    + apply values_geth; auto.
    + eapply reports_last_assigned; eauto. cbn [assigned_value]. rewrite RS. reflexivity.
    + apply veq_refl.
    + intro N. rewrite (values_geth s' _ j A'), (values_geth s vs j A). f_equal. apply spec_frame.
      cbn [touched In]. intros [Q|[]]. auto.
  - exfalso. revert D. unfold spec_step.
    destruct ((i <? length vs) && (j <? length vs)); [|cbn [snd]; discriminate].
    rewrite let_pair. destruct (snd (vupd_var vs i p (fun v => v))) eqn:S; [|cbn [snd]; discriminate].
    rewrite (vupd_var_id_ok vs i p S), RS. cbn [snd]. discriminate.
Qed.

(* getType / to* of a variable are the Spec's functions of its value *)
Theorem accessors_report_value s vs j :
  reachable s -> values_of s vs -> j < length (vars s) ->
  let h := geth (vars s) j in let v := getv vs j in
  m_type (hp s) h = vtype v /\ m_to_bool (hp s) h = to_bool v /\ m_to_int (hp s) h = to_int v /\
  m_to_uint (hp s) h = to_uint v /\ m_to_i64 (hp s) h = to_i64 v /\ m_to_u64 (hp s) h = to_u64 v /\
  m_to_dbl (hp s) h = to_dbl v /\ m_to_str (hp s) h = to_str v.
Proof.
  intros R A L. destruct (reachable_inv s R) as [I _]. cbn zeta.
  apply (observers_refine (hp s) (vars s)); auto.
  - apply hheld_root. apply geth_In. auto.
  - apply (abs_top_den (hp s) (vars s)); auto; [apply geth_In; auto|apply values_geth; auto].
Qed.

(* (3) equality *)
Theorem equality_is_spec_equality s vs i j :
  reachable s -> values_of s vs -> i < length (vars s) -> j < length (vars s) ->
  meq_top (hp s) (geth (vars s) i) (geth (vars s) j) = veq (getv vs i) (getv vs j).
Proof.
  intros R A Li Lj. destruct (reachable_inv s R) as [I _].
  apply (meq_top_refines (hp s) (vars s)); auto; try (apply geth_In; auto);
    apply (abs_top_den (hp s) (vars s)); auto; try (apply geth_In; auto); apply values_geth; auto.
Qed.

(* a string against a scalar, in either order: operator== of a string hands over to the scalar's case, which converts
   the string (corollary of the refinement and of the shape of veq) *)
Theorem string_equality_decided_by_scalar_side s vs i j str sc :
  reachable s -> values_of s vs -> i < length (vars s) -> j < length (vars s) ->
  getv vs i = VStr str -> getv vs j = VS sc ->
  meq_top (hp s) (geth (vars s) i) (geth (vars s) j) = eq_scalar_lhs sc (VStr str) /\
  meq_top (hp s) (geth (vars s) j) (geth (vars s) i) = eq_scalar_lhs sc (VStr str).
Proof.
  intros R A Li Lj Ei Ej.
  rewrite (equality_is_spec_equality s vs i j R A Li Lj), (equality_is_spec_equality s vs j i R A Lj Li), Ei, Ej.
  split; reflexivity.
Qed.

Theorem variant_equal_to_copy s vs i j o :
  reachable s -> values_of s vs -> (o = OCopyNew i j \/ o = OAssign i [] j []) ->
  exists s' out, mstep s o = Some (s', out) /\
    (out = Done ->
       meq_top (hp s') (geth (vars s') i) (geth (vars s') j) = Some true /\
       meq_top (hp s') (geth (vars s') j) (geth (vars s') i) = Some true /\
       abs_top (hp s') (geth (vars s') i) = abs_top (hp s) (geth (vars s) j)).
Proof.
  intros R A O.
  assert (NS : self_containing vs o = false).
  { destruct O as [-> | ->]; cbn [self_containing vresolve is_prefix length Nat.eqb negb andb]; auto.
    destruct (i =? j); reflexivity. }
  destruct (step_refines_values s vs o R A NS) as (s' & E & R' & A').
  exists s', (snd (spec_step vs o)). split; auto. intro D.
  assert (LEN : length (vars s') = length vs).
  { unfold values_of, abs_vars in A'. apply (f_equal (@length _)) in A'. rewrite !map_length in A'.
    rewrite A'. apply spec_step_length. }
  assert (SRC : getv (fst (spec_step vs o)) i = getv vs j /\ getv (fst (spec_step vs o)) j = getv vs j).
  { destruct O as [-> | ->]; [apply copy_reports_source|apply assign_reports_source]; auto. }
  assert (L : i < length vs /\ j < length vs).
  { destruct O as [-> | ->]; unfold spec_step in D.
    - destruct ((i <? length vs) && (j <? length vs) && negb (i =? j)) eqn:C; [|discriminate].
      apply andb_true_iff in C. destruct C as [C _]. apply andb_true_iff in C. destruct C as [Li Lj].
      split; apply Nat.ltb_lt; auto.
    - destruct ((i <? length vs) && (j <? length vs)) eqn:C; [|discriminate].
      apply andb_true_iff in C. destruct C as [Li Lj]. split; apply Nat.ltb_lt; auto. }
  destruct SRC as [Si Sj]. destruct L as [Li Lj].
  pose proof (equality_is_spec_equality s' _ i j R' A' ltac:(lia) ltac:(lia)) as Q1.
  pose proof (equality_is_spec_equality s' _ j i R' A' ltac:(lia) ltac:(lia)) as Q2.
  rewrite Q1, Q2, Si, Sj, veq_refl. splits; auto.
  rewrite (values_geth s' _ i A'), (values_geth s vs j A), Si. reflexivity.
Qed.

(* ---- the concrete history used by the non-vacuity Examples of Properties_C07.v ---- *)
Definition ex_l0 : list op :=
  [ OSetStr 0 [] [97; 98]%Z;
    OSetNode 1 [] KList [([], 0%nat); ([], 0%nat)];
    OCopyNew 2 1;
    OSetNode 0 [] KMap [([107%Z], 1%nat); ([108%Z], 2%nat)] ].
Definition ex_cow : op := OStrAppend 1 [(KList, ByIdx 0)] [120%Z].
(* assignments whose argument is a reference into the assigned Variant's own payload *)
Definition ex_str_from_own : op := OAssignStrFrom 0 [] 0 [(KMap, ByKey [107%Z]); (KList, ByIdx 0)].
Definition ex_node_from_own : op := OAssignNodeFrom 0 [] 0 [(KMap, ByKey [108%Z])] KList.


(* round 5 (audit: variant_equal_to_copy speaks of whole variables only): ANY two handles reachable from the variables -
   roots or items nested at any depth, e.g. the node written by `x.toList().front() = y.toMap().find(k)` and its source -
   that denote the same value compare equal under the model's operator== (the transcribed switch, not veq) *)
Theorem equal_values_compare_equal_at_any_depth s a b v f :
  reachable s -> hheld (hp s) (vars s) a -> hheld (hp s) (vars s) b -> den (hp s) v a -> den (hp s) v b ->
  2 * hdepth (hp s) a + 2 <= f -> meq f (hp s) a b = Some true.
Proof.
  intros R Ha Hb Da Db L. destruct (reachable_inv s R) as [I _].
  rewrite (meq_refines (hp s) (vars s) I v a b v f Ha Hb Da Db L). apply veq_refl.
Qed.
