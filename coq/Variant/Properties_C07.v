(* Property C07 - only statements closed by `exact`, each followed by Print Assumptions. *)
From Coq Require Import ZArith List.
From Common Require Import Words ListAux.
From Variant Require Import VariantSpec VariantModel VariantProofs.
Import ListNotations.

Theorem kind_eqb_reflexive : forall k, kind_eqb k k = true.
Proof. exact kind_eqb_refl. Qed.
Print Assumptions kind_eqb_reflexive.
