(* Property C07 - "Variant keeps the last assigned value with independent lazy copies".
   Only statements closed by `exact`, each followed by Print Assumptions, plus non-vacuity Examples.

   SCOPE of every statement about histories (hypothesis `admissible` / `self_containing vs o = false`, also inside
   `reachable`): no operation stores into a payload a Variant that contains that payload (VariantSpec.self_containing:
   `v.toList().front() = v`, `v.toList().append(v)`, `f = cv.toList()` with f two levels below v or an unshared list
   item of v).  On such an operation the code builds a reference cycle (open finding), while the model's mstep stays
   value-semantic (it re-navigates, sees the extra reference and clones): the model is NOT the code there, so nothing
   is claimed there.  ex_admissible / ex_self_containing show both sides of the hypothesis are inhabited.

   Clause of the property                                   theorem(s)
   ---------------------------------------------------------------------------------------------
   lazy-copy representation is sound, for all admissible    histories_never_fail_and_keep_invariant
   histories
     ref = number of handles (variables + handles nested    refcount_counts_every_handle
       in live payloads)
     no handle to a released block                          no_handle_to_released_block
     a payload written in place has no other referrer       in_place_write_only_when_unshared
     every payload is released when the variables die       all_payloads_freed_at_end
   "reports the type and value it was last given"           variant_refines_values, step_refines_values,
                                                            reports_last_assigned_value (scalar, string, container built
                                                            from variables, Variant / String / container taken from any
                                                            node of any variable, clear), accessors_report_value
   "copies are independent: mutable accessor + mutation,    copies_independent (model), spec_frame (value model)
     or reassigning, never changes any other Variant"
   "compares equal to every copy of itself"                 variant_equal_to_copy (whole variables, == of the model),
                                                            equal_values_compare_equal_at_any_depth (any two reachable handles),
                                                            assigned_copy_equals_source (any two nodes),
                                                            equality_is_spec_equality, equality_reflexive
   "conversions follow the documented coercions"            null_coercions, integral_conversion_preserves_value,
                                                            integral_conversion_wraps, int_to_double_exact, int64_to_double_exact,
                                                            int_double_int, decimal_string_roundtrip,
                                                            int_equals_its_decimal_string;
                                                            the code's switches compute them: accessors_report_value,
                                                            accessor_switches_compute_coercions, equality_converts_right_operand,
                                                            string_equality_decided_by_scalar_side
   where the text is silent (round 5): out-of-range        text_decides_equality_with_a_copy,
     decimal strings, maps with the same keys in another    conversion_open_only_for_out_of_range_strings,
     insertion order - open in the property oracle          in_range_decimal_strings_are_decided,
     (str_fits / veq_pinned), code's choice kept in          text_decides_plain_comparisons, permuted_maps_left_open
     to_* / veq and the model
   What the coercion clause rests on (round 4): the model's observers m_type / m_is_null / m_to_* / meq are a separate
   TRANSCRIPTION of the code (VariantModel.v: tag constants in enum order, one reader per member of the union, the C
   conversion of every `return` written through Common.Words - w32/sx32/w64/sx64 -, bool -> 0/1, (T)double as truncation
   with the representable range of T, (double)int exact and (double)int64 rounded, String::to*/from* through the trusted
   libc reference functions; operator== as the switch on the LEFT operand's tag which converts the RIGHT operand, a string
   on the left handing over to `other == *this`).  They do not mention the Spec's vtype / to_* / eq_scalar_lhs / veq;
   accessors_report_value, accessor_switches_compute_coercions, equality_is_spec_equality, equality_converts_right_operand
   and string_equality_decided_by_scalar_side PROVE them equal to the Spec's coercions.  The extracted driver prints these
   observers (not the Spec's), so the correspondence run ties exactly this transcription to the code.
   The quantifier "all alternative types, nested containers": values are arbitrary trees (VariantSpec.value),
   histories are arbitrary lists of VariantSpec.op with arbitrary paths; doubles are the exact dyadic
   subset (NaN is excluded by the property; infinities and -0 are outside the Coq model and covered by two
   correspondence streams: a hand-written oracle at root level, stand-in runs of the extracted Spec/Model inside containers).  Not proved (validated by the correspondence run only): that the
   Spec's strtol/strtoul/strtod/%d/%u/%lld/%llu/%f/int64->double reference functions are glibc's; string->bool table. *)
From Coq Require Import ZArith List Bool.
From Common Require Import Words ListAux.
From Variant Require Import VariantSpec VariantModel VariantProofs VariantSpecProofs VariantHeap VariantRefine
     VariantStep VariantAbs VariantObs VariantMain.
Import ListNotations.

(* ---- (1) heap invariant ---- *)
Theorem histories_never_fail_and_keep_invariant : forall k l,
  admissible (spec_init k) l = true ->
  exists s, mrun (init k) l = Some s /\ Inv (hp s) (vars s).
Proof. exact VariantMain.histories_never_fail_and_keep_invariant. Qed.
Print Assumptions histories_never_fail_and_keep_invariant.

Theorem refcount_counts_every_handle : forall s,
  reachable s -> forall b, rcof (hp s) b = (cnt b (vars s) + inner b (hp s))%nat.
Proof. exact VariantMain.refcount_counts_every_handle. Qed.
Print Assumptions refcount_counts_every_handle.

Theorem no_handle_to_released_block : forall s,
  reachable s -> forall b, held (hp s) (vars s) (HB b) -> rcof (hp s) b <> O.
Proof. exact VariantMain.no_handle_to_released_block. Qed.
Print Assumptions no_handle_to_released_block.

Theorem in_place_write_only_when_unshared : forall H R b,
  Inv H (HB b :: R) -> rcof H b = 1%nat -> cnt b R = O /\ inner b H = O.
Proof. exact exclusive_unique. Qed.
Print Assumptions in_place_write_only_when_unshared.

Theorem all_payloads_freed_at_end : forall k l,
  admissible (spec_init k) l = true ->
  exists s H', mrun (init k) l = Some s /\ destroy_all s = Some H' /\ live_blocks H' = O.
Proof. exact VariantMain.all_payloads_freed_at_end. Qed.
Print Assumptions all_payloads_freed_at_end.

(* ---- (2) refinement to the value model ---- *)
Theorem variant_refines_values : forall k l,
  admissible (spec_init k) l = true ->
  exists s, mrun (init k) l = Some s /\ abs_vars s = map Some (spec_run (spec_init k) l).
Proof. exact VariantMain.variant_refines_values. Qed.
Print Assumptions variant_refines_values.

Theorem step_refines_values : forall s vs o,
  reachable s -> abs_vars s = map Some vs -> self_containing vs o = false ->
  exists s', mstep s o = Some (s', snd (spec_step vs o)) /\ reachable s' /\
             abs_vars s' = map Some (fst (spec_step vs o)).
Proof. exact VariantMain.step_refines_values. Qed.
Print Assumptions step_refines_values.

Theorem copies_independent : forall s vs o j,
  reachable s -> abs_vars s = map Some vs -> self_containing vs o = false -> ~ In j (touched o) ->
  exists s' out, mstep s o = Some (s', out) /\
    abs_top (hp s') (geth (vars s') j) = abs_top (hp s) (geth (vars s) j).
Proof. exact VariantMain.copies_independent. Qed.
Print Assumptions copies_independent.

Theorem spec_frame : forall vs o j, ~ In j (touched o) -> getv (fst (spec_step vs o)) j = getv vs j.
Proof. exact VariantSpecProofs.spec_frame. Qed.
Print Assumptions spec_frame.

Theorem reports_last_assigned_value : forall s vs o i p x,
  reachable s -> abs_vars s = map Some vs -> self_containing vs o = false -> assigned_value vs o = Some (i, p, x) ->
  exists s' out, mstep s o = Some (s', out) /\
    (out = Done -> exists v, abs_top (hp s') (geth (vars s') i) = Some v /\ vread p v = Some x).
Proof. exact VariantMain.reports_last_assigned_value. Qed.
Print Assumptions reports_last_assigned_value.

Theorem accessors_report_value : forall s vs j,
  reachable s -> abs_vars s = map Some vs -> (j < length (vars s))%nat ->
  let h := geth (vars s) j in let v := getv vs j in
  m_type (hp s) h = vtype v /\ m_to_bool (hp s) h = to_bool v /\ m_to_int (hp s) h = to_int v /\
  m_to_uint (hp s) h = to_uint v /\ m_to_i64 (hp s) h = to_i64 v /\ m_to_u64 (hp s) h = to_u64 v /\
  m_to_dbl (hp s) h = to_dbl v /\ m_to_str (hp s) h = to_str v.
Proof. exact VariantMain.accessors_report_value. Qed.
Print Assumptions accessors_report_value.

(* every switch(data->type) of the accessors, as transcribed, computes the Spec's coercion of what it reads - for every
   heap and every handle whose block has not been released (no reachability needed) *)
Theorem accessor_switches_compute_coercions : forall H h, readable H h ->
  m_type H h = vtype (shallow H h) /\ m_to_bool H h = to_bool (shallow H h) /\
  m_to_int H h = to_int (shallow H h) /\ m_to_uint H h = to_uint (shallow H h) /\
  m_to_i64 H h = to_i64 (shallow H h) /\ m_to_u64 H h = to_u64 (shallow H h) /\
  m_to_dbl H h = to_dbl (shallow H h) /\ m_to_str H h = to_str (shallow H h) /\
  m_is_null H h = is_null (shallow H h).
Proof. exact switch_is_coercion. Qed.
Print Assumptions accessor_switches_compute_coercions.

(* ---- (3) equality ---- *)
Theorem equality_is_spec_equality : forall s vs i j,
  reachable s -> abs_vars s = map Some vs -> (i < length (vars s))%nat -> (j < length (vars s))%nat ->
  meq_top (hp s) (geth (vars s) i) (geth (vars s) j) = veq (getv vs i) (getv vs j).
Proof. exact VariantMain.equality_is_spec_equality. Qed.
Print Assumptions equality_is_spec_equality.

(* which operand == converts: with a scalar on the left, the left operand's own member is compared with the RIGHT operand
   converted to the left operand's type (one unit of fuel, any right operand) *)
Theorem equality_converts_right_operand : forall H R f s b vb,
  Inv H R -> hheld H R b -> den H vb b -> meq (S f) H (HS s) b = eq_scalar_lhs s vb.
Proof. exact meq_scalar_lhs. Qed.
Print Assumptions equality_converts_right_operand.

(* a string against a scalar, in either order: the string is the operand that is converted (`return other == *this`) *)
Theorem string_equality_decided_by_scalar_side : forall s vs i j str sc,
  reachable s -> abs_vars s = map Some vs -> (i < length (vars s))%nat -> (j < length (vars s))%nat ->
  getv vs i = VStr str -> getv vs j = VS sc ->
  meq_top (hp s) (geth (vars s) i) (geth (vars s) j) = eq_scalar_lhs sc (VStr str) /\
  meq_top (hp s) (geth (vars s) j) (geth (vars s) i) = eq_scalar_lhs sc (VStr str).
Proof. exact VariantMain.string_equality_decided_by_scalar_side. Qed.
Print Assumptions string_equality_decided_by_scalar_side.

Theorem equality_reflexive : forall v, veq v v = Some true.
Proof. exact veq_refl. Qed.
Print Assumptions equality_reflexive.

Theorem variant_equal_to_copy : forall s vs i j o,
  reachable s -> abs_vars s = map Some vs -> (o = OCopyNew i j \/ o = OAssign i [] j []) ->
  exists s' out, mstep s o = Some (s', out) /\
    (out = Done ->
       meq_top (hp s') (geth (vars s') i) (geth (vars s') j) = Some true /\
       meq_top (hp s') (geth (vars s') j) (geth (vars s') i) = Some true /\
       abs_top (hp s') (geth (vars s') i) = abs_top (hp s) (geth (vars s) j)).
Proof. exact VariantMain.variant_equal_to_copy. Qed.
Print Assumptions variant_equal_to_copy.

(* round 5: not only whole variables - any two reachable handles (roots or items at any depth) denoting the same value *)
Theorem equal_values_compare_equal_at_any_depth : forall s a b v f,
  reachable s -> hheld (hp s) (vars s) a -> hheld (hp s) (vars s) b -> den (hp s) v a -> den (hp s) v b ->
  (2 * hdepth (hp s) a + 2 <= f)%nat -> meq f (hp s) a b = Some true.
Proof. exact VariantMain.equal_values_compare_equal_at_any_depth. Qed.
Print Assumptions equal_values_compare_equal_at_any_depth.

Theorem assigned_copy_equals_source : forall s vs i p j sp,
  reachable s -> abs_vars s = map Some vs -> self_containing vs (OAssign i p j sp) = false ->
  exists s' out, mstep s (OAssign i p j sp) = Some (s', out) /\
    (out = Done -> exists x v,
       vread sp (getv vs j) = Some x /\ abs_top (hp s') (geth (vars s') i) = Some v /\ vread p v = Some x /\
       veq x x = Some true /\
       (i <> j -> abs_top (hp s') (geth (vars s') j) = abs_top (hp s) (geth (vars s) j))).
Proof. exact VariantMain.assigned_copy_equals_source. Qed.
Print Assumptions assigned_copy_equals_source.

(* ---- (4) coercions ---- *)
Theorem null_coercions :
  to_bool VNull = false /\ to_int VNull = Some 0%Z /\ to_uint VNull = Some 0%Z /\ to_i64 VNull = Some 0%Z /\
  to_u64 VNull = Some 0%Z /\ to_dbl VNull = (0%Z, 0%Z) /\ to_str VNull = [] /\ vtype VNull = 0%Z.
Proof. exact VariantSpecProofs.null_coercions. Qed.
Print Assumptions null_coercions.

Theorem integral_conversion_preserves_value : forall s z,
  int_value s = Some z ->
  ((-2147483648 <= z < 2147483648)%Z -> to_int (VS s) = Some z) /\
  ((0 <= z < 4294967296)%Z -> to_uint (VS s) = Some z) /\
  ((-9223372036854775808 <= z < 9223372036854775808)%Z -> to_i64 (VS s) = Some z) /\
  ((0 <= z < 18446744073709551616)%Z -> to_u64 (VS s) = Some z) /\
  to_bool (VS s) = negb (z =? 0)%Z.
Proof. exact VariantSpecProofs.integral_conversion_preserves_value. Qed.
Print Assumptions integral_conversion_preserves_value.

Theorem integral_conversion_wraps : forall s z,
  int_value s = Some z -> scalar_wf s ->
  (exists r, to_int (VS s) = Some r /\ (-2147483648 <= r < 2147483648)%Z /\ ((r - z) mod 4294967296 = 0)%Z) /\
  (exists r, to_uint (VS s) = Some r /\ (0 <= r < 4294967296)%Z /\ ((r - z) mod 4294967296 = 0)%Z) /\
  (exists r, to_i64 (VS s) = Some r /\ (-9223372036854775808 <= r < 9223372036854775808)%Z /\ ((r - z) mod 18446744073709551616 = 0)%Z) /\
  (exists r, to_u64 (VS s) = Some r /\ (0 <= r < 18446744073709551616)%Z /\ ((r - z) mod 18446744073709551616 = 0)%Z).
Proof. exact VariantSpecProofs.integral_conversion_wraps. Qed.
Print Assumptions integral_conversion_wraps.

Theorem int_to_double_exact : forall s z,
  (s = SInt z \/ s = SUInt z) -> let '(m, e) := to_dbl (VS s) in (m * 2 ^ e = z /\ 0 <= e)%Z.
Proof. exact VariantSpecProofs.int_to_double_exact. Qed.
Print Assumptions int_to_double_exact.

Theorem int64_to_double_exact : forall s z,
  (s = SI64 z \/ s = SU64 z) -> (- 2 ^ 53 < z < 2 ^ 53)%Z -> let '(m, e) := to_dbl (VS s) in (m * 2 ^ e = z /\ 0 <= e)%Z.
Proof. exact VariantSpecProofs.int64_to_double_exact. Qed.
Print Assumptions int64_to_double_exact.

Theorem int_double_int : forall z,
  (-2147483648 <= z < 2147483648)%Z -> let '(m, e) := to_dbl (VS (SInt z)) in to_int (VS (SDbl m e)) = Some z.
Proof. exact VariantSpecProofs.int_double_int. Qed.
Print Assumptions int_double_int.

Theorem decimal_string_roundtrip : forall s z,
  int_value s = Some z -> scalar_wf s -> s <> SNull -> (forall b, s <> SBool b) ->
  let str := VStr (to_str (VS s)) in
  ((-2147483648 <= z < 2147483648)%Z -> to_int str = Some z) /\
  ((0 <= z < 4294967296)%Z -> to_uint str = Some z) /\
  ((-9223372036854775808 <= z < 9223372036854775808)%Z -> to_i64 str = Some z) /\
  ((0 <= z < 18446744073709551616)%Z -> to_u64 str = Some z).
Proof. exact VariantSpecProofs.decimal_string_roundtrip. Qed.
Print Assumptions decimal_string_roundtrip.

Theorem int_equals_its_decimal_string : forall z,
  (-2147483648 <= z < 2147483648)%Z ->
  veq (VS (SInt z)) (VStr (dec_Z z)) = Some true /\ veq (VStr (dec_Z z)) (VS (SInt z)) = Some true.
Proof. exact VariantSpecProofs.int_equals_its_decimal_string. Qed.
Print Assumptions int_equals_its_decimal_string.

(* ---- (5) what the property text decides (round 5): the expected observation of the property oracle shows `?` for a
   conversion / comparison outside str_fits / veq_pinned; the reference functions to_int .. to_u64 / veq (and the model's
   m_to_* / meq, proved equal to them above) keep the code's choice there, which the model/implementation correspondence
   compares.  These theorems delimit the open region: it never contains the comparison with a copy, scalars, strings, or
   decimal strings the target type can hold; it is exactly out-of-range decimal strings and maps whose key sets agree in
   another insertion order. ---- *)
Theorem text_decides_equality_with_a_copy : forall v, veq_pinned v v = true /\ veq v v = Some true.
Proof. exact VariantSpecProofs.text_decides_equality_with_a_copy. Qed.
Print Assumptions text_decides_equality_with_a_copy.

Theorem conversion_open_only_for_out_of_range_strings : forall lo hi v,
  str_fits lo hi v = false -> exists s, v = VStr s /\ (str_value s < lo \/ hi <= str_value s)%Z.
Proof. exact VariantSpecProofs.str_fits_false. Qed.
Print Assumptions conversion_open_only_for_out_of_range_strings.

Theorem in_range_decimal_strings_are_decided : forall lo hi z,
  (lo <= z < hi)%Z -> str_fits lo hi (VStr (dec_Z z)) = true.
Proof. exact VariantSpecProofs.str_fits_dec_Z. Qed.
Print Assumptions in_range_decimal_strings_are_decided.

Theorem text_decides_plain_comparisons :
  (forall s1 s2, veq_pinned (VS s1) (VS s2) = true) /\
  (forall a b, veq_pinned (VStr a) (VStr b) = true) /\
  (forall z, (-2147483648 <= z < 2147483648)%Z ->
     veq_pinned (VS (SInt z)) (VStr (dec_Z z)) = true /\ veq_pinned (VStr (dec_Z z)) (VS (SInt z)) = true).
Proof. exact VariantSpecProofs.text_decides_plain_comparisons. Qed.
Print Assumptions text_decides_plain_comparisons.

Theorem permuted_maps_left_open : forall k ks vs ks' vs',
  length vs = length vs' -> keys_permuted ks ks' = true ->
  veq_pinned (VNode k ks vs) (VNode k ks' vs') = false.
Proof. exact VariantSpecProofs.veq_pinned_permuted_maps. Qed.
Print Assumptions permuted_maps_left_open.

(* ---- non-vacuity: a concrete history with sharing, nesting and a copy-on-write step ---- *)
(* ex_l0 / ex_cow are defined in VariantMain.v *)
(* after ex_l0: the string block is held twice (both list entries), the list block four times
   (variables 1 and 2 and both map entries), the map once *)
Example ex_shared_state :
  option_map (fun s => (map rc (hp s), vars s)) (mrun (init 3) ex_l0) = Some ([2; 4; 1]%nat, [HB 2; HB 1; HB 1]).
Proof. vm_compute. reflexivity. Qed.

(* the mutable accessor on a shared list clones it (blocks 3, 4 are new), variable 2 and the map keep the old one *)
Example ex_cow_step :
  option_map (fun s => (map rc (hp s), vars s)) (mrun (init 3) (ex_l0 ++ [ex_cow])) =
  Some ([3; 3; 1; 1; 1]%nat, [HB 2; HB 4; HB 1]).
Proof. vm_compute. reflexivity. Qed.

Example ex_refines :
  option_map abs_vars (mrun (init 3) (ex_l0 ++ [ex_cow])) = Some (map Some (spec_run (spec_init 3) (ex_l0 ++ [ex_cow]))).
Proof. vm_compute. reflexivity. Qed.

Example ex_independent :
  ~ In 2%nat (touched ex_cow) /\
  option_map (fun s => abs_top (hp s) (geth (vars s) 2)) (mrun (init 3) (ex_l0 ++ [ex_cow])) =
  option_map (fun s => abs_top (hp s) (geth (vars s) 2)) (mrun (init 3) ex_l0) /\
  option_map (fun s => abs_top (hp s) (geth (vars s) 1)) (mrun (init 3) (ex_l0 ++ [ex_cow])) <>
  option_map (fun s => abs_top (hp s) (geth (vars s) 1)) (mrun (init 3) ex_l0).
Proof. split; [|split]; vm_compute; [intuition discriminate|reflexivity|discriminate]. Qed.

Example ex_equal_copy_then_different :
  option_map (fun s => meq_top (hp s) (geth (vars s) 1) (geth (vars s) 2)) (mrun (init 3) ex_l0) = Some (Some true) /\
  option_map (fun s => meq_top (hp s) (geth (vars s) 1) (geth (vars s) 2)) (mrun (init 3) (ex_l0 ++ [ex_cow])) = Some (Some false).
Proof. split; vm_compute; reflexivity. Qed.

Example ex_freed :
  option_map (fun s => option_map live_blocks (destroy_all s)) (mrun (init 3) (ex_l0 ++ [ex_cow])) = Some (Some O).
Proof. vm_compute. reflexivity. Qed.

Example ex_reachable : exists s, reachable s /\ (exists b, rcof (hp s) b = 4%nat) /\ held (hp s) (vars s) (HB 0).
Proof.
  eexists. split; [exists 3%nat, ex_l0; split; vm_compute; reflexivity|]. split.
  - exists 1%nat. vm_compute. reflexivity.
  - right. exists 1%nat. eexists. split; [vm_compute; reflexivity|]. split; [discriminate|]. cbn. auto.
Qed.

Example ex_assigned : assigned_value (spec_run (spec_init 3) ex_l0) (OSetScalar 1 [(KList, ByIdx 0)] (SInt 7)) = Some (1%nat, [(KList, ByIdx 0)], VS (SInt 7)) /\
  snd (spec_step (spec_run (spec_init 3) ex_l0) (OSetScalar 1 [(KList, ByIdx 0)] (SInt 7))) = Done.
Proof. split; vm_compute; reflexivity. Qed.

(* the hypothesis of the history theorems: the example history (with the copy-on-write step and the two assignments from
   a reference into the assigned Variant's own payload) is admissible ... *)
Example ex_admissible : admissible (spec_init 3) (ex_l0 ++ [ex_cow; ex_str_from_own; ex_node_from_own]) = true.
Proof. vm_compute. reflexivity. Qed.

(* ... and operations outside it exist: `v1.toList().front() = v1`, and `f = cv0.toMap()` with f two levels below v0 *)
Example ex_self_containing :
  self_containing (spec_run (spec_init 3) ex_l0) (OAssign 1 [(KList, ByIdx 0)] 1 []) = true /\
  self_containing (spec_run (spec_init 3) ex_l0) (OAssignNodeFrom 0 [(KMap, ByKey [107%Z]); (KList, ByIdx 0)] 0 [] KMap) = true /\
  self_containing (spec_run (spec_init 3) ex_l0) (OAssignNodeFrom 0 [(KMap, ByKey [107%Z])] 0 [] KMap) = false.
Proof. repeat split; vm_compute; reflexivity. Qed.

(* `v0 = v0.toMap().find("k")->toList().front().toString()` and `v1 = cv1.toList().front()...`: the argument lives inside
   the assigned Variant; value, and heap: the shared string and list blocks keep their other holders, all blocks of the old map are released, one new string block *)
Example ex_from_own_payload :
  assigned_value (spec_run (spec_init 3) ex_l0) ex_str_from_own = Some (0%nat, [], VStr [97; 98]%Z) /\
  option_map (fun s => (abs_top (hp s) (geth (vars s) 0), map rc (hp s)))
             (mrun (init 3) (ex_l0 ++ [ex_str_from_own])) = Some (Some (VStr [97; 98]%Z), [2; 2; 0; 0; 0; 0; 1]%nat) /\
  option_map (fun s => abs_top (hp s) (geth (vars s) 0)) (mrun (init 3) (ex_l0 ++ [ex_node_from_own])) =
    Some (Some (VNode KList [] [VStr [97; 98]%Z; VStr [97; 98]%Z])).
Proof. repeat split; vm_compute; reflexivity. Qed.

Example ex_coercions :
  to_int (VS (SUInt 4294967295)) = Some (-1)%Z /\ to_int (VStr [49; 50; 97]%Z) = Some 12%Z /\
  to_str (VS (SInt (-2147483648))) = [45; 50; 49; 52; 55; 52; 56; 51; 54; 52; 56]%Z /\
  to_u64 (VS (SI64 (-1))) = Some 18446744073709551615%Z /\ to_dbl (VS (SInt 12)) = (3, 2)%Z /\
  veq (VS (SInt 12)) (VStr [49; 50]%Z) = Some true /\ veq (VS (SBool true)) (VS (SDbl 1 (-1))) = Some true /\
  scalar_wf (SU64 18446744073709551615) /\ int_value (SI64 (-1)) = Some (-1)%Z.
Proof. repeat split; vm_compute; try reflexivity; intuition discriminate. Qed.

Example ex_nested_equal :
  veq (VNode KMap [[107%Z]] [VNode KArray [] [VS (SDbl 3 (-1)); VStr [120%Z]; VNode KList [] []]])
      (VNode KMap [[107%Z]] [VNode KArray [] [VS (SDbl 3 (-1)); VStr [120%Z]; VNode KList [] []]]) = Some true.
Proof. vm_compute. reflexivity. Qed.

(* the model's own transcription on concrete operands: wrap of a negative int64 in toUInt64, truncation of a uint64 in
   toInt, (int)double toward zero and out of range, and the asymmetry of == (the right operand is the one converted):
   5 == (int)4294967301 holds, 4294967301 == (int64)5 does not; "12" == 12 through the scalar side in both orders *)
Example ex_transcribed_observers :
  m_to_u64 [] (HS (SI64 (-5))) = Some 18446744073709551611%Z /\ m_to_u64 [] (HS (SInt (-1))) = Some 18446744073709551615%Z /\
  m_to_int [] (HS (SU64 18446744073709551615)) = Some (-1)%Z /\ m_to_uint [] (HS (SI64 (-4294967295))) = Some 1%Z /\
  m_to_int [] (HS (SDbl (-7) (-1))) = Some (-3)%Z /\ m_to_int [] (HS (SDbl 1 31)) = None /\ m_to_uint [] (HS (SDbl 1 31)) = Some 2147483648%Z /\
  m_to_dbl [] (HS (SU64 18446744073709551615)) = (1, 64)%Z /\ m_to_str [] (HS (SBool true)) = [116; 114; 117; 101]%Z /\
  meq_top [] (HS (SInt 5)) (HS (SI64 4294967301)) = Some true /\ meq_top [] (HS (SI64 4294967301)) (HS (SInt 5)) = Some false /\
  (let H := [{| rc := 1; dp := 0; pl := PStr [49; 50]%Z |}] in
   m_type H (HB 0) = 10%Z /\ m_to_int H (HB 0) = Some 12%Z /\ readable H (HB 0) /\
   meq_top H (HB 0) (HS (SInt 12)) = Some true /\ meq_top H (HS (SInt 12)) (HB 0) = Some true /\
   meq_top H (HB 0) (HS (SBool false)) = Some false /\ meq_top H (HB 0) (HS SNull) = Some false).
Proof. repeat split; try (vm_compute; reflexivity). vm_compute. discriminate. Qed.


(* round 5: the open region is inhabited on both sides.  "99999999999999999999999": no 32/64-bit type holds it, the
   reference (= the code) answers -1 / 2^63-1; "-5" is decided for the signed and open for the unsigned conversions;
   {a:1,b:2} against {b:2,a:1} is open (the reference says different), against {a:1,c:2} decided (different), against
   {a:1,b:3} decided (different), against itself decided (equal) *)
Example ex_text_open :
  (let big := VStr [57;57;57;57;57;57;57;57;57;57;57;57;57;57;57;57;57;57;57;57;57;57;57] in
  let m5 := VStr [45; 53] in
  let mp ks a b := VNode KMap ks [VS (SInt a); VS (SInt b)] in
  let ab := mp [[97]; [98]] 1 2 in
  (int_pinned big = false /\ to_int big = Some (-1) /\ i64_pinned big = false /\ to_i64 big = Some 9223372036854775807 /\
   u64_pinned big = false) /\
  (int_pinned m5 = true /\ to_int m5 = Some (-5) /\ uint_pinned m5 = false /\ u64_pinned m5 = false /\ i64_pinned m5 = true) /\
  (veq_pinned (VS (SInt (-1))) big = false /\ veq (VS (SInt (-1))) big = Some true /\ veq_pinned big (VS (SInt 7)) = false /\
   veq_pinned (VS (SDbl 1 0)) big = true /\ veq_pinned (VS (SBool true)) big = true) /\
  (veq_pinned ab (mp [[98]; [97]] 2 1) = false /\ veq ab (mp [[98]; [97]] 2 1) = Some false) /\
  (veq_pinned ab (mp [[97]; [99]] 1 2) = true /\ veq ab (mp [[97]; [99]] 1 2) = Some false) /\
  (veq_pinned ab (mp [[97]; [98]] 1 3) = true /\ veq ab (mp [[97]; [98]] 1 3) = Some false) /\
  (veq_pinned ab ab = true /\ veq ab ab = Some true) /\
  (veq_pinned (VNode KList [] [ab; big]) (VNode KList [] [mp [[98]; [97]] 2 1; big]) = false) /\
  (veq_pinned (VNode KList [] [VS (SInt 1); ab]) (VNode KList [] [VS (SInt 2); mp [[98]; [97]] 2 1]) = true))%Z.
Proof. vm_compute. repeat split. Qed.

(* two different blocks holding the same nested value: [["a"]] built twice; the roots and the inner lists are different
   handles denoting equal values, and compare equal *)
Example ex_equal_values_different_blocks :
  option_map (fun s => (vars s, meq_top (hp s) (HB 2) (HB 5), meq 4 (hp s) (HB 1) (HB 4), meq_top (hp s) (HB 5) (HB 0)))
    (mrun (init 3) [OSetStr 2 [] [97]%Z; OSetNode 2 [] KList [([], 2%nat)]; OSetNode 0 [] KList [([], 2%nat)];
                    OSetStr 2 [] [97]%Z; OSetNode 2 [] KList [([], 2%nat)]; OSetNode 1 [] KList [([], 2%nat)]])
  = Some ([HB 2; HB 5; HB 4], Some true, Some true, Some false).
Proof. vm_compute. reflexivity. Qed.
