(* C07 - path mutations, the leaves, and every operation of the history language:
   invariant preservation + never failing + refinement of the value model, in one statement each. *)
From Coq Require Import ZArith List Bool Lia Arith.
From Common Require Import Words ListAux.
From Variant Require Import VariantSpec VariantModel VariantProofs VariantSpecProofs VariantHeap VariantRefine.
Import ListNotations.
Local Open Scope nat_scope.

Ltac cnt_lia := intro; repeat (rewrite ?cnt_app; cbn [cnt app]); lia.
Ltac splits := repeat match goal with |- _ /\ _ => split end.

(* ------------------------------------------------------------------------------------------ *)
(* handles that are held somewhere: roots and children of live blocks                           *)
(* ------------------------------------------------------------------------------------------ *)

Definition held (H : heap) (R : list handle) (h : handle) : Prop :=
  In h R \/ exists c blk, nth_error H c = Some blk /\ rc blk <> 0 /\ In h (children (pl blk)).

Lemma held_live H R b : Inv H R -> held H R (HB b) -> rcof H b <> 0.
Proof.
  intros I [J|(c & blk & E & L & J)].
  - eapply Inv_root_live; eauto.
  - eapply Inv_child_live; eauto.
Qed.

Lemma held_lookup H R b : Inv H R -> held H R (HB b) ->
  exists blk, nth_error H b = Some blk /\ rc blk <> 0 /\ lookup H b = Some (pl blk).
Proof.
  intros I Hd. pose proof (held_live H R b I Hd) as L. unfold rcof in L.
  destruct (nth_error H b) as [blk|] eqn:E; [|lia]. exists blk. splits; auto. apply lookup_live; auto.
Qed.

(* ------------------------------------------------------------------------------------------ *)
(* mutable navigation                                                                           *)
(* ------------------------------------------------------------------------------------------ *)

Definition closed (P : heap -> Prop) : Prop := forall H H', ext H H' -> P H -> P H'.

Definition leaf_spec (leaf : heap -> handle -> option (heap * handle)) (vleaf : value -> value)
           (X : list handle) (P : heap -> Prop) : Prop :=
  forall H h R v, Inv H (h :: X ++ R) -> P H -> den H v h ->
    exists H' h', leaf H h = Some (H', h') /\ Inv H' (h' :: R) /\ ext H H' /\ den H' (vleaf v) h'.

Lemma mupd_ok leaf vleaf X P :
  leaf_spec leaf vleaf X P -> closed P ->
  forall p H h R v, Inv H (h :: X ++ R) -> P H -> den H v h ->
    exists H' h' ok, mupd p leaf H h = Some (H', h', ok) /\
      Inv H' (h' :: (if ok then R else X ++ R)) /\ ext H H' /\
      den H' (fst (vupd p vleaf v)) h' /\ snd (vupd p vleaf v) = ok.
Proof.
  intros LS CL. induction p as [|[k s] p' IH]; intros H h R v I PH D.
  - cbn [mupd]. destruct (LS H h R v I PH D) as (H' & h' & E & I' & X' & D'). rewrite E.
    exists H', h', true. splits; auto.
  - cbn [mupd]. destruct (open_mut_ok k H h (X ++ R) I) as (H1 & ks & hs & E1 & I1 & X1 & D1). rewrite E1.
    destruct (D1 v D) as (vs & V & F).
    pose proof (Forall2_len _ _ _ F) as LEN.
    cbn [vupd]. rewrite V. rewrite LEN.
    destruct (find_child ks (length hs) s) as [i|] eqn:FC.
    + pose proof (find_child_lt _ _ _ _ FC) as Li.
      set (c := nth i hs HNull).
      assert (I1' : Inv H1 (c :: X ++ (rem_at i hs ++ R))).
      { eapply Inv_perm; [|exact I1]. intro b. pose proof (cnt_rem_at b i hs HNull Li) as Q. fold c in Q.
        repeat (rewrite ?cnt_app; cbn [cnt app]). lia. }
      assert (Dc : den H1 (nth i vs VNull) c) by (apply Forall2_nth; auto).
      destruct (IH H1 c (rem_at i hs ++ R) _ I1' (CL _ _ X1 PH) Dc) as (H2 & c' & ok & E2 & I2 & X2 & Dc' & OK).
      rewrite E2.
      destruct (alloc H2 (PNode k ks (upd i c' hs))) as [H3 h3] eqn:A.
      exists H3, h3, ok.
      assert (I2' : Inv H2 (children (PNode k ks (upd i c' hs)) ++ (if ok then R else X ++ R))).
      { eapply Inv_perm; [|exact I2]. intro b. cbn [children].
        pose proof (cnt_rem_at b i hs HNull Li). pose proof (cnt_upd b i c' hs HNull Li).
        destruct ok; repeat (rewrite ?cnt_app; cbn [cnt app]); lia. }
      destruct (alloc_ok H2 _ _ H3 h3 I2' A) as (I3 & X3 & b3 & blk3 & -> & E3 & P3).
      destruct (vupd p' vleaf (nth i vs VNull)) as [cv okv]. cbn [fst snd] in *.
      splits; auto; [eapply ext_trans; [exact X1|eapply ext_trans; eauto]|].
      apply den_node. exists b3, blk3, (upd i c' hs). splits; auto.
      apply Forall2_upd; [eapply Forall2_den_ext; [|exact F]; eapply ext_trans; eauto|eapply den_ext; eauto].
    + destruct (alloc H1 (PNode k ks hs)) as [H2 h2] eqn:A.
      exists H2, h2, false.
      destruct (alloc_ok H1 (X ++ R) (PNode k ks hs) H2 h2 I1 A) as (I2 & X2 & b2 & blk2 & -> & E2 & P2).
      cbn [fst snd]. splits; auto; [eapply ext_trans; eauto|].
      apply den_node. exists b2, blk2, hs. splits; auto. eapply Forall2_den_ext; eauto.
Qed.

(* ------------------------------------------------------------------------------------------ *)
(* leaves                                                                                       *)
(* ------------------------------------------------------------------------------------------ *)

Lemma closed_true : closed (fun _ => True).
Proof. intros ? ? ? ?. auto. Qed.

Lemma closed_den xv x : closed (fun H => den H xv x).
Proof. intros H H' X D. eapply den_ext; eauto. Qed.

Lemma leaf_spec_null leaf vleaf P : leaf_spec leaf vleaf [] P -> leaf_spec leaf vleaf [HNull] P.
Proof. intros LS H h R v I PH D. apply LS; auto. Qed.

Lemma leaf_id_spec : leaf_spec leaf_id (fun v => v) [] (fun _ => True).
Proof.
  intros H h R v I _ D. exists H, h. unfold leaf_id. splits; auto. apply ext_refl.
Qed.

Lemma leaf_set_spec x xv : leaf_spec (leaf_set x) (fun _ => xv) [x] (fun H => den H xv x).
Proof.
  intros H h R v I D _. unfold leaf_set. destruct (release_top_ok H h ([x] ++ R) I) as (H' & E & I' & X' & _).
  rewrite E. exists H', x. splits; auto. eapply den_ext; eauto.
Qed.

Lemma leaf_setstr_spec b : leaf_spec (leaf_setstr b) (fun _ => VStr b) [] (fun _ => True).
Proof.
  intros H h R v I _ _. unfold leaf_setstr. destruct (release_top_ok H h R I) as (H' & E & I' & X' & _).
  rewrite E. destruct (alloc H' (PStr b)) as [H2 h2] eqn:A.
  destruct (alloc_str_den H' R b H2 h2 I' A) as (I2 & X2 & D2).
  exists H2, h2. splits; auto. eapply ext_trans; eauto.
Qed.

Lemma mto_str_den H R h v : Inv H R -> In h R -> den H v h -> mto_str H h = to_str v.
Proof.
  intros I J D. destruct h as [s|b]; cbn [mto_str].
  - apply den_scalar_inv in D. subst v. reflexivity.
  - destruct (held_lookup H R b I (or_introl J)) as (blk & E & L & LK). rewrite LK.
    destruct (pl blk) as [s|k ks hs] eqn:P.
    + rewrite (den_str_inv H v b blk s D E P). reflexivity.
    + destruct (den_node_inv H v b blk k ks hs D E P) as (vs & -> & _). reflexivity.
Qed.

Lemma leaf_str_spec sfx : leaf_spec (leaf_str sfx) (fun v => VStr (to_str v ++ sfx)) [] (fun _ => True).
Proof.
  intros H h R v I _ D. unfold leaf_str. destruct (release_top_ok H h R I) as (H' & E & I' & X' & _).
  rewrite E. destruct (alloc H' (PStr (mto_str H h ++ sfx))) as [H2 h2] eqn:A.
  destruct (alloc_str_den H' R _ H2 h2 I' A) as (I2 & X2 & D2).
  exists H2, h2. splits; auto; [eapply ext_trans; eauto|].
  rewrite <- (mto_str_den H (h :: R) h v I (or_introl eq_refl) D). exact D2.
Qed.

Lemma leaf_strtouch_spec : leaf_spec (leaf_str []) (fun v => VStr (to_str v)) [] (fun _ => True).
Proof.
  intros H h R v I T D. destruct (leaf_str_spec [] H h R v I T D) as (H' & h' & E & I' & X' & D').
  exists H', h'. splits; auto. rewrite app_nil_r in D'. exact D'.
Qed.

(* ------------------------------------------------------------------------------------------ *)
(* container operations                                                                         *)
(* ------------------------------------------------------------------------------------------ *)

Definition cop_args (c : cop) (arg : handle) : list handle :=
  match c with CIns _ _ => [arg] | _ => [] end.

Definition cop_pre (c : cop) (argv : value) (arg : handle) (H : heap) : Prop :=
  match c with CIns _ _ => den H argv arg | _ => True end.

Lemma closed_cop_pre c argv arg : closed (cop_pre c argv arg).
Proof. destruct c; cbn [cop_pre]; try apply closed_true. apply closed_den. Qed.

Lemma mcop_ok k c arg argv ks hs vs H R :
  Inv H (cop_args c arg ++ hs ++ R) -> cop_pre c argv arg H -> Forall2 (den H) vs hs ->
  exists H' ks' hs', mcop k c arg ks hs H = Some (H', ks', hs') /\ Inv H' (hs' ++ R) /\ ext H H' /\
    exists vs', vcop k c argv ks vs = (ks', vs') /\ Forall2 (den H') vs' hs'.
Proof.
  intros I PRE F. pose proof (Forall2_len _ _ _ F) as LEN.
  destruct c as [|n key|n|key|]; cbn [mcop vcop cop_args cop_pre app] in *.
  - (* touch *) exists H, ks, hs. splits; auto; [apply ext_refl|]. exists vs. auto.
  - (* insert *)
    assert (PLAIN : exists H' ks' hs', Some (H, ks, ins_at n arg hs) = Some (H', ks', hs') /\ Inv H' (hs' ++ R) /\ ext H H' /\
              exists vs', (ks, ins_at n argv vs) = (ks', vs') /\ Forall2 (den H') vs' hs').
    { exists H, ks, (ins_at n arg hs). splits; auto; [|apply ext_refl|].
      - eapply Inv_perm; [|exact I]. intro b. rewrite !cnt_app, cnt_ins_at. cbn [cnt]. rewrite cnt_app. lia.
      - exists (ins_at n argv vs). split; auto. apply Forall2_ins_at; auto. }
    destruct k; auto.
    destruct (key_index ks key) as [i|] eqn:KI.
    + rewrite LEN. destruct (i <? length hs) eqn:Li.
      * apply Nat.ltb_lt in Li.
        assert (I' : Inv H (nth i hs HNull :: (arg :: rem_at i hs ++ R))).
        { eapply Inv_perm; [|exact I]. intro b. pose proof (cnt_rem_at b i hs HNull Li).
          repeat (rewrite ?cnt_app; cbn [cnt app]). lia. }
        destruct (release_top_ok H _ _ I') as (H' & E & I2 & X2 & _). rewrite E.
        exists H', ks, (upd i arg hs). splits; auto.
        -- eapply Inv_perm; [|exact I2]. intro b. pose proof (cnt_rem_at b i hs HNull Li).
           pose proof (cnt_upd b i arg hs HNull Li). repeat (rewrite ?cnt_app; cbn [cnt app]). lia.
        -- exists (upd i argv vs). split; auto.
           apply Forall2_upd; [eapply Forall2_den_ext; eauto|eapply den_ext; eauto].
      * destruct (release_top_ok H arg (hs ++ R) I) as (H' & E & I2 & X2 & _). rewrite E.
        exists H', ks, hs. splits; auto. exists vs. split; auto. eapply Forall2_den_ext; eauto.
    + exists H, (ins_at n key ks), (ins_at n arg hs). splits; auto; [|apply ext_refl|].
      * eapply Inv_perm; [|exact I]. intro b. rewrite !cnt_app, cnt_ins_at. cbn [cnt]. rewrite cnt_app. lia.
      * exists (ins_at n argv vs). split; auto. apply Forall2_ins_at; auto.
  - (* remove at *)
    rewrite LEN. destruct (n <? length hs) eqn:Ln.
    + apply Nat.ltb_lt in Ln.
      assert (I' : Inv H (nth n hs HNull :: (rem_at n hs ++ R))).
      { eapply Inv_perm; [|exact I]. intro b. pose proof (cnt_rem_at b n hs HNull Ln).
        repeat (rewrite ?cnt_app; cbn [cnt app]). lia. }
      destruct (release_top_ok H _ _ I') as (H' & E & I2 & X2 & _). rewrite E.
      exists H', (rem_at n ks), (rem_at n hs). splits; auto.
      exists (rem_at n vs). split; auto. apply Forall2_rem_at. eapply Forall2_den_ext; eauto.
    + exists H, ks, hs. splits; auto; [apply ext_refl|]. exists vs. auto.
  - (* remove key *)
    destruct (key_index ks key) as [i|] eqn:KI.
    + rewrite LEN. destruct (i <? length hs) eqn:Li.
      * apply Nat.ltb_lt in Li.
        assert (I' : Inv H (nth i hs HNull :: (rem_at i hs ++ R))).
        { eapply Inv_perm; [|exact I]. intro b. pose proof (cnt_rem_at b i hs HNull Li).
          repeat (rewrite ?cnt_app; cbn [cnt app]). lia. }
        destruct (release_top_ok H _ _ I') as (H' & E & I2 & X2 & _). rewrite E.
        exists H', (rem_at i ks), (rem_at i hs). splits; auto.
        exists (rem_at i vs). split; auto. apply Forall2_rem_at. eapply Forall2_den_ext; eauto.
      * exists H, ks, hs. splits; auto; [apply ext_refl|]. exists vs. auto.
    + exists H, ks, hs. splits; auto; [apply ext_refl|]. exists vs. auto.
  - (* clear *)
    destruct (release_all_ok hs H R I) as (H' & E & I2 & X2 & _). rewrite E.
    exists H', [], []. splits; auto. exists []. auto.
Qed.

Lemma leaf_cont_spec k c arg argv :
  leaf_spec (leaf_cont k c arg) (vcont k c argv) (cop_args c arg) (cop_pre c argv arg).
Proof.
  intros H h R v I PRE D. unfold leaf_cont, vcont.
  destruct (open_mut_ok k H h (cop_args c arg ++ R) I) as (H1 & ks & hs & E1 & I1 & X1 & D1). rewrite E1.
  destruct (D1 v D) as (vs & V & F). rewrite V.
  assert (I1' : Inv H1 (cop_args c arg ++ hs ++ R)) by (eapply Inv_perm; [|exact I1]; cnt_lia).
  assert (PRE1 : cop_pre c argv arg H1) by (eapply closed_cop_pre; eauto).
  destruct (mcop_ok k c arg argv ks hs vs H1 R I1' PRE1 F) as (H2 & ks2 & hs2 & E2 & I2 & X2 & vs2 & V2 & F2).
  rewrite E2, V2.
  destruct (alloc H2 (PNode k ks2 hs2)) as [H3 h3] eqn:A.
  destruct (alloc_node_den H2 R k ks2 hs2 vs2 H3 h3 I2 F2 A) as (I3 & X3 & D3).
  exists H3, h3. splits; auto. eapply ext_trans; [exact X1|eapply ext_trans; eauto].
Qed.

(* ------------------------------------------------------------------------------------------ *)
(* building a container from variables                                                          *)
(* ------------------------------------------------------------------------------------------ *)

Definition item_rel (H : heap) (it : bytes * handle) (vit : bytes * value) : Prop :=
  fst it = fst vit /\ den H (snd vit) (snd it).

Lemma item_rel_ext H H' its vits : ext H H' -> Forall2 (item_rel H) its vits -> Forall2 (item_rel H') its vits.
Proof. intros X F. induction F as [|a b l1 l2 [A B] F IH]; constructor; auto. split; auto. eapply den_ext; eauto. Qed.

Lemma mbuild_ok k : forall items vitems ks hs vs H R,
  Forall2 (item_rel H) items vitems ->
  Inv H (map snd items ++ hs ++ R) -> Forall2 (den H) vs hs ->
  exists H' ks' hs', mbuild k items ks hs H = Some (H', ks', hs') /\ Inv H' (hs' ++ R) /\ ext H H' /\
    exists vs', vbuild k vitems ks vs = (ks', vs') /\ Forall2 (den H') vs' hs'.
Proof.
  induction items as [|[key x] t IH]; intros vitems ks hs vs H R FI I F; inversion FI as [|a [key' xv] l1 l2 [K Dx] FT]; subst.
  - cbn [mbuild vbuild map app] in *. exists H, ks, hs. splits; auto; [apply ext_refl|]. exists vs. auto.
  - cbn [fst snd] in *. subst key'. cbn [mbuild vbuild map].
    pose proof (Forall2_len _ _ _ F) as LEN.
    assert (I' : Inv H (cop_args (CIns (length hs) key) x ++ hs ++ (map snd t ++ R))).
    { eapply Inv_perm; [|exact I]. cbn [cop_args map snd]. cnt_lia. }
    destruct (mcop_ok k (CIns (length hs) key) x xv ks hs vs H (map snd t ++ R) I' Dx F)
      as (H1 & ks1 & hs1 & E1 & I1 & X1 & vs1 & V1 & F1).
    rewrite E1. rewrite LEN, V1.
    assert (I1' : Inv H1 (map snd t ++ hs1 ++ R)) by (eapply Inv_perm; [|exact I1]; cnt_lia).
    destruct (IH l2 ks1 hs1 vs1 H1 R (item_rel_ext _ _ _ _ X1 FT) I1' F1) as (H2 & ks2 & hs2 & E2 & I2 & X2 & vs2 & V2 & F2).
    exists H2, ks2, hs2. splits; auto; [eapply ext_trans; eauto|]. exists vs2. auto.
Qed.

(* ------------------------------------------------------------------------------------------ *)
(* const navigation                                                                             *)
(* ------------------------------------------------------------------------------------------ *)

Definition hheld (H : heap) (R : list handle) (h : handle) : Prop :=
  match h with HS _ => True | HB _ => held H R h end.

Lemma mopen_den k H R h v :
  Inv H R -> hheld H R h -> den H v h ->
  exists ks hs vs, mopen k H h = (ks, hs) /\ vopen k v = (ks, vs) /\ Forall2 (den H) vs hs /\ Forall (hheld H R) hs.
Proof.
  intros I Hd D. destruct h as [s|b]; cbn [mopen].
  - apply den_scalar_inv in D. subst v. exists [], [], []. splits; auto.
  - cbn [hheld] in Hd. destruct (held_lookup H R b I Hd) as (blk & E & L & LK). rewrite LK.
    destruct (pl blk) as [s|k' ks hs] eqn:P.
    + rewrite (den_str_inv H v b blk s D E P). exists [], [], []. splits; auto.
    + destruct (den_node_inv H v b blk k' ks hs D E P) as (vs & -> & F). cbn [vopen].
      destruct (kind_eqb k k').
      * exists ks, hs, vs. splits; auto. apply Forall_forall. intros c J.
        destruct c as [s|c]; cbn [hheld]; auto. right. exists b, blk. splits; auto. rewrite P. auto.
      * exists [], [], []. splits; auto.
Qed.

Lemma mread_ok : forall p H R h v,
  Inv H R -> hheld H R h -> den H v h ->
  match mread p H h with
  | Some x => exists xv, vread p v = Some xv /\ den H xv x /\ hheld H R x
  | None => vread p v = None
  end.
Proof.
  induction p as [|[k s] p' IH]; intros H R h v I Hd D; cbn [mread vread].
  - exists v. auto.
  - destruct (mopen_den k H R h v I Hd D) as (ks & hs & vs & M & V & F & HF). rewrite M, V.
    rewrite (Forall2_len _ _ _ F).
    destruct (find_child ks (length hs) s) as [i|] eqn:FC; auto.
    pose proof (find_child_lt _ _ _ _ FC) as Li.
    apply IH; auto.
    + rewrite Forall_forall in HF. apply HF. apply nth_In. auto.
    + apply Forall2_nth; auto.
Qed.

(* ------------------------------------------------------------------------------------------ *)
(* operations on a variable                                                                     *)
(* ------------------------------------------------------------------------------------------ *)

Lemma mupd_var_ok leaf vleaf X P s vs i p :
  leaf_spec leaf vleaf X P -> closed P -> i < length (vars s) ->
  Inv (hp s) (X ++ vars s) -> P (hp s) -> Forall2 (den (hp s)) vs (vars s) ->
  exists s' ok, mupd_var s i p leaf = Some (s', ok) /\
    Inv (hp s') ((if ok then [] else X) ++ vars s') /\ ext (hp s) (hp s') /\
    Forall2 (den (hp s')) (fst (vupd_var vs i p vleaf)) (vars s') /\ snd (vupd_var vs i p vleaf) = ok /\
    length (vars s') = length (vars s).
Proof.
  intros LS CL Li I PH F. unfold mupd_var, geth.
  set (h := nth i (vars s) HNull).
  assert (I' : Inv (hp s) (h :: X ++ rem_at i (vars s))).
  { eapply Inv_perm; [|exact I]. intro b. pose proof (cnt_rem_at b i (vars s) HNull Li) as Q. fold h in Q.
    repeat (rewrite ?cnt_app; cbn [cnt app]). lia. }
  assert (D : den (hp s) (nth i vs VNull) h) by (apply Forall2_nth; auto).
  destruct (mupd_ok leaf vleaf X P LS CL p (hp s) h (rem_at i (vars s)) _ I' PH D) as (H' & h' & ok & E & I2 & X2 & D2 & OK).
  rewrite E. exists {| hp := H'; vars := upd i h' (vars s) |}, ok. cbn [hp vars].
  unfold vupd_var, getv. destruct (vupd p vleaf (nth i vs VNull)) as [v' okv]. cbn [fst snd] in *.
  splits; auto.
  - eapply Inv_perm; [|exact I2]. intro b.
    pose proof (cnt_rem_at b i (vars s) HNull Li). pose proof (cnt_upd b i h' (vars s) HNull Li).
    destruct ok; repeat (rewrite ?cnt_app; cbn [cnt app]); lia.
  - apply Forall2_upd; auto. eapply Forall2_den_ext; eauto.
  - apply upd_length.
Qed.

Lemma mupd_arg_ok leaf vleaf x P s vs i p :
  leaf_spec leaf vleaf [x] P -> closed P -> i < length (vars s) ->
  Inv (hp s) (x :: vars s) -> P (hp s) -> Forall2 (den (hp s)) vs (vars s) ->
  exists s', mupd_arg s i p x leaf = Some (s', if snd (vupd_var vs i p vleaf) then Done else NoPath) /\
    Inv (hp s') (vars s') /\ ext (hp s) (hp s') /\
    Forall2 (den (hp s')) (fst (vupd_var vs i p vleaf)) (vars s') /\ length (vars s') = length (vars s).
Proof.
  intros LS CL Li I PH F. unfold mupd_arg.
  destruct (mupd_var_ok leaf vleaf [x] P s vs i p LS CL Li I PH F) as (s' & ok & E & I2 & X2 & F2 & OK & LEN).
  rewrite E, OK. destruct ok.
  - exists s'. splits; auto.
  - cbn [app] in I2. destruct (release_top_ok _ _ _ I2) as (H' & E' & I3 & X3 & _). rewrite E'.
    exists {| hp := H'; vars := vars s' |}. cbn [hp vars]. splits; auto.
    + eapply ext_trans; eauto.
    + eapply Forall2_den_ext; eauto.
Qed.

(* a path that resolved once resolves again in the result (same kinds, same child counts) *)
Lemma vupd_again g f : forall p v, snd (vupd p f v) = true -> snd (vupd p g (fst (vupd p f v))) = true.
Proof.
  induction p as [|[k s] p' IH]; intros v OK; cbn [vupd] in *; auto.
  destruct (vopen k v) as [ks vs] eqn:V.
  destruct (find_child ks (length vs) s) as [i|] eqn:FC; [|discriminate].
  pose proof (find_child_lt _ _ _ _ FC) as Li.
  destruct (vupd p' f (nth i vs VNull)) as [c ok] eqn:U. cbn [fst snd] in *. subst ok.
  cbn [vopen]. rewrite kind_eqb_refl. rewrite upd_length, FC.
  rewrite nth_upd_same by auto.
  specialize (IH (nth i vs VNull)). rewrite U in IH. cbn [fst snd] in IH.
  destruct (vupd p' g c) as [c2 ok2]. cbn [fst snd] in *. auto.
Qed.

Lemma vupd_var_again g f vs i p :
  i < length vs -> snd (vupd_var vs i p f) = true -> snd (vupd_var (fst (vupd_var vs i p f)) i p g) = true.
Proof.
  unfold vupd_var, getv. intros Li OK.
  pose proof (vupd_again g f p (nth i vs VNull)) as A.
  destruct (vupd p f (nth i vs VNull)) as [v1 ok1]. cbn [fst snd] in *.
  rewrite nth_upd_same by auto.
  destruct (vupd p g v1) as [v2 ok2]. cbn [fst snd] in *. auto.
Qed.


Lemma str_payload_den H R h v :
  Inv H R -> hheld H R h -> den H v h -> str_payload H h = match v with VStr b => Some b | _ => None end.
Proof.
  intros I Hd D. destruct h as [s|b]; cbn [str_payload].
  - apply den_scalar_inv in D. subst v. reflexivity.
  - cbn [hheld] in Hd. destruct (held_lookup H R b I Hd) as (blk & E & L & LK). rewrite LK.
    destruct (pl blk) as [s|k ks hs] eqn:P.
    + rewrite (den_str_inv H v b blk s D E P). reflexivity.
    + destruct (den_node_inv H v b blk k ks hs D E P) as (vs & -> & _). reflexivity.
Qed.

(* ------------------------------------------------------------------------------------------ *)
(* one step of a history                                                                        *)
(* ------------------------------------------------------------------------------------------ *)

Lemma hheld_root H R h : In h R -> hheld H R h.
Proof. intro J. destruct h; cbn [hheld]; auto. left. auto. Qed.

Lemma hheld_live H R h : Inv H R -> hheld H R h -> forall b, h = HB b -> rcof H b <> 0.
Proof. intros I Hd b ->. eapply held_live; eauto. Qed.

Lemma geth_In vs i : i < length vs -> In (geth vs i) vs.
Proof. intro L. unfold geth. apply nth_In. auto. Qed.

Lemma In_rem_at_other {A} (l : list A) i j d : i <> j -> j < length l -> In (nth j l d) (rem_at i l).
Proof.
  revert i j; induction l as [|h t IH]; intros [|i] [|j] N L; cbn [length rem_at nth In] in *; try lia; auto.
  - apply nth_In. lia.
  - right. apply IH; lia.
Qed.

Lemma items_rel H vs vars items :
  Forall2 (den H) vs vars ->
  forallb (fun it : bytes * nat => snd it <? length vars) items = true ->
  Forall2 (item_rel H) (map (fun it => (fst it, geth vars (snd it))) items)
                       (map (fun it => (fst it, getv vs (snd it))) items) /\
  forall h, In h (map snd (map (fun it => (fst it, geth vars (snd it))) items)) -> In h vars.
Proof.
  intros F. induction items as [|[key j] t IH]; cbn [forallb map snd fst]; intro FA.
  - split; [constructor|]. cbn. tauto.
  - apply andb_true_iff in FA. destruct FA as [Lj FA]. apply Nat.ltb_lt in Lj. destruct (IH FA) as [A B]. split.
    + constructor; auto. split; auto. cbn [fst snd]. unfold getv, geth. apply Forall2_nth; auto.
    + cbn [In]. intros h [<-|J]; auto. apply geth_In; auto.
Qed.

Theorem mstep_ok s vs o :
  Inv (hp s) (vars s) -> Forall2 (den (hp s)) vs (vars s) ->
  exists s', mstep s o = Some (s', snd (spec_step vs o)) /\ Inv (hp s') (vars s') /\
    Forall2 (den (hp s')) (fst (spec_step vs o)) (vars s') /\ ext (hp s) (hp s').
Proof.
  intros I F. pose proof (Forall2_len _ _ _ F) as LEN.
  assert (STAY : exists s', Some (s, BadVar) = Some (s', BadVar) /\ Inv (hp s') (vars s') /\
                   Forall2 (den (hp s')) vs (vars s') /\ ext (hp s) (hp s')).
  { exists s. splits; auto. apply ext_refl. }
  destruct o as [i p sc|i p b|i p k items|i p j sp|i p|i j|i j|i p|i p b|i p k c j sp|i p j sp|i p j sp k]; unfold mstep, spec_step; rewrite LEN.
  - (* OSetScalar *)
    destruct (i <? length (vars s)) eqn:Li; [|exact STAY]. apply Nat.ltb_lt in Li. rewrite let_pair.
    destruct (mupd_arg_ok (leaf_set (HS sc)) (fun _ => VS sc) (HS sc) (fun H => den H (VS sc) (HS sc)) s vs i p
                (leaf_set_spec _ _) (closed_den _ _) Li) as (s' & E & I' & X' & F' & _);
      [apply Inv_scalar; auto|reflexivity|auto|].
    exists s'. cbn [fst snd]. splits; auto.
  - (* OSetStr *)
    destruct (i <? length (vars s)) eqn:Li; [|exact STAY]. apply Nat.ltb_lt in Li. rewrite let_pair.
    destruct (mupd_arg_ok (leaf_setstr b) (fun _ => VStr b) HNull (fun _ => True) s vs i p
                (leaf_spec_null _ _ _ (leaf_setstr_spec b)) closed_true Li) as (s' & E & I' & X' & F' & _);
      [apply Inv_scalar; auto|exact Logic.I|auto|].
    exists s'. cbn [fst snd]. splits; auto.
  - (* OSetNode *)
    destruct ((i <? length (vars s)) && forallb (fun it => snd it <? length (vars s)) items) eqn:C; [|exact STAY].
    apply andb_true_iff in C. destruct C as [Li FA]. apply Nat.ltb_lt in Li.
    destruct (items_rel (hp s) vs (vars s) items F FA) as [FI IN].
    set (its := map (fun it => (fst it, geth (vars s) (snd it))) items) in *.
    set (vits := map (fun it => (fst it, getv vs (snd it))) items) in *.
    destruct (share_all_ok (map snd its) (hp s) (vars s) I) as (I0 & X0 & _).
    { intros b J. eapply Inv_root_live; eauto. }
    set (H0 := fold_left share (map snd its) (hp s)) in *.
    destruct (mbuild_ok k its vits [] [] [] H0 (vars s) (item_rel_ext _ _ _ _ X0 FI)) as (H1 & ks & hs & E1 & I1 & X1 & xs & VB & F1);
      [exact I0|constructor|].
    rewrite E1, VB.
    destruct (alloc H1 (PNode k ks hs)) as [H2 x] eqn:A.
    destruct (alloc_node_den H1 (vars s) k ks hs xs H2 x I1 F1 A) as (I2 & X2 & D2).
    assert (X02 : ext (hp s) H2) by (eapply ext_trans; [exact X0|eapply ext_trans; eauto]).
    rewrite let_pair.
    destruct (mupd_arg_ok (leaf_set x) (fun _ => VNode k ks xs) x (fun H => den H (VNode k ks xs) x)
                {| hp := H2; vars := vars s |} vs i p (leaf_set_spec _ _) (closed_den _ _) Li) as (s' & E & I' & X' & F' & _);
      cbn [hp vars]; auto; [eapply Forall2_den_ext; eauto|].
    exists s'. cbn [fst snd hp vars] in *. splits; auto. eapply ext_trans; eauto.
  - (* OAssign *)
    destruct ((i <? length (vars s)) && (j <? length (vars s))) eqn:C; [|exact STAY].
    apply andb_true_iff in C. destruct C as [Li Lj]. apply Nat.ltb_lt in Li. apply Nat.ltb_lt in Lj.
    destruct (mupd_var_ok leaf_id (fun v => v) [] (fun _ => True) s vs i p leaf_id_spec closed_true Li I Logic.I F)
      as (s1 & ok & E1 & I1 & X1 & F1 & OK & LEN1).
    rewrite E1, let_pair, OK. destruct ok; cbn [app] in I1.
    + set (vs1 := fst (vupd_var vs i p (fun v => v))) in *.
      assert (Lj1 : j < length (vars s1)) by lia.
      pose proof (mread_ok sp (hp s1) (vars s1) (geth (vars s1) j) (getv vs1 j) I1
                    (hheld_root _ _ _ (geth_In _ _ Lj1)) (Forall2_nth _ _ _ _ _ _ F1 Lj1)) as MR.
      destruct (mread sp (hp s1) (geth (vars s1) j)) as [x|].
      * destruct MR as (xv & VR & Dx & Hx). rewrite VR.
        destruct (share_ok (hp s1) (vars s1) x I1 (hheld_live _ _ _ I1 Hx)) as [Is Xs].
        destruct (mupd_arg_ok (leaf_set x) (fun _ => xv) x (fun H => den H xv x)
                    {| hp := share (hp s1) x; vars := vars s1 |} vs1 i p (leaf_set_spec _ _) (closed_den _ _))
          as (s' & E & I' & X' & F' & _); cbn [hp vars]; auto; try lia;
          [eapply den_ext; eauto|eapply Forall2_den_ext; eauto|].
        subst vs1. rewrite (vupd_var_again (fun _ => xv) (fun v => v) vs i p) in E by (auto; lia).
        exists s'. cbn [fst snd hp vars] in *. splits; auto.
        eapply ext_trans; [exact X1|eapply ext_trans; eauto].
      * rewrite MR. exists s1. cbn [fst snd]. splits; auto.
    + exists s1. cbn [fst snd]. splits; auto.
  - (* OClear *)
    destruct (i <? length (vars s)) eqn:Li; [|exact STAY]. apply Nat.ltb_lt in Li. rewrite let_pair.
    destruct (mupd_arg_ok (leaf_set HNull) (fun _ => VNull) HNull (fun H => den H VNull HNull) s vs i p
                (leaf_set_spec _ _) (closed_den _ _) Li) as (s' & E & I' & X' & F' & _);
      [apply Inv_scalar; auto|reflexivity|auto|].
    exists s'. cbn [fst snd]. splits; auto.
  - (* OSwap *)
    destruct ((i <? length (vars s)) && (j <? length (vars s))) eqn:C; [|exact STAY].
    apply andb_true_iff in C. destruct C as [Li Lj]. apply Nat.ltb_lt in Li. apply Nat.ltb_lt in Lj.
    eexists. split; [reflexivity|]. cbn [fst snd hp vars]. splits; [| |apply ext_refl].
    + eapply Inv_perm; [|exact I]. intro b. unfold geth.
      pose proof (cnt_upd b j (nth i (vars s) HNull) (vars s) HNull Lj) as A.
      assert (Li' : i < length (upd j (nth i (vars s) HNull) (vars s))) by (rewrite upd_length; auto).
      pose proof (cnt_upd b i (nth j (vars s) HNull) _ HNull Li') as B.
      assert (Q : nth i (upd j (nth i (vars s) HNull) (vars s)) HNull = nth i (vars s) HNull).
      { destruct (Nat.eq_dec j i) as [->|N]; [apply nth_upd_same; auto|apply nth_upd_other; auto]. }
      rewrite Q in B. lia.
    + unfold getv, geth. apply Forall2_upd; [apply Forall2_upd; auto|]; apply Forall2_nth; auto.
  - (* OCopyNew *)
    destruct ((i <? length (vars s)) && (j <? length (vars s)) && negb (i =? j)) eqn:C; [|exact STAY].
    apply andb_true_iff in C. destruct C as [C NE]. apply andb_true_iff in C. destruct C as [Li Lj].
    apply Nat.ltb_lt in Li. apply Nat.ltb_lt in Lj. apply negb_true_iff in NE. apply Nat.eqb_neq in NE.
    assert (I' : Inv (hp s) (geth (vars s) i :: rem_at i (vars s))).
    { eapply Inv_perm; [|exact I]. intro b. pose proof (cnt_rem_at b i (vars s) HNull Li). unfold geth. cbn [cnt]. lia. }
    destruct (release_top_ok _ _ _ I') as (H1 & E1 & I1 & X1 & _). rewrite E1.
    destruct (share_ok H1 (rem_at i (vars s)) (geth (vars s) j) I1) as [I2 X2].
    { intros b Q. eapply Inv_root_live; [exact I1|]. rewrite <- Q. unfold geth. apply In_rem_at_other; auto. }
    eexists. split; [reflexivity|]. cbn [fst snd hp vars]. splits.
    + eapply Inv_perm; [|exact I2]. intro b. pose proof (cnt_rem_at b i (vars s) HNull Li).
      pose proof (cnt_upd b i (geth (vars s) j) (vars s) HNull Li). cbn [cnt]. lia.
    + assert (X12 : ext (hp s) (share H1 (geth (vars s) j))) by (eapply ext_trans; eauto).
      apply Forall2_upd; [eapply Forall2_den_ext; eauto|].
      eapply den_ext; [exact X12|]. unfold getv, geth. apply Forall2_nth; auto.
    + eapply ext_trans; eauto.
  - (* OStrTouch *)
    destruct (i <? length (vars s)) eqn:Li; [|exact STAY]. apply Nat.ltb_lt in Li. rewrite let_pair.
    destruct (mupd_arg_ok (leaf_str []) (fun v => VStr (to_str v)) HNull (fun _ => True) s vs i p
                (leaf_spec_null _ _ _ leaf_strtouch_spec) closed_true Li) as (s' & E & I' & X' & F' & _);
      [apply Inv_scalar; auto|exact Logic.I|auto|].
    exists s'. cbn [fst snd]. splits; auto.
  - (* OStrAppend *)
    destruct (i <? length (vars s)) eqn:Li; [|exact STAY]. apply Nat.ltb_lt in Li. rewrite let_pair.
    destruct (mupd_arg_ok (leaf_str b) (fun v => VStr (to_str v ++ b)) HNull (fun _ => True) s vs i p
                (leaf_spec_null _ _ _ (leaf_str_spec b)) closed_true Li) as (s' & E & I' & X' & F' & _);
      [apply Inv_scalar; auto|exact Logic.I|auto|].
    exists s'. cbn [fst snd]. splits; auto.
  - (* OCont *)
    destruct ((i <? length (vars s)) && (j <? length (vars s))) eqn:C; [|exact STAY].
    apply andb_true_iff in C. destruct C as [Li Lj]. apply Nat.ltb_lt in Li. apply Nat.ltb_lt in Lj.
    destruct (mupd_var_ok (leaf_cont k CTouch HNull) (vcont k CTouch VNull) [] (cop_pre CTouch VNull HNull) s vs i p
                (leaf_cont_spec k CTouch HNull VNull) (closed_cop_pre _ _ _) Li I Logic.I F)
      as (s1 & ok & E1 & I1 & X1 & F1 & OK & LEN1).
    rewrite E1, let_pair, OK. destruct ok; cbn [app] in I1.
    + assert (Li1 : i < length (vars s1)) by lia.
      assert (Lj1 : j < length (vars s1)) by lia.
      assert (OTHER : forall c', cop_args c' HNull = [] ->
                exists s', mupd_arg s1 i p HNull (leaf_cont k c' HNull) = Some (s', Done) /\ Inv (hp s') (vars s') /\
                  Forall2 (den (hp s')) (fst (vupd_var (fst (vupd_var vs i p (vcont k CTouch VNull))) i p (vcont k c' VNull))) (vars s') /\
                  ext (hp s) (hp s')).
      { intros c' CA.
        assert (LS : leaf_spec (leaf_cont k c' HNull) (vcont k c' VNull) [HNull] (cop_pre c' VNull HNull)).
        { apply leaf_spec_null. pose proof (leaf_cont_spec k c' HNull VNull) as LS. rewrite CA in LS. exact LS. }
        assert (PRE : cop_pre c' VNull HNull (hp s1)) by (destruct c'; cbn [cop_pre]; auto; discriminate CA).
        assert (I1n : Inv (hp s1) (HNull :: vars s1)) by (apply Inv_scalar; auto).
        destruct (mupd_arg_ok (leaf_cont k c' HNull) (vcont k c' VNull) HNull (cop_pre c' VNull HNull) s1
                    (fst (vupd_var vs i p (vcont k CTouch VNull))) i p LS (closed_cop_pre _ _ _) Li1 I1n PRE F1)
          as (s' & E & I' & X' & F' & _).
        rewrite (vupd_var_again (vcont k c' VNull) (vcont k CTouch VNull) vs i p) in E by (auto; lia).
        exists s'. splits; auto. eapply ext_trans; eauto. }
      destruct c as [|n key|n|key|]; cbn [fst snd]; try (apply OTHER; reflexivity).
      set (vs1 := fst (vupd_var vs i p (vcont k CTouch VNull))) in *.
      pose proof (mread_ok sp (hp s1) (vars s1) (geth (vars s1) j) (getv vs1 j) I1
                    (hheld_root _ _ _ (geth_In _ _ Lj1)) (Forall2_nth _ _ _ _ _ _ F1 Lj1)) as MR.
      destruct (mread sp (hp s1) (geth (vars s1) j)) as [x|].
      * destruct MR as (xv & VR & Dx & Hx). rewrite VR.
        destruct (share_ok (hp s1) (vars s1) x I1 (hheld_live _ _ _ I1 Hx)) as [Is Xs].
        destruct (mupd_arg_ok (leaf_cont k (CIns n key) x) (vcont k (CIns n key) xv) x (cop_pre (CIns n key) xv x)
                    {| hp := share (hp s1) x; vars := vars s1 |} vs1 i p (leaf_cont_spec k (CIns n key) x xv) (closed_cop_pre _ _ _))
          as (s' & E & I' & X' & F' & _); cbn [hp vars cop_pre]; auto;
          [eapply den_ext; eauto|eapply Forall2_den_ext; eauto|].
        subst vs1. rewrite (vupd_var_again (vcont k (CIns n key) xv) (vcont k CTouch VNull) vs i p) in E by (auto; lia).
        exists s'. cbn [fst snd hp vars] in *. splits; auto.
        eapply ext_trans; [exact X1|eapply ext_trans; eauto].
      * rewrite MR. exists s1. cbn [fst snd]. splits; auto.
    + exists s1. cbn [fst snd]. splits; auto.
  - (* OAssignStrFrom *)
    destruct ((i <? length (vars s)) && (j <? length (vars s))) eqn:C; [|exact STAY].
    apply andb_true_iff in C. destruct C as [Li Lj]. apply Nat.ltb_lt in Li. apply Nat.ltb_lt in Lj.
    assert (NOSRC : exists s', Some (s, NoSrc) = Some (s', NoSrc) /\ Inv (hp s') (vars s') /\
                      Forall2 (den (hp s')) vs (vars s') /\ ext (hp s) (hp s')).
    { exists s. splits; auto. apply ext_refl. }
    pose proof (mread_ok sp (hp s) (vars s) (geth (vars s) j) (getv vs j) I
                  (hheld_root _ _ _ (geth_In _ _ Lj)) (Forall2_nth _ _ _ _ _ _ F Lj)) as MR.
    destruct (mread sp (hp s) (geth (vars s) j)) as [x|]; [|rewrite MR; exact NOSRC].
    destruct MR as (xv & VR & Dx & Hx). rewrite VR.
    rewrite (str_payload_den (hp s) (vars s) x xv I Hx Dx).
    destruct xv as [sc|b|k ks xs]; try exact NOSRC.
    (* the mutable navigation of the source changes no value *)
    destruct (mupd_var_ok (leaf_str []) (fun v => VStr (to_str v)) [] (fun _ => True) s vs j sp
                leaf_strtouch_spec closed_true Lj I Logic.I F) as (s0 & ok0 & E0 & I0 & X0 & F0 & _ & LEN0).
    rewrite (vupd_var_fix (fun v => VStr (to_str v)) vs j sp (VStr b) VR eq_refl) in F0. cbn [fst] in F0.
    rewrite E0. assert (I0' : Inv (hp s0) (vars s0)) by (destruct ok0; exact I0). clear I0.
    assert (Li0 : i < length (vars s0)) by lia.
    destruct (mupd_var_ok leaf_id (fun v => v) [] (fun _ => True) s0 vs i p leaf_id_spec closed_true Li0 I0' Logic.I F0)
      as (s1 & ok & E1 & I1 & X1 & F1 & OK & LEN1).
    rewrite E1, let_pair, OK. destruct ok; cbn [app] in I1.
    + set (vs1 := fst (vupd_var vs i p (fun v => v))) in *.
      assert (Li1 : i < length (vars s1)) by lia.
      destruct (mupd_arg_ok (leaf_setstr b) (fun _ => VStr b) HNull (fun _ => True) s1 vs1 i p
                  (leaf_spec_null _ _ _ (leaf_setstr_spec b)) closed_true Li1) as (s' & E & I' & X' & F' & _);
        [apply Inv_scalar; auto|exact Logic.I|auto|].
      subst vs1. rewrite (vupd_var_again (fun _ => VStr b) (fun v => v) vs i p) in E by (auto; lia).
      exists s'. cbn [fst snd]. splits; auto.
      eapply ext_trans; [exact X0|eapply ext_trans; eauto].
    + exists s1. cbn [fst snd]. splits; auto. eapply ext_trans; eauto.
  - (* OAssignNodeFrom *)
    destruct ((i <? length (vars s)) && (j <? length (vars s))) eqn:C; [|exact STAY].
    apply andb_true_iff in C. destruct C as [Li Lj]. apply Nat.ltb_lt in Li. apply Nat.ltb_lt in Lj.
    destruct (mupd_var_ok leaf_id (fun v => v) [] (fun _ => True) s vs i p leaf_id_spec closed_true Li I Logic.I F)
      as (s1 & ok & E1 & I1 & X1 & F1 & OK & LEN1).
    rewrite E1, let_pair, OK. destruct ok; cbn [app] in I1.
    + set (vs1 := fst (vupd_var vs i p (fun v => v))) in *.
      assert (Lj1 : j < length (vars s1)) by lia.
      pose proof (mread_ok sp (hp s1) (vars s1) (geth (vars s1) j) (getv vs1 j) I1
                    (hheld_root _ _ _ (geth_In _ _ Lj1)) (Forall2_nth _ _ _ _ _ _ F1 Lj1)) as MR.
      destruct (mread sp (hp s1) (geth (vars s1) j)) as [y|].
      * destruct MR as (yv & VR & Dy & Hy). rewrite VR.
        destruct (mopen_den k (hp s1) (vars s1) y yv I1 Hy Dy) as (ks & hs & xs & M & V & FX & HF).
        rewrite M, V.
        destruct (share_all_ok hs (hp s1) (vars s1) I1) as (Is & Xs & _).
        { intros b J. rewrite Forall_forall in HF. specialize (HF _ J). eapply held_live; eauto. }
        set (H0 := fold_left share hs (hp s1)) in *.
        destruct (alloc H0 (PNode k ks hs)) as [H2 x] eqn:A.
        destruct (alloc_node_den H0 (vars s1) k ks hs xs H2 x Is (Forall2_den_ext _ _ _ _ Xs FX) A) as (I2 & X2 & D2).
        destruct (mupd_arg_ok (leaf_set x) (fun _ => VNode k ks xs) x (fun H => den H (VNode k ks xs) x)
                    {| hp := H2; vars := vars s1 |} vs1 i p (leaf_set_spec _ _) (closed_den _ _))
          as (s' & E & I' & X' & F' & _); cbn [hp vars]; auto; try lia;
          [eapply Forall2_den_ext; [|exact F1]; eapply ext_trans; eauto|].
        subst vs1. rewrite (vupd_var_again (fun _ => VNode k ks xs) (fun v => v) vs i p) in E by (auto; lia).
        exists s'. cbn [fst snd hp vars] in *. splits; auto.
        eapply ext_trans; [exact X1|eapply ext_trans; [exact Xs|eapply ext_trans; eauto]].
      * rewrite MR. exists s1. cbn [fst snd]. splits; auto.
    + exists s1. cbn [fst snd]. splits; auto.
Qed.
