(* C07 - the reference object: every variable holds an independent, immutable VALUE TREE.
   This file does not look at the representation (no heap, no reference counts).  It fixes
   - the value trees and their type tags,
   - the documented coercions (reference functions: C casts as wrap32/wrap64/sign views,
     truncation toward zero, glibc strtol/strtoul/strtod and printf %d/%u/%lld/%llu/%f on exact
     dyadic rationals),
   - the coercing equality of Variant (written once, on values),
   - what every operation of the history language does to the tuple of values.
   Doubles: finite, exact dyadic rationals m * 2^e (m odd or m = e = 0); int->double and
   decimal->double conversions round to nearest-even at 53 bits (no overflow/subnormal range);
   NaN, infinities and negative zero are outside the model.  A float->integer cast whose
   truncated value is not representable (undefined behaviour in C++) is [None]. *)
From Coq Require Import ZArith List Bool Lia.
From Common Require Import Words ListAux.
Import ListNotations.
Local Open Scope Z_scope.
Local Open Scope bool_scope.

Definition bytes := list Z.

Inductive scalar :=
| SNull | SBool (b : bool) | SDbl (m e : Z) | SInt (z : Z) | SUInt (z : Z) | SI64 (z : Z) | SU64 (z : Z).

Inductive kind := KMap | KList | KArray.

(* containers uniformly: kind, keys (maps only; [] otherwise), children *)
Inductive value :=
| VS (s : scalar)
| VStr (s : bytes)
| VNode (k : kind) (ks : list bytes) (vs : list value).

Definition VNull := VS SNull.

Definition kind_eqb (a b : kind) : bool :=
  match a, b with KMap, KMap | KList, KList | KArray, KArray => true | _, _ => false end.

Definition kind_code (k : kind) : Z := match k with KMap => 7 | KList => 8 | KArray => 9 end.

(* Variant::Type enumerators *)
Definition stype (s : scalar) : Z :=
  match s with SNull => 0 | SBool _ => 1 | SDbl _ _ => 2 | SInt _ => 3 | SUInt _ => 4 | SI64 _ => 5 | SU64 _ => 6 end.
Definition vtype (v : value) : Z :=
  match v with VS s => stype s | VStr _ => 10 | VNode k _ _ => kind_code k end.

Fixpoint depth (v : value) : nat :=
  match v with
  | VNode _ _ vs => S ((fix mx (l : list value) : nat := match l with [] => O | x :: t => Nat.max (depth x) (mx t) end) vs)
  | _ => O
  end.

Fixpoint bytes_eqb (a b : bytes) : bool :=
  match a, b with
  | [], [] => true
  | x :: a', y :: b' => (x =? y) && bytes_eqb a' b'
  | _, _ => false
  end.

(* ---------------------------------------------------------------------------------------- *)
(* doubles as exact dyadics                                                                  *)
(* ---------------------------------------------------------------------------------------- *)

Fixpoint pos_ctz (p : positive) : positive * Z :=
  match p with xO q => let '(r, k) := pos_ctz q in (r, k + 1) | _ => (p, 0) end.

Definition dnorm (m e : Z) : Z * Z :=
  match m with
  | Z0 => (0, 0)
  | Zpos p => let '(r, k) := pos_ctz p in (Zpos r, e + k)
  | Zneg p => let '(r, k) := pos_ctz p in (Zneg r, e + k)
  end.

(* n / d rounded to the nearest integer, ties to even (n >= 0, d > 0) *)
Definition div_rne (n d : Z) : Z :=
  let q := n / d in
  let r := n mod d in
  if (2 * r >? d) || ((2 * r =? d) && Z.odd q) then q + 1 else q.

(* binary64 nearest-even of n / d (n >= 0, d > 0), normal range, as m * 2^k *)
Definition ratio_to_dbl (n d : Z) : Z * Z :=
  if n =? 0 then (0, 0) else
  let k0 := Z.log2 n - Z.log2 d - 53 in
  let q0 := if k0 >=? 0 then n / (d * 2 ^ k0) else (n * 2 ^ (- k0)) / d in
  let k := if q0 <? 2 ^ 53 then k0 else k0 + 1 in
  let m := if k >=? 0 then div_rne n (d * 2 ^ k) else div_rne (n * 2 ^ (- k)) d in
  (m, k).

Definition dbl_of_Z (z : Z) : Z * Z :=
  let '(m, e) := ratio_to_dbl (Z.abs z) 1 in dnorm (if z <? 0 then - m else m) e.

Definition dbl_trunc (m e : Z) : Z :=
  if e >=? 0 then m * 2 ^ e else Z.quot m (2 ^ (- e)).

Definition dbl_eqb (a b : Z * Z) : bool := (fst a =? fst b) && (snd a =? snd b).

(* ---------------------------------------------------------------------------------------- *)
(* decimal printing (printf %d %u %lld %llu %f)                                              *)
(* ---------------------------------------------------------------------------------------- *)

Fixpoint digits_fuel (f : nat) (n : Z) (acc : bytes) : bytes :=
  match f with
  | O => acc
  | S f' => if n <? 10 then (48 + n) :: acc else digits_fuel f' (n / 10) ((48 + n mod 10) :: acc)
  end.
Definition dec_nonneg (n : Z) : bytes := digits_fuel (S (Z.to_nat (Z.log2 n))) n [].
Definition dec_Z (z : Z) : bytes := if z <? 0 then 45 :: dec_nonneg (- z) else dec_nonneg z.

Definition pad6 (fp : Z) : bytes := map (fun k => 48 + (fp / 10 ^ k) mod 10) [5; 4; 3; 2; 1; 0].

(* "%f": six decimals, exact value rounded to nearest, ties to even (glibc) *)
Definition print_f (m e : Z) : bytes :=
  let a := Z.abs m in
  let q := if e >=? 0 then a * 2 ^ e * 1000000 else div_rne (a * 1000000) (2 ^ (- e)) in
  (if m <? 0 then [45] else []) ++ dec_nonneg (q / 1000000) ++ [46] ++ pad6 (q mod 1000000).

Definition str_true : bytes := [116; 114; 117; 101].
Definition str_false : bytes := [102; 97; 108; 115; 101].

(* ---------------------------------------------------------------------------------------- *)
(* decimal parsing (glibc strtol / strtoul / strtod on the C-string view)                    *)
(* ---------------------------------------------------------------------------------------- *)

Definition is_space (c : Z) : bool := (c =? 32) || ((9 <=? c) && (c <=? 13)).
Definition is_digit (c : Z) : bool := (48 <=? c) && (c <=? 57).
Fixpoint cstr (s : bytes) : bytes :=
  match s with [] => [] | c :: t => if c =? 0 then [] else c :: cstr t end.
Fixpoint skip_ws (s : bytes) : bytes :=
  match s with c :: t => if is_space c then skip_ws t else s | [] => [] end.
Definition take_sign (s : bytes) : bool * bytes :=
  match s with
  | c :: t => if c =? 45 then (true, t) else if c =? 43 then (false, t) else (false, s)
  | [] => (false, [])
  end.
Fixpoint take_digits (s : bytes) (acc : Z) (n : nat) : Z * nat * bytes :=
  match s with
  | c :: t => if is_digit c then take_digits t (acc * 10 + (c - 48)) (S n) else (acc, n, s)
  | [] => (acc, n, [])
  end.

Definition parse_int (s : bytes) : bool * Z :=
  let '(neg, s2) := take_sign (skip_ws (cstr s)) in
  let '(v, _, _) := take_digits s2 0 O in (neg, v).

Definition strtol (s : bytes) : Z :=
  let '(neg, v) := parse_int s in
  Z.max (- 9223372036854775808) (Z.min 9223372036854775807 (if neg then - v else v)).

Definition strtoul (s : bytes) : Z :=
  let '(neg, v) := parse_int s in
  if v >? 18446744073709551615 then 18446744073709551615 else if neg then w64 (- v) else v.

Definition parse_dbl (s : bytes) : Z * Z :=
  let '(neg, s2) := take_sign (skip_ws (cstr s)) in
  let '(ip, n1, s3) := take_digits s2 0 O in
  let '(mant, n2, s4) :=
    match s3 with
    | c :: t => if c =? 46 then take_digits t ip O else (ip, O, s3)
    | [] => (ip, O, s3)
    end in
  if (n1 + n2 =? 0)%nat then (0, 0) else
  let ex :=
    match s4 with
    | c :: t => if (c =? 101) || (c =? 69) then
                  let '(eneg, t2) := take_sign t in
                  let '(ev, en, _) := take_digits t2 0 O in
                  if (en =? 0)%nat then 0 else if eneg then - ev else ev
                else 0
    | [] => 0
    end in
  let x := ex - Z.of_nat n2 in
  let '(m, e) := if x >=? 0 then ratio_to_dbl (mant * 10 ^ x) 1 else ratio_to_dbl mant (10 ^ (- x)) in
  dnorm (if neg then - m else m) e.

Definition to_lower (c : Z) : Z := if (65 <=? c) && (c <=? 90) then c + 32 else c.
Fixpoint drop_zeros (s : bytes) : bytes :=
  match s with c :: t => if c =? 48 then drop_zeros t else s | [] => [] end.

(* String::toBool *)
Definition str_to_bool (s : bytes) : bool :=
  match s with
  | [] => false
  | c0 :: _ =>
    if ((length s =? 5)%nat && bytes_eqb (map to_lower (cstr s)) str_false) || bytes_eqb s [48] then false else
    match drop_zeros (cstr s) with
    | c :: q => if c =? 46 then
                  match drop_zeros q with
                  | [] => negb ((match q with [] => false | _ => true end) || (c0 =? 48))
                  | _ => true
                  end
                else true
    | [] => true
    end
  end.

(* ---------------------------------------------------------------------------------------- *)
(* coercions of a value                                                                      *)
(* ---------------------------------------------------------------------------------------- *)

Definition b2z (b : bool) : Z := if b then 1 else 0.
Definition in_rng (lo hi x : Z) : option Z := if (lo <=? x) && (x <? hi) then Some x else None.

Definition to_bool (v : value) : bool :=
  match v with
  | VS SNull => false
  | VS (SBool b) => b
  | VS (SDbl m _) => negb (m =? 0)
  | VS (SInt z) | VS (SUInt z) | VS (SI64 z) | VS (SU64 z) => negb (z =? 0)
  | VStr s => str_to_bool s
  | VNode _ _ _ => false
  end.

Definition to_int (v : value) : option Z :=
  match v with
  | VS SNull => Some 0
  | VS (SBool b) => Some (b2z b)
  | VS (SDbl m e) => in_rng (- 2147483648) 2147483648 (dbl_trunc m e)
  | VS (SInt z) => Some z
  | VS (SUInt z) | VS (SI64 z) | VS (SU64 z) => Some (sx32 z)
  | VStr s => Some (sx32 (strtol s))
  | VNode _ _ _ => Some 0
  end.

Definition to_uint (v : value) : option Z :=
  match v with
  | VS SNull => Some 0
  | VS (SBool b) => Some (b2z b)
  | VS (SDbl m e) => in_rng 0 4294967296 (dbl_trunc m e)
  | VS (SUInt z) => Some z
  | VS (SInt z) | VS (SI64 z) | VS (SU64 z) => Some (w32 z)
  | VStr s => Some (w32 (strtoul s))
  | VNode _ _ _ => Some 0
  end.

Definition to_i64 (v : value) : option Z :=
  match v with
  | VS SNull => Some 0
  | VS (SBool b) => Some (b2z b)
  | VS (SDbl m e) => in_rng (- 9223372036854775808) 9223372036854775808 (dbl_trunc m e)
  | VS (SI64 z) => Some z
  | VS (SInt z) | VS (SUInt z) | VS (SU64 z) => Some (sx64 z)
  | VStr s => Some (strtol s)
  | VNode _ _ _ => Some 0
  end.

Definition to_u64 (v : value) : option Z :=
  match v with
  | VS SNull => Some 0
  | VS (SBool b) => Some (b2z b)
  | VS (SDbl m e) => in_rng 0 18446744073709551616 (dbl_trunc m e)
  | VS (SU64 z) => Some z
  | VS (SInt z) | VS (SUInt z) | VS (SI64 z) => Some (w64 z)
  | VStr s => Some (strtoul s)
  | VNode _ _ _ => Some 0
  end.

Definition to_dbl (v : value) : Z * Z :=
  match v with
  | VS SNull => (0, 0)
  | VS (SBool b) => (b2z b, 0)
  | VS (SDbl m e) => (m, e)
  | VS (SInt z) | VS (SUInt z) => dnorm z 0
  | VS (SI64 z) | VS (SU64 z) => dbl_of_Z z
  | VStr s => parse_dbl s
  | VNode _ _ _ => (0, 0)
  end.

(* const toString() *)
Definition to_str (v : value) : bytes :=
  match v with
  | VS SNull => []
  | VS (SBool b) => if b then str_true else str_false
  | VS (SDbl m e) => print_f m e
  | VS (SInt z) | VS (SUInt z) | VS (SI64 z) | VS (SU64 z) => dec_Z z
  | VStr s => s
  | VNode _ _ _ => []
  end.

(* ---------------------------------------------------------------------------------------- *)
(* Variant::operator== (coercing, asymmetrical); None = an undefined cast would be executed  *)
(* Total reference function.  It FOLLOWS THE CODE where the property text is silent (maps compare  *)
(* position by position, so the same entries in another insertion order are unequal; a string is  *)
(* converted to the scalar's type even when that type cannot hold its value): veq_pinned below    *)
(* says where the text decides, and only there is veq part of the property oracle.                *)
(* ---------------------------------------------------------------------------------------- *)

Definition is_null (v : value) : bool := match v with VS SNull => true | _ => false end.

Definition eq_scalar_lhs (s : scalar) (b : value) : option bool :=
  match s with
  | SNull => Some (is_null b)
  | SBool x => Some (Bool.eqb x (to_bool b))
  | SDbl m e => Some (dbl_eqb (m, e) (to_dbl b))
  | SInt z => option_map (Z.eqb z) (to_int b)
  | SUInt z => option_map (Z.eqb z) (to_uint b)
  | SI64 z => option_map (Z.eqb z) (to_i64 b)
  | SU64 z => option_map (Z.eqb z) (to_u64 b)
  end.

Fixpoint veq (a b : value) {struct a} : option bool :=
  match a with
  | VS s => eq_scalar_lhs s b
  | VStr s =>
      match b with
      | VStr s' => Some (bytes_eqb s s')
      | VS sb => eq_scalar_lhs sb a            (* `return other == *this` *)
      | VNode _ _ _ => Some false
      end
  | VNode k ks vs =>
      match b with
      | VNode k' ks' vs' =>
          if kind_eqb k k' then
            if (length vs =? length vs')%nat then
              (fix go (ks ks' : list bytes) (l l' : list value) {struct l} : option bool :=
                 match l, l' with
                 | x :: xs, y :: ys =>
                     let kd := match ks, ks' with k1 :: _, k2 :: _ => negb (bytes_eqb k1 k2) | _, _ => false end in
                     if kd then Some false else
                     match veq x y with
                     | Some true => go (tl ks) (tl ks') xs ys
                     | r => r
                     end
                 | _, _ => Some true
                 end) ks ks' vs vs'
            else Some false
          else Some false
      | _ => Some false
      end
  end.

(* ---------------------------------------------------------------------------------------- *)
(* what the property TEXT pins of the observations above (round 5)                           *)
(*                                                                                            *)
(* to_int .. to_u64 and veq are total reference functions: where the text is silent they      *)
(* follow the code (strtol / strtoul saturation then a 32-bit wrap for a decimal string whose *)
(* value the target type cannot hold - nothing in the library documents that case, and atoi   *)
(* / atoll leave it undefined; two maps with the same entries inserted in a different order   *)
(* compare unequal - the text only says that a Variant equals its copies).  The predicates    *)
(* below say where the text does decide; the expected observation of the property oracle      *)
(* (driver mode `spec`) shows `?` everywhere else, so those choices are compared with the     *)
(* code by the model/implementation correspondence only.                                      *)
(* ---------------------------------------------------------------------------------------- *)

(* the integer a decimal string denotes (C-string view, leading white space, sign, digits) *)
Definition str_value (s : bytes) : Z := let '(neg, v) := parse_int s in if neg then - v else v.

(* a string converts to an integral type by the text only when the type can hold its value *)
Definition str_fits (lo hi : Z) (v : value) : bool :=
  match v with VStr s => (lo <=? str_value s) && (str_value s <? hi) | _ => true end.
Definition int_pinned (v : value) : bool := str_fits (- 2147483648) 2147483648 v.
Definition uint_pinned (v : value) : bool := str_fits 0 4294967296 v.
Definition i64_pinned (v : value) : bool := str_fits (- 9223372036854775808) 9223372036854775808 v.
Definition u64_pinned (v : value) : bool := str_fits 0 18446744073709551616 v.

(* `s == b` with a scalar on the left converts b to the type of s *)
Definition eq_scalar_pinned (s : scalar) (b : value) : bool :=
  match s with
  | SInt _ => int_pinned b | SUInt _ => uint_pinned b | SI64 _ => i64_pinned b | SU64 _ => u64_pinned b
  | _ => true
  end.

Fixpoint keys_eqb (a b : list bytes) : bool :=
  match a, b with
  | [], [] => true
  | x :: a', y :: b' => bytes_eqb x y && keys_eqb a' b'
  | _, _ => false
  end.
Definition key_in (k : bytes) (l : list bytes) : bool := existsb (bytes_eqb k) l.
(* the same key set (keys of one map are distinct) in another order *)
Definition keys_permuted (a b : list bytes) : bool :=
  negb (keys_eqb a b) && (length a =? length b)%nat && forallb (fun k => key_in k b) a && forallb (fun k => key_in k a) b.

(* does the text decide `a == b`?  Items are visited in the order veq visits them; an earlier decided difference decides. *)
Fixpoint veq_pinned (a b : value) {struct a} : bool :=
  match a with
  | VS s => eq_scalar_pinned s b
  | VStr _ => match b with VS sb => eq_scalar_pinned sb a | _ => true end
  | VNode k ks vs =>
      match b with
      | VNode k' ks' vs' =>
          if kind_eqb k k' && (length vs =? length vs')%nat then
            if keys_permuted ks ks' then false else
            if negb (keys_eqb ks ks') then true else
            (fix go (l l' : list value) {struct l} : bool :=
               match l, l' with
               | x :: xs, y :: ys =>
                   if veq_pinned x y then match veq x y with Some true => go xs ys | _ => true end else false
               | _, _ => true
               end) vs vs'
          else true
      | _ => true
      end
  end.

(* ---------------------------------------------------------------------------------------- *)
(* paths and the operations of a history                                                      *)
(* ---------------------------------------------------------------------------------------- *)

Inductive sel := ByIdx (n : nat) | ByKey (key : bytes).
Definition pstep := (kind * sel)%type.
Definition path := list pstep.

Fixpoint key_index (ks : list bytes) (key : bytes) : option nat :=
  match ks with
  | [] => None
  | k :: t => if bytes_eqb k key then Some O else option_map S (key_index t key)
  end.

(* which child a step designates in a container with keys ks and n children *)
Definition find_child (ks : list bytes) (n : nat) (s : sel) : option nat :=
  match s with
  | ByIdx i => if (i <? n)%nat then Some i else None
  | ByKey key => match key_index ks key with Some i => if (i <? n)%nat then Some i else None | None => None end
  end.

(* what a container accessor of kind k sees: the payload when the type matches, else empty *)
Definition vopen (k : kind) (v : value) : list bytes * list value :=
  match v with
  | VNode k' ks vs => if kind_eqb k k' then (ks, vs) else ([], [])
  | _ => ([], [])
  end.

(* const navigation *)
Fixpoint vread (p : path) (v : value) : option value :=
  match p with
  | [] => Some v
  | (k, s) :: p' =>
      let '(ks, vs) := vopen k v in
      match find_child ks (length vs) s with
      | Some i => vread p' (nth i vs VNull)
      | None => None
      end
  end.

(* the index path a (resolving) path designates: node identity *)
Fixpoint vresolve (p : path) (v : value) : option (list nat) :=
  match p with
  | [] => Some []
  | (k, s) :: p' =>
      let '(ks, vs) := vopen k v in
      match find_child ks (length vs) s with
      | Some i => option_map (cons i) (vresolve p' (nth i vs VNull))
      | None => None
      end
  end.

(* navigation through the MUTABLE accessors: a node of another type becomes an empty container
   of the requested kind; the flag tells whether the whole path resolved *)
Fixpoint vupd (p : path) (leaf : value -> value) (v : value) : value * bool :=
  match p with
  | [] => (leaf v, true)
  | (k, s) :: p' =>
      let '(ks, vs) := vopen k v in
      match find_child ks (length vs) s with
      | Some i => let '(c, ok) := vupd p' leaf (nth i vs VNull) in (VNode k ks (upd i c vs), ok)
      | None => (VNode k ks vs, false)
      end
  end.

(* container operations behind a mutable accessor *)
Inductive cop :=
| CTouch                       (* only the accessor *)
| CIns (n : nat) (key : bytes) (* insert before position n (append when n >= size); maps: existing key is overwritten in place *)
| CRem (n : nat)
| CRemKey (key : bytes)
| CClr.

Fixpoint ins_at {A} (n : nat) (x : A) (l : list A) : list A :=
  match n, l with
  | O, _ => x :: l
  | S n', h :: t => h :: ins_at n' x t
  | S _, [] => [x]
  end.
Fixpoint rem_at {A} (n : nat) (l : list A) : list A :=
  match n, l with
  | _, [] => []
  | O, _ :: t => t
  | S n', h :: t => h :: rem_at n' t
  end.

Definition vcop (k : kind) (c : cop) (arg : value) (ks : list bytes) (vs : list value) : list bytes * list value :=
  match c with
  | CTouch => (ks, vs)
  | CIns n key =>
      match k with
      | KMap => match key_index ks key with
                | Some i => if (i <? length vs)%nat then (ks, upd i arg vs) else (ks, vs)
                | None => (ins_at n key ks, ins_at n arg vs)
                end
      | _ => (ks, ins_at n arg vs)
      end
  | CRem n => if (n <? length vs)%nat then (rem_at n ks, rem_at n vs) else (ks, vs)
  | CRemKey key => match key_index ks key with
                   | Some i => if (i <? length vs)%nat then (rem_at i ks, rem_at i vs) else (ks, vs)
                   | None => (ks, vs)
                   end
  | CClr => ([], [])
  end.

Definition vcont (k : kind) (c : cop) (arg : value) (v : value) : value :=
  let '(ks, vs) := vopen k v in let '(ks', vs') := vcop k c arg ks vs in VNode k ks' vs'.

(* building a container value from variables (HashMap::append semantics for duplicate keys) *)
Fixpoint vbuild (k : kind) (items : list (bytes * value)) (ks : list bytes) (vs : list value) : list bytes * list value :=
  match items with
  | [] => (ks, vs)
  | (key, x) :: t => let '(ks', vs') := vcop k (CIns (length vs) key) x ks vs in vbuild k t ks' vs'
  end.

Inductive op :=
| OSetScalar (i : nat) (p : path) (s : scalar)
| OSetStr (i : nat) (p : path) (b : bytes)
| OSetNode (i : nat) (p : path) (k : kind) (items : list (bytes * nat))
| OAssign (i : nat) (p : path) (j : nat) (sp : path)
| OClear (i : nat) (p : path)
| OSwap (i j : nat)
| OCopyNew (i j : nat)
| OStrTouch (i : nat) (p : path)
| OStrAppend (i : nat) (p : path) (b : bytes)
| OCont (i : nat) (p : path) (k : kind) (c : cop) (j : nat) (sp : path)
(* `d = s.toString()` with s a string Variant reached through the MUTABLE accessors of variable j (the
   only public way to a `const String&` into a payload): operator=(const String&) with an argument that
   may live inside the assigned Variant.  The source must already be a string (else NoSrc, nothing
   happens); the source is navigated first, then the destination. *)
| OAssignStrFrom (i : nat) (p : path) (j : nat) (sp : path)
(* `d = s.toMap()` / `.toList()` / `.toArray()` with s reached through the CONST accessors of variable j:
   operator=(const HashMap&/List&/Array&) with an argument that may live inside the assigned Variant
   (the static empty container when s has another type).  Destination first, then the source. *)
| OAssignNodeFrom (i : nat) (p : path) (j : nat) (sp : path) (k : kind).

(* result word of an op *)
Inductive outcome := Done | NoPath | NoSrc | BadVar.

Definition getv (vs : list value) (i : nat) : value := nth i vs VNull.

(* one mutable navigation of variable i *)
Definition vupd_var (vs : list value) (i : nat) (p : path) (leaf : value -> value) : list value * bool :=
  let '(v', ok) := vupd p leaf (getv vs i) in (upd i v' vs, ok).

Definition spec_step (vs : list value) (o : op) : list value * outcome :=
  let n := length vs in
  match o with
  | OSetScalar i p s =>
      if (i <? n)%nat then let '(vs', ok) := vupd_var vs i p (fun _ => VS s) in (vs', if ok then Done else NoPath)
      else (vs, BadVar)
  | OSetStr i p b =>
      if (i <? n)%nat then let '(vs', ok) := vupd_var vs i p (fun _ => VStr b) in (vs', if ok then Done else NoPath)
      else (vs, BadVar)
  | OSetNode i p k items =>
      if (i <? n)%nat && forallb (fun it => (snd it <? n)%nat) items then
        let '(ks, xs) := vbuild k (map (fun it => (fst it, getv vs (snd it))) items) [] [] in
        let '(vs', ok) := vupd_var vs i p (fun _ => VNode k ks xs) in (vs', if ok then Done else NoPath)
      else (vs, BadVar)
  | OAssign i p j sp =>
      if (i <? n)%nat && (j <? n)%nat then
        (* the destination is navigated first (mutable accessors), then the source (const) *)
        let '(vs1, ok) := vupd_var vs i p (fun v => v) in
        if ok then
          match vread sp (getv vs1 j) with
          | Some x => (fst (vupd_var vs1 i p (fun _ => x)), Done)
          | None => (vs1, NoSrc)
          end
        else (vs1, NoPath)
      else (vs, BadVar)
  | OClear i p =>
      if (i <? n)%nat then let '(vs', ok) := vupd_var vs i p (fun _ => VNull) in (vs', if ok then Done else NoPath)
      else (vs, BadVar)
  | OSwap i j =>
      if (i <? n)%nat && (j <? n)%nat then (upd i (getv vs j) (upd j (getv vs i) vs), Done) else (vs, BadVar)
  | OCopyNew i j =>
      if (i <? n)%nat && (j <? n)%nat && negb (i =? j)%nat then (upd i (getv vs j) vs, Done) else (vs, BadVar)
  | OStrTouch i p =>
      if (i <? n)%nat then let '(vs', ok) := vupd_var vs i p (fun v => VStr (to_str v)) in (vs', if ok then Done else NoPath)
      else (vs, BadVar)
  | OStrAppend i p b =>
      if (i <? n)%nat then let '(vs', ok) := vupd_var vs i p (fun v => VStr (to_str v ++ b)) in (vs', if ok then Done else NoPath)
      else (vs, BadVar)
  | OCont i p k c j sp =>
      if (i <? n)%nat && (j <? n)%nat then
        let '(vs1, ok) := vupd_var vs i p (vcont k CTouch VNull) in
        if ok then
          match c with
          | CIns _ _ =>
              match vread sp (getv vs1 j) with
              | Some x => (fst (vupd_var vs1 i p (vcont k c x)), Done)
              | None => (vs1, NoSrc)
              end
          | _ => (fst (vupd_var vs1 i p (vcont k c VNull)), Done)
          end
        else (vs1, NoPath)
      else (vs, BadVar)
  | OAssignStrFrom i p j sp =>
      if (i <? n)%nat && (j <? n)%nat then
        match vread sp (getv vs j) with
        | Some (VStr b) =>
            let '(vs1, ok) := vupd_var vs i p (fun v => v) in
            if ok then (fst (vupd_var vs1 i p (fun _ => VStr b)), Done) else (vs1, NoPath)
        | _ => (vs, NoSrc)
        end
      else (vs, BadVar)
  | OAssignNodeFrom i p j sp k =>
      if (i <? n)%nat && (j <? n)%nat then
        let '(vs1, ok) := vupd_var vs i p (fun v => v) in
        if ok then
          match vread sp (getv vs1 j) with
          | Some x => let '(ks, xs) := vopen k x in (fst (vupd_var vs1 i p (fun _ => VNode k ks xs)), Done)
          | None => (vs1, NoSrc)
          end
        else (vs1, NoPath)
      else (vs, BadVar)
  end.

(* Self-containment: the source node of an assignment / insertion is one of the nodes whose
   payload the operation opens for writing (an ancestor of the written node, or for container
   operations the container node itself).  The code then stores into a payload a handle to that
   same payload (a cycle) - outside the value semantics; such operations are excluded from the
   histories (hypothesis, reported as a finding) and skipped by all three programs. *)
Fixpoint is_prefix (a b : list nat) : bool :=
  match a, b with
  | [], _ => true
  | x :: a', y :: b' => (x =? y)%nat && is_prefix a' b'
  | _ :: _, [] => false
  end.

Definition self_containing (vs : list value) (o : op) : bool :=
  match o with
  | OAssign i p j sp =>
      (i =? j)%nat &&
      match vresolve p (getv vs i), vresolve sp (getv vs j) with
      | Some d, Some s => is_prefix s d && negb (length s =? length d)%nat
      | _, _ => false
      end
  | OCont i p k (CIns _ _) j sp =>
      (i =? j)%nat &&
      match vresolve p (getv vs i), vresolve sp (getv vs j) with
      | Some d, Some s => is_prefix s d
      | _, _ => false
      end
  | OAssignNodeFrom i p j sp k =>
      (* `f = v.toList()` with f inside v.  The copy of v's items is built first; it shares the blocks of v's
         children.  When f lies two or more levels below v, one of these blocks contains f: writing f then
         stores into that block a handle to a payload holding the block - a cycle.  When f is an item of v
         itself, its copy is f's old value, and a cycle arises only if f's payload is written in place
         (copy + swap into the payload f's copy shares), which needs f to have kind k already. *)
      (i =? j)%nat &&
      match vresolve p (getv vs i), vresolve sp (getv vs j) with
      | Some d, Some s => is_prefix s d &&
                          ((S (length s) <? length d)%nat ||
                           ((S (length s) =? length d)%nat &&
                            match vread p (getv vs i) with Some (VNode k' _ _) => kind_eqb k k' | _ => false end))
      | _, _ => false
      end
  | _ => false
  end.

(* histories none of whose operations is self-containing at the point where it is executed: the scope in
   which the model is tied to the code (see the open finding) *)
Fixpoint admissible (vs : list value) (l : list op) : bool :=
  match l with
  | [] => true
  | o :: t => negb (self_containing vs o) && admissible (fst (spec_step vs o)) t
  end.

Fixpoint spec_run (vs : list value) (l : list op) : list value :=
  match l with
  | [] => vs
  | o :: t => spec_run (fst (spec_step vs o)) t
  end.

Definition spec_init (k : nat) : list value := repeat VNull k.
