(* C07 - every operation of the model preserves the heap invariant, never fails, and refines the
   value model: the deep value each handle denotes evolves exactly as VariantSpec says. *)
From Coq Require Import ZArith List Bool Lia Arith.
From Common Require Import Words ListAux.
From Variant Require Import VariantSpec VariantModel VariantProofs VariantHeap.
Import ListNotations.
Local Open Scope nat_scope.

Ltac cnt_lia := intro; repeat (rewrite ?cnt_app; cbn [cnt app]); lia.
Ltac splits := repeat match goal with |- _ /\ _ => split end.

(* ------------------------------------------------------------------------------------------ *)
(* "handle h denotes value v in heap H" - blind to the reference counts                         *)
(* ------------------------------------------------------------------------------------------ *)

Fixpoint den (H : heap) (v : value) (h : handle) {struct v} : Prop :=
  match v with
  | VS s => h = HS s
  | VStr s => exists b blk, h = HB b /\ nth_error H b = Some blk /\ pl blk = PStr s
  | VNode k ks vs =>
      exists b blk hs, h = HB b /\ nth_error H b = Some blk /\ pl blk = PNode k ks hs /\
        (fix all2 (vs : list value) (hs : list handle) {struct vs} : Prop :=
           match vs, hs with
           | [], [] => True
           | v :: vs', h :: hs' => den H v h /\ all2 vs' hs'
           | _, _ => False
           end) vs hs
  end.

Lemma den_node H k ks vs h :
  den H (VNode k ks vs) h <->
  exists b blk hs, h = HB b /\ nth_error H b = Some blk /\ pl blk = PNode k ks hs /\ Forall2 (den H) vs hs.
Proof.
  cbn [den].
  assert (G : forall l l',
             (fix all2 (vs : list value) (hs : list handle) {struct vs} : Prop :=
                match vs, hs with
                | [], [] => True
                | v :: vs', h :: hs' => den H v h /\ all2 vs' hs'
                | _, _ => False
                end) l l' <-> Forall2 (den H) l l').
  { induction l as [|v t IH]; intros [|x l']; (split; [intro A|intro A]).
    - constructor.
    - exact I.
    - destruct A.
    - inversion A.
    - destruct A.
    - inversion A.
    - destruct A as [A1 A2]. constructor; [exact A1|apply IH; exact A2].
    - inversion A; subst. split; [assumption|apply IH; assumption]. }
  split; intros (b & blk & hs & A & B & C & D); exists b, blk, hs; splits; auto; apply G; auto.
Qed.

Lemma Forall2_impl_in {A B} (P Q : A -> B -> Prop) l1 l2 :
  Forall (fun a => forall b, P a b -> Q a b) l1 -> Forall2 P l1 l2 -> Forall2 Q l1 l2.
Proof.
  intros F X. induction X as [|a b l1 l2 p X IH]; constructor.
  - inversion F; subst. auto.
  - apply IH. inversion F; auto.
Qed.

Lemma den_ext H H' v h : ext H H' -> den H v h -> den H' v h.
Proof.
  intro X. revert h. induction v as [s|s|k ks vs IH] using value_ind2; intros h D.
  - exact D.
  - destruct D as (b & blk & -> & E & P). destruct (X _ _ E) as (blk' & E' & P' & _).
    exists b, blk'. splits; auto. congruence.
  - apply den_node in D. apply den_node. destruct D as (b & blk & hs & -> & E & P & F).
    destruct (X _ _ E) as (blk' & E' & P' & _). exists b, blk', hs. splits; auto; [congruence|].
    eapply Forall2_impl_in; [|exact F]. exact IH.
Qed.

Lemma Forall2_den_ext H H' vs hs : ext H H' -> Forall2 (den H) vs hs -> Forall2 (den H') vs hs.
Proof. intros X F. induction F; constructor; auto. eapply den_ext; eauto. Qed.

Lemma den_scalar_inv H v s : den H v (HS s) -> v = VS s.
Proof.
  destruct v as [s'|s'|k ks vs]; cbn [den].
  - congruence.
  - intros (b & blk & A & _). discriminate.
  - intros (b & blk & hs & A & _). discriminate.
Qed.

Lemma den_str_inv H v b blk s : den H v (HB b) -> nth_error H b = Some blk -> pl blk = PStr s -> v = VStr s.
Proof.
  intros D E P. destruct v as [s'|s'|k ks vs].
  - cbn in D. discriminate.
  - destruct D as (b' & blk' & A & E' & P'). injection A as <-. congruence.
  - apply den_node in D. destruct D as (b' & blk' & hs & A & E' & P' & _). injection A as <-. congruence.
Qed.

Lemma den_node_inv H v b blk k ks hs :
  den H v (HB b) -> nth_error H b = Some blk -> pl blk = PNode k ks hs ->
  exists vs, v = VNode k ks vs /\ Forall2 (den H) vs hs.
Proof.
  intros D E P. destruct v as [s'|s'|k' ks' vs].
  - cbn in D. discriminate.
  - destruct D as (b' & blk' & A & E' & P'). injection A as <-. congruence.
  - apply den_node in D. destruct D as (b' & blk' & hs' & A & E' & P' & F). injection A as <-.
    assert (blk' = blk) by congruence. subst blk'. rewrite P in P'. injection P' as <- <- <-. eauto.
Qed.

Lemma Forall2_nth {A B} (P : A -> B -> Prop) l1 l2 i d1 d2 :
  Forall2 P l1 l2 -> i < length l2 -> P (nth i l1 d1) (nth i l2 d2).
Proof.
  intro F. revert i. induction F as [|a b l1 l2 p F IH]; intros [|i] L; cbn in *; try lia; auto.
  apply IH. lia.
Qed.

Lemma Forall2_upd {A B} (P : A -> B -> Prop) l1 l2 i x y :
  Forall2 P l1 l2 -> P x y -> Forall2 P (upd i x l1) (upd i y l2).
Proof.
  intro F. revert i. induction F as [|a b l1 l2 p F IH]; intros [|i] Q; cbn; constructor; auto.
Qed.

Lemma Forall2_ins_at {A B} (P : A -> B -> Prop) l1 l2 n x y :
  Forall2 P l1 l2 -> P x y -> Forall2 P (ins_at n x l1) (ins_at n y l2).
Proof.
  intro F. revert n. induction F as [|a b l1 l2 p F IH]; intros [|n] Q; cbn; repeat constructor; auto.
Qed.

Lemma Forall2_rem_at {A B} (P : A -> B -> Prop) l1 l2 n :
  Forall2 P l1 l2 -> Forall2 P (rem_at n l1) (rem_at n l2).
Proof.
  intro F. revert n. induction F as [|a b l1 l2 p F IH]; intros [|n]; cbn; try constructor; auto.
Qed.

Lemma Forall2_len {A B} (P : A -> B -> Prop) l1 l2 : Forall2 P l1 l2 -> length l1 = length l2.
Proof. induction 1; cbn; auto. Qed.

(* ------------------------------------------------------------------------------------------ *)
(* share                                                                                        *)
(* ------------------------------------------------------------------------------------------ *)

Lemma share_ok H R h :
  Inv H R -> (forall b, h = HB b -> rcof H b <> 0) -> Inv (share H h) (h :: R) /\ ext H (share H h).
Proof.
  intros I L. destruct h as [s|b]; cbn [share].
  - split; [apply Inv_scalar; auto|apply ext_refl].
  - split; [apply Inv_incr; auto|apply ext_set_rc].
Qed.

Lemma rcof_share_ge H h b : rcof H b <= rcof (share H h) b.
Proof.
  destruct h as [s|c]; cbn [share]; auto. destruct (Nat.eq_dec b c) as [->|N].
  - destruct (nth_error H c) as [blk|] eqn:E.
    + rewrite (rcof_set_rc_same _ _ _ _ E). lia.
    + unfold set_rc. rewrite E. lia.
  - rewrite rcof_set_rc_other; auto.
Qed.

Lemma share_all_ok hs : forall H R,
  Inv H R -> (forall b, In (HB b) hs -> rcof H b <> 0) ->
  Inv (fold_left share hs H) (hs ++ R) /\ ext H (fold_left share hs H) /\
  (forall b, rcof H b <= rcof (fold_left share hs H) b).
Proof.
  induction hs as [|h t IH]; intros H R I L; cbn [fold_left app].
  - splits; auto. apply ext_refl.
  - destruct (share_ok H R h I) as [I1 X1]; [intros b ->; apply L; left; auto|].
    destruct (IH (share H h) (h :: R) I1) as (I2 & X2 & M2).
    { intros b J. pose proof (rcof_share_ge H h b). specialize (L b (or_intror J)). lia. }
    split; [|split].
    + eapply Inv_perm; [|exact I2]. cnt_lia.
    + eapply ext_trans; eauto.
    + intro b. pose proof (rcof_share_ge H h b). specialize (M2 b). lia.
Qed.

(* ------------------------------------------------------------------------------------------ *)
(* release                                                                                      *)
(* ------------------------------------------------------------------------------------------ *)

Definition rel_spec (rel : heap -> handle -> option heap) (d : nat) : Prop :=
  forall H h R, Inv H (h :: R) -> hdepth H h < d ->
    exists H', rel H h = Some H' /\ Inv H' R /\ ext H H' /\ length H' = length H.

Lemma root_in_range H R h : Inv H R -> In h R -> forall b, h = HB b -> b < length H.
Proof. intros I J b ->. apply rcof_pos_lt. eapply Inv_root_live; eauto. Qed.

Lemma fold_release_ok rel d :
  rel_spec rel d ->
  forall cs H R, Inv H (cs ++ R) -> (forall c, In c cs -> hdepth H c < d) ->
    exists H', fold_left (fun acc c => match acc with Some H' => rel H' c | None => None end) cs (Some H) = Some H'
               /\ Inv H' R /\ ext H H' /\ length H' = length H.
Proof.
  intro RS. induction cs as [|c t IH]; intros H R I D; cbn [fold_left app] in *.
  - exists H. splits; auto. apply ext_refl.
  - destruct (RS H c (t ++ R) I (D c (or_introl eq_refl))) as (H1 & E1 & I1 & X1 & L1). rewrite E1.
    destruct (IH H1 R I1) as (H2 & E2 & I2 & X2 & L2).
    { intros c' J. rewrite (hdepth_ext H H1);
        [apply D; right; auto | exact X1 | eapply root_in_range; [exact I|]; right; apply in_or_app; auto]. }
    exists H2. splits; auto; [eapply ext_trans; eauto|lia].
Qed.

Lemma release_ok f : rel_spec (release f) f.
Proof.
  induction f as [|f IH]; intros H h R I D; [lia|].
  destruct h as [s|b]; cbn [release].
  - exists H. splits; auto; apply ext_refl.
  - assert (L : rcof H b <> 0) by (eapply Inv_root_live; [exact I|left; auto]).
    unfold rcof in L. destruct (nth_error H b) as [blk|] eqn:E; [|lia].
    destruct (rc blk) as [|[|n]] eqn:RC; [lia| |].
    + (* last handle *)
      pose proof (Inv_kill H R b blk I E RC) as I1.
      destruct (fold_release_ok (release f) f IH (children (pl blk)) (set_rc b 0 H) R I1) as (H2 & E2 & I2 & X2 & L2).
      { intros c J. rewrite hdepth_set_rc. cbn [hdepth] in D. rewrite E in D.
        destruct I as [W _]. destruct (W b blk c E J) as [_ Q]. lia. }
      exists H2. splits; auto.
      * eapply ext_trans; [apply ext_set_rc|exact X2].
      * rewrite L2. apply set_rc_length.
    + exists (set_rc b (S n) H). splits; auto.
      * eapply Inv_decr; eauto. unfold rcof. rewrite E. auto.
      * apply ext_set_rc.
      * apply set_rc_length.
Qed.

Lemma release_top_ok H h R :
  Inv H (h :: R) -> exists H', release_top H h = Some H' /\ Inv H' R /\ ext H H' /\ length H' = length H.
Proof. intro I. unfold release_top. apply release_ok; auto. Qed.

Lemma release_all_ok hs : forall H R,
  Inv H (hs ++ R) -> exists H', release_all hs H = Some H' /\ Inv H' R /\ ext H H' /\ length H' = length H.
Proof.
  induction hs as [|h t IH]; intros H R I; cbn [release_all app] in *.
  - exists H. splits; auto. apply ext_refl.
  - destruct (release_top_ok H h (t ++ R) I) as (H1 & E1 & I1 & X1 & L1). rewrite E1.
    destruct (IH H1 R I1) as (H2 & E2 & I2 & X2 & L2). exists H2. splits; auto; [eapply ext_trans; eauto|lia].
Qed.

(* ------------------------------------------------------------------------------------------ *)
(* alloc                                                                                        *)
(* ------------------------------------------------------------------------------------------ *)

Lemma alloc_ok H R p H' h' :
  Inv H (children p ++ R) -> alloc H p = (H', h') ->
  Inv H' (h' :: R) /\ ext H H' /\ exists b blk, h' = HB b /\ nth_error H' b = Some blk /\ pl blk = p.
Proof.
  intros I A. unfold alloc in A. injection A as <- <-. split; [apply Inv_alloc; auto|]. split; [apply ext_snoc|].
  eexists _, _. split; [reflexivity|]. split.
  - rewrite nth_error_app2 by lia. rewrite Nat.sub_diag. reflexivity.
  - reflexivity.
Qed.

Lemma alloc_str_den H R s H' h' :
  Inv H R -> alloc H (PStr s) = (H', h') -> Inv H' (h' :: R) /\ ext H H' /\ den H' (VStr s) h'.
Proof.
  intros I A. destruct (alloc_ok H R (PStr s) H' h' I A) as (I' & X & b & blk & -> & E & P).
  splits; auto. exists b, blk. auto.
Qed.

Lemma alloc_node_den H R k ks hs vs H' h' :
  Inv H (hs ++ R) -> Forall2 (den H) vs hs -> alloc H (PNode k ks hs) = (H', h') ->
  Inv H' (h' :: R) /\ ext H H' /\ den H' (VNode k ks vs) h'.
Proof.
  intros I F A. destruct (alloc_ok H R (PNode k ks hs) H' h' I A) as (I' & X & b & blk & -> & E & P).
  splits; auto. apply den_node. exists b, blk, hs. splits; auto. eapply Forall2_den_ext; eauto.
Qed.

(* ------------------------------------------------------------------------------------------ *)
(* the mutable accessor                                                                         *)
(* ------------------------------------------------------------------------------------------ *)

Lemma lookup_live H b blk : nth_error H b = Some blk -> rc blk <> 0 -> lookup H b = Some (pl blk).
Proof. intros E L. unfold lookup. rewrite E. destruct (rc blk =? 0) eqn:Z; auto. apply Nat.eqb_eq in Z. lia. Qed.

Lemma open_mut_ok k H h R :
  Inv H (h :: R) ->
  exists H1 ks hs, open_mut k H h = Some (H1, ks, hs) /\ Inv H1 (hs ++ R) /\ ext H H1 /\
    forall v, den H v h -> exists vs, vopen k v = (ks, vs) /\ Forall2 (den H1) vs hs.
Proof.
  intro I. destruct h as [s|b]; cbn [open_mut].
  - exists H, [], []. splits; auto; try apply ext_refl.
    intros v D. apply den_scalar_inv in D. subst v. exists []. split; auto.
  - assert (L : rcof H b <> 0) by (eapply Inv_root_live; [exact I|left; auto]).
    unfold rcof in L. destruct (nth_error H b) as [blk|] eqn:E; [|lia].
    rewrite (lookup_live H b blk E L).
    destruct (release_top_ok H (HB b) R I) as (Hr & Er & Ir & Xr & _).
    destruct (pl blk) as [s|k' ks hs] eqn:P.
    + (* a string *)
      rewrite Er. cbn [option_map]. exists Hr, [], []. splits; auto.
      intros v D. rewrite (den_str_inv H v b blk s D E P). cbn [vopen]. exists []. split; auto.
    + destruct (kind_eqb k k') eqn:K.
      * assert (k = k') by (destruct k, k'; auto; discriminate). subst k'.
        destruct (rcof H b =? 1) eqn:ONE.
        -- (* exclusive: written in place *)
           apply Nat.eqb_eq in ONE. unfold rcof in ONE. rewrite E in ONE.
           pose proof (Inv_kill H R b blk I E ONE) as I1. rewrite P in I1. cbn [children] in I1.
           exists (set_rc b 0 H), ks, hs. splits; auto; [apply ext_set_rc|].
           intros v D. destruct (den_node_inv H v b blk k ks hs D E P) as (vs & -> & F).
           exists vs. cbn [vopen]. rewrite K. split; auto. eapply Forall2_den_ext; [apply ext_set_rc|auto].
        -- (* shared: the container is copied, this handle is dropped *)
           apply Nat.eqb_neq in ONE.
           destruct (share_all_ok hs H (HB b :: R) I) as (I1 & X1 & M1).
           { intros c J. eapply Inv_child_live; eauto. rewrite P. auto. }
           set (H1 := fold_left share hs H) in *.
           assert (G : exists n, rcof H1 b = S (S n)).
           { specialize (M1 b). unfold rcof in M1 at 1. unfold rcof in ONE. rewrite E in M1, ONE.
             exists (rcof H1 b - 2). lia. }
           destruct G as (n & G). rewrite G. cbn [pred].
           exists (set_rc b (S n) H1), ks, hs. split; auto.
           assert (X2 : ext H (set_rc b (S n) H1)) by (eapply ext_trans; [exact X1|apply ext_set_rc]).
           splits; auto.
           ++ eapply Inv_decr; [|exact G]. eapply Inv_perm; [|exact I1].
              cnt_lia.
           ++ intros v D. destruct (den_node_inv H v b blk k ks hs D E P) as (vs & -> & F).
              exists vs. cbn [vopen]. rewrite K. split; auto. eapply Forall2_den_ext; eauto.
      * (* a container of another kind *)
        rewrite Er. cbn [option_map]. exists Hr, [], []. splits; auto.
        intros v D. destruct (den_node_inv H v b blk k' ks hs D E P) as (vs & -> & F). cbn [vopen]. rewrite K.
        exists []. split; auto.
Qed.
