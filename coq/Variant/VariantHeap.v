(* C07 - the heap invariant of the lazy-copy representation and its preservation by the
   primitive heap updates (set_rc, alloc) and by share / release / open_mut.

     Inv H R :  for EVERY block id b,   rc(b) = #handles to b among the roots R
                                               + #handles to b inside payloads of LIVE blocks,
                (so a released block - count 0 - is referred to by nothing, and a handle that is
                 held anywhere refers to a live block)
                and payload children are older than their parent, with consistent ghost depths.

   R is the multiset of handles held outside the heap: the variables, plus the handles an
   operation in progress owns temporarily. *)
From Coq Require Import ZArith List Bool Lia Arith.
From Common Require Import Words ListAux.
From Variant Require Import VariantSpec VariantModel.
Import ListNotations.
Local Open Scope nat_scope.

(* ------------------------------------------------------------------------------------------ *)
(* list helpers                                                                                 *)
(* ------------------------------------------------------------------------------------------ *)

Lemma nth_error_upd {A} c (x : A) l d :
  nth_error (upd c x l) d = if d =? c then option_map (fun _ => x) (nth_error l d) else nth_error l d.
Proof.
  revert c d; induction l as [|h t IH]; intros [|c] [|d]; cbn; auto.
  destruct (d =? c); auto.
Qed.

Lemma nth_error_Some_lt {A} (l : list A) n x : nth_error l n = Some x -> n < length l.
Proof. intro E. apply nth_error_Some. congruence. Qed.

Lemma nth_error_lt_Some {A} (l : list A) n : n < length l -> exists x, nth_error l n = Some x.
Proof. intro L. destruct (nth_error l n) eqn:E; eauto. apply nth_error_None in E. lia. Qed.

Lemma nth_error_snoc_old {A} (l : list A) x n y : nth_error l n = Some y -> nth_error (l ++ [x]) n = Some y.
Proof. intro E. rewrite nth_error_app1; auto. eapply nth_error_Some_lt; eauto. Qed.

Lemma nth_error_snoc_inv {A} (l : list A) x n y :
  nth_error (l ++ [x]) n = Some y -> (n < length l /\ nth_error l n = Some y) \/ (n = length l /\ y = x).
Proof.
  intro E. destruct (Nat.lt_ge_cases n (length l)) as [L|L].
  - left. split; auto. rewrite nth_error_app1 in E; auto.
  - right. rewrite nth_error_app2 in E; auto.
    destruct (n - length l) as [|k] eqn:K.
    + cbn in E. split; [lia|congruence].
    + cbn in E. destruct k; discriminate.
Qed.

Lemma nth_nth_error {A} (l : list A) n d : n < length l -> nth_error l n = Some (nth n l d).
Proof. revert n; induction l as [|h t IH]; intros [|n] L; cbn in *; try lia; auto. apply IH. lia. Qed.

(* ------------------------------------------------------------------------------------------ *)
(* counting handles                                                                             *)
(* ------------------------------------------------------------------------------------------ *)

Definition hcnt (b : nat) (h : handle) : nat :=
  match h with HB c => if c =? b then 1 else 0 | HS _ => 0 end.

Fixpoint cnt (b : nat) (l : list handle) : nat :=
  match l with [] => 0 | h :: t => hcnt b h + cnt b t end.

Definition bcnt (b : nat) (blk : block) : nat :=
  if rc blk =? 0 then 0 else cnt b (children (pl blk)).

Fixpoint inner (b : nat) (H : heap) : nat :=
  match H with [] => 0 | blk :: t => bcnt b blk + inner b t end.

Lemma hcnt_same b : hcnt b (HB b) = 1.
Proof. cbn. rewrite Nat.eqb_refl. reflexivity. Qed.

Lemma hcnt_other b c : c <> b -> hcnt b (HB c) = 0.
Proof. intro N. cbn. destruct (c =? b) eqn:E; auto. apply Nat.eqb_eq in E. lia. Qed.

Lemma cnt_app b l1 l2 : cnt b (l1 ++ l2) = cnt b l1 + cnt b l2.
Proof. induction l1 as [|h t IH]; cbn [cnt app]; lia. Qed.

Lemma cnt_In_pos b l : In (HB b) l -> 1 <= cnt b l.
Proof.
  induction l as [|h t IH]; cbn [In cnt]; [tauto|].
  intros [E|I]; [subst h; rewrite hcnt_same; lia | specialize (IH I); lia].
Qed.

Lemma cnt_pos_In b l : 1 <= cnt b l -> In (HB b) l.
Proof.
  induction l as [|h t IH]; cbn [In cnt]; [lia|].
  intro P. destruct h as [s|c]; cbn [hcnt] in P.
  - right. apply IH. lia.
  - destruct (c =? b) eqn:E.
    + apply Nat.eqb_eq in E. left. congruence.
    + right. apply IH. lia.
Qed.

Lemma cnt_upd b i c l d : i < length l -> cnt b (upd i c l) + hcnt b (nth i l d) = cnt b l + hcnt b c.
Proof.
  revert i; induction l as [|h t IH]; intros [|i] L; cbn [length upd nth cnt] in *; try lia.
  specialize (IH i ltac:(lia)). lia.
Qed.

Lemma cnt_ins_at b n (x : handle) l : cnt b (ins_at n x l) = hcnt b x + cnt b l.
Proof.
  revert n; induction l as [|h t IH]; intros [|n]; cbn [ins_at cnt]; try lia.
  rewrite IH. lia.
Qed.

Lemma cnt_rem_at b n l d : n < length l -> cnt b (rem_at n l) + hcnt b (nth n l d) = cnt b l.
Proof.
  revert n; induction l as [|h t IH]; intros [|n] L; cbn [length rem_at nth cnt] in *; try lia.
  specialize (IH n ltac:(lia)). lia.
Qed.

Lemma cnt_repeat_null b k : cnt b (repeat HNull k) = 0.
Proof. induction k; cbn; auto. Qed.

Lemma inner_app b H1 H2 : inner b (H1 ++ H2) = inner b H1 + inner b H2.
Proof. induction H1 as [|h t IH]; cbn [inner app]; lia. Qed.

Lemma inner_upd b c old new H :
  nth_error H c = Some old -> inner b (upd c new H) + bcnt b old = inner b H + bcnt b new.
Proof.
  revert c; induction H as [|h t IH]; intros [|c] E; cbn in E; try discriminate.
  - injection E as ->. cbn [upd inner]. lia.
  - cbn [upd inner]. specialize (IH c E). lia.
Qed.

Lemma inner_ge_child b c blk H :
  nth_error H c = Some blk -> rc blk <> 0 -> cnt b (children (pl blk)) <= inner b H.
Proof.
  revert c; induction H as [|h t IH]; intros [|c] E L; cbn in E; try discriminate.
  - injection E as ->. cbn [inner]. unfold bcnt. destruct (rc blk =? 0) eqn:Z; [apply Nat.eqb_eq in Z; lia|lia].
  - cbn [inner]. specialize (IH c E L). lia.
Qed.

(* a positive inner count comes from some live block *)
Lemma inner_pos_witness b H :
  1 <= inner b H -> exists c blk, nth_error H c = Some blk /\ rc blk <> 0 /\ In (HB b) (children (pl blk)).
Proof.
  induction H as [|h t IH]; cbn [inner]; [lia|].
  intro P. unfold bcnt in P. destruct (rc h =? 0) eqn:Z.
  - destruct (IH ltac:(lia)) as (c & blk & E & L & I). exists (S c), blk. auto.
  - destruct (Nat.le_gt_cases 1 (cnt b (children (pl h)))) as [Q|Q].
    + exists 0, h. cbn. apply Nat.eqb_neq in Z. split; [auto|split; [auto|apply cnt_pos_In; auto]].
    + destruct (IH ltac:(lia)) as (c & blk & E & L & I). exists (S c), blk. auto.
Qed.

(* ------------------------------------------------------------------------------------------ *)
(* set_rc / alloc : what they do to the heap                                                    *)
(* ------------------------------------------------------------------------------------------ *)

Definition with_rc (n : nat) (blk : block) : block := {| rc := n; dp := dp blk; pl := pl blk |}.

Lemma set_rc_nth c n H d :
  nth_error (set_rc c n H) d = if d =? c then option_map (with_rc n) (nth_error H d) else nth_error H d.
Proof.
  unfold set_rc. destruct (nth_error H c) as [blk|] eqn:E.
  - rewrite nth_error_upd. destruct (d =? c) eqn:Q; auto.
    apply Nat.eqb_eq in Q. subst d. rewrite E. reflexivity.
  - destruct (d =? c) eqn:Q; auto. apply Nat.eqb_eq in Q. subst d. rewrite E. reflexivity.
Qed.

Lemma set_rc_length c n H : length (set_rc c n H) = length H.
Proof. unfold set_rc. destruct (nth_error H c); auto. apply upd_length. Qed.

Lemma rcof_set_rc_same c n H blk : nth_error H c = Some blk -> rcof (set_rc c n H) c = n.
Proof. intro E. unfold rcof. rewrite set_rc_nth, Nat.eqb_refl, E. reflexivity. Qed.

Lemma rcof_set_rc_other c n H b : b <> c -> rcof (set_rc c n H) b = rcof H b.
Proof. intro N. unfold rcof. rewrite set_rc_nth. destruct (b =? c) eqn:Q; auto. apply Nat.eqb_eq in Q. lia. Qed.

Lemma inner_set_rc b c n H blk :
  nth_error H c = Some blk ->
  inner b (set_rc c n H) + bcnt b blk = inner b H + (if n =? 0 then 0 else cnt b (children (pl blk))).
Proof.
  intro E. unfold set_rc. rewrite E.
  pose proof (inner_upd b c blk {| rc := n; dp := dp blk; pl := pl blk |} H E) as U.
  unfold bcnt at 2 in U. cbn [rc pl] in U. exact U.
Qed.

Lemma hdepth_set_rc c n H h : hdepth (set_rc c n H) h = hdepth H h.
Proof.
  destruct h as [s|b]; cbn [hdepth]; auto. rewrite set_rc_nth.
  destruct (b =? c); auto. destruct (nth_error H b); reflexivity.
Qed.

Lemma rcof_pos_lt H b : rcof H b <> 0 -> b < length H.
Proof. unfold rcof. destruct (nth_error H b) eqn:E; [intros _; eapply nth_error_Some_lt; eauto|tauto]. Qed.

Lemma hdepth_snoc H x h : (forall b, h = HB b -> b < length H) -> hdepth (H ++ [x]) h = hdepth H h.
Proof.
  destruct h as [s|b]; cbn [hdepth]; auto. intro L. rewrite nth_error_app1; auto.
Qed.

(* heap evolution: blocks keep their payload and ghost depth for ever; only counts change, and new
   blocks are appended *)
Definition ext (H H' : heap) : Prop :=
  forall c blk, nth_error H c = Some blk ->
    exists blk', nth_error H' c = Some blk' /\ pl blk' = pl blk /\ dp blk' = dp blk.

Lemma ext_refl H : ext H H.
Proof. intros c blk E. eauto. Qed.

Lemma ext_trans H1 H2 H3 : ext H1 H2 -> ext H2 H3 -> ext H1 H3.
Proof.
  intros A B c blk E. destruct (A c blk E) as (b2 & E2 & P2 & D2).
  destruct (B c b2 E2) as (b3 & E3 & P3 & D3). exists b3. repeat split; congruence.
Qed.

Lemma ext_set_rc c n H : ext H (set_rc c n H).
Proof.
  intros d blk E. rewrite set_rc_nth, E. destruct (d =? c); cbn; eauto.
Qed.

Lemma ext_snoc H x : ext H (H ++ [x]).
Proof. intros d blk E. exists blk. split; auto. apply nth_error_snoc_old; auto. Qed.

Lemma ext_length H H' : ext H H' -> length H <= length H'.
Proof.
  intro X. destruct (Nat.le_gt_cases (length H) (length H')) as [L|L]; auto.
  destruct (nth_error_lt_Some H (length H') L) as (blk & E).
  destruct (X _ _ E) as (b' & E' & _). apply nth_error_Some_lt in E'. lia.
Qed.

Lemma hdepth_ext H H' h : ext H H' -> (forall b, h = HB b -> b < length H) -> hdepth H' h = hdepth H h.
Proof.
  intros X L. destruct h as [s|b]; cbn [hdepth]; auto.
  destruct (nth_error_lt_Some H b (L b eq_refl)) as (blk & E). rewrite E.
  destruct (X _ _ E) as (b' & E' & _ & D). rewrite E'. auto.
Qed.

(* ------------------------------------------------------------------------------------------ *)
(* the invariant                                                                                *)
(* ------------------------------------------------------------------------------------------ *)

Definition WF (H : heap) : Prop :=
  forall c blk h, nth_error H c = Some blk -> In h (children (pl blk)) ->
    (forall b, h = HB b -> b < c) /\ hdepth H h < dp blk.

Definition Counts (H : heap) (R : list handle) : Prop :=
  forall b, rcof H b = cnt b R + inner b H.

Definition Inv (H : heap) (R : list handle) : Prop := WF H /\ Counts H R.

Lemma Inv_perm H R R' : (forall b, cnt b R = cnt b R') -> Inv H R -> Inv H R'.
Proof. intros P [W C]. split; auto. intro b. rewrite <- P. apply C. Qed.

(* a handle held by the roots refers to a live block *)
Lemma Inv_root_live H R b : Inv H R -> In (HB b) R -> rcof H b <> 0.
Proof. intros [_ C] I. rewrite (C b). pose proof (cnt_In_pos b R I). lia. Qed.

(* a handle held inside a live payload refers to a live block *)
Lemma Inv_child_live H R c blk b :
  Inv H R -> nth_error H c = Some blk -> rc blk <> 0 -> In (HB b) (children (pl blk)) -> rcof H b <> 0.
Proof.
  intros [_ C] E L I. rewrite (C b).
  pose proof (inner_ge_child b c blk H E L). pose proof (cnt_In_pos b _ I). lia.
Qed.

Lemma WF_set_rc c n H : WF H -> WF (set_rc c n H).
Proof.
  intros W d blk h E I. rewrite set_rc_nth in E. rewrite hdepth_set_rc.
  destruct (d =? c).
  - destruct (nth_error H d) as [b0|] eqn:E0; cbn in E; [|discriminate]. injection E as <-.
    cbn [with_rc pl dp] in *. eapply W; eauto.
  - eapply W; eauto.
Qed.

Lemma WF_alloc H p :
  WF H -> (forall b, In (HB b) (children p) -> b < length H) ->
  WF (H ++ [{| rc := 1; dp := pdepth H p; pl := p |}]).
Proof.
  intros W L d blk h E I. apply nth_error_snoc_inv in E. destruct E as [[Ld E]|[-> ->]].
  - destruct (W d blk h E I) as [A B]. split; auto.
    rewrite hdepth_snoc; auto. intros b ->. specialize (A b eq_refl). lia.
  - cbn [pl dp] in *. split.
    + intros b ->. auto.
    + rewrite hdepth_snoc; [|intros b ->; auto].
      destruct p as [s|k ks hs]; cbn [children In] in I; [tauto|]. cbn [pdepth].
      assert (G : forall l x, In x l -> x <= maxl l).
      { induction l as [|y t IH]; cbn [In maxl]; [tauto|]. intros x [->|J]; [lia|specialize (IH x J); lia]. }
      specialize (G (map (hdepth H) hs) (hdepth H h) (in_map _ _ _ I)). lia.
Qed.

(* P1: one more handle to a live block *)
Lemma Inv_incr H R b : Inv H R -> rcof H b <> 0 -> Inv (set_rc b (S (rcof H b)) H) (HB b :: R).
Proof.
  intros [W C] L. split; [apply WF_set_rc; auto|]. intro b'.
  assert (Lb := rcof_pos_lt H b L). destruct (nth_error_lt_Some H b Lb) as (blk & E).
  pose proof (inner_set_rc b' b (S (rcof H b)) H blk E) as U. cbn [Nat.eqb] in U.
  assert (Q : bcnt b' blk = cnt b' (children (pl blk))).
  { unfold bcnt. unfold rcof in L. rewrite E in L. destruct (rc blk =? 0) eqn:Z; auto. apply Nat.eqb_eq in Z. lia. }
  cbn [cnt]. destruct (Nat.eq_dec b' b) as [->|N].
  - rewrite (rcof_set_rc_same _ _ _ _ E), hcnt_same. pose proof (C b). lia.
  - rewrite rcof_set_rc_other, hcnt_other by auto. pose proof (C b'). lia.
Qed.

(* P2: one handle fewer, the block stays live *)
Lemma Inv_decr H R b n : Inv H (HB b :: R) -> rcof H b = S (S n) -> Inv (set_rc b (S n) H) R.
Proof.
  intros [W C] L. split; [apply WF_set_rc; auto|]. intro b'.
  assert (Lb : b < length H) by (apply rcof_pos_lt; lia). destruct (nth_error_lt_Some H b Lb) as (blk & E).
  pose proof (inner_set_rc b' b (S n) H blk E) as U. cbn [Nat.eqb] in U.
  assert (Q : bcnt b' blk = cnt b' (children (pl blk))).
  { unfold bcnt. unfold rcof in L. rewrite E in L. rewrite L. reflexivity. }
  specialize (C b'). cbn [cnt] in C. destruct (Nat.eq_dec b' b) as [->|N].
  - rewrite (rcof_set_rc_same _ _ _ _ E). rewrite hcnt_same in C. lia.
  - rewrite rcof_set_rc_other by auto. rewrite hcnt_other in C by auto. lia.
Qed.

(* P3: the last handle goes: the block is released, the handles in its payload become roots *)
Lemma Inv_kill H R b blk :
  Inv H (HB b :: R) -> nth_error H b = Some blk -> rc blk = 1 ->
  Inv (set_rc b 0 H) (children (pl blk) ++ R).
Proof.
  intros [W C] E L. split; [apply WF_set_rc; auto|]. intro b'.
  pose proof (inner_set_rc b' b 0 H blk E) as U. cbn [Nat.eqb] in U.
  assert (Q : bcnt b' blk = cnt b' (children (pl blk))).
  { unfold bcnt. rewrite L. reflexivity. }
  rewrite cnt_app. pose proof (C b') as Cb. cbn [cnt] in Cb. destruct (Nat.eq_dec b' b) as [->|N].
  - rewrite (rcof_set_rc_same _ _ _ _ E). rewrite hcnt_same in Cb. unfold rcof in Cb. rewrite E, L in Cb. lia.
  - rewrite rcof_set_rc_other by auto. rewrite hcnt_other in Cb by auto. lia.
Qed.

(* P4: a new block takes over root handles as its payload *)
Lemma Inv_alloc H R p :
  Inv H (children p ++ R) ->
  Inv (H ++ [{| rc := 1; dp := pdepth H p; pl := p |}]) (HB (length H) :: R).
Proof.
  intros [W C]. split.
  - apply WF_alloc; auto. intros b I. apply rcof_pos_lt. rewrite (C b), cnt_app.
    pose proof (cnt_In_pos b _ I). lia.
  - intro b. rewrite inner_app. cbn [inner cnt]. unfold bcnt at 1. cbn [rc pl Nat.eqb].
    pose proof (C b) as Cb. rewrite cnt_app in Cb.
    unfold rcof in *. destruct (Nat.lt_trichotomy b (length H)) as [L|[->|L]].
    + rewrite nth_error_app1 by auto. rewrite hcnt_other by lia. lia.
    + rewrite nth_error_app2 by lia. rewrite Nat.sub_diag. cbn [nth_error rc]. rewrite hcnt_same.
      assert (Z : nth_error H (length H) = None) by (apply nth_error_None; lia). rewrite Z in Cb. lia.
    + rewrite hcnt_other by lia.
      assert (Z : nth_error H b = None) by (apply nth_error_None; lia). rewrite Z in Cb.
      assert (Z' : nth_error (H ++ [{| rc := 1; dp := pdepth H p; pl := p |}]) b = None).
      { apply nth_error_None. rewrite app_length. cbn. lia. }
      rewrite Z'. lia.
Qed.

Lemma Inv_scalar H R s : Inv H (HS s :: R) <-> Inv H R.
Proof. split; apply Inv_perm; intro b; reflexivity. Qed.

Lemma Inv_init k : Inv [] (repeat HNull k).
Proof.
  split.
  - intros c blk h E. destruct c; discriminate.
  - intro b. rewrite cnt_repeat_null. unfold rcof. destruct b; reflexivity.
Qed.
