(* C07 - executable model of nstd Variant's representation (Variant.hpp, after the repairs of
   fixes/C07): a heap of reference-counted blocks with NESTED handles.

     handle  = inline scalar (Variant::_data, ref 0)  |  block id (Variant::data -> heap block)
     block   = reference count, payload (String | List | Array | HashMap<String,Variant>)
     payload children are handles again (the Variants stored inside the container)

   Conventions of this model (all validated by the correspondence run, which compares the
   canonical heap shape = sharing structure + every reference count after every operation):
   - block ids are never reused; a block whose count reaches 0 stays as a tombstone (rc = 0);
   - writing an exclusively owned block "in place" is modelled as: retire the old id, move the
     children, allocate the modified payload under a fresh id (no count of any child changes,
     exactly like the in-place write; ids are not observable);
   - a ghost field [dp] (depth of the value below the block) provides the recursion fuel of
     release/abs, so that no operation has a fuel argument.
   No proofs in this file. *)
From Coq Require Import ZArith List Bool Arith.
From Common Require Import Words ListAux.
From Variant Require Import VariantSpec.
Import ListNotations.
Local Open Scope bool_scope.

Inductive handle := HS (s : scalar) | HB (b : nat).
Definition HNull := HS SNull.

Inductive payload := PStr (s : bytes) | PNode (k : kind) (ks : list bytes) (hs : list handle).

Record block := { rc : nat; dp : nat; pl : payload }.
Definition heap := list block.
Record state := { hp : heap; vars : list handle }.

Definition children (p : payload) : list handle :=
  match p with PNode _ _ hs => hs | PStr _ => [] end.

Definition rcof (H : heap) (b : nat) : nat :=
  match nth_error H b with Some blk => rc blk | None => O end.

(* payload of a live block *)
Definition lookup (H : heap) (b : nat) : option payload :=
  match nth_error H b with
  | Some blk => if (rc blk =? 0)%nat then None else Some (pl blk)
  | None => None
  end.

Definition set_rc (b n : nat) (H : heap) : heap :=
  match nth_error H b with
  | Some blk => upd b {| rc := n; dp := dp blk; pl := pl blk |} H
  | None => H
  end.

Definition hdepth (H : heap) (h : handle) : nat :=
  match h with
  | HS _ => O
  | HB b => match nth_error H b with Some blk => dp blk | None => O end
  end.

Fixpoint maxl (l : list nat) : nat := match l with [] => O | x :: t => Nat.max x (maxl t) end.

Definition pdepth (H : heap) (p : payload) : nat :=
  match p with PStr _ => O | PNode _ _ hs => S (maxl (map (hdepth H) hs)) end.

(* Variant(const Variant&) on a heap payload: Atomic::increment(data->ref) *)
Definition share (H : heap) (h : handle) : heap :=
  match h with HB b => set_rc b (S (rcof H b)) H | HS _ => H end.

(* Variant::clear(): decrement; at 0 destroy the payload (which clears every contained Variant)
   and free the block *)
Fixpoint release (fuel : nat) (H : heap) (h : handle) : option heap :=
  match h with
  | HS _ => Some H
  | HB b =>
      match fuel with
      | O => None
      | S f =>
          match nth_error H b with
          | None => None
          | Some blk =>
              match rc blk with
              | O => None                                        (* handle to a freed block *)
              | S O => fold_left (fun acc c => match acc with Some H' => release f H' c | None => None end)
                                 (children (pl blk)) (Some (set_rc b 0 H))
              | S n => Some (set_rc b n H)
              end
          end
      end
  end.

Definition release_top (H : heap) (h : handle) : option heap := release (S (hdepth H h)) H h.

Fixpoint release_all (hs : list handle) (H : heap) : option heap :=
  match hs with
  | [] => Some H
  | h :: t => match release_top H h with Some H' => release_all t H' | None => None end
  end.

(* new char[sizeof(Data) + sizeof(T)] ; ref = 1 *)
Definition alloc (H : heap) (p : payload) : heap * handle :=
  (H ++ [{| rc := 1; dp := pdepth H p; pl := p |}], HB (length H)).

(* const toMap()/toList()/toArray(): the payload when the type matches, else the static empty one *)
Definition mopen (k : kind) (H : heap) (h : handle) : list bytes * list handle :=
  match h with
  | HB b => match lookup H b with
            | Some (PNode k' ks hs) => if kind_eqb k k' then (ks, hs) else ([], [])
            | _ => ([], [])
            end
  | HS _ => ([], [])
  end.

(* non-const toMap()/toList()/toArray(): `if(data->type != T || data->ref > 1)` clone, else in
   place.  Consumes the handle, returns the children as owned handles. *)
Definition open_mut (k : kind) (H : heap) (h : handle) : option (heap * list bytes * list handle) :=
  match h with
  | HS _ => Some (H, [], [])
  | HB b =>
      match lookup H b with
      | None => None
      | Some (PNode k' ks hs) =>
          if kind_eqb k k' then
            if (rcof H b =? 1)%nat then Some (set_rc b 0 H, ks, hs)           (* exclusive: in place *)
            else let H1 := fold_left share hs H in                              (* copy of the container *)
                 Some (set_rc b (pred (rcof H1 b)) H1, ks, hs)                  (* clear(): ref > 1 *)
          else option_map (fun H' => (H', [], [])) (release_top H h)            (* other type: empty, clear() *)
      | Some (PStr _) => option_map (fun H' => (H', [], [])) (release_top H h)
      end
  end.

(* const navigation *)
Fixpoint mread (p : path) (H : heap) (h : handle) : option handle :=
  match p with
  | [] => Some h
  | (k, s) :: p' =>
      let '(ks, hs) := mopen k H h in
      match find_child ks (length hs) s with
      | Some i => mread p' H (nth i hs HNull)
      | None => None
      end
  end.

(* navigation through the mutable accessors down to a node, [leaf] there, rebuild upwards *)
Fixpoint mupd (p : path) (leaf : heap -> handle -> option (heap * handle)) (H : heap) (h : handle)
  : option (heap * handle * bool) :=
  match p with
  | [] => match leaf H h with Some (H', h') => Some (H', h', true) | None => None end
  | (k, s) :: p' =>
      match open_mut k H h with
      | None => None
      | Some (H1, ks, hs) =>
          match find_child ks (length hs) s with
          | None => let '(H2, h2) := alloc H1 (PNode k ks hs) in Some (H2, h2, false)
          | Some i =>
              match mupd p' leaf H1 (nth i hs HNull) with
              | None => None
              | Some (H2, c, ok) => let '(H3, h3) := alloc H2 (PNode k ks (upd i c hs)) in Some (H3, h3, ok)
              end
          end
      end
  end.

(* ---- leaves ---- *)
Definition leaf_id (H : heap) (h : handle) : option (heap * handle) := Some (H, h).

(* operator=(const Variant&) / scalar assignments / clear(): drop the old handle, take x (owned) *)
Definition leaf_set (x : handle) (H : heap) (h : handle) : option (heap * handle) :=
  match release_top H h with Some H' => Some (H', x) | None => None end.

Definition mto_str (H : heap) (h : handle) : bytes :=
  match h with
  | HS s => to_str (VS s)
  | HB b => match lookup H b with Some (PStr s) => s | _ => [] end
  end.

(* operator=(const String&) *)
Definition leaf_setstr (b : bytes) (H : heap) (h : handle) : option (heap * handle) :=
  match release_top H h with Some H' => Some (alloc H' (PStr b)) | None => None end.

(* non-const toString() then String::append *)
Definition leaf_str (sfx : bytes) (H : heap) (h : handle) : option (heap * handle) :=
  let s := mto_str H h in
  match release_top H h with Some H' => Some (alloc H' (PStr (s ++ sfx))) | None => None end.

(* container operation on the opened payload; consumes [arg] *)
Definition mcop (k : kind) (c : cop) (arg : handle) (ks : list bytes) (hs : list handle) (H : heap)
  : option (heap * list bytes * list handle) :=
  match c with
  | CTouch => Some (H, ks, hs)
  | CIns n key =>
      match k with
      | KMap => match key_index ks key with
                | Some i => if (i <? length hs)%nat
                            then match release_top H (nth i hs HNull) with       (* `*it = value` *)
                                 | Some H' => Some (H', ks, upd i arg hs) | None => None end
                            else match release_top H arg with Some H' => Some (H', ks, hs) | None => None end
                | None => Some (H, ins_at n key ks, ins_at n arg hs)
                end
      | _ => Some (H, ks, ins_at n arg hs)
      end
  | CRem n =>
      if (n <? length hs)%nat
      then match release_top H (nth n hs HNull) with Some H' => Some (H', rem_at n ks, rem_at n hs) | None => None end
      else Some (H, ks, hs)
  | CRemKey key =>
      match key_index ks key with
      | Some i => if (i <? length hs)%nat
                  then match release_top H (nth i hs HNull) with Some H' => Some (H', rem_at i ks, rem_at i hs) | None => None end
                  else Some (H, ks, hs)
      | None => Some (H, ks, hs)
      end
  | CClr => match release_all hs H with Some H' => Some (H', [], []) | None => None end
  end.

Definition leaf_cont (k : kind) (c : cop) (arg : handle) (H : heap) (h : handle) : option (heap * handle) :=
  match open_mut k H h with
  | None => None
  | Some (H1, ks, hs) =>
      match mcop k c arg ks hs H1 with
      | None => None
      | Some (H2, ks', hs') => Some (alloc H2 (PNode k ks' hs'))
      end
  end.

Fixpoint mbuild (k : kind) (items : list (bytes * handle)) (ks : list bytes) (hs : list handle) (H : heap)
  : option (heap * list bytes * list handle) :=
  match items with
  | [] => Some (H, ks, hs)
  | (key, x) :: t =>
      match mcop k (CIns (length hs) key) x ks hs H with
      | Some (H', ks', hs') => mbuild k t ks' hs' H'
      | None => None
      end
  end.

(* ---- the step ---- *)
Definition geth (vs : list handle) (i : nat) : handle := nth i vs HNull.

Definition mupd_var (s : state) (i : nat) (p : path) (leaf : heap -> handle -> option (heap * handle))
  : option (state * bool) :=
  match mupd p leaf (hp s) (geth (vars s) i) with
  | Some (H', h', ok) => Some ({| hp := H'; vars := upd i h' (vars s) |}, ok)
  | None => None
  end.

(* run a leaf that consumes the owned handle x; when the path does not resolve, x is dropped *)
Definition mupd_arg (s : state) (i : nat) (p : path) (x : handle)
           (leaf : heap -> handle -> option (heap * handle)) : option (state * outcome) :=
  match mupd_var s i p leaf with
  | Some (s', true) => Some (s', Done)
  | Some (s', false) => match release_top (hp s') x with
                        | Some H' => Some ({| hp := H'; vars := vars s' |}, NoPath)
                        | None => None
                        end
  | None => None
  end.

(* getType() == stringType: the String payload *)
Definition str_payload (H : heap) (h : handle) : option bytes :=
  match h with
  | HB b => match lookup H b with Some (PStr s) => Some s | _ => None end
  | HS _ => None
  end.

Definition mstep (s : state) (o : op) : option (state * outcome) :=
  let n := length (vars s) in
  match o with
  | OSetScalar i p sc =>
      if (i <? n)%nat then mupd_arg s i p (HS sc) (leaf_set (HS sc)) else Some (s, BadVar)
  | OSetStr i p b =>
      if (i <? n)%nat then mupd_arg s i p HNull (leaf_setstr b) else Some (s, BadVar)
  | OSetNode i p k items =>
      if (i <? n)%nat && forallb (fun it => (snd it <? n)%nat) items then
        let its := map (fun it => (fst it, geth (vars s) (snd it))) items in
        let H0 := fold_left share (map snd its) (hp s) in
        match mbuild k its [] [] H0 with
        | Some (H1, ks, hs) =>
            let '(H2, x) := alloc H1 (PNode k ks hs) in
            mupd_arg {| hp := H2; vars := vars s |} i p x (leaf_set x)
        | None => None
        end
      else Some (s, BadVar)
  | OAssign i p j sp =>
      if (i <? n)%nat && (j <? n)%nat then
        match mupd_var s i p leaf_id with
        | Some (s1, true) =>
            match mread sp (hp s1) (geth (vars s1) j) with
            | Some x => mupd_arg {| hp := share (hp s1) x; vars := vars s1 |} i p x (leaf_set x)
            | None => Some (s1, NoSrc)
            end
        | Some (s1, false) => Some (s1, NoPath)
        | None => None
        end
      else Some (s, BadVar)
  | OClear i p =>
      if (i <? n)%nat then mupd_arg s i p HNull (leaf_set HNull) else Some (s, BadVar)
  | OSwap i j =>
      if (i <? n)%nat && (j <? n)%nat
      then Some ({| hp := hp s; vars := upd i (geth (vars s) j) (upd j (geth (vars s) i) (vars s)) |}, Done)
      else Some (s, BadVar)
  | OCopyNew i j =>
      if (i <? n)%nat && (j <? n)%nat && negb (i =? j)%nat then
        match release_top (hp s) (geth (vars s) i) with
        | Some H1 => Some ({| hp := share H1 (geth (vars s) j); vars := upd i (geth (vars s) j) (vars s) |}, Done)
        | None => None
        end
      else Some (s, BadVar)
  | OStrTouch i p =>
      if (i <? n)%nat then mupd_arg s i p HNull (leaf_str []) else Some (s, BadVar)
  | OStrAppend i p b =>
      if (i <? n)%nat then mupd_arg s i p HNull (leaf_str b) else Some (s, BadVar)
  | OCont i p k c j sp =>
      if (i <? n)%nat && (j <? n)%nat then
        match mupd_var s i p (leaf_cont k CTouch HNull) with
        | Some (s1, true) =>
            match c with
            | CIns _ _ =>
                match mread sp (hp s1) (geth (vars s1) j) with
                | Some x => mupd_arg {| hp := share (hp s1) x; vars := vars s1 |} i p x (leaf_cont k c x)
                | None => Some (s1, NoSrc)
                end
            | _ => mupd_arg s1 i p HNull (leaf_cont k c HNull)
            end
        | Some (s1, false) => Some (s1, NoPath)
        | None => None
        end
      else Some (s, BadVar)
  | OAssignStrFrom i p j sp =>
      (* const look: is the source a string?  then `String& r = <mutable navigation of j along sp>.toString()`,
         `Variant& d = <mutable navigation of i along p>`, `d = r` - operator=(const String&) AFTER the repair
         (fixes/C07/03): the new payload is built from r before the old one is released *)
      if (i <? n)%nat && (j <? n)%nat then
        match mread sp (hp s) (geth (vars s) j) with
        | Some x =>
            match str_payload (hp s) x with
            | Some b =>
                match mupd_var s j sp (leaf_str []) with
                | Some (s0, _) =>
                    match mupd_var s0 i p leaf_id with
                    | Some (s1, true) => mupd_arg s1 i p HNull (leaf_setstr b)
                    | Some (s1, false) => Some (s1, NoPath)
                    | None => None
                    end
                | None => None
                end
            | None => Some (s, NoSrc)
            end
        | None => Some (s, NoSrc)
        end
      else Some (s, BadVar)
  | OAssignNodeFrom i p j sp k =>
      (* operator=(const HashMap&/List&/Array&) AFTER the repair (fixes/C07/03): the copy of the argument
         (every contained Variant copied = shared) is built first, then the old payload is released
         (clear(), or the old items of an exclusively owned payload of the same kind) *)
      if (i <? n)%nat && (j <? n)%nat then
        match mupd_var s i p leaf_id with
        | Some (s1, true) =>
            match mread sp (hp s1) (geth (vars s1) j) with
            | Some y =>
                let '(ks, hs) := mopen k (hp s1) y in
                let H0 := fold_left share hs (hp s1) in
                let '(H2, x) := alloc H0 (PNode k ks hs) in
                mupd_arg {| hp := H2; vars := vars s1 |} i p x (leaf_set x)
            | None => Some (s1, NoSrc)
            end
        | Some (s1, false) => Some (s1, NoPath)
        | None => None
        end
      else Some (s, BadVar)
  end.

Definition init (k : nat) : state := {| hp := []; vars := repeat HNull k |}.

(* ---- the deep value a handle denotes (what every const observer of the code reads) ---- *)
Fixpoint abs (fuel : nat) (H : heap) (h : handle) : option value :=
  match h with
  | HS s => Some (VS s)
  | HB b =>
      match fuel with
      | O => None
      | S f =>
          match lookup H b with
          | None => None
          | Some (PStr s) => Some (VStr s)
          | Some (PNode k ks hs) =>
              match (fix go (l : list handle) : option (list value) :=
                       match l with
                       | [] => Some []
                       | x :: t => match abs f H x, go t with
                                   | Some v, Some vs => Some (v :: vs)
                                   | _, _ => None
                                   end
                       end) hs with
              | Some vs => Some (VNode k ks vs)
              | None => None
              end
          end
      end
  end.

Definition abs_top (H : heap) (h : handle) : option value := abs (S (hdepth H h)) H h.

(* the const observers of the code (getType, to*, ==) read the deep value only *)
Definition abs_vars (s : state) : list (option value) := map (abs_top (hp s)) (vars s).

(* heap accounting for the "freed exactly once, nothing leaks" observation *)
Definition live_blocks (H : heap) : nat := length (filter (fun b => negb (rc b =? 0)%nat) H).

(* a whole history: the state after the last operation (None = some operation failed: a handle to a
   released block was followed, or the recursion fuel of the ghost depths did not suffice) *)
Fixpoint mrun (s : state) (l : list op) : option state :=
  match l with
  | [] => Some s
  | o :: t => match mstep s o with Some (s', _) => mrun s' t | None => None end
  end.

(* ~Variant() of every variable *)
Definition destroy_all (s : state) : option heap := release_all (vars s) (hp s).

(* ---- the const observers of the code, on the representation --------------------------------
   getType and the to* accessors switch on the type tag and read the inline scalar or the String
   payload; they never look inside a container.  [shallow] is exactly what they read. *)
Definition shallow (H : heap) (h : handle) : value :=
  match h with
  | HS s => VS s
  | HB b => match lookup H b with
            | Some (PStr s) => VStr s
            | Some (PNode k _ _) => VNode k [] []
            | None => VNull
            end
  end.

Definition m_type (H : heap) (h : handle) : Z := vtype (shallow H h).
Definition m_to_bool (H : heap) (h : handle) : bool := to_bool (shallow H h).
Definition m_to_int (H : heap) (h : handle) : option Z := to_int (shallow H h).
Definition m_to_uint (H : heap) (h : handle) : option Z := to_uint (shallow H h).
Definition m_to_i64 (H : heap) (h : handle) : option Z := to_i64 (shallow H h).
Definition m_to_u64 (H : heap) (h : handle) : option Z := to_u64 (shallow H h).
Definition m_to_dbl (H : heap) (h : handle) : Z * Z := to_dbl (shallow H h).
Definition m_to_str (H : heap) (h : handle) : bytes := to_str (shallow H h).

(* Variant::operator== on the representation: the left operand's tag decides; containers are
   compared element by element (HashMap/List/Array operator==, keys first for maps), through the
   handles, whatever blocks they happen to share *)
Fixpoint meq (fuel : nat) (H : heap) (a b : handle) {struct fuel} : option bool :=
  match fuel with
  | O => None
  | S f =>
      match a with
      | HS s => eq_scalar_lhs s (shallow H b)
      | HB ba =>
          match lookup H ba with
          | None => None
          | Some (PStr s) =>
              match shallow H b with
              | VStr s' => Some (bytes_eqb s s')
              | VS sb => eq_scalar_lhs sb (VStr s)
              | VNode _ _ _ => Some false
              end
          | Some (PNode k ks hs) =>
              match b with
              | HS _ => Some false
              | HB bb =>
                  match lookup H bb with
                  | Some (PNode k' ks' hs') =>
                      if kind_eqb k k' then
                        if (length hs =? length hs')%nat then
                          (fix go (ks ks' : list bytes) (l l' : list handle) {struct l} : option bool :=
                             match l, l' with
                             | x :: xs, y :: ys =>
                                 let kd := match ks, ks' with k1 :: _, k2 :: _ => negb (bytes_eqb k1 k2) | _, _ => false end in
                                 if kd then Some false else
                                 match meq f H x y with
                                 | Some true => go (tl ks) (tl ks') xs ys
                                 | r => r
                                 end
                             | _, _ => Some true
                             end) ks ks' hs hs'
                        else Some false
                      else Some false
                  | Some (PStr _) => Some false
                  | None => None
                  end
              end
          end
      end
  end.

Definition meq_top (H : heap) (a b : handle) : option bool := meq (S (hdepth H a)) H a b.
