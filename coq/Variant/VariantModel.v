(* C07 - executable model of nstd Variant's representation (Variant.hpp, after the repairs of
   fixes/C07): a heap of reference-counted blocks with NESTED handles.

     handle  = inline scalar (Variant::_data, ref 0)  |  block id (Variant::data -> heap block)
     block   = reference count, payload (String | List | Array | HashMap<String,Variant>)
     payload children are handles again (the Variants stored inside the container)

   Conventions of this model (all validated by the correspondence run, which compares the
   canonical heap shape = sharing structure + every reference count after every operation):
   - block ids are never reused; a block whose count reaches 0 stays as a tombstone (rc = 0);
   - writing an exclusively owned block "in place" is modelled as: retire the old id, move the
     children, allocate the modified payload under a fresh id (no count of any child changes,
     exactly like the in-place write; ids are not observable);
   - a ghost field [dp] (depth of the value below the block) provides the recursion fuel of
     release/abs, so that no operation has a fuel argument.
   No proofs in this file. *)
From Coq Require Import ZArith List Bool Arith.
From Common Require Import Words ListAux.
From Variant Require Import VariantSpec.
Import ListNotations.
Local Open Scope bool_scope.

Inductive handle := HS (s : scalar) | HB (b : nat).
Definition HNull := HS SNull.

Inductive payload := PStr (s : bytes) | PNode (k : kind) (ks : list bytes) (hs : list handle).

Record block := { rc : nat; dp : nat; pl : payload }.
Definition heap := list block.
Record state := { hp : heap; vars : list handle }.

Definition children (p : payload) : list handle :=
  match p with PNode _ _ hs => hs | PStr _ => [] end.

Definition rcof (H : heap) (b : nat) : nat :=
  match nth_error H b with Some blk => rc blk | None => O end.

(* payload of a live block *)
Definition lookup (H : heap) (b : nat) : option payload :=
  match nth_error H b with
  | Some blk => if (rc blk =? 0)%nat then None else Some (pl blk)
  | None => None
  end.

Definition set_rc (b n : nat) (H : heap) : heap :=
  match nth_error H b with
  | Some blk => upd b {| rc := n; dp := dp blk; pl := pl blk |} H
  | None => H
  end.

Definition hdepth (H : heap) (h : handle) : nat :=
  match h with
  | HS _ => O
  | HB b => match nth_error H b with Some blk => dp blk | None => O end
  end.

Fixpoint maxl (l : list nat) : nat := match l with [] => O | x :: t => Nat.max x (maxl t) end.

Definition pdepth (H : heap) (p : payload) : nat :=
  match p with PStr _ => O | PNode _ _ hs => S (maxl (map (hdepth H) hs)) end.

(* Variant(const Variant&) on a heap payload: Atomic::increment(data->ref) *)
Definition share (H : heap) (h : handle) : heap :=
  match h with HB b => set_rc b (S (rcof H b)) H | HS _ => H end.

(* Variant::clear(): decrement; at 0 destroy the payload (which clears every contained Variant)
   and free the block *)
Fixpoint release (fuel : nat) (H : heap) (h : handle) : option heap :=
  match h with
  | HS _ => Some H
  | HB b =>
      match fuel with
      | O => None
      | S f =>
          match nth_error H b with
          | None => None
          | Some blk =>
              match rc blk with
              | O => None                                        (* handle to a freed block *)
              | S O => fold_left (fun acc c => match acc with Some H' => release f H' c | None => None end)
                                 (children (pl blk)) (Some (set_rc b 0 H))
              | S n => Some (set_rc b n H)
              end
          end
      end
  end.

Definition release_top (H : heap) (h : handle) : option heap := release (S (hdepth H h)) H h.

Fixpoint release_all (hs : list handle) (H : heap) : option heap :=
  match hs with
  | [] => Some H
  | h :: t => match release_top H h with Some H' => release_all t H' | None => None end
  end.

(* new char[sizeof(Data) + sizeof(T)] ; ref = 1 *)
Definition alloc (H : heap) (p : payload) : heap * handle :=
  (H ++ [{| rc := 1; dp := pdepth H p; pl := p |}], HB (length H)).

(* const toMap()/toList()/toArray(): the payload when the type matches, else the static empty one *)
Definition mopen (k : kind) (H : heap) (h : handle) : list bytes * list handle :=
  match h with
  | HB b => match lookup H b with
            | Some (PNode k' ks hs) => if kind_eqb k k' then (ks, hs) else ([], [])
            | _ => ([], [])
            end
  | HS _ => ([], [])
  end.

(* non-const toMap()/toList()/toArray(): `if(data->type != T || data->ref > 1)` clone, else in
   place.  Consumes the handle, returns the children as owned handles. *)
Definition open_mut (k : kind) (H : heap) (h : handle) : option (heap * list bytes * list handle) :=
  match h with
  | HS _ => Some (H, [], [])
  | HB b =>
      match lookup H b with
      | None => None
      | Some (PNode k' ks hs) =>
          if kind_eqb k k' then
            if (rcof H b =? 1)%nat then Some (set_rc b 0 H, ks, hs)           (* exclusive: in place *)
            else let H1 := fold_left share hs H in                              (* copy of the container *)
                 Some (set_rc b (pred (rcof H1 b)) H1, ks, hs)                  (* clear(): ref > 1 *)
          else option_map (fun H' => (H', [], [])) (release_top H h)            (* other type: empty, clear() *)
      | Some (PStr _) => option_map (fun H' => (H', [], [])) (release_top H h)
      end
  end.

(* const navigation *)
Fixpoint mread (p : path) (H : heap) (h : handle) : option handle :=
  match p with
  | [] => Some h
  | (k, s) :: p' =>
      let '(ks, hs) := mopen k H h in
      match find_child ks (length hs) s with
      | Some i => mread p' H (nth i hs HNull)
      | None => None
      end
  end.

(* navigation through the mutable accessors down to a node, [leaf] there, rebuild upwards *)
Fixpoint mupd (p : path) (leaf : heap -> handle -> option (heap * handle)) (H : heap) (h : handle)
  : option (heap * handle * bool) :=
  match p with
  | [] => match leaf H h with Some (H', h') => Some (H', h', true) | None => None end
  | (k, s) :: p' =>
      match open_mut k H h with
      | None => None
      | Some (H1, ks, hs) =>
          match find_child ks (length hs) s with
          | None => let '(H2, h2) := alloc H1 (PNode k ks hs) in Some (H2, h2, false)
          | Some i =>
              match mupd p' leaf H1 (nth i hs HNull) with
              | None => None
              | Some (H2, c, ok) => let '(H3, h3) := alloc H2 (PNode k ks (upd i c hs)) in Some (H3, h3, ok)
              end
          end
      end
  end.

(* ---- leaves ---- *)
Definition leaf_id (H : heap) (h : handle) : option (heap * handle) := Some (H, h).

(* operator=(const Variant&) / scalar assignments / clear(): drop the old handle, take x (owned) *)
Definition leaf_set (x : handle) (H : heap) (h : handle) : option (heap * handle) :=
  match release_top H h with Some H' => Some (H', x) | None => None end.

Definition mto_str (H : heap) (h : handle) : bytes :=
  match h with
  | HS s => to_str (VS s)
  | HB b => match lookup H b with Some (PStr s) => s | _ => [] end
  end.

(* operator=(const String&) *)
Definition leaf_setstr (b : bytes) (H : heap) (h : handle) : option (heap * handle) :=
  match release_top H h with Some H' => Some (alloc H' (PStr b)) | None => None end.

(* non-const toString() then String::append *)
Definition leaf_str (sfx : bytes) (H : heap) (h : handle) : option (heap * handle) :=
  let s := mto_str H h in
  match release_top H h with Some H' => Some (alloc H' (PStr (s ++ sfx))) | None => None end.

(* container operation on the opened payload; consumes [arg] *)
Definition mcop (k : kind) (c : cop) (arg : handle) (ks : list bytes) (hs : list handle) (H : heap)
  : option (heap * list bytes * list handle) :=
  match c with
  | CTouch => Some (H, ks, hs)
  | CIns n key =>
      match k with
      | KMap => match key_index ks key with
                | Some i => if (i <? length hs)%nat
                            then match release_top H (nth i hs HNull) with       (* `*it = value` *)
                                 | Some H' => Some (H', ks, upd i arg hs) | None => None end
                            else match release_top H arg with Some H' => Some (H', ks, hs) | None => None end
                | None => Some (H, ins_at n key ks, ins_at n arg hs)
                end
      | _ => Some (H, ks, ins_at n arg hs)
      end
  | CRem n =>
      if (n <? length hs)%nat
      then match release_top H (nth n hs HNull) with Some H' => Some (H', rem_at n ks, rem_at n hs) | None => None end
      else Some (H, ks, hs)
  | CRemKey key =>
      match key_index ks key with
      | Some i => if (i <? length hs)%nat
                  then match release_top H (nth i hs HNull) with Some H' => Some (H', rem_at i ks, rem_at i hs) | None => None end
                  else Some (H, ks, hs)
      | None => Some (H, ks, hs)
      end
  | CClr => match release_all hs H with Some H' => Some (H', [], []) | None => None end
  end.

Definition leaf_cont (k : kind) (c : cop) (arg : handle) (H : heap) (h : handle) : option (heap * handle) :=
  match open_mut k H h with
  | None => None
  | Some (H1, ks, hs) =>
      match mcop k c arg ks hs H1 with
      | None => None
      | Some (H2, ks', hs') => Some (alloc H2 (PNode k ks' hs'))
      end
  end.

Fixpoint mbuild (k : kind) (items : list (bytes * handle)) (ks : list bytes) (hs : list handle) (H : heap)
  : option (heap * list bytes * list handle) :=
  match items with
  | [] => Some (H, ks, hs)
  | (key, x) :: t =>
      match mcop k (CIns (length hs) key) x ks hs H with
      | Some (H', ks', hs') => mbuild k t ks' hs' H'
      | None => None
      end
  end.

(* ---- the step ---- *)
Definition geth (vs : list handle) (i : nat) : handle := nth i vs HNull.

Definition mupd_var (s : state) (i : nat) (p : path) (leaf : heap -> handle -> option (heap * handle))
  : option (state * bool) :=
  match mupd p leaf (hp s) (geth (vars s) i) with
  | Some (H', h', ok) => Some ({| hp := H'; vars := upd i h' (vars s) |}, ok)
  | None => None
  end.

(* run a leaf that consumes the owned handle x; when the path does not resolve, x is dropped *)
Definition mupd_arg (s : state) (i : nat) (p : path) (x : handle)
           (leaf : heap -> handle -> option (heap * handle)) : option (state * outcome) :=
  match mupd_var s i p leaf with
  | Some (s', true) => Some (s', Done)
  | Some (s', false) => match release_top (hp s') x with
                        | Some H' => Some ({| hp := H'; vars := vars s' |}, NoPath)
                        | None => None
                        end
  | None => None
  end.

(* getType() == stringType: the String payload *)
Definition str_payload (H : heap) (h : handle) : option bytes :=
  match h with
  | HB b => match lookup H b with Some (PStr s) => Some s | _ => None end
  | HS _ => None
  end.

Definition mstep (s : state) (o : op) : option (state * outcome) :=
  let n := length (vars s) in
  match o with
  | OSetScalar i p sc =>
      if (i <? n)%nat then mupd_arg s i p (HS sc) (leaf_set (HS sc)) else Some (s, BadVar)
  | OSetStr i p b =>
      if (i <? n)%nat then mupd_arg s i p HNull (leaf_setstr b) else Some (s, BadVar)
  | OSetNode i p k items =>
      if (i <? n)%nat && forallb (fun it => (snd it <? n)%nat) items then
        let its := map (fun it => (fst it, geth (vars s) (snd it))) items in
        let H0 := fold_left share (map snd its) (hp s) in
        match mbuild k its [] [] H0 with
        | Some (H1, ks, hs) =>
            let '(H2, x) := alloc H1 (PNode k ks hs) in
            mupd_arg {| hp := H2; vars := vars s |} i p x (leaf_set x)
        | None => None
        end
      else Some (s, BadVar)
  | OAssign i p j sp =>
      if (i <? n)%nat && (j <? n)%nat then
        match mupd_var s i p leaf_id with
        | Some (s1, true) =>
            match mread sp (hp s1) (geth (vars s1) j) with
            | Some x => mupd_arg {| hp := share (hp s1) x; vars := vars s1 |} i p x (leaf_set x)
            | None => Some (s1, NoSrc)
            end
        | Some (s1, false) => Some (s1, NoPath)
        | None => None
        end
      else Some (s, BadVar)
  | OClear i p =>
      if (i <? n)%nat then mupd_arg s i p HNull (leaf_set HNull) else Some (s, BadVar)
  | OSwap i j =>
      if (i <? n)%nat && (j <? n)%nat
      then Some ({| hp := hp s; vars := upd i (geth (vars s) j) (upd j (geth (vars s) i) (vars s)) |}, Done)
      else Some (s, BadVar)
  | OCopyNew i j =>
      if (i <? n)%nat && (j <? n)%nat && negb (i =? j)%nat then
        match release_top (hp s) (geth (vars s) i) with
        | Some H1 => Some ({| hp := share H1 (geth (vars s) j); vars := upd i (geth (vars s) j) (vars s) |}, Done)
        | None => None
        end
      else Some (s, BadVar)
  | OStrTouch i p =>
      if (i <? n)%nat then mupd_arg s i p HNull (leaf_str []) else Some (s, BadVar)
  | OStrAppend i p b =>
      if (i <? n)%nat then mupd_arg s i p HNull (leaf_str b) else Some (s, BadVar)
  | OCont i p k c j sp =>
      if (i <? n)%nat && (j <? n)%nat then
        match mupd_var s i p (leaf_cont k CTouch HNull) with
        | Some (s1, true) =>
            match c with
            | CIns _ _ =>
                match mread sp (hp s1) (geth (vars s1) j) with
                | Some x => mupd_arg {| hp := share (hp s1) x; vars := vars s1 |} i p x (leaf_cont k c x)
                | None => Some (s1, NoSrc)
                end
            | _ => mupd_arg s1 i p HNull (leaf_cont k c HNull)
            end
        | Some (s1, false) => Some (s1, NoPath)
        | None => None
        end
      else Some (s, BadVar)
  | OAssignStrFrom i p j sp =>
      (* const look: is the source a string?  then `String& r = <mutable navigation of j along sp>.toString()`,
         `Variant& d = <mutable navigation of i along p>`, `d = r` - operator=(const String&) AFTER the repair
         (fixes/C07/03): the new payload is built from r before the old one is released *)
      if (i <? n)%nat && (j <? n)%nat then
        match mread sp (hp s) (geth (vars s) j) with
        | Some x =>
            match str_payload (hp s) x with
            | Some b =>
                match mupd_var s j sp (leaf_str []) with
                | Some (s0, _) =>
                    match mupd_var s0 i p leaf_id with
                    | Some (s1, true) => mupd_arg s1 i p HNull (leaf_setstr b)
                    | Some (s1, false) => Some (s1, NoPath)
                    | None => None
                    end
                | None => None
                end
            | None => Some (s, NoSrc)
            end
        | None => Some (s, NoSrc)
        end
      else Some (s, BadVar)
  | OAssignNodeFrom i p j sp k =>
      (* operator=(const HashMap&/List&/Array&) AFTER the repair (fixes/C07/03): the copy of the argument
         (every contained Variant copied = shared) is built first, then the old payload is released
         (clear(), or the old items of an exclusively owned payload of the same kind) *)
      if (i <? n)%nat && (j <? n)%nat then
        match mupd_var s i p leaf_id with
        | Some (s1, true) =>
            match mread sp (hp s1) (geth (vars s1) j) with
            | Some y =>
                let '(ks, hs) := mopen k (hp s1) y in
                let H0 := fold_left share hs (hp s1) in
                let '(H2, x) := alloc H0 (PNode k ks hs) in
                mupd_arg {| hp := H2; vars := vars s1 |} i p x (leaf_set x)
            | None => Some (s1, NoSrc)
            end
        | Some (s1, false) => Some (s1, NoPath)
        | None => None
        end
      else Some (s, BadVar)
  end.

Definition init (k : nat) : state := {| hp := []; vars := repeat HNull k |}.

(* ---- the deep value a handle denotes (what every const observer of the code reads) ---- *)
Fixpoint abs (fuel : nat) (H : heap) (h : handle) : option value :=
  match h with
  | HS s => Some (VS s)
  | HB b =>
      match fuel with
      | O => None
      | S f =>
          match lookup H b with
          | None => None
          | Some (PStr s) => Some (VStr s)
          | Some (PNode k ks hs) =>
              match (fix go (l : list handle) : option (list value) :=
                       match l with
                       | [] => Some []
                       | x :: t => match abs f H x, go t with
                                   | Some v, Some vs => Some (v :: vs)
                                   | _, _ => None
                                   end
                       end) hs with
              | Some vs => Some (VNode k ks vs)
              | None => None
              end
          end
      end
  end.

Definition abs_top (H : heap) (h : handle) : option value := abs (S (hdepth H h)) H h.

(* the const observers of the code (getType, to*, ==) read the deep value only *)
Definition abs_vars (s : state) : list (option value) := map (abs_top (hp s)) (vars s).

(* heap accounting for the "freed exactly once, nothing leaks" observation *)
Definition live_blocks (H : heap) : nat := length (filter (fun b => negb (rc b =? 0)%nat) H).

(* a whole history: the state after the last operation (None = some operation failed: a handle to a
   released block was followed, or the recursion fuel of the ghost depths did not suffice) *)
Fixpoint mrun (s : state) (l : list op) : option state :=
  match l with
  | [] => Some s
  | o :: t => match mstep s o with Some (s', _) => mrun s' t | None => None end
  end.

(* ~Variant() of every variable *)
Definition destroy_all (s : state) : option heap := release_all (vars s) (hp s).

(* ---- the const observers of the code, transcribed from Variant.hpp --------------------------
   getType, isNull, toBool/toInt/toUInt/toInt64/toUInt64/toDouble/toString() const and operator==.
   Nothing below uses the coercion functions of VariantSpec (vtype, to_*, eq_scalar_lhs, veq): the
   Model reads the representation the way the code does - `data->type`, then the member of the
   union `data->data` that the case names, or the String behind `data + 1` - and applies the C
   conversion the `return` statement performs.  What IS shared with the Spec are the reference
   functions of other components and of libc, which are trusted (correspondence only): glibc
   strtol/strtoul/strtod (VariantSpec.strtol, strtoul, parse_dbl), printf %d %u %lld %llu %f
   (dec_Z, print_f), String::toBool (str_to_bool), the binary64 rounding of an integer (dbl_of_Z),
   and the exact dyadic representation of doubles (dnorm, dbl_trunc). *)

(* Variant::Type (Variant.hpp:13-26), in declaration order *)
Definition T_null : Z := 0.
Definition T_bool : Z := 1.
Definition T_double : Z := 2.
Definition T_int : Z := 3.
Definition T_uint : Z := 4.
Definition T_int64 : Z := 5.
Definition T_uint64 : Z := 6.
Definition T_map : Z := 7.
Definition T_list : Z := 8.
Definition T_array : Z := 9.
Definition T_string : Z := 10.

(* `data->type`: the tag of the inline descriptor / of the shared null descriptor / of the heap block *)
Definition m_tag (H : heap) (h : handle) : Z :=
  match h with
  | HS SNull => T_null
  | HS (SBool _) => T_bool
  | HS (SDbl _ _) => T_double
  | HS (SInt _) => T_int
  | HS (SUInt _) => T_uint
  | HS (SI64 _) => T_int64
  | HS (SU64 _) => T_uint64
  | HB b => match lookup H b with
            | Some (PStr _) => T_string
            | Some (PNode KMap _ _) => T_map
            | Some (PNode KList _ _) => T_list
            | Some (PNode KArray _ _) => T_array
            | None => -1                                  (* handle to a released block: no tag to read *)
            end
  end.

(* the members of `union Data::data`; a member that was not the one last written is never read by
   the code (every read is guarded by the tag) - the model gives it the value 0 *)
Definition u_bool (h : handle) : bool := match h with HS (SBool b) => b | _ => false end.
Definition u_dbl (h : handle) : Z * Z := match h with HS (SDbl m e) => (m, e) | _ => (0%Z, 0%Z) end.
Definition u_int (h : handle) : Z := match h with HS (SInt z) => z | _ => 0%Z end.
Definition u_uint (h : handle) : Z := match h with HS (SUInt z) => z | _ => 0%Z end.
Definition u_i64 (h : handle) : Z := match h with HS (SI64 z) => z | _ => 0%Z end.
Definition u_u64 (h : handle) : Z := match h with HS (SU64 z) => z | _ => 0%Z end.
(* the String stored behind the descriptor, `data + 1` *)
Definition u_str (H : heap) (h : handle) : bytes :=
  match h with HB b => match lookup H b with Some (PStr s) => s | _ => [] end | HS _ => [] end.

(* ---- the C conversions ([conv.integral], [conv.fpint], [conv.bool]; x86-64 LP64) ---- *)
Inductive ity := I32 | U32 | I64 | U64.

(* integer -> integer: the value modulo 2^N, read in the destination's signedness *)
Definition c_int (t : ity) (z : Z) : Z :=
  match t with I32 => sx32 z | U32 => w32 z | I64 => sx64 z | U64 => w64 z end.

Definition ity_lo (t : ity) : Z :=
  match t with I32 => (- 2147483648)%Z | I64 => (- 9223372036854775808)%Z | U32 | U64 => 0%Z end.
Definition ity_hi (t : ity) : Z :=     (* exclusive *)
  match t with I32 => 2147483648%Z | U32 => 4294967296%Z | I64 => 9223372036854775808%Z | U64 => 18446744073709551616%Z end.

(* double -> integer: truncation toward zero; undefined (None) when the truncated value is not
   representable in the destination type *)
Definition c_dbl_int (t : ity) (d : Z * Z) : option Z :=
  let z := dbl_trunc (fst d) (snd d) in
  if (ity_lo t <=? z)%Z && (z <? ity_hi t)%Z then Some z else None.

(* `b ? 1 : 0` (and bool -> int promotion) *)
Definition c_bool_int (b : bool) : Z := if b then 1%Z else 0%Z.
(* `x != 0` *)
Definition c_nonzero (z : Z) : bool := negb (z =? 0)%Z.

(* (double)int / (double)uint: 32 bits fit the 53 bit significand - exact;
   (double)int64 / (double)uint64: round to nearest even *)
Definition c_int32_dbl (z : Z) : Z * Z := dnorm z 0.
Definition c_int64_dbl (z : Z) : Z * Z := dbl_of_Z z.

(* String::toInt = atoi = (int)strtol(s, 0, 10); toUInt = (uint)strtoul(s, 0, 10); toInt64 = atoll =
   strtoll(s, 0, 10); toUInt64 = strtoull(s, 0, 10) (long = long long = 64 bit); toDouble = atof = strtod *)
Definition s_to_int (s : bytes) : Z := c_int I32 (strtol s).
Definition s_to_uint (s : bytes) : Z := c_int U32 (strtoul s).
Definition s_to_i64 (s : bytes) : Z := strtol s.
Definition s_to_u64 (s : bytes) : Z := strtoul s.
Definition s_to_dbl (s : bytes) : Z * Z := parse_dbl s.
(* String::fromBool / fromInt "%d" / fromUInt "%u" / fromInt64 "%lld" / fromUInt64 "%llu" / fromDouble "%f" *)
Definition s_from_bool (b : bool) : bytes := if b then str_true else str_false.
Definition s_from_int (z : Z) : bytes := dec_Z z.
Definition s_from_dbl (d : Z * Z) : bytes := print_f (fst d) (snd d).

(* the switch of the accessors: cases in the order of the source (bool, double, int, uint, int64,
   uint64, string, default) *)
Definition m_type (H : heap) (h : handle) : Z := m_tag H h.                       (* getType() *)
Definition m_is_null (H : heap) (h : handle) : bool := (m_tag H h =? T_null)%Z.   (* isNull() *)

Definition m_to_bool (H : heap) (h : handle) : bool :=                            (* Variant.hpp:130-144 *)
  let t := m_tag H h in
  if (t =? T_bool)%Z then u_bool h
  else if (t =? T_double)%Z then negb (fst (u_dbl h) =? 0)%Z                      (* doubleData != 0. *)
  else if (t =? T_int)%Z then c_nonzero (u_int h)
  else if (t =? T_uint)%Z then c_nonzero (u_uint h)
  else if (t =? T_int64)%Z then c_nonzero (u_i64 h)
  else if (t =? T_uint64)%Z then c_nonzero (u_u64 h)
  else if (t =? T_string)%Z then str_to_bool (u_str H h)
  else false.

Definition m_to_dbl (H : heap) (h : handle) : Z * Z :=                            (* :159-173 *)
  let t := m_tag H h in
  if (t =? T_bool)%Z then (c_bool_int (u_bool h), 0%Z)                            (* boolData ? 1. : 0. *)
  else if (t =? T_double)%Z then u_dbl h
  else if (t =? T_int)%Z then c_int32_dbl (u_int h)
  else if (t =? T_uint)%Z then c_int32_dbl (u_uint h)
  else if (t =? T_int64)%Z then c_int64_dbl (u_i64 h)
  else if (t =? T_uint64)%Z then c_int64_dbl (u_u64 h)
  else if (t =? T_string)%Z then s_to_dbl (u_str H h)
  else (0%Z, 0%Z).

Definition m_to_int (H : heap) (h : handle) : option Z :=                         (* :188-202 *)
  let t := m_tag H h in
  if (t =? T_bool)%Z then Some (c_bool_int (u_bool h))
  else if (t =? T_double)%Z then c_dbl_int I32 (u_dbl h)                          (* (int)doubleData *)
  else if (t =? T_int)%Z then Some (u_int h)
  else if (t =? T_uint)%Z then Some (c_int I32 (u_uint h))                        (* (int)uintData *)
  else if (t =? T_int64)%Z then Some (c_int I32 (u_i64 h))
  else if (t =? T_uint64)%Z then Some (c_int I32 (u_u64 h))
  else if (t =? T_string)%Z then Some (s_to_int (u_str H h))
  else Some 0%Z.

Definition m_to_uint (H : heap) (h : handle) : option Z :=                        (* :217-231 *)
  let t := m_tag H h in
  if (t =? T_bool)%Z then Some (c_bool_int (u_bool h))
  else if (t =? T_double)%Z then c_dbl_int U32 (u_dbl h)
  else if (t =? T_int)%Z then Some (c_int U32 (u_int h))
  else if (t =? T_uint)%Z then Some (u_uint h)
  else if (t =? T_int64)%Z then Some (c_int U32 (u_i64 h))
  else if (t =? T_uint64)%Z then Some (c_int U32 (u_u64 h))
  else if (t =? T_string)%Z then Some (s_to_uint (u_str H h))
  else Some 0%Z.

Definition m_to_i64 (H : heap) (h : handle) : option Z :=                         (* :246-260 *)
  let t := m_tag H h in
  if (t =? T_bool)%Z then Some (c_bool_int (u_bool h))
  else if (t =? T_double)%Z then c_dbl_int I64 (u_dbl h)
  else if (t =? T_int)%Z then Some (c_int I64 (u_int h))
  else if (t =? T_uint)%Z then Some (c_int I64 (u_uint h))
  else if (t =? T_int64)%Z then Some (u_i64 h)
  else if (t =? T_uint64)%Z then Some (c_int I64 (u_u64 h))
  else if (t =? T_string)%Z then Some (s_to_i64 (u_str H h))
  else Some 0%Z.

Definition m_to_u64 (H : heap) (h : handle) : option Z :=                         (* :275-289 *)
  let t := m_tag H h in
  if (t =? T_bool)%Z then Some (c_bool_int (u_bool h))
  else if (t =? T_double)%Z then c_dbl_int U64 (u_dbl h)
  else if (t =? T_int)%Z then Some (c_int U64 (u_int h))                          (* sign-extends, then wraps *)
  else if (t =? T_uint)%Z then Some (c_int U64 (u_uint h))
  else if (t =? T_int64)%Z then Some (c_int U64 (u_i64 h))
  else if (t =? T_uint64)%Z then Some (u_u64 h)
  else if (t =? T_string)%Z then Some (s_to_u64 (u_str H h))
  else Some 0%Z.

Definition m_to_str (H : heap) (h : handle) : bytes :=                            (* toString() const *)
  let t := m_tag H h in
  if (t =? T_string)%Z then u_str H h
  else if (t =? T_bool)%Z then s_from_bool (u_bool h)
  else if (t =? T_double)%Z then s_from_dbl (u_dbl h)
  else if (t =? T_int)%Z then s_from_int (u_int h)
  else if (t =? T_uint)%Z then s_from_int (u_uint h)
  else if (t =? T_int64)%Z then s_from_int (u_i64 h)
  else if (t =? T_uint64)%Z then s_from_int (u_u64 h)
  else [].

(* the payload of a container block: the HashMap / List / Array stored behind the descriptor *)
Definition u_node (H : heap) (h : handle) : list bytes * list handle :=
  match h with HB b => match lookup H b with Some (PNode _ ks hs) => (ks, hs) | _ => ([], []) end | HS _ => ([], []) end.

(* Variant::operator==(const Variant& other) const, *this = a, other = b.  The tag of the LEFT operand
   selects the case; in the scalar cases the left operand's member is compared with the RIGHT operand
   converted by its to* accessor (so the right operand is the one that is converted); a string on the
   left compares payloads with a string and otherwise hands over to `other == *this` (the operands
   change sides - one more unit of fuel); containers are compared element by element
   (HashMap/List/Array operator==, keys first for maps) through the handles.
   None = a read through a handle to a released block, fuel exhausted, or an undefined cast. *)
Fixpoint meq (fuel : nat) (H : heap) (a b : handle) {struct fuel} : option bool :=
  match fuel with
  | O => None
  | S f =>
      let t := m_tag H a in
      let cont_eq (_ : unit) :=
        (* other.data->type == <same container type> && payload == payload *)
        if (m_tag H b =? t)%Z then
          let '(ks, hs) := u_node H a in
          let '(ks', hs') := u_node H b in
          if (length hs =? length hs')%nat then
            (fix go (ks ks' : list bytes) (l l' : list handle) {struct l} : option bool :=
               match l, l' with
               | x :: xs, y :: ys =>
                   let kd := match ks, ks' with k1 :: _, k2 :: _ => negb (bytes_eqb k1 k2) | _, _ => false end in
                   if kd then Some false else
                   match meq f H x y with
                   | Some true => go (tl ks) (tl ks') xs ys
                   | r => r
                   end
               | _, _ => Some true
               end) ks ks' hs hs'
          else Some false
        else Some false in
      if (t =? T_null)%Z then Some (m_is_null H b)
      else if (t =? T_bool)%Z then Some (Bool.eqb (u_bool a) (m_to_bool H b))
      else if (t =? T_double)%Z then Some (dbl_eqb (u_dbl a) (m_to_dbl H b))
      else if (t =? T_int)%Z then option_map (Z.eqb (u_int a)) (m_to_int H b)
      else if (t =? T_uint)%Z then option_map (Z.eqb (u_uint a)) (m_to_uint H b)
      else if (t =? T_int64)%Z then option_map (Z.eqb (u_i64 a)) (m_to_i64 H b)
      else if (t =? T_uint64)%Z then option_map (Z.eqb (u_u64 a)) (m_to_u64 H b)
      else if (t =? T_map)%Z then cont_eq tt
      else if (t =? T_list)%Z then cont_eq tt
      else if (t =? T_array)%Z then cont_eq tt
      else if (t =? T_string)%Z then
        if (m_tag H b =? T_string)%Z then Some (bytes_eqb (u_str H a) (u_str H b))
        else meq f H b a                                                       (* return other == *this; *)
      else None
  end.

(* enough fuel for the nesting below a: one unit per level, one more per level for a change of sides *)
Definition meq_top (H : heap) (a b : handle) : option bool := meq (2 * hdepth H a + 2) H a b.
