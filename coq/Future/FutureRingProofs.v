(* Ring layer of C10: the bounded MPMC queue (LockFreeQueue::push / pop) under ALL interleavings.

   The ring is looked at on its own: [fl : nat -> option rpc] says where every thread is inside
   push/pop (None = not inside).  [RInv r fl] is an inductive invariant of [ring_step]; the lemmas
   at the end are what the composition (FutureProofs.v) uses. *)
From Coq Require Import ZArith List Bool Lia Arith.
From Common Require Import ListAux.
From Future Require Import FutureModel.
Import ListNotations.
Local Open Scope Z_scope.

Definition logv (r : ring) (t : Z) : job := nth (Z.to_nat t) (r_log r) JNull.

Definition published (r : ring) (h : Z) : Prop :=
  h < r_tail r /\ s_tail (get_slot r h) = h /\ s_head (get_slot r h) = h /\ s_data (get_slot r h) = Some (logv r h).

Definition slot_ok (r : ring) (sl : slot) : Prop :=
  (s_head sl = s_tail sl /\ 0 <= s_tail sl < r_tail r /\ s_data sl = Some (logv r (s_tail sl)))
  \/ (s_head sl < s_tail sl /\ s_head sl < r_head r).

Definition rpc_ok (r : ring) (p : rpc) : Prop :=
  match p with
  | PushRdTail _ => True
  | PushRdSlot _ t => 0 <= t <= r_tail r
  | PushCas _ t => 0 <= t <= r_tail r /\ (t = r_tail r -> s_tail (get_slot r t) = t)
  | PushWrite v t =>
      0 <= t < r_tail r /\ v = logv r t /\ s_tail (get_slot r t) = t /\ s_head (get_slot r t) < t
  | PushPublish v t =>
      0 <= t < r_tail r /\ v = logv r t /\ s_tail (get_slot r t) = t /\ s_head (get_slot r t) < t /\
      s_data (get_slot r t) = Some v
  | PopRdHead => True
  | PopRdSlot h => 0 <= h <= r_head r
  | PopCas h => 0 <= h <= r_head r /\ (h = r_head r -> published r h)
  | PopRead h => 0 <= h < r_head r /\ published r h
  | PopRelease h v => 0 <= h < r_head r /\ published r h /\ v = logv r h
  | PushRet _ | PopRet _ => True
  end.

Definition push_tk (p : rpc) : option Z :=
  match p with PushWrite _ t | PushPublish _ t => Some t | _ => None end.
Definition pop_tk (p : rpc) : option Z :=
  match p with PopRead h | PopRelease h _ => Some h | _ => None end.

Record RInv (r : ring) (fl : nat -> option rpc) : Prop := mkRInv {
  ri_cap : 0 < r_cap r;
  ri_len : length (r_slots r) = Z.to_nat (r_cap r);
  ri_head : 0 <= r_head r <= r_tail r;
  ri_log : r_tail r = Z.of_nat (length (r_log r));
  ri_slots : forall i, (i < length (r_slots r))%nat -> slot_ok r (nth i (r_slots r) dslot);
  ri_thr : forall x p, fl x = Some p -> rpc_ok r p;
  ri_upush : forall a b pa pb t, a <> b -> fl a = Some pa -> fl b = Some pb ->
                                 push_tk pa = Some t -> push_tk pb = Some t -> False;
  ri_upop : forall a b pa pb t, a <> b -> fl a = Some pa -> fl b = Some pb ->
                                pop_tk pa = Some t -> pop_tk pb = Some t -> False
}.

Definition fupd {A} (fl : nat -> A) (t : nat) (v : A) : nat -> A :=
  fun x => if Nat.eqb x t then v else fl x.

Lemma fupd_same {A} (fl : nat -> A) t v : fupd fl t v t = v.
Proof. unfold fupd. now rewrite Nat.eqb_refl. Qed.
Lemma fupd_other {A} (fl : nat -> A) t v x : x <> t -> fupd fl t v x = fl x.
Proof. intro H. unfold fupd. destruct (Nat.eqb_spec x t); [contradiction|reflexivity]. Qed.

(* ---------------------------------------------------------------------------------------- *)
(* slots                                                                                     *)
(* ---------------------------------------------------------------------------------------- *)
Lemma idx_lt r t : 0 < r_cap r -> length (r_slots r) = Z.to_nat (r_cap r) -> (idx r t < length (r_slots r))%nat.
Proof.
  intros Hc Hl. unfold idx. rewrite Hl.
  pose proof (Z.mod_pos_bound t (r_cap r) Hc). apply Z2Nat.inj_lt; lia.
Qed.

Lemma get_set_slot r t sl t' :
  0 < r_cap r -> length (r_slots r) = Z.to_nat (r_cap r) ->
  get_slot (set_slot r t sl) t' = if Nat.eqb (idx r t') (idx r t) then sl else get_slot r t'.
Proof.
  intros Hc Hl. unfold get_slot.
  assert (E0 : idx (set_slot r t sl) t' = idx r t') by reflexivity. rewrite E0.
  assert (E1 : r_slots (set_slot r t sl) = upd (idx r t) sl (r_slots r)) by reflexivity. rewrite E1.
  destruct (Nat.eqb_spec (idx r t') (idx r t)) as [E|E].
  - rewrite E. apply nth_upd_same. now apply idx_lt.
  - apply nth_upd_other. congruence.
Qed.

Lemma get_slot_in r t : 0 < r_cap r -> length (r_slots r) = Z.to_nat (r_cap r) ->
  exists i, (i < length (r_slots r))%nat /\ get_slot r t = nth i (r_slots r) dslot.
Proof. intros. exists (idx r t). split; [now apply idx_lt|reflexivity]. Qed.

Lemma logv_app r v t : 0 <= t < Z.of_nat (length (r_log r)) ->
  nth (Z.to_nat t) (r_log r ++ [v]) JNull = logv r t.
Proof. intros H. unfold logv. apply app_nth1. lia. Qed.

Lemma logv_new r v : nth (Z.to_nat (Z.of_nat (length (r_log r)))) (r_log r ++ [v]) JNull = v.
Proof. rewrite Nat2Z.id. rewrite app_nth2 by lia. now rewrite Nat.sub_diag. Qed.

(* the initial ring *)
Lemma nth_map_seq {A} (f : nat -> A) n i d : (i < n)%nat -> nth i (map f (seq 0 n)) d = f i.
Proof.
  intro H. rewrite nth_indep with (d' := f 0%nat) by (now rewrite map_length, seq_length).
  change (f 0%nat) with (f (0%nat)). rewrite map_nth. now rewrite seq_nth.
Qed.

Lemma rinv_init cap : 0 < cap -> RInv (ring_init cap) (fun _ => None).
Proof.
  intro Hc. constructor; cbn [ring_init r_cap r_slots r_head r_tail r_log]; try lia.
  - now rewrite map_length, seq_length.
  - cbn. lia.
  - intros i Hi. rewrite map_length, seq_length in Hi. rewrite nth_map_seq by exact Hi.
    right. cbn. lia.
  - discriminate.
  - discriminate.
  - discriminate.
Qed.

(* dropping a thread's operation / extensionality *)
Lemma rinv_ext r fl fl' : RInv r fl -> (forall x, fl' x = fl x) -> RInv r fl'.
Proof.
  intros [] E. constructor; auto.
  - intros x p H. rewrite E in H. eauto.
  - intros a b pa pb t Hab Ha Hb. rewrite E in Ha, Hb. eauto.
  - intros a b pa pb t Hab Ha Hb. rewrite E in Ha, Hb. eauto.
Qed.

Lemma rinv_drop r fl t : RInv r fl -> RInv r (fupd fl t None).
Proof.
  intros []. constructor; auto.
  - intros x p H. unfold fupd in H. destruct (Nat.eqb x t); [discriminate|eauto].
  - intros a b pa pb tk Hab Ha Hb. unfold fupd in Ha, Hb.
    destruct (Nat.eqb a t); [discriminate|]. destruct (Nat.eqb b t); [discriminate|]. eauto.
  - intros a b pa pb tk Hab Ha Hb. unfold fupd in Ha, Hb.
    destruct (Nat.eqb a t); [discriminate|]. destruct (Nat.eqb b t); [discriminate|]. eauto.
Qed.

(* a thread that is not inside push/pop (or has just returned) begins an operation *)
Lemma rinv_begin r fl t p0 :
  RInv r fl -> push_tk p0 = None -> pop_tk p0 = None -> rpc_ok r p0 -> RInv r (fupd fl t (Some p0)).
Proof.
  intros [] Hpu Hpo Hok. constructor; auto.
  - intros x p H. unfold fupd in H. destruct (Nat.eqb x t); [|eauto].
    inversion H; subst p. exact Hok.
  - intros a b pa pb tk Hab Ha Hb Ta Tb. unfold fupd in Ha, Hb.
    destruct (Nat.eqb_spec a t).
    + inversion Ha; subst pa. congruence.
    + destruct (Nat.eqb_spec b t).
      * inversion Hb; subst pb. congruence.
      * eauto.
  - intros a b pa pb tk Hab Ha Hb Ta Tb. unfold fupd in Ha, Hb.
    destruct (Nat.eqb_spec a t).
    + inversion Ha; subst pa. congruence.
    + destruct (Nat.eqb_spec b t).
      * inversion Hb; subst pb. congruence.
      * eauto.
Qed.

(* ---------------------------------------------------------------------------------------- *)
(* frame lemmas                                                                              *)
(* ---------------------------------------------------------------------------------------- *)
Definition same_meta (r r' : ring) : Prop :=
  r_cap r' = r_cap r /\ r_tail r' = r_tail r /\ r_head r' = r_head r /\ r_log r' = r_log r.

Lemma same_meta_set_slot r t sl : same_meta r (set_slot r t sl).
Proof. repeat split. Qed.

Lemma logv_meta r r' u : r_log r' = r_log r -> logv r' u = logv r u.
Proof. intro H. unfold logv. now rewrite H. Qed.

Lemma slot_ok_meta r r' sl : same_meta r r' -> slot_ok r sl -> slot_ok r' sl.
Proof.
  intros (Hc & Ht & Hh & Hl) [H|H]; [left|right].
  - rewrite Ht, (logv_meta _ _ _ Hl). exact H.
  - rewrite Hh. exact H.
Qed.

(* a pusher that owns ticket t rewrites its slot (data or head), keeping s_tail = t *)
Lemma rpc_ok_pusher_write r t sl' p :
  0 < r_cap r -> length (r_slots r) = Z.to_nat (r_cap r) ->
  s_tail (get_slot r t) = t -> s_head (get_slot r t) < t -> s_tail sl' = t ->
  push_tk p <> Some t ->
  rpc_ok r p -> rpc_ok (set_slot r t sl') p.
Proof.
  intros Hc Hl Ht Hh Hs Hn Hp.
  assert (G : forall u, get_slot (set_slot r t sl') u = if Nat.eqb (idx r u) (idx r t) then sl' else get_slot r u)
    by (intro u; now apply get_set_slot).
  assert (Gs : forall u, s_tail (get_slot r u) = u -> s_head (get_slot r u) = u ->
                         get_slot (set_slot r t sl') u = get_slot r u).
  { intros u H1 H2. rewrite G. destruct (Nat.eqb_spec (idx r u) (idx r t)) as [E|E]; [|reflexivity].
    exfalso. unfold get_slot in *. rewrite E in H1, H2. lia. }
  destruct p; cbn [rpc_ok push_tk] in *; auto.
  - (* PushCas *) destruct Hp as [Hb Hp]. split; [exact Hb|]. intro E. specialize (Hp E).
    rewrite G. destruct (Nat.eqb_spec (idx r t0) (idx r t)) as [E2|E2]; [|exact Hp].
    unfold get_slot in Hp, Ht. rewrite E2 in Hp. lia.
  - (* PushWrite *) destruct Hp as (Hb & Hv & H1 & H2).
    assert (E : get_slot (set_slot r t sl') t0 = get_slot r t0).
    { rewrite G. destruct (Nat.eqb_spec (idx r t0) (idx r t)) as [E2|E2]; [|reflexivity].
      exfalso. apply Hn. f_equal. unfold get_slot in H1, Ht. rewrite E2 in H1. lia. }
    rewrite E. auto.
  - (* PushPublish *) destruct Hp as (Hb & Hv & H1 & H2 & H3).
    assert (E : get_slot (set_slot r t sl') t0 = get_slot r t0).
    { rewrite G. destruct (Nat.eqb_spec (idx r t0) (idx r t)) as [E2|E2]; [|reflexivity].
      exfalso. apply Hn. f_equal. unfold get_slot in H1, Ht. rewrite E2 in H1. lia. }
    rewrite E. auto.
  - (* PopCas *) destruct Hp as [Hb Hp]. split; [exact Hb|]. intro E. specialize (Hp E).
    destruct Hp as (P1 & P2 & P3 & P4). unfold published.
    rewrite (Gs h P2 P3). auto.
  - (* PopRead *) destruct Hp as [Hb (P1 & P2 & P3 & P4)]. split; [exact Hb|].
    unfold published. rewrite (Gs h P2 P3). auto.
  - (* PopRelease *) destruct Hp as (Hb & (P1 & P2 & P3 & P4) & Hv). split; [exact Hb|]. split; [|exact Hv].
    unfold published. rewrite (Gs h P2 P3). auto.
Qed.

(* a popper that owns ticket h releases its slot: s_tail := h + cap *)
Lemma rpc_ok_popper_release r h sl' p :
  0 < r_cap r -> length (r_slots r) = Z.to_nat (r_cap r) ->
  h < r_head r -> r_head r <= r_tail r -> published r h ->
  pop_tk p <> Some h ->
  rpc_ok r p -> rpc_ok (set_slot r h sl') p.
Proof.
  intros Hc Hl Hh Hht (Q1 & Q2 & Q3 & Q4) Hn Hp.
  assert (G : forall u, get_slot (set_slot r h sl') u = if Nat.eqb (idx r u) (idx r h) then sl' else get_slot r u)
    by (intro u; now apply get_set_slot).
  assert (Gs : forall u, s_tail (get_slot r u) = u -> u <> h ->
                         get_slot (set_slot r h sl') u = get_slot r u).
  { intros u H1 H2. rewrite G. destruct (Nat.eqb_spec (idx r u) (idx r h)) as [E|E]; [|reflexivity].
    exfalso. unfold get_slot in *. rewrite E in H1. lia. }
  destruct p; cbn [rpc_ok pop_tk] in *; auto;
    change (r_tail (set_slot r h sl')) with (r_tail r) in *; change (r_head (set_slot r h sl')) with (r_head r) in *.
  - destruct Hp as [Hb Hp]. split; [exact Hb|]. intro E. specialize (Hp E).
    rewrite Gs; auto. lia.
  - destruct Hp as (Hb & Hv & H1 & H2). rewrite Gs; auto. intros ->. lia.
  - destruct Hp as (Hb & Hv & H1 & H2 & H3). rewrite Gs; auto. intros ->. lia.
  - destruct Hp as [Hb Hp]. split; [exact Hb|]. intro E. specialize (Hp E).
    destruct Hp as (P1 & P2 & P3 & P4). unfold published. rewrite Gs; auto. lia.
  - destruct Hp as [Hb (P1 & P2 & P3 & P4)]. split; [exact Hb|].
    unfold published. rewrite Gs; auto. intros ->. now apply Hn.
  - destruct Hp as (Hb & (P1 & P2 & P3 & P4) & Hv). split; [exact Hb|]. split; [|exact Hv].
    unfold published. rewrite Gs; auto. intros ->. now apply Hn.
Qed.

Lemma slots_set_slot r t sl' :
  0 < r_cap r -> length (r_slots r) = Z.to_nat (r_cap r) ->
  (forall i, (i < length (r_slots r))%nat -> slot_ok r (nth i (r_slots r) dslot)) ->
  slot_ok r sl' ->
  forall i, (i < length (r_slots (set_slot r t sl')))%nat -> slot_ok (set_slot r t sl') (nth i (r_slots (set_slot r t sl')) dslot).
Proof.
  intros Hc Hl Hs Hn i Hi.
  apply (slot_ok_meta r); [apply same_meta_set_slot|].
  assert (E1 : r_slots (set_slot r t sl') = upd (idx r t) sl' (r_slots r)) by reflexivity.
  rewrite E1 in *. rewrite upd_length in Hi.
  destruct (Nat.eq_dec (idx r t) i) as [E|E].
  - subst i. rewrite nth_upd_same by exact Hi. exact Hn.
  - rewrite nth_upd_other by exact E. now apply Hs.
Qed.

(* claims: only the counters and the log change *)
Lemma rpc_ok_push_claim r v p :
  r_tail r = Z.of_nat (length (r_log r)) ->
  rpc_ok r p -> rpc_ok (mkRing (r_cap r) (r_tail r + 1) (r_head r) (r_slots r) (r_log r ++ [v])) p.
Proof.
  intros Hlog Hp.
  set (r' := mkRing _ _ _ _ _).
  assert (L : forall u, 0 <= u < r_tail r -> logv r' u = logv r u).
  { intros u Hu. unfold logv, r'. cbn [r_log]. apply logv_app. lia. }
  assert (P : forall h, 0 <= h -> published r h -> published r' h).
  { intros h Hh (P1 & P2 & P3 & P4). unfold published. change (get_slot r' h) with (get_slot r h).
    cbn [r' r_tail]. rewrite L by lia. repeat split; auto; lia. }
  destruct p; cbn [rpc_ok] in *; change (get_slot r' ?u) with (get_slot r u); cbn [r' r_tail r_head]; auto.
  - lia.
  - destruct Hp as [Hb Hp]. split; [lia|]. intro E. lia.
  - destruct Hp as (Hb & Hv & H1 & H2). rewrite L by lia. repeat split; auto; lia.
  - destruct Hp as (Hb & Hv & H1 & H2 & H3). rewrite L by lia. repeat split; auto; lia.
  - destruct Hp as [Hb Hp]. split; [exact Hb|]. intro E. apply P; [lia|auto].
  - destruct Hp as [Hb Hp]. split; [exact Hb|]. apply P; [lia|auto].
  - destruct Hp as (Hb & Hp & Hv). split; [exact Hb|]. split; [apply P; [lia|auto]|].
    destruct Hp as (P1 & _). rewrite L by lia. exact Hv.
Qed.

Lemma rpc_ok_pop_claim r p :
  rpc_ok r p -> rpc_ok (mkRing (r_cap r) (r_tail r) (r_head r + 1) (r_slots r) (r_log r)) p.
Proof.
  intros Hp. set (r' := mkRing _ _ _ _ _).
  assert (P : forall h, published r h -> published r' h) by (intros h H; exact H).
  destruct p; cbn [rpc_ok] in *; change (get_slot r' ?u) with (get_slot r u); cbn [r' r_tail r_head]; auto.
  - lia.
  - destruct Hp as [Hb Hp]. split; [lia|]. intro E. lia.
  - destruct Hp as [Hb Hp]. split; [lia|]. apply P; auto.
  - destruct Hp as (Hb & Hp & Hv). split; [lia|]. split; [apply P; auto|exact Hv].
Qed.

(* ---------------------------------------------------------------------------------------- *)
(* one step of one thread                                                                    *)
(* ---------------------------------------------------------------------------------------- *)
Lemma rinv_update r r' fl t rp rp' :
  RInv r fl -> fl t = Some rp ->
  0 < r_cap r' -> length (r_slots r') = Z.to_nat (r_cap r') -> 0 <= r_head r' <= r_tail r' ->
  r_tail r' = Z.of_nat (length (r_log r')) ->
  (forall i, (i < length (r_slots r'))%nat -> slot_ok r' (nth i (r_slots r') dslot)) ->
  rpc_ok r' rp' ->
  (forall x p, x <> t -> fl x = Some p -> rpc_ok r' p) ->
  (forall tk, push_tk rp' = Some tk ->
              push_tk rp = Some tk \/ (forall x p, x <> t -> fl x = Some p -> push_tk p <> Some tk)) ->
  (forall tk, pop_tk rp' = Some tk ->
              pop_tk rp = Some tk \/ (forall x p, x <> t -> fl x = Some p -> pop_tk p <> Some tk)) ->
  RInv r' (fupd fl t (Some rp')).
Proof.
  intros I Ht H1 H2 H3 H4 H5 H6 H7 H8 H9. constructor; auto.
  - intros x p H. unfold fupd in H. destruct (Nat.eqb_spec x t).
    + inversion H; subst; auto.
    + eauto.
  - intros a b pa pb tk Hab Ha Hb Ta Tb. unfold fupd in Ha, Hb.
    destruct (Nat.eqb_spec a t) as [Ea|Ea]; destruct (Nat.eqb_spec b t) as [Eb|Eb]; try congruence.
    + inversion Ha; subst pa a. destruct (H8 tk Ta) as [E|E].
      * eapply (ri_upush _ _ I t b); eauto.
      * eapply E; eauto.
    + inversion Hb; subst pb b. destruct (H8 tk Tb) as [E|E].
      * eapply (ri_upush _ _ I a t); eauto.
      * eapply E; eauto.
    + eapply (ri_upush _ _ I a b); eauto.
  - intros a b pa pb tk Hab Ha Hb Ta Tb. unfold fupd in Ha, Hb.
    destruct (Nat.eqb_spec a t) as [Ea|Ea]; destruct (Nat.eqb_spec b t) as [Eb|Eb]; try congruence.
    + inversion Ha; subst pa a. destruct (H9 tk Ta) as [E|E].
      * eapply (ri_upop _ _ I t b); eauto.
      * eapply E; eauto.
    + inversion Hb; subst pb b. destruct (H9 tk Tb) as [E|E].
      * eapply (ri_upop _ _ I a t); eauto.
      * eapply E; eauto.
    + eapply (ri_upop _ _ I a b); eauto.
Qed.

Lemma rinv_step r fl t rp r' rp' evs :
  RInv r fl -> fl t = Some rp -> ring_step r rp = (r', rp', evs) -> RInv r' (fupd fl t (Some rp')).
Proof.
  intros I Ht Hs.
  pose proof (ri_cap _ _ I) as Hc. pose proof (ri_len _ _ I) as Hl.
  pose proof (ri_head _ _ I) as Hh. pose proof (ri_log _ _ I) as Hlog.
  pose proof (ri_slots _ _ I) as Hsl. pose proof (ri_thr _ _ I t rp Ht) as Hme.
  assert (Hoth : forall x p, x <> t -> fl x = Some p -> rpc_ok r p) by (intros; eapply ri_thr; eauto).
  (* steps that leave the ring as it is *)
  assert (Same : forall q, rpc_ok r q -> push_tk q = None -> pop_tk q = None -> RInv r (fupd fl t (Some q))).
  { intros q Hq Q1 Q2.
    apply (rinv_update r r fl t rp q I Ht); auto; intros tk E; congruence. }
  destruct rp; cbn [ring_step] in Hs.
  - (* PushRdTail *) inversion Hs; subst. apply Same; cbn; auto; lia.
  - (* PushRdSlot *)
    destruct (Z.eqb_spec (s_tail (get_slot r t0)) t0) as [E|E]; inversion Hs; subst; apply Same; cbn in *; auto.
  - (* PushCas *)
    cbn [rpc_ok] in Hme. destruct Hme as [Hb Hfree].
    destruct (Z.eqb_spec (r_tail r) t0) as [E|E]; inversion Hs; subst; clear Hs.
    + (* claim *)
      specialize (Hfree eq_refl).
      assert (Hslot : s_head (get_slot r (r_tail r)) < r_tail r).
      { destruct (get_slot_in r (r_tail r) Hc Hl) as (i & Hi & Ei). rewrite Ei in *.
        destruct (Hsl i Hi) as [(A & B & _)|(A & _)]; lia. }
      apply (rinv_update r _ fl t _ _ I Ht); cbn [r_cap r_slots r_head r_tail r_log]; try lia; auto.
      * rewrite app_length. cbn. lia.
      * intros i Hi. destruct (Hsl i Hi) as [(A & B & C)|(A & B)]; [left|right].
        -- split; [exact A|]. split; [cbn [r_tail]; lia|].
           rewrite C. f_equal. unfold logv. cbn [r_log]. symmetry. apply app_nth1. lia.
        -- cbn [r_head]. auto.
      * cbn [rpc_ok]. change (get_slot (mkRing _ _ _ _ _) ?u) with (get_slot r u).
        cbn [r_tail r_head]. repeat split; try lia; auto.
        unfold logv. cbn [r_log]. rewrite Hlog. now rewrite logv_new.
      * intros x p Hx Hp. apply rpc_ok_push_claim; eauto.
      * intros tk Htk. cbn in Htk. inversion Htk; subst tk. right.
        intros x p Hx Hp Hq. specialize (Hoth x p Hx Hp).
        destruct p; cbn in Hq; try discriminate; inversion Hq; subst; cbn in Hoth; lia.
    + apply Same; cbn; auto; lia.
  - (* PushWrite *)
    cbn [rpc_ok] in Hme. destruct Hme as (Hb & Hv & H1 & H2).
    inversion Hs; subst r' rp' evs; clear Hs.
    apply (rinv_update r _ fl t _ _ I Ht); [exact Hc|unfold set_slot; cbn [r_slots r_cap]; rewrite upd_length; exact Hl|exact Hh|exact Hlog| | | | |].
    + apply slots_set_slot; auto. right. cbn. split; [lia|].
      destruct (get_slot_in r t0 Hc Hl) as (i & Hi & Ei). rewrite Ei in *.
      destruct (Hsl i Hi) as [(A & B & _)|(A & B)]; lia.
    + cbn [rpc_ok]. rewrite get_set_slot by auto. rewrite Nat.eqb_refl. cbn.
      change (r_tail (set_slot _ _ _)) with (r_tail r). repeat split; auto; lia.
    + intros x p Hx Hp. apply rpc_ok_pusher_write; eauto.
      intro Hq. eapply (ri_upush _ _ I x t); eauto; reflexivity.
    + intros tk Htk. left. exact Htk.
    + discriminate.
  - (* PushPublish *)
    cbn [rpc_ok] in Hme. destruct Hme as (Hb & Hv & H1 & H2 & H3).
    inversion Hs; subst r' rp' evs; clear Hs.
    apply (rinv_update r _ fl t _ _ I Ht); [exact Hc|unfold set_slot; cbn [r_slots r_cap]; rewrite upd_length; exact Hl|exact Hh|exact Hlog| | | | |].
    + apply slots_set_slot; auto. left. cbn. rewrite H3, Hv, H1. split; [auto|]. split; [lia|reflexivity].
    + exact Logic.I.
    + intros x p Hx Hp. apply rpc_ok_pusher_write; eauto.
      intro Hq. eapply (ri_upush _ _ I x t); eauto; reflexivity.
    + discriminate.
    + discriminate.
  - (* PopRdHead *) inversion Hs; subst. apply Same; cbn; auto; lia.
  - (* PopRdSlot *)
    cbn [rpc_ok] in Hme.
    destruct (Z.eqb_spec (s_head (get_slot r h)) h) as [E|E]; inversion Hs; subst; apply Same; cbn [rpc_ok push_tk pop_tk]; auto.
    split; [exact Hme|]. intro Eh.
    destruct (get_slot_in r' h Hc Hl) as (i & Hi & Ei).
    unfold published. rewrite Ei in *.
    destruct (Hsl i Hi) as [(A & B & C)|(A & B)]; [|lia].
    rewrite <- A, E in *. repeat split; auto; lia.
  - (* PopCas *)
    cbn [rpc_ok] in Hme. destruct Hme as [Hb Hpub].
    destruct (Z.eqb_spec (r_head r) h) as [E|E]; inversion Hs; subst; clear Hs.
    + specialize (Hpub eq_refl). pose proof Hpub as (P1 & P2 & P3 & P4).
      apply (rinv_update r _ fl t _ _ I Ht); cbn [r_cap r_slots r_head r_tail r_log]; try lia; auto.
      * intros i Hi. destruct (Hsl i Hi) as [A|(A & B)]; [left; exact A|right]. cbn [r_head]. lia.
      * cbn [rpc_ok]. cbn [r_head]. split; [lia|exact Hpub].
      * intros x p Hx Hp. apply rpc_ok_pop_claim; eauto.
      * intros tk Htk. cbn in Htk. inversion Htk; subst tk. right.
        intros x p Hx Hp Hq. specialize (Hoth x p Hx Hp).
        destruct p; cbn in Hq; try discriminate; inversion Hq; subst; cbn in Hoth; lia.
    + apply Same; cbn; auto; lia.
  - (* PopRead *)
    cbn [rpc_ok] in Hme. destruct Hme as [Hb Hpub]. inversion Hs; subst r' rp' evs; clear Hs.
    apply (rinv_update r _ fl t _ _ I Ht); auto.
    + cbn [rpc_ok]. split; [exact Hb|]. split; [exact Hpub|].
      destruct Hpub as (_ & _ & _ & P4). now rewrite P4.
  - (* PopRelease *)
    cbn [rpc_ok] in Hme. destruct Hme as (Hb & Hpub & Hv). pose proof Hpub as (P1 & P2 & P3 & P4).
    inversion Hs; subst r' rp' evs; clear Hs.
    apply (rinv_update r _ fl t _ _ I Ht); [exact Hc|unfold set_slot; cbn [r_slots r_cap]; rewrite upd_length; exact Hl|exact Hh|exact Hlog| | | | |].
    + apply slots_set_slot; auto. right. cbn. rewrite P3. lia.
    + exact Logic.I.
    + intros x p Hx Hp. apply rpc_ok_popper_release; eauto; try lia.
      intro Hq. eapply (ri_upop _ _ I x t); eauto; reflexivity.
    + discriminate.
    + discriminate.
  - (* PushRet *) inversion Hs; subst. apply Same; cbn; auto.
  - (* PopRet *) inversion Hs; subst. apply Same; cbn; auto.
Qed.
