(* C10, liveness clause and "started from any threads": a started function that starts another
   future runs ThreadPool::run on a WORKER thread.  When the job queue is full, run() waits for the
   dequeued signal, which only a worker's pop sets.  With every worker inside such a function
   nobody pops: the workers wait in start(), the client in join(), for ever - although every
   started function terminates and waits on no future.  The witness (found by the random-schedule
   hunt of ocaml/future_driver.ml on corpus/C10/search/nested-q1.ops) is replayed by vm_compute on
   the model of the code AS IT IS NOW (c_fixed = c_sigfix = true).  Open finding: the repair is a
   change of design (see the check's level_note). *)
From Coq Require Import ZArith List Bool Lia Arith.
From Common Require Import ListAux.
From Future Require Import FutureModel FutureRingProofs FutureProofs FutureStep FutureLiveness.
Import ListNotations.
Local Open Scope Z_scope.

(* work 4 + g: the function starts future g (argument + 1) and returns *)
Definition ns_scripts : list (list (nat * cop)) :=
  [[(0, CStart 0 5 20); (1, CStart 1 6 21); (2, CStart 2 7 22); (3, CStart 3 8 0); (4, CJoin 0);
    (5, CJoin 1); (6, CJoin 2); (7, CJoin 3); (8, CJoin 16); (9, CJoin 17); (10, CJoin 18)]%nat].

Definition ns_cfg : config := mkConfig 1 0 3 false 19 ns_scripts (fun a => 7 * a + 3) true true true.

Definition ns_sched : list move := [(0%nat, false); (0%nat, false); (0%nat, true); (0%nat, true); (0%nat, true); (0%nat, true); (0%nat, false); (0%nat, true); (0%nat, true); (0%nat, true); (0%nat, false); (0%nat, true); (0%nat, false); (0%nat, true); (0%nat, false); (0%nat, true); (0%nat, false); (0%nat, true); (0%nat, false); (0%nat, true); (1%nat, true); (1%nat, false); (1%nat, false); (1%nat, false); (1%nat, true); (1%nat, true); (1%nat, false); (0%nat, true); (0%nat, false); (0%nat, false); (0%nat, false); (0%nat, true); (0%nat, true); (0%nat, true); (0%nat, true); (0%nat, true); (1%nat, true); (0%nat, false); (1%nat, false); (0%nat, true); (0%nat, true); (1%nat, false); (1%nat, false); (1%nat, true); (1%nat, true); (0%nat, true); (0%nat, true); (0%nat, true); (0%nat, false); (0%nat, true); (0%nat, true); (1%nat, true); (2%nat, true); (0%nat, true); (2%nat, true); (2%nat, false); (1%nat, false); (1%nat, true); (2%nat, true); (0%nat, false); (2%nat, true); (0%nat, false); (0%nat, false); (0%nat, true); (0%nat, false); (0%nat, false); (0%nat, false); (0%nat, false); (0%nat, true); (0%nat, true); (0%nat, true); (0%nat, true); (0%nat, false); (0%nat, false); (0%nat, true); (2%nat, true); (3%nat, false); (3%nat, false); (3%nat, false); (3%nat, false); (3%nat, false); (3%nat, false); (0%nat, true); (3%nat, false); (3%nat, false); (3%nat, false); (0%nat, false); (0%nat, true); (0%nat, false); (0%nat, true); (2%nat, true); (2%nat, false); (2%nat, true); (2%nat, false); (2%nat, false); (2%nat, true); (2%nat, true); (2%nat, true); (2%nat, false); (2%nat, false); (2%nat, true); (2%nat, false); (0%nat, false); (0%nat, true); (0%nat, false); (0%nat, true); (0%nat, true); (0%nat, true); (3%nat, true); (3%nat, true); (3%nat, false); (0%nat, true); (3%nat, false); (3%nat, true); (3%nat, true)].

(* no started function waits for abort() or for a future *)
Definition terminating_scripts (cfg : config) : bool :=
  forallb (fun sc => forallb (fun x => match snd x with CStart _ _ wk => negb (wk =? 3)%nat | _ => true end) sc) (c_scripts cfg).

Lemma ns_deadlock : deadlocked ns_cfg (fst (exec ns_cfg ns_sched)) = true.
Proof. vm_compute. reflexivity. Qed.

(* the three workers stand in the back-pressure loop of ThreadPool::run, inside start() *)
Lemma ns_where :
  map (fun t => match pc_of (fst (exec ns_cfg ns_sched)) t with
                | CJoinWait _ _ => 1%nat | PFs (KRunWait _) Deq FWait2 => 2%nat | _ => 0%nat end) [0; 1; 2; 3]%nat
  = [1; 2; 2; 2]%nat.
Proof. vm_compute. reflexivity. Qed.

Theorem join_liveness_refuted_nested_start_lemma :
  exists cfg sched,
    c_fixed cfg = true /\ c_sigfix cfg = true /\ c_nested cfg = true /\ 0 < c_cap cfg /\
    terminating_scripts cfg = true /\
    let s := fst (exec cfg sched) in
    client_unfinished cfg s = true /\ all_blocked s = true /\
    forall more tr, exec_from cfg s tr more = (s, tr).
Proof.
  exists ns_cfg, ns_sched. split; [reflexivity|]. split; [reflexivity|]. split; [reflexivity|]. split; [reflexivity|].
  split; [reflexivity|].
  pose proof ns_deadlock as H. unfold deadlocked in H. apply andb_true_iff in H as [H1 H2].
  cbv zeta. split; [exact H1|]. split; [exact H2|]. intros more tr. now apply deadlock_is_permanent.
Qed.
