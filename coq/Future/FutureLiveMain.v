(* C10, liveness (A): LInv holds in every reachable state of the repaired code; a state that satisfies
   GInv and LInv in which every thread is blocked has no unfinished client: no reachable deadlock. *)
From Coq Require Import ZArith List Bool Lia Arith.
From Coq Require Import ZifyBool ZifyNat.
From Common Require Import ListAux.
From Future Require Import FutureModel FutureRingProofs FutureProofs FutureStep FutureTheorems FutureLiveness FutureNested
  FutureLiveDefs FutureLiveStep FutureLiveCnt FutureLivePsi FutureLiveFs FutureLiveWke FutureLiveWkd FutureLiveRx FutureLiveThr FutureLiveFut.
Import ListNotations.
Local Open Scope Z_scope.

(* ---------------------------------------------------------------------------------------- *)
(* one step                                                                                  *)
(* ---------------------------------------------------------------------------------------- *)
Section Step.
  Variable cfg : config.
  Variable own : nat -> nat.
  Hypothesis Hfix : c_fixed cfg = true.
  Hypothesis Hsig : c_sigfix cfg = true.
  Hypothesis Hnest : c_nested cfg = false.
  Hypothesis Hmin : 0 <= c_min cfg.
  Hypothesis Hmax : 2 <= c_max cfg.

  Lemma step_linv s tr t clk s' evs :
    GInv cfg own s tr -> LInv cfg s -> step cfg s t clk = (s', evs) -> LInv cfg s'.
  Proof.
    intros G L Hs. destruct (Nat.lt_ge_cases t (nthreads s)) as [Hlt|Hge].
    2:{ unfold step in Hs. destruct (Nat.ltb_spec t (length (st_threads s))) as [H|H]; [unfold nthreads in Hge; lia|].
        cbn [negb] in Hs. inversion Hs; subst. exact L. }
    constructor.
    - eapply proj1; eapply step_ncl; eauto.
    - eapply step_role; eauto.
    - eapply step_pc; eauto.
    - eapply step_script; eauto.
    - eapply step_log; eauto.
    - eapply step_mtx; eauto.
    - eapply step_plock; eauto.
    - eapply step_tc; eauto.
    - eapply step_tcpos; eauto.
    - eapply step_shpre; eauto.
    - eapply step_pq; eauto.
    - eapply step_psi; eauto.
    - eapply (step_fs _ _ _ _ _ Enq); eauto.
    - eapply (step_fs _ _ _ _ _ Deq); eauto.
    - eapply step_wke; eauto.
    - eapply step_wkd; eauto.
    - eapply step_rxe; eauto.
    - eapply step_rxd; eauto.
    - eapply step_phase; eauto.
    - eapply step_jw; eauto.
    Unshelve. all: first [exact own | assumption].
  Qed.
End Step.

(* ---------------------------------------------------------------------------------------- *)
(* the initial state                                                                         *)
(* ---------------------------------------------------------------------------------------- *)
Lemma pcs_init cfg : pcs (init cfg) = map (fun _ => PIdle) (c_scripts cfg).
Proof. unfold pcs, init. cbn [st_threads]. rewrite map_map. reflexivity. Qed.

Lemma wsum_init w cfg : w PIdle = 0 -> wsum w (init cfg) = 0.
Proof.
  intro H. unfold wsum. rewrite pcs_init, map_map. induction (c_scripts cfg) as [|a l IH]; cbn [map zsum]; [reflexivity|lia].
Qed.

Lemma pc_init cfg x : pc_of (init cfg) x = PIdle \/ pc_of (init cfg) x = PDone.
Proof. unfold pc_of. rewrite get_thread_init. destruct (nth_error _ x); auto. Qed.

Lemma script_init cfg x : script_of (init cfg) x = nth x (c_scripts cfg) [].
Proof.
  unfold script_of. rewrite get_thread_init. destruct (nth_error (c_scripts cfg) x) as [sc|] eqn:E; cbn.
  - symmetry. now apply nth_error_nth.
  - symmetry. apply nth_overflow. now apply nth_error_None.
Qed.

Lemma terminating_fine cfg x : terminating_scripts cfg = true -> script_fine (nth x (c_scripts cfg) []).
Proof.
  intros H i f a wk Hin. unfold terminating_scripts in H. rewrite forallb_forall in H.
  destruct (nth_in_or_default x (c_scripts cfg) []) as [Hi|Hd]; [|rewrite Hd in Hin; destruct Hin].
  specialize (H _ Hi). rewrite forallb_forall in H. specialize (H _ Hin). cbn in H.
  intro E. subst wk. discriminate H.
Qed.

Lemma get_slot_init cap u : 0 < cap -> 0 <= u < cap -> s_tail (get_slot (ring_init cap) u) = u.
Proof.
  intros Hc Hu. unfold get_slot, idx, ring_init. cbn [r_cap r_slots]. rewrite Z.mod_small by lia.
  rewrite nth_map_seq by lia. cbn. lia.
Qed.

Lemma init_linv cfg : 0 < c_cap cfg -> terminating_scripts cfg = true -> LInv cfg (init cfg).
Proof.
  intros Hcap Hterm.
  assert (W : forall w, w PIdle = 0 -> wsum w (init cfg) = 0) by (intros; now apply wsum_init).
  constructor.
  - unfold cl_ncl, nthreads, init. cbn. rewrite map_length. lia.
  - intros x _. destruct (pc_init cfg x) as [-> | ->]; reflexivity.
  - intro x. destruct (pc_init cfg x) as [-> | ->]; exact I.
  - intro x. rewrite script_init. now apply terminating_fine.
  - intros j [].
  - unfold cl_mtx. rewrite W by reflexivity. reflexivity.
  - unfold cl_plock. rewrite W by reflexivity. reflexivity.
  - unfold cl_tc, eff. rewrite !W by reflexivity. cbn. reflexivity.
  - unfold cl_tcpos, eff. rewrite !W by reflexivity. cbn. lia.
  - unfold cl_shpre. rewrite W by reflexivity. lia.
  - unfold cl_pq. rewrite !W by reflexivity. cbn. reflexivity.
  - intros tj Htj. cbn in Htj. lia.
  - intro H. cbn in H. discriminate.
  - intro H. cbn in H. discriminate.
  - intro H. cbn in H. lia.
  - unfold cl_wkd. rewrite W by reflexivity. lia.
  - intros tk Htk. cbn in Htk. lia.
  - intros u Hu. left. cbn [init st_ring] in *. cbn [ring_init r_tail r_cap] in Hu. apply get_slot_init; lia.
  - intro f. unfold phase_ok.
    assert (E : get_fut (init cfg) f = fut_init).
    { unfold get_fut, init. cbn [st_futs]. destruct (Nat.lt_ge_cases f (c_nfut cfg)).
      - apply nth_repeat.
      - apply nth_overflow. rewrite repeat_length. lia. }
    rewrite E. exact I.
  - intros x f a H. destruct (pc_init cfg x) as [E|E]; rewrite E in H; discriminate.
Qed.

(* ---------------------------------------------------------------------------------------- *)
(* every schedule                                                                            *)
(* ---------------------------------------------------------------------------------------- *)
Section Exec.
  Variable cfg : config.
  Variable own : nat -> nat.
  Hypothesis W : wf_cfg cfg own.
  Hypothesis Hfix : c_fixed cfg = true.
  Hypothesis Hsig : c_sigfix cfg = true.
  Hypothesis Hterm : terminating_scripts cfg = true.
  Hypothesis Hmin : 0 <= c_min cfg.
  Hypothesis Hmax : 2 <= c_max cfg.

  Lemma exec_from_linv sched : forall s tr,
    GInv cfg own s tr -> LInv cfg s -> LInv cfg (fst (exec_from cfg s tr sched)).
  Proof.
    destruct W as (Wc & Wo & Wn).
    induction sched as [|[t clk] rest IH]; intros s tr G L; [exact L|].
    cbn [exec_from]. destruct (step cfg s t clk) as [s' evs] eqn:E.
    apply IH.
    - eapply step_inv; eauto.
    - eapply step_linv; eauto.
  Qed.

  Theorem exec_linv sched : LInv cfg (fst (exec cfg sched)).
  Proof.
    unfold exec. apply exec_from_linv; [now apply init_inv|].
    destruct W as (Wc & _). now apply init_linv.
  Qed.
End Exec.

(* ---------------------------------------------------------------------------------------- *)
(* all threads blocked + the invariants => every client has finished                        *)
(* ---------------------------------------------------------------------------------------- *)
Definition never_blocked (p : pc) : bool :=
  match p with
  | PDone | PFs _ _ FWait2 | CJoinWait _ _ | CSpin _ _ _ | CGrowLock | CShrinkLock | WCall _ _ _ _ => false
  | _ => true
  end.

Lemma nb_unblocked s x : (x < nthreads s)%nat -> never_blocked (pc_of s x) = true -> blocked s x = false.
Proof.
  intros Hx H. unfold blocked. destruct (Nat.ltb_spec x (length (st_threads s))) as [_|Hge]; [|unfold nthreads in Hx; lia].
  cbn [negb]. change (t_pc (get_thread s x)) with (pc_of s x).
  destruct (pc_of s x); cbn [never_blocked] in H; try discriminate; try reflexivity.
  destruct o; try discriminate; reflexivity.
Qed.

Lemma all_blocked_spec s : all_blocked s = true -> forall x, (x < nthreads s)%nat -> blocked s x = true.
Proof. unfold all_blocked. rewrite forallb_forall. intros H x Hx. apply H. apply in_seq. unfold nthreads in Hx. lia. Qed.

Lemma wsum_zero_blocked w s :
  w PDone = 0 -> (forall p, 0 <= w p) ->
  (forall x, (x < nthreads s)%nat -> 1 <= w (pc_of s x) -> blocked s x = false) ->
  all_blocked s = true -> wsum w s = 0.
Proof.
  intros H0 Hp Hnb Hab. pose proof (wsum_nonneg w s Hp) as Hn.
  destruct (Z_le_gt_dec 1 (wsum w s)) as [H1|H1]; [|lia].
  destruct (wsum_pos_ex w s H0 H1) as (x & Hx & Hw).
  pose proof (all_blocked_spec s Hab x Hx) as Hb. rewrite (Hnb x Hx Hw) in Hb. discriminate.
Qed.

Ltac nb_tac :=
  intros p; destruct p; cbn; try lia; try reflexivity;
  repeat match goal with |- context [match ?x with _ => _ end] => is_var x; destruct x end; cbn; try lia; try reflexivity;
  try (intuition (try discriminate; try lia; try reflexivity)).

Lemma nb_mh : forall p, 1 <= w_mh p -> pc_ok p -> never_blocked p = true. Proof. nb_tac. Qed.
Lemma nb_ph : forall p, 1 <= w_ph p -> pc_ok p -> never_blocked p = true. Proof. nb_tac. Qed.
Lemma nb_spawn : forall p, 1 <= w_spawn p -> pc_ok p -> never_blocked p = true. Proof. nb_tac. Qed.
Lemma nb_inc : forall p, 1 <= w_inc p -> pc_ok p -> never_blocked p = true. Proof. nb_tac. Qed.
Lemma nb_g1 P : forall p, 1 <= w_g1 P p -> pc_ok p -> never_blocked p = true. Proof. nb_tac. Qed.
Lemma nb_g2 : forall p, 1 <= w_g2 p -> pc_ok p -> never_blocked p = true. Proof. nb_tac. Qed.
Lemma nb_fsp w : forall p, 1 <= w_fsp w p -> pc_ok p -> never_blocked p = true. Proof. nb_tac. Qed.
Lemma nb_e r : forall p, 1 <= w_e r p -> pc_ok p -> never_blocked p = true. Proof. nb_tac. Qed.
Lemma nb_d r : forall p, 1 <= w_d r p -> pc_ok p -> never_blocked p = true. Proof. nb_tac. Qed.

Lemma w_spawn_nonneg p : 0 <= w_spawn p. Proof. destruct p; cbn; try lia. destruct ctx; lia. Qed.
Lemma w_lnd_nonneg lg p : 0 <= w_lnd lg p.
Proof. destruct p; cbn [w_lnd]; try lia; case_w; unfold callz; cbn; try lia; destruct (is_null _); lia. Qed.

Lemma client_unfinished_spec cfg s :
  client_unfinished cfg s = true -> exists x, (x < length (c_scripts cfg))%nat /\ pc_of s x <> PDone.
Proof.
  unfold client_unfinished. rewrite existsb_exists. intros (x & Hin & Hx). apply in_seq in Hin.
  exists x. split; [lia|]. change (t_pc (get_thread s x)) with (pc_of s x) in Hx. intro E. rewrite E in Hx. discriminate.
Qed.

Section Final.
  Variable cfg : config.
  Variable own : nat -> nat.

  Theorem blocked_means_finished s tr :
    GInv cfg own s tr -> LInv cfg s -> all_blocked s = true -> client_unfinished cfg s = false.
  Proof.
    intros G L Hab. destruct (client_unfinished cfg s) eqn:Hcu; [exfalso|reflexivity].
    pose proof (l_pc _ _ L) as Hpc. unfold cl_pc in Hpc.
    pose proof (g_ring _ _ _ _ G) as RI. pose proof (ri_head _ _ RI) as Hhd.
    assert (Z0 : forall w, w PDone = 0 -> (forall p, 0 <= w p) ->
                           (forall p, 1 <= w p -> pc_ok p -> never_blocked p = true) -> wsum w s = 0).
    { intros w H0 Hp Hnb. apply wsum_zero_blocked; auto. intros x Hx Hw. apply nb_unblocked; auto. }
    (* nobody holds a lock *)
    assert (Zmh : wsum w_mh s = 0) by (apply Z0; [reflexivity|apply w_mh_nonneg|apply nb_mh]).
    assert (Zph : wsum w_ph s = 0) by (apply Z0; [reflexivity|apply w_ph_nonneg|apply nb_ph]).
    assert (Hmtx : st_mtx s = false).
    { pose proof (l_mtx _ _ L) as H. unfold cl_mtx in H. destruct (st_mtx s); [cbn in H; lia|reflexivity]. }
    assert (Hpl : st_plock s = false).
    { pose proof (l_plock _ _ L) as H. unfold cl_plock in H. destruct (st_plock s); [cbn in H; lia|reflexivity]. }
    (* hence nobody waits for one *)
    assert (Zgr : wsum w_gr s = 0).
    { apply wsum_zero_blocked; [reflexivity|apply w_gr_nonneg| |exact Hab].
      intros x Hx Hw. unfold blocked. destruct (Nat.ltb_spec x (length (st_threads s))) as [_|Hge]; [|unfold nthreads in Hx; lia].
      cbn [negb]. change (t_pc (get_thread s x)) with (pc_of s x).
      destruct (pc_of s x); cbn [w_gr] in Hw; try lia; try exact Hmtx; try reflexivity. }
    assert (Zsp : wsum w_spawn s = 0) by (apply Z0; [reflexivity|apply w_spawn_nonneg|apply nb_spawn]).
    assert (Zinc : wsum w_inc s = 0) by (apply Z0; [reflexivity|apply w_inc_nonneg|apply nb_inc]).
    assert (Zg1 : wsum (w_g1 (st_pushed s)) s = 0) by (apply Z0; [reflexivity|apply w_g1_nonneg|apply nb_g1]).
    assert (Zg2 : wsum w_g2 s = 0) by (apply Z0; [reflexivity|apply w_g2_nonneg|apply nb_g2]).
    assert (Zfe : wsum (w_fsp Enq) s = 0) by (apply Z0; [reflexivity|apply w_fsp_nonneg|apply nb_fsp]).
    assert (Zfd : wsum (w_fsp Deq) s = 0) by (apply Z0; [reflexivity|apply w_fsp_nonneg|apply nb_fsp]).
    assert (Ze : wsum (w_e (st_ring s)) s = 0) by (apply Z0; [reflexivity|apply w_e_nonneg|apply nb_e]).
    assert (Zd : wsum (w_d (st_ring s)) s = 0) by (apply Z0; [reflexivity|apply w_d_nonneg|apply nb_d]).
    (* the queue is empty: otherwise the enqueued signal is set and some worker is left to take the job *)
    assert (Hempty : r_head (st_ring s) = r_tail (st_ring s)).
    { destruct (Z.eq_dec (r_head (st_ring s)) (r_tail (st_ring s))) as [E|E]; [exact E|exfalso].
      assert (Hne : r_head (st_ring s) < r_tail (st_ring s)) by lia.
      assert (Hflag : fs_flag (st_enq s) = true).
      { destruct (l_wke _ _ L Hne) as [Hst|Hw]; [|lia].
        destruct (l_fse _ _ L Hst) as [Hf|Hw]; [exact Hf|lia]. }
      assert (Hlnd : 1 <= wsum (w_lnd (r_log (st_ring s))) s).
      { destruct (is_null (logv (st_ring s) (r_head (st_ring s)))) eqn:En.
        - pose proof (l_tcpos _ _ L) as Hp. unfold cl_tcpos, eff in Hp.
          pose proof (nulls_pop (r_log (st_ring s)) (r_head (st_ring s)) (r_tail (st_ring s)) ltac:(lia)) as Hn.
          unfold logv in En. rewrite En in Hn.
          pose proof (nulls_nonneg (r_log (st_ring s)) (r_head (st_ring s) + 1) (r_tail (st_ring s))). lia.
        - destruct (l_psi _ _ L (r_head (st_ring s)) ltac:(lia) En) as [Hs|Hg].
          + rewrite nulls_empty in Hs. lia.
          + unfold growers in Hg. lia. }
      destruct (wsum_pos_ex _ s eq_refl Hlnd) as (x & Hx & Hw).
      pose proof (all_blocked_spec s Hab x Hx) as Hb. pose proof (Hpc x) as Hok.
      unfold blocked in Hb. destruct (Nat.ltb_spec x (length (st_threads s))) as [_|Hge]; [|unfold nthreads in Hx; lia].
      cbn [negb] in Hb. change (t_pc (get_thread s x)) with (pc_of s x) in Hb.
      destruct (pc_of s x) eqn:Ep; cbn [w_lnd] in Hw; try lia; try discriminate Hb.
      - (* PFs *) destruct k; try lia; destruct o; try discriminate Hb; cbn [pc_ok] in Hok;
          destruct w; try contradiction; try (intuition discriminate).
        cbn [get_fs] in Hb. rewrite Hflag in Hb. discriminate.
      - (* WCall: the function does not wait for abort() *)
        cbn [pc_ok] in Hok. apply andb_true_iff in Hb as [Hb _]. apply Nat.eqb_eq in Hb. contradiction. }
    (* an unfinished client *)
    destruct (client_unfinished_spec cfg s Hcu) as (x & Hxc & Hnd).
    pose proof (l_ncl _ _ L) as Hn. unfold cl_ncl in Hn. assert (Hx : (x < nthreads s)%nat) by lia.
    pose proof (l_role _ _ L x Hxc) as Hrole. pose proof (Hpc x) as Hok.
    pose proof (all_blocked_spec s Hab x Hx) as Hb.
    unfold blocked in Hb. destruct (Nat.ltb_spec x (length (st_threads s))) as [_|Hge]; [|unfold nthreads in Hx; lia].
    cbn [negb] in Hb. change (t_pc (get_thread s x)) with (pc_of s x) in Hb.
    destruct (pc_of s x) eqn:Ep; try discriminate Hb; try (now apply Hnd).
    - (* waiting on a FastSignal: a producer on the dequeued signal *)
      destruct o; try discriminate Hb. destruct k; cbn [is_worker_pc] in Hrole; try discriminate Hrole;
        cbn [pc_ok] in Hok; destruct w; try contradiction; try (intuition discriminate).
      assert (Hw : 1 <= wsum w_wait s).
      { pose proof (wsum_member w_wait s x w_wait_nonneg Hx) as Hm. rewrite Ep in Hm. cbn [w_wait] in Hm. lia. }
      destruct (l_wkd _ _ L Hw) as [Hq|[Hst|Hq]]; [lia| |lia].
      destruct (l_fsd _ _ L Hst) as [Hf|Hq]; [|lia].
      cbn [get_fs] in Hb, Hf. rewrite Hf in Hb. discriminate.
    - (* CSpin *) rewrite Hpl in Hb. discriminate.
    - (* join() *)
      assert (Hcf : client_fut (pc_of s x) = Some f) by (rewrite Ep; reflexivity).
      destruct (g_own _ _ _ _ G x f (or_introl Hcf)) as [Hfn Hown].
      assert (Hf : (f < length (st_futs s))%nat) by (rewrite (g_nfut _ _ _ _ G); exact Hfn).
      destruct (g_fut _ _ _ _ G f Hf) as (F1 & F2 & _).
      pose proof (l_jw _ _ L x f a Ep) as Hj. apply negb_true_iff in Hb.
      pose proof (l_phase _ _ L f) as Hph. unfold phase_ok in Hph.
      destruct (f_phase (get_fut s f)) as [| |tk|w|w|w|] eqn:Eph; cbn [is_idle is_signalled negb] in F1, F2; try congruence.
      + (* started: the owner would be inside the push loop *)
        destruct Hph as (y & Hy & Hpp).
        assert (Hcy : client_fut (pc_of s y) = Some f).
        { destruct (pc_of s y); cbn [prepush_of] in Hpp; try contradiction.
          - destruct k; try contradiction; destruct r; try contradiction; destruct j; cbn [jobf] in Hpp; try contradiction; subst; reflexivity.
          - destruct k; try contradiction; destruct j; cbn [jobf] in Hpp; try contradiction; subst; reflexivity. }
        destruct (g_own _ _ _ _ G y f (or_introl Hcy)) as [_ Hown2].
        assert (Eyx : y = x) by congruence. rewrite Eyx, Ep in Hpp. exact Hpp.
      + (* queued *) lia.
      + (* taken by a worker that is not blocked *)
        destruct (Nat.lt_ge_cases w (nthreads s)) as [Hw|Hw]; [|rewrite pc_of_oob in Hph by lia; exact Hph].
        pose proof (all_blocked_spec s Hab w Hw) as Hbw. pose proof (Hpc w) as Hokw.
        rewrite nb_unblocked in Hbw; [discriminate|exact Hw|].
        destruct (pc_of s w) eqn:Epw; cbn [taken_of] in Hph; try contradiction; try reflexivity.
        * destruct k; cbn [pc_ok] in Hokw; try contradiction; destruct o; destruct w0; try contradiction; try reflexivity; intuition discriminate.
        * exfalso. unfold blocked in Hbw. destruct (Nat.ltb_spec w (length (st_threads s))) as [_|Hge2]; [|unfold nthreads in Hw; lia].
          cbn [negb] in Hbw. change (t_pc (get_thread s w)) with (pc_of s w) in Hbw. rewrite Epw in Hbw.
          cbn [pc_ok] in Hokw. apply andb_true_iff in Hbw as [Hbw _]. apply Nat.eqb_eq in Hbw. contradiction.
      + destruct (Nat.lt_ge_cases w (nthreads s)) as [Hw|Hw]; [|rewrite pc_of_oob in Hph by lia; exact Hph].
        pose proof (all_blocked_spec s Hab w Hw) as Hbw.
        rewrite nb_unblocked in Hbw; [discriminate|exact Hw|].
        destruct (pc_of s w); cbn [ran_of] in Hph; try contradiction; reflexivity.
      + destruct (Nat.lt_ge_cases w (nthreads s)) as [Hw|Hw]; [|rewrite pc_of_oob in Hph by lia; exact Hph].
        pose proof (all_blocked_spec s Hab w Hw) as Hbw.
        rewrite nb_unblocked in Hbw; [discriminate|exact Hw|].
        destruct (pc_of s w); try contradiction; reflexivity.
    (* CGrowLock, CShrinkLock: the mutex is free; WCall: a client thread does not run started functions *)
    - try (rewrite Hmtx in Hb; discriminate Hb); cbn [is_worker_pc] in Hrole; discriminate Hrole.
    - try (rewrite Hmtx in Hb; discriminate Hb); cbn [is_worker_pc] in Hrole; discriminate Hrole.
  Qed.
End Final.

Theorem no_reachable_deadlock_lemma cfg own sched :
  wf_cfg cfg own -> c_fixed cfg = true -> c_sigfix cfg = true -> terminating_scripts cfg = true ->
  0 <= c_min cfg -> 2 <= c_max cfg ->
  deadlocked cfg (fst (exec cfg sched)) = false.
Proof.
  intros W Hfix Hsig Hterm Hmin Hmax. unfold deadlocked.
  destruct (all_blocked (fst (exec cfg sched))) eqn:Hab; [|apply andb_false_r].
  rewrite andb_true_r.
  apply (blocked_means_finished cfg own _ (snd (exec cfg sched))); [now apply exec_inv|now apply (exec_linv cfg own)|exact Hab].
Qed.

(* progress: while a client is unfinished some thread can take a step that changes the state *)
Theorem some_thread_moves_lemma cfg own sched :
  wf_cfg cfg own -> c_fixed cfg = true -> c_sigfix cfg = true -> terminating_scripts cfg = true ->
  0 <= c_min cfg -> 2 <= c_max cfg ->
  let s := fst (exec cfg sched) in
  client_unfinished cfg s = true ->
  exists t, (t < nthreads s)%nat /\ blocked s t = false /\ forall clk, fst (step cfg s t clk) <> s.
Proof.
  intros W Hfix Hsig Hterm Hmin Hmax s Hcu.
  pose proof (no_reachable_deadlock_lemma cfg own sched W Hfix Hsig Hterm Hmin Hmax) as Hd.
  unfold deadlocked in Hd. fold s in Hd. rewrite Hcu in Hd. cbn [andb] in Hd.
  unfold all_blocked in Hd.
  assert (Hex : exists t, In t (seq 0 (length (st_threads s))) /\ blocked s t = false).
  { clear -Hd. induction (seq 0 (length (st_threads s))) as [|a l IH]; cbn [forallb] in Hd; [discriminate|].
    destruct (blocked s a) eqn:E.
    - cbn [andb] in Hd. destruct (IH Hd) as (t & Hin & Hb). exists t. split; [now right|exact Hb].
    - exists a. split; [now left|exact E]. }
  destruct Hex as (t & Hin & Hb). apply in_seq in Hin.
  exists t. split; [unfold nthreads; lia|]. split; [exact Hb|].
  intro clk. apply unblocked_moves; [unfold nthreads; lia|exact Hb].
Qed.

Lemma wakeup_invariant_lemma cfg own sched :
  wf_cfg cfg own -> c_fixed cfg = true -> c_sigfix cfg = true -> terminating_scripts cfg = true ->
  0 <= c_min cfg -> 2 <= c_max cfg -> LInv cfg (fst (exec cfg sched)).
Proof. intros. now apply (exec_linv cfg own). Qed.

(* a pool that may not start a worker: used by a non-vacuity Example of Properties_C10.v *)
Definition nw_cfg : config :=
  mkConfig 4 0 0 false 1 [[(0, CStart 0 5 0); (1, CJoin 0)]%nat] (fun a => 7 * a + 3) true true false.
