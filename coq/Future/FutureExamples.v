(* Concrete configuration and schedule used by the non-vacuity Examples of Properties_C10.v. *)
From Coq Require Import ZArith List Bool Lia Arith.
From Future Require Import FutureModel FutureProofs.
Import ListNotations.
Local Open Scope Z_scope.

Definition ex_cfg : config :=
  mkConfig 2 0 3 true 2
    [[(0, CStart 0 5 0); (1, CStart 1 6 3); (2, CGet 0); (3, CAbort 1); (4, CGet 1); (5, CCheck 1);
      (6, CStart 0 7 0); (7, CJoin 0)]%nat]
    (fun a => 7 * a + 3) true true false.

(* lowest-numbered thread that can move, until nobody can *)
Fixpoint auto_sched (cfg : config) (s : state) (fuel : nat) : list move :=
  match fuel with
  | O => []
  | S k => match find (fun t => negb (blocked s t)) (seq 0 (length (st_threads s))) with
           | None => []
           | Some t => (t, true) :: auto_sched cfg (fst (step cfg s t true)) k
           end
  end.
Definition ex_sched : list move := auto_sched ex_cfg (init ex_cfg) 2000.

Lemma ex_wf : wf_cfg ex_cfg (fun _ => 0%nat).
Proof.
  split; [reflexivity|]. split; [|reflexivity]. intros c f (i & op & Hin & Hop). destruct c as [|c].
  - cbn in Hin |- *.
    repeat (destruct Hin as [E|Hin]; [inversion E; subst; cbn in Hop; inversion Hop; split; [lia|reflexivity]|]).
    contradiction.
  - cbn in Hin. destruct c; contradiction.
Qed.

Definition has_event (p : event -> bool) (tr : list event) : bool := existsb p tr.

