(* C10, liveness (A): the per-thread clauses of LInv (roles, typing of continuations, no polling function). *)
From Coq Require Import ZArith List Bool Lia Arith.
From Coq Require Import ZifyBool ZifyNat.
From Common Require Import ListAux.
From Future Require Import FutureModel FutureRingProofs FutureProofs FutureStep FutureLiveness FutureNested FutureLiveDefs FutureLiveStep.
Import ListNotations.
Local Open Scope Z_scope.

Lemma pc_of_upd s s' t P :
  pcs s' = upd t P (pcs s) -> (t < nthreads s)%nat -> forall x, pc_of s' x = if Nat.eqb x t then P else pc_of s x.
Proof.
  intros E Ht x. rewrite <- (nth_pcs s' x), E. destruct (Nat.eqb_spec x t) as [->|Hx].
  - apply nth_upd_same. now rewrite pcs_length.
  - rewrite nth_upd_other by congruence. apply nth_pcs.
Qed.

Lemma pc_of_upd_app s s' t P Q :
  pcs s' = upd t P (pcs s) ++ [Q] -> (t < nthreads s)%nat ->
  forall x, pc_of s' x = if Nat.eqb x t then P else if (x <? nthreads s)%nat then pc_of s x
                         else if Nat.eqb x (nthreads s) then Q else PDone.
Proof.
  intros E Ht x. rewrite <- (nth_pcs s' x), E.
  assert (Hl : length (upd t P (pcs s)) = nthreads s) by (rewrite upd_length; apply pcs_length).
  destruct (Nat.ltb_spec x (nthreads s)) as [Hx|Hx].
  - rewrite app_nth1 by lia. destruct (Nat.eqb_spec x t) as [->|Hxt].
    + apply nth_upd_same. now rewrite pcs_length.
    + rewrite nth_upd_other by congruence. apply nth_pcs.
  - destruct (Nat.eqb_spec x t) as [->|Hxt]; [lia|]. rewrite app_nth2 by lia. rewrite Hl.
    destruct (Nat.eqb_spec x (nthreads s)) as [->|Hxn]; [now rewrite Nat.sub_diag|].
    destruct (x - nthreads s)%nat as [|[|k]] eqn:Ek; try lia; reflexivity.
Qed.

Lemma nthreads_of_pcs (s' : state) l : pcs s' = l -> nthreads s' = length l.
Proof. intros <-. symmetry. apply pcs_length. Qed.

Lemma job_fine_nth lg k : (forall j, In j lg -> job_fine j) -> job_fine (nth k lg JNull).
Proof. intro H. destruct (nth_in_or_default k lg JNull) as [Hi| ->]; [now apply H|exact I]. Qed.

Ltac rw_pc s t Hlt x :=
  match goal with
  | HP : pcs _ = upd t _ (pcs s) ++ _ |- _ => rewrite (pc_of_upd_app _ _ _ _ _ HP Hlt x)
  | HP : pcs _ = upd t _ (pcs s) |- _ => rewrite (pc_of_upd _ _ _ _ HP Hlt x)
  end.

Section Thr.
  Variable cfg : config.
  Variable own : nat -> nat.
  Hypothesis Hfix : c_fixed cfg = true.
  Hypothesis Hsig : c_sigfix cfg = true.
  Hypothesis Hnest : c_nested cfg = false.

  Lemma step_pc s tr t clk s' evs :
    (t < nthreads s)%nat -> GInv cfg own s tr -> LInv cfg s -> step cfg s t clk = (s', evs) -> cl_pc s'.
  Proof.
    intros Hlt G L Hs. pose proof (l_pc _ _ L t) as Hok. pose proof (l_pc _ _ L) as Hall. unfold cl_pc in Hall.
    pose proof (l_script _ _ L t) as Hsc. unfold script_fine in Hsc.
    pose proof (fun k => job_fine_nth (r_log (st_ring s)) k (l_log _ _ L)) as Hlg.
    split_step cfg s t Hs Hlt Hok Hfix Hsig Hnest; ring_pre constr:(s) constr:(t) Hs G; fin Hs; try (stutter (l_pc _ _ L)).
    all: leaf_pcs constr:(s) constr:(t) Hlt Epc; unfold cl_pc; intro x;
      rw_pc constr:(s) constr:(t) Hlt x;
      (destruct (Nat.eqb x t); [|try (destruct (x <? nthreads s)%nat; [|destruct (Nat.eqb x (nthreads s))]); try apply Hall; try exact I]).
    all: try (rewrite Epc; exact Hok).
    all: try (rewrite Esc in Hsc).
    all: cbn [pc_ok push_job after_fine is_call job_fine worker_entry t_pc] in *.
    all: intuition (try congruence; eauto using in_eq).
  Qed.

  Lemma step_ncl s t clk s' evs :
    (t < nthreads s)%nat -> LInv cfg s -> step cfg s t clk = (s', evs) -> cl_ncl cfg s' /\ (nthreads s <= nthreads s')%nat.
  Proof.
    intros Hlt L Hs. pose proof (l_pc _ _ L t) as Hok. pose proof (l_ncl _ _ L) as Hn. unfold cl_ncl in *.
    assert (Hgoal : forall st, (nthreads s <= nthreads st)%nat -> (length (c_scripts cfg) <= nthreads st)%nat /\ (nthreads s <= nthreads st)%nat)
      by (intros; split; lia).
    split_step cfg s t Hs Hlt Hok Hfix Hsig Hnest; fin Hs; apply Hgoal; try lia.
    all: try (rewrite nthreads_goto); try (rewrite nthreads_ghost); unfold nthreads in *;
         cbn [st_threads set_threads set_mtx set_fs set_ring set_pushed set_processed set_tcount set_pool set_plock set_futs put_fut];
         rewrite ?upd_length, ?app_length; cbn [length]; lia.
  Qed.

  Lemma step_role s tr t clk s' evs :
    (t < nthreads s)%nat -> GInv cfg own s tr -> LInv cfg s -> step cfg s t clk = (s', evs) -> cl_role cfg s'.
  Proof.
    intros Hlt G L Hs. pose proof (l_pc _ _ L t) as Hok. pose proof (l_role _ _ L) as Hall. unfold cl_role in Hall.
    pose proof (l_ncl _ _ L) as Hn. unfold cl_ncl in Hn.
    split_step cfg s t Hs Hlt Hok Hfix Hsig Hnest; ring_pre constr:(s) constr:(t) Hs G; fin Hs; try (stutter (l_role _ _ L)).
    all: leaf_pcs constr:(s) constr:(t) Hlt Epc; unfold cl_role; intros x Hx;
      rw_pc constr:(s) constr:(t) Hlt x;
      (destruct (Nat.eqb_spec x t) as [->|Hxt];
       [ specialize (Hall t Hx); rewrite Epc in Hall; cbn [is_worker_pc] in *; try reflexivity; try discriminate
       | try (destruct (Nat.ltb_spec x (nthreads s)); [|lia]); apply Hall; exact Hx ]).
    all: rewrite Epc; reflexivity.
  Qed.

  Lemma step_log s tr t clk s' evs :
    (t < nthreads s)%nat -> GInv cfg own s tr -> LInv cfg s -> step cfg s t clk = (s', evs) -> cl_log s'.
  Proof.
    intros Hlt G L Hs. pose proof (l_pc _ _ L t) as Hok. pose proof (l_log _ _ L) as Hall. unfold cl_log in Hall.
    split_step cfg s t Hs Hlt Hok Hfix Hsig Hnest; ring_pre constr:(s) constr:(t) Hs G; fin Hs; try (stutter (l_log _ _ L)).
    all: unfold cl_log; norm_proj; try exact Hall.
    all: intros j Hj; apply in_app_or in Hj as [Hj|[<-|[]]]; [now apply Hall| try exact Hfine; try exact I].
  Qed.

  Lemma script_of_goto_pop s t rest i p x :
    (t < nthreads s)%nat -> script_of s t = rest \/ (exists hd, script_of s t = hd :: rest) ->
    forall e, In e (script_of (goto (set_threads s (upd t (mkThread PIdle rest i) (st_threads s))) t p) x) -> In e (script_of s x).
  Proof.
    intros Hlt Hsc e. rewrite script_goto by (rewrite nthreads_pop; exact Hlt).
    unfold script_of at 1. rewrite get_thread_upd by exact Hlt.
    destruct (Nat.eqb_spec x t) as [->|]; [|auto]. cbn [t_script].
    destruct Hsc as [->|[hd ->]]; [auto|]. intro H. now right.
  Qed.

  Lemma script_of_pop s t rest i x :
    (t < nthreads s)%nat -> (exists hd, script_of s t = hd :: rest) ->
    forall e, In e (script_of (set_threads s (upd t (mkThread PIdle rest i) (st_threads s))) x) -> In e (script_of s x).
  Proof.
    intros Hlt [hd Hsc] e. unfold script_of at 1. rewrite get_thread_upd by exact Hlt.
    destruct (Nat.eqb_spec x t) as [->|]; [|auto]. cbn [t_script]. rewrite Hsc. intro H. now right.
  Qed.

  Lemma step_script s tr t clk s' evs :
    (t < nthreads s)%nat -> GInv cfg own s tr -> LInv cfg s -> step cfg s t clk = (s', evs) -> cl_script s'.
  Proof.
    intros Hlt G L Hs. pose proof (l_pc _ _ L t) as Hok. pose proof (l_script _ _ L) as Hall. unfold cl_script in Hall.
    assert (Hkey : forall st, (forall x e, In e (script_of st x) -> In e (script_of s x)) -> cl_script st).
    { intros st H x i f a wk Hin. apply (Hall x i f a wk). now apply H. }
    split_step cfg s t Hs Hlt Hok Hfix Hsig Hnest; ring_pre constr:(s) constr:(t) Hs G; fin Hs; try (stutter (l_script _ _ L)).
    all: apply Hkey; intros x e.
    all: try (rewrite script_goto by (first [exact Hlt | rewrite nthreads_ghost; exact Hlt]); 
              unfold script_of; try (unfold get_thread; rewrite (proj1 (ghost_fold_proj _ _ _))); auto; fail).
    all: try (apply script_of_goto_pop; [exact Hlt|right; eexists; exact Esc]).
    all: try (apply script_of_pop; [exact Hlt|eexists; exact Esc]).
    all: try (change (script_of (put_fut ?X ?f ?y) x) with (script_of X x); apply script_of_pop; [exact Hlt|eexists; exact Esc]).
    (* spawn *)
    rewrite script_goto by (unfold nthreads in *; cbn [st_threads set_threads]; rewrite app_length; lia).
    unfold script_of at 1. rewrite get_thread_spawn.
    destruct (x <? nthreads s)%nat; [auto|]. destruct (Nat.eqb x (nthreads s)); intros [].
  Qed.
End Thr.
