(* C10: the destructor clause and the conversion after an earlier join().

   "join(), the destructor and the result conversion return only after that execution has completed":
   for the DESTRUCTOR this must include the completion handshake itself, because the Future's
   memory (its Signal) is gone when ~Future returns.  [EvDestroy c f clean] is emitted by the step
   in which the destructor returns; [clean] says that no worker thread holds the call record of f
   or stands inside Future<A>::proc / Future<void>::set / Signal::set for f any more
   ([fut_unused], a GHOST computation over the program counters).

   - Code as it was (Signal::set() unlocks the mutex and THEN broadcasts, [c_sigfix = false]):
     refuted, a schedule ends with [EvDestroy _ _ false] (worker at WBcast: it still has to call
     pthread_cond_broadcast on the Future's condition variable).
   - Code after fixes/C10/04 (broadcast while the mutex is held, [c_sigfix = true]): proved for
     every schedule and every well-formed configuration.

   Second invariant of the trace, proved along every schedule together with GInv:
   [trace_ok2] = every EvDestroy is clean, and every conversion of a future that is not joinable
   (OGet f None v, the usual `f.join(); x = f;`) yields the return value of the LATEST start of f. *)
From Coq Require Import ZArith List Bool Lia Arith.
From Common Require Import ListAux.
From Future Require Import FutureModel FutureRingProofs FutureProofs FutureStep FutureTheorems.
Import ListNotations.
Local Open Scope Z_scope.

(* the latest start of f in the trace is its n-th, with argument a *)
Definition latest_start (older : list event) (f n : nat) (a : Z) : Prop :=
  (exists wk, started older f n a wk) /\
  forall c m a' wk', In (EvStart c f m a' wk') older -> (m <= n)%nat.

Definition ev_ok2 (cfg : config) (e : event) (older : list event) : Prop :=
  match e with
  | EvDestroy c f b =>
      (c_sigfix cfg = true -> b = true) /\
      (* the result slot (a member of the Future, destroyed by ~Future after its join()) dies only after
         the latest started call has run, once, and has stored its return value *)
      (forall n a, latest_start older f n a ->
         runs older f n = 1%nat /\ In (EvStore f n (c_fn cfg a)) older)
  | EvObs c i (OGet f None v) => forall n a, latest_start older f n a -> v = Some (c_fn cfg a)
  | _ => True
  end.

Fixpoint trace_ok2 (cfg : config) (tr : list event) : Prop :=
  match tr with
  | [] => True
  | e :: older => ev_ok2 cfg e older /\ trace_ok2 cfg older
  end.

Definition plain (e : event) : bool :=
  match e with EvDestroy _ _ _ => false | EvObs _ _ (OGet _ None _) => false | _ => true end.

Lemma trace_ok2_app_plain cfg evs tr : forallb plain evs = true -> trace_ok2 cfg tr -> trace_ok2 cfg (evs ++ tr).
Proof.
  induction evs as [|e evs IH]; cbn [forallb app]; intros H T; [exact T|].
  apply andb_true_iff in H as [H1 H2]. cbn [trace_ok2]. split; [|auto].
  destruct e; cbn in *; try exact I; try discriminate.
  destruct o; try exact I. destruct n; [exact I|discriminate].
Qed.

Lemma trace_ok2_split cfg newer e older : trace_ok2 cfg (newer ++ e :: older) -> ev_ok2 cfg e older.
Proof. induction newer as [|x l IH]; cbn [app trace_ok2]; intros H; [apply H|apply IH; tauto]. Qed.

(* ---------------------------------------------------------------------------------------- *)
(* who may still use a future                                                                *)
(* ---------------------------------------------------------------------------------------- *)
Definition busy_phase (ph : phase) : Prop :=
  exists w, ph = PhTaken w \/ ph = PhRan w \/ ph = PhCompleted w.

Lemma job_is_fut j f : job_is j f = true -> job_fut j = Some f.
Proof. destruct j as [|f0 n a wk]; cbn; [discriminate|]. intro H. apply Nat.eqb_eq in H. now subst. Qed.

Lemma user_busy cfg s tr x p f :
  c_sigfix cfg = true -> thread_ok cfg s tr x p -> worker_uses (st_ring s) p f = true ->
  busy_phase (f_phase (get_fut s f)).
Proof.
  intros Hsf H Hu. exists x.
  destruct p; cbn [worker_uses thread_ok] in *; try discriminate.
  - destruct r; try discriminate; left; apply job_is_fut in Hu; eapply job_ok_fut; eauto.
  - destruct k; try discriminate; left; apply job_is_fut in Hu; eapply job_ok_fut; eauto.
  - apply Nat.eqb_eq in Hu. subst. left. destruct H as (_ & B & _). exact B.
  - apply Nat.eqb_eq in Hu. subst. right. left. destruct H as (_ & B & _). exact B.
  - apply Nat.eqb_eq in Hu. subst. right. left. destruct H as (_ & B & _). exact B.
  - apply Nat.eqb_eq in Hu. subst. right. left. destruct H as (_ & B & _). exact B.
  - apply Nat.eqb_eq in Hu. subst. right. right. destruct H as (_ & B & _). exact B.
  - congruence.
Qed.

(* a future whose owner is past the wait of join() (phase signalled) or that is not joinable (idle)
   is used by no worker: fut_unused computes true in any state that differs from s only in the
   stepping client's own pc/script and in future records *)
Lemma unused_when_quiet cfg own s tr s1 t f :
  GInv cfg own s tr -> c_sigfix cfg = true ->
  (f_phase (get_fut s f) = PhIdle \/ f_phase (get_fut s f) = PhSignalled) ->
  st_ring s1 = st_ring s -> nthreads s1 = nthreads s ->
  (forall x, x <> t -> pc_of s1 x = pc_of s x) ->
  worker_uses (st_ring s) (pc_of s1 t) f = false ->
  fut_unused s1 f = true.
Proof.
  intros G Hsf Hph Hr Hn Hx Ht. unfold fut_unused. apply forallb_forall. intros th Hin.
  apply (In_nth _ _ dthread) in Hin as (x & Hxl & <-). apply negb_true_iff.
  change (t_pc (nth x (st_threads s1) dthread)) with (pc_of s1 x). rewrite Hr.
  destruct (Nat.eq_dec x t) as [->|E]; [exact Ht|].
  rewrite Hx by exact E.
  destruct (worker_uses (st_ring s) (pc_of s x) f) eqn:Eu; [exfalso|reflexivity].
  destruct (user_busy cfg s tr x _ f Hsf (g_thr _ _ _ _ G x) Eu) as (w & [B|[B|B]]);
    destruct Hph as [P|P]; congruence.
Qed.

(* ---------------------------------------------------------------------------------------- *)
(* every step preserves trace_ok2                                                            *)
(* ---------------------------------------------------------------------------------------- *)
Lemma in_map_ring_plain t revs : forallb plain (map (ring_event t) revs) = true.
Proof. induction revs as [|e l IH]; [reflexivity|]. cbn [map forallb]. rewrite IH. destruct e; reflexivity. Qed.

Lemma forallb_rev {A} (p : A -> bool) l : forallb p (rev l) = forallb p l.
Proof.
  induction l as [|a l IH]; [reflexivity|]. cbn [rev forallb]. rewrite forallb_app, IH. cbn. rewrite andb_true_r. apply andb_comm.
Qed.

(* the conversion of a future that is not joinable *)
Lemma get_idle_ok cfg own s tr f :
  GInv cfg own s tr -> (f < c_nfut cfg)%nat -> f_joinable (get_fut s f) = false ->
  forall n a, latest_start tr f n a -> f_result (get_fut s f) = Some (c_fn cfg a).
Proof.
  intros G Hf Hj n a [[wk [c Hs]] Hmax].
  rewrite <- (g_nfut _ _ _ _ G) in Hf.
  destruct (g_fut _ _ _ _ G f Hf) as (F1 & _ & _ & F4 & _ & F6).
  assert (Hph : f_phase (get_fut s f) = PhIdle) by (apply phase_of_idle; now rewrite <- F1).
  pose proof (F6 _ _ _ _ Hs) as Hn.
  rewrite Hph in F4. cbn [done_b] in F4.
  destruct (F4 ltac:(destruct (f_serial (get_fut s f)); [lia|reflexivity]))
    as (ab & a0 & wk0 & w & _ & _ & _ & [c0 D4] & D5 & _).
  pose proof (Hmax _ _ _ _ D4) as Hle.
  assert (En : n = f_serial (get_fut s f)) by lia. subst n.
  destruct (g_starts _ _ _ _ G _ _ _ _ _ _ _ _ Hs D4) as [-> _]. exact D5.
Qed.

(* events that neither start nor run a call *)
Definition quiet_ev (e : event) : bool :=
  match e with EvStart _ _ _ _ _ | EvRun _ _ _ _ => false | _ => true end.

Lemma runs_app_quiet pre tr f n : forallb quiet_ev pre = true -> runs (pre ++ tr) f n = runs tr f n.
Proof.
  induction pre as [|e pre IH]; cbn [forallb app]; intro H; [reflexivity|].
  apply andb_true_iff in H as [H1 H2]. unfold runs in *. cbn [filter].
  destruct e; cbn in H1 |- *; try discriminate; auto.
Qed.

Lemma in_start_app_quiet pre tr c f m a wk :
  forallb quiet_ev pre = true -> In (EvStart c f m a wk) (pre ++ tr) -> In (EvStart c f m a wk) tr.
Proof.
  induction pre as [|e pre IH]; cbn [forallb app]; intros H Hin; [exact Hin|].
  apply andb_true_iff in H as [H1 H2]. destruct Hin as [E|Hin]; [subst e; discriminate|auto].
Qed.

(* the owner is past the wait of join() (or the future is not joinable): the latest call has run once
   and its return value has been stored *)
Lemma destroy_store_ok cfg own s tr f pre :
  GInv cfg own s tr -> (f < c_nfut cfg)%nat ->
  (f_phase (get_fut s f) = PhIdle \/ f_phase (get_fut s f) = PhSignalled) ->
  forallb quiet_ev pre = true ->
  forall n a, latest_start (pre ++ tr) f n a ->
    runs (pre ++ tr) f n = 1%nat /\ In (EvStore f n (c_fn cfg a)) (pre ++ tr).
Proof.
  intros G Hf Hph Hq n a [[wk [c Hs]] Hmax].
  apply (in_start_app_quiet _ _ _ _ _ _ _ Hq) in Hs.
  rewrite <- (g_nfut _ _ _ _ G) in Hf.
  destruct (g_fut _ _ _ _ G f Hf) as (_ & _ & F3 & F4 & _ & F6).
  pose proof (F6 _ _ _ _ Hs) as Hn.
  assert (Hd : done_b (f_phase (get_fut s f)) (f_serial (get_fut s f)) = true).
  { destruct Hph as [-> | ->]; cbn [done_b]; [|reflexivity].
    destruct (f_serial (get_fut s f)); [lia|reflexivity]. }
  destruct (F4 Hd) as (ab & a0 & wk0 & w & _ & _ & _ & [c0 D4] & _ & _ & D7).
  assert (Hle : (f_serial (get_fut s f) <= n)%nat).
  { apply (Hmax c0 _ a0 wk0). apply in_or_app. right. exact D4. }
  assert (En : n = f_serial (get_fut s f)) by lia. subst n.
  destruct (g_starts _ _ _ _ G _ _ _ _ _ _ _ _ Hs D4) as [-> _].
  split; [|apply in_or_app; right; exact D7].
  rewrite (runs_app_quiet _ _ _ _ Hq).
  rewrite (F3 (f_serial (get_fut s f)) ltac:(lia)).
  rewrite Nat.ltb_irrefl, Nat.eqb_refl.
  destruct Hph as [-> | ->]; reflexivity.
Qed.

Lemma join_or_ok2 cfg own s tr s1 t f a s' evs :
  GInv cfg own s tr -> trace_ok2 cfg tr ->
  st_futs s1 = st_futs s -> st_ring s1 = st_ring s -> nthreads s1 = nthreads s ->
  (forall x, x <> t -> pc_of s1 x = pc_of s x) ->
  worker_uses (st_ring s) (pc_of s1 t) f = false ->
  (f < c_nfut cfg)%nat ->
  join_or cfg s1 t f a = (s', evs) -> trace_ok2 cfg (rev evs ++ tr).
Proof.
  intros G T Hfu Hr Hn Hx Ht Hf Hs. unfold join_or in Hs.
  rewrite (get_fut_same s s1 f Hfu) in Hs.
  destruct (f_joinable (get_fut s f)) eqn:Ej; [inv_step Hs; exact T|].
  unfold finish_join in Hs. destruct a; inv_step Hs; cbn [rev app]; try exact T.
  - split; [exact I|exact T].
  - (* OGet f None *)
    split; [|exact T]. cbn [ev_ok2]. rewrite (get_fut_same s s1 f Hfu).
    intros n a L. eapply get_idle_ok; eauto.
  - (* destroy of a future that is not joinable *)
    split; [|split; [exact I|exact T]]. cbn [ev_ok2].
    assert (Hlt : (f < length (st_futs s))%nat) by now rewrite (g_nfut _ _ _ _ G).
    destruct (g_fut _ _ _ _ G f Hlt) as (F1 & _).
    assert (Hph : f_phase (get_fut s f) = PhIdle) by (apply phase_of_idle; now rewrite <- F1).
    split.
    + intro Hsf. apply (unused_when_quiet cfg own s tr s1 t f G Hsf (or_introl Hph) Hr Hn Hx Ht).
    + refine (destroy_store_ok cfg own s tr f [_] G Hf (or_introl Hph) _); reflexivity.
Qed.

Lemma step_ok2 cfg own s tr t clk s' evs :
  wf_cfg cfg own -> GInv cfg own s tr -> trace_ok2 cfg tr ->
  step cfg s t clk = (s', evs) -> trace_ok2 cfg (rev evs ++ tr).
Proof.
  intros W G T Hs. unfold step in Hs.
  destruct (t <? length (st_threads s))%nat eqn:Elt; cbn [negb] in Hs.
  2:{ inv_step Hs. exact T. }
  apply Nat.ltb_lt in Elt. fold (nthreads s) in Elt.
  change (t_pc (get_thread s t)) with (pc_of s t) in Hs.
  assert (P0 : forall l, forallb plain l = true -> trace_ok2 cfg (rev l ++ tr)).
  { intros l Hl. apply trace_ok2_app_plain; [|exact T]. now rewrite forallb_rev. }
  destruct (pc_of s t) eqn:Epc;
    try (inv_step Hs; apply P0; reflexivity).
  - (* PIdle *)
    change (t_script (get_thread s t)) with (script_of s t) in Hs.
    destruct (script_of s t) as [|[i op] rest] eqn:Esc; [inv_step Hs; apply P0; reflexivity|].
    set (s1 := set_threads s (upd t (mkThread PIdle rest i) (st_threads s))) in *.
    assert (Hx1 : forall x, x <> t -> pc_of s1 x = pc_of s x).
    { intros x E. unfold pc_of, s1. rewrite get_thread_upd by exact Elt.
      destruct (Nat.eqb_spec x t); [contradiction|reflexivity]. }
    assert (Hn1 : nthreads s1 = nthreads s) by (unfold nthreads, s1; cbn; apply upd_length).
    assert (Ht1 : forall f, worker_uses (st_ring s) (pc_of s1 t) f = false).
    { intro f. unfold pc_of, s1. rewrite get_thread_upd by exact Elt. now rewrite Nat.eqb_refl. }
    assert (Hmen : forall f, op_fut op = Some f -> (f < c_nfut cfg)%nat).
    { intros f Hf. apply (g_own _ _ _ _ G t f). right. exists i, op. rewrite Esc. split; [now left|exact Hf]. }
    destruct op.
    + change (st_pool s1) with (st_pool s) in Hs. destruct (st_pool s).
      * eapply (join_or_ok2 cfg own s tr s1 t f); eauto.
      * inv_step Hs; apply P0; reflexivity.
    + inv_step Hs; apply P0; reflexivity.
    + eapply (join_or_ok2 cfg own s tr s1 t f); eauto.
    + eapply (join_or_ok2 cfg own s tr s1 t f); eauto.
    + inv_step Hs; apply P0; reflexivity.
    + inv_step Hs; apply P0; reflexivity.
    + eapply (join_or_ok2 cfg own s tr s1 t f); eauto.
    + destruct (c_nested cfg); inv_step Hs; apply P0; reflexivity.
  - (* PRing *)
    destruct (ring_step (st_ring s) r) as [[r' rp'] revs] eqn:Er. inv_step Hs.
    apply P0. apply in_map_ring_plain.
  - (* PFs *)
    destruct (fs_step (c_fixed cfg) (get_fs s w) o) as [g' o'] eqn:Efs.
    destruct o' as [o2|]; inv_step Hs; apply P0; [reflexivity|].
    destruct k; try reflexivity. destruct j; reflexivity.
  - (* CSpin *) destruct (st_plock s); inv_step Hs; apply P0; reflexivity.
  - (* CRecheck *) destruct (st_pool s); inv_step Hs; apply P0; reflexivity.
  - (* CUnlockPool *)
    assert (Hf : (f < c_nfut cfg)%nat).
    { apply (g_own _ _ _ _ G t f). left. rewrite Epc. reflexivity. }
    eapply (join_or_ok2 cfg own s tr (set_plock s false) t f); eauto.
    change (pc_of (set_plock s false) t) with (pc_of s t). rewrite Epc. reflexivity.
  - (* CJoinWait *) destruct (f_sig (get_fut s f)); inv_step Hs; apply P0; reflexivity.
  - (* CJoinReset *)
    assert (Hf : (f < c_nfut cfg)%nat).
    { apply (g_own _ _ _ _ G t f). left. rewrite Epc. reflexivity. }
    assert (Hlt : (f < length (st_futs s))%nat) by now rewrite (g_nfut _ _ _ _ G).
    unfold finish_join in Hs. destruct a; inv_step Hs; try (apply P0; reflexivity).
    cbn [rev app]. split; [|split; [exact I|split; [exact I|exact T]]].
    cbn [ev_ok2].
    pose proof (g_thr _ _ _ _ G t) as Hme. rewrite Epc in Hme. cbn [thread_ok] in Hme.
    destruct (g_fut _ _ _ _ G f Hlt) as (_ & F2 & _).
    assert (Hph : f_phase (get_fut s f) = PhSignalled) by (apply phase_of_sig; now rewrite <- F2).
    split; [|refine (destroy_store_ok cfg own s tr f [_; _] G Hf (or_intror Hph) _); reflexivity].
    intro Hsf.
    apply (unused_when_quiet cfg own s tr _ t f G Hsf (or_intror Hph)).
    + reflexivity.
    + reflexivity.
    + intros x E. reflexivity.
    + change (pc_of (put_fut s f ?y) t) with (pc_of s t). rewrite Epc. reflexivity.
  - (* CGrowLock *) destruct (st_mtx s); inv_step Hs; apply P0; reflexivity.
  - (* CGrowInc *) destruct (_ <? _); inv_step Hs; apply P0; reflexivity.
  - (* CShrinkLock *) destruct (st_mtx s); inv_step Hs; apply P0; reflexivity.
  - (* CShrinkChk *) destruct (_ <? _); inv_step Hs; apply P0; reflexivity.
  - (* WCall *)
    destruct ((work =? 3)%nat && negb (f_aborting (get_fut s f))); [inv_step Hs; apply P0; reflexivity|].
    destruct (c_nested cfg && (4 <=? work)%nat); inv_step Hs; apply P0; reflexivity.
Qed.

Lemma exec_from_ok2 cfg own sched : forall s tr,
  wf_cfg cfg own -> GInv cfg own s tr -> trace_ok2 cfg tr ->
  trace_ok2 cfg (snd (exec_from cfg s tr sched)).
Proof.
  induction sched as [|[t clk] rest IH]; intros s tr W G T; [exact T|].
  cbn [exec_from]. destruct (step cfg s t clk) as [s' evs] eqn:E.
  apply IH; [exact W| |].
  - eapply step_inv; eauto.
  - eapply step_ok2; eauto.
Qed.

Theorem exec_ok2 cfg own sched : wf_cfg cfg own -> trace_ok2 cfg (snd (exec cfg sched)).
Proof. intro W. unfold exec. apply (exec_from_ok2 cfg own); [exact W|now apply init_inv|exact I]. Qed.

(* ---------------------------------------------------------------------------------------- *)
(* the clauses                                                                               *)
(* ---------------------------------------------------------------------------------------- *)
(* ~Future returns only after the worker is done with the Future (code after fixes/C10/04) *)
Theorem destructor_waits_for_worker_lemma cfg own sched :
  wf_cfg cfg own -> c_sigfix cfg = true ->
  forall c f clean, In (EvDestroy c f clean) (snd (exec cfg sched)) -> clean = true.
Proof.
  intros W Hsf c f b Hin. pose proof (exec_ok2 cfg own sched W) as T.
  apply in_split in Hin as (l1 & l2 & E). rewrite E in T. apply trace_ok2_split in T. exact (proj1 T Hsf).
Qed.

(* The result slot of a Future<A> is a member of the object: ~Future<A> = join(), then `result` and the
   inner Future<void> are destroyed.  When the destructor has returned (EvDestroy) the latest started
   call has been executed, exactly once, and its return value has been stored into the result slot
   BEFORE - the worker never writes a result slot that has been destroyed.  For the code as it is and
   as it was (no hypothesis on c_sigfix: the late broadcast touches the Signal, not the result). *)
Theorem result_slot_outlives_execution_lemma cfg own sched :
  wf_cfg cfg own ->
  forall newer c f clean older,
    snd (exec cfg sched) = newer ++ EvDestroy c f clean :: older ->
    forall n a, latest_start older f n a ->
      runs older f n = 1%nat /\ In (EvStore f n (c_fn cfg a)) older.
Proof.
  intros W newer c f b older E. pose proof (exec_ok2 cfg own sched W) as T.
  rewrite E in T. apply trace_ok2_split in T. exact (proj2 T).
Qed.

(* `f.join(); x = f;` and every other conversion of a future that is not joinable: the value is the
   return value of the latest start *)
Theorem result_after_join_lemma cfg own sched :
  wf_cfg cfg own ->
  forall newer c i f v older,
    snd (exec cfg sched) = newer ++ EvObs c i (OGet f None v) :: older ->
    forall n a, latest_start older f n a -> v = Some (c_fn cfg a).
Proof.
  intros W newer c i f v older E. pose proof (exec_ok2 cfg own sched W) as T.
  rewrite E in T. apply trace_ok2_split in T. exact T.
Qed.

(* ---------------------------------------------------------------------------------------- *)
(* the code as it was: Signal::set() released the mutex before the broadcast                 *)
(* ---------------------------------------------------------------------------------------- *)
Definition ds_cfg (sigfix : bool) : config :=
  mkConfig 4 0 3 false 1 [[(0, CStart 0 5 0); (1, CGet 0); (2, CDestroy 0)]%nat] (fun a => 7 * a + 3) true sigfix false.

(* thread t runs until it is blocked or [stop] holds *)
Fixpoint run_thread (cfg : config) (s : state) (t : nat) (stop : state -> bool) (fuel : nat) : list move * state :=
  match fuel with
  | O => ([], s)
  | S k => if stop s || blocked s t then ([], s)
           else let s' := fst (step cfg s t false) in
                let '(m, s'') := run_thread cfg s' t stop k in ((t, false) :: m, s'')
  end.

(* the client starts the call and blocks in the conversion; the worker runs the call, stores the
   result, publishes the state, sets the flag of the Future's Signal and stops in front of the
   broadcast; the client's conversion returns, the client destroys the Future *)
Definition ds_sched : list move :=
  let cfg := ds_cfg false in
  let '(m1, s1) := run_thread cfg (init cfg) 0 (fun _ => false) 400 in
  let '(m2, s2) := run_thread cfg s1 1 (fun s => match pc_of s 1 with WBcast _ _ => true | _ => false end) 400 in
  let '(m3, s3) := run_thread cfg s2 0 (fun _ => false) 400 in
  m1 ++ m2 ++ m3.

Definition is_dirty_destroy (e : event) : bool := match e with EvDestroy _ _ false => true | _ => false end.

Lemma ds_wf sigfix : wf_cfg (ds_cfg sigfix) (fun _ => 0%nat).
Proof.
  split; [reflexivity|]. split; [|reflexivity]. intros c f (i & op & Hin & Hop). destruct c as [|c].
  - cbn in Hin |- *.
    repeat (destruct Hin as [E|Hin]; [inversion E; subst; cbn in Hop; inversion Hop; split; [lia|reflexivity]|]).
    contradiction.
  - cbn in Hin. destruct c; contradiction.
Qed.

Lemma ds_dirty : existsb is_dirty_destroy (snd (exec (ds_cfg false) ds_sched)) = true.
Proof. vm_compute. reflexivity. Qed.

(* the same schedule on the repaired code: the run is complete and the destroy is clean *)
Lemma ds_fixed_clean :
  existsb is_dirty_destroy (snd (exec (ds_cfg true) ds_sched)) = false /\
  existsb (fun e => match e with EvDestroy _ _ true => true | _ => false end) (snd (exec (ds_cfg true) ds_sched)) = true.
Proof. vm_compute. split; reflexivity. Qed.

Theorem destructor_waits_refuted_original_lemma :
  exists cfg own sched,
    wf_cfg cfg own /\ c_fixed cfg = true /\ c_sigfix cfg = false /\
    exists c f, In (EvDestroy c f false) (snd (exec cfg sched)).
Proof.
  exists (ds_cfg false), (fun _ => 0%nat), ds_sched. split; [apply ds_wf|]. split; [reflexivity|]. split; [reflexivity|].
  pose proof ds_dirty as H. apply existsb_exists in H as (e & Hin & He).
  destruct e; try discriminate He. destruct clean; [discriminate He|]. exists c, f. exact Hin.
Qed.

(* non-vacuity of result_slot_outlives_execution: start, conversion, delete on the repaired code *)
Fixpoint split_destroy (tr : list event) : option (list event * list event) :=
  match tr with
  | [] => None
  | EvDestroy _ _ _ :: older => Some ([], older)
  | e :: rest => match split_destroy rest with Some (n, o) => Some (e :: n, o) | None => None end
  end.

Lemma ex_result_slot_lemma :
  exists newer c clean older,
    snd (exec (ds_cfg true) ds_sched) = newer ++ EvDestroy c 0 clean :: older /\
    latest_start older 0 1 5 /\ runs older 0 1 = 1%nat /\ In (EvStore 0 1 38) older.
Proof.
  remember (snd (exec (ds_cfg true) ds_sched)) as tr eqn:E. vm_compute in E.
  match type of E with tr = ?l =>
    let r := eval vm_compute in (split_destroy l) in
    match r with Some (?n, ?o) => exists n, 0%nat, true, o end end.
  subst tr. split; [reflexivity|]. split; [|split; [vm_compute; reflexivity|]].
  - split.
    + exists 0%nat, 0%nat. cbn. repeat (first [left; reflexivity | right]).
    + intros c m a' wk' H. cbn in H. repeat (destruct H as [H|H]; [try discriminate; inversion H; lia|]). contradiction.
  - cbn. repeat (first [left; reflexivity | right]).
Qed.

(* non-vacuity of result_after_join: start, join, convert; start again, join, convert *)
Definition rj_cfg : config :=
  mkConfig 2 0 3 false 1 [[(0, CStart 0 5 0); (1, CJoin 0); (2, CGet 0); (3, CStart 0 6 0); (4, CJoin 0); (5, CGet 0)]%nat]
           (fun a => 7 * a + 3) true true false.
Fixpoint rj_auto (cfg : config) (s : state) (fuel : nat) : list move :=
  match fuel with
  | O => []
  | S k => match find (fun t => negb (blocked s t)) (seq 0 (length (st_threads s))) with
           | None => []
           | Some t => (t, false) :: rj_auto cfg (fst (step cfg s t false)) k
           end
  end.
Definition rj_sched : list move := rj_auto rj_cfg (init rj_cfg) 2000.
Lemma rj_example :
  existsb (fun e => match e with EvObs _ 2%nat (OGet 0%nat None (Some 38)) => true | _ => false end) (snd (exec rj_cfg rj_sched)) = true /\
  existsb (fun e => match e with EvObs _ 5%nat (OGet 0%nat None (Some 45)) => true | _ => false end) (snd (exec rj_cfg rj_sched)) = true.
Proof. vm_compute. split; reflexivity. Qed.
