(* C10, liveness (A): the two ring clauses of LInv (claimed tickets are published or being written;
   the slot of a future ticket is free, or its previous lap is still queued or being read). *)
From Coq Require Import ZArith List Bool Lia Arith.
From Coq Require Import ZifyBool ZifyNat.
From Common Require Import ListAux.
From Future Require Import FutureModel FutureRingProofs FutureProofs FutureStep FutureLiveness FutureNested FutureLiveDefs FutureLiveStep FutureLiveCnt FutureLiveWke.
Import ListNotations.
Local Open Scope Z_scope.

Lemma w_pushing_nonneg tk p : 0 <= w_pushing tk p.
Proof. destruct p; cbn [w_pushing]; try lia; case_w; try lia; destruct (_ =? _); lia. Qed.
Lemma w_popping_nonneg tk p : 0 <= w_popping tk p.
Proof. destruct p; cbn [w_popping]; try lia; case_w; try lia; destruct (_ =? _); lia. Qed.

(* a thread writing ticket tk owns the slot: the slot's sequence number is tk *)
Lemma pushing_tail cfg own s tr tk :
  GInv cfg own s tr -> 1 <= wsum (w_pushing tk) s -> s_tail (get_slot (st_ring s) tk) = tk.
Proof.
  intros G H. destruct (wsum_pos_ex (w_pushing tk) s eq_refl H) as (x & Hx & Hw).
  pose proof (g_ring _ _ _ _ G) as RI.
  destruct (pc_of s x) eqn:E; cbn [w_pushing] in Hw; try lia.
  destruct r; try lia; destruct (Z.eqb_spec t tk) as [->|]; try lia;
    pose proof (ri_thr _ _ RI x _ (inflight_of _ _ _ _ E)) as Hr; cbn [rpc_ok] in Hr; tauto.
Qed.

(* a thread reading ticket tk: the ticket is published, the slot's sequence number is tk *)
Lemma popping_tail cfg own s tr tk :
  GInv cfg own s tr -> 1 <= wsum (w_popping tk) s -> s_tail (get_slot (st_ring s) tk) = tk /\ tk < r_head (st_ring s).
Proof.
  intros G H. destruct (wsum_pos_ex (w_popping tk) s eq_refl H) as (x & Hx & Hw).
  pose proof (g_ring _ _ _ _ G) as RI.
  destruct (pc_of s x) eqn:E; cbn [w_popping] in Hw; try lia.
  destruct r; try lia; destruct (Z.eqb_spec h tk) as [->|]; try lia;
    pose proof (ri_thr _ _ RI x _ (inflight_of _ _ _ _ E)) as Hr; cbn [rpc_ok] in Hr; unfold published in Hr; intuition lia.
Qed.

Lemma idx_lap r h : 0 < r_cap r -> idx r (h + r_cap r) = idx r h.
Proof. intro H. unfold idx. f_equal. rewrite <- (Z.mul_1_l (r_cap r)) at 1. apply Z_mod_plus_full. Qed.

Section Rx.
  Variable cfg : config.
  Variable own : nat -> nat.
  Hypothesis Hfix : c_fixed cfg = true.
  Hypothesis Hsig : c_sigfix cfg = true.
  Hypothesis Hnest : c_nested cfg = false.

  Lemma step_rxe s tr t clk s' evs :
    (t < nthreads s)%nat -> GInv cfg own s tr -> LInv cfg s -> step cfg s t clk = (s', evs) -> cl_rxe s'.
  Proof.
    intros Hlt G L Hs. pose proof (l_pc _ _ L t) as Hok.
    pose proof (l_rxe _ _ L) as Hx. unfold cl_rxe in Hx.
    pose proof (g_ring _ _ _ _ G) as RI. pose proof (ri_head _ _ RI) as Hhd.
    split_step cfg s t Hs Hlt Hok Hfix Hsig Hnest; ring_pre constr:(s) constr:(t) Hs G; fin Hs; try (stutter (l_rxe _ _ L)).
    all: leaf_pcs constr:(s) constr:(t) Hlt Epc; unfold cl_rxe; intros tk Htk; norm_rw_ns constr:(s) constr:(t) Hlt Epc; cbn [w_pushing worker_entry t_pc] in *;
         pose proof (wsum_nonneg (w_pushing tk) s (w_pushing_nonneg tk)) as N0;
         pose proof (wsum_member (w_pushing tk) s t (w_pushing_nonneg tk) Hlt) as M0; rewrite Epc in M0; cbn [w_pushing] in M0.
    all: rewrite ?Z.sub_0_r, ?Z.add_0_r; try exact (Hx tk Htk).
    all: try ((pose proof (Hx tk ltac:(lia)) as Hold; lia)).
    (* claims: the slots stay; a push claim adds its own ticket, which the claimer is about to write *)
    all: try (lazymatch goal with Epc : pc_of _ _ = PRing _ (PushCas _ _) |- _ => idtac | Epc : pc_of _ _ = PRing _ (PopCas _) |- _ => idtac end;
              match goal with |- context [get_slot ?R ?T] => change (get_slot R T) with (get_slot (st_ring s) T) end;
              try (destruct (Z.eqb_spec (r_tail (st_ring s)) tk); [right; lia|]);
              pose proof (Hx tk ltac:(lia)) as Hold; lia).
    (* writes that leave the published ticket of every slot alone *)
    all: try (lazymatch goal with Epc : pc_of _ _ = PRing _ (PushWrite _ _) |- _ => idtac | Epc : pc_of _ _ = PRing _ (PopRelease _ _) |- _ => idtac end;
              rewrite s_head_set_slot by (first [apply (ri_cap _ _ RI)|apply (ri_len _ _ RI)|reflexivity]);
              pose proof (Hx tk ltac:(lia)) as Hold; lia).
    (* publish: the ticket becomes visible; no other queued ticket lives in that slot *)
    all: pose proof (ri_thr _ _ RI t _ (inflight_of _ _ _ _ Epc)) as Hr; cbn [rpc_ok] in Hr; destruct Hr as (Hr1 & Hr2 & Hr3 & Hr4 & Hr5);
         rewrite get_set_slot by (first [apply (ri_cap _ _ RI)|apply (ri_len _ _ RI)]);
         destruct (Nat.eqb_spec (idx (st_ring s) tk) (idx (st_ring s) t0)) as [Ei|Ei];
         [ cbn [s_head]; destruct (Z.eq_dec tk t0) as [->|Hne]; [left; reflexivity|];
           exfalso; pose proof (Hx tk ltac:(lia)) as [Hold|Hold];
           [ rewrite (get_slot_same_idx _ _ _ Ei) in Hold;
             destruct (get_slot_in (st_ring s) t0 (ri_cap _ _ RI) (ri_len _ _ RI)) as (i & Hi & Es);
             pose proof (ri_slots _ _ RI i Hi) as Hso; rewrite <- Es in Hso; unfold slot_ok in Hso; lia
           | pose proof (pushing_tail _ _ _ _ _ G Hold) as Hpt; rewrite (get_slot_same_idx _ _ _ Ei) in Hpt; lia ]
         | pose proof (Hx tk ltac:(lia)) as Hold; destruct (Z.eqb_spec t0 tk) as [E0|E0]; [subst; contradiction|lia] ].
  Qed.

  Lemma step_rxd s tr t clk s' evs :
    (t < nthreads s)%nat -> GInv cfg own s tr -> LInv cfg s -> step cfg s t clk = (s', evs) -> cl_rxd s'.
  Proof.
    intros Hlt G L Hs. pose proof (l_pc _ _ L t) as Hok.
    pose proof (l_rxd _ _ L) as Hx. unfold cl_rxd in Hx.
    pose proof (g_ring _ _ _ _ G) as RI. pose proof (ri_head _ _ RI) as Hhd. pose proof (ri_cap _ _ RI) as Hcap.
    split_step cfg s t Hs Hlt Hok Hfix Hsig Hnest; ring_pre constr:(s) constr:(t) Hs G; fin Hs; try (stutter (l_rxd _ _ L)).
    all: leaf_pcs constr:(s) constr:(t) Hlt Epc; unfold cl_rxd; intros u Hu; norm_rw_ns constr:(s) constr:(t) Hlt Epc; cbn [w_popping worker_entry t_pc] in *;
         pose proof (wsum_nonneg (w_popping (u - r_cap (st_ring s))) s (w_popping_nonneg _)) as N0;
         pose proof (wsum_member (w_popping (u - r_cap (st_ring s))) s t (w_popping_nonneg _) Hlt) as M0; rewrite Epc in M0; cbn [w_popping] in M0.
    all: rewrite ?Z.sub_0_r, ?Z.add_0_r; try exact (Hx u Hu).
    all: try ((pose proof (Hx u ltac:(lia)) as Hold; lia)).
    (* claims: the slots stay; a push claim looks one slot further (its previous lap is the claimed ticket),
       a pop claim turns "still queued" into "being read" *)
    all: try (lazymatch goal with Epc : pc_of _ _ = PRing _ (PushCas _ _) |- _ => idtac | Epc : pc_of _ _ = PRing _ (PopCas _) |- _ => idtac end;
              match goal with |- context [get_slot ?R ?T] => change (get_slot R T) with (get_slot (st_ring s) T) end;
              first [ pose proof (Hx u ltac:(lia)) as Hold;
                      repeat match goal with |- context [if ?c then 1 else 0] => destruct c eqn:? end; lia
                    | lia ]).
    (* writes that leave the sequence number of every slot alone *)
    all: try (lazymatch goal with Epc : pc_of _ _ = PRing _ (PushWrite _ _) |- _ => idtac | Epc : pc_of _ _ = PRing _ (PushPublish _ _) |- _ => idtac end;
              rewrite s_tail_set_slot by (first [apply (ri_cap _ _ RI)|apply (ri_len _ _ RI)|reflexivity]);
              pose proof (Hx u ltac:(lia)) as Hold; lia).
    (* release: the slot is free for the ticket one lap later *)
    all: pose proof (ri_thr _ _ RI t _ (inflight_of _ _ _ _ Epc)) as Hr; cbn [rpc_ok] in Hr; destruct Hr as (Hr1 & (Hr2 & Hr3 & _) & _);
         rewrite get_set_slot by (first [apply (ri_cap _ _ RI)|apply (ri_len _ _ RI)]);
         pose proof (Hx u ltac:(lia)) as Hold;
         destruct (Nat.eqb_spec (idx (st_ring s) u) (idx (st_ring s) h)) as [Ei|Ei];
         [ cbn [s_tail]; destruct (Z.eq_dec (u - r_cap (st_ring s)) h) as [Hq|Hq]; [left; lia|];
           rewrite (get_slot_same_idx _ _ _ Ei) in Hold; destruct (Z.eqb_spec h (u - r_cap (st_ring s))); lia
         | destruct (Z.eqb_spec h (u - r_cap (st_ring s))) as [E0|E0]; [|lia];
           exfalso; apply Ei; replace u with (h + r_cap (st_ring s)) by lia; apply idx_lap; exact Hcap ].
  Qed.
End Rx.
