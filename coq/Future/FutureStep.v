(* C10: every step of the interleaving model preserves GInv. *)
From Coq Require Import ZArith List Bool Lia Arith.
From Common Require Import ListAux.
From Future Require Import FutureModel FutureRingProofs FutureProofs.
Import ListNotations.
Local Open Scope Z_scope.

Lemma get_fut_same s s1 f : st_futs s1 = st_futs s -> get_fut s1 f = get_fut s f.
Proof. intro H. unfold get_fut. now rewrite H. Qed.

Lemma get_thread_goto_other s t p x : x <> t -> get_thread (goto s t p) x = get_thread s x.
Proof. intro H. unfold goto, get_thread. cbn [st_threads set_threads]. apply nth_upd_other. congruence. Qed.

Lemma pc_goto_same s t p : (t < nthreads s)%nat -> pc_of (goto s t p) t = p.
Proof. intro H. rewrite pc_goto by exact H. now rewrite Nat.eqb_refl. Qed.

Lemma script_goto_same s t p : (t < nthreads s)%nat -> script_of (goto s t p) t = script_of s t.
Proof. intro H. now apply script_goto. Qed.

(* mention_sub for a plain goto *)
Lemma mention_sub_goto s s1 t p :
  (t < nthreads s1)%nat -> script_of s1 t = script_of s t ->
  (forall f, client_fut p = Some f -> client_fut (pc_of s t) = Some f \/ mentions (script_of s t) f) ->
  mention_sub s (goto s1 t p) t.
Proof.
  intros Ht Hsc H f [Hf|Hf].
  - rewrite pc_goto_same in Hf by exact Ht. auto.
  - rewrite script_goto_same in Hf by exact Ht. rewrite Hsc in Hf. auto.
Qed.

(* s1 is s with untracked fields changed and possibly a shorter script for thread t *)
Definition same_but (s s1 : state) (t : nat) : Prop :=
  st_futs s1 = st_futs s /\ st_ring s1 = st_ring s /\ nthreads s1 = nthreads s /\
  (forall x, x <> t -> get_thread s1 x = get_thread s x) /\
  (forall f, mentions (script_of s1 t) f -> mentions (script_of s t) f).

Lemma same_but_threads s s1 t :
  st_threads s1 = st_threads s -> st_futs s1 = st_futs s -> st_ring s1 = st_ring s -> same_but s s1 t.
Proof.
  intros Ht Hf Hr. repeat split; auto.
  - unfold nthreads. now rewrite Ht.
  - intros x _. unfold get_thread. now rewrite Ht.
  - unfold script_of, get_thread. now rewrite Ht.
Qed.

(* the common shape: s' = goto s1 t p' *)
Lemma ginv_goto cfg own s tr s1 evs t p' :
  GInv cfg own s tr ->
  same_but s s1 t ->
  (t < nthreads s)%nat ->
  non_ring (pc_of s t) -> entry_pc p' ->
  (forall f, client_fut p' = Some f -> client_fut (pc_of s t) = Some f \/ mentions (script_of s t) f) ->
  thread_ok cfg s (evs ++ tr) t p' ->
  forallb neutral evs = true ->
  GInv cfg own (goto s1 t p') (evs ++ tr).
Proof.
  intros G (Hf & Hr & Hn1 & Hx1 & Hm1) Hlt Hnr Hen Hm Hme Hn.
  assert (Hlt1 : (t < nthreads s1)%nat) by now rewrite Hn1.
  apply (ginv_nonring cfg own s tr _ evs t G); auto.
  - intros x Hx. rewrite get_thread_goto_other by exact Hx. auto.
  - now rewrite pc_goto_same.
  - intros f [Hf1|Hf1].
    + rewrite pc_goto_same in Hf1 by exact Hlt1. auto.
    + rewrite script_goto_same in Hf1 by exact Hlt1. auto.
  - now rewrite pc_goto_same.
Qed.

(* a step of thread t (outside push/pop) that rewrites future f *)
Lemma ginv_fut cfg own s tr s1 t f x' p' evs :
  GInv cfg own s tr -> same_but s s1 t -> (t < nthreads s)%nat ->
  non_ring (pc_of s t) -> entry_pc p' -> (f < length (st_futs s))%nat ->
  (forall g, client_fut p' = Some g -> client_fut (pc_of s t) = Some g \/ mentions (script_of s t) g) ->
  (forall x, x <> t -> ph_excl (f_phase (get_fut s f)) t (pc_of s x) f) ->
  (forall tk, f_phase (get_fut s f) <> PhQueued tk) ->
  fut_ok cfg (evs ++ tr) f x' ->
  forallb (neutral_but f) evs = true ->
  thread_ok cfg (goto (put_fut s1 f x') t p') (evs ++ tr) t p' ->
  trace_ok cfg (evs ++ tr) -> starts_fun (evs ++ tr) ->
  GInv cfg own (goto (put_fut s1 f x') t p') (evs ++ tr).
Proof.
  intros G (Hfu & Hr & Hn1 & Hx1 & Hm1) Hlt Hnr Hen Hf Hcf Hex Hq Hfx Hnb Hme Htr Hst.
  set (s' := goto (put_fut s1 f x') t p') in *.
  assert (Hi : incl tr (evs ++ tr)) by apply incl_app_r.
  assert (Hlt1 : (t < nthreads (put_fut s1 f x'))%nat) by (unfold nthreads in *; cbn; exact (eq_ind_r (fun n => (t < n)%nat) Hlt Hn1)).
  assert (Hf1 : (f < length (st_futs s1))%nat) by now rewrite Hfu.
  assert (Hlen : length (st_futs s') = length (st_futs s)).
  { unfold s', goto. cbn [st_futs set_threads]. rewrite nfuts_put. now rewrite Hfu. }
  assert (Hget : forall g, get_fut s' g = if Nat.eqb g f then x' else get_fut s g).
  { intro g. unfold s', goto, get_fut. cbn [st_futs set_threads].
    change (nth g (st_futs (put_fut s1 f x')) fut_init) with (get_fut (put_fut s1 f x') g).
    rewrite get_fut_put by exact Hf1. destruct (Nat.eqb g f); [reflexivity|]. unfold get_fut. now rewrite Hfu. }
  assert (Hgo : forall g, g <> f -> get_fut s' g = get_fut s g).
  { intros g Hg. rewrite Hget. destruct (Nat.eqb_spec g f); [contradiction|reflexivity]. }
  assert (Hring : st_ring s' = st_ring s) by (unfold s'; cbn; exact Hr).
  assert (Hpc : forall x, x <> t -> get_thread s' x = get_thread s x).
  { intros x Hx. unfold s'. rewrite get_thread_goto_other' by exact Hx.
    transitivity (get_thread s1 x); [reflexivity|auto]. }
  assert (Hpct : pc_of s' t = p') by (unfold s'; rewrite pc_goto by exact Hlt1; now rewrite Nat.eqb_refl).
  constructor.
  - rewrite Hring. apply (rinv_pointwise _ (inflight s)); [apply (g_ring _ _ _ _ G)|].
    intro x. destruct (Nat.eq_dec x t) as [->|E].
    + rewrite (inflight_non_ring s t Hnr). unfold inflight. rewrite Hpct. unfold entry_pc in Hen.
      destruct p'; auto. right. right. eauto.
    + left. unfold inflight, pc_of. now rewrite Hpc.
  - rewrite Hlen. apply (g_nfut _ _ _ _ G).
  - intros x g Hxg. apply (g_own _ _ _ _ G). destruct (Nat.eq_dec x t) as [->|E].
    + destruct Hxg as [H|H].
      * rewrite Hpct in H. auto.
      * right. apply Hm1. unfold s' in H. rewrite script_goto in H by exact Hlt1. exact H.
    + unfold pc_of, script_of in *. rewrite Hpc in Hxg by exact E. exact Hxg.
  - intro x. destruct (Nat.eq_dec x t) as [->|E]; [rewrite Hpct; exact Hme|].
    replace (pc_of s' x) with (pc_of s x) by (unfold pc_of; now rewrite Hpc).
    eapply (thread_ok_other cfg s tr s' (evs ++ tr) x _ f t); eauto.
    + apply logv_compat_log. now rewrite Hring.
    + apply (g_fut _ _ _ _ G f Hf).
    + apply (g_thr _ _ _ _ G x).
  - intros g Hg. rewrite Hlen in Hg. rewrite Hget. destruct (Nat.eqb_spec g f) as [->|E]; [exact Hfx|].
    apply (fut_ok_frame_other cfg tr evs f g); auto. apply (g_fut _ _ _ _ G g Hg).
  - intros tk Htk. rewrite Hring in *. pose proof (g_tick _ _ _ _ G tk Htk) as J.
    eapply job_ok_put; eauto.
    intro E. apply (Hq tk). eapply job_ok_fut; eauto.
  - exact Htr.
  - exact Hst.
Qed.

Lemma runs_cons e tr f n : runs (e :: tr) f n = ((if is_run f n e then 1 else 0) + runs tr f n)%nat.
Proof. unfold runs. cbn [filter]. destruct (is_run f n e); reflexivity. Qed.

Lemma starts_fun_cons e tr : (forall c f m a wk, e <> EvStart c f m a wk) -> starts_fun tr -> starts_fun (e :: tr).
Proof.
  intros He Hs c c' f m a a' wk wk' [H1|H1] [H2|H2]; try (exfalso; eapply He; eauto; fail).
  eapply Hs; eauto.
Qed.

Lemma same_but_refl s t : same_but s s t.
Proof. apply same_but_threads; reflexivity. Qed.

Lemma step_wcall cfg own s tr t f n arg work :
  GInv cfg own s tr -> (t < nthreads s)%nat -> pc_of s t = WCall f n arg work ->
  GInv cfg own (goto (put_fut s f (fut_phase (get_fut s f) (PhRan t))) t (WStore f n (c_fn cfg arg)))
       ([EvRun t f n arg] ++ tr).
Proof.
  intros G Hlt Epc. pose proof (g_thr _ _ _ _ G t) as Hme. rewrite Epc in Hme. cbn [thread_ok job_ok] in Hme.
  destruct Hme as (Hf & Hph & Hser & Hst).
  pose proof (g_fut _ _ _ _ G f Hf) as (F1 & F2 & F3 & F4 & F5 & F6).
  apply (ginv_fut cfg own s tr s t f _ _ _ G (same_but_refl s t) Hlt); auto.
  - rewrite Epc; exact Logic.I.
  - exact Logic.I.
  - cbn. discriminate.
  - intros x Hx. rewrite Hph. reflexivity.
  - intros tk. rewrite Hph. discriminate.
  - (* fut_ok *)
    unfold fut_ok. cbn [fut_phase f_joinable f_sig f_phase f_serial f_state f_result f_aborting app].
    rewrite Hph in *. cbn [is_idle is_signalled ran_b done_b] in *.
    split; [exact F1|]. split; [exact F2|]. split.
    { intros m Hm. rewrite runs_cons. cbn [is_run]. rewrite Nat.eqb_refl. cbn [andb].
      rewrite F3 by exact Hm. rewrite Hser.
      destruct (Nat.eqb_spec n m) as [->|E].
      - rewrite Nat.ltb_irrefl, Nat.eqb_refl. reflexivity.
      - destruct (m <? n)%nat; [reflexivity|]. destruct (Nat.eqb_spec m n); [congruence|reflexivity]. }
    split; [discriminate|]. split.
    { intro Ha. destruct (F5 Ha) as [c Hc]. exists c. right. exact Hc. }
    intros c m a wk [H|H]; [discriminate|eauto].
  - cbn. now rewrite Nat.eqb_refl.
  - (* thread_ok of the new pc *)
    cbn [thread_ok]. unfold exec_ok.
    assert (Hf1 : (f < length (st_futs s))%nat) by exact Hf.
    assert (E : get_fut (goto (put_fut s f (fut_phase (get_fut s f) (PhRan t))) t (WStore f n (c_fn cfg arg))) f
                = fut_phase (get_fut s f) (PhRan t)).
    { unfold goto, get_fut. cbn [st_futs set_threads].
      change (nth f (st_futs (put_fut s f ?y)) fut_init) with (get_fut (put_fut s f y) f).
      rewrite get_fut_put by exact Hf1. now rewrite Nat.eqb_refl. }
    rewrite E. cbn [fut_phase f_phase f_serial f_result].
    split. { unfold goto. cbn [st_futs set_threads]. rewrite nfuts_put. exact Hf. }
    split; [reflexivity|]. split; [exact Hser|].
    destruct Hst as [c Hc]. exists arg, work, t. repeat split.
    + exists c. right. exact Hc.
    + left. reflexivity.
    + intros v Hv. now inversion Hv.
    + discriminate.
    + discriminate.
    + discriminate.
  - cbn [app trace_ok ev_ok]. split; [|apply (g_trace _ _ _ _ G)]. exists work. exact Hst.
  - apply starts_fun_cons; [discriminate|apply (g_starts _ _ _ _ G)].
Qed.

Lemma get_fut_goto_put s1 f y t p g : (f < length (st_futs s1))%nat ->
  get_fut (goto (put_fut s1 f y) t p) g = if Nat.eqb g f then y else get_fut s1 g.
Proof.
  intro Hf. unfold goto, get_fut. cbn [st_futs set_threads].
  change (nth g (st_futs (put_fut s1 f y)) fut_init) with (get_fut (put_fut s1 f y) g).
  now rewrite get_fut_put by exact Hf.
Qed.

Lemma nfuts_goto_put s1 f y t p : length (st_futs (goto (put_fut s1 f y) t p)) = length (st_futs s1).
Proof. unfold goto. cbn [st_futs set_threads]. apply nfuts_put. Qed.

Lemma get_fut_oob s f : ~ (f < length (st_futs s))%nat -> get_fut s f = fut_init.
Proof. intro H. unfold get_fut. apply nth_overflow. lia. Qed.

Lemma phase_of_sig ph : true = is_signalled ph -> ph = PhSignalled.
Proof. destruct ph; cbn; congruence. Qed.
Lemma phase_of_idle ph : false = negb (is_idle ph) -> ph = PhIdle.
Proof. destruct ph; cbn; congruence. Qed.

Lemma step_wstore cfg own s tr t f n v :
  GInv cfg own s tr -> (t < nthreads s)%nat -> pc_of s t = WStore f n v ->
  GInv cfg own (goto (put_fut s f (fut_result (get_fut s f) (Some v))) t (WRdAbort f n))
       ([EvStore f n v] ++ tr).
Proof.
  intros G Hlt Epc. pose proof (g_thr _ _ _ _ G t) as Hme. rewrite Epc in Hme. cbn [thread_ok] in Hme.
  destruct Hme as (Hf & Hph & Hser & a & wk & w & Hst & Hrun & Hv & _ & _).
  pose proof (g_fut _ _ _ _ G f Hf) as (F1 & F2 & F3 & F4 & F5 & F6).
  specialize (Hv v eq_refl). subst v.
  apply (ginv_fut cfg own s tr s t f _ _ _ G (same_but_refl s t) Hlt); auto.
  - rewrite Epc; exact Logic.I.
  - exact Logic.I.
  - cbn. discriminate.
  - intros x Hx. rewrite Hph. reflexivity.
  - intros tk. rewrite Hph. discriminate.
  - unfold fut_ok. cbn [fut_result f_joinable f_sig f_phase f_serial f_state f_result f_aborting app].
    rewrite Hph in *. cbn [is_idle is_signalled ran_b done_b] in *.
    split; [exact F1|]. split; [exact F2|]. split.
    { intros m Hm. rewrite runs_cons. cbn [is_run Nat.add]. apply F3; exact Hm. }
    split; [discriminate|]. split.
    { intro Ha. destruct (F5 Ha) as [c Hc]. exists c. right. exact Hc. }
    intros c m a0 wk0 [H|H]; [discriminate|eauto].
  - cbn [thread_ok]. unfold exec_ok. rewrite get_fut_goto_put by exact Hf. rewrite Nat.eqb_refl.
    rewrite nfuts_goto_put. cbn [fut_result f_phase f_serial f_result].
    split; [exact Hf|]. split; [exact Hph|]. split; [exact Hser|].
    destruct Hst as [c Hc]. exists a, wk, w. repeat split.
    + exists c. right. exact Hc.
    + right. exact Hrun.
    + discriminate.
    + left. reflexivity.
    + discriminate.
  - cbn [app trace_ok ev_ok]. split; [exact Logic.I|apply (g_trace _ _ _ _ G)].
  - apply starts_fun_cons; [discriminate|apply (g_starts _ _ _ _ G)].
Qed.

Lemma step_wswap cfg own s tr t f n ab :
  GInv cfg own s tr -> (t < nthreads s)%nat -> pc_of s t = WSwap f n ab ->
  GInv cfg own (goto (put_fut s f (fut_phase (fut_state (get_fut s f) (if ab then StAborted else StFinished)) (PhCompleted t))) t (WSigSet f n))
       ([EvComplete f n ab] ++ tr).
Proof.
  intros G Hlt Epc. pose proof (g_thr _ _ _ _ G t) as Hme. rewrite Epc in Hme. cbn [thread_ok] in Hme.
  destruct Hme as (Hf & Hph & Hser & a & wk & w & Hst & Hrun & _ & Hsto & Hab).
  destruct (Hsto eq_refl) as [Hres Hstore].
  pose proof (g_fut _ _ _ _ G f Hf) as (F1 & F2 & F3 & F4 & F5 & F6).
  apply (ginv_fut cfg own s tr s t f _ _ _ G (same_but_refl s t) Hlt); auto.
  - rewrite Epc; exact Logic.I.
  - exact Logic.I.
  - cbn. discriminate.
  - intros x Hx. rewrite Hph. reflexivity.
  - intros tk. rewrite Hph. discriminate.
  - unfold fut_ok. cbn [fut_phase fut_state f_joinable f_sig f_phase f_serial f_state f_result f_aborting app].
    rewrite Hph in *. cbn [is_idle is_signalled ran_b done_b] in *.
    split; [exact F1|]. split; [exact F2|]. split.
    { intros m Hm. rewrite runs_cons. cbn [is_run Nat.add]. apply F3; exact Hm. }
    split.
    { intros _. destruct Hst as [c Hc]. exists ab, a, wk, w. repeat split; auto.
      - left. rewrite Hser. reflexivity.
      - intro E. subst ab. destruct (Hab eq_refl) as [c0 Hc0]. exists c0. right. now rewrite Hser.
      - exists c. right. now rewrite Hser.
      - right. now rewrite Hser.
      - right. now rewrite Hser. }
    split.
    { intro Ha. destruct (F5 Ha) as [c Hc]. exists c. right. exact Hc. }
    intros c m a0 wk0 [H|H]; [discriminate|eauto].
  - cbn [thread_ok]. unfold exec_ok. rewrite get_fut_goto_put by exact Hf. rewrite Nat.eqb_refl.
    rewrite nfuts_goto_put. cbn [fut_phase fut_state f_phase f_serial f_result].
    split; [exact Hf|]. split; [reflexivity|]. split; [exact Hser|].
    destruct Hst as [c Hc]. exists a, wk, w. repeat split.
    + exists c. right. exact Hc.
    + right. exact Hrun.
    + discriminate.
    + exact Hres.
    + right. exact Hstore.
    + discriminate.
  - cbn [app trace_ok ev_ok]. split; [exact Logic.I|apply (g_trace _ _ _ _ G)].
  - apply starts_fun_cons; [discriminate|apply (g_starts _ _ _ _ G)].
Qed.

Lemma step_wsigset cfg own s tr t f n :
  GInv cfg own s tr -> (t < nthreads s)%nat -> pc_of s t = WSigSet f n ->
  GInv cfg own (goto (put_fut s f (fut_phase (fut_sig (get_fut s f) true) PhSignalled)) t
                     (if c_sigfix cfg then WIncProc else WBcast f n))
       ([EvSigSet f n] ++ tr).
Proof.
  intros G Hlt Epc. pose proof (g_thr _ _ _ _ G t) as Hme. rewrite Epc in Hme. cbn [thread_ok] in Hme.
  destruct Hme as (Hf & Hph & Hser & _).
  pose proof (g_fut _ _ _ _ G f Hf) as (F1 & F2 & F3 & F4 & F5 & F6).
  apply (ginv_fut cfg own s tr s t f _ _ _ G (same_but_refl s t) Hlt); auto.
  - rewrite Epc; exact Logic.I.
  - destruct (c_sigfix cfg); exact Logic.I.
  - destruct (c_sigfix cfg); cbn; discriminate.
  - intros x Hx. rewrite Hph. reflexivity.
  - intros tk. rewrite Hph. discriminate.
  - unfold fut_ok. cbn [fut_phase fut_sig f_joinable f_sig f_phase f_serial f_state f_result f_aborting app].
    rewrite Hph in *. cbn [is_idle is_signalled ran_b done_b] in *.
    split; [exact F1|]. split; [reflexivity|]. split.
    { intros m Hm. rewrite runs_cons. cbn [is_run Nat.add]. apply F3; exact Hm. }
    split.
    { intros _. destruct (F4 eq_refl) as (ab & a & wk & w & D1 & D2 & D3 & D4 & D5 & D6 & D7).
      exists ab, a, wk, w. repeat split; auto.
      - right; auto.
      - intro E. destruct (D3 E) as [c Hc]. exists c. right; auto.
      - destruct D4 as [c Hc]. exists c. right; auto.
      - right; auto.
      - right; auto. }
    split.
    { intro Ha. destruct (F5 Ha) as [c Hc]. exists c. right. exact Hc. }
    intros c m a0 wk0 [H|H]; [discriminate|eauto].
  - destruct (c_sigfix cfg) eqn:Esf; cbn [thread_ok]; [exact Logic.I|exact Esf].
  - cbn [app trace_ok ev_ok]. split; [exact Logic.I|apply (g_trace _ _ _ _ G)].
  - apply starts_fun_cons; [discriminate|apply (g_starts _ _ _ _ G)].
Qed.

Lemma own_excl cfg own s tr t f :
  GInv cfg own s tr -> client_fut (pc_of s t) = Some f ->
  forall x, x <> t -> client_fut (pc_of s x) = Some f -> False.
Proof.
  intros G Ht x Hx Hc.
  destruct (g_own _ _ _ _ G t f (or_introl Ht)) as [_ E1].
  destruct (g_own _ _ _ _ G x f (or_introl Hc)) as [_ E2]. congruence.
Qed.

Lemma step_cstartset cfg own s tr t f arg work :
  GInv cfg own s tr -> (t < nthreads s)%nat -> pc_of s t = CStartSet f arg work ->
  let x := get_fut s f in
  let n := S (f_serial x) in
  let j := JCall f n arg work in
  GInv cfg own
       (goto (put_fut s f (mkFut (f_sig x) false (f_state x) true (f_result x) n PhStarted)) t
             (PRing (KRunPush1 j) (PushRdTail j)))
       ([EvObs t (t_cur (get_thread s t)) (OStart f n); EvStart t f n arg work] ++ tr).
Proof.
  intros G Hlt Epc x n j. pose proof (g_thr _ _ _ _ G t) as Hme. rewrite Epc in Hme. cbn [thread_ok] in Hme.
  assert (Hcf : client_fut (pc_of s t) = Some f) by (rewrite Epc; reflexivity).
  assert (Hf : (f < length (st_futs s))%nat).
  { rewrite (g_nfut _ _ _ _ G). apply (g_own _ _ _ _ G t f). now left. }
  pose proof (g_fut _ _ _ _ G f Hf) as (F1 & F2 & F3 & F4 & F5 & F6).
  fold x in Hme, F1, F2, F3, F4, F5, F6.
  assert (Hph : f_phase x = PhIdle) by (apply phase_of_idle; now rewrite <- F1).
  apply (ginv_fut cfg own s tr s t f _ _ _ G (same_but_refl s t) Hlt); auto.
  - rewrite Epc; exact Logic.I.
  - cbn. right. eexists; reflexivity.
  - cbn. intros g E. inversion E; subst. auto.
  - intros y Hy. fold x. rewrite Hph. cbn. eapply own_excl; eauto.
  - intros tk. fold x. rewrite Hph. discriminate.
  - unfold fut_ok. cbn [f_joinable f_sig f_phase f_serial f_state f_result f_aborting app].
    rewrite Hph in *. cbn [is_idle is_signalled ran_b done_b negb] in *.
    split; [reflexivity|]. split; [exact F2|]. split.
    { intros m Hm. rewrite !runs_cons. cbn [is_run Nat.add]. rewrite F3 by exact Hm. unfold n.
      destruct (Nat.ltb_spec m (f_serial x)); destruct (Nat.ltb_spec m (S (f_serial x)));
        destruct (Nat.eqb_spec m (f_serial x)); destruct (Nat.eqb_spec m (S (f_serial x))); try lia; auto. }
    split; [discriminate|]. split; [discriminate|].
    intros c m a wk [H|[H|H]]; [discriminate| |].
    + inversion H; subst. unfold n. lia.
    + specialize (F6 c m a wk H). unfold n. lia.
  - cbn. now rewrite Nat.eqb_refl.
  - subst j. cbn [thread_ok job_ok]. rewrite get_fut_goto_put by exact Hf. rewrite Nat.eqb_refl. rewrite nfuts_goto_put.
    cbn [f_phase f_serial]. split; [|reflexivity]. repeat split; auto. exists t. right. left. reflexivity.
  - cbn [app trace_ok ev_ok]. split; [exact Logic.I|]. split; [|apply (g_trace _ _ _ _ G)].
    rewrite <- (g_nfut _ _ _ _ G). exact Hf.
  - apply starts_fun_cons; [discriminate|].
    intros c c' f0 m a a' wk wk' [H1|H1] [H2|H2].
    + inversion H1; inversion H2; subst; auto.
    + inversion H1; subst. specialize (F6 _ _ _ _ H2). unfold n in *. lia.
    + inversion H2; subst. specialize (F6 _ _ _ _ H1). unfold n in *. lia.
    + eapply (g_starts _ _ _ _ G); eauto.
Qed.

Definition join_obs (t f n : nat) (res : option Z) (e : event) : Prop :=
  exists i, e = EvObs t i (OJoin f (Some n)) \/ e = EvObs t i (OGet f (Some n) res) \/
            e = EvObs t i (ODestroy f (Some n)) \/ exists b, e = EvDestroy t f b.

Lemma step_cjoinreset cfg own s tr t f a p' evs2 :
  GInv cfg own s tr -> (t < nthreads s)%nat -> pc_of s t = CJoinReset f a ->
  let x := get_fut s f in
  (p' = PIdle \/ exists arg work, p' = CStartSet f arg work) ->
  (forall e, In e evs2 -> join_obs t f (f_serial x) (f_result x) e) ->
  GInv cfg own
       (goto (put_fut s f (mkFut false (f_aborting x) (f_state x) false (f_result x) (f_serial x) PhIdle)) t p')
       ((evs2 ++ [EvJoinRet t f (f_serial x)]) ++ tr).
Proof.
  intros G Hlt Epc x Hp' Hev. pose proof (g_thr _ _ _ _ G t) as Hme. rewrite Epc in Hme. cbn [thread_ok] in Hme.
  assert (Hcf : client_fut (pc_of s t) = Some f) by (rewrite Epc; reflexivity).
  assert (Hf : (f < length (st_futs s))%nat).
  { rewrite (g_nfut _ _ _ _ G). apply (g_own _ _ _ _ G t f). now left. }
  pose proof (g_fut _ _ _ _ G f Hf) as (F1 & F2 & F3 & F4 & F5 & F6).
  fold x in Hme, F1, F2, F3, F4, F5, F6.
  assert (Hph : f_phase x = PhSignalled) by (apply phase_of_sig; now rewrite <- F2).
  rewrite Hph in *. cbn [is_idle is_signalled ran_b done_b negb] in *.
  destruct (F4 eq_refl) as (ab & a0 & wk & w & D1 & D2 & D3 & D4 & D5 & D6 & D7).
  assert (Hn1 : (1 <= f_serial x)%nat) by (destruct D4 as [c Hc]; apply (F6 _ _ _ _ Hc)).
  assert (Hneu : forall e, In e (evs2 ++ [EvJoinRet t f (f_serial x)]) ->
                           (forall w m a, e <> EvRun w f m a) /\ (forall c g m a wk, e <> EvStart c g m a wk) /\
                           (forall w g m a, e <> EvRun w g m a)).
  { intros e He. apply in_app_or in He as [He|[<-|[]]].
    - destruct (Hev e He) as [i [->|[->|[->|[b ->]]]]]; repeat split; discriminate.
    - repeat split; discriminate. }
  assert (Hruns : forall g m, runs ((evs2 ++ [EvJoinRet t f (f_serial x)]) ++ tr) g m = runs tr g m).
  { intros g m. induction (evs2 ++ [EvJoinRet t f (f_serial x)]) as [|e l IH]; [reflexivity|].
    cbn [app]. rewrite runs_cons. rewrite IH by (intros; apply Hneu; now right).
    destruct (Hneu e (or_introl eq_refl)) as (_ & _ & N). destruct e; try reflexivity. exfalso. eapply N; eauto. }
  assert (Hi : incl tr ((evs2 ++ [EvJoinRet t f (f_serial x)]) ++ tr)) by apply incl_app_r.
  assert (Hstarts : forall c g m a wk, In (EvStart c g m a wk) ((evs2 ++ [EvJoinRet t f (f_serial x)]) ++ tr) ->
                                       In (EvStart c g m a wk) tr).
  { intros c g m a1 wk1 H. apply in_app_or in H as [H|H]; [|exact H]. exfalso.
    destruct (Hneu _ H) as (_ & N & _). eapply N; eauto. }
  apply (ginv_fut cfg own s tr s t f _ _ _ G (same_but_refl s t) Hlt); auto.
  - rewrite Epc; exact Logic.I.
  - destruct Hp' as [->|(arg & work & ->)]; exact Logic.I.
  - destruct Hp' as [->|(arg & work & ->)]; cbn; [discriminate|]. intros g E. inversion E; subst. auto.
  - intros y Hy. fold x. rewrite Hph. cbn. eapply own_excl; eauto.
  - intros tk. fold x. rewrite Hph. discriminate.
  - unfold fut_ok. cbn [f_joinable f_sig f_phase f_serial f_state f_result f_aborting].
    cbn [is_idle is_signalled ran_b done_b negb].
    split; [reflexivity|]. split; [reflexivity|]. split.
    { intros m Hm. rewrite Hruns. apply F3. exact Hm. }
    split.
    { intros _. exists ab, a0, wk, w. repeat split; auto.
      - intro E. destruct (D3 E) as [c Hc]. exists c. auto.
      - destruct D4 as [c Hc]. exists c. auto. }
    split.
    { intro Ha. destruct (F5 Ha) as [c Hc]. exists c. auto. }
    intros c m a1 wk1 H. apply (F6 c m a1 wk1). now apply Hstarts.
  - (* neutral_but *)
    apply forallb_forall. intros e He. destruct (Hneu e He) as (_ & N1 & N2).
    destruct e; try reflexivity; exfalso; [eapply N1|eapply N2]; eauto.
  - destruct Hp' as [->|(arg & work & ->)]; cbn [thread_ok]; [exact Logic.I|].
    rewrite get_fut_goto_put by exact Hf. now rewrite Nat.eqb_refl.
  - (* trace_ok *)
    assert (J : joined_ok cfg tr f (f_serial x)).
    { split.
      - rewrite F3 by exact Hn1. rewrite Nat.ltb_irrefl, Nat.eqb_refl. reflexivity.
      - exists ab, a0, wk, w. auto. }
    assert (T0 : trace_ok cfg ([EvJoinRet t f (f_serial x)] ++ tr)).
    { cbn [app trace_ok ev_ok]. split; [exact J|apply (g_trace _ _ _ _ G)]. }
    rewrite <- app_assoc. revert Hev. clear - T0 D4 D5. induction evs2 as [|e l IH]; intro Hev; [exact T0|].
    cbn [app trace_ok]. split; [|apply IH; intros; apply Hev; now right].
    destruct (Hev e (or_introl eq_refl)) as [i [->|[->|[->|[b ->]]]]]; cbn [ev_ok]; try exact Logic.I.
    exists a0, wk. split; [|exact D5].
    eapply started_mono; [|exact D4]. intros y Hy. apply in_or_app. right. right. exact Hy.
  - intros c c' g m a1 a1' wk1 wk1' H1 H2. eapply (g_starts _ _ _ _ G); eauto.
Qed.

Lemma get_thread_spawn s th x :
  get_thread (set_threads s (st_threads s ++ [th])) x =
  if (x <? nthreads s)%nat then get_thread s x else if Nat.eqb x (nthreads s) then th else dthread.
Proof.
  unfold get_thread, nthreads. cbn [st_threads set_threads].
  destruct (Nat.ltb_spec x (length (st_threads s))).
  - now apply app_nth1.
  - rewrite app_nth2 by lia. destruct (Nat.eqb_spec x (length (st_threads s))) as [->|E].
    + now rewrite Nat.sub_diag.
    + destruct (x - length (st_threads s))%nat as [|[|k]] eqn:Ek; try lia; reflexivity.
Qed.

Lemma step_cspawn cfg own s tr t :
  GInv cfg own s tr -> (t < nthreads s)%nat -> pc_of s t = CSpawn ->
  GInv cfg own (goto (set_threads s (st_threads s ++ [mkThread worker_entry [] 0%nat])) t PIdle)
       ([EvSpawn t (length (st_threads s))] ++ tr).
Proof.
  intros G Hlt Epc.
  set (s2 := set_threads s (st_threads s ++ [mkThread worker_entry [] 0%nat])).
  assert (Hlt2 : (t < nthreads s2)%nat).
  { unfold nthreads, s2. cbn [st_threads set_threads]. rewrite app_length. cbn. unfold nthreads in Hlt. lia. }
  assert (Hoth : forall x, x <> t -> get_thread (goto s2 t PIdle) x =
                                   if (x <? nthreads s)%nat then get_thread s x
                                   else if Nat.eqb x (nthreads s) then mkThread worker_entry [] 0%nat else dthread).
  { intros x Hx. rewrite get_thread_goto_other by exact Hx. apply get_thread_spawn. }
  assert (Hdef : forall x, ~ (x < nthreads s)%nat -> get_thread s x = dthread).
  { intros x Hx. unfold get_thread. apply nth_overflow. unfold nthreads in Hx. lia. }
  apply (ginv_frame cfg own s tr _ _ t G); try reflexivity.
  - change (st_ring (goto s2 t PIdle)) with (st_ring s).
    apply (rinv_pointwise _ (inflight s)); [apply (g_ring _ _ _ _ G)|].
    intro x. destruct (Nat.eq_dec x t) as [->|E].
    + right. left. unfold inflight. now rewrite pc_goto_same.
    + unfold inflight, pc_of. rewrite Hoth by exact E.
      destruct (Nat.ltb_spec x (nthreads s)); [now left|].
      destruct (Nat.eqb_spec x (nthreads s)).
      * right. right. eexists. split; [reflexivity|]. left. reflexivity.
      * left. now rewrite Hdef by lia.
  - intros x E. unfold pc_of, script_of. rewrite Hoth by exact E.
    destruct (Nat.ltb_spec x (nthreads s)); [now left|].
    destruct (Nat.eqb_spec x (nthreads s)); [now right|].
    left. now rewrite Hdef by lia.
  - intros f [H|H].
    + rewrite pc_goto_same in H by exact Hlt2. discriminate.
    + rewrite script_goto_same in H by exact Hlt2. right.
      unfold script_of in *. unfold s2 in H. rewrite get_thread_spawn in H.
      destruct (Nat.ltb_spec t (nthreads s)); [exact H|lia].
  - rewrite pc_goto_same by exact Hlt2. exact Logic.I.
Qed.

(* CAbort: only the _aborting flag of f changes; no clause of any thread reads it *)
Definition fut_eqv (x y : fut) : Prop :=
  f_phase x = f_phase y /\ f_serial x = f_serial y /\ f_result x = f_result y /\
  f_joinable x = f_joinable y /\ f_sig x = f_sig y.

Lemma thread_ok_soft cfg s tr s' tr' x p :
  length (st_futs s') = length (st_futs s) ->
  (forall g, fut_eqv (get_fut s' g) (get_fut s g)) ->
  r_log (st_ring s') = r_log (st_ring s) -> incl tr tr' ->
  thread_ok cfg s tr x p -> thread_ok cfg s' tr' x p.
Proof.
  intros Hl Hg Hlog Hi H.
  assert (J : forall ph j, job_ok ph s tr j -> job_ok ph s' tr' j).
  { intros ph [|f n a wk]; cbn [job_ok]; auto. destruct (Hg f) as (E1 & E2 & _). rewrite Hl, E1, E2.
    intros (A & B & C & D). repeat split; auto. eapply started_mono; eauto. }
  assert (E : forall ph f n v st ab, exec_ok cfg ph s tr f n v st ab -> exec_ok cfg ph s' tr' f n v st ab).
  { intros ph f n v st ab. unfold exec_ok. destruct (Hg f) as (E1 & E2 & E3 & _). rewrite Hl, E1, E2, E3.
    intros (A & B & C & a & wk & w & D1 & D2 & D3 & D4 & D5). repeat split; auto.
    exists a, wk, w. repeat split; auto.
    - eapply started_mono; eauto.
    - apply D4; auto.
    - apply Hi. apply D4; auto.
    - intro E. destruct (D5 E) as [c Hc]. exists c. auto. }
  destruct p; cbn [thread_ok] in *; auto.
  - destruct r; auto.
    + destruct H; split; auto.
    + destruct H; split; auto.
    + destruct H; split; auto.
    + unfold logv in *. rewrite Hlog. auto.
  - destruct k; auto.
  - destruct (Hg f) as (_ & _ & _ & _ & E5). now rewrite E5.
  - destruct (Hg f) as (_ & _ & _ & E4 & _). now rewrite E4.
Qed.

Lemma same_but_pop s t i op rest :
  script_of s t = (i, op) :: rest ->
  same_but s (set_threads s (upd t (mkThread PIdle rest i) (st_threads s))) t.
Proof.
  intro Hsc. repeat split.
  - unfold nthreads. cbn. apply upd_length.
  - intros x Hx. unfold get_thread. cbn [st_threads set_threads]. apply nth_upd_other. congruence.
  - intros f (i0 & op0 & Hin & Hop). exists i0, op0. split; [|exact Hop]. rewrite Hsc. right.
    unfold script_of, get_thread in Hin. cbn [st_threads set_threads] in Hin.
    destruct (Nat.lt_ge_cases t (length (st_threads s))) as [L|L].
    + rewrite nth_upd_same in Hin by exact L. exact Hin.
    + rewrite nth_overflow in Hin by (rewrite upd_length; lia). contradiction.
Qed.

Lemma step_cabort cfg own s tr s1 t f i :
  GInv cfg own s tr -> same_but s s1 t -> (t < nthreads s)%nat ->
  pc_of s t = PIdle -> pc_of s1 t = PIdle -> mentions (script_of s t) f ->
  GInv cfg own (put_fut s1 f (fut_aborting (get_fut s1 f) true))
       ([EvObs t i (OAbort f (f_serial (get_fut s1 f))); EvAbort t f (f_serial (get_fut s1 f))] ++ tr).
Proof.
  intros G (Hfu & Hr & Hn1 & Hx1 & Hm1) Hlt Epc Epc1 Hmen.
  assert (Hf : (f < length (st_futs s))%nat).
  { rewrite (g_nfut _ _ _ _ G). apply (g_own _ _ _ _ G t f). now right. }
  assert (Hf1 : (f < length (st_futs s1))%nat) by now rewrite Hfu.
  rewrite (get_fut_same s s1 f Hfu).
  set (x := get_fut s f). set (s' := put_fut s1 f (fut_aborting x true)).
  set (evs := [EvObs t i (OAbort f (f_serial x)); EvAbort t f (f_serial x)]).
  assert (Hi : incl tr (evs ++ tr)) by apply incl_app_r.
  assert (Hget : forall g, get_fut s' g = if Nat.eqb g f then fut_aborting x true else get_fut s g).
  { intro g. unfold s'. rewrite get_fut_put by exact Hf1. destruct (Nat.eqb g f); [reflexivity|].
    apply get_fut_same. exact Hfu. }
  assert (Hlen : length (st_futs s') = length (st_futs s)) by (unfold s'; rewrite nfuts_put; now rewrite Hfu).
  assert (Heqv : forall g, fut_eqv (get_fut s' g) (get_fut s g)).
  { intro g. rewrite Hget. destruct (Nat.eqb_spec g f) as [->|]; repeat split; reflexivity. }
  assert (Hthr : forall y, get_thread s' y = get_thread s1 y) by reflexivity.
  assert (Hneu : forallb neutral evs = true) by reflexivity.
  constructor.
  - change (st_ring s') with (st_ring s1). rewrite Hr.
    apply (rinv_pointwise _ (inflight s)); [apply (g_ring _ _ _ _ G)|].
    intro y. destruct (Nat.eq_dec y t) as [->|E].
    + right. left. unfold inflight, pc_of. rewrite Hthr. fold (pc_of s1 t). now rewrite Epc1.
    + left. unfold inflight, pc_of. rewrite Hthr. now rewrite Hx1.
  - rewrite Hlen. apply (g_nfut _ _ _ _ G).
  - intros y g Hyg. apply (g_own _ _ _ _ G). unfold pc_of, script_of in Hyg |- *. rewrite !Hthr in Hyg.
    destruct (Nat.eq_dec y t) as [->|E].
    + destruct Hyg as [H|H].
      * fold (pc_of s1 t) in H. rewrite Epc1 in H. discriminate.
      * right. apply Hm1. exact H.
    + rewrite Hx1 in Hyg by exact E. exact Hyg.
  - intro y. replace (pc_of s' y) with (if Nat.eqb y t then PIdle else pc_of s y).
    + destruct (Nat.eqb y t); [exact Logic.I|].
      eapply thread_ok_soft; eauto. { change (st_ring s') with (st_ring s1). now rewrite Hr. } apply (g_thr _ _ _ _ G).
    + unfold pc_of. rewrite Hthr. destruct (Nat.eqb_spec y t) as [->|E]; [symmetry; exact Epc1|now rewrite Hx1].
  - intros g Hg. rewrite Hlen in Hg. rewrite Hget. destruct (Nat.eqb_spec g f) as [->|E].
    + destruct (fut_ok_frame cfg tr evs f x Hneu (g_fut _ _ _ _ G f Hf)) as (A & B & C & D & E & F).
      split; [exact A|]. split; [exact B|]. split; [exact C|]. split; [exact D|]. split; [|exact F].
      intros _. exists t. right. left. reflexivity.
    + apply fut_ok_frame; auto. apply (g_fut _ _ _ _ G g Hg).
  - intros tk Htk. change (st_ring s') with (st_ring s1) in *. rewrite Hr in *.
    pose proof (g_tick _ _ _ _ G tk Htk) as J. destruct (logv (st_ring s) tk) as [|f0 n a wk]; [exact Logic.I|].
    cbn [job_ok] in *. destruct (Heqv f0) as (E1 & E2 & _). rewrite Hlen, E1, E2.
    destruct J as (A & B & C & D). repeat split; auto. eapply started_mono; eauto.
  - apply trace_ok_app_neutral; auto. apply (g_trace _ _ _ _ G).
  - apply starts_fun_app_neutral; auto. apply (g_starts _ _ _ _ G).
Qed.

(* ---------------------------------------------------------------------------------------- *)
(* steps inside push / pop                                                                   *)
(* ---------------------------------------------------------------------------------------- *)
Lemma ginv_any cfg own s tr s' evs t :
  GInv cfg own s tr ->
  length (st_futs s') = length (st_futs s) ->
  RInv (st_ring s') (inflight s') ->
  (forall x, x <> t -> get_thread s' x = get_thread s x) ->
  mention_sub s s' t ->
  (forall x, x <> t -> thread_ok cfg s tr x (pc_of s x) -> thread_ok cfg s' (evs ++ tr) x (pc_of s x)) ->
  thread_ok cfg s' (evs ++ tr) t (pc_of s' t) ->
  (forall f, (f < length (st_futs s))%nat -> fut_ok cfg (evs ++ tr) f (get_fut s' f)) ->
  (forall tk, r_head (st_ring s') <= tk < r_tail (st_ring s') ->
              job_ok (PhQueued tk) s' (evs ++ tr) (logv (st_ring s') tk)) ->
  trace_ok cfg (evs ++ tr) -> starts_fun (evs ++ tr) ->
  GInv cfg own s' (evs ++ tr).
Proof.
  intros G Hlen HR Hx Hm Hoth Hme Hfut Htick Htr Hst. constructor; auto.
  - rewrite Hlen. apply (g_nfut _ _ _ _ G).
  - intros x f Hxf. apply (g_own _ _ _ _ G). destruct (Nat.eq_dec x t) as [->|E]; [now apply Hm|].
    unfold pc_of, script_of in *. now rewrite Hx in Hxf.
  - intro x. destruct (Nat.eq_dec x t) as [->|E]; [exact Hme|].
    replace (pc_of s' x) with (pc_of s x) by (unfold pc_of; now rewrite Hx).
    apply Hoth; auto. apply (g_thr _ _ _ _ G).
  - intros f Hf. apply Hfut. now rewrite <- Hlen.
Qed.

Definition rpc_of (p : pc) : option rpc := match p with PRing _ r => Some r | _ => None end.

Lemma rinv_lift_step s s' t k rp r' rp' revs :
  RInv (st_ring s) (inflight s) -> pc_of s t = PRing k rp ->
  ring_step (st_ring s) rp = (r', rp', revs) -> st_ring s' = r' ->
  (forall x, x <> t -> get_thread s' x = get_thread s x) ->
  (rpc_of (pc_of s' t) = Some rp' \/ rpc_of (pc_of s' t) = None) ->
  RInv (st_ring s') (inflight s').
Proof.
  intros I Epc Hrs Hr Hx Hn.
  assert (Hfl : inflight s t = Some rp) by (unfold inflight; now rewrite Epc).
  pose proof (rinv_step _ _ t _ _ _ _ I Hfl Hrs) as I1. rewrite Hr.
  destruct Hn as [Hn|Hn].
  - apply (rinv_ext _ _ _ I1). intro x. unfold fupd. destruct (Nat.eqb_spec x t) as [->|E].
    + unfold inflight. unfold rpc_of in Hn. destruct (pc_of s' t); try discriminate. exact Hn.
    + unfold inflight, pc_of. now rewrite Hx.
  - apply (rinv_ext _ _ _ (rinv_drop _ _ t I1)). intro x. unfold fupd. destruct (Nat.eqb_spec x t) as [->|E].
    + unfold inflight. unfold rpc_of in Hn. destruct (pc_of s' t); try discriminate; reflexivity.
    + unfold inflight, pc_of. now rewrite Hx.
Qed.

(* the step does not claim a ticket: log, head and tail stay *)
Lemma step_ring_quiet cfg own s tr t k rp r' rp' revs p' evs :
  GInv cfg own s tr -> (t < nthreads s)%nat -> pc_of s t = PRing k rp ->
  ring_step (st_ring s) rp = (r', rp', revs) ->
  r_log r' = r_log (st_ring s) -> r_head r' = r_head (st_ring s) -> r_tail r' = r_tail (st_ring s) ->
  (rpc_of p' = Some rp' \/ rpc_of p' = None) ->
  (forall f, client_fut p' = Some f -> client_fut (PRing k rp) = Some f) ->
  thread_ok cfg s tr t p' ->
  forallb neutral evs = true ->
  GInv cfg own (goto (set_ring s r') t p') (evs ++ tr).
Proof.
  intros G Hlt Epc Hrs Hl Hh Ht Hrp Hcf Hme Hn.
  assert (Hlt1 : (t < nthreads (set_ring s r'))%nat) by exact Hlt.
  assert (Hx : forall x, x <> t -> get_thread (goto (set_ring s r') t p') x = get_thread s x).
  { intros x E. now rewrite get_thread_goto_other. }
  apply (ginv_frame cfg own s tr _ evs t G); auto.
  - eapply (rinv_lift_step s _ t k rp r' rp' revs); eauto.
    + apply (g_ring _ _ _ _ G).
    + now rewrite pc_goto_same.
  - intros x E. left. unfold pc_of, script_of. now rewrite Hx.
  - intros f [H|H].
    + rewrite pc_goto_same in H by exact Hlt1. left. rewrite Epc. auto.
    + rewrite script_goto_same in H by exact Hlt1. now right.
  - rewrite pc_goto_same by exact Hlt1.
    apply (thread_ok_frame cfg s tr _ _ t p'); [reflexivity|exact Hl|apply incl_app_r|exact Hme].
Qed.

Lemma fut_ok_phase_swap cfg tr evs f x ph :
  forallb neutral evs = true -> fut_ok cfg tr f x ->
  is_idle ph = is_idle (f_phase x) -> is_signalled ph = is_signalled (f_phase x) ->
  ran_b ph = ran_b (f_phase x) -> done_b ph (f_serial x) = false ->
  fut_ok cfg (evs ++ tr) f (fut_phase x ph).
Proof.
  intros Hn H E1 E2 E3 E4. destruct (fut_ok_frame cfg tr evs f x Hn H) as (A & B & C & D & E & F).
  unfold fut_ok. cbn [fut_phase f_joinable f_sig f_phase f_serial f_state f_result f_aborting].
  rewrite E1, E2, E3, E4. split; [exact A|]. split; [exact B|]. split; [exact C|]. split; [discriminate|].
  split; [exact E|exact F].
Qed.

Lemma popread_lt s x k h : RInv (st_ring s) (inflight s) -> pc_of s x = PRing k (PopRead h) ->
  0 <= h < r_tail (st_ring s).
Proof.
  intros I E. assert (Hfl : inflight s x = Some (PopRead h)) by (unfold inflight; now rewrite E).
  pose proof (ri_thr _ _ I x _ Hfl) as H. cbn in H. pose proof (ri_head _ _ I). lia.
Qed.

Lemma step_push_claim cfg own s tr t k v :
  GInv cfg own s tr -> (t < nthreads s)%nat ->
  pc_of s t = PRing k (PushCas v (r_tail (st_ring s))) ->
  let r := st_ring s in
  let r' := mkRing (r_cap r) (r_tail r + 1) (r_head r) (r_slots r) (r_log r ++ [v]) in
  GInv cfg own
       (goto (fold_left (ghost_ring t) [RPushClaim (r_tail r) v] (set_ring s r')) t (PRing k (PushWrite v (r_tail r))))
       ([EvPushClaim t (r_tail r) v] ++ tr).
Proof.
  intros G Hlt Epc r r'.
  pose proof (g_ring _ _ _ _ G) as RI. fold r in RI.
  pose proof (ri_log _ _ RI) as Hlog. pose proof (ri_head _ _ RI) as Hhd.
  pose proof (g_thr _ _ _ _ G t) as Hme. rewrite Epc in Hme. cbn [thread_ok] in Hme. destruct Hme as [Hjob Hk].
  assert (Hrs : ring_step r (PushCas v (r_tail r)) = (r', PushWrite v (r_tail r), [RPushClaim (r_tail r) v])).
  { cbn [ring_step]. now rewrite Z.eqb_refl. }
  assert (Hlv : forall h, 0 <= h < r_tail r -> logv r' h = logv r h).
  { intros h Hh. unfold logv, r'. cbn [r_log]. apply app_nth1. lia. }
  assert (Hlv2 : logv r' (r_tail r) = v).
  { unfold logv, r'. cbn [r_log]. rewrite Hlog. apply logv_new. }
  set (evs := [EvPushClaim t (r_tail r) v]).
  assert (Hneu : forallb neutral evs = true) by reflexivity.
  assert (Hi : incl tr (evs ++ tr)) by apply incl_app_r.
  cbn [fold_left ghost_ring].
  destruct v as [|f n a wk].
  - (* null job: no future involved *)
    set (s' := goto (set_ring s r') t (PRing k (PushWrite JNull (r_tail r)))).
    assert (Hx : forall x, x <> t -> get_thread s' x = get_thread s x).
    { intros x E. unfold s'. now rewrite get_thread_goto_other. }
    assert (Hpt : pc_of s' t = PRing k (PushWrite JNull (r_tail r))) by (unfold s'; now rewrite pc_goto_same).
    apply (ginv_any cfg own s tr s' evs t G); auto.
    + eapply (rinv_lift_step s s' t); eauto. rewrite Hpt. left. reflexivity.
    + intros f [H|H].
      * rewrite Hpt in H. left. rewrite Epc. exact H.
      * unfold s' in H. rewrite script_goto_same in H by exact Hlt. now right.
    + intros x E H. apply (thread_ok_frame_w cfg s tr s' _ x _); auto.
      intros k0 h Ep. apply Hlv. eapply popread_lt; eauto.
    + rewrite Hpt. exact Logic.I.
    + intros f Hf. apply fut_ok_frame; auto. apply (g_fut _ _ _ _ G f Hf).
    + intros tk Htk. change (st_ring s') with r' in *. cbn [r' r_head r_tail] in Htk.
      destruct (Z.eq_dec tk (r_tail r)) as [->|E]; [rewrite Hlv2; exact Logic.I|].
      rewrite Hlv by lia. apply (job_ok_frame _ s tr); auto. apply (g_tick _ _ _ _ G). fold r. lia.
    + apply trace_ok_app_neutral; auto. apply (g_trace _ _ _ _ G).
    + apply starts_fun_app_neutral; auto. apply (g_starts _ _ _ _ G).
  - (* a call: its future goes from Started to Queued *)
    cbn [job_ok] in Hjob. destruct Hjob as (Hf & Hph & Hser & Hst).
    change (get_fut (set_ring s r') f) with (get_fut s f).
    set (x' := fut_phase (get_fut s f) (PhQueued (r_tail r))).
    set (s' := goto (put_fut (set_ring s r') f x') t (PRing k (PushWrite (JCall f n a wk) (r_tail r)))).
    assert (Hcf : client_fut (pc_of s t) = Some f).
    { rewrite Epc. cbn. destruct k; subst; try discriminate; reflexivity. }
    assert (Hx : forall x, x <> t -> get_thread s' x = get_thread s x).
    { intros x E. unfold s'. now rewrite get_thread_goto_other. }
    assert (Hlt1 : (t < nthreads (put_fut (set_ring s r') f x'))%nat) by exact Hlt.
    assert (Hpt : pc_of s' t = PRing k (PushWrite (JCall f n a wk) (r_tail r))) by (unfold s'; now rewrite pc_goto_same).
    assert (Hget : forall g, get_fut s' g = if Nat.eqb g f then x' else get_fut s g).
    { intro g. unfold s'. rewrite get_fut_goto_put by exact Hf. reflexivity. }
    assert (Hlen : length (st_futs s') = length (st_futs s)) by (unfold s'; now rewrite nfuts_goto_put).
    assert (Hgo : forall g, g <> f -> get_fut s' g = get_fut s g).
    { intros g Hg. rewrite Hget. destruct (Nat.eqb_spec g f); [contradiction|reflexivity]. }
    apply (ginv_any cfg own s tr s' evs t G); auto.
    + eapply (rinv_lift_step s s' t); eauto. rewrite Hpt. left. reflexivity.
    + intros g [H|H].
      * rewrite Hpt in H. left. rewrite Epc. exact H.
      * unfold s' in H. rewrite script_goto_same in H by exact Hlt1. now right.
    + intros x E H. eapply (thread_ok_other cfg s tr s' (evs ++ tr) x _ f t); eauto.
      * intros k0 h Ep. apply Hlv. eapply popread_lt; eauto.
      * apply (g_fut _ _ _ _ G f Hf).
      * rewrite Hph. cbn. eapply own_excl; eauto.
    + rewrite Hpt. exact Logic.I.
    + intros g Hg. rewrite Hget. destruct (Nat.eqb_spec g f) as [->|E].
      * apply fut_ok_phase_swap; auto; try (rewrite Hph; reflexivity). apply (g_fut _ _ _ _ G f Hf).
      * apply fut_ok_frame; auto. apply (g_fut _ _ _ _ G g Hg).
    + intros tk Htk. change (st_ring s') with r' in *. cbn [r' r_head r_tail] in Htk.
      destruct (Z.eq_dec tk (r_tail r)) as [->|E].
      * rewrite Hlv2. cbn [job_ok]. rewrite Hlen, Hget, Nat.eqb_refl. unfold x'. cbn [fut_phase f_phase f_serial].
        repeat split; auto. eapply started_mono; eauto.
      * rewrite Hlv by lia. assert (Htk0 : r_head r <= tk < r_tail r) by lia.
        pose proof (g_tick _ _ _ _ G tk Htk0) as J. fold r in J.
        eapply job_ok_put; eauto. intro Ej. pose proof (job_ok_fut _ _ _ _ _ Ej J) as Ep. congruence.
    + apply trace_ok_app_neutral; auto. apply (g_trace _ _ _ _ G).
    + apply starts_fun_app_neutral; auto. apply (g_starts _ _ _ _ G).
Qed.

Lemma step_pop_claim cfg own s tr t k :
  GInv cfg own s tr -> (t < nthreads s)%nat ->
  pc_of s t = PRing k (PopCas (r_head (st_ring s))) ->
  let r := st_ring s in
  let r' := mkRing (r_cap r) (r_tail r) (r_head r + 1) (r_slots r) (r_log r) in
  GInv cfg own
       (goto (fold_left (ghost_ring t) [RPopClaim (r_head r)] (set_ring s r')) t (PRing k (PopRead (r_head r))))
       ([EvPopClaim t (r_head r)] ++ tr).
Proof.
  intros G Hlt Epc r r'.
  pose proof (g_ring _ _ _ _ G) as RI. fold r in RI.
  pose proof (ri_head _ _ RI) as Hhd.
  assert (Hfl : inflight s t = Some (PopCas (r_head r))) by (unfold inflight; now rewrite Epc).
  pose proof (ri_thr _ _ RI t _ Hfl) as Hrpc. cbn [rpc_ok] in Hrpc. destruct Hrpc as [_ Hpub].
  destruct (Hpub eq_refl) as (Hlt_tail & _).
  assert (Hrs : ring_step r (PopCas (r_head r)) = (r', PopRead (r_head r), [RPopClaim (r_head r)])).
  { cbn [ring_step]. now rewrite Z.eqb_refl. }
  assert (Hlv : forall h, logv r' h = logv r h) by reflexivity.
  assert (Htick : job_ok (PhQueued (r_head r)) s tr (logv r (r_head r))).
  { apply (g_tick _ _ _ _ G). fold r. lia. }
  set (evs := [EvPopClaim t (r_head r)]).
  assert (Hneu : forallb neutral evs = true) by reflexivity.
  assert (Hi : incl tr (evs ++ tr)) by apply incl_app_r.
  cbn [fold_left ghost_ring].
  change (nth (Z.to_nat (r_head r)) (r_log (st_ring (set_ring s r'))) JNull) with (logv r (r_head r)).
  destruct (logv r (r_head r)) as [|f n a wk] eqn:Elog.
  - set (s' := goto (set_ring s r') t (PRing k (PopRead (r_head r)))).
    assert (Hx : forall x, x <> t -> get_thread s' x = get_thread s x).
    { intros x E. unfold s'. now rewrite get_thread_goto_other. }
    assert (Hpt : pc_of s' t = PRing k (PopRead (r_head r))) by (unfold s'; now rewrite pc_goto_same).
    apply (ginv_any cfg own s tr s' evs t G); auto.
    + eapply (rinv_lift_step s s' t); eauto. rewrite Hpt. left. reflexivity.
    + intros f [H|H].
      * rewrite Hpt in H. left. rewrite Epc. exact H.
      * unfold s' in H. rewrite script_goto_same in H by exact Hlt. now right.
    + intros x E H. apply (thread_ok_frame cfg s tr s' _ x _); auto.
    + rewrite Hpt. cbn [thread_ok]. change (st_ring s') with r'. rewrite Hlv, Elog. exact Logic.I.
    + intros f Hf. apply fut_ok_frame; auto. apply (g_fut _ _ _ _ G f Hf).
    + intros tk Htk. change (st_ring s') with r' in *. cbn [r' r_head r_tail] in Htk. rewrite Hlv.
      apply (job_ok_frame _ s tr); auto. apply (g_tick _ _ _ _ G). fold r. lia.
    + apply trace_ok_app_neutral; auto. apply (g_trace _ _ _ _ G).
    + apply starts_fun_app_neutral; auto. apply (g_starts _ _ _ _ G).
  - cbn [job_ok] in Htick. destruct Htick as (Hf & Hph & Hser & Hst).
    change (get_fut (set_ring s r') f) with (get_fut s f).
    set (x' := fut_phase (get_fut s f) (PhTaken t)).
    set (s' := goto (put_fut (set_ring s r') f x') t (PRing k (PopRead (r_head r)))).
    assert (Hx : forall x, x <> t -> get_thread s' x = get_thread s x).
    { intros x E. unfold s'. now rewrite get_thread_goto_other. }
    assert (Hlt1 : (t < nthreads (put_fut (set_ring s r') f x'))%nat) by exact Hlt.
    assert (Hpt : pc_of s' t = PRing k (PopRead (r_head r))) by (unfold s'; now rewrite pc_goto_same).
    assert (Hget : forall g, get_fut s' g = if Nat.eqb g f then x' else get_fut s g).
    { intro g. unfold s'. rewrite get_fut_goto_put by exact Hf. reflexivity. }
    assert (Hlen : length (st_futs s') = length (st_futs s)) by (unfold s'; now rewrite nfuts_goto_put).
    assert (Hgo : forall g, g <> f -> get_fut s' g = get_fut s g).
    { intros g Hg. rewrite Hget. destruct (Nat.eqb_spec g f); [contradiction|reflexivity]. }
    apply (ginv_any cfg own s tr s' evs t G); auto.
    + eapply (rinv_lift_step s s' t); eauto. rewrite Hpt. left. reflexivity.
    + intros g [H|H].
      * rewrite Hpt in H. left. rewrite Epc. exact H.
      * unfold s' in H. rewrite script_goto_same in H by exact Hlt1. now right.
    + intros x E H. eapply (thread_ok_other cfg s tr s' (evs ++ tr) x _ f t); eauto.
      * apply logv_compat_log. reflexivity.
      * apply (g_fut _ _ _ _ G f Hf).
      * rewrite Hph. exact Logic.I.
    + rewrite Hpt. cbn [thread_ok]. change (st_ring s') with r'. rewrite Hlv, Elog. cbn [job_ok].
      rewrite Hlen, Hget, Nat.eqb_refl. unfold x'. cbn [fut_phase f_phase f_serial].
      repeat split; auto. eapply started_mono; eauto.
    + intros g Hg. rewrite Hget. destruct (Nat.eqb_spec g f) as [->|E].
      * apply fut_ok_phase_swap; auto; try (rewrite Hph; reflexivity). apply (g_fut _ _ _ _ G f Hf).
      * apply fut_ok_frame; auto. apply (g_fut _ _ _ _ G g Hg).
    + intros tk Htk. change (st_ring s') with r' in *. cbn [r' r_head r_tail] in Htk. rewrite Hlv.
      assert (Htk0 : r_head r <= tk < r_tail r) by lia.
      pose proof (g_tick _ _ _ _ G tk Htk0) as J. fold r in J.
      eapply job_ok_put; eauto. intro Ej. pose proof (job_ok_fut _ _ _ _ _ Ej J) as Ep.
      rewrite Hph in Ep. inversion Ep. lia.
    + apply trace_ok_app_neutral; auto. apply (g_trace _ _ _ _ G).
    + apply starts_fun_app_neutral; auto. apply (g_starts _ _ _ _ G).
Qed.

Ltac inv_step Hs := inversion Hs; subst; clear Hs.

Ltac goto_case G Elt Epc :=
  eapply (ginv_goto _ _ _ _ _ _ _ _ G);
  [ apply same_but_threads; reflexivity | exact Elt | rewrite Epc; exact Logic.I | .. ].

Lemma join_or_inv cfg own s tr s1 t f a s' evs :
  GInv cfg own s tr -> same_but s s1 t -> (t < nthreads s)%nat -> non_ring (pc_of s t) ->
  (client_fut (pc_of s t) = Some f \/ mentions (script_of s t) f) ->
  join_or cfg s1 t f a = (s', evs) -> GInv cfg own s' (rev evs ++ tr).
Proof.
  intros G SB Hlt Hnr Hf Hs. pose proof SB as (Hfu & _).
  unfold join_or in Hs. rewrite (get_fut_same s s1 f Hfu) in Hs.
  destruct (f_joinable (get_fut s f)) eqn:Ej.
  - inv_step Hs. apply (ginv_goto cfg own s tr s1 [] t _ G SB Hlt Hnr); cbn; auto.
    intros f0 E. inversion E; subst. exact Hf.
  - unfold finish_join in Hs. destruct a; inv_step Hs.
    + apply (ginv_goto cfg own s tr s1 [] t _ G SB Hlt Hnr); cbn; auto.
      intros f0 E. inversion E; subst. exact Hf.
    + apply (ginv_goto cfg own s tr s1 [_] t _ G SB Hlt Hnr); cbn; auto. discriminate.
    + apply (ginv_goto cfg own s tr s1 [_] t _ G SB Hlt Hnr); cbn; auto. discriminate.
    + apply (ginv_goto cfg own s tr s1 [_; _] t _ G SB Hlt Hnr); cbn; auto. discriminate.
Qed.

Ltac cfut Epc := cbn; first [ discriminate | intros ? E; inversion E; subst; rewrite Epc; left; reflexivity ].
Ltac entry := cbn; first [ exact Logic.I | left; reflexivity | right; eexists; reflexivity ].
Ltac simple_goto G Elt Epc := goto_case G Elt Epc; [ entry | cfut Epc | cbn; auto | reflexivity ].

Lemma step_inv cfg own s tr t clk s' evs :
  wf_cfg cfg own -> GInv cfg own s tr -> step cfg s t clk = (s', evs) -> GInv cfg own s' (rev evs ++ tr).
Proof.
  intros W G Hs. unfold step in Hs.
  destruct (t <? length (st_threads s))%nat eqn:Elt; cbn [negb] in Hs.
  2:{ inv_step Hs. exact G. }
  apply Nat.ltb_lt in Elt. fold (nthreads s) in Elt.
  pose proof (g_thr _ _ _ _ G t) as Hme.
  change (t_pc (get_thread s t)) with (pc_of s t) in Hs.
  destruct (pc_of s t) eqn:Epc.
  - (* PIdle *)
    change (t_script (get_thread s t)) with (script_of s t) in Hs.
    destruct (script_of s t) as [|[i op] rest] eqn:Esc.
    { inv_step Hs. simple_goto G Elt Epc. }
    pose proof (same_but_pop s t i op rest Esc) as SB.
    set (s1 := set_threads s (upd t (mkThread PIdle rest i) (st_threads s))) in *.
    assert (Epc1 : pc_of s1 t = PIdle).
    { unfold pc_of, s1. rewrite get_thread_upd by exact Elt. now rewrite Nat.eqb_refl. }
    assert (Hnr : non_ring (pc_of s t)) by (rewrite Epc; exact Logic.I).
    assert (Hmen : forall f, op_fut op = Some f -> mentions (script_of s t) f).
    { intros f Hf. exists i, op. rewrite Esc. split; [now left|exact Hf]. }
    destruct op.
    + (* CStart *)
      change (st_pool s1) with (st_pool s) in Hs. destruct (st_pool s).
      * exact (join_or_inv cfg own s tr s1 t f _ _ _ G SB Elt Hnr (or_intror (Hmen f eq_refl)) Hs).
      * inv_step Hs. apply (ginv_goto cfg own s tr s1 [] t _ G SB Elt Hnr); [exact Logic.I| |exact Logic.I|reflexivity].
        cbn. intros f0 E. inversion E; subst. right. apply Hmen. reflexivity.
    + (* CAbort *)
      inv_step Hs. apply (step_cabort cfg own s tr s1 t f i G SB Elt Epc Epc1). apply Hmen. reflexivity.
    + (* CJoin *) exact (join_or_inv cfg own s tr s1 t f _ _ _ G SB Elt Hnr (or_intror (Hmen f eq_refl)) Hs).
    + (* CGet *) exact (join_or_inv cfg own s tr s1 t f _ _ _ G SB Elt Hnr (or_intror (Hmen f eq_refl)) Hs).
    + (* CCheck *)
      inv_step Hs. destruct SB as (B1 & B2 & B3 & B4 & B5).
      apply (ginv_nonring cfg own s tr s1 [_] t G); auto.
      * rewrite Epc1. exact Logic.I.
      * intros g [H|H]; [rewrite Epc1 in H; discriminate|right; auto].
      * rewrite Epc1. exact Logic.I.
    + (* CPause *)
      inv_step Hs. destruct SB as (B1 & B2 & B3 & B4 & B5).
      apply (ginv_nonring cfg own s tr s1 [_] t G); auto.
      * rewrite Epc1. exact Logic.I.
      * intros g [H|H]; [rewrite Epc1 in H; discriminate|right; auto].
      * rewrite Epc1. exact Logic.I.
    + (* CDestroy *) exact (join_or_inv cfg own s tr s1 t f _ _ _ G SB Elt Hnr (or_intror (Hmen f eq_refl)) Hs).
    + (* CResume: c_nested = false, a pause *)
      destruct W as (_ & _ & Wn). rewrite Wn in Hs.
      inv_step Hs. destruct SB as (B1 & B2 & B3 & B4 & B5).
      apply (ginv_nonring cfg own s tr s1 [_] t G); auto.
      * rewrite Epc1. exact Logic.I.
      * intros g [H|H]; [rewrite Epc1 in H; discriminate|right; auto].
      * rewrite Epc1. exact Logic.I.
  - (* PDone *) inv_step Hs. exact G.
  - (* PRing *)
    pose proof (g_ring _ _ _ _ G) as RI.
    assert (Hfl : inflight s t = Some r) by (unfold inflight; now rewrite Epc).
    pose proof (ri_thr _ _ RI t _ Hfl) as Hrpc.
    destruct r; cbn [ring_step] in Hs.
    + (* PushRdTail *)
      inv_step Hs.
      eapply (step_ring_quiet cfg own s tr t k _ _ _ [] _ [] G Elt Epc eq_refl); try reflexivity; auto; try (left; reflexivity).
    + (* PushRdSlot *)
      destruct (s_tail (get_slot (st_ring s) t0) =? t0) eqn:E; inv_step Hs.
      * eapply (step_ring_quiet cfg own s tr t k (PushRdSlot v t0) _ (PushCas v t0) [] _ [] G Elt Epc); try reflexivity; auto; try (left; reflexivity).
        cbn [ring_step]. now rewrite E.
      * eapply (step_ring_quiet cfg own s tr t k (PushRdSlot v t0) _ (PushRet false) [] _ [] G Elt Epc); try reflexivity.
        -- cbn [ring_step]. now rewrite E.
        -- right. destruct k; reflexivity.
        -- destruct k; cbn; auto; discriminate.
        -- cbn [thread_ok] in Hme. destruct Hme as [Hj Hk]. destruct k; cbn; auto; subst; exact Hj.
    + (* PushCas *)
      destruct (r_tail (st_ring s) =? t0) eqn:E.
      * apply Z.eqb_eq in E. subst t0. inv_step Hs. exact (step_push_claim cfg own s tr t k v G Elt Epc).
      * inv_step Hs.
        eapply (step_ring_quiet cfg own s tr t k (PushCas v t0) _ (PushRdSlot v _) [] _ [] G Elt Epc); try reflexivity; auto; try (left; reflexivity).
        cbn [ring_step]. now rewrite E.
    + (* PushWrite *)
      inv_step Hs.
      eapply (step_ring_quiet cfg own s tr t k _ _ _ [] _ [] G Elt Epc eq_refl); try reflexivity; auto; try (left; reflexivity).
    + (* PushPublish *)
      inv_step Hs.
      eapply (step_ring_quiet cfg own s tr t k _ _ _ [] _ [] G Elt Epc eq_refl); try reflexivity.
      * right. destruct k; reflexivity.
      * destruct k; cbn; auto; discriminate.
      * destruct k; exact Logic.I.
    + (* PopRdHead *)
      inv_step Hs.
      eapply (step_ring_quiet cfg own s tr t k _ _ _ [] _ [] G Elt Epc eq_refl); try reflexivity; auto; try (left; reflexivity).
    + (* PopRdSlot *)
      destruct (s_head (get_slot (st_ring s) h) =? h) eqn:E; inv_step Hs.
      * eapply (step_ring_quiet cfg own s tr t k (PopRdSlot h) _ (PopCas h) [] _ [] G Elt Epc); try reflexivity; auto; try (left; reflexivity).
        cbn [ring_step]. now rewrite E.
      * eapply (step_ring_quiet cfg own s tr t k (PopRdSlot h) _ (PopRet None) [] _ [] G Elt Epc); try reflexivity.
        -- cbn [ring_step]. now rewrite E.
        -- right. destruct k; reflexivity.
        -- destruct k; cbn; auto; discriminate.
        -- destruct k; exact Logic.I.
    + (* PopCas *)
      destruct (r_head (st_ring s) =? h) eqn:E.
      * apply Z.eqb_eq in E. subst h. inv_step Hs. exact (step_pop_claim cfg own s tr t k G Elt Epc).
      * inv_step Hs.
        eapply (step_ring_quiet cfg own s tr t k (PopCas h) _ (PopRdSlot _) [] _ [] G Elt Epc); try reflexivity; auto; try (left; reflexivity).
        cbn [ring_step]. now rewrite E.
    + (* PopRead *)
      inv_step Hs. cbn [rpc_ok] in Hrpc. destruct Hrpc as [_ (_ & _ & _ & Hdata)].
      eapply (step_ring_quiet cfg own s tr t k _ _ _ _ _ [_] G Elt Epc eq_refl); try reflexivity; auto; try (left; reflexivity).
      cbn [thread_ok] in *. rewrite Hdata. exact Hme.
    + (* PopRelease *)
      inv_step Hs.
      eapply (step_ring_quiet cfg own s tr t k _ _ _ [] _ [] G Elt Epc eq_refl); try reflexivity.
      * right. destruct k; try reflexivity. cbn. destruct (c_fixed cfg); reflexivity.
      * destruct k; cbn; auto; try discriminate. destruct (c_fixed cfg); discriminate.
      * cbn [thread_ok] in Hme. destruct k; cbn; auto. destruct (c_fixed cfg); exact Hme.
    + (* PushRet *) contradiction.
    + (* PopRet *) contradiction.
  - (* PFs *)
    destruct (fs_step (c_fixed cfg) (get_fs s w) o) as [g' o'] eqn:Efs.
    assert (SB : same_but s (set_fs s w g') t) by (apply same_but_threads; destruct w; reflexivity).
    destruct o' as [o2|]; inv_step Hs.
    + apply (ginv_goto cfg own s tr _ [] t _ G SB Elt); [rewrite Epc; exact Logic.I|exact Logic.I| |exact Hme|reflexivity].
      rewrite Epc. cbn. auto.
    + assert (Hev : forallb neutral (rev (match k with KWSet JNull => [EvExit t] | _ => [] end)) = true).
      { destruct k; try reflexivity. destruct j; reflexivity. }
      apply (ginv_goto cfg own s tr _ _ t _ G SB Elt); [rewrite Epc; exact Logic.I| | | |exact Hev].
      * destruct k; cbn; try exact Logic.I; try (right; eexists; reflexivity); try (left; reflexivity).
        destruct j; exact Logic.I.
      * rewrite Epc. destruct k; cbn; auto; try discriminate. destruct j; cbn; discriminate.
      * eapply thread_ok_frame; [reflexivity|reflexivity|apply incl_app_r|].
        cbn [thread_ok] in Hme. destruct k; cbn [after_fs thread_ok]; auto.
        destruct j; [exact Logic.I|exact Hme].
  - (* CSpin *)
    destruct (st_plock s); inv_step Hs; [exact G|].
    simple_goto G Elt Epc.
  - (* CRecheck *)
    destruct (st_pool s); inv_step Hs; simple_goto G Elt Epc.
  - (* CSwapPool *)
    inv_step Hs; simple_goto G Elt Epc.
  - (* CUnlockPool *)
    eapply (join_or_inv cfg own s tr _ t f); eauto.
    + apply same_but_threads; reflexivity.
    + rewrite Epc; exact Logic.I.
    + rewrite Epc. left. reflexivity.
  - (* CJoinWait *)
    destruct (f_sig (get_fut s f)) eqn:Esig; inv_step Hs; [|exact G].
    simple_goto G Elt Epc.
  - (* CJoinReset *)
    assert (Hf : (f < length (st_futs s))%nat).
    { rewrite (g_nfut _ _ _ _ G). apply (g_own _ _ _ _ G t f). left. rewrite Epc. reflexivity. }
    unfold finish_join in Hs. destruct a; inv_step Hs.
    + exact (step_cjoinreset cfg own s tr t f _ _ [] G Elt Epc (or_intror (ex_intro _ arg (ex_intro _ work eq_refl)))
                             (fun e (H : In e []) => match H with end)).
    + refine (step_cjoinreset cfg own s tr t f _ _ [_] G Elt Epc (or_introl eq_refl) _).
      intros e [<-|[]]. eexists. left. reflexivity.
    + refine (step_cjoinreset cfg own s tr t f _ _ [_] G Elt Epc (or_introl eq_refl) _).
      intros e [<-|[]]. eexists. right. left. rewrite get_fut_put by exact Hf. rewrite Nat.eqb_refl. reflexivity.
    + refine (step_cjoinreset cfg own s tr t f _ _ [_; _] G Elt Epc (or_introl eq_refl) _).
      intros e [<-|[<-|[]]]; [exists 0%nat; right; right; right; eexists; reflexivity|eexists; right; right; left; reflexivity].
  - (* CStartSet *)
    inv_step Hs. exact (step_cstartset cfg own s tr t f arg work G Elt Epc).
  - (* CInc *) inv_step Hs; simple_goto G Elt Epc.
  - (* CRdProc *) inv_step Hs; simple_goto G Elt Epc.
  - (* CRdTc *) inv_step Hs.
    goto_case G Elt Epc; [ | | | reflexivity].
    + destruct (_ =? 1); [exact Logic.I|]. destruct (_ <=? 0); [destruct (_ <? _); exact Logic.I|].
      destruct (_ && _); exact Logic.I.
    + destruct (_ =? 1); [cfut Epc|]. destruct (_ <=? 0); [destruct (_ <? _); cfut Epc|].
      destruct (_ && _); cfut Epc.
    + destruct (_ =? 1); [exact Logic.I|]. destruct (_ <=? 0); [destruct (_ <? _); exact Logic.I|].
      destruct (_ && _); exact Logic.I.
  - (* CGrowLock *) destruct (st_mtx s); inv_step Hs; [exact G|]. simple_goto G Elt Epc.
  - (* CGrowInc *) destruct (_ <? _); inv_step Hs; simple_goto G Elt Epc.
  - (* CGrowUnlock *) inv_step Hs. destruct ctx; simple_goto G Elt Epc.
  - (* CSpawn *) inv_step Hs. exact (step_cspawn cfg own s tr t G Elt Epc).
  - (* CShrinkLock *) destruct (st_mtx s); inv_step Hs; [exact G|]. simple_goto G Elt Epc.
  - (* CShrinkChk *) destruct (_ <? _); inv_step Hs; simple_goto G Elt Epc.
  - (* CShrinkDec *) inv_step Hs. destruct (c_fixed cfg); simple_goto G Elt Epc.
  - (* CShrinkUnlock *) inv_step Hs; simple_goto G Elt Epc.
  - (* WCall *)
    destruct W as (_ & _ & Wn). rewrite Wn in Hs. cbn [andb] in Hs.
    destruct ((work =? 3)%nat && negb (f_aborting (get_fut s f))); inv_step Hs; [exact G|].
    exact (step_wcall cfg own s tr t f n arg work G Elt Epc).
  - (* WStore *) inv_step Hs. exact (step_wstore cfg own s tr t f n v G Elt Epc).
  - (* WRdAbort *)
    inv_step Hs. goto_case G Elt Epc; [entry | cfut Epc | | reflexivity].
    cbn [thread_ok app] in *. destruct Hme as (Hf & Hph & Hser & a & wk & w & D1 & D2 & D3 & D4 & D5).
    split; [exact Hf|]. split; [exact Hph|]. split; [exact Hser|]. exists a, wk, w. repeat split; auto.
    * apply D4; auto.
    * apply D4; auto.
    * intro E. inversion E as [E1].
      destruct (g_fut _ _ _ _ G f Hf) as (_ & _ & _ & _ & F5 & _). rewrite Hser in F5. auto.
  - (* WSwap *) inv_step Hs. exact (step_wswap cfg own s tr t f n ab G Elt Epc).
  - (* WSigSet *) inv_step Hs. exact (step_wsigset cfg own s tr t f n G Elt Epc).
  - (* WIncProc *) inv_step Hs; simple_goto G Elt Epc.
  - (* WBcast *) inv_step Hs; simple_goto G Elt Epc.
Qed.
