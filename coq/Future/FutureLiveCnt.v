(* C10, liveness (A): preservation of the counting clauses of LInv. *)
From Coq Require Import ZArith List Bool Lia Arith.
From Coq Require Import ZifyBool ZifyNat.
From Common Require Import ListAux.
From Future Require Import FutureModel FutureRingProofs FutureProofs FutureStep FutureLiveness FutureNested FutureLiveDefs FutureLiveStep.
Import ListNotations.
Local Open Scope Z_scope.

Ltac all_weights :=
  cbn [w_mh w_ph w_lnd w_hold w_spawn w_dec w_shpre w_inc w_g1 w_g2 w_gr w_fsp w_wait w_pushing w_popping
       callz nullz is_null t_pc worker_entry which_eqb] in *.

Ltac nulls_norm G :=
  rewrite ?(w_lnd_app _ _ _ _ _ G), ?(w_hold_app _ _ _ _ _ G);
  try (rewrite nulls_push by lia); try (rewrite nulls_pop by lia).

  Lemma w_mh_nonneg p : 0 <= w_mh p.
  Proof. destruct p; cbn; try lia. destruct k; lia. destruct k; lia. Qed.
  Lemma w_ph_nonneg p : 0 <= w_ph p.
  Proof. destruct p; cbn; lia. Qed.

  Lemma w_dec_le_mh p : 0 <= w_dec p <= w_mh p.
  Proof. destruct p; cbn; try lia; try (destruct k; try lia; destruct r; lia); destruct ctx; lia. Qed.
  Lemma w_shpre_le_mh p : 0 <= w_shpre p <= w_mh p.
  Proof. destruct p; cbn; try lia; try (destruct k; try lia; destruct r; lia); destruct ctx; lia. Qed.

  Lemma mh_le1 cfg s : LInv cfg s -> wsum w_mh s <= 1.
  Proof. intro L. rewrite (l_mtx _ _ L). destruct (st_mtx s); cbn; lia. Qed.

Section Cnt.
  Variable cfg : config.
  Variable own : nat -> nat.
  Hypothesis Hfix : c_fixed cfg = true.
  Hypothesis Hsig : c_sigfix cfg = true.
  Hypothesis Hnest : c_nested cfg = false.


  Lemma step_mtx s t clk s' evs :
    (t < nthreads s)%nat -> LInv cfg s -> step cfg s t clk = (s', evs) -> cl_mtx s'.
  Proof.
    intros Hlt L Hs. pose proof (l_pc _ _ L t) as Hok. pose proof (l_mtx _ _ L) as H0. unfold cl_mtx in H0.
    pose proof (wsum_member w_mh s t w_mh_nonneg Hlt) as Hm.
    split_step cfg s t Hs Hlt Hok Hfix Hsig Hnest; fin Hs; try (stutter (l_mtx _ _ L)).
    all: norm_leaf constr:(s) constr:(t) Hlt Epc; all_weights; rewrite ?Z.sub_0_r, ?Z.add_0_r; try assumption.
    all: try (destruct (st_mtx s)); cbn [b2z] in *; lia.
  Qed.

  Lemma step_plock s t clk s' evs :
    (t < nthreads s)%nat -> LInv cfg s -> step cfg s t clk = (s', evs) -> cl_plock s'.
  Proof.
    intros Hlt L Hs. pose proof (l_pc _ _ L t) as Hok. pose proof (l_plock _ _ L) as H0. unfold cl_plock in H0.
    pose proof (wsum_member w_ph s t w_ph_nonneg Hlt) as Hm.
    split_step cfg s t Hs Hlt Hok Hfix Hsig Hnest; fin Hs; try (stutter (l_plock _ _ L)).
    all: norm_leaf constr:(s) constr:(t) Hlt Epc; all_weights; rewrite ?Z.sub_0_r, ?Z.add_0_r; try assumption.
    all: try (destruct (st_plock s)); cbn [b2z] in *; lia.
  Qed.


  Lemma step_tc s tr t clk s' evs :
    (t < nthreads s)%nat -> GInv cfg own s tr -> LInv cfg s -> step cfg s t clk = (s', evs) -> cl_tc s'.
  Proof.
    intros Hlt G L Hs. pose proof (l_pc _ _ L t) as Hok.
    pose proof (l_tc _ _ L) as H0. pose proof (l_tcpos _ _ L) as H1. unfold cl_tc, cl_tcpos, eff in H0, H1.
    split_step cfg s t Hs Hlt Hok Hfix Hsig Hnest; ring_pre constr:(s) constr:(t) Hs G; fin Hs; try (stutter (l_tc _ _ L)).
    all: norm_leaf constr:(s) constr:(t) Hlt Epc; all_weights; rewrite ?Z.sub_0_r, ?Z.add_0_r; try assumption.
    all: nulls_norm G; rewrite ?Ej; all_weights; lia.
  Qed.


  Hypothesis Hmin : 0 <= c_min cfg.

  Lemma step_tcpos s tr t clk s' evs :
    (t < nthreads s)%nat -> GInv cfg own s tr -> LInv cfg s -> step cfg s t clk = (s', evs) -> cl_tcpos s'.
  Proof.
    intros Hlt G L Hs. pose proof (l_pc _ _ L t) as Hok.
    pose proof (l_tc _ _ L) as H0. pose proof (l_tcpos _ _ L) as H1. unfold cl_tc, cl_tcpos, eff in H0, H1.
    pose proof (l_shpre _ _ L) as H2. unfold cl_shpre in H2.
    pose proof (wsum_member w_shpre s t (fun p => proj1 (w_shpre_le_mh p)) Hlt) as H3.
    pose proof (wsum_excl w_mh w_dec s t w_dec_le_mh Hlt (mh_le1 cfg s L)) as H4.
    split_step cfg s t Hs Hlt Hok Hfix Hsig Hnest; ring_pre constr:(s) constr:(t) Hs G; fin Hs; try (stutter (l_tcpos _ _ L)).
    all: norm_leaf constr:(s) constr:(t) Hlt Epc; all_weights; rewrite ?Z.sub_0_r, ?Z.add_0_r; try assumption.
    all: nulls_norm G; rewrite ?Ej; all_weights; lia.
  Qed.

  Lemma step_shpre s tr t clk s' evs :
    (t < nthreads s)%nat -> GInv cfg own s tr -> LInv cfg s -> step cfg s t clk = (s', evs) -> cl_shpre s'.
  Proof.
    intros Hlt G L Hs. pose proof (l_pc _ _ L t) as Hok.
    pose proof (l_shpre _ _ L) as H2. unfold cl_shpre in H2.
    pose proof (wsum_member w_shpre s t (fun p => proj1 (w_shpre_le_mh p)) Hlt) as H3.
    pose proof (wsum_excl w_mh w_shpre s t w_shpre_le_mh Hlt (mh_le1 cfg s L)) as H4.
    split_step cfg s t Hs Hlt Hok Hfix Hsig Hnest; ring_pre constr:(s) constr:(t) Hs G; fin Hs; try (stutter (l_shpre _ _ L)).
    all: norm_leaf constr:(s) constr:(t) Hlt Epc; all_weights; rewrite ?Z.sub_0_r, ?Z.add_0_r; try assumption.
    all: lia.
  Qed.
End Cnt.
